(* C01/ProofsD.v — ownership: I4 (graph inputs/outputs <-> flags, owner, ref counters), I5 (initializers stored
   under their current name), I6 (graph inputs / initializers have no producer), I7 (owner = None iff no flag).
   Proved for the repaired model (all_fixed). *)
From Coq Require Import ZArith List Bool Arith Lia.
From IRV Require Import Base.Exn C01.Model C01.Store C01.ReadsD.
Import ListNotations.

Definition I4 k s : Prop :=
  (forall v g, (flag k s v = true /\ vgraph s v = Some g) <-> (0 < countb v (iol k s g))%Z) /\
  (forall g v, rc k s g v = countb v (iol k s g)).
Definition I5 s : Prop :=
  (forall g key v, In (key, v) (inits s g) ->
     vname s v = Some key /\ vinit s v = true /\ vgraph s v = Some g /\ key <> NEmpty) /\
  (forall g, NoDup (map fst (inits s g))) /\
  (forall v, vinit s v = true -> exists g key, In (key, v) (inits s g)).
Definition I7 s : Prop := forall v, vgraph s v = None <-> owned s v = false.
(* hpf v = "v has a producer" *)
Definition I6 (hpf : nat -> bool) s : Prop := forall v, flag KIn s v = true \/ vinit s v = true -> hpf v = false.
Definition InvD hpf s : Prop := I4 KIn s /\ I4 KOut s /\ I5 s /\ I7 s /\ I6 hpf s.

Lemma I4_any k hpf s : InvD hpf s -> I4 k s.
Proof. intros (H1 & H2 & _). destruct k; assumption. Qed.

Lemma kind_eqb_refl k : kind_eqb k k = true. Proof. destruct k; reflexivity. Qed.
Definition other k := match k with KIn => KOut | KOut => KIn end.
Lemma kind_eqb_other k : kind_eqb k (other k) = false. Proof. destruct k; reflexivity. Qed.
Lemma kind_cases k k' : k' = k \/ k' = other k. Proof. destruct k, k'; auto. Qed.

Lemma owned_alt s v : owned s v = flag KIn s v || flag KOut s v || vinit s v. Proof. reflexivity. Qed.

Ltac eqb_cases := repeat match goal with
  | |- context [Nat.eqb ?a ?b] => destruct (Nat.eqb_spec a b); subst
  | H : context [Nat.eqb ?a ?b] |- _ => destruct (Nat.eqb_spec a b); subst
  end.

(* a value that carries no flag occurs in no collection *)
Lemma unowned_absent hpf s v : InvD hpf s -> owned s v = false ->
  (forall k g, countb v (iol k s g) = 0%Z) /\ (forall g key, ~ In (key, v) (inits s g)).
Proof.
  intros HD Ho. unfold owned in Ho. apply orb_false_iff in Ho. destruct Ho as [Ho Hi]. apply orb_false_iff in Ho.
  destruct Ho as [H1 H2]. split.
  - intros k g. pose proof (countb_nonneg v (iol k s g)).
    destruct (Z.eq_dec (countb v (iol k s g)) 0) as [|Hne]; [assumption|exfalso].
    assert (Hp : (0 < countb v (iol k s g))%Z) by lia.
    apply (proj1 (I4_any k hpf s HD)) in Hp. destruct k; destruct Hp; congruence.
  - intros g key Hin. destruct HD as (_ & _ & (H5 & _) & _). apply H5 in Hin. destruct Hin as (_ & ? & _). congruence.
Qed.

(* ---- acquiring one more occurrence of v in collection k of graph g *)
Lemma InvD_own hpf k s g v l' : InvD hpf s -> gcheck s g v = true -> (k = KIn -> hpf v = false) ->
  (forall x, countb x l' = (countb x (iol k s g) + ind (Nat.eqb v x))%Z) ->
  InvD hpf (set_iol k (io_own k s g v) g l').
Proof.
  intros HD Hg Hp Hl.
  assert (Hgv : vgraph s v = None \/ vgraph s v = Some g).
  { unfold gcheck in Hg. destruct (vgraph s v); [right; apply Nat.eqb_eq in Hg; congruence|left; reflexivity]. }
  assert (Hfree : vgraph s v = None -> owned s v = false) by (intros H; apply HD; assumption).
  pose proof HD as (H4i & H4o & (H5a & H5b & H5c) & H7 & H6).
  assert (HI4 : forall k', I4 k' (set_iol k (io_own k s g v) g l')).
  { intros k'. pose proof (I4_any k' hpf s HD) as [Ha Hb]. pose proof (I4_any k hpf s HD) as [Hka Hkb]. split.
    - intros x g0. unfold io_own. autorewrite with rd.
      destruct (kind_cases k k') as [->| ->]; rewrite ?kind_eqb_refl, ?kind_eqb_other; simpl.
      + destruct (Nat.eqb_spec v x) as [<-|Hne]; destruct (Nat.eqb_spec g g0) as [<-|Hng]; rewrite ?Hl; unfold ind;
          rewrite ?Nat.eqb_refl; try (destruct (Nat.eqb_spec v x); [congruence|]); rewrite ?Z.add_0_r.
        * pose proof (countb_nonneg v (iol k s g)). split; [lia|auto].
        * split; [intros [_ H]; congruence|]. intros H. apply Hka in H. destruct H as [_ H].
          destruct Hgv; congruence.
        * apply Hka.
        * apply Hka.
      + destruct (Nat.eqb_spec v x) as [<-|Hne]; [|apply Ha].
        rewrite <- Ha. destruct Hgv as [Hn|Hs]; [|rewrite Hs; tauto].
        specialize (Hfree Hn). unfold owned in Hfree. apply orb_false_iff in Hfree. destruct Hfree as [Hf _].
        apply orb_false_iff in Hf. split; intros [Hfl _]; destruct k; simpl in *; destruct Hf; congruence.
    - intros g0 x. unfold io_own. autorewrite with rd.
      destruct (kind_cases k k') as [->| ->]; rewrite ?kind_eqb_refl, ?kind_eqb_other; simpl; [|apply Hb].
      destruct (Nat.eqb_spec g g0) as [<-|Hng]; simpl; [|apply Hkb].
      rewrite Hl, <- Hkb. unfold ind. destruct (Nat.eqb_spec v x) as [<-|]; lia. }
  split; [apply HI4|]. split; [apply HI4|]. split; [|split].
  - (* I5 *)
    split; [|split].
    + intros g0 key x. unfold io_own. autorewrite with rd. intros Hin. specialize (H5a _ _ _ Hin).
      destruct H5a as (Ha & Hb & Hc & Hd). repeat split; try assumption.
      destruct (Nat.eqb_spec v x) as [<-|]; [|assumption]. destruct Hgv; congruence.
    + intros g0. unfold io_own. autorewrite with rd. apply H5b.
    + intros x. unfold io_own. autorewrite with rd. intros Hx. destruct (H5c x Hx) as (g0 & key & Hin).
      exists g0, key. autorewrite with rd. assumption.
  - (* I7 *)
    intros x. unfold owned, io_own. autorewrite with rd. rewrite !kind_eqb_refl || idtac.
    destruct (Nat.eqb_spec v x) as [<-|Hne].
    + split; [discriminate|]. destruct k; simpl; rewrite ?orb_true_r; discriminate.
    + rewrite !andb_false_r. apply H7.
  - (* I6 *)
    intros x. unfold io_own. autorewrite with rd. destruct (Nat.eqb_spec v x) as [<-|Hne].
    + destruct k; simpl; intros Hx; [apply Hp; reflexivity | apply H6; assumption].
    + rewrite !andb_false_r. apply H6.
Qed.

(* ---- giving up one occurrence of v in collection k of graph g *)
Lemma InvD_disown hpf k s g v l' : InvD hpf s -> (0 < countb v (iol k s g))%Z ->
  (forall x, countb x l' = (countb x (iol k s g) - ind (Nat.eqb v x))%Z) ->
  InvD hpf (io_disown k (set_iol k s g l') g v).
Proof.
  intros HD Hpos Hl.
  pose proof HD as (H4i & H4o & (H5a & H5b & H5c) & H7 & H6).
  pose proof (I4_any k hpf s HD) as [Hka Hkb].
  assert (Hfv : flag k s v = true /\ vgraph s v = Some g) by (apply Hka; assumption).
  destruct Hfv as [Hfl Hgr].
  assert (Hv' : countb v l' = (countb v (iol k s g) - 1)%Z) by (rewrite Hl; unfold ind; rewrite Nat.eqb_refl; reflexivity).
  unfold io_disown. autorewrite with rd. rewrite Hkb.
  destruct (0 <? countb v (iol k s g) - 1)%Z eqn:Ec.
  - (* still listed *)
    apply Z.ltb_lt in Ec.
    assert (HI4 : forall k', I4 k' (set_rc k (set_iol k s g l') g v (countb v (iol k s g) - 1))).
    { intros k'. pose proof (I4_any k' hpf s HD) as [Ha Hb]. split.
      - intros x g0. autorewrite with rd.
        destruct (kind_cases k k') as [->| ->]; rewrite ?kind_eqb_refl, ?kind_eqb_other; simpl; [|apply Ha].
        destruct (Nat.eqb_spec g g0) as [<-|]; [|apply Hka]. rewrite Hl. unfold ind.
        destruct (Nat.eqb_spec v x) as [<-|]; [|rewrite Z.sub_0_r; apply Hka]. split; [lia|auto].
      - intros g0 x. autorewrite with rd.
        destruct (kind_cases k k') as [->| ->]; rewrite ?kind_eqb_refl, ?kind_eqb_other; simpl; [|apply Hb].
        destruct (Nat.eqb_spec g g0) as [<-|]; simpl; [|apply Hkb].
        destruct (Nat.eqb_spec v x) as [<-|]; [lia|]. rewrite Hl, Hkb. unfold ind.
        destruct (Nat.eqb_spec v x); [congruence|lia]. }
    split; [apply HI4|]. split; [apply HI4|]. split; [|split].
    + split; [|split].
      * intros g0 key x. autorewrite with rd. apply H5a.
      * intros g0. autorewrite with rd. apply H5b.
      * intros x. autorewrite with rd. intros Hx. destruct (H5c x Hx) as (g0 & key & Hin). exists g0, key.
        autorewrite with rd. assumption.
    + intros x. unfold owned. autorewrite with rd. apply H7.
    + intros x. autorewrite with rd. apply H6.
  - (* last occurrence: flag off, owner released if nothing else holds the value *)
    apply Z.ltb_ge in Ec. assert (Hc0 : countb v l' = 0%Z) by lia.
    set (s1 := set_flag k (set_rc k (set_iol k s g l') g v (countb v (iol k s g) - 1)) v false).
    assert (Hown1 : owned s1 v = flag (other k) s v || vinit s v).
    { unfold owned, s1. autorewrite with rd. rewrite ?kind_eqb_refl, ?Nat.eqb_refl. destruct k; simpl;
        rewrite ?andb_false_r, ?orb_false_r; simpl; reflexivity. }
    unfold maybe_release. fold s1.
    assert (Hothers : forall g0, g0 <> g -> countb v (iol k s g0) = 0%Z).
    { intros g0 Hne. pose proof (countb_nonneg v (iol k s g0)).
      destruct (Z.eq_dec (countb v (iol k s g0)) 0) as [|Hnz]; [assumption|exfalso].
      assert (Hp : (0 < countb v (iol k s g0))%Z) by lia. apply Hka in Hp. destruct Hp. congruence. }
    assert (HI4k : forall sx, (forall y, flag k sx y = flag k s1 y) -> (forall y, y <> v -> vgraph sx y = vgraph s y) ->
                   (forall g0, iol k sx g0 = iol k s1 g0) -> (forall g0 y, rc k sx g0 y = rc k s1 g0 y) -> I4 k sx).
    { intros sx Hf Hg Hi Hr. split.
      - intros x g0. rewrite Hf, Hi. unfold s1. autorewrite with rd. rewrite kind_eqb_refl. simpl.
        destruct (Nat.eqb_spec v x) as [<-|Hne].
        + split; [intros [H _]; discriminate|]. destruct (Nat.eqb_spec g g0) as [<-|Hng]; [lia|].
          rewrite Hothers by congruence. lia.
        + rewrite (Hg x) by congruence. destruct (Nat.eqb_spec g g0) as [<-|]; [|apply Hka].
          rewrite Hl. unfold ind. destruct (Nat.eqb_spec v x); [congruence|]. rewrite Z.sub_0_r. apply Hka.
      - intros g0 x. rewrite Hr, Hi. unfold s1. autorewrite with rd. rewrite kind_eqb_refl. simpl.
        destruct (Nat.eqb_spec g g0) as [<-|]; simpl; [|apply Hkb].
        destruct (Nat.eqb_spec v x) as [<-|]; [lia|]. rewrite Hl, Hkb. unfold ind.
        destruct (Nat.eqb_spec v x); [congruence|lia]. }
    pose proof (I4_any (other k) hpf s HD) as [Hoa Hob].
    destruct (owned s1 v) eqn:Eo.
    + (* still owned through another flag *)
      assert (HI4 : forall k', I4 k' s1).
      { intros k'. destruct (kind_cases k k') as [->| ->].
        - apply HI4k; intros; try reflexivity. unfold s1. autorewrite with rd. reflexivity.
        - split.
          + intros x g0. unfold s1. autorewrite with rd. rewrite ?kind_eqb_other. simpl. apply Hoa.
          + intros g0 x. unfold s1. autorewrite with rd. rewrite ?kind_eqb_other. simpl. apply Hob. }
      split; [apply HI4|]. split; [apply HI4|]. split; [|split].
      * split; [|split].
        -- intros g0 key x. unfold s1. autorewrite with rd. apply H5a.
        -- intros g0. unfold s1. autorewrite with rd. apply H5b.
        -- intros x. unfold s1. autorewrite with rd. intros Hx. destruct (H5c x Hx) as (g0 & key & Hin).
           exists g0, key. autorewrite with rd. assumption.
      * intros x. destruct (Nat.eq_dec x v) as [->|Hne].
        -- rewrite Eo. unfold s1. autorewrite with rd. rewrite Hgr. split; discriminate.
        -- unfold owned, s1. autorewrite with rd.
           destruct (Nat.eqb_spec v x); [congruence|]. rewrite !andb_false_r. apply H7.
      * intros x. unfold s1. autorewrite with rd. destruct (Nat.eqb_spec v x) as [<-|].
        -- intros Hx. apply H6. destruct Hx as [Hx|Hx]; [|right; assumption]. left.
           destruct (kind_eqb k KIn); simpl in Hx; [discriminate|assumption].
        -- rewrite !andb_false_r. apply H6.
    + (* released *)
      symmetry in Hown1. apply orb_false_iff in Hown1. destruct Hown1 as [Eo1 Eo2].
      assert (HI4 : forall k', I4 k' (set_vgraph s1 v None)).
      { intros k'. destruct (kind_cases k k') as [->| ->].
        - apply HI4k; intros; autorewrite with rd; try reflexivity.
          destruct (Nat.eqb_spec v y); [congruence|]. unfold s1. autorewrite with rd. reflexivity.
        - split.
          + intros x g0. unfold s1. autorewrite with rd. rewrite ?kind_eqb_other. simpl.
            destruct (Nat.eqb_spec v x) as [<-|]; [|apply Hoa].
            split; [intros [_ H]; discriminate|]. intros H. apply Hoa in H. destruct H. congruence.
          + intros g0 x. unfold s1. autorewrite with rd. rewrite ?kind_eqb_other. simpl. apply Hob. }
      split; [apply HI4|]. split; [apply HI4|]. split; [|split].
      * split; [|split].
        -- intros g0 key x. unfold s1. autorewrite with rd. intros Hin. specialize (H5a _ _ _ Hin).
           destruct (Nat.eqb_spec v x) as [<-|]; [|assumption]. destruct H5a as (_ & ? & _). congruence.
        -- intros g0. unfold s1. autorewrite with rd. apply H5b.
        -- intros x. unfold s1. autorewrite with rd. intros Hx. destruct (H5c x Hx) as (g0 & key & Hin).
           exists g0, key. autorewrite with rd. assumption.
      * intros x. unfold owned, s1. autorewrite with rd. destruct (Nat.eqb_spec v x) as [<-|Hne].
        -- split; [intros _|reflexivity]. destruct k; simpl in *; rewrite ?Eo1, ?Eo2; reflexivity.
        -- rewrite !andb_false_r. apply H7.
      * intros x. unfold s1. autorewrite with rd. destruct (Nat.eqb_spec v x) as [<-|].
        -- intros Hx. apply H6. destruct Hx as [Hx|Hx]; [|right; assumption]. left.
           destruct (kind_eqb k KIn); simpl in Hx; [discriminate|assumption].
        -- rewrite !andb_false_r. apply H6.
Qed.

(* ---- commutation of the list update with the ownership updates (different fields) *)
Lemma own_set_iol k s g v l : set_iol k (io_own k s g v) g l = io_own k (set_iol k s g l) g v.
Proof. destruct k; reflexivity. Qed.
Lemma disown_set_iol k s g v l : io_disown k (set_iol k s g l) g v = set_iol k (io_disown k s g v) g l.
Proof.
  destruct k; unfold io_disown, maybe_release, owned, rc, flag, vinit, set_rc, set_flag, set_iol, set_vgraph; simpl;
    match goal with |- context [(0 <? ?c)%Z] => destruct (0 <? c)%Z end; try reflexivity;
    match goal with |- context [if ?b then _ else _] => destruct b end; reflexivity.
Qed.
Lemma set_iol_set_iol k s g l1 l2 : set_iol k (set_iol k s g l1) g l2 = set_iol k s g l2.
Proof. destruct k; unfold set_iol; simpl; rewrite sset_sset; reflexivity. Qed.
Lemma own_all_set_iol k g l vs : forall s, io_own_all k (set_iol k s g l) g vs = set_iol k (io_own_all k s g vs) g l.
Proof. induction vs as [|v t IH]; intros s; simpl; [reflexivity|]. rewrite <- own_set_iol, IH. reflexivity. Qed.
Lemma disown_all_set_iol k g l vs : forall s, io_disown_all k (set_iol k s g l) g vs = set_iol k (io_disown_all k s g vs) g l.
Proof. induction vs as [|v t IH]; intros s; simpl; [reflexivity|]. rewrite disown_set_iol, IH. reflexivity. Qed.

Lemma iol_own k s g v k' g' : iol k' (io_own k s g v) g' = iol k' s g'.
Proof. unfold io_own. autorewrite with rd. reflexivity. Qed.
Lemma iol_disown k s g v k' g' : iol k' (io_disown k s g v) g' = iol k' s g'.
Proof.
  unfold io_disown, maybe_release. destruct (0 <? _)%Z; [autorewrite with rd; reflexivity|].
  destruct (owned _ _); autorewrite with rd; reflexivity.
Qed.
Lemma vgraph_disown k s g v x : vgraph (io_disown k s g v) x = vgraph s x \/ vgraph (io_disown k s g v) x = None.
Proof.
  unfold io_disown, maybe_release. destruct (0 <? _)%Z; [autorewrite with rd; auto|].
  destruct (owned _ _); autorewrite with rd; auto. destruct (v =? x); auto.
Qed.
Lemma gcheck_disown k s g v g' x : gcheck s g' x = true -> gcheck (io_disown k s g v) g' x = true.
Proof. unfold gcheck. destruct (vgraph_disown k s g v x) as [-> | ->]; auto. Qed.
Lemma gcheck_own k s g v x : gcheck s g x = true -> gcheck (io_own k s g v) g x = true.
Proof.
  unfold gcheck, io_own. autorewrite with rd. destruct (v =? x); [intros _; apply Nat.eqb_refl|auto].
Qed.
Lemma io_check_own k s hpf g v x : io_check k s hpf g x = true -> io_check k (io_own k s g v) hpf g x = true.
Proof.
  unfold io_check. intros H. apply andb_prop in H. destruct H as [H1 H2]. rewrite gcheck_own by assumption. assumption.
Qed.
Lemma gcheck_set_iol k s g l g' x : gcheck (set_iol k s g l) g' x = gcheck s g' x.
Proof. unfold gcheck. autorewrite with rd. reflexivity. Qed.

Lemma io_check_pre k s hpf g v : io_check k s hpf g v = true -> gcheck s g v = true /\ (k = KIn -> hpf v = false).
Proof.
  unfold io_check. intros H. apply andb_prop in H. destruct H as [H1 H2]. split; [assumption|].
  intros ->. apply negb_true_iff. assumption.
Qed.

(* a list with the same multiset of elements *)
Lemma InvD_perm hpf k s g l' : InvD hpf s -> (forall x, countb x l' = countb x (iol k s g)) -> InvD hpf (set_iol k s g l').
Proof.
  intros HD Hl. pose proof HD as (H4i & H4o & (H5a & H5b & H5c) & H7 & H6).
  assert (HI4 : forall k', I4 k' (set_iol k s g l')).
  { intros k'. pose proof (I4_any k' hpf s HD) as [Ha Hb]. split.
    - intros x g0. autorewrite with rd. destruct (kind_cases k k') as [->| ->];
        rewrite ?kind_eqb_refl, ?kind_eqb_other; simpl; [|apply Ha].
      destruct (Nat.eqb_spec g g0) as [<-|]; [rewrite Hl|]; apply Ha.
    - intros g0 x. autorewrite with rd. destruct (kind_cases k k') as [->| ->];
        rewrite ?kind_eqb_refl, ?kind_eqb_other; simpl; [|apply Hb].
      destruct (Nat.eqb_spec g g0) as [<-|]; [rewrite Hl|]; apply Hb. }
  split; [apply HI4|]. split; [apply HI4|]. split; [|split].
  - split; [|split].
    + intros g0 key x. autorewrite with rd. apply H5a.
    + intros g0. autorewrite with rd. apply H5b.
    + intros x. autorewrite with rd. intros Hx. destruct (H5c x Hx) as (g0 & key & Hin). exists g0, key.
      autorewrite with rd. assumption.
  - intros x. unfold owned. autorewrite with rd. apply H7.
  - intros x. autorewrite with rd. apply H6.
Qed.

(* ---- the tracked-list operations of the repaired model *)
Lemma InvD_io_append hpf k s g v : InvD hpf s -> InvD hpf (fst (io_append k s hpf g v)).
Proof.
  intros HD. unfold io_append. destruct (io_check k s hpf g v) eqn:E; [|assumption].
  destruct (io_check_pre _ _ _ _ _ E). apply InvD_own; try assumption.
  intros x. rewrite countb_app. simpl. unfold ind. destruct (v =? x); lia.
Qed.

Lemma InvD_own_all hpf k g vs : forall s, InvD hpf s -> forallb (io_check k s hpf g) vs = true ->
  InvD hpf (set_iol k (io_own_all k s g vs) g (iol k s g ++ vs)).
Proof.
  induction vs as [|v t IH]; intros s HD Hc; simpl.
  - rewrite app_nil_r. apply InvD_perm; [assumption|reflexivity].
  - simpl in Hc. apply andb_prop in Hc. destruct Hc as [Hv Ht]. destruct (io_check_pre _ _ _ _ _ Hv).
    set (s1 := set_iol k (io_own k s g v) g (iol k s g ++ [v])).
    assert (HD1 : InvD hpf s1).
    { apply InvD_own; try assumption. intros x. rewrite countb_app. simpl. unfold ind. destruct (v =? x); lia. }
    assert (Hc1 : forallb (io_check k s1 hpf g) t = true).
    { rewrite forallb_forall in *. intros x Hx. specialize (Ht x Hx). unfold s1, io_check.
      rewrite gcheck_set_iol. apply io_check_own with (v := v) in Ht. exact Ht. }
    specialize (IH s1 HD1 Hc1). unfold s1 in IH at 1 2. autorewrite with rd in IH.
    rewrite kind_eqb_refl, Nat.eqb_refl in IH. simpl in IH. rewrite own_all_set_iol, set_iol_set_iol in IH.
    rewrite <- app_assoc in IH. exact IH.
Qed.

Lemma InvD_io_extend hpf k s g vs : InvD hpf s -> InvD hpf (fst (io_extend all_fixed k s hpf g vs)).
Proof.
  intros HD. unfold io_extend. destruct (forallb _ vs) eqn:E; [|assumption]. apply InvD_own_all; assumption.
Qed.

Lemma InvD_io_insert hpf k s g i v : InvD hpf s -> InvD hpf (fst (io_insert all_fixed k s hpf g i v)).
Proof.
  intros HD. unfold io_insert. destruct (io_check k s hpf g v) eqn:E; [|assumption].
  destruct (io_check_pre _ _ _ _ _ E). apply InvD_own; try assumption.
  intros x. apply countb_insert_at.
Qed.

Lemma nth_In0 (l : list nat) p : p < length l -> In (nth p l 0) l.
Proof. intros H. apply nth_In. assumption. Qed.

Lemma InvD_io_pop hpf k s g i : InvD hpf s -> InvD hpf (fst (io_pop k s g i)).
Proof.
  intros HD. unfold io_pop. destruct (pyidx _ i) as [p|] eqn:E; [|assumption].
  apply pyidx_lt in E. apply InvD_disown; [assumption| |].
  - apply countb_pos_In. apply nth_In0. assumption.
  - intros x. apply countb_remove_at. assumption.
Qed.

Lemma InvD_io_remove hpf k s g v : InvD hpf s -> InvD hpf (fst (io_remove k s g v)).
Proof.
  intros HD. unfold io_remove. destruct (memb v _) eqn:E; [|assumption]. apply memb_In in E.
  apply InvD_disown; [assumption| |].
  - apply countb_pos_In. assumption.
  - intros x. apply countb_remove_first. assumption.
Qed.

Lemma InvD_disown_all hpf k g l : forall s, InvD hpf s -> iol k s g = l ->
  InvD hpf (set_iol k (io_disown_all k s g l) g []).
Proof.
  induction l as [|v t IH]; intros s HD Hl; simpl.
  - apply InvD_perm; [assumption|]. rewrite Hl. reflexivity.
  - set (s1 := io_disown k (set_iol k s g t) g v).
    assert (HD1 : InvD hpf s1).
    { apply InvD_disown; [assumption| |]; rewrite Hl; simpl.
      - rewrite Nat.eqb_refl. pose proof (countb_nonneg v t). lia.
      - intros x. unfold ind. destruct (v =? x); lia. }
    assert (Hl1 : iol k s1 g = t).
    { unfold s1. rewrite iol_disown. autorewrite with rd. rewrite kind_eqb_refl, Nat.eqb_refl. reflexivity. }
    specialize (IH s1 HD1 Hl1). unfold s1 in IH. rewrite disown_set_iol, disown_all_set_iol, set_iol_set_iol in IH.
    exact IH.
Qed.

Lemma InvD_io_clear hpf k s g : InvD hpf s -> InvD hpf (fst (io_clear k s g)).
Proof. intros HD. unfold io_clear. apply InvD_disown_all; [assumption|reflexivity]. Qed.

Lemma InvD_io_setitem hpf k s g i v : InvD hpf s -> InvD hpf (fst (io_setitem all_fixed k s hpf g i v)).
Proof.
  intros HD. unfold io_setitem. destruct (pyidx _ i) as [p|] eqn:E; [|assumption]. apply pyidx_lt in E.
  destruct (io_check k s hpf g v) eqn:Ec; [|assumption]. destruct (io_check_pre _ _ _ _ _ Ec) as [Hg Hp].
  cbn [fst K]. set (l := iol k s g) in *. set (old := nth p l 0).
  set (s1 := io_disown k (set_iol k s g (remove_at p l)) g old).
  assert (HD1 : InvD hpf s1).
  { apply InvD_disown; [assumption| |].
    - apply countb_pos_In. apply nth_In0. assumption.
    - intros x. apply countb_remove_at. assumption. }
  assert (Hl1 : iol k s1 g = remove_at p l).
  { unfold s1. rewrite iol_disown. autorewrite with rd. rewrite kind_eqb_refl, Nat.eqb_refl. reflexivity. }
  assert (Hg1 : gcheck s1 g v = true).
  { unfold s1. apply gcheck_disown. rewrite gcheck_set_iol. assumption. }
  pose proof (InvD_own hpf k s1 g v (list_set l p v) HD1 Hg1 Hp) as Hfin.
  unfold s1 in Hfin at 2. rewrite disown_set_iol, <- own_set_iol, set_iol_set_iol in Hfin. apply Hfin.
  intros x. rewrite Hl1, countb_list_set, countb_remove_at by assumption. reflexivity.
Qed.

Lemma InvD_io_delitem hpf k s g i : InvD hpf s -> InvD hpf (fst (io_delitem all_fixed k s g i)).
Proof. intros HD. unfold io_delitem. cbn [all_fixed]. apply InvD_io_pop. assumption. Qed.

Lemma InvD_io_reverse hpf k s g : InvD hpf s -> InvD hpf (fst (io_reverse k s g)).
Proof. intros HD. unfold io_reverse. apply InvD_perm; [assumption|]. intros x. apply countb_rev. Qed.

(* ------------------------------------------------------------------ initializers *)
Lemma name_eqb_eq a b : name_eqb a b = true <-> a = b.
Proof.
  destruct a, b; simpl; try (split; [discriminate|congruence]); try tauto;
    rewrite Nat.eqb_eq; split; congruence.
Qed.
Lemma name_eqb_refl a : name_eqb a a = true. Proof. apply name_eqb_eq. reflexivity. Qed.
Lemma name_eqb_neq a b : name_eqb a b = false <-> a <> b.
Proof. rewrite <- name_eqb_eq. destruct (name_eqb a b); split; congruence. Qed.

Lemma keys_functional (l : list (name * nat)) k x y : NoDup (map fst l) -> In (k, x) l -> In (k, y) l -> x = y.
Proof.
  induction l as [|[k0 v0] t IH]; simpl; [tauto|]. intros Hnd Hx Hy. inversion Hnd; subst.
  destruct Hx as [[= -> ->]|Hx]; destruct Hy as [[= <-]|Hy]; auto.
  - exfalso. apply H1. apply (in_map fst) in Hy. exact Hy.
  - subst. exfalso. apply H1. apply (in_map fst) in Hx. exact Hx.
Qed.

Lemma init_get_In l k v : init_get l k = Some v -> In (k, v) l.
Proof.
  induction l as [|[k0 v0] t IH]; simpl; [discriminate|].
  destruct (name_eqb k k0) eqn:E; [apply name_eqb_eq in E; subst; intros [= ->]; auto | auto].
Qed.
Lemma init_get_None l k : init_get l k = None -> ~ In k (map fst l).
Proof.
  induction l as [|[k0 v0] t IH]; simpl; [tauto|].
  destruct (name_eqb k k0) eqn:E; [discriminate|]. apply name_eqb_neq in E. intros H [H1|H1]; [congruence|].
  exact (IH H H1).
Qed.
Lemma In_init_get l k v : NoDup (map fst l) -> In (k, v) l -> init_get l k = Some v.
Proof.
  intros Hnd Hin. destruct (init_get l k) as [w|] eqn:E.
  - apply init_get_In in E. f_equal. eapply keys_functional; eassumption.
  - apply init_get_None in E. exfalso. apply E. apply (in_map fst) in Hin. exact Hin.
Qed.

Lemma In_init_del l key k' x : In (k', x) (init_del l key) <-> k' <> key /\ In (k', x) l.
Proof.
  unfold init_del. rewrite filter_In. simpl. rewrite negb_true_iff, name_eqb_neq. intuition congruence.
Qed.
Lemma NoDup_keys_filter (f : name * nat -> bool) l : NoDup (map fst l) -> NoDup (map fst (filter f l)).
Proof.
  induction l as [|e t IH]; simpl; [auto|]. intros Hnd. inversion Hnd; subst.
  destruct (f e); simpl; [constructor|]; auto.
  intros Hin. apply H1. apply in_map_iff in Hin. destruct Hin as [y [Hy Hin]]. apply filter_In in Hin.
  apply in_map_iff. exists y. tauto.
Qed.

Lemma init_put_spec l key v : NoDup (map fst l) ->
  (forall k' x, In (k', x) (init_put l key v) <-> (k' = key /\ x = v) \/ (k' <> key /\ In (k', x) l)) /\
  NoDup (map fst (init_put l key v)).
Proof.
  induction l as [|[k0 v0] t IH]; simpl; intros Hnd.
  - split; [|constructor; [tauto|constructor]].
    intros k' x. split; [intros [[= <- <-]|[]]; auto | intros [[-> ->]|[_ []]]; auto].
  - inversion Hnd; subst. destruct (name_eqb key k0) eqn:E.
    + apply name_eqb_eq in E. subst k0. split; [|simpl; constructor; assumption].
      intros k' x. simpl. split.
      * intros [[= <- <-]|H]; [auto|]. right. split; [|auto]. intros ->. apply H1. apply (in_map fst) in H. exact H.
      * intros [[-> ->]|[Hne [[= <- <-]|H]]]; [auto|congruence|auto].
    + apply name_eqb_neq in E. destruct (IH H2) as [Ha Hb]. split.
      * intros k' x. simpl. rewrite Ha. split.
        -- intros [[= <- <-]|[H|H]]; [right; split; [congruence|auto] | auto | right; tauto].
        -- intros [H|[Hne [[= <- <-]|H]]]; [auto|auto|right; right; auto].
      * simpl. constructor; [|assumption]. intros Hin. apply in_map_iff in Hin. destruct Hin as [[k1 x1] [Hk Hin]].
        simpl in Hk. subst k1. apply Ha in Hin. destruct Hin as [[-> _]|[_ Hin]]; [congruence|].
        apply H1. apply (in_map fst) in Hin. exact Hin.
Qed.

Lemma InvD_set_vname hpf s v nm : InvD hpf s -> vinit s v = false -> InvD hpf (set_vname s v nm).
Proof.
  intros HD Hv. pose proof HD as (H4i & H4o & (H5a & H5b & H5c) & H7 & H6).
  assert (HI4 : forall k', I4 k' (set_vname s v nm)).
  { intros k'. pose proof (I4_any k' hpf s HD) as [Ha Hb]. split.
    - intros x g0. autorewrite with rd. apply Ha.
    - intros g0 x. autorewrite with rd. apply Hb. }
  split; [apply HI4|]. split; [apply HI4|]. split; [|split].
  - split; [|split].
    + intros g0 key x. autorewrite with rd. intros Hin. specialize (H5a _ _ _ Hin).
      destruct (Nat.eqb_spec v x) as [<-|]; [|assumption]. destruct H5a as (_ & ? & _). congruence.
    + intros g0. autorewrite with rd. apply H5b.
    + intros x. autorewrite with rd. intros Hx. destruct (H5c x Hx) as (g0 & key & Hin). exists g0, key.
      autorewrite with rd. assumption.
  - intros x. unfold owned. autorewrite with rd. apply H7.
  - intros x. autorewrite with rd. apply H6.
Qed.

Lemma InvD_init_unbind hpf s g key v : InvD hpf s -> In (key, v) (inits s g) ->
  InvD hpf (set_inits (init_disown s v) g (init_del (inits s g) key)).
Proof.
  intros HD Hin. pose proof HD as (H4i & H4o & (H5a & H5b & H5c) & H7 & H6).
  destruct (H5a _ _ _ Hin) as (Hnm & Hvi & Hvg & Hk).
  unfold init_disown, maybe_release.
  set (s1 := set_vinit s v false).
  assert (Hown1 : owned s1 v = flag KIn s v || flag KOut s v).
  { unfold owned, s1. autorewrite with rd. rewrite Nat.eqb_refl, orb_false_r. reflexivity. }
  assert (Hent : forall g0 k' x, In (k', x) (inits s g0) -> (g0 = g -> k' <> key) -> x <> v).
  { intros g0 k' x Hx Hne ->. destruct (H5a _ _ _ Hx) as (Hn2 & _ & Hg2 & _).
    assert (g0 = g) by congruence. subst g0. apply (Hne eq_refl). congruence. }
  assert (Hfin : forall sx, (forall y, vname sx y = vname s y) -> (forall y, vinit sx y = if v =? y then false else vinit s y) ->
      (forall k y, flag k sx y = flag k s y) -> (forall k g0, iol k sx g0 = iol k s g0) ->
      (forall k g0 y, rc k sx g0 y = rc k s g0 y) -> (forall g0, inits sx g0 = inits s g0) ->
      (forall y, y <> v -> vgraph sx y = vgraph s y) ->
      (vgraph sx v = if flag KIn s v || flag KOut s v then Some g else None) ->
      InvD hpf (set_inits sx g (init_del (inits s g) key))).
  { intros sx Rn Ri Rf Rl Rr Rt Rg Rgv.
    assert (HI4 : forall k', I4 k' (set_inits sx g (init_del (inits s g) key))).
    { intros k'. pose proof (I4_any k' hpf s HD) as [Ha Hb]. split.
      - intros x g0. autorewrite with rd. rewrite Rf, Rl. destruct (Nat.eq_dec x v) as [->|Hne]; [|rewrite Rg by assumption; apply Ha].
        rewrite Rgv. rewrite <- Ha. destruct (flag KIn s v || flag KOut s v) eqn:Eo; [rewrite Hvg; tauto|].
        apply orb_false_iff in Eo. split; [intros [_ H]; discriminate|]. intros [H _]. destruct k', Eo; congruence.
      - intros g0 x. autorewrite with rd. rewrite Rr, Rl. apply Hb. }
    split; [apply HI4|]. split; [apply HI4|]. split; [|split].
    - split; [|split].
      + intros g0 k' x. autorewrite with rd. rewrite Rn, Ri. destruct (Nat.eqb_spec g g0) as [<-|Hng].
        * rewrite In_init_del. intros [Hne Hx]. assert (x <> v) by (eapply Hent; eauto).
          destruct (Nat.eqb_spec v x); [congruence|]. rewrite Rg by assumption. apply H5a. assumption.
        * rewrite Rt. intros Hx. assert (x <> v) by (eapply Hent; eauto; congruence).
          destruct (Nat.eqb_spec v x); [congruence|]. rewrite Rg by assumption. apply H5a. assumption.
      + intros g0. autorewrite with rd. rewrite Rt. destruct (g =? g0); [apply NoDup_keys_filter|]; apply H5b.
      + intros x. autorewrite with rd. rewrite Ri. destruct (Nat.eqb_spec v x) as [<-|Hne]; [discriminate|].
        intros Hx. destruct (H5c x Hx) as (g0 & k0 & Hx0). exists g0, k0. autorewrite with rd. rewrite Rt.
        destruct (Nat.eqb_spec g g0) as [<-|]; [|assumption]. apply In_init_del. split; [|assumption].
        intros ->. apply Hne. symmetry. eapply keys_functional; [apply H5b| |]; eassumption.
    - intros x. unfold owned. autorewrite with rd. rewrite !Rf, Ri. destruct (Nat.eqb_spec v x) as [<-|Hne].
      + rewrite Rgv, orb_false_r. destruct (flag KIn s v || flag KOut s v); split; congruence.
      + rewrite Rg by congruence. apply H7.
    - intros x. autorewrite with rd. rewrite Rf, Ri. destruct (Nat.eqb_spec v x) as [Hvx|Hvx]; intros Hx; apply H6.
      + subst x. destruct Hx; [auto|discriminate].
      + assumption. }
  fold s1. rewrite Hown1. destruct (flag KIn s v || flag KOut s v) eqn:Eo.
  - apply Hfin; intros; unfold s1; autorewrite with rd; try reflexivity. exact Hvg.
  - apply Hfin; intros; unfold s1; autorewrite with rd; try reflexivity.
    + destruct (Nat.eqb_spec v y); [congruence|reflexivity].
    + rewrite Nat.eqb_refl. reflexivity.
Qed.

Lemma InvD_init_delitem hpf s g key : InvD hpf s -> InvD hpf (fst (init_delitem s g key)).
Proof.
  intros HD. unfold init_delitem. destruct (init_get _ key) as [v|] eqn:E; [|assumption].
  apply init_get_In in E. apply InvD_init_unbind; assumption.
Qed.

Lemma InvD_init_bind hpf s g key v l' : InvD hpf s -> vinit s v = false -> vname s v = Some key -> key <> NEmpty ->
  gcheck s g v = true -> hpf v = false ->
  (forall k' x, In (k', x) l' <-> (k' = key /\ x = v) \/ In (k', x) (inits s g)) -> NoDup (map fst l') ->
  InvD hpf (set_inits (init_own s g v) g l').
Proof.
  intros HD Hvi Hnm Hk Hg Hp Hl Hnd. pose proof HD as (H4i & H4o & (H5a & H5b & H5c) & H7 & H6).
  assert (Hgv : vgraph s v = None \/ vgraph s v = Some g).
  { unfold gcheck in Hg. destruct (vgraph s v); [right; apply Nat.eqb_eq in Hg; congruence|left; reflexivity]. }
  assert (HI4 : forall k', I4 k' (set_inits (init_own s g v) g l')).
  { intros k'. pose proof (I4_any k' hpf s HD) as [Ha Hb]. split.
    - intros x g0. unfold init_own. autorewrite with rd. destruct (Nat.eqb_spec v x) as [<-|]; [|apply Ha].
      rewrite <- Ha. destruct Hgv as [Hn|Hs]; [|rewrite Hs; tauto].
      apply H7 in Hn. unfold owned in Hn. apply orb_false_iff in Hn. destruct Hn as [Hn _]. apply orb_false_iff in Hn.
      split; intros [H _]; destruct k', Hn; congruence.
    - intros g0 x. unfold init_own. autorewrite with rd. apply Hb. }
  split; [apply HI4|]. split; [apply HI4|]. split; [|split].
  - split; [|split].
    + intros g0 k' x. unfold init_own. autorewrite with rd.
      assert (Hold : In (k', x) (inits s g0) -> vname s x = Some k' /\
                (if v =? x then true else vinit s x) = true /\ (if v =? x then Some g else vgraph s x) = Some g0 /\ k' <> NEmpty).
      { intros Hx. destruct (H5a _ _ _ Hx) as (A & B & C & D). destruct (Nat.eqb_spec v x) as [<-|]; [congruence|auto]. }
      destruct (Nat.eqb_spec g g0) as [<-|]; [|exact Hold]. rewrite Hl. intros [[-> ->]|Hx]; [|auto].
      rewrite Nat.eqb_refl. auto.
    + intros g0. unfold init_own. autorewrite with rd. destruct (g =? g0); [assumption|apply H5b].
    + intros x. unfold init_own. autorewrite with rd. destruct (Nat.eqb_spec v x) as [<-|Hne].
      * intros _. exists g, key. autorewrite with rd. rewrite Nat.eqb_refl. apply Hl. auto.
      * intros Hx. destruct (H5c x Hx) as (g0 & k0 & Hx0). exists g0, k0. autorewrite with rd.
        destruct (Nat.eqb_spec g g0) as [<-|]; [apply Hl; auto|assumption].
  - intros x. unfold owned, init_own. autorewrite with rd. destruct (Nat.eqb_spec v x) as [<-|]; [|apply H7].
    rewrite orb_true_r. split; discriminate.
  - intros x. unfold init_own. autorewrite with rd. destruct (Nat.eqb_spec v x) as [<-|]; [auto|apply H6].
Qed.

Lemma vgraph_init_disown s v x : vgraph (init_disown s v) x = vgraph s x \/ vgraph (init_disown s v) x = None.
Proof.
  unfold init_disown, maybe_release. destruct (owned _ _); autorewrite with rd; auto. destruct (v =? x); auto.
Qed.
Lemma set_inits_set_inits s g l1 l2 : set_inits (set_inits s g l1) g l2 = set_inits s g l2.
Proof. unfold set_inits; simpl; rewrite sset_sset; reflexivity. Qed.
Lemma init_own_set_inits s g v g' l : init_own (set_inits s g' l) g v = set_inits (init_own s g v) g' l.
Proof. reflexivity. Qed.

Lemma name_blank_not_init hpf s v : InvD hpf s -> name_blank (vname s v) = true -> vinit s v = false.
Proof.
  intros HD Hb. destruct (vinit s v) eqn:E; [|reflexivity]. exfalso.
  destruct HD as (_ & _ & (H5a & _ & H5c) & _). destruct (H5c v E) as (g & key & Hin).
  destruct (H5a _ _ _ Hin) as (Hn & _ & _ & Hk). rewrite Hn in Hb. destruct key; simpl in Hb; congruence.
Qed.

Lemma InvD_init_setitem hpf s g key v : InvD hpf s -> InvD hpf (fst (init_setitem all_fixed s hpf g key v)).
Proof.
  intros HD. unfold init_setitem. destruct (name_eqb key NEmpty) eqn:Ek; [assumption|]. apply name_eqb_neq in Ek.
  destruct (negb (name_blank (vname s v)) && negb (oname_eqb (vname s v) (Some key))) eqn:En; [assumption|].
  destruct (hpf v || negb (gcheck s g v)) eqn:Ebad; cbn [all_fixed andb]; [assumption|].
  apply orb_false_iff in Ebad. destruct Ebad as [Hp Hg]. apply negb_false_iff in Hg.
  set (s1 := if name_blank (vname s v) then set_vname s v (Some key) else s).
  assert (HD1 : InvD hpf s1).
  { unfold s1. destruct (name_blank (vname s v)) eqn:Eb; [|assumption].
    apply InvD_set_vname; [assumption|]. eapply name_blank_not_init; eassumption. }
  assert (Hn1 : vname s1 v = Some key).
  { unfold s1. destruct (name_blank (vname s v)) eqn:Eb; [autorewrite with rd; rewrite Nat.eqb_refl; reflexivity|].
    simpl in En. unfold oname_eqb, option_eqb in En. destruct (vname s v) as [nm|]; [|discriminate].
    apply negb_false_iff in En. apply name_eqb_eq in En. congruence. }
  assert (Hg1 : gcheck s1 g v = true).
  { unfold s1. destruct (name_blank _); [|assumption]. unfold gcheck. autorewrite with rd. exact Hg. }
  assert (Hi1 : forall g0, inits s1 g0 = inits s g0).
  { intros g0. unfold s1. destruct (name_blank _); [autorewrite with rd|]; reflexivity. }
  rewrite Hp. fold s1. pose proof HD1 as (_ & _ & (H5a & H5b & H5c) & _).
  unfold init_disown_old. destruct (init_get (inits s1 g) key) as [o|] eqn:Eo.
  - (* replaces an existing entry *)
    pose proof (init_get_In _ _ _ Eo) as Hin.
    set (s2 := set_inits (init_disown s1 o) g (init_del (inits s1 g) key)).
    assert (HD2 : InvD hpf s2) by (apply InvD_init_unbind; assumption).
    assert (Hg2 : gcheck (init_disown s1 o) g v = true).
    { unfold gcheck. destruct (vgraph_init_disown s1 o v) as [-> | ->]; [exact Hg1|reflexivity]. }
    rewrite Hg2. cbn [negb fst K].
    assert (Hgs2 : gcheck s2 g v = true) by (unfold s2, gcheck; autorewrite with rd; exact Hg2).
    assert (Hn2 : vname s2 v = Some key).
    { unfold s2, init_disown, maybe_release. destruct (owned _ _); autorewrite with rd; exact Hn1. }
    assert (Hv2 : vinit s2 v = false).
    { destruct (vinit s2 v) eqn:E; [|reflexivity]. exfalso. pose proof HD2 as (_ & _ & (Ha & _ & Hc) & _).
      destruct (Hc v E) as (g0 & k0 & Hx). destruct (Ha _ _ _ Hx) as (A & _ & C & _).
      assert (k0 = key) by congruence. subst k0.
      assert (g0 = g). { unfold gcheck in Hgs2. rewrite C in Hgs2. apply Nat.eqb_eq in Hgs2. congruence. } subst g0.
      unfold s2 in Hx. autorewrite with rd in Hx. rewrite Nat.eqb_refl in Hx. apply In_init_del in Hx. tauto. }
    assert (Hi2 : inits (init_disown s1 o) g = inits s1 g).
    { unfold init_disown, maybe_release. destruct (owned _ _); autorewrite with rd; reflexivity. }
    rewrite Hi2. destruct (init_put_spec (inits s1 g) key v (H5b g)) as [Hpa Hpb].
    pose proof (InvD_init_bind hpf s2 g key v (init_put (inits s1 g) key v) HD2 Hv2 Hn2 Ek Hgs2 Hp) as Hfin.
    unfold s2 in Hfin at 2. rewrite init_own_set_inits, set_inits_set_inits in Hfin. apply Hfin; [|assumption].
    intros k' x. rewrite Hpa. unfold s2. autorewrite with rd. rewrite Nat.eqb_refl, In_init_del. tauto.
  - (* new key *)
    rewrite Hg1. cbn [negb fst K].
    assert (Hv1 : vinit s1 v = false).
    { destruct (vinit s1 v) eqn:E; [|reflexivity]. exfalso.
      destruct (H5c v E) as (g0 & k0 & Hx). destruct (H5a _ _ _ Hx) as (A & _ & C & _).
      assert (k0 = key) by congruence. subst k0.
      assert (g0 = g). { unfold gcheck in Hg1. rewrite C in Hg1. apply Nat.eqb_eq in Hg1. congruence. } subst g0.
      apply init_get_None in Eo. apply Eo. apply (in_map fst) in Hx. exact Hx. }
    destruct (init_put_spec (inits s1 g) key v (H5b g)) as [Hpa Hpb].
    apply InvD_init_bind with (key := key); try assumption.
    intros k' x. rewrite Hpa. split; [intros [H|[_ H]]; auto|].
    intros [H|H]; [auto|]. right. split; [|assumption]. intros ->. apply init_get_None in Eo. apply Eo.
    apply (in_map fst) in H. exact H.
Qed.

Lemma InvD_init_add hpf s g v : InvD hpf s -> InvD hpf (fst (init_add all_fixed s hpf g v)).
Proof. intros HD. unfold init_add. destruct (vname s v); [apply InvD_init_setitem|]; assumption. Qed.

Lemma InvD_init_clear_n hpf g fuel : forall s, InvD hpf s -> InvD hpf (init_clear_n s g fuel).
Proof.
  induction fuel as [|f IH]; intros s HD; simpl; [assumption|].
  destruct (inits s g) as [|[k v] t]; [assumption|]. apply IH. apply InvD_init_delitem. assumption.
Qed.
Lemma InvD_init_clear hpf s g : InvD hpf s -> InvD hpf (fst (init_clear s g)).
Proof. intros HD. unfold init_clear. apply InvD_init_clear_n. assumption. Qed.

Lemma init_disown_set_vname s v w nm : init_disown (set_vname s w nm) v = set_vname (init_disown s v) w nm.
Proof.
  unfold init_disown, maybe_release, owned, flag, vinit, set_vinit, set_vname, set_vgraph; simpl.
  match goal with |- context [if ?b then _ else _] => destruct b end; reflexivity.
Qed.

Lemma InvD_vset_name hpf s v nm : InvD hpf s -> InvD hpf (fst (vset_name all_fixed s hpf v nm)).
Proof.
  intros HD. unfold vset_name. destruct (oname_eqb (vname s v) nm); [assumption|].
  destruct (vinit s v) eqn:Evi; [|apply InvD_set_vname; assumption].
  destruct nm as [k|]; [|assumption]. destruct (vgraph s v) as [g|] eqn:Evg; [|assumption].
  destruct (match init_get (inits s g) k with Some o => negb (o =? v) | None => false end); [assumption|].
  destruct (name_eqb k NEmpty && all_fixed SNameEmpty); [assumption|].
  pose proof HD as (_ & _ & (H5a & H5b & H5c) & _).
  destruct (H5c v Evi) as (g0 & key0 & Hin). destruct (H5a _ _ _ Hin) as (Hn & _ & Hg & _).
  assert (g0 = g) by congruence. subst g0. rewrite Hn.
  unfold init_delitem. autorewrite with rd. rewrite (In_init_get _ _ _ (H5b g) Hin).
  cbn [K]. rewrite init_disown_set_vname.
  change (set_inits (set_vname (init_disown s v) v (Some k)) g (init_del (inits s g) key0))
    with (set_vname (set_inits (init_disown s v) g (init_del (inits s g) key0)) v (Some k)).
  apply InvD_init_setitem. apply InvD_set_vname.
  - apply InvD_init_unbind; assumption.
  - unfold init_disown, maybe_release. destruct (owned _ _); autorewrite with rd; rewrite Nat.eqb_refl; reflexivity.
Qed.

(* ------------------------------------------------------------------ plain slices *)
Lemma skipn_add {A} (l : list A) x : forall y, skipn x (skipn y l) = skipn (y + x) l.
Proof. revert l. induction y as [|y IH]; intros; simpl; [reflexivity|]. destruct l; [destruct x; reflexivity|]. Abort.
Lemma skipn_add {A} y : forall (l : list A) x, skipn x (skipn y l) = skipn (y + x) l.
Proof. induction y as [|y IH]; intros l x; simpl; [reflexivity|]. destruct l; [destruct x; reflexivity|apply IH]. Qed.

Lemma slice_split {A} (l : list A) lo hi : lo <= hi -> hi <= length l ->
  l = firstn lo l ++ firstn (hi - lo) (skipn lo l) ++ skipn hi l.
Proof.
  intros H1 H2. rewrite <- (firstn_skipn lo l) at 1. f_equal.
  rewrite <- (firstn_skipn (hi - lo) (skipn lo l)) at 1. f_equal.
  rewrite skipn_add. f_equal. lia.
Qed.

Lemma InvD_disown_sub hpf k g mid : forall pre post s, InvD hpf s -> iol k s g = pre ++ mid ++ post ->
  InvD hpf (set_iol k (io_disown_all k s g mid) g (pre ++ post)).
Proof.
  induction mid as [|v t IH]; intros pre post s HD Hl; simpl.
  - apply InvD_perm; [assumption|]. rewrite Hl. reflexivity.
  - set (s1 := io_disown k (set_iol k s g (pre ++ t ++ post)) g v).
    assert (HD1 : InvD hpf s1).
    { apply InvD_disown; [assumption| |]; rewrite Hl.
      - rewrite !countb_app. simpl. rewrite Nat.eqb_refl.
        pose proof (countb_nonneg v pre). pose proof (countb_nonneg v t). pose proof (countb_nonneg v post). lia.
      - intros x. rewrite !countb_app. simpl. rewrite ?countb_app. unfold ind. destruct (v =? x); lia. }
    assert (Hl1 : iol k s1 g = pre ++ t ++ post).
    { unfold s1. rewrite iol_disown. autorewrite with rd. rewrite kind_eqb_refl, Nat.eqb_refl. reflexivity. }
    specialize (IH pre post s1 HD1 Hl1). unfold s1 in IH. rewrite disown_set_iol, disown_all_set_iol, set_iol_set_iol in IH.
    exact IH.
Qed.

Lemma gcheck_disown_all k g vs g' x : forall s, gcheck s g' x = true -> gcheck (io_disown_all k s g vs) g' x = true.
Proof. induction vs as [|v t IH]; intros s H; simpl; [assumption|]. apply IH. apply gcheck_disown. assumption. Qed.

Lemma InvD_io_setslice hpf k s g a b vs : InvD hpf s -> InvD hpf (fst (io_setslice all_fixed k s hpf g a b vs)).
Proof.
  intros HD. unfold io_setslice. destruct (forallb _ vs) eqn:E; [|assumption]. cbn [fst K].
  set (l := iol k s g) in *. set (lo := slice_lo (length l) a). set (hi := slice_hi (length l) a b).
  assert (Hlo : lo <= hi) by (unfold lo, hi, slice_hi; lia).
  assert (Hhi : hi <= length l) by (unfold hi, lo, slice_hi, slice_lo; lia).
  set (old := firstn (hi - lo) (skipn lo l)). set (pre := firstn lo l). set (post := skipn hi l).
  assert (Hl : iol k s g = pre ++ old ++ post) by (apply slice_split; assumption).
  set (s2 := set_iol k (io_disown_all k s g old) g (pre ++ post)).
  assert (HD2 : InvD hpf s2) by (apply InvD_disown_sub; assumption).
  assert (Hc2 : forallb (io_check k s2 hpf g) vs = true).
  { rewrite forallb_forall in *. intros x Hx. specialize (E x Hx). unfold io_check in *. apply andb_prop in E.
    destruct E as [E1 E2]. unfold s2. rewrite gcheck_set_iol, gcheck_disown_all by assumption. assumption. }
  pose proof (InvD_own_all hpf k g vs s2 HD2 Hc2) as H3.
  assert (Hl2 : iol k s2 g = pre ++ post).
  { unfold s2. autorewrite with rd. rewrite kind_eqb_refl, Nat.eqb_refl. reflexivity. }
  rewrite Hl2 in H3. unfold s2 in H3 at 1. rewrite own_all_set_iol, set_iol_set_iol in H3.
  pose proof (InvD_perm hpf k _ g (pre ++ vs ++ post) H3) as H4. rewrite set_iol_set_iol in H4. apply H4.
  intros x. autorewrite with rd. rewrite kind_eqb_refl, Nat.eqb_refl. simpl. rewrite !countb_app. lia.
Qed.

Lemma InvD_io_delslice hpf k s g a b : InvD hpf s -> InvD hpf (fst (io_delslice all_fixed k s g a b)).
Proof.
  intros HD. unfold io_delslice. cbn [all_fixed fst K].
  set (l := iol k s g) in *. set (lo := slice_lo (length l) a). set (hi := slice_hi (length l) a b).
  assert (Hlo : lo <= hi) by (unfold lo, hi, slice_hi; lia).
  assert (Hhi : hi <= length l) by (unfold hi, lo, slice_hi, slice_lo; lia).
  apply InvD_disown_sub; [assumption|]. apply slice_split; assumption.
Qed.

(* ------------------------------------------------------------------ the inherited dict mutators *)
Lemma InvD_init_update_seq hpf g kvs : forall s, InvD hpf s -> InvD hpf (fst (init_update_seq all_fixed s hpf g kvs)).
Proof.
  induction kvs as [|[k v] t IH]; intros s HD; simpl; [assumption|]. destruct k as [k|]; [|assumption].
  pose proof (InvD_init_setitem hpf s g k v HD) as H1.
  destruct (init_setitem all_fixed s hpf g k v) as [s' r]. simpl in H1. destruct r; [apply IH|]; assumption.
Qed.
Lemma InvD_init_update hpf s g kvs : InvD hpf s -> InvD hpf (fst (init_update all_fixed s hpf g kvs)).
Proof.
  intros HD. unfold init_update. pose proof (InvD_init_update_seq hpf g kvs s HD) as H1.
  destruct (init_update_seq all_fixed s hpf g kvs) as [s' r]. simpl in H1. destruct r; [assumption|]. cbn [all_fixed]. assumption.
Qed.
Lemma InvD_init_popitem hpf s g : InvD hpf s -> InvD hpf (fst (init_popitem s g)).
Proof. intros HD. unfold init_popitem. destruct (inits s g) as [|[k v] t]; [assumption|]. apply InvD_init_delitem. assumption. Qed.
Lemma InvD_init_setdefault hpf s g key v : InvD hpf s -> InvD hpf (fst (init_setdefault all_fixed s hpf g key v)).
Proof. intros HD. unfold init_setdefault. destruct (init_get _ _); [assumption|]. apply InvD_init_setitem. assumption. Qed.

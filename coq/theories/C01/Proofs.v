(* C01/Proofs.v — assembling the clauses: the invariant is preserved by every op of the repaired model
   (successes and rejections alike), hence holds after every history; histories of the current model that
   never take a defect branch coincide with the repaired model. *)
From Coq Require Import ZArith List Bool Arith Lia.
From IRV Require Import Base.Exn C01.Model C01.Store C01.ProofsA C01.ProofsC C01.ReadsD C01.ProofsD.
Import ListNotations.

(* ------------------------------------------------------------------ frames on hpo *)
Lemma hpo_reg_value c h g v : hpo (reg_value c h g v) = hpo h.
Proof. unfold reg_value. destruct (vname (how h) v); [reflexivity|]. destruct (nm_fresh_v (hnm h) g). reflexivity. Qed.
Lemma hpo_reg_values c g vs : forall h, hpo (reg_values c h g vs) = hpo h.
Proof. induction vs as [|v t IH]; intros h; simpl; [reflexivity|]. rewrite IH. apply hpo_reg_value. Qed.
Lemma hpo_adopt c h g n : hpo (adopt c h g n) = hpo h.
Proof.
  unfold adopt. simpl. rewrite hpo_reg_values. simpl.
  destruct (nname (hnm h) n); [reflexivity|]. destruct (nm_fresh_n (hnm h) g). reflexivity.
Qed.
Lemma hpo_adopt_all c g ns : forall h, hpo (adopt_all c h g ns) = hpo h.
Proof. induction ns as [|n t IH]; intros h; simpl; [reflexivity|]. rewrite IH. apply hpo_adopt. Qed.

(* ------------------------------------------------------------------ ownership at heap level *)
Definition D_ok (h : heap) : Prop := InvD (hp h) (how h).

Lemma D_ok_same h h' : hpo h' = hpo h -> how h' = how h -> D_ok h -> D_ok h'.
Proof. unfold D_ok, hp. intros -> ->. auto. Qed.

Lemma D_reg_value h g v : D_ok h -> D_ok (reg_value all_fixed h g v).
Proof.
  intros HD. unfold reg_value. destruct (vname (how h) v) eqn:E.
  - eapply D_ok_same; [| |exact HD]; reflexivity.
  - destruct (nm_fresh_v (hnm h) g) as [k nm']. unfold D_ok, hp. simpl. apply (InvD_vset_name (hp h)). exact HD.
Qed.
Lemma D_reg_values g vs : forall h, D_ok h -> D_ok (reg_values all_fixed h g vs).
Proof. induction vs as [|v t IH]; intros h HD; simpl; [assumption|]. apply IH. apply D_reg_value. assumption. Qed.
Lemma D_adopt h g n : D_ok h -> D_ok (adopt all_fixed h g n).
Proof.
  intros HD. unfold adopt.
  match goal with |- D_ok (with_ng ?h3 _) => apply (D_ok_same h3); [reflexivity|reflexivity|] end.
  apply D_reg_values. eapply D_ok_same; [| |exact HD];
    destruct (nname (hnm h) n); try reflexivity; destruct (nm_fresh_n (hnm h) g); reflexivity.
Qed.
Lemma D_adopt_all g ns : forall h, D_ok h -> D_ok (adopt_all all_fixed h g ns).
Proof. induction ns as [|n t IH]; intros h HD; simpl; [assumption|]. apply IH. apply D_adopt. assumption. Qed.

Lemma D_g_append h g n : D_ok h -> D_ok (fst (g_append all_fixed h g n)).
Proof.
  intros HD. unfold g_append. destruct (node_check _ _ _); [|assumption]. cbn [fst K].
  eapply D_ok_same; [| |apply (D_adopt h g n HD)]; reflexivity.
Qed.
Lemma D_g_extend h g ns : D_ok h -> D_ok (fst (g_extend all_fixed h g ns)).
Proof.
  intros HD. unfold g_extend. destruct (forallb _ _); [|assumption]. cbn [fst K].
  eapply D_ok_same; [| |apply (D_adopt_all g ns h HD)]; reflexivity.
Qed.
Lemma D_g_insert h g b ref ns : D_ok h -> D_ok (fst (g_insert all_fixed h g b ref ns)).
Proof.
  intros HD. unfold g_insert. destruct (_ && _); [|assumption]. cbn [fst K].
  eapply D_ok_same; [| |apply (D_adopt_all g ns h HD)]; reflexivity.
Qed.

Lemma D_remove_fold safe g l : forall h, D_ok h -> D_ok (fold_left (fun h n => remove_one safe h g n) l h).
Proof.
  induction l as [|n t IH]; intros h HD; simpl; [assumption|]. apply IH.
  eapply D_ok_same; [| |exact HD]; unfold remove_one; destruct safe; reflexivity.
Qed.

Lemma InvD_weaken hpf hpf' s : InvD hpf s ->
  (forall v, flag KIn s v = true \/ vinit s v = true -> hpf' v = false) -> InvD hpf' s.
Proof. intros (A & B & C & D & _) H. split; [exact A|]. split; [exact B|]. split; [exact C|]. split; [exact D|exact H]. Qed.

Lemma InvD_rau hpf g v r l : forall s i, InvD hpf s -> InvD hpf (fst (rau_outputs all_fixed s hpf g v r i l)).
Proof.
  induction l as [|o t IH]; intros s i HD; simpl; [assumption|].
  destruct (o =? v); [|apply IH; assumption].
  pose proof (InvD_io_setitem hpf KOut s g (Z.of_nat i) r HD) as Hs.
  destruct (io_setitem all_fixed KOut s hpf g (Z.of_nat i) r) as [s' r']. simpl in Hs.
  destruct r'; [apply IH|]; assumption.
Qed.

Lemma D_go_uses r l : forall h, D_ok h ->
  D_ok (fold_left (fun h u => with_io h (io_replace (hio h) (fst u) (snd u) (Some r))) l h).
Proof.
  induction l as [|u t IH]; intros h HD; simpl; [assumption|]. apply IH.
  eapply D_ok_same; [| |exact HD]; reflexivity.
Qed.

Lemma blank_unowned h v : blank_value h v = true -> owned (how h) v = false /\ prod (hpo h) v = None.
Proof.
  unfold blank_value. destruct (uses _ _); [|discriminate]. destruct (prod _ _); [discriminate|].
  destruct (idx _ _); [discriminate|]. destruct (vname _ _); [discriminate|]. destruct (vgraph _ _); [discriminate|].
  intros H. apply negb_true_iff in H. auto.
Qed.
Lemma owned_false_flags s v : owned s v = false -> flag KIn s v = false /\ vinit s v = false.
Proof.
  unfold owned. intros H. apply orb_false_iff in H. destruct H as [H ?]. apply orb_false_iff in H. tauto.
Qed.

Lemma prod_po_adopt n vs : forall i s v, ~ In v vs -> prod (po_adopt s n i vs) v = prod s v.
Proof.
  induction vs as [|w t IH]; intros i s v Hn; simpl; [reflexivity|].
  rewrite IH by (simpl in Hn; tauto). unfold prod, set_prod. simpl. apply sget_sset_ne. simpl in Hn. intuition.
Qed.
Lemma prod_po_release vs : forall s v, prod (po_release s vs) v = prod s v \/ prod (po_release s vs) v = None.
Proof.
  induction vs as [|w t IH]; intros s v; simpl; [auto|].
  destruct (IH (set_prod s w None (Some (-1)%Z)) v) as [-> | ->]; [|auto].
  unfold prod, set_prod. simpl. rewrite sget_sset. destruct (w =? v); auto.
Qed.

Ltac chainR := repeat match goal with
  | |- context [if ?b then R ?h ?e else _] => let E := fresh "E" in destruct b eqn:E; [assumption|] end.

Theorem D_step h o : D_ok h -> D_ok (fst (step all_fixed h o)).
Proof.
  intros HD. destruct o; cbn [step]; try assumption.
  - (* NewValue *)
    unfold new_value. destruct (blank_value h v) eqn:E; [|assumption]. cbn [fst K].
    destruct (blank_unowned _ _ E) as [Ho _]. destruct (owned_false_flags _ _ Ho) as [_ Hi].
    unfold D_ok, hp. simpl. apply InvD_set_vname; assumption.
  - (* NewNode *)
    unfold new_node. chainR. cbn [fst K].
    match goal with |- D_ok (with_io ?h4 _) => apply (D_ok_same h4); [reflexivity|reflexivity|] end.
    set (ovs := match o with OFresh vs => vs | OGiven vs _ => vs end) in *.
    set (h1 := with_po h (set_outs (po_adopt (hpo h) n 0 ovs) n ovs)).
    assert (Hfl : forall v, In v ovs -> flag KIn (how h) v = false /\ vinit (how h) v = false).
    { intros v Hv. cbn [all_fixed andb] in E3. apply orb_false_iff in E3. destruct E3 as [_ E3].
      rewrite <- negb_true_iff, <- forallb_existsb in E3 || idtac.
      destruct (flag KIn (how h) v) eqn:F1; destruct (vinit (how h) v) eqn:F2; auto; exfalso;
        assert (Hex : existsb (fun v0 => flag KIn (how h) v0 || vinit (how h) v0) ovs = true)
          by (apply existsb_exists; exists v; rewrite F1, F2; auto); congruence. }
    assert (HD1 : D_ok h1).
    { unfold D_ok, h1. simpl. eapply InvD_weaken; [exact HD|]. intros v Hv. unfold hp. simpl.
      destruct (in_dec Nat.eq_dec v ovs) as [Hin|Hnin].
      - destruct (Hfl v Hin). destruct Hv; congruence.
      - unfold prod, set_outs. simpl. fold (prod (po_adopt (hpo h) n 0 ovs) v). rewrite prod_po_adopt by assumption.
        apply (proj2 (proj2 (proj2 (proj2 HD)))). assumption. }
    assert (HD3 : D_ok match o with OFresh vs => bump_vs (with_nm h1 (nm_bump_n (nm_set_nname (hnm h1) n nm) n)) vs
                                  | OGiven _ _ => with_nm h1 (nm_bump_n (nm_set_nname (hnm h1) n nm) n) end).
    { destruct o; (eapply D_ok_same; [| |exact HD1]; reflexivity). }
    destruct g as [g|]; [apply D_g_append|]; exact HD3.
  - (* GraphNew: rejected up front, or built with the validated mutators *)
    unfold graph_new. destruct (negb (blank_graph h g)); [assumption|]. cbn [all_fixed].
    destruct (graph_new_reject _ _ _ _ _); [assumption|]. cbn [fst K]. unfold graph_init.
    match goal with |- D_ok (with_nm ?h4 _) => apply (D_ok_same h4); [reflexivity|reflexivity|] end.
    apply D_g_extend. apply D_reg_values. apply D_reg_values.
    unfold D_ok, hp. cbn [hpo how with_ow]. fold (hp h).
    generalize (dict_of (how h) ginit []). intros d.
    assert (H2 : InvD (hp h) (fst (io_extend all_fixed KOut (fst (io_extend all_fixed KIn (how h) (hp h) g gi)) (hp h) g go))).
    { apply InvD_io_extend. apply InvD_io_extend. exact HD. }
    revert H2. generalize (fst (io_extend all_fixed KOut (fst (io_extend all_fixed KIn (how h) (hp h) g gi)) (hp h) g go)).
    induction d as [|[k v] t IH]; intros s Hs; simpl; [exact Hs|].
    apply IH. destruct k as [k|]; [apply InvD_init_setitem|]; exact Hs.
  - apply D_g_append. assumption.
  - apply D_g_extend. assumption.
  - apply D_g_insert. assumption.
  - apply D_g_insert. assumption.
  - destruct (ngraph (hng h) n); [apply D_g_insert|]; assumption.
  - destruct (ngraph (hng h) n); [apply D_g_insert|]; assumption.
  - unfold g_remove. destruct (forallb _ _); [|assumption]. cbn [fst K]. apply D_remove_fold. assumption.
  - (* GSort *)
    unfold g_sort. destruct out as [orders|]; [|assumption]. destruct (sort_valid h orders); [|assumption]. cbn [fst K].
    revert h HD. induction orders as [|go t IH]; intros h HD; simpl; [assumption|]. apply IH. apply D_g_extend. assumption.
  - unfold n_replace_input. destruct (_ || _)%bool; [assumption|]. eapply D_ok_same; [| |exact HD]; reflexivity.
  - unfold n_resize_inputs. destruct (_ =? _)%Z; [assumption|]. destruct (_ <? _)%Z; [assumption|].
    destruct (_ <? _); (eapply D_ok_same; [| |exact HD]; reflexivity).
  - (* NResizeOutputs *)
    unfold n_resize_outputs. destruct (_ =? _)%Z; [assumption|]. destruct (_ <? _)%Z.
    + destruct (forallb _ _); [|assumption]. cbn [fst K]. unfold D_ok, hp. simpl.
      eapply InvD_weaken; [exact HD|]. intros v Hv. unfold prod, set_outs. simpl.
      fold (prod (po_release (hpo h) (skipn (pyslice (length (outs (hpo h) n)) k) (outs (hpo h) n))) v).
      destruct (prod_po_release (skipn (pyslice (length (outs (hpo h) n)) k) (outs (hpo h) n)) (hpo h) v) as [-> | ->];
        [|reflexivity]. apply (proj2 (proj2 (proj2 (proj2 HD)))). assumption.
    + destruct (_ && _) eqn:E; [|assumption]. cbn [fst K].
      apply andb_prop in E. destruct E as [E _]. apply andb_prop in E. destruct E as [Ebl _].
      rewrite forallb_forall in Ebl.
      match goal with |- D_ok (bump_vs ?h1 _) => apply (D_ok_same h1); [reflexivity|reflexivity|] end.
      unfold D_ok, hp. simpl. eapply InvD_weaken; [exact HD|]. intros v Hv.
      destruct (in_dec Nat.eq_dec v fresh) as [Hin|Hnin].
      * destruct (blank_unowned _ _ (Ebl v Hin)) as [Ho _]. destruct (owned_false_flags _ _ Ho). destruct Hv; congruence.
      * unfold prod, set_outs. simpl. fold (prod (po_adopt (hpo h) n (length (outs (hpo h) n)) fresh) v).
        rewrite prod_po_adopt by assumption. apply (proj2 (proj2 (proj2 (proj2 HD)))). assumption.
  - (* VReplaceAllUses *)
    unfold v_replace_all_uses. destruct (flag KOut (how h) v); [|cbn [fst K]; apply D_go_uses; assumption].
    destruct (vgraph (how h) v) as [g|]; [|assumption]. destruct (negb rgo); [assumption|].
    pose proof (InvD_rau (hp h) g v r (iol KOut (how h) g) (how h) 0 HD) as Hr.
    destruct (rau_outputs _ _ _ _ _ _ _ _) as [s' r']. simpl in Hr.
    assert (HD' : D_ok (with_ow h s')) by exact Hr.
    destruct r'; cbn [fst K]; [apply D_go_uses|]; assumption.
  - exact (InvD_vset_name (hp h) (how h) v nm HD).
  - exact (InvD_io_append (hp h) k (how h) g v HD).
  - exact (InvD_io_extend (hp h) k (how h) g vs HD).
  - exact (InvD_io_insert (hp h) k (how h) g i v HD).
  - exact (InvD_io_pop (hp h) k (how h) g i HD).
  - exact (InvD_io_remove (hp h) k (how h) g v HD).
  - exact (InvD_io_clear (hp h) k (how h) g HD).
  - exact (InvD_io_setitem (hp h) k (how h) g i v HD).
  - exact (InvD_io_delitem (hp h) k (how h) g i HD).
  - exact (InvD_io_setslice (hp h) k (how h) g a b vs HD).
  - exact (InvD_io_delslice (hp h) k (how h) g a b HD).
  - exact (InvD_io_reverse (hp h) k (how h) g HD).
  - exact (InvD_init_setitem (hp h) (how h) g key v HD).
  - exact (InvD_init_delitem (hp h) (how h) g key HD).
  - exact (InvD_init_delitem (hp h) (how h) g key HD).
  - exact (InvD_init_add (hp h) (how h) g v HD).
  - exact (InvD_init_clear (hp h) (how h) g HD).
  - exact (InvD_init_popitem (hp h) (how h) g HD).
  - exact (InvD_init_update (hp h) (how h) g kvs HD).
  - exact (InvD_init_setdefault (hp h) (how h) g key v HD).
Qed.

(* ------------------------------------------------------------------ the invariant and its preservation *)
Definition Inv (h : heap) : Prop := I1 (hio h) /\ I3 (hng h) /\ D_ok h.

Lemma D_ok_empty : D_ok empty_heap.
Proof.
  assert (Hf : forall k v, flag k (how empty_heap) v = false) by (intros [] v; unfold flag; simpl; apply sget_nil).
  assert (Hl : forall k g, iol k (how empty_heap) g = []) by (intros [] g; unfold iol; simpl; apply sget_nil).
  assert (Hr : forall k g v, rc k (how empty_heap) g v = 0%Z).
  { intros [] g v; unfold rc; simpl; rewrite sget_nil; apply (sget_nil (A := Z)). }
  assert (Hi : forall v, vinit (how empty_heap) v = false) by (intros v; unfold vinit; simpl; apply sget_nil).
  assert (Hg : forall v, vgraph (how empty_heap) v = None) by (intros v; unfold vgraph; simpl; apply sget_nil).
  assert (Ht : forall g, inits (how empty_heap) g = []) by (intros g; unfold inits; simpl; apply sget_nil).
  assert (H4 : forall k, I4 k (how empty_heap)).
  { intros k. split.
    - intros v g. rewrite Hf, Hl. simpl. split; [intros [H _]; discriminate|lia].
    - intros g v. rewrite Hr, Hl. reflexivity. }
  split; [apply H4|]. split; [apply H4|]. split; [|split].
  - split; [|split].
    + intros g key v. rewrite Ht. intros [].
    + intros g. rewrite Ht. constructor.
    + intros v. rewrite Hi. discriminate.
  - intros v. unfold owned. rewrite !Hf, Hi, Hg. simpl. tauto.
  - intros v. rewrite Hf, Hi. intros [H|H]; discriminate.
Qed.

Lemma Inv_empty : Inv empty_heap.
Proof. split; [apply I1_empty|]. split; [apply I3_empty|apply D_ok_empty]. Qed.

Theorem Inv_step h o : Inv h -> Inv (fst (step all_fixed h o)).
Proof.
  intros (H1 & H3 & HD). split; [apply I1_step; assumption|]. split; [apply I3_step; assumption|].
  apply D_step; assumption.
Qed.

Theorem Inv_run_fixed ops : forall h, Inv h -> Inv (run all_fixed ops h).
Proof. induction ops as [|o t IH]; intros h HI; simpl; [assumption|]. apply IH. apply Inv_step. assumption. Qed.

(* a history of the model under configuration c that never takes a branch on which c differs from the
   repaired model, i.e. that never hits an unrepaired defect site *)
Fixpoint clean (c : cfg) (ops : list op) (h : heap) : Prop :=
  match ops with
  | [] => True
  | o :: t => step c h o = step all_fixed h o /\ clean c t (fst (step c h o))
  end.

Lemma clean_run c ops : forall h, clean c ops h -> run c ops h = run all_fixed ops h.
Proof.
  induction ops as [|o t IH]; intros h Hc; simpl; [reflexivity|]. destruct Hc as [He Hc].
  rewrite IH by assumption. rewrite He. reflexivity.
Qed.

Lemma clean_all_fixed ops : forall h, clean all_fixed ops h.
Proof. induction ops as [|o t IH]; intros h; simpl; auto. Qed.

Theorem Inv_run_clean c ops : clean c ops empty_heap -> Inv (run c ops empty_heap).
Proof. intros Hc. rewrite clean_run by assumption. apply Inv_run_fixed. apply Inv_empty. Qed.

(* ------------------------------------------------------------------ the invariant in the words of the property *)
Definition InvP (h : heap) : Prop :=
  (* I1 *) (forall v n i, In (n, i) (uses (hio h) v) <-> nth_error (ins (hio h) n) i = Some (Some v)) /\
           (forall v, NoDup (uses (hio h) v)) /\
  (* I3 *) (forall n g, ngraph (hng h) n = Some g <-> In n (gseq (hng h) g)) /\ (forall g, NoDup (gseq (hng h) g)) /\
  (* I4 *) (forall k v g, (flag k (how h) v = true /\ vgraph (how h) v = Some g) <-> In v (iol k (how h) g)) /\
           (forall k g v, rc k (how h) g v = countb v (iol k (how h) g)) /\
  (* I5 *) (forall g key v, In (key, v) (inits (how h) g) ->
              vname (how h) v = Some key /\ vinit (how h) v = true /\ vgraph (how h) v = Some g) /\
           (forall g, NoDup (map fst (inits (how h) g))) /\
           (forall v, vinit (how h) v = true -> exists g key, In (key, v) (inits (how h) g)) /\
  (* I6 *) (forall v, flag KIn (how h) v = true \/ vinit (how h) v = true -> prod (hpo h) v = None) /\
  (* I7 *) (forall v, vgraph (how h) v = None <-> owned (how h) v = false).

Lemma Inv_InvP h : Inv h -> InvP h.
Proof.
  intros ((A1 & A2) & (C1 & C2) & HD). pose proof HD as (H4i & H4o & (H5a & H5b & H5c) & H7 & H6).
  split; [exact A1|]. split; [exact A2|]. split; [exact C1|]. split; [exact C2|].
  split.
  { intros k v g. rewrite <- countb_pos_In. apply (proj1 (I4_any k _ _ HD)). }
  split; [intros k; apply (proj2 (I4_any k _ _ HD))|].
  split; [intros g key v Hin; destruct (H5a _ _ _ Hin) as (? & ? & ? & _); auto|].
  split; [exact H5b|]. split; [exact H5c|].
  split; [|exact H7].
  intros v Hv. specialize (H6 v Hv). unfold hp in H6. destruct (prod (hpo h) v); [discriminate|reflexivity].
Qed.

(* C01/Tie.v — what the generated case files evaluate (never imported by the theorems).
   Observations are compared through a 63-bit hash computed with Coq's primitive integers so that
   case files stay small; the harness computes the same hash from the implementation's observation. *)
From Coq Require Import ZArith List Bool Uint63.
From IRV Require Import Base.Exn C01.Model.
Import ListNotations.

Definition hash63 (l : list Z) : int :=
  fold_left (fun acc x => (acc * 1000003 + Uint63.of_Z (x + 7))%uint63) l 1%uint63.

(* the c-model takes a branch on which it differs from the repaired model: a known defect site is hit *)
Definition hit (c : cfg) (h : heap) (o : op) : bool :=
  let '(h1, r1) := step c h o in
  let '(h2, r2) := step all_fixed h o in
  negb (res_eqb (fun _ _ => true) r1 r2 && list_eqb Z.eqb (obs_all h1) (obs_all h2)).

Definition exp_step := (int * res unit)%type.
(* Walk the history comparing outcome and observation hash with the implementation's after every op.
   Comparison stops after the first op that hits a defect site (that op included): from then on the
   implementation state is outside the domain on which the model is claimed faithful.
   Result: (index of the first disagreeing step, index of the first site hit). *)
Fixpoint walk (c : cfg) (h : heap) (ops : list op) (exp : list exp_step) (i : nat) : option nat * option nat :=
  match ops, exp with
  | [], [] => (None, None)
  | o :: ops', (hs, r) :: exp' =>
    let '(h', r') := step c h o in
    if res_eqb (fun _ _ => true) r r' && (hash63 (obs h') =? hs)%uint63 then
      if hit c h o then (None, Some i) else walk c h' ops' exp' (S i)
    else (Some i, if hit c h o then Some i else None)
  | _, _ => (Some i, None)
  end.
Definition code (o : option nat) : nat := match o with None => 0 | Some i => S i end.
(* per case: (1 + first disagreeing step | 0, 1 + first hit step | 0) *)
Definition verdict (c : cfg) (cs : list op * list exp_step) : nat * nat :=
  let '(d, k) := walk c empty_heap (fst cs) (snd cs) 0 in (code d, code k).

(* C01/ProofsB.v — I2: every node output names that node and position as its producer, and conversely.
   Proved for the repaired model; the current code breaks it at SNodeOutputsDup (Node(outputs=[x, x]); repaired by dff454e). *)
From Coq Require Import ZArith List Bool Arith Lia.
From IRV Require Import Base.Exn C01.Model C01.Store C01.ProofsA.
Import ListNotations.

Definition I2 (s : po_st) : Prop :=
  (forall n i v, nth_error (outs s n) i = Some v -> prod s v = Some n /\ idx s v = Some (Z.of_nat i)) /\
  (forall v n, prod s v = Some n -> In v (outs s n)).

Lemma outs_set_outs s n l m : outs (set_outs s n l) m = if n =? m then l else outs s m.
Proof. unfold outs, set_outs. simpl. apply sget_sset. Qed.
Lemma prod_set_prod s v p i w : prod (set_prod s v p i) w = if v =? w then p else prod s w.
Proof. unfold prod, set_prod. simpl. apply sget_sset. Qed.
Lemma idx_set_prod s v p i w : idx (set_prod s v p i) w = if v =? w then i else idx s w.
Proof. unfold idx, set_prod. simpl. apply sget_sset. Qed.

Lemma po_adopt_spec n vs : forall i s, NoDup vs ->
  (forall m, outs (po_adopt s n i vs) m = outs s m) /\
  (forall w, ~ In w vs -> prod (po_adopt s n i vs) w = prod s w /\ idx (po_adopt s n i vs) w = idx s w) /\
  (forall j w, nth_error vs j = Some w ->
     prod (po_adopt s n i vs) w = Some n /\ idx (po_adopt s n i vs) w = Some (Z.of_nat (i + j))).
Proof.
  induction vs as [|v t IH]; intros i s Hnd; simpl.
  - repeat split; auto; destruct j; discriminate.
  - inversion Hnd; subst. destruct (IH (S i) (set_prod s v (Some n) (Some (Z.of_nat i))) H2) as (A & B & C).
    split; [intros m; rewrite A; reflexivity|]. split.
    + intros w Hw. destruct (B w ltac:(tauto)) as [B1 B2]. rewrite B1, B2, prod_set_prod, idx_set_prod.
      destruct (Nat.eqb_spec v w); [tauto|auto].
    + intros [|j] w Hj; simpl in Hj.
      * injection Hj as <-. destruct (B v H1) as [B1 B2]. rewrite B1, B2, prod_set_prod, idx_set_prod, Nat.eqb_refl.
        rewrite Nat.add_0_r. auto.
      * destruct (C j w Hj) as [C1 C2]. rewrite C1, C2. split; [reflexivity|]. f_equal. f_equal. lia.
Qed.

Lemma po_release_spec vs : forall s,
  (forall m, outs (po_release s vs) m = outs s m) /\
  (forall w, ~ In w vs -> prod (po_release s vs) w = prod s w /\ idx (po_release s vs) w = idx s w) /\
  (forall w, In w vs -> prod (po_release s vs) w = None).
Proof.
  induction vs as [|v t IH]; intros s; simpl.
  - repeat split; auto; contradiction.
  - destruct (IH (set_prod s v None (Some (-1)%Z))) as (A & B & C).
    split; [intros m; rewrite A; reflexivity|]. split.
    + intros w Hw. destruct (B w ltac:(tauto)) as [B1 B2]. rewrite B1, B2, prod_set_prod, idx_set_prod.
      destruct (Nat.eqb_spec v w); [tauto|auto].
    + intros w [->|Hw]; [|auto]. destruct (in_dec Nat.eq_dec w t) as [Hi|Hn]; [auto|].
      destruct (B w Hn) as [B1 _]. rewrite B1, prod_set_prod, Nat.eqb_refl. reflexivity.
Qed.

Lemma I2_adopt s n vs : I2 s -> (forall v, In v vs -> prod s v = None) -> NoDup vs ->
  I2 (set_outs (po_adopt s n (length (outs s n)) vs) n (outs s n ++ vs)).
Proof.
  intros [H1 H2] Hfree Hnd. destruct (po_adopt_spec n vs (length (outs s n)) s Hnd) as (A & B & C).
  unfold I2. split.
  - intros m i v. rewrite outs_set_outs.
    change (prod (set_outs ?x n ?l) v) with (prod x v). change (idx (set_outs ?x n ?l) v) with (idx x v).
    destruct (Nat.eqb_spec n m) as [<-|Hne].
    + destruct (Nat.lt_ge_cases i (length (outs s n))) as [Hlt|Hge].
      * rewrite nth_error_app1 by assumption. intros Hi. destruct (H1 _ _ _ Hi) as [P Q].
        assert (Hn : ~ In v vs) by (intros Hin; rewrite (Hfree v Hin) in P; discriminate).
        destruct (B v Hn) as [-> ->]. auto.
      * rewrite nth_error_app2 by assumption. intros Hi. destruct (C _ _ Hi) as [-> ->]. split; [reflexivity|].
        f_equal. f_equal. lia.
    + rewrite A. intros Hi. destruct (H1 _ _ _ Hi) as [P Q].
      assert (Hn : ~ In v vs) by (intros Hin; rewrite (Hfree v Hin) in P; discriminate).
      destruct (B v Hn) as [-> ->]. auto.
  - intros v m. change (prod (set_outs ?x n ?l) v) with (prod x v). rewrite outs_set_outs.
    destruct (in_dec Nat.eq_dec v vs) as [Hin|Hn].
    + destruct (In_nth_error _ _ Hin) as [j Hj]. destruct (C _ _ Hj) as [-> _]. intros [= <-].
      rewrite Nat.eqb_refl. apply in_or_app. auto.
    + destruct (B v Hn) as [-> _]. intros P. specialize (H2 _ _ P). rewrite A.
      destruct (Nat.eqb_spec n m) as [<-|]; [apply in_or_app; auto|assumption].
Qed.

Lemma nth_error_skipn {A} (l : list A) c j : nth_error (skipn c l) j = nth_error l (c + j).
Proof. revert l. induction c as [|c IH]; intros [|x t]; simpl; auto. destruct j; reflexivity. Qed.

Lemma I2_release s n cut : I2 s -> cut <= length (outs s n) ->
  I2 (set_outs (po_release s (skipn cut (outs s n))) n (firstn cut (outs s n))).
Proof.
  intros [H1 H2] Hcut. set (l := outs s n) in *. destruct (po_release_spec (skipn cut l) s) as (A & B & C).
  assert (Hsep : forall i v, i < cut -> nth_error l i = Some v -> ~ In v (skipn cut l)).
  { intros i v Hi Hv Hin. destruct (In_nth_error _ _ Hin) as [j Hj]. rewrite nth_error_skipn in Hj.
    destruct (H1 _ _ _ Hv) as [_ Q1]. destruct (H1 _ _ _ Hj) as [_ Q2]. rewrite Q1 in Q2. injection Q2 as Q2. lia. }
  unfold I2. split.
  - intros m i v. rewrite outs_set_outs.
    change (prod (set_outs ?x n ?l) v) with (prod x v). change (idx (set_outs ?x n ?l) v) with (idx x v).
    destruct (Nat.eqb_spec n m) as [<-|Hne].
    + intros Hi. assert (Hlt : i < cut).
      { assert (i < length (firstn cut l)) by (apply nth_error_Some; congruence). rewrite firstn_length in H. lia. }
      rewrite nth_error_firstn_lt in Hi by assumption. destruct (B v (Hsep _ _ Hlt Hi)) as [-> ->]. apply H1. assumption.
    + rewrite A. intros Hi. destruct (H1 _ _ _ Hi) as [P Q].
      assert (Hn : ~ In v (skipn cut l)).
      { intros Hin. assert (Hl : In v l) by (rewrite <- (firstn_skipn cut l); apply in_or_app; auto).
        destruct (In_nth_error _ _ Hl) as [j Hj]. destruct (H1 _ _ _ Hj) as [P' _]. congruence. }
      destruct (B v Hn) as [-> ->]. auto.
  - intros v m. change (prod (set_outs ?x n ?l) v) with (prod x v). rewrite outs_set_outs.
    destruct (in_dec Nat.eq_dec v (skipn cut l)) as [Hin|Hn]; [rewrite (C v Hin); discriminate|].
    destruct (B v Hn) as [-> _]. intros P. specialize (H2 _ _ P). rewrite A.
    destruct (Nat.eqb_spec n m) as [<-|]; [|assumption].
    fold l in H2. rewrite <- (firstn_skipn cut l) in H2. apply in_app_or in H2. tauto.
Qed.

(* C01/ProofsA.v — I1: a value lists the use (n,i) exactly when node n holds it at input i.
   Holds for EVERY configuration of the model (no defect site touches the use-def links). *)
From Coq Require Import ZArith List Bool Arith Lia.
From IRV Require Import Base.Exn C01.Model C01.Store.
Import ListNotations.

Definition I1 (s : io_st) : Prop :=
  (forall v n i, In (n, i) (uses s v) <-> nth_error (ins s n) i = Some (Some v)) /\
  (forall v, NoDup (uses s v)).

Lemma use_eqb_eq a b : use_eqb a b = true <-> a = b.
Proof.
  destruct a as [a1 a2], b as [b1 b2]. unfold use_eqb. simpl. rewrite andb_true_iff, !Nat.eqb_eq.
  split; [intros [-> ->]; reflexivity | intros [= -> ->]; auto].
Qed.

Lemma ins_set_ins s n l m : ins (set_ins s n l) m = if n =? m then l else ins s m.
Proof. unfold ins, set_ins. simpl. apply sget_sset. Qed.
Lemma uses_set_ins s n l w : uses (set_ins s n l) w = uses s w.
Proof. reflexivity. Qed.
Lemma ins_set_uses s v l m : ins (set_uses s v l) m = ins s m.
Proof. reflexivity. Qed.
Lemma uses_set_uses s v l w : uses (set_uses s v l) w = if v =? w then l else uses s w.
Proof. unfold uses, set_uses. simpl. apply sget_sset. Qed.

Lemma ins_del_use s v u m : ins (del_use s v u) m = ins s m.
Proof. reflexivity. Qed.
Lemma ins_add_use s v u m : ins (add_use s v u) m = ins s m.
Proof. unfold add_use. destruct (existsb _ _); reflexivity. Qed.

Lemma In_del_use s v u w p : In p (uses (del_use s v u) w) <-> In p (uses s w) /\ (v = w -> p <> u).
Proof.
  unfold del_use. rewrite uses_set_uses. destruct (Nat.eqb_spec v w) as [->|Hne].
  - rewrite filter_In. split.
    + intros [Hin Hf]. split; [assumption|]. intros _ ->. rewrite (proj2 (use_eqb_eq u u) eq_refl) in Hf. discriminate.
    + intros [Hin Hp]. split; [assumption|]. destruct (use_eqb u p) eqn:E; [|reflexivity].
      apply use_eqb_eq in E. subst. exfalso. apply (Hp eq_refl). reflexivity.
  - split; [intros Hin; split; [assumption|congruence] | tauto].
Qed.

Lemma In_add_use s v u w p : In p (uses (add_use s v u) w) <-> In p (uses s w) \/ (v = w /\ p = u).
Proof.
  unfold add_use. destruct (existsb (use_eqb u) (uses s v)) eqn:E.
  - split; [tauto|]. intros [Hin|[<- ->]]; [assumption|].
    apply existsb_exists in E. destruct E as [y [Hy He]]. apply use_eqb_eq in He. subst. assumption.
  - rewrite uses_set_uses. destruct (Nat.eqb_spec v w) as [->|Hne].
    + rewrite in_app_iff. simpl. split; [intros [H|[H|[]]]; auto | intros [H|[_ ->]]; auto].
    + split; [tauto|]. intros [H|[H _]]; [assumption|congruence].
Qed.

Lemma NoDup_del_use s v u w : NoDup (uses s w) -> NoDup (uses (del_use s v u) w).
Proof.
  intros H. unfold del_use. rewrite uses_set_uses. destruct (Nat.eqb_spec v w) as [->|]; [apply NoDup_filter|]; assumption.
Qed.


Lemma NoDup_snoc {A} (l : list A) x : NoDup l -> ~ In x l -> NoDup (l ++ [x]).
Proof.
  induction l as [|y t IH]; simpl; intros Hnd Hnin.
  - constructor; [tauto|constructor].
  - inversion Hnd; subst. constructor.
    + rewrite in_app_iff. simpl. intros [H|[H|[]]]; [tauto|]. subst. tauto.
    + apply IH; [assumption|tauto].
Qed.

Lemma NoDup_add_use s v u w : NoDup (uses s w) -> NoDup (uses (add_use s v u) w).
Proof.
  intros H. unfold add_use. destruct (existsb (use_eqb u) (uses s v)) eqn:E; [assumption|].
  rewrite uses_set_uses. destruct (Nat.eqb_spec v w) as [->|Hne]; [|assumption].
  apply NoDup_snoc; [assumption|]. intros Hin.
  assert (Hex : existsb (use_eqb u) (uses s w) = true).
  { apply existsb_exists. exists u. split; [assumption|]. apply use_eqb_eq. reflexivity. }
  congruence.
Qed.

#[global] Arguments io_replace : simpl never.

Lemma ins_io_replace s n i x m :
  ins (io_replace s n i x) m = if n =? m then list_set (ins s n) i x else ins s m.
Proof.
  unfold io_replace. destruct x as [v|]; destruct (nth i (ins s n) None) as [o|];
    rewrite ?ins_add_use, ?ins_del_use, ins_set_ins; reflexivity.
Qed.

Lemma len_io_replace s n i x m : length (ins (io_replace s n i x) m) = length (ins s m).
Proof.
  rewrite ins_io_replace. destruct (Nat.eqb_spec n m) as [->|]; [apply list_set_length|reflexivity].
Qed.

Lemma uses_io_replace s n i x : I1 s -> i < length (ins s n) ->
  forall w p, In p (uses (io_replace s n i x) w) <->
              (In p (uses s w) /\ p <> (n, i)) \/ (p = (n, i) /\ x = Some w).
Proof.
  intros [HI _] Hlt w p. pose proof (nth_error_nth_None _ _ Hlt) as Hold.
  assert (Hno : forall w', nth i (ins s n) None <> Some w' -> In p (uses s w') -> p <> (n, i)).
  { intros w' Hne Hin ->. apply HI in Hin. rewrite Hold in Hin. congruence. }
  unfold io_replace. destruct (nth i (ins s n) None) as [o|] eqn:Eo; destruct x as [v|].
  - rewrite In_add_use, In_del_use, uses_set_ins. split.
    + intros [[Hin Hp]|[-> ->]]; [left|right; auto]. split; [assumption|].
      destruct (Nat.eq_dec o w) as [->|Hne]; [auto|]. apply (Hno w); [congruence|assumption].
    + intros [[Hin Hp]|[-> [= ->]]]; [left; split; auto | right; auto].
  - rewrite In_del_use, uses_set_ins. split.
    + intros [Hin Hp]. left. split; [assumption|].
      destruct (Nat.eq_dec o w) as [->|Hne]; [auto|]. apply (Hno w); [congruence|assumption].
    + intros [[Hin Hp]|[_ H]]; [split; auto | discriminate].
  - rewrite In_add_use, uses_set_ins. split.
    + intros [Hin|[-> ->]]; [left|right; auto]. split; [assumption|]. apply (Hno w); [congruence|assumption].
    + intros [[Hin Hp]|[-> [= ->]]]; [left; assumption | right; auto].
  - rewrite uses_set_ins. split.
    + intros Hin. left. split; [assumption|]. apply (Hno w); [congruence|assumption].
    + intros [[Hin Hp]|[_ H]]; [assumption | discriminate].
Qed.

Lemma NoDup_io_replace s n i x w : NoDup (uses s w) -> NoDup (uses (io_replace s n i x) w).
Proof.
  intros H. unfold io_replace. destruct (nth i (ins s n) None) as [o|]; destruct x as [v|];
    repeat first [apply NoDup_add_use | apply NoDup_del_use]; rewrite ?uses_set_ins; assumption.
Qed.

Lemma I1_replace s n i x : I1 s -> i < length (ins s n) -> I1 (io_replace s n i x).
Proof.
  intros HI Hlt. split; [|intros w; apply NoDup_io_replace; apply HI].
  intros w m j. rewrite (uses_io_replace s n i x HI Hlt), ins_io_replace.
  destruct HI as [HI _].
  destruct (Nat.eqb_spec n m) as [<-|Hnm].
  - rewrite nth_error_list_set. destruct (Nat.eqb_spec i j) as [<-|Hij].
    + apply Nat.ltb_lt in Hlt. rewrite Hlt. split.
      * intros [[_ H]|[_ ->]]; [congruence|reflexivity].
      * intros [= ->]. right. auto.
    + rewrite <- HI. split; [intros [[H _]|[He _]]; [assumption|inversion He; congruence] | ].
      intros H. left. split; [assumption|congruence].
  - rewrite <- HI. split; [intros [[H _]|[He _]]; [assumption|inversion He; congruence] | ].
    intros H. left. split; [assumption|congruence].
Qed.

(* replacing the input list of a node by one with the same (position, value) content *)
Lemma I1_set_ins_equiv s n l' : I1 s ->
  (forall j w, nth_error l' j = Some (Some w) <-> nth_error (ins s n) j = Some (Some w)) -> I1 (set_ins s n l').
Proof.
  intros [HI Hnd] Heq. split; [|exact Hnd]. intros v m i. rewrite uses_set_ins, ins_set_ins.
  destruct (Nat.eqb_spec n m) as [<-|]; [rewrite Heq|]; apply HI.
Qed.

Lemma clear_from_spec s n cnt : forall from s0, I1 s0 -> from + cnt <= length (ins s0 n) ->
  s = io_clear_from s0 n from cnt ->
  I1 s /\ length (ins s n) = length (ins s0 n) /\
  (forall j, from <= j < from + cnt -> nth_error (ins s n) j = Some None) /\
  (forall j, j < from -> nth_error (ins s n) j = nth_error (ins s0 n) j).
Proof.
  induction cnt as [|c IH]; intros from s0 HI Hle ->; simpl.
  - repeat split; try apply HI; intros; lia.
  - assert (Hlt : from < length (ins s0 n)) by lia.
    specialize (IH (S from) (io_replace s0 n from None) (I1_replace _ _ _ _ HI Hlt)).
    rewrite len_io_replace in IH. specialize (IH ltac:(lia) eq_refl).
    destruct IH as (H1 & H2 & H3 & H4). repeat split; try apply H1; [assumption| |].
    + intros j Hj. destruct (Nat.eq_dec j from) as [->|Hne]; [|apply H3; lia].
      rewrite H4 by lia. rewrite ins_io_replace, Nat.eqb_refl, nth_error_list_set, Nat.eqb_refl.
      apply Nat.ltb_lt in Hlt. rewrite Hlt. reflexivity.
    + intros j Hj. rewrite H4 by lia. rewrite ins_io_replace, Nat.eqb_refl, nth_error_list_set.
      destruct (Nat.eqb_spec from j); [lia|reflexivity].
Qed.

Lemma I1_clear_from s n from cnt : I1 s -> from + cnt <= length (ins s n) -> I1 (io_clear_from s n from cnt).
Proof. intros HI Hle. exact (proj1 (clear_from_spec _ n cnt from s HI Hle eq_refl)). Qed.

Lemma len_clear_from n cnt : forall from s m, length (ins (io_clear_from s n from cnt) m) = length (ins s m).
Proof. induction cnt as [|c IH]; intros; cbn [io_clear_from]; [reflexivity|]. rewrite IH, len_io_replace. reflexivity. Qed.

Lemma nth_error_firstn_lt {A} (l : list A) k j : j < k -> nth_error (firstn k l) j = nth_error l j.
Proof.
  revert l j. induction k as [|k IH]; intros [|y t] [|j] H; simpl; try lia; try reflexivity. apply IH. lia.
Qed.
Lemma nth_error_firstn_ge {A} (l : list A) k j : k <= j -> nth_error (firstn k l) j = None.
Proof. intros H. apply nth_error_None. rewrite firstn_length. lia. Qed.

Lemma I1_fill n xs : forall i s, I1 s -> i + length xs <= length (ins s n) -> I1 (io_fill s n i xs).
Proof.
  induction xs as [|x t IH]; intros i s HI Hle; simpl in *; [assumption|].
  apply IH; [apply I1_replace; [assumption|lia] | rewrite len_io_replace; lia].
Qed.

Lemma nth_error_repeat_None {A} k j (w : A) : nth_error (repeat (@None A) k) j <> Some (Some w).
Proof. revert j. induction k as [|k IH]; intros [|j]; simpl; try congruence; apply IH. Qed.

Lemma I1_new_node s n xs : I1 s -> ins s n = [] -> I1 (io_new_node s n xs).
Proof.
  intros HI Hblank. unfold io_new_node. apply I1_fill.
  - apply I1_set_ins_equiv; [assumption|]. intros j w. rewrite Hblank. split; intros H.
    + exfalso. exact (nth_error_repeat_None _ _ _ H).
    + destruct j; discriminate.
  - rewrite ins_set_ins, Nat.eqb_refl, repeat_length. simpl. lia.
Qed.

(* fold of replace_input_with over a snapshot of uses (Value.replace_all_uses_with) *)
Lemma I1_fold_replace r (l : list (nat * nat)) : forall s, I1 s ->
  (forall u, In u l -> snd u < length (ins s (fst u))) ->
  I1 (fold_left (fun s u => io_replace s (fst u) (snd u) (Some r)) l s).
Proof.
  induction l as [|u t IH]; intros s HI Hl; simpl; [assumption|].
  apply IH; [apply I1_replace; [assumption|apply Hl; left; reflexivity]|].
  intros u' Hu'. rewrite len_io_replace. apply Hl. right. assumption.
Qed.

Lemma I1_uses_lt s v u : I1 s -> In u (uses s v) -> snd u < length (ins s (fst u)).
Proof.
  intros [HI _] Hin. destruct u as [n i]. apply HI in Hin. simpl. apply nth_error_Some. congruence.
Qed.

(* ------------------------------------------------------------------ heap level: which ops touch hio *)
Lemma hio_reg_value c h g v : hio (reg_value c h g v) = hio h.
Proof. unfold reg_value. destruct (vname (how h) v); [reflexivity|]. destruct (nm_fresh_v (hnm h) g). reflexivity. Qed.
Lemma hio_reg_values c g vs : forall h, hio (reg_values c h g vs) = hio h.
Proof. induction vs as [|v t IH]; intros h; simpl; [reflexivity|]. rewrite IH. apply hio_reg_value. Qed.
Lemma hio_adopt c h g n : hio (adopt c h g n) = hio h.
Proof.
  unfold adopt. simpl. rewrite hio_reg_values. simpl.
  destruct (nname (hnm h) n); [reflexivity|]. destruct (nm_fresh_n (hnm h) g). reflexivity.
Qed.
Lemma hio_adopt_all c g ns : forall h, hio (adopt_all c h g ns) = hio h.
Proof. induction ns as [|n t IH]; intros h; simpl; [reflexivity|]. rewrite IH. apply hio_adopt. Qed.
Lemma hio_adopt_seq c g ns : forall h, hio (fst (adopt_seq c h g ns)) = hio h.
Proof.
  induction ns as [|n t IH]; intros h; simpl; [reflexivity|].
  destruct (node_check (hng h) g n); [|reflexivity]. rewrite IH. apply hio_adopt.
Qed.
Lemma hio_g_append c h g n : hio (fst (g_append c h g n)) = hio h.
Proof. unfold g_append. destruct (node_check _ _ _); simpl; [apply hio_adopt|reflexivity]. Qed.
Lemma hio_g_extend c h g ns : hio (fst (g_extend c h g ns)) = hio h.
Proof.
  unfold g_extend. destruct (forallb _ _); simpl; [apply hio_adopt_all|].
  destruct (c SGExtend); simpl; [reflexivity|apply hio_adopt_seq].
Qed.
Lemma hio_g_insert c h g b ref ns : hio (fst (g_insert c h g b ref ns)) = hio h.
Proof.
  unfold g_insert. destruct (_ && _); simpl; [apply hio_adopt_all|].
  destruct (c SGInsert); simpl; [reflexivity|apply hio_adopt_seq].
Qed.
Lemma hio_graph_build c h g gi go d ns : hio (fst (graph_build c h g gi go d ns)) = hio h.
Proof.
  unfold graph_build.
  destruct (io_own_seq KIn _ _ _ _) as [s1 ok1]. destruct ok1; simpl; [|reflexivity].
  destruct (io_own_seq KOut _ _ _ _) as [s2 ok2]. destruct ok2; simpl; [|reflexivity].
  destruct (init_own_seq _ _ _) as [s3 ok3]. destruct ok3; simpl; [|reflexivity].
  destruct (init_set_seq _ _ _ _ _) as [s4 r4]. destruct r4; simpl; [|reflexivity].
  rewrite hio_g_extend, !hio_reg_values. reflexivity.
Qed.
Lemma hio_graph_init c h g gi go d ns : hio (graph_init c h g gi go d ns) = hio h.
Proof. unfold graph_init. cbn [hio with_nm]. rewrite hio_g_extend, !hio_reg_values. reflexivity. Qed.
Lemma hio_graph_new c h g gi go ginit ns : hio (fst (graph_new c h g gi go ginit ns)) = hio h.
Proof.
  unfold graph_new. destruct (negb (blank_graph h g)); [reflexivity|].
  destruct (c SGraphNew).
  - destruct (graph_new_reject _ _ _ _ _); [reflexivity|]. cbn [fst K]. apply hio_graph_init.
  - pose proof (hio_graph_build c h g gi go (dict_of (how h) ginit []) ns) as Hb.
    destruct (graph_build _ _ _ _ _ _ _) as [h' r]. simpl in Hb.
    destruct r; simpl; [assumption|]. destruct (_ || _); simpl; [assumption|reflexivity].
Qed.

Lemma hio_sort_fold c orders : forall h0,
  hio (fold_left (fun h go => fst (g_extend c h (fst go) (snd go))) orders h0) = hio h0.
Proof. induction orders as [|go t IH]; intros h0; simpl; [reflexivity|]. rewrite IH. apply hio_g_extend. Qed.
Lemma hio_g_sort c h out : hio (fst (g_sort c h out)) = hio h.
Proof.
  unfold g_sort. destruct out as [orders|]; [|reflexivity]. destruct (sort_valid h orders); [|reflexivity]. cbn [fst K].
  apply hio_sort_fold.
Qed.

Lemma I1_remove_one safe g n h : I1 (hio h) -> I1 (hio (remove_one safe h g n)).
Proof.
  intros HI. unfold remove_one. destruct safe; simpl; [|assumption].
  apply I1_clear_from; [assumption|simpl; lia].
Qed.

Ltac chainR := repeat match goal with
  | |- context [if ?b then R ?h ?e else _] => let E := fresh "E" in destruct b eqn:E; [assumption|] end.

Theorem I1_step c h o : I1 (hio h) -> I1 (hio (fst (step c h o))).
Proof.
  intros HI. destruct o; cbn [step]; try assumption;
    try (unfold lift_ow; cbn [fst hio with_ow]; assumption).
  - (* NewValue *) unfold new_value. destruct (blank_value h v); simpl; assumption.
  - (* NewNode *)
    unfold new_node. chainR. cbn [fst K].
    assert (Hblank : ins (hio h) n = []).
    { apply negb_false_iff in E. unfold blank_node in E. destruct (ins (hio h) n); [reflexivity|discriminate]. }
    apply I1_new_node; destruct g as [g|]; destruct o; cbn [hio with_nm with_po bump_vs]; rewrite ?hio_g_append; assumption.
  - (* GraphNew *) rewrite hio_graph_new. assumption.
  - rewrite hio_g_append. assumption.
  - rewrite hio_g_extend. assumption.
  - rewrite hio_g_insert. assumption.
  - rewrite hio_g_insert. assumption.
  - destruct (ngraph (hng h) n); simpl; [rewrite hio_g_insert|]; assumption.
  - destruct (ngraph (hng h) n); simpl; [rewrite hio_g_insert|]; assumption.
  - (* GRemove *)
    unfold g_remove. destruct (forallb _ _); simpl; [|assumption].
    generalize (dedup ns). intros l. revert h HI. induction l as [|x t IH]; intros h HI; simpl; [assumption|].
    apply IH. apply I1_remove_one. assumption.
  - rewrite hio_g_sort. assumption.
  - (* NReplaceInput *)
    unfold n_replace_input. destruct (_ || _)%bool eqn:E; simpl; [assumption|].
    apply orb_false_iff in E. destruct E as [E1 E2]. apply I1_replace; [assumption|].
    apply Z.ltb_ge in E1. apply Z.leb_gt in E2. lia.
  - (* NResizeInputs *)
    unfold n_resize_inputs. destruct (_ =? _)%Z; simpl; [assumption|].
    destruct (k <? 0)%Z eqn:Ek; simpl; [assumption|]. apply Z.ltb_ge in Ek.
    destruct (Z.to_nat k <? length (ins (hio h) n)) eqn:El; simpl.
    + apply Nat.ltb_lt in El.
      destruct (clear_from_spec _ n (length (ins (hio h) n) - Z.to_nat k) (Z.to_nat k) (hio h) HI ltac:(lia) eq_refl)
        as (H1 & H2 & H3 & H4).
      apply I1_set_ins_equiv; [assumption|]. intros j w.
      destruct (Nat.lt_ge_cases j (Z.to_nat k)) as [Hj|Hj].
      * rewrite nth_error_firstn_lt by assumption. tauto.
      * rewrite nth_error_firstn_ge by assumption. split; [discriminate|].
        destruct (Nat.lt_ge_cases j (length (ins (hio h) n))) as [Hj2|Hj2].
        -- rewrite H3 by lia. discriminate.
        -- intros H. assert (j < length (ins (io_clear_from (hio h) n (Z.to_nat k) (length (ins (hio h) n) - Z.to_nat k)) n))
             by (apply nth_error_Some; congruence). lia.
    + apply I1_set_ins_equiv; [assumption|]. intros j w.
      destruct (Nat.lt_ge_cases j (length (ins (hio h) n))) as [Hj|Hj].
      * rewrite nth_error_app1 by assumption. tauto.
      * rewrite nth_error_app2 by assumption. split; intros H.
        -- exfalso. exact (nth_error_repeat_None _ _ _ H).
        -- assert (j < length (ins (hio h) n)) by (apply nth_error_Some; congruence). lia.
  - (* NResizeOutputs *)
    unfold n_resize_outputs. destruct (_ =? _)%Z; simpl; [assumption|].
    destruct (_ <? _)%Z; [destruct (forallb _ _)|destruct (_ && _)]; simpl; assumption.
  - (* VReplaceAllUses *)
    unfold v_replace_all_uses.
    assert (Hgo : forall h', hio h' = hio h -> I1 (hio (fold_left
              (fun h u => with_io h (io_replace (hio h) (fst u) (snd u) (Some r))) (uses (hio h') v) h'))).
    { intros h' Heq. rewrite Heq.
      assert (Hl : forall u, In u (uses (hio h) v) -> snd u < length (ins (hio h') (fst u))).
      { intros u Hu. rewrite Heq. eapply I1_uses_lt; eassumption. }
      assert (HI' : I1 (hio h')) by (rewrite Heq; assumption).
      clear Heq. revert h' HI' Hl. generalize (uses (hio h) v). intros l.
      induction l as [|u t IH]; intros h' HI' Hl; simpl; [assumption|].
      apply IH; simpl; [apply I1_replace; [assumption|apply Hl; left; reflexivity]|].
      intros u' Hu'. rewrite len_io_replace. apply Hl. right. assumption. }
    destruct (flag KOut (how h) v); [|simpl; apply Hgo; reflexivity].
    destruct (vgraph (how h) v) as [g|]; [|assumption].
    destruct (negb rgo); [assumption|].
    match goal with |- context [let '(s', r') := ?X in _] => destruct X as [s' r'] end.
    destruct r'; cbn [fst K]; [apply (Hgo (with_ow h s')); reflexivity|assumption].
Qed.

Lemma I1_empty : I1 (hio empty_heap).
Proof.
  split.
  - intros v n i. unfold uses, ins. simpl. rewrite !sget_nil. simpl. destruct i; split; intros H; try tauto; discriminate.
  - intros v. unfold uses. simpl. rewrite sget_nil. constructor.
Qed.

Theorem I1_run c ops : forall h, I1 (hio h) -> I1 (hio (run c ops h)).
Proof.
  induction ops as [|o t IH]; intros h HI; simpl; [assumption|]. apply IH. apply I1_step. assumption.
Qed.

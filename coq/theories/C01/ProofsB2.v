(* C01/ProofsB2.v — I2 at heap level: preserved by every op of the repaired model. *)
From Coq Require Import ZArith List Bool Arith Lia.
From IRV Require Import Base.Exn C01.Model C01.Store C01.ProofsA C01.ProofsB C01.ProofsC C01.ProofsD C01.Proofs.
Import ListNotations.

Lemma hpo_adopt_seq c g ns : forall h, hpo (fst (adopt_seq c h g ns)) = hpo h.
Proof.
  induction ns as [|n t IH]; intros h; simpl; [reflexivity|].
  destruct (node_check (hng h) g n); [|reflexivity]. rewrite IH. apply hpo_adopt.
Qed.
Lemma hpo_g_append c h g n : hpo (fst (g_append c h g n)) = hpo h.
Proof. unfold g_append. destruct (node_check _ _ _); simpl; [apply hpo_adopt|reflexivity]. Qed.
Lemma hpo_g_extend c h g ns : hpo (fst (g_extend c h g ns)) = hpo h.
Proof.
  unfold g_extend. destruct (forallb _ _); simpl; [apply hpo_adopt_all|].
  destruct (c SGExtend); simpl; [reflexivity|apply hpo_adopt_seq].
Qed.
Lemma hpo_g_insert c h g b ref ns : hpo (fst (g_insert c h g b ref ns)) = hpo h.
Proof.
  unfold g_insert. destruct (_ && _); simpl; [apply hpo_adopt_all|].
  destruct (c SGInsert); simpl; [reflexivity|apply hpo_adopt_seq].
Qed.
Lemma hpo_graph_build c h g gi go d ns : hpo (fst (graph_build c h g gi go d ns)) = hpo h.
Proof.
  unfold graph_build.
  destruct (io_own_seq KIn _ _ _ _) as [s1 ok1]. destruct ok1; simpl; [|reflexivity].
  destruct (io_own_seq KOut _ _ _ _) as [s2 ok2]. destruct ok2; simpl; [|reflexivity].
  destruct (init_own_seq _ _ _) as [s3 ok3]. destruct ok3; simpl; [|reflexivity].
  destruct (init_set_seq _ _ _ _ _) as [s4 r4]. destruct r4; simpl; [|reflexivity].
  rewrite hpo_g_extend, !hpo_reg_values. reflexivity.
Qed.
Lemma hpo_graph_new c h g gi go ginit ns : hpo (fst (graph_new c h g gi go ginit ns)) = hpo h.
Proof.
  unfold graph_new. destruct (negb (blank_graph h g)); [reflexivity|].
  destruct (c SGraphNew).
  - destruct (graph_new_reject _ _ _ _ _); [reflexivity|]. cbn [fst K]. unfold graph_init. cbn [hpo with_nm].
    rewrite hpo_g_extend, !hpo_reg_values. reflexivity.
  - pose proof (hpo_graph_build c h g gi go (dict_of (how h) ginit []) ns) as Hb.
    destruct (graph_build _ _ _ _ _ _ _) as [h' r]. simpl in Hb.
    destruct r; simpl; [assumption|]. destruct (_ || _); simpl; [assumption|reflexivity].
Qed.
Lemma hpo_sort_fold c orders : forall h0,
  hpo (fold_left (fun h go => fst (g_extend c h (fst go) (snd go))) orders h0) = hpo h0.
Proof. induction orders as [|go t IH]; intros h0; simpl; [reflexivity|]. rewrite IH. apply hpo_g_extend. Qed.
Lemma hpo_g_sort c h out : hpo (fst (g_sort c h out)) = hpo h.
Proof.
  unfold g_sort. destruct out as [orders|]; [|reflexivity]. destruct (sort_valid h orders); [|reflexivity]. cbn [fst K].
  apply hpo_sort_fold.
Qed.
Lemma hpo_remove_fold safe g l : forall h, hpo (fold_left (fun h n => remove_one safe h g n) l h) = hpo h.
Proof.
  induction l as [|n t IH]; intros h; simpl; [reflexivity|]. rewrite IH. unfold remove_one. destruct safe; reflexivity.
Qed.
Lemma hpo_go_uses r l : forall h,
  hpo (fold_left (fun h u => with_io h (io_replace (hio h) (fst u) (snd u) (Some r))) l h) = hpo h.
Proof. induction l as [|u t IH]; intros h; simpl; [reflexivity|]. rewrite IH. reflexivity. Qed.

Ltac chainR := repeat match goal with
  | |- context [if ?b then R ?h ?e else _] => let E := fresh "E" in destruct b eqn:E; [assumption|] end.

Theorem I2_step h o : I2 (hpo h) -> I2 (hpo (fst (step all_fixed h o))).
Proof.
  intros HI. destruct o; cbn [step]; try assumption;
    try (unfold lift_ow; cbn [fst hpo with_ow]; assumption).
  - unfold new_value. destruct (blank_value h v); assumption.
  - (* NewNode *)
    unfold new_node. chainR. cbn [fst K hpo with_io].
    set (ovs := match o with OFresh vs => vs | OGiven vs _ => vs end) in *.
    assert (Hblank : outs (hpo h) n = []).
    { apply negb_false_iff in E. unfold blank_node in E. destruct (ins (hio h) n); [|discriminate].
      destruct (outs (hpo h) n); [reflexivity|discriminate]. }
    assert (HI1 : I2 (set_outs (po_adopt (hpo h) n 0 ovs) n ovs)).
    { pose proof (I2_adopt (hpo h) n ovs HI) as Ha. rewrite Hblank in Ha. simpl in Ha. apply Ha.
      - intros v Hv. destruct (prod (hpo h) v) eqn:Ep; [|reflexivity]. exfalso.
        assert (Hex : existsb (hp h) ovs = true) by (apply existsb_exists; exists v; unfold hp; rewrite Ep; auto).
        congruence.
      - cbn [all_fixed andb] in E3. apply orb_false_iff in E3. destruct E3 as [E3 _]. apply negb_false_iff in E3.
        apply nodupb_NoDup. assumption. }
    destruct g as [g|]; destruct o; cbn [hpo with_nm with_po bump_vs]; rewrite ?hpo_g_append; exact HI1.
  - rewrite hpo_graph_new. assumption.
  - rewrite hpo_g_append. assumption.
  - rewrite hpo_g_extend. assumption.
  - rewrite hpo_g_insert. assumption.
  - rewrite hpo_g_insert. assumption.
  - destruct (ngraph (hng h) n); [rewrite hpo_g_insert|]; assumption.
  - destruct (ngraph (hng h) n); [rewrite hpo_g_insert|]; assumption.
  - unfold g_remove. destruct (forallb _ _); [|assumption]. cbn [fst K]. rewrite hpo_remove_fold. assumption.
  - rewrite hpo_g_sort. assumption.
  - unfold n_replace_input. destruct (_ || _)%bool; assumption.
  - unfold n_resize_inputs. destruct (_ =? _)%Z; [assumption|]. destruct (_ <? _)%Z; [assumption|].
    destruct (_ <? _); assumption.
  - (* NResizeOutputs *)
    unfold n_resize_outputs. destruct (_ =? _)%Z; [assumption|]. destruct (_ <? _)%Z.
    + destruct (forallb _ _); [|assumption]. cbn [fst K hpo with_po]. apply I2_release; [assumption|].
      unfold pyslice. destruct (Z.ltb_spec k 0); lia.
    + destruct (_ && _) eqn:E; [|assumption]. cbn [fst K].
      apply andb_prop in E. destruct E as [E _]. apply andb_prop in E. destruct E as [Ebl End].
      rewrite forallb_forall in Ebl.
      change (I2 (set_outs (po_adopt (hpo h) n (length (outs (hpo h) n)) fresh) n (outs (hpo h) n ++ fresh))).
      apply I2_adopt; [assumption| |apply nodupb_NoDup; assumption].
      intros v Hv. apply (blank_unowned _ _ (Ebl v Hv)).
  - (* VReplaceAllUses *)
    unfold v_replace_all_uses. destruct (flag KOut (how h) v); [|cbn [fst K]; rewrite hpo_go_uses; assumption].
    destruct (vgraph (how h) v) as [g|]; [|assumption]. destruct (negb rgo); [assumption|].
    destruct (rau_outputs _ _ _ _ _ _ _ _) as [s' r']. destruct r'; cbn [fst K]; [rewrite hpo_go_uses|]; assumption.
Qed.

Lemma I2_empty : I2 (hpo empty_heap).
Proof.
  split.
  - intros n i v. unfold outs. simpl. rewrite sget_nil. destruct i; discriminate.
  - intros v n. unfold prod. simpl. rewrite sget_nil. discriminate.
Qed.

Theorem I2_run_fixed ops : forall h, I2 (hpo h) -> I2 (hpo (run all_fixed ops h)).
Proof. induction ops as [|o t IH]; intros h HI; simpl; [assumption|]. apply IH. apply I2_step. assumption. Qed.

(* C01/Model.v — executable model of the IR object heap of onnx_ir (shared by C01 and C06).

   Source modelled (as it exists, defects included):
     onnx_ir/_core.py              Value (uses/_add_usage/_remove_usage, producer/index, name setter,
                                   replace_all_uses_with, is_graph_*/is_initializer, graph),
                                   Node (constructor, replace_input_with, resize_inputs, resize_outputs, prepend/append),
                                   Graph (constructor, append/extend/insert_before/insert_after/remove(safe))
     onnx_ir/_graph_containers.py  _GraphIO / GraphInputs / GraphOutputs (ref-counted tracked lists), GraphInitializers
     onnx_ir/_linked_list.py       DoublyLinkedSet at the level of its element sequence (pointer level: property C11)
     onnx_ir/_name_authority.py    NameAuthority counters and name sets

   Object identity is a natural number; an id that was never touched denotes a *blank* object
   (a value with no name/producer/uses/owner, a node with no inputs/outputs/graph, a graph with empty
   collections), which is exactly what a freshly constructed Python object looks like.  `NewValue`,
   `NewNode`, `GraphNew` require the target ids to be blank; the harness hands out ids in allocation
   order, so model ids and implementation handles coincide.

   The heap is split by *relationship* so that the frame of every operation is visible in its type:
     io_st  node inputs  <-> value uses                       (invariant I1)
     po_st  node outputs <-> value producer/index             (I2)
     ng_st  node.graph   <-> graph node sequence              (I3)
     ow_st  value name/owner/flags <-> graph inputs/outputs/initializers + ref counters   (I4 I5 I7)
     nm_st  node names, name-authority state, allocation counters (no invariant; observed)
   I6 (graph inputs / initializers have no producer) relates ow_st and po_st.

   DEFECT SITES.  Every place where the current code leaves a partially mutated state behind or
   bypasses the tracking is guarded by `c <site>` (c : cfg = site -> bool, "is the repair applied?").
   `c s = false` gives the behaviour of the code as it is today, `c s = true` the behaviour after the
   repair in proposed_fixes/.  `current_cfg` (bottom of the file) is THE definition to edit when a fix
   is applied to /repo.  Definitions only; everything here runs under vm_compute. *)
From Coq Require Import ZArith List Bool Arith Lia.
From IRV Require Import Base.Exn.
Import ListNotations.
Open Scope nat_scope.

(* ------------------------------------------------------------------ stores *)
Class Dflt (A : Type) := dflt : A.
#[global] Instance dflt_option {A} : Dflt (option A) := None.
#[global] Instance dflt_list {A} : Dflt (list A) := [].
#[global] Instance dflt_bool : Dflt bool := false.
#[global] Instance dflt_Z : Dflt Z := 0%Z.
#[global] Instance dflt_nat : Dflt nat := 0.

Definition sget {A} `{Dflt A} (l : list A) (i : nat) : A := nth i l dflt.
Fixpoint sset {A} `{Dflt A} (l : list A) (i : nat) (x : A) : list A :=
  match i, l with
  | 0, [] => [x]
  | 0, _ :: t => x :: t
  | S i', [] => dflt :: sset [] i' x
  | S i', y :: t => y :: sset t i' x
  end.

(* ------------------------------------------------------------------ small list helpers *)
Fixpoint list_set {A} (l : list A) (i : nat) (x : A) : list A :=
  match l, i with
  | [], _ => []
  | _ :: t, 0 => x :: t
  | y :: t, S i' => y :: list_set t i' x
  end.
Definition insert_at {A} (i : nat) (x : A) (l : list A) : list A := firstn i l ++ x :: skipn i l.
Definition remove_at {A} (i : nat) (l : list A) : list A := firstn i l ++ skipn (S i) l.
Fixpoint remove_first (x : nat) (l : list nat) : list nat :=
  match l with [] => [] | y :: t => if y =? x then t else y :: remove_first x t end.
Definition memb (x : nat) (l : list nat) : bool := existsb (Nat.eqb x) l.
Fixpoint countb (x : nat) (l : list nat) : Z :=
  match l with [] => 0%Z | y :: t => Z.add (if y =? x then 1%Z else 0%Z) (countb x t) end.
Fixpoint dedup (l : list nat) : list nat :=
  match l with [] => [] | x :: t => x :: filter (fun y => negb (y =? x)) (dedup t) end.
Fixpoint nodupb (l : list nat) : bool :=
  match l with [] => true | x :: t => negb (memb x t) && nodupb t end.
Definition is_some {A} (o : option A) : bool := match o with Some _ => true | None => false end.
Definition onat_eqb (a b : option nat) : bool := option_eqb Nat.eqb a b.

(* Python index normalisation for list[i], pop(i), del list[i] *)
Definition pyidx (len : nat) (i : Z) : option nat :=
  if ((0 <=? i) && (i <? Z.of_nat len))%Z then Some (Z.to_nat i)
  else if ((i <? 0) && (- Z.of_nat len <=? i))%Z then Some (Z.to_nat (Z.of_nat len + i))
  else None.
(* list.insert clamps *)
Definition pyins (len : nat) (i : Z) : nat :=
  if (i <? 0)%Z then Z.to_nat (Z.max 0 (Z.of_nat len + i)) else Z.to_nat (Z.min i (Z.of_nat len)).

(* ------------------------------------------------------------------ names *)
(* "" | user-chosen token | "val_<k>" | "node_<op_type>_<k>" (one op_type is used by the harness) *)
Inductive name : Type := NEmpty | NUser (k : nat) | NVal (k : nat) | NNode (k : nat).
Definition name_eqb (a b : name) : bool :=
  match a, b with
  | NEmpty, NEmpty => true
  | NUser x, NUser y | NVal x, NVal y | NNode x, NNode y => x =? y
  | _, _ => false
  end.
Definition oname_eqb (a b : option name) : bool := option_eqb name_eqb a b.
Definition name_mem (x : name) (l : list name) : bool := existsb (name_eqb x) l.

Notation vid := nat (only parsing).
Notation nid := nat (only parsing).
Notation gid := nat (only parsing).

(* ------------------------------------------------------------------ io_st: inputs <-> uses *)
Record io_st := { n_ins : list (list (option vid)); v_uses : list (list (nid * nat)) }.
Definition ins (s : io_st) (n : nid) := sget (n_ins s) n.
Definition uses (s : io_st) (v : vid) := sget (v_uses s) v.
Definition use_eqb (a b : nid * nat) : bool := (fst a =? fst b) && (snd a =? snd b).
Definition set_ins s n l := {| n_ins := sset (n_ins s) n l; v_uses := v_uses s |}.
Definition set_uses s v l := {| n_ins := n_ins s; v_uses := sset (v_uses s) v l |}.
(* Value._remove_usage: dict.pop(Usage) *)
Definition del_use s v u := set_uses s v (filter (fun x => negb (use_eqb u x)) (uses s v)).
(* Value._add_usage: dict[Usage] = None (an existing key keeps its position) *)
Definition add_use s v u := if existsb (use_eqb u) (uses s v) then s else set_uses s v (uses s v ++ [u]).
(* Node.replace_input_with, index already validated (i < len) *)
Definition io_replace (s : io_st) (n : nid) (i : nat) (x : option vid) : io_st :=
  let old := nth i (ins s n) None in
  let s1 := set_ins s n (list_set (ins s n) i x) in
  let s2 := match old with Some o => del_use s1 o (n, i) | None => s1 end in
  match x with Some v => add_use s2 v (n, i) | None => s2 end.
(* detach inputs i = from .. from+cnt-1 (resize_inputs shrink, Graph.remove(safe)) *)
Fixpoint io_clear_from (s : io_st) (n : nid) (from cnt : nat) : io_st :=
  match cnt with 0 => s | S c => io_clear_from (io_replace s n from None) n (S from) c end.
(* Node.__init__: _inputs = tuple(inputs), then _add_usage for every non-None input.
   Written as: inputs := [None]*k, then replace_input_with(i, inputs[i]) for every i (same final state;
   nothing can raise in between). *)
Fixpoint io_fill (s : io_st) (n : nid) (i : nat) (xs : list (option vid)) : io_st :=
  match xs with [] => s | x :: t => io_fill (io_replace s n i x) n (S i) t end.
Definition io_new_node s n xs := io_fill (set_ins s n (repeat None (length xs))) n 0 xs.

(* ------------------------------------------------------------------ po_st: outputs <-> producer/index *)
Record po_st := { n_outs : list (list vid); v_prod : list (option nid); v_idx : list (option Z) }.
Definition outs (s : po_st) (n : nid) := sget (n_outs s) n.
Definition prod (s : po_st) (v : vid) := sget (v_prod s) v.
Definition idx (s : po_st) (v : vid) := sget (v_idx s) v.
Definition set_outs s n l := {| n_outs := sset (n_outs s) n l; v_prod := v_prod s; v_idx := v_idx s |}.
Definition set_prod s v p i := {| n_outs := n_outs s; v_prod := sset (v_prod s) v p; v_idx := sset (v_idx s) v i |}.
(* output._producer = node; output._index = i   for i, output in enumerate(outputs, start) *)
Fixpoint po_adopt (s : po_st) (n : nid) (i : nat) (vs : list vid) : po_st :=
  match vs with [] => s | v :: t => po_adopt (set_prod s v (Some n) (Some (Z.of_nat i))) n (S i) t end.
Fixpoint po_release (s : po_st) (vs : list vid) : po_st :=
  match vs with [] => s | v :: t => po_release (set_prod s v None (Some (-1)%Z)) t end.

(* ------------------------------------------------------------------ ng_st: node.graph <-> node sequence *)
Record ng_st := { n_gr : list (option gid); g_seq : list (list nid) }.
Definition ngraph (s : ng_st) (n : nid) := sget (n_gr s) n.
Definition gseq (s : ng_st) (g : gid) := sget (g_seq s) g.
Definition set_ngraph s n x := {| n_gr := sset (n_gr s) n x; g_seq := g_seq s |}.
Definition set_gseq s g l := {| n_gr := n_gr s; g_seq := sset (g_seq s) g l |}.
Definition seq_remove (n : nid) (l : list nid) := filter (fun x => negb (x =? n)) l.
Fixpoint ins_after (p n : nid) (l : list nid) : list nid :=
  match l with [] => [n] | x :: t => if x =? p then x :: n :: t else x :: ins_after p n t end.
(* DoublyLinkedSet._insert_one_after at sequence level; point None = the root box *)
Definition seq_insert_after (l : list nid) (point : option nid) (n : nid) : list nid * option nid :=
  match point with
  | Some p => if p =? n then (l, point) else (ins_after p n (seq_remove n l), Some n)
  | None => (n :: seq_remove n l, Some n)
  end.
Fixpoint seq_insert_many (l : list nid) (point : option nid) (ns : list nid) : list nid :=
  match ns with [] => l | n :: t => let '(l', p') := seq_insert_after l point n in seq_insert_many l' p' t end.
Definition seq_append (l : list nid) (n : nid) : list nid := fst (seq_insert_after l (last (map Some l) None) n).
Fixpoint seq_pred (ref : nid) (l : list nid) (prev : option nid) : option nid :=
  match l with [] => prev | x :: t => if x =? ref then prev else seq_pred ref t (Some x) end.
Definition node_check (s : ng_st) (g : gid) (n : nid) : bool :=
  match ngraph s n with None => true | Some g' => g' =? g end.

(* ------------------------------------------------------------------ ow_st: ownership *)
Inductive kind := KIn | KOut.
Record ow_st := {
  v_name : list (option name); v_graph : list (option gid);
  v_in : list bool; v_out : list bool; v_init : list bool;
  g_ins : list (list vid); g_outs : list (list vid);
  g_rcin : list (list Z); g_rcout : list (list Z);
  g_inits : list (list (name * vid)) }.
Definition vname s v := sget (v_name s) v.
Definition vgraph s v := sget (v_graph s) v.
Definition vinit s v := sget (v_init s) v.
Definition flag k s v := match k with KIn => sget (v_in s) v | KOut => sget (v_out s) v end.
Definition iol k s g := match k with KIn => sget (g_ins s) g | KOut => sget (g_outs s) g end.
Definition rc k s g v : Z := match k with KIn => sget (sget (g_rcin s) g) v | KOut => sget (sget (g_rcout s) g) v end.
Definition inits s g := sget (g_inits s) g.
Definition set_vname s v x := {| v_name := sset (v_name s) v x; v_graph := v_graph s; v_in := v_in s; v_out := v_out s;
  v_init := v_init s; g_ins := g_ins s; g_outs := g_outs s; g_rcin := g_rcin s; g_rcout := g_rcout s; g_inits := g_inits s |}.
Definition set_vgraph s v x := {| v_name := v_name s; v_graph := sset (v_graph s) v x; v_in := v_in s; v_out := v_out s;
  v_init := v_init s; g_ins := g_ins s; g_outs := g_outs s; g_rcin := g_rcin s; g_rcout := g_rcout s; g_inits := g_inits s |}.
Definition set_vinit s v x := {| v_name := v_name s; v_graph := v_graph s; v_in := v_in s; v_out := v_out s;
  v_init := sset (v_init s) v x; g_ins := g_ins s; g_outs := g_outs s; g_rcin := g_rcin s; g_rcout := g_rcout s; g_inits := g_inits s |}.
Definition set_flag k s v x := match k with
  | KIn => {| v_name := v_name s; v_graph := v_graph s; v_in := sset (v_in s) v x; v_out := v_out s;
  v_init := v_init s; g_ins := g_ins s; g_outs := g_outs s; g_rcin := g_rcin s; g_rcout := g_rcout s; g_inits := g_inits s |}
  | KOut => {| v_name := v_name s; v_graph := v_graph s; v_in := v_in s; v_out := sset (v_out s) v x;
  v_init := v_init s; g_ins := g_ins s; g_outs := g_outs s; g_rcin := g_rcin s; g_rcout := g_rcout s; g_inits := g_inits s |} end.
Definition set_iol k s g l := match k with
  | KIn => {| v_name := v_name s; v_graph := v_graph s; v_in := v_in s; v_out := v_out s;
  v_init := v_init s; g_ins := sset (g_ins s) g l; g_outs := g_outs s; g_rcin := g_rcin s; g_rcout := g_rcout s; g_inits := g_inits s |}
  | KOut => {| v_name := v_name s; v_graph := v_graph s; v_in := v_in s; v_out := v_out s;
  v_init := v_init s; g_ins := g_ins s; g_outs := sset (g_outs s) g l; g_rcin := g_rcin s; g_rcout := g_rcout s; g_inits := g_inits s |} end.
Definition set_rc k s g v z := match k with
  | KIn => {| v_name := v_name s; v_graph := v_graph s; v_in := v_in s; v_out := v_out s;
  v_init := v_init s; g_ins := g_ins s; g_outs := g_outs s; g_rcin := sset (g_rcin s) g (sset (sget (g_rcin s) g) v z);
  g_rcout := g_rcout s; g_inits := g_inits s |}
  | KOut => {| v_name := v_name s; v_graph := v_graph s; v_in := v_in s; v_out := v_out s;
  v_init := v_init s; g_ins := g_ins s; g_outs := g_outs s; g_rcin := g_rcin s;
  g_rcout := sset (g_rcout s) g (sset (sget (g_rcout s) g) v z); g_inits := g_inits s |} end.
Definition set_inits s g l := {| v_name := v_name s; v_graph := v_graph s; v_in := v_in s; v_out := v_out s;
  v_init := v_init s; g_ins := g_ins s; g_outs := g_outs s; g_rcin := g_rcin s; g_rcout := g_rcout s;
  g_inits := sset (g_inits s) g l |}.

(* Value._owned_by_graph *)
Definition owned s v := flag KIn s v || flag KOut s v || vinit s v.
Definition gcheck s (g : gid) v := match vgraph s v with None => true | Some g' => g' =? g end.
(* the two `raise` conditions of GraphInputs._set_graph / GraphOutputs._set_graph;  hp v = "v.producer() is not None" *)
Definition io_check k s (hp : vid -> bool) g v := gcheck s g v && match k with KIn => negb (hp v) | KOut => true end.
(* the mutation part of _set_graph *)
Definition io_own k s g v := set_vgraph (set_flag k (set_rc k s g v (rc k s g v + 1)%Z) v true) v (Some g).
Definition maybe_release s v := if owned s v then s else set_vgraph s v None.
(* _maybe_unset_graph (the `assert value._graph is self._graph` is not modelled: it cannot fail before a defect site was hit) *)
Definition io_disown k s g v :=
  let c := (rc k s g v - 1)%Z in
  let s1 := set_rc k s g v c in
  if (0 <? c)%Z then s1 else maybe_release (set_flag k s1 v false) v.
Fixpoint io_own_all k s g vs := match vs with [] => s | v :: t => io_own_all k (io_own k s g v) g t end.
Fixpoint io_disown_all k s g vs := match vs with [] => s | v :: t => io_disown_all k (io_disown k s g v) g t end.
(* for item in other: self._set_graph(item)  -- stops at the first rejected item, keeping what was done *)
Fixpoint io_own_seq k s hp g vs : ow_st * bool :=
  match vs with
  | [] => (s, true)
  | v :: t => if io_check k s hp g v then io_own_seq k (io_own k s g v) hp g t else (s, false)
  end.

(* ---- defect sites *)
Inductive site :=
| SIODelItem     (* _GraphIO has no __delitem__: `del g.outputs[i]` is untracked *)
| SIOIMul        (* `inputs *= n` is inherited from UserList and untracked *)
| SIOExtend      (* extend: items before the rejected one keep flags/ref counts, list unchanged *)
| SIOInsert      (* insert: the rejected value stays in the list *)
| SIOSetItem     (* __setitem__: the old element is disowned (and kept) when the new one is rejected *)
| SInitSetItem   (* initializers[k] = v : renames / disowns before the producer / owner checks *)
| SNameEmpty     (* renaming an initializer to "" raises after the rename and after the entry was removed *)
| SGExtend       (* Graph.extend: nodes before the rejected one keep graph pointer and names *)
| SGInsert       (* Graph.insert_after/insert_before: idem, also when the reference node is not in the graph *)
| SNodeOutputsDup   (* Node(outputs=[x, x]) accepted a repeated value (both positions claim the last index) *)
| SNodeOutputsOwned (* Node(outputs=...) accepts a graph input / initializer: it gets a producer (I6) *)
| SGraphNew      (* Graph(...) constructor rejected midway *)
| SInitUpdate.   (* initializers.update(mapping): entries before the rejected one stay stored (inherited MutableMapping.update) *)
Definition cfg := site -> bool.
Definition all_fixed : cfg := fun _ => true.

Definition R {S} (s : S) (e : exn) : S * res unit := (s, Raise e).
Definition K {S} (s : S) : S * res unit := (s, Ok tt).

(* ---- tracked lists (kind k of graph g) *)
Definition io_append k s hp g v :=
  if io_check k s hp g v then K (set_iol k (io_own k s g v) g (iol k s g ++ [v])) else R s ValueError.
Definition io_extend (c : cfg) k s hp g vs :=
  if forallb (io_check k s hp g) vs then K (set_iol k (io_own_all k s g vs) g (iol k s g ++ vs))
  else if c SIOExtend then R s ValueError                         (* FIXED: validate all, then mutate *)
  else R (fst (io_own_seq k s hp g vs)) ValueError.                (* CURRENT *)
Definition io_insert (c : cfg) k s hp g (i : Z) v :=
  let l := iol k s g in
  if io_check k s hp g v then K (set_iol k (io_own k s g v) g (insert_at (pyins (length l) i) v l))
  else if c SIOInsert then R s ValueError                          (* FIXED *)
  else R (set_iol k s g (insert_at (pyins (length l) i) v l)) ValueError.   (* CURRENT: inserted first *)
Definition io_pop k s g (i : Z) :=
  let l := iol k s g in
  match pyidx (length l) i with
  | None => R s IndexError
  | Some p => K (io_disown k (set_iol k s g (remove_at p l)) g (nth p l 0))
  end.
Definition io_remove k s g v :=
  let l := iol k s g in
  if memb v l then K (io_disown k (set_iol k s g (remove_first v l)) g v) else R s ValueError.
Definition io_clear k s g := K (set_iol k (io_disown_all k s g (iol k s g)) g []).
Definition io_setitem (c : cfg) k s hp g (i : Z) v :=
  let l := iol k s g in
  match pyidx (length l) i with
  | None => R s IndexError
  | Some p =>
    let old := nth p l 0 in
    if io_check k s hp g v then K (set_iol k (io_own k (io_disown k s g old) g v) g (list_set l p v))
    else if c SIOSetItem then R s ValueError                       (* FIXED *)
    else R (io_disown k s g old) ValueError                         (* CURRENT: old element disowned, still listed *)
  end.
(* lst[a:b] = vs  and  del lst[a:b]  for plain slices with non-negative bounds (Python clamps them to the length).
   Since c5c2382: every new item is validated, then the old items are released, the new ones acquired, the list spliced. *)
Definition slice_lo (len a : nat) : nat := Nat.min a len.
Definition slice_hi (len a b : nat) : nat := Nat.max (slice_lo len a) (Nat.min b len).
Definition io_setslice (c : cfg) k s hp g (a b : nat) (vs : list vid) :=
  let l := iol k s g in
  let lo := slice_lo (length l) a in
  let hi := slice_hi (length l) a b in
  let old := firstn (hi - lo) (skipn lo l) in
  if forallb (io_check k s hp g) vs then
    K (set_iol k (io_own_all k (io_disown_all k s g old) g vs) g (firstn lo l ++ vs ++ skipn hi l))
  else if c SIOSetItem then R s ValueError                         (* FIXED *)
  else R (fst (io_own_seq k (io_disown_all k s g old) hp g vs)) ValueError.   (* before the fix: old items released first *)
Definition io_delslice (c : cfg) k s g (a b : nat) :=
  let l := iol k s g in
  let lo := slice_lo (length l) a in
  let hi := slice_hi (length l) a b in
  let old := firstn (hi - lo) (skipn lo l) in
  if c SIODelItem then K (set_iol k (io_disown_all k s g old) g (firstn lo l ++ skipn hi l))   (* FIXED: tracked *)
  else K (set_iol k s g (firstn lo l ++ skipn hi l)).                                          (* before: untracked *)
Definition io_delitem (c : cfg) k s g (i : Z) :=
  if c SIODelItem then io_pop k s g i                               (* FIXED: tracked like pop *)
  else let l := iol k s g in                                        (* CURRENT: UserList.__delitem__ *)
       match pyidx (length l) i with None => R s IndexError | Some p => K (set_iol k s g (remove_at p l)) end.
Definition io_imul (c : cfg) k s g (m : Z) :=
  if c SIOIMul then R s RuntimeError                                (* FIXED: unsupported like __mul__ *)
  else K (set_iol k s g (concat (repeat (iol k s g) (Z.to_nat m)))).  (* CURRENT: UserList.__imul__ *)
Definition io_reverse k s g := K (set_iol k s g (rev (iol k s g))).  (* UserList.reverse: same multiset *)

(* ---- initializers: dict[str, Value] in insertion order *)
Fixpoint init_get (l : list (name * vid)) (k : name) : option vid :=
  match l with [] => None | (k', v) :: t => if name_eqb k k' then Some v else init_get t k end.
Definition init_del (l : list (name * vid)) (k : name) := filter (fun e => negb (name_eqb k (fst e))) l.
Fixpoint init_put (l : list (name * vid)) (k : name) (v : vid) : list (name * vid) :=
  match l with [] => [(k, v)] | (k', v') :: t => if name_eqb k k' then (k, v) :: t else (k', v') :: init_put t k v end.
Definition init_own s g v := set_vgraph (set_vinit s v true) v (Some g).
Definition init_disown s v := maybe_release (set_vinit s v false) v.
Definition name_blank (n : option name) : bool := match n with None | Some NEmpty => true | _ => false end.
Definition init_disown_old s g key := match init_get (inits s g) key with Some o => init_disown s o | None => s end.
(* GraphInitializers.__setitem__ *)
Definition init_setitem (c : cfg) s (hp : vid -> bool) g (key : name) v :=
  if name_eqb key NEmpty then R s ValueError else
  let blank := name_blank (vname s v) in
  if negb blank && negb (oname_eqb (vname s v) (Some key)) then R s ValueError else
  let bad := hp v || negb (gcheck s g v) in
  if bad && c SInitSetItem then R s ValueError else                  (* FIXED: all checks first *)
  let s1 := if blank then set_vname s v (Some key) else s in
  if hp v then R s1 ValueError else                                  (* CURRENT: after the rename *)
  let s2 := init_disown_old s1 g key in
  if negb (gcheck s2 g v) then R s2 ValueError else                  (* CURRENT: after disowning the old entry *)
  K (set_inits (init_own s2 g v) g (init_put (inits s2 g) key v)).
Definition init_delitem s g key :=
  match init_get (inits s g) key with
  | None => R s KeyError
  | Some v => K (set_inits (init_disown s v) g (init_del (inits s g) key))
  end.
Definition init_add c s hp g v := match vname s v with None => R s TypeError | Some k => init_setitem c s hp g k v end.
Fixpoint init_clear_n s g (fuel : nat) :=
  match fuel with 0 => s | S f =>
    match inits s g with [] => s | (k, _) :: _ => init_clear_n (fst (init_delitem s g k)) g f end end.
Definition init_clear s g := K (init_clear_n s g (length (inits s g))).

(* MutableMapping.update over (key, value) entries: self[key] = value one after the other *)
Fixpoint init_update_seq c s (hp : vid -> bool) g (kvs : list (option name * vid)) : ow_st * res unit :=
  match kvs with
  | [] => K s
  | (None, _) :: _ => R s TypeError
  | (Some k, v) :: t => let '(s', r) := init_setitem c s hp g k v in
                        match r with Raise e => (s', Raise e) | Ok _ => init_update_seq c s' hp g t end
  end.
Definition init_update (c : cfg) s hp g kvs :=
  let '(s', r) := init_update_seq c s hp g kvs in
  match r with
  | Ok _ => K s'
  | Raise e => if c SInitUpdate then R s e      (* FIXED (4f0fb1e): every entry validated first, all-or-nothing *)
               else R s' e                      (* BEFORE: the entries before the rejected one stay stored *)
  end.
(* MutableMapping.popitem: the first key *)
Definition init_popitem s g := match inits s g with [] => R s KeyError | (k, _) :: _ => init_delitem s g k end.
(* MutableMapping.setdefault *)
Definition init_setdefault c s hp g key v :=
  match init_get (inits s g) key with Some _ => K s | None => init_setitem c s hp g key v end.
(* GraphInitializers.__ior__ since 4b0e698: unsupported *)
Definition init_ior (s : ow_st) := R s RuntimeError.

(* Value.name setter *)
Definition vset_name (c : cfg) s (hp : vid -> bool) v (nm : option name) :=
  if oname_eqb (vname s v) nm then K s else
  if vinit s v then
    match nm, vgraph s v with
    | None, _ => R s ValueError
    | Some k, None => R s AssertionError
    | Some k, Some g =>
      if match init_get (inits s g) k with Some o => negb (o =? v) | None => false end then R s ValueError else
      if name_eqb k NEmpty && c SNameEmpty then R s ValueError else   (* FIXED: reject "" up front *)
      let s1 := set_vname s v nm in
      match vname s v with
      | None => R s1 AssertionError
      | Some old =>
        let '(s2, r) := init_delitem s1 g old in                     (* graph.initializers.pop(old_name) *)
        match r with Raise e => (s2, Raise e) | Ok _ => init_setitem c s2 hp g k v end   (* CURRENT: "" rejected here *)
      end
    end
  else K (set_vname s v nm).

(* ------------------------------------------------------------------ nm_st: names of nodes, name authority, counters *)
Record nm_st := { n_name : list (option name); g_vctr : list nat; g_nctr : list nat;
                  g_vnames : list (list name); g_nnames : list (list name);
                  g_zombie : list bool; cnt_v : nat; cnt_n : nat; cnt_g : nat }.
Definition nname s n := sget (n_name s) n.
Fixpoint fresh_from (mk : nat -> name) (used : list name) (fuel c : nat) : nat :=
  if name_mem (mk c) used then match fuel with 0 => c | S f => fresh_from mk used f (S c) end else c.
Definition upd_nm (s : nm_st) nn vc nc vn nnm z cv cn cg :=
  {| n_name := nn; g_vctr := vc; g_nctr := nc; g_vnames := vn; g_nnames := nnm; g_zombie := z; cnt_v := cv; cnt_n := cn; cnt_g := cg |}.
Definition nm_bump_v s v := upd_nm s (n_name s) (g_vctr s) (g_nctr s) (g_vnames s) (g_nnames s) (g_zombie s) (Nat.max (cnt_v s) (S v)) (cnt_n s) (cnt_g s).
Definition nm_bump_n s n := upd_nm s (n_name s) (g_vctr s) (g_nctr s) (g_vnames s) (g_nnames s) (g_zombie s) (cnt_v s) (Nat.max (cnt_n s) (S n)) (cnt_g s).
Definition nm_bump_g s g := upd_nm s (n_name s) (g_vctr s) (g_nctr s) (g_vnames s) (g_nnames s) (g_zombie s) (cnt_v s) (cnt_n s) (Nat.max (cnt_g s) (S g)).
Definition nm_set_nname s n x := upd_nm s (sset (n_name s) n x) (g_vctr s) (g_nctr s) (g_vnames s) (g_nnames s) (g_zombie s) (cnt_v s) (cnt_n s) (cnt_g s).
Definition nm_set_zombie s g := upd_nm s (n_name s) (g_vctr s) (g_nctr s) (g_vnames s) (g_nnames s) (sset (g_zombie s) g true) (cnt_v s) (cnt_n s) (cnt_g s).
(* NameAuthority._unique_value_name: returns the index k of "val_k"; counter := k+1 *)
Definition nm_fresh_v s g : nat * nm_st :=
  let used := sget (g_vnames s) g in
  let k := fresh_from NVal used (length used) (sget (g_vctr s) g) in
  (k, upd_nm s (n_name s) (sset (g_vctr s) g (S k)) (g_nctr s) (g_vnames s) (g_nnames s) (g_zombie s) (cnt_v s) (cnt_n s) (cnt_g s)).
Definition nm_fresh_n s g : nat * nm_st :=
  let used := sget (g_nnames s) g in
  let k := fresh_from NNode used (length used) (sget (g_nctr s) g) in
  (k, upd_nm s (n_name s) (g_vctr s) (sset (g_nctr s) g (S k)) (g_vnames s) (g_nnames s) (g_zombie s) (cnt_v s) (cnt_n s) (cnt_g s)).
Definition add_name (x : name) (l : list name) := if name_mem x l then l else l ++ [x].
Definition nm_reg_v s g (x : option name) := match x with None => s | Some x =>
  upd_nm s (n_name s) (g_vctr s) (g_nctr s) (sset (g_vnames s) g (add_name x (sget (g_vnames s) g))) (g_nnames s) (g_zombie s) (cnt_v s) (cnt_n s) (cnt_g s) end.
Definition nm_reg_n s g (x : option name) := match x with None => s | Some x =>
  upd_nm s (n_name s) (g_vctr s) (g_nctr s) (g_vnames s) (sset (g_nnames s) g (add_name x (sget (g_nnames s) g))) (g_zombie s) (cnt_v s) (cnt_n s) (cnt_g s) end.

(* ------------------------------------------------------------------ the heap *)
Record heap := { hio : io_st; hpo : po_st; hng : ng_st; how : ow_st; hnm : nm_st }.
Definition empty_heap : heap :=
  {| hio := {| n_ins := []; v_uses := [] |};
     hpo := {| n_outs := []; v_prod := []; v_idx := [] |};
     hng := {| n_gr := []; g_seq := [] |};
     how := {| v_name := []; v_graph := []; v_in := []; v_out := []; v_init := []; g_ins := []; g_outs := [];
               g_rcin := []; g_rcout := []; g_inits := [] |};
     hnm := {| n_name := []; g_vctr := []; g_nctr := []; g_vnames := []; g_nnames := []; g_zombie := [];
               cnt_v := 0; cnt_n := 0; cnt_g := 0 |} |}.
Definition with_io h x := {| hio := x; hpo := hpo h; hng := hng h; how := how h; hnm := hnm h |}.
Definition with_po h x := {| hio := hio h; hpo := x; hng := hng h; how := how h; hnm := hnm h |}.
Definition with_ng h x := {| hio := hio h; hpo := hpo h; hng := x; how := how h; hnm := hnm h |}.
Definition with_ow h x := {| hio := hio h; hpo := hpo h; hng := hng h; how := x; hnm := hnm h |}.
Definition with_nm h x := {| hio := hio h; hpo := hpo h; hng := hng h; how := how h; hnm := x |}.
Definition hp (h : heap) (v : vid) : bool := is_some (prod (hpo h) v).
Definition lift_ow (h : heap) (r : ow_st * res unit) : heap * res unit := (with_ow h (fst r), snd r).

(* NameAuthority.register_or_name_value(value) on graph g: touches ow (the name, through the setter) and nm *)
Definition reg_value (c : cfg) (h : heap) (g : gid) (v : vid) : heap :=
  let h1 := match vname (how h) v with
            | Some _ => h
            | None => let '(k, nm') := nm_fresh_v (hnm h) g in
                      with_nm (with_ow h (fst (vset_name c (how h) (hp h) v (Some (NVal k))))) nm'
            end in
  with_nm h1 (nm_reg_v (hnm h1) g (vname (how h1) v)).
Fixpoint reg_values c h g vs := match vs with [] => h | v :: t => reg_values c (reg_value c h g v) g t end.
(* Graph._set_node_graph_to_self_and_assign_names, after its check *)
Definition adopt (c : cfg) (h : heap) (g : gid) (n : nid) : heap :=
  let h1 := match nname (hnm h) n with
            | Some _ => h
            | None => let '(k, nm') := nm_fresh_n (hnm h) g in with_nm h (nm_set_nname nm' n (Some (NNode k)))
            end in
  let h2 := with_nm h1 (nm_reg_n (hnm h1) g (nname (hnm h1) n)) in
  let h3 := reg_values c h2 g (outs (hpo h2) n) in
  with_ng h3 (set_ngraph (hng h3) n (Some g)).
Fixpoint adopt_all c h g ns := match ns with [] => h | n :: t => adopt_all c (adopt c h g n) g t end.
(* [f(node) for node in nodes]: stops at the first rejected node, keeping what was done *)
Fixpoint adopt_seq c h g ns : heap * bool :=
  match ns with
  | [] => (h, true)
  | n :: t => if node_check (hng h) g n then adopt_seq c (adopt c h g n) g t else (h, false)
  end.
Definition set_seq h g l := with_ng h (set_gseq (hng h) g l).

Definition g_append c h g n :=
  if node_check (hng h) g n then let h1 := adopt c h g n in K (set_seq h1 g (seq_append (gseq (hng h1) g) n))
  else R h ValueError.
Definition g_extend (c : cfg) h g ns :=
  if forallb (node_check (hng h) g) ns then
    let h1 := adopt_all c h g ns in K (set_seq h1 g (fold_left seq_append ns (gseq (hng h1) g)))
  else if c SGExtend then R h ValueError                            (* FIXED *)
  else R (fst (adopt_seq c h g ns)) ValueError.                      (* CURRENT *)
(* insert_after (before = false) / insert_before (before = true) *)
Definition g_insert (c : cfg) h g (before : bool) (ref : nid) ns :=
  let okn := forallb (node_check (hng h) g) ns in
  let okr := memb ref (gseq (hng h) g) in
  if okn && okr then
    let h1 := adopt_all c h g ns in
    let l := gseq (hng h1) g in
    K (set_seq h1 g (seq_insert_many l (if before then seq_pred ref l None else Some ref) ns))
  else if c SGInsert then R h ValueError                            (* FIXED *)
  else R (fst (adopt_seq c h g ns)) ValueError.                      (* CURRENT: names and graph pointers leak *)

(* Graph.sort().  WHICH order results (and whether a cycle is found) is the subject of property C12 and is supplied by
   the harness from the implementation's outcome; what the model fixes is HOW the result is installed: on a cycle
   nothing is touched (ValueError); otherwise `graph.extend(reversed(sorted_nodes))` for every graph that has nodes in
   the nest, which re-registers node and value names with that graph's name authority and moves each node to the end
   in the given order.  Nothing else may change. *)
Definition sort_valid (h : heap) (orders : list (gid * list nid)) : bool :=
  forallb (fun go => forallb (fun n => onat_eqb (ngraph (hng h) n) (Some (fst go))) (snd go)) orders.
Definition g_sort (c : cfg) h (out : option (list (gid * list nid))) :=
  match out with
  | None => R h ValueError
  | Some orders =>
    if sort_valid h orders then K (fold_left (fun h go => fst (g_extend c h (fst go) (snd go))) orders h)
    else R h OtherError        (* not an outcome Graph.sort can have: a listed node is not in the listed graph *)
  end.

(* _check_node_safe_to_remove *)
Definition safe_ok (h : heap) (g : gid) (ns : list nid) (n : nid) : bool :=
  forallb (fun o => negb (memb o (iol KOut (how h) g)) &&
                    forallb (fun u => memb (fst u) ns) (uses (hio h) o)) (outs (hpo h) n).
Definition remove_one (safe : bool) (h : heap) (g : gid) (n : nid) : heap :=
  let h1 := if safe then with_io h (io_clear_from (hio h) n 0 (length (ins (hio h) n))) else h in
  let s := set_ngraph (hng h1) n None in
  with_ng h1 (set_gseq s g (seq_remove n (gseq s g))).
Definition g_remove h g ns (safe : bool) :=
  let ns := dedup ns in
  if forallb (fun n => onat_eqb (ngraph (hng h) n) (Some g) && (negb safe || safe_ok h g ns n)) ns
  then K (fold_left (fun h n => remove_one safe h g n) ns h)
  else R h ValueError.

Definition n_replace_input h n (i : Z) (x : option vid) :=
  if ((i <? 0) || (Z.of_nat (length (ins (hio h) n)) <=? i))%Z then R h ValueError
  else K (with_io h (io_replace (hio h) n (Z.to_nat i) x)).
Definition n_resize_inputs h n (k : Z) :=
  let len := length (ins (hio h) n) in
  if (k =? Z.of_nat len)%Z then K h else
  if (k <? 0)%Z then R h ValueError else
  let k := Z.to_nat k in
  if k <? len then
    let s := io_clear_from (hio h) n k (len - k) in K (with_io h (set_ins s n (firstn k (ins s n))))
  else K (with_io h (set_ins (hio h) n (ins (hio h) n ++ repeat None (k - len)))).
Definition blank_value (h : heap) (v : vid) : bool :=
  match uses (hio h) v, prod (hpo h) v, idx (hpo h) v, vname (how h) v, vgraph (how h) v with
  | [], None, None, None, None => negb (owned (how h) v)
  | _, _, _, _, _ => false
  end.
Definition blank_node (h : heap) (n : nid) : bool :=
  match ins (hio h) n, outs (hpo h) n, ngraph (hng h) n, nname (hnm h) n with
  | [], [], None, None => true | _, _, _, _ => false end.
Definition blank_graph (h : heap) (g : gid) : bool :=
  match iol KIn (how h) g, iol KOut (how h) g, inits (how h) g, gseq (hng h) g with
  | [], [], [], [] => negb (sget (g_zombie (hnm h)) g) | _, _, _, _ => false end.
Definition bump_vs h vs := with_nm h (fold_left nm_bump_v vs (hnm h)).
(* python slice start of seq[k:] / stop of seq[:k] *)
Definition pyslice (len : nat) (k : Z) : nat :=
  if (k <? 0)%Z then Z.to_nat (Z.max 0 (Z.of_nat len + k)) else Nat.min (Z.to_nat k) len.
Definition n_resize_outputs h n (k : Z) (fresh : list vid) :=
  let l := outs (hpo h) n in
  let len := length l in
  if (k =? Z.of_nat len)%Z then K h else
  if (k <? Z.of_nat len)%Z then
    let cut := pyslice len k in
    let removed := skipn cut l in
    if forallb (fun o => match uses (hio h) o with [] => true | _ => false end) removed
    then K (with_po h (set_outs (po_release (hpo h) removed) n (firstn cut l)))
    else R h ValueError
  else
    if forallb (blank_value h) fresh && nodupb fresh && (length fresh =? Z.to_nat k - len) then
      K (bump_vs (with_po h (set_outs (po_adopt (hpo h) n len fresh) n (l ++ fresh))) fresh)
    else R h OtherError.       (* ill-formed op (ids not fresh): not a call the harness can make *)

(* for i, output in enumerate(graph.outputs): if output is self: graph.outputs[i] = replacement *)
Fixpoint rau_outputs (c : cfg) (s : ow_st) (hpf : vid -> bool) (g : gid) (v r : vid) (i : nat) (l : list vid) : ow_st * res unit :=
  match l with
  | [] => K s
  | o :: t => if o =? v then
                let '(s', r') := io_setitem c KOut s hpf g (Z.of_nat i) r in
                match r' with Raise e => (s', Raise e) | Ok _ => rau_outputs c s' hpf g v r (S i) t end
              else rau_outputs c s hpf g v r (S i) t
  end.
Definition v_replace_all_uses (c : cfg) h v (r : vid) (rgo : bool) :=
  let go_uses h := fold_left (fun h u => with_io h (io_replace (hio h) (fst u) (snd u) (Some r))) (uses (hio h) v) h in
  if flag KOut (how h) v then
    match vgraph (how h) v with
    | None => R h AssertionError
    | Some g =>
      if negb rgo then R h ValueError else
      let '(s', r') := rau_outputs c (how h) (hp h) g v r 0 (iol KOut (how h) g) in
      match r' with Raise e => (with_ow h s', Raise e) | Ok _ => K (go_uses (with_ow h s')) end
    end
  else K (go_uses h).

Inductive outspec := OFresh (vs : list vid) | OGiven (vs : list vid) (num : option nat).
Definition new_node (c : cfg) h n (xs : list (option vid)) (o : outspec) (g : option gid) (nm : option name) :=
  if negb (blank_node h n) then R h OtherError else
  let ovs := match o with OFresh vs => vs | OGiven vs _ => vs end in
  let wf := match o with OFresh vs => forallb (blank_value h) vs && nodupb vs | OGiven _ _ => true end in
  if negb wf then R h OtherError else
  let bad_num := match o with OGiven vs (Some k) => negb (k =? length vs) | _ => false end in
  if bad_num then R h ValueError else
  if existsb (hp h) ovs then R h ValueError else
  (* FIXED (SNodeOutputsDup): repeated outputs rejected;  FIXED (SNodeOutputsOwned, not applied to /repo: an existing
     test builds a node whose output is a subgraph initializer): graph inputs / initializers rejected as outputs *)
  if (c SNodeOutputsDup && negb (nodupb ovs))
     || (c SNodeOutputsOwned && existsb (fun v => flag KIn (how h) v || vinit (how h) v) ovs) then R h ValueError else
  let h1 := with_po h (set_outs (po_adopt (hpo h) n 0 ovs) n ovs) in
  let h2 := with_nm h1 (nm_bump_n (nm_set_nname (hnm h1) n nm) n) in
  let h3 := match o with OFresh vs => bump_vs h2 vs | _ => h2 end in
  let h4 := match g with Some g => fst (g_append c h3 g n) | None => h3 end in
  K (with_io h4 (io_new_node (hio h4) n xs)).

Definition new_value h v (nm : option name) :=
  if blank_value h v then K (with_nm (with_ow h (set_vname (how h) v nm)) (nm_bump_v (hnm h) v)) else R h OtherError.

(* dict comprehension {v.name: v for v in initializers}: a later value with the same name replaces the earlier one in place *)
Fixpoint dict_of (s : ow_st) (vs : list vid) (acc : list (option name * vid)) : list (option name * vid) :=
  match vs with
  | [] => acc
  | v :: t =>
    let k := vname s v in
    let fix put (l : list (option name * vid)) := match l with
        | [] => [(k, v)]
        | (k', v') :: r => if oname_eqb k k' then (k, v) :: r else (k', v') :: put r end in
    dict_of s t (put acc)
  end.
Fixpoint init_own_seq s g (vs : list vid) : ow_st * bool :=
  match vs with [] => (s, true)
  | v :: t => if gcheck s g v then init_own_seq (init_own s g v) g t else (s, false) end.
Fixpoint init_set_seq c s hp g (kvs : list (option name * vid)) : ow_st * res unit :=
  match kvs with [] => K s
  | (k, v) :: t => match k with
                   | None => R s TypeError
                   | Some k => let '(s', r) := init_setitem c s hp g k v in
                               match r with Raise e => (s', Raise e) | Ok _ => init_set_seq c s' hp g t end
                   end end.
(* Graph.__init__: the body, run sequentially; a rejection keeps everything done so far *)
Definition graph_build (c : cfg) h g (gi go : list vid) (d : list (option name * vid)) (ns : list nid) : heap * res unit :=
  let s0 := how h in
  let '(s1, ok1) := io_own_seq KIn s0 (hp h) g gi in
  if negb ok1 then R (with_ow h s1) ValueError else
  let s1 := set_iol KIn s1 g gi in
  let '(s2, ok2) := io_own_seq KOut s1 (hp h) g go in
  if negb ok2 then R (with_ow h s2) ValueError else
  let s2 := set_iol KOut s2 g go in
  let '(s3, ok3) := init_own_seq s2 g (map snd d) in
  if negb ok3 then R (with_ow h s3) ValueError else
  let '(s4, r4) := init_set_seq c s3 (hp h) g d in
  match r4 with
  | Raise e => R (with_ow h s4) e
  | Ok _ =>
    let h1 := with_ow h s4 in
    let h2 := reg_values c h1 g gi in
    let h3 := reg_values c h2 g (map snd (inits (how h2) g)) in
    g_extend c h3 g ns
  end.
(* FIXED behaviour of Graph.__init__ (proposed_fixes/C06-graph-ctor-validate-first.diff): every argument is validated,
   in the order in which the constructor would have failed and with the same exception types, before anything is adopted *)
Fixpoint first_bad_init (h : heap) (d : list (option name * vid)) : option exn :=
  match d with
  | [] => None
  | (None, _) :: _ => Some TypeError
  | (Some NEmpty, _) :: _ => Some ValueError
  | (Some _, v) :: t => if hp h v then Some ValueError else first_bad_init h t
  end.
Definition graph_new_reject (h : heap) (gi go : list vid) (d : list (option name * vid)) (ns : list nid) : option exn :=
  let fresh v := match vgraph (how h) v with None => true | Some _ => false end in
  if negb (forallb (fun v => fresh v && negb (hp h v)) gi) then Some ValueError
  else if negb (forallb fresh go) then Some ValueError
  else if negb (forallb (fun kv => fresh (snd kv)) d) then Some ValueError
  else match first_bad_init h d with
       | Some e => Some e
       | None => if forallb (fun n => negb (is_some (ngraph (hng h) n))) ns then None else Some ValueError
       end.
(* The constructor body once every argument has been validated (680d931): nothing can be rejected any more, so it is
   written with the validated mutators (inputs.extend, outputs.extend, initializers[k] = v for every entry, name
   registration, Graph.extend) instead of the raw container constructors; same final state, and the intermediate
   states are unobservable because no step can raise. *)
Definition graph_init (c : cfg) h g (gi go : list vid) (d : list (option name * vid)) (ns : list nid) : heap :=
  let s1 := fst (io_extend c KIn (how h) (hp h) g gi) in
  let s2 := fst (io_extend c KOut s1 (hp h) g go) in
  let s3 := fold_left (fun s kv => match fst kv with
                                   | Some k => fst (init_setitem c s (hp h) g k (snd kv))
                                   | None => s end) d s2 in
  let h1 := with_ow h s3 in
  (* f54d66f: all explicit names of inputs and initializers are registered first, then the unnamed inputs are named *)
  let h2 := reg_values c h1 g (filter (fun v => is_some (vname (how h1) v)) (gi ++ map snd (inits (how h1) g))) in
  let h3 := reg_values c h2 g gi in
  let h4 := fst (g_extend c h3 g ns) in
  with_nm h4 (nm_bump_g (hnm h4) g).
Definition graph_new (c : cfg) h g (gi go ginit : list vid) (ns : list nid) :=
  if negb (blank_graph h g) then R h OtherError else
  let s0 := how h in
  let d := dict_of s0 ginit [] in
  let rej := graph_new_reject h gi go d ns in
  if c SGraphNew then                                                  (* FIXED: validate everything, then build *)
    match rej with Some e => R h e | None => K (graph_init c h g gi go d ns) end
  else
  let '(h', r) := graph_build c h g gi go d ns in                     (* BEFORE 680d931 *)
  match r with
  | Ok _ => K (with_nm h' (nm_bump_g (hnm h') g))
  | Raise e =>
    (* the half-built graph object stays reachable through value.graph / node.graph of whatever was adopted;
       if nothing was adopted yet, nothing observable changed *)
    if existsb (fun v => onat_eqb (vgraph (how h') v) (Some g)) (gi ++ go ++ map snd d)
       || existsb (fun n => onat_eqb (ngraph (hng h') n) (Some g)) ns
    then R (with_nm h' (nm_bump_g (nm_set_zombie (hnm h') g) g)) e
    else R h e
  end.

(* ------------------------------------------------------------------ the public mutation alphabet *)
Inductive op :=
| NewValue (v : vid) (nm : option name)
| NewNode (n : nid) (xs : list (option vid)) (o : outspec) (g : option gid) (nm : option name)
| GraphNew (g : gid) (gi go ginit : list vid) (ns : list nid)
| GAppend (g : gid) (n : nid)
| GExtend (g : gid) (ns : list nid)
| GInsertAfter (g : gid) (ref : nid) (ns : list nid)
| GInsertBefore (g : gid) (ref : nid) (ns : list nid)
| NAppend (n : nid) (ns : list nid)
| NPrepend (n : nid) (ns : list nid)
| GRemove (g : gid) (ns : list nid) (safe : bool)
| GSort (g : gid) (out : option (list (gid * list nid)))
| NReplaceInput (n : nid) (i : Z) (x : option vid)
| NResizeInputs (n : nid) (k : Z)
| NResizeOutputs (n : nid) (k : Z) (fresh : list vid)
| VReplaceAllUses (v r : vid) (rgo : bool)
| VSetName (v : vid) (nm : option name)
| IOAppend (k : kind) (g : gid) (v : vid)
| IOExtend (k : kind) (g : gid) (vs : list vid)
| IOInsert (k : kind) (g : gid) (i : Z) (v : vid)
| IOPop (k : kind) (g : gid) (i : Z)
| IORemove (k : kind) (g : gid) (v : vid)
| IOClear (k : kind) (g : gid)
| IOSetItem (k : kind) (g : gid) (i : Z) (v : vid)
| IODelItem (k : kind) (g : gid) (i : Z)
| IOSetSlice (k : kind) (g : gid) (a b : nat) (vs : list vid)
| IODelSlice (k : kind) (g : gid) (a b : nat)
| IOIMul (k : kind) (g : gid) (m : Z)
| IOReverse (k : kind) (g : gid)
| InitSetItem (g : gid) (key : name) (v : vid)
| InitDelItem (g : gid) (key : name)
| InitPop (g : gid) (key : name)
| InitAdd (g : gid) (v : vid)
| InitClear (g : gid)
| InitPopItem (g : gid)
| InitUpdate (g : gid) (kvs : list (option name * vid))
| InitSetDefault (g : gid) (key : name) (v : vid)
| InitIOr (g : gid).

Definition step (c : cfg) (h : heap) (o : op) : heap * res unit :=
  match o with
  | NewValue v nm => new_value h v nm
  | NewNode n xs o g nm => new_node c h n xs o g nm
  | GraphNew g gi go ginit ns => graph_new c h g gi go ginit ns
  | GAppend g n => g_append c h g n
  | GExtend g ns => g_extend c h g ns
  | GInsertAfter g ref ns => g_insert c h g false ref ns
  | GInsertBefore g ref ns => g_insert c h g true ref ns
  | NAppend n ns => match ngraph (hng h) n with None => R h ValueError | Some g => g_insert c h g false n ns end
  | NPrepend n ns => match ngraph (hng h) n with None => R h ValueError | Some g => g_insert c h g true n ns end
  | GRemove g ns safe => g_remove h g ns safe
  | GSort _ out => g_sort c h out
  | NReplaceInput n i x => n_replace_input h n i x
  | NResizeInputs n k => n_resize_inputs h n k
  | NResizeOutputs n k fresh => n_resize_outputs h n k fresh
  | VReplaceAllUses v r rgo => v_replace_all_uses c h v r rgo
  | VSetName v nm => lift_ow h (vset_name c (how h) (hp h) v nm)
  | IOAppend k g v => lift_ow h (io_append k (how h) (hp h) g v)
  | IOExtend k g vs => lift_ow h (io_extend c k (how h) (hp h) g vs)
  | IOInsert k g i v => lift_ow h (io_insert c k (how h) (hp h) g i v)
  | IOPop k g i => lift_ow h (io_pop k (how h) g i)
  | IORemove k g v => lift_ow h (io_remove k (how h) g v)
  | IOClear k g => lift_ow h (io_clear k (how h) g)
  | IOSetItem k g i v => lift_ow h (io_setitem c k (how h) (hp h) g i v)
  | IODelItem k g i => lift_ow h (io_delitem c k (how h) g i)
  | IOSetSlice k g a b vs => lift_ow h (io_setslice c k (how h) (hp h) g a b vs)
  | IODelSlice k g a b => lift_ow h (io_delslice c k (how h) g a b)
  | IOIMul k g m => lift_ow h (io_imul c k (how h) g m)
  | IOReverse k g => lift_ow h (io_reverse k (how h) g)
  | InitSetItem g key v => lift_ow h (init_setitem c (how h) (hp h) g key v)
  | InitDelItem g key => lift_ow h (init_delitem (how h) g key)
  | InitPop g key => lift_ow h (init_delitem (how h) g key)
  | InitAdd g v => lift_ow h (init_add c (how h) (hp h) g v)
  | InitClear g => lift_ow h (init_clear (how h) g)
  | InitPopItem g => lift_ow h (init_popitem (how h) g)
  | InitUpdate g kvs => lift_ow h (init_update c (how h) (hp h) g kvs)
  | InitSetDefault g key v => lift_ow h (init_setdefault c (how h) (hp h) g key v)
  | InitIOr g => lift_ow h (init_ior (how h))
  end.

(* histories keep going after a Raise *)
Definition run (c : cfg) (ops : list op) (h : heap) : heap := fold_left (fun h o => fst (step c h o)) ops h.

(* ------------------------------------------------------------------ observation (what the public accessors return) *)
Definition vgraph_prop (h : heap) (v : vid) : option gid :=       (* Value.graph property *)
  match vgraph (how h) v with
  | Some g => Some g
  | None => match prod (hpo h) v with Some n => ngraph (hng h) n | None => None end
  end.
Fixpoint filter_some {A} (l : list (option A)) : list A :=
  match l with [] => [] | Some x :: t => x :: filter_some t | None :: t => filter_some t end.
Fixpoint dedup_first (l : list nat) (seen : list nat) : list nat :=
  match l with [] => [] | x :: t => if memb x seen then dedup_first t seen else x :: dedup_first t (x :: seen) end.
Definition predecessors (h : heap) (n : nid) : list nid :=
  dedup_first (filter_some (map (fun x => match x with Some v => prod (hpo h) v | None => None end) (ins (hio h) n))) [].
Definition successors (h : heap) (n : nid) : list nid :=
  dedup_first (concat (map (fun o => map fst (uses (hio h) o)) (outs (hpo h) n))) [].

Open Scope Z_scope.
Definition zn (n : nat) : Z := Z.of_nat n.
Definition enc_onat (o : option nat) : list Z := match o with None => [0] | Some x => [1; zn x] end.
Definition enc_oZ (o : option Z) : list Z := match o with None => [0] | Some x => [1; x] end.
Definition enc_name (x : name) : list Z :=
  match x with NEmpty => [1; 0] | NUser k => [2; zn k] | NVal k => [3; zn k] | NNode k => [4; zn k] end.
Definition enc_oname (o : option name) : list Z := match o with None => [0] | Some x => enc_name x end.
Definition enc_list {A} (f : A -> list Z) (l : list A) : list Z := zn (length l) :: concat (map f l).
Definition enc_bool (b : bool) : Z := if b then 1 else 0.
Definition obs_value (h : heap) (v : vid) : list Z :=
  enc_oname (vname (how h) v) ++ enc_onat (prod (hpo h) v) ++ enc_oZ (idx (hpo h) v)
  ++ enc_list (fun u => [zn (fst u); zn (snd u)]) (uses (hio h) v)
  ++ [enc_bool (flag KIn (how h) v); enc_bool (flag KOut (how h) v); enc_bool (vinit (how h) v)]
  ++ enc_onat (vgraph_prop h v).
Definition obs_node (h : heap) (n : nid) : list Z :=
  enc_oname (nname (hnm h) n) ++ enc_list enc_onat (ins (hio h) n) ++ enc_list (fun v => [zn v]) (outs (hpo h) n)
  ++ enc_onat (ngraph (hng h) n) ++ enc_list (fun x => [zn x]) (predecessors h n) ++ enc_list (fun x => [zn x]) (successors h n).
Definition obs_graph (h : heap) (g : gid) : list Z :=
  if sget (g_zombie (hnm h)) g then [99] else
  enc_list (fun v => [zn v]) (iol KIn (how h) g) ++ enc_list (fun v => [zn v]) (iol KOut (how h) g)
  ++ enc_list (fun e => enc_name (fst e) ++ [zn (snd e)]) (inits (how h) g)
  ++ enc_list (fun x => [zn x]) (gseq (hng h) g).
(* everything the accessors of C01's observe_at list return, for every allocated object *)
Definition obs (h : heap) : list Z :=
  [zn (cnt_v (hnm h)); zn (cnt_n (hnm h)); zn (cnt_g (hnm h))]
  ++ concat (map (obs_value h) (seq 0 (cnt_v (hnm h))))
  ++ concat (map (obs_node h) (seq 0 (cnt_n (hnm h))))
  ++ concat (map (obs_graph h) (seq 0 (cnt_g (hnm h)))).
(* obs extended with the state no public accessor shows: ref counters and name-authority state *)
Definition obs_hidden (h : heap) : list Z :=
  concat (map (fun g => concat (map (fun v => [rc KIn (how h) g v; rc KOut (how h) g v]) (seq 0 (cnt_v (hnm h)))))
              (seq 0 (cnt_g (hnm h))))
  ++ concat (map (fun g => [zn (sget (g_vctr (hnm h)) g); zn (sget (g_nctr (hnm h)) g)]
                           ++ enc_list enc_name (sget (g_vnames (hnm h)) g) ++ enc_list enc_name (sget (g_nnames (hnm h)) g))
                 (seq 0 (cnt_g (hnm h)))).
Definition obs_all (h : heap) : list Z := obs h ++ obs_hidden h.
Close Scope Z_scope.

(* ------------------------------------------------------------------ THE definition to edit when a repair lands in /repo.
   false = the code still has the defect (the model reproduces it); true = the repair of proposed_fixes/ is applied. *)
Definition current_cfg : cfg := fun s =>
  match s with
  | SIODelItem => true          (* /repo c5c2382 *)
  | SIOIMul => true             (* /repo c5c2382 *)
  | SIOExtend => true           (* /repo c5c2382 *)
  | SIOInsert => true           (* /repo c5c2382 *)
  | SIOSetItem => true          (* /repo c5c2382 *)
  | SInitSetItem => true        (* /repo c5c2382 *)
  | SNameEmpty => true          (* /repo dff454e *)
  | SGExtend => true            (* /repo dff454e *)
  | SGInsert => true            (* /repo dff454e *)
  | SNodeOutputsDup => true     (* /repo dff454e *)
  | SNodeOutputsOwned => false  (* open: known finding node-output-owned *)
  | SGraphNew => true           (* /repo 680d931 *)
  | SInitUpdate => true         (* /repo 4f0fb1e *)
  end.

(* the code as it was before any repair (pinned commit of the design phase): every defect present *)
Definition original_cfg : cfg := fun _ => false.

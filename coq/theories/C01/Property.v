(* C01/Property.v — use-def and ownership links stay consistent under every edit history.

   FULL STATEMENT (properties.jsonl C01): after any sequence of public graph-editing calls, successful or
   rejected, clauses I1..I7 hold.  What is proved here:
     * I1 (uses <-> inputs) for EVERY history and every configuration of the model, defects included;
     * I3..I7 for every history of the repaired model (all proposed fixes applied), and for every history of
       the current model that never takes a defect branch (`clean current_cfg`);
     * at each defect site of the current code: a refutation witness.
     * I2 (outputs <-> producer/index) separately, for every history of the repaired model over the whole alphabet
       and for every clean history of the current model (C01_outputs_reachable_fixed, C01_outputs_reachable).
   Graph(...) WITH arguments is inside every theorem since 680d931 (no `in_scope` restriction any more).  The only
   hypothesis left on the current code is `clean current_cfg`: the history never takes the one unrepaired branch
   (SNodeOutputsOwned: Node(outputs=[a graph input / initializer]), refuted below and recorded as node-output-owned). *)
From Coq Require Import ZArith List Bool Arith Lia.
From IRV Require Import Base.Exn C01.Model C01.Store C01.ProofsA C01.ProofsB C01.ProofsC C01.ProofsD C01.Proofs C01.ProofsB2.
Import ListNotations.

Theorem C01_inv_init : InvP empty_heap.
Proof. apply Inv_InvP. apply Inv_empty. Qed.
Print Assumptions C01_inv_init.

(* I1 holds after every history over the whole modelled alphabet, whatever defects are present *)
Theorem C01_uses_reachable : forall (c : cfg) (ops : list op), I1 (hio (run c ops empty_heap)).
Proof. intros c ops. apply I1_run. apply I1_empty. Qed.
Print Assumptions C01_uses_reachable.

(* per-op preservation, rejected calls included *)
Theorem C01_step_preserves_inv : forall h o, Inv h -> Inv (fst (step all_fixed h o)).
Proof. exact Inv_step. Qed.
Print Assumptions C01_step_preserves_inv.

(* I2 (every node output names that node and position as its producer, and conversely): repaired code, every
   history over the whole modelled alphabet (Graph(...) with arguments included) *)
Theorem C01_outputs_reachable_fixed : forall ops, I2 (hpo (run all_fixed ops empty_heap)).
Proof. intros ops. apply I2_run_fixed. apply I2_empty. Qed.
Print Assumptions C01_outputs_reachable_fixed.

Theorem C01_outputs_reachable : forall ops, clean current_cfg ops empty_heap -> I2 (hpo (run current_cfg ops empty_heap)).
Proof. intros ops Hc. rewrite clean_run by assumption. apply I2_run_fixed. apply I2_empty. Qed.
Print Assumptions C01_outputs_reachable.

(* the repaired code: every history *)
Theorem C01_inv_reachable_fixed : forall ops, InvP (run all_fixed ops empty_heap).
Proof. intros ops. apply Inv_InvP. apply Inv_run_fixed. apply Inv_empty. Qed.
Print Assumptions C01_inv_reachable_fixed.

(* the code as it is: every history that avoids exactly the known defect sites *)
Theorem C01_inv_reachable :
  forall ops, clean current_cfg ops empty_heap -> InvP (run current_cfg ops empty_heap).
Proof. intros ops Hc. apply Inv_InvP. apply Inv_run_clean; assumption. Qed.
Print Assumptions C01_inv_reachable.

(* non-vacuity: three graphs; value 0 is input, output (listed twice) and initializer of graph 0; rejected calls included *)
Definition demo : list op :=
  [NewValue 0 (Some (NUser 0)); NewValue 1 None; GraphNew 0 [] [] [] []; GraphNew 1 [] [] [] []; GraphNew 2 [] [] [] [];
   IOAppend KIn 0 0; IOAppend KOut 0 0; IOAppend KOut 0 0; InitAdd 0 0;
   NewNode 0 [Some 0; None; Some 0] (OFresh [2; 3]) (Some 1) None; IOAppend KIn 2 0 (* rejected *);
   IOAppend KIn 1 2 (* rejected: produced *); NReplaceInput 0 1 (Some 1); VSetName 0 (Some (NUser 3));
   IOPop KOut 0 0; GRemove 1 [0] true; IOPop KIn 0 7 (* rejected *)].
Example demo_clean : clean current_cfg demo empty_heap.
Proof. cbn [clean demo]. repeat (split; [vm_compute; reflexivity|]). exact I. Qed.
Example demo_nontrivial :
  let h := run current_cfg demo empty_heap in
  iol KOut (how h) 0 = [0] /\ inits (how h) 0 = [(NUser 3, 0)] /\ flag KIn (how h) 0 = true /\ gseq (hng h) 1 = [].
Proof. vm_compute. auto. Qed.

(* non-vacuity for Graph(...) WITH arguments: inputs, outputs (one value twice), an initializer and a node in one call,
   followed by a constructor call that is rejected (its input is already owned) *)
Definition demo_ctor : list op :=
  [NewValue 0 (Some (NUser 0)); NewValue 1 (Some (NUser 1)); NewNode 0 [Some 0; Some 1] (OFresh [2]) None None;
   GraphNew 0 [0] [2; 2] [1] [0]; GraphNew 1 [0] [] [] []].
Example demo_ctor_clean : clean current_cfg demo_ctor empty_heap.
Proof. cbn [clean demo_ctor]. repeat (split; [vm_compute; reflexivity|]). exact I. Qed.
Example demo_ctor_nontrivial :
  let h := run current_cfg demo_ctor empty_heap in
  iol KIn (how h) 0 = [0] /\ iol KOut (how h) 0 = [2; 2] /\ inits (how h) 0 = [(NUser 1, 1)] /\ gseq (hng h) 0 = [0] /\
  snd (step current_cfg (run current_cfg (removelast demo_ctor) empty_heap) (GraphNew 1 [0] [] [] [])) = Raise ValueError.
Proof. vm_compute. auto. Qed.

(* ------------------------------------------------------------------ refutations at the defect sites.
   `..._refuted_before_fix` : about original_cfg, the code before the repairs c5c2382 / dff454e landed in /repo (kept as
   the record of what the `fixed` entries of known_findings.d/C01.json were); `..._refuted` : about current_cfg, the one
   site that is still open (SNodeOutputsOwned); SGraphNew was repaired by /repo 680d931. *)
Lemma need_listed h k v g : InvP h -> flag k (how h) v = true -> vgraph (how h) v = Some g -> memb v (iol k (how h) g) = true.
Proof. intros (_ & _ & _ & _ & H4 & _) Hf Hg. apply memb_In. apply H4. auto. Qed.
Lemma need_flag h k v g : InvP h -> memb v (iol k (how h) g) = true -> flag k (how h) v = true /\ vgraph (how h) v = Some g.
Proof. intros (_ & _ & _ & _ & H4 & _) Hm. apply memb_In in Hm. apply H4. assumption. Qed.
Lemma need_member h n g : InvP h -> ngraph (hng h) n = Some g -> memb n (gseq (hng h) g) = true.
Proof. intros (_ & _ & H3 & _) Hn. apply memb_In. apply H3. assumption. Qed.
Lemma need_init h g key v : InvP h -> In (key, v) (inits (how h) g) -> vinit (how h) v = true.
Proof. intros (_ & _ & _ & _ & _ & _ & H5 & _) Hin. apply (H5 _ _ _ Hin). Qed.
Lemma need_noprod h v : InvP h -> flag KIn (how h) v = true -> prod (hpo h) v = None.
Proof. intros (_ & _ & _ & _ & _ & _ & _ & _ & _ & H6 & _) Hf. apply H6. auto. Qed.

Definition w_delitem := [NewValue 0 (Some (NUser 0)); GraphNew 0 [] [0] [] []; IODelItem KOut 0 0].
Theorem C01_iodelitem_refuted_before_fix : ~ InvP (run original_cfg w_delitem empty_heap).
Proof. intros H. pose proof (need_listed _ KOut 0 0 H eq_refl eq_refl) as X. vm_compute in X. discriminate. Qed.
Print Assumptions C01_iodelitem_refuted_before_fix.

Definition w_imul := [NewValue 0 (Some (NUser 0)); GraphNew 0 [0] [] [] []; IOIMul KIn 0 2; IOPop KIn 0 (-1)].
Theorem C01_ioimul_refuted_before_fix : ~ InvP (run original_cfg w_imul empty_heap).
Proof. intros H. pose proof (need_flag _ KIn 0 0 H eq_refl) as [X _]. vm_compute in X. discriminate. Qed.
Print Assumptions C01_ioimul_refuted_before_fix.

Definition w_pre := [NewValue 0 (Some (NUser 0)); NewValue 1 (Some (NUser 1)); GraphNew 0 [] [] [] []; GraphNew 1 [1] [] [] []].
Definition w_extend := w_pre ++ [IOExtend KIn 0 [0; 1]].
Theorem C01_ioextend_refuted_before_fix : ~ InvP (run original_cfg w_extend empty_heap).
Proof. intros H. pose proof (need_listed _ KIn 0 0 H eq_refl eq_refl) as X. vm_compute in X. discriminate. Qed.
Print Assumptions C01_ioextend_refuted_before_fix.

Definition w_insert := w_pre ++ [IOInsert KIn 0 0 1].
Theorem C01_ioinsert_refuted_before_fix : ~ InvP (run original_cfg w_insert empty_heap).
Proof. intros H. pose proof (need_flag _ KIn 1 0 H eq_refl) as [_ X]. vm_compute in X. discriminate. Qed.
Print Assumptions C01_ioinsert_refuted_before_fix.

Definition w_setitem := w_pre ++ [IOAppend KIn 0 0; IOSetItem KIn 0 0 1].
Theorem C01_iosetitem_refuted_before_fix : ~ InvP (run original_cfg w_setitem empty_heap).
Proof. intros H. pose proof (need_flag _ KIn 0 0 H eq_refl) as [X _]. vm_compute in X. discriminate. Qed.
Print Assumptions C01_iosetitem_refuted_before_fix.

(* initializers[k] = v with v owned by another graph: the entry being replaced is disowned but stays stored *)
Definition w_initset := [NewValue 0 (Some (NUser 1)); NewValue 1 (Some (NUser 1)); GraphNew 0 [] [] [] []; GraphNew 1 [] [] [] [];
                         InitAdd 0 0; IOAppend KOut 1 1; InitSetItem 0 (NUser 1) 1].
Theorem C01_initsetitem_refuted_before_fix : ~ InvP (run original_cfg w_initset empty_heap).
Proof.
  intros H. assert (X : vinit (how (run original_cfg w_initset empty_heap)) 0 = true).
  { apply (need_init _ 0 (NUser 1) 0 H). vm_compute. auto. }
  vm_compute in X. discriminate.
Qed.
Print Assumptions C01_initsetitem_refuted_before_fix.

Definition w_gpre := [GraphNew 0 [] [] [] []; GraphNew 1 [] [] [] []; NewNode 0 [] (OFresh []) None None;
                      NewNode 1 [] (OFresh []) (Some 1) None].
Definition w_gextend := w_gpre ++ [GExtend 0 [0; 1]].
Theorem C01_gextend_refuted_before_fix : ~ InvP (run original_cfg w_gextend empty_heap).
Proof. intros H. pose proof (need_member _ 0 0 H eq_refl) as X. vm_compute in X. discriminate. Qed.
Print Assumptions C01_gextend_refuted_before_fix.

Definition w_ginsert := w_gpre ++ [GInsertAfter 0 1 [0]].
Theorem C01_ginsert_refuted_before_fix : ~ InvP (run original_cfg w_ginsert empty_heap).
Proof. intros H. pose proof (need_member _ 0 0 H eq_refl) as X. vm_compute in X. discriminate. Qed.
Print Assumptions C01_ginsert_refuted_before_fix.

(* Node(outputs=[graph input]) : a graph input with a producer *)
Definition w_nodeouts := [NewValue 0 (Some (NUser 0)); GraphNew 0 [0] [] [] []; NewNode 0 [] (OGiven [0] None) None None].
Theorem C01_nodeoutputs_refuted : ~ InvP (run current_cfg w_nodeouts empty_heap).
Proof. intros H. pose proof (need_noprod _ 0 H eq_refl) as X. vm_compute in X. discriminate. Qed.
Print Assumptions C01_nodeoutputs_refuted.

(* Node(outputs=[x, x]): position 0 holds x but x claims index 1 *)
Definition w_nodeouts_dup := [NewValue 0 (Some (NUser 0)); NewNode 0 [] (OGiven [0; 0] None) None None].
Theorem C01_nodeoutputs_dup_refuted_before_fix : ~ I2 (hpo (run original_cfg w_nodeouts_dup empty_heap)).
Proof.
  intros [H _]. specialize (H 0 0 0 eq_refl). destruct H as [_ H]. vm_compute in H. discriminate.
Qed.
Print Assumptions C01_nodeoutputs_dup_refuted_before_fix.

(* Graph([a, foreign]) raises, a keeps the input flag and points to the half-built graph *)
Definition w_graphnew := w_pre ++ [GraphNew 2 [0; 1] [] [] []].
Theorem C01_graphnew_refuted_before_fix : ~ InvP (run original_cfg w_graphnew empty_heap).
Proof. intros H. pose proof (need_listed _ KIn 0 2 H eq_refl eq_refl) as X. vm_compute in X. discriminate. Qed.
Print Assumptions C01_graphnew_refuted_before_fix.

(* the witnesses of the repaired sites are now ordinary clean histories of the current model *)
Example repaired_witnesses_clean :
  clean current_cfg w_delitem empty_heap /\ clean current_cfg w_imul empty_heap /\ clean current_cfg w_extend empty_heap /\
  clean current_cfg w_insert empty_heap /\ clean current_cfg w_setitem empty_heap /\ clean current_cfg w_initset empty_heap /\
  clean current_cfg w_gextend empty_heap /\ clean current_cfg w_ginsert empty_heap /\ clean current_cfg w_nodeouts_dup empty_heap /\
  clean current_cfg w_graphnew empty_heap.
Proof.
  repeat (match goal with |- _ /\ _ => split end);
    cbv [w_delitem w_imul w_pre w_extend w_insert w_setitem w_initset w_gpre w_gextend w_ginsert w_nodeouts_dup w_graphnew app];
    cbn [clean]; repeat (split; [vm_compute; reflexivity|]); exact I.
Qed.

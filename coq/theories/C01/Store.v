(* C01/Store.v — lemmas about the default-valued stores and the small list helpers of Model.v *)
From Coq Require Import ZArith List Bool Arith Lia.
From IRV Require Import Base.Exn C01.Model.
Import ListNotations.

Lemma sget_nil {A} `{Dflt A} i : sget (@nil A) i = dflt.
Proof. unfold sget. destruct i; reflexivity. Qed.

Lemma sget_sset_eq {A} `{Dflt A} (l : list A) i x : sget (sset l i x) i = x.
Proof.
  unfold sget. revert l. induction i as [|i IH]; intros [|y t]; simpl; auto.
Qed.

Lemma sget_sset_ne {A} `{Dflt A} (l : list A) i j x : i <> j -> sget (sset l i x) j = sget l j.
Proof.
  unfold sget. revert l j. induction i as [|i IH]; intros [|y t] [|j] Hne; simpl; try congruence; auto.
  - destruct j; reflexivity.
  - rewrite IH by congruence. destruct j; reflexivity.
Qed.

Lemma sget_sset {A} `{Dflt A} (l : list A) i j x : sget (sset l i x) j = if i =? j then x else sget l j.
Proof.
  destruct (Nat.eqb_spec i j) as [->|Hne]; [apply sget_sset_eq | apply sget_sset_ne; assumption].
Qed.

Lemma sset_sset {A} `{Dflt A} (l : list A) i x y : sset (sset l i x) i y = sset l i y.
Proof. revert l. induction i as [|i IH]; intros [|z t]; simpl; try reflexivity; rewrite IH; reflexivity. Qed.

(* ---- list_set *)
Lemma list_set_length {A} (l : list A) i x : length (list_set l i x) = length l.
Proof. revert i. induction l as [|y t IH]; intros [|i]; simpl; auto. Qed.

Lemma nth_error_list_set {A} (l : list A) i j x :
  nth_error (list_set l i x) j = if i =? j then (if i <? length l then Some x else None) else nth_error l j.
Proof.
  revert i j. induction l as [|y t IH]; intros i j; simpl.
  - destruct (i =? j); destruct j; destruct i; reflexivity.
  - destruct i as [|i], j as [|j]; simpl; try reflexivity.
    rewrite IH. destruct (i =? j); try reflexivity.
Qed.

Lemma nth_error_nth_None {A} (l : list (option A)) i : i < length l -> nth_error l i = Some (nth i l None).
Proof. revert i. induction l as [|y t IH]; intros [|i] Hl; simpl in *; try lia; auto. apply IH. lia. Qed.

Lemma nth_error_nth0 (l : list nat) i : i < length l -> nth_error l i = Some (nth i l 0).
Proof. revert i. induction l as [|y t IH]; intros [|i] Hl; simpl in *; try lia; auto. apply IH. lia. Qed.

(* ---- counting *)
Lemma countb_nonneg x l : (0 <= countb x l)%Z.
Proof. induction l as [|y t IH]; simpl; [lia|]. destruct (y =? x); lia. Qed.

Lemma countb_pos_In x l : (0 < countb x l)%Z <-> In x l.
Proof.
  induction l as [|y t IH]; simpl; [split; [lia|tauto]|].
  pose proof (countb_nonneg x t). destruct (Nat.eqb_spec y x) as [->|Hne]; split; intros Hx; auto; try lia.
  - right. apply IH. lia.
  - destruct Hx as [Hx|Hx]; [congruence|]. apply IH in Hx. lia.
Qed.

Lemma countb_app x l1 l2 : countb x (l1 ++ l2) = (countb x l1 + countb x l2)%Z.
Proof. induction l1 as [|y t IH]; simpl; [reflexivity|]. rewrite IH. lia. Qed.

Lemma countb_rev x l : countb x (rev l) = countb x l.
Proof. induction l as [|y t IH]; simpl; [reflexivity|]. rewrite countb_app, IH. simpl. lia. Qed.

Lemma countb_firstn_skipn x n l : (countb x (firstn n l) + countb x (skipn n l))%Z = countb x l.
Proof. rewrite <- countb_app, firstn_skipn. reflexivity. Qed.

Definition ind (b : bool) : Z := if b then 1%Z else 0%Z.

Lemma countb_insert_at x p v l : countb x (insert_at p v l) = (countb x l + ind (Nat.eqb v x))%Z.
Proof.
  unfold insert_at, ind. rewrite countb_app. simpl. rewrite <- (countb_firstn_skipn x p l). lia.
Qed.

Lemma skipn_nth_cons (l : list nat) p : p < length l -> skipn p l = nth p l 0 :: skipn (S p) l.
Proof. revert p. induction l as [|y t IH]; intros [|p] Hl; simpl in *; try lia; auto. apply IH. lia. Qed.

Lemma countb_remove_at x p l : p < length l -> countb x (remove_at p l) = (countb x l - ind (Nat.eqb (nth p l 0%nat) x))%Z.
Proof.
  intros Hl. unfold remove_at, ind. rewrite countb_app. rewrite <- (countb_firstn_skipn x p l).
  rewrite (skipn_nth_cons l p Hl). simpl. lia.
Qed.

Lemma countb_remove_first x v l : In v l -> countb x (remove_first v l) = (countb x l - ind (Nat.eqb v x))%Z.
Proof.
  unfold ind. induction l as [|y t IH]; simpl; [tauto|]. intros [->|Hin].
  - rewrite Nat.eqb_refl. lia.
  - destruct (Nat.eqb_spec y v) as [->|Hne]; [lia|]. simpl. rewrite IH by assumption. lia.
Qed.

Lemma countb_list_set x p v l : p < length l ->
  countb x (list_set l p v) = (countb x l - ind (Nat.eqb (nth p l 0%nat) x) + ind (Nat.eqb v x))%Z.
Proof.
  unfold ind. revert p. induction l as [|y t IH]; intros [|p] Hl; simpl in *; try lia.
  rewrite IH by lia. lia.
Qed.

Lemma memb_In x l : memb x l = true <-> In x l.
Proof.
  unfold memb. rewrite existsb_exists. split.
  - intros [y [Hy He]]. apply Nat.eqb_eq in He. subst. assumption.
  - intros Hx. exists x. split; [assumption | apply Nat.eqb_refl].
Qed.

Lemma nodupb_NoDup l : nodupb l = true -> NoDup l.
Proof.
  induction l as [|x t IH]; simpl; [constructor|]. intros H. apply andb_prop in H. destruct H as [H1 H2].
  constructor; [|auto]. intros Hin. apply memb_In in Hin. rewrite Hin in H1. discriminate.
Qed.

Lemma dedup_In x l : In x (dedup l) <-> In x l.
Proof.
  induction l as [|y t IH]; simpl; [tauto|]. rewrite filter_In, IH.
  destruct (Nat.eqb_spec x y) as [->|Hne]; [tauto|].
  split; [tauto|]. intros [->|Hx]; [congruence|]. right. split; [assumption|reflexivity].
Qed.

Lemma dedup_NoDup l : NoDup (dedup l).
Proof.
  induction l as [|y t IH]; simpl; constructor.
  - rewrite filter_In. intros [_ H]. rewrite Nat.eqb_refl in H. discriminate.
  - apply NoDup_filter. assumption.
Qed.

Lemma pyidx_lt len i p : pyidx len i = Some p -> p < len.
Proof.
  unfold pyidx. destruct ((0 <=? i)%Z && (i <? Z.of_nat len)%Z) eqn:E1.
  - intros [= <-]. apply andb_prop in E1. lia.
  - destruct ((i <? 0)%Z && (- Z.of_nat len <=? i)%Z) eqn:E2; [|discriminate].
    intros [= <-]. apply andb_prop in E2. lia.
Qed.

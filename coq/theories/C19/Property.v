(* C19/Property.v — ONLY the property theorems (each closed by a lemma of Proofs*.v) and Print Assumptions.
   Model: C19/Model.v (hand-written, tied to /repo by the correspondence check in harness/props/c19.py).

   Property C19: "Sharding and pipeline annotations refer to values and device configurations by identity:
   after any sequence of annotating, renaming, replacing node inputs, resizing outputs, cloning, removing a
   configuration with cascade, and serializing/deserializing at IR version 11 or later, every annotation on a
   node targets a current input or output of that node and a configuration registered on its model, the
   library's own device-configuration check reports nothing, and serialized references use the current names.
   When a value stops being an input or output of a node its annotations on that node are dropped, and invalid
   annotation requests (axis out of range or repeated, fewer than one shard, conflicting stage) are rejected
   without effect." *)
From Coq Require Import ZArith List Bool Lia.
From IRV Require Import Base.Exn C19.Model C19.Proofs C19.Proofs2 C19.Proofs3 Gen.C19Gen C19.GenEquiv.
Import ListNotations.
Open Scope Z_scope.

(* DevInv holds in every state reachable by a history of the alphabet {shard, set_pipeline_stage,
   add/remove configuration (cascade), rename, replace_input_with, resize_outputs, resize_inputs, remove node,
   clone, to_proto;from_proto at any IR version}, over models with nested subgraph bodies, from any state satisfying
   it — for all histories, no bound.
   ops_ok is the alphabet of DESIGN §6 C19: configurations registered at the time of the request, device
   indices inside range(num_devices), removal with cascade (Example: Proofs3.ex_ops_ok). *)
Theorem C19_inv_reachable : forall ops h, DevInv h -> ops_ok h ops -> DevInv (run h ops).
Proof. exact inv_reachable. Qed.
Print Assumptions C19_inv_reachable.

(* A model without annotations and configurations satisfies DevInv (Example: Proofs3.ex_h0_inv). *)
Theorem C19_inv_initial :
  forall h, s_cfgs h = [] -> Forall (fun p => n_dc (snd p) = []) (s_nodes h) -> DevInv h.
Proof. exact inv_initial. Qed.
Print Assumptions C19_inv_initial.

(* Identity of configurations after clone, for every parameter combination (deep_copy, allow_outer_scope_values):
   the clone registers the very same configuration objects, so with C19_inv_reachable every reference of a cloned
   node is to a configuration registered on the clone (Example: Proofs3.uns_clone). *)
Theorem C19_clone_same_configurations : forall h deep allow, s_cfgs (fst (clone h deep allow)) = s_cfgs h.
Proof. exact clone_same_cfgs. Qed.
Print Assumptions C19_clone_same_configurations.

(* The library's own check (_check_device_configurations as a Gallina function) reports nothing on a DevInv
   state whose sharded values have non-empty names (Example: Proofs3.ex_annotated / ex_after_edit). *)
Theorem C19_check_empty : forall h, DevInv h -> names_nonempty h -> check h = [].
Proof. exact check_empty. Qed.
Print Assumptions C19_check_empty.

(* When a value stops being an input/output of a node (replace_input_with / resize_outputs / resize_inputs)
   its specs on that node are gone; the specs of every other value and every other node are untouched. *)
Theorem C19_drop_replace_input : forall h n i v h',
  exec h (OReplaceInput n i v) = (h', Ok tt) ->
  exists nd nd', get_node h n = Some nd /\ get_node h' n = Some nd'
  /\ (forall w, sharding_of nd' w = if in_io_b nd w && negb (in_io_b nd' w) then [] else sharding_of nd w)
  /\ (forall m, m <> n -> get_node h' m = get_node h m).
Proof. exact drop_replace_input_state. Qed.
Print Assumptions C19_drop_replace_input.

Theorem C19_drop_resize_outputs : forall h n k h',
  exec h (OResizeOut n k) = (h', Ok tt) ->
  exists nd nd', get_node h n = Some nd /\ get_node h' n = Some nd'
  /\ (forall w, sharding_of nd' w = if in_io_b nd w && negb (in_io_b nd' w) then [] else sharding_of nd w)
  /\ (forall m, m <> n -> get_node h' m = get_node h m).
Proof. exact drop_resize_outputs_state. Qed.
Print Assumptions C19_drop_resize_outputs.

Theorem C19_drop_resize_inputs : forall h n k h',
  exec h (OResizeIn n k) = (h', Ok tt) ->
  exists nd nd', get_node h n = Some nd /\ get_node h' n = Some nd'
  /\ (forall w, sharding_of nd' w = if in_io_b nd w && negb (in_io_b nd' w) then [] else sharding_of nd w)
  /\ (forall m, m <> n -> get_node h' m = get_node h m).
Proof. exact drop_resize_inputs_state. Qed.
Print Assumptions C19_drop_resize_inputs.

(* Every rejected request (any op, any exception) leaves the state exactly as it was. *)
Theorem C19_reject_frame : forall h o h' e, exec h o = (h', Raise e) -> h' = h.
Proof. exact reject_frame. Qed.
Print Assumptions C19_reject_frame.

(* ... and invalid annotation requests are rejected: value not an input/output, fewer than one shard, negative
   stage, axis out of range for a known rank, stage conflicting with the one recorded for the configuration,
   axis repeated (after normalisation) for the same (configuration, value)  (Example: ex_invalid_rejected). *)
Theorem C19_invalid_shard_rejected : forall h n nd v c axis shards devs stage,
  get_node h n = Some nd -> shard_invalid nd v c axis shards stage ->
  exec h (OShard n v c axis shards devs stage) = (h, Raise ValueError).
Proof. exact invalid_shard_rejected. Qed.
Print Assumptions C19_invalid_shard_rejected.

Theorem C19_invalid_stage_rejected : forall h n nd c s,
  get_node h n = Some nd -> s < 0 -> exec h (OStage n c s) = (h, Raise ValueError).
Proof. exact invalid_stage_rejected. Qed.
Print Assumptions C19_invalid_stage_rejected.

(* Serialized references are the CURRENT names of the referenced objects, never empty; they follow renames. *)
Theorem C19_ser_current_names : forall h dc p,
  ser_dc h dc = Ok p ->
  p = (c_name (dc_cfg dc), dc_stage dc,
       map (fun sp => (name_of h (sp_val sp), sp_dev sp, map (fun d => (sd_axis d, sd_shards d)) (sp_dims sp)))
           (dc_specs dc))
  /\ c_name (dc_cfg dc) <> [] /\ Forall (fun sp => name_of h (sp_val sp) <> []) (dc_specs dc).
Proof. exact ser_current_names. Qed.
Print Assumptions C19_ser_current_names.

Theorem C19_ser_follows_rename : forall h v nm sp,
  sp_val sp = v -> ser_spec (rename h v nm) sp = (nm, sp_dev sp, map (fun d => (sd_axis d, sd_shards d)) (sp_dims sp)).
Proof. exact ser_follows_rename. Qed.
Print Assumptions C19_ser_follows_rename.

(* deserialize_model . serialize_model = identity on the annotation state (IR >= 11): the proto holds only NAMES
   (ModelProto.configuration, NodeProto.device_configurations of every node at every nesting depth — ser_model,
   compared with the real ir.to_proto output on every run); rebuilding the annotations from the proto alone —
   tensor_name through the scope stack of the node's graph, configuration_id through the deserialized
   configurations — gives back exactly the state it was serialized from. *)
Theorem C19_deser_ser_id : forall h p,
  DevInv h -> rt_domain h = true -> MULTI_DEVICE_SUPPORTED_VERSION <= s_ir h ->
  ser_model h = Ok p -> deser h p = h.
Proof. exact deser_ser_id. Qed.
Print Assumptions C19_deser_ser_id.

(* to_proto ; from_proto at IR >= 11 resolves every serialized name back to the very object it came from:
   on a DevInv state inside the modelled domain (rt_domain: the wiring itself survives — names are non-empty and
   identify the values declared in each scope, and every input/output of every node, including values captured
   from enclosing graphs, resolves through the scope stack to itself) the round trip is the identity on
   annotations, configurations and names, for any nesting of subgraph bodies. *)
Theorem C19_roundtrip_identity : forall h,
  DevInv h -> rt_domain h = true -> MULTI_DEVICE_SUPPORTED_VERSION <= s_ir h -> ser_ok h = true ->
  roundtrip h = (h, Ok tt).
Proof. exact roundtrip_identity. Qed.
Print Assumptions C19_roundtrip_identity.

(* Name lookup during deserialization goes through the scope stack of the node's graph, innermost first: a
   successful lookup returns a value DECLARED (graph input / node output) under that name in the innermost
   enclosing scope that declares the name at all — captured outer values are found in an enclosing scope,
   local values shadow outer ones (Examples: Proofs3.nest_resolution, nest_roundtrip). *)
Theorem C19_resolve_through_scopes : forall h s nm v, resolve h s nm = Some v -> resolves_at h nm s v.
Proof. exact resolve_sound. Qed.
Print Assumptions C19_resolve_through_scopes.

(* Below IR 11 the multi-device fields are not serialized: every annotation, at every nesting depth, and every
   configuration is dropped, and DevInv is kept (Example: Proofs3.nest_old_ir). *)
Theorem C19_roundtrip_old_ir : forall h h',
  s_ir h < MULTI_DEVICE_SUPPORTED_VERSION -> roundtrip h = (h', Ok tt) ->
  s_cfgs h' = [] /\ Forall (fun p => n_dc (snd p) = []) (s_nodes h') /\ DevInv h'.
Proof. exact roundtrip_old_ir. Qed.
Print Assumptions C19_roundtrip_old_ir.

(* Outside the alphabet (documented behaviour of cascade=False, not a finding): the invariant's configuration
   clause does not survive and the library's check says so. *)
Theorem C19_noncascade_breaks :
  exists h o, DevInv h /\ ~ op_ok h o /\ ~ DevInv (fst (exec h o)) /\ check (fst (exec h o)) = [(3, 0, 0)].
Proof. exact noncascade_breaks. Qed.
Print Assumptions C19_noncascade_breaks.

(* ---- shape edits after sharding (not in the property's op list; DESIGN reading decision made precise) ----
   Value.shape = ... is modelled (OSetRank).  What the library keeps: everything except "axes inside the CURRENT
   rank / distinct after normalisation", which it validates only at request time. *)

(* The weak invariant DevInvW (specs target current inputs/outputs, configurations registered, num_shards >= 1,
   devices in range, recorded axes pairwise distinct as written) holds along every history that also edits shapes
   freely (ops_okW puts no condition on OSetRank).  DevInv implies DevInvW (Proofs.DevInv_weaken). *)
Theorem C19_invW_reachable : forall ops h, DevInvW h -> ops_okW h ops -> DevInvW (run h ops).
Proof. exact invW_reachable. Qed.
Print Assumptions C19_invW_reachable.

(* The full invariant survives a shape edit exactly under the condition one expects: the new rank still contains
   the axes recorded for that value and keeps them distinct (setrank_ok; always true for "shape unknown":
   Proofs3.setrank_ok_unknown).  With this clause ops_ok lets C19_inv_reachable range over shape edits too. *)
Theorem C19_shape_edit_keeps_inv : forall h v r, DevInv h -> setrank_ok h v r -> DevInv (set_rank h v r).
Proof. exact set_rank_inv. Qed.
Print Assumptions C19_shape_edit_keeps_inv.

(* On a DevInvW state the library's check can only complain about axes: out of range (7) or repeated (8). *)
Theorem C19_check_weak : forall h, DevInvW h -> names_nonempty h -> Forall axis_err (check h).
Proof. exact check_weak. Qed.
Print Assumptions C19_check_weak.

(* ... and it does: what happens to the recorded axes after an arbitrary shape edit is unspecified by the library
   (witness: x of rank 2 sharded along -1 and 0, shape edited to rank 1 — both axes now denote axis 0). *)
Theorem C19_shape_edit_unspecified :
  exists h v r, DevInv h /\ ~ DevInv (set_rank h v r) /\ DevInvW (set_rank h v r)
                /\ check (set_rank h v r) = [(8, 0, 0)].
Proof. exact shape_edit_unspecified. Qed.
Print Assumptions C19_shape_edit_unspecified.


(* ---- the model is the source (second deepening round) ----
   Gen/C19Gen.v is regenerated on every run from /repo: every test / filter / merge inside Node.shard,
   set_pipeline_stage, sharding_of, _drop_sharding_for_value and Model.remove_device_configuration (+ cascade) is
   translated expression by expression (`is` -> identity of the modelled object, ==/!=/in on the frozen dataclass
   -> field equality c_equal, on Value -> identity as in Python); the loop skeletons and the remaining modelled
   methods are statement-pinned.  The ops of the hand model ARE the methods re-assembled from the translation: *)
Theorem C19_model_is_translation : forall h o,
  match o with
  | OShard n v c axis shards devs stage => exec h o = on_node h n (fun nd => gen_shard_nd nd v c axis shards devs stage)
  | OStage n c s => exec h o = on_node h n (fun nd => gen_stage_nd nd c s)
  | ORemCfgObj c cascade => exec h o = gen_remove_cfg_obj h c cascade
  | ORemCfgName name cascade => exec h o = gen_remove_cfg_name h name cascade
  | _ => True
  end.
Proof. exact gen_exec_annotation_ops. Qed.
Print Assumptions C19_model_is_translation.

Theorem C19_drop_is_translation : forall nd v,
  gen_drop_for nd v = drop_for nd v /\ gen_sharding_of nd v = sharding_of nd v.
Proof. intros nd v. split; [apply gen_drop_for_eq | apply gen_sharding_of_eq]. Qed.
Print Assumptions C19_drop_is_translation.

(* Configurations are recognised by identity, not equality: removing by an object that is not registered is
   rejected without effect — also when an EQUAL object (same name and num_devices) is registered
   (Example GenEquiv.equal_is_not_identical; the request with the registered object itself cascades). *)
Theorem C19_configurations_by_identity : forall h c cascade,
  ~ In c (s_cfgs h) -> exec h (ORemCfgObj c cascade) = (h, Raise ValueError).
Proof. exact remove_unregistered_rejected. Qed.
Print Assumptions C19_configurations_by_identity.

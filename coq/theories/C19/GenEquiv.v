(* C19/GenEquiv.v — the hand model (C19/Model.v) equals the methods re-assembled from the decision sites translated
   from /repo on every run (Gen/C19Gen.v).  The loop skeletons (for/else over the node's configurations and specs,
   the cascade over all nodes) are hand-written here and statement-pinned in harness/props/_c19_gen.py; every test,
   filter and merge inside them is the generated one. *)
From Coq Require Import ZArith List Bool Lia.
From IRV Require Import Base.Exn C19.Model C19.Proofs Gen.C19Gen.
Import ListNotations.
Open Scope Z_scope.

Lemma c_eqb_sym a b : c_eqb a b = c_eqb b a.
Proof.
  destruct (c_eqb a b) eqn:E.
  - apply c_eqb_eq in E. subst. symmetry. apply c_eqb_refl.
  - destruct (c_eqb b a) eqn:E2; [|reflexivity]. apply c_eqb_eq in E2. subst. rewrite c_eqb_refl in E. discriminate.
Qed.

Lemma existsb_ext {A} (f g : A -> bool) l : (forall x, f x = g x) -> existsb f l = existsb g l.
Proof. intros H. induction l as [|x l IH]; simpl; [reflexivity|]. rewrite H, IH. reflexivity. Qed.

(* ---------------------------------------------------------------- Model.remove_device_configuration *)
Definition gen_remove_cfg (h : state) (target : cfgobj) (by_name cascade : bool) : state * res unit :=
  (with_cfgs_nodes h (gen_rem_filter (s_cfgs h) target)
     (if cascade
      then map (fun p => (fst p, with_dc (snd p)
                  (filter (fun config => negb (gen_is_target target by_name config)) (n_dc (snd p))))) (s_nodes h)
      else s_nodes h) (s_nextc h), Ok tt).
Definition gen_remove_cfg_obj (h : state) (c : cfgobj) (cascade : bool) : state * res unit :=
  if gen_rem_unregistered (s_cfgs h) c then (h, Raise ValueError) else gen_remove_cfg h c false cascade.
Definition gen_remove_cfg_name (h : state) (name : str) (cascade : bool) : state * res unit :=
  match find (fun e => gen_rem_name_match e name) (s_cfgs h) with
  | Some t => gen_remove_cfg h t true cascade
  | None => (h, Raise ValueError)
  end.

Lemma gen_is_target_eq target by_name dc :
  gen_is_target target by_name dc
  = c_eqb (dc_cfg dc) target || (by_name && str_eqb (c_name (dc_cfg dc)) (c_name target)).
Proof. unfold gen_is_target. destruct (c_eqb (dc_cfg dc) target); reflexivity. Qed.

Lemma gen_remove_cfg_eq h t by_name cascade : gen_remove_cfg h t by_name cascade = remove_cfg h t by_name cascade.
Proof.
  unfold gen_remove_cfg, remove_cfg, gen_rem_filter, cascade_nodes.
  destruct cascade; [|reflexivity].
  assert (E : map (fun p : Z * node => (fst p, with_dc (snd p)
                     (filter (fun config => negb (gen_is_target t by_name config)) (n_dc (snd p))))) (s_nodes h)
              = map (fun p : Z * node => (fst p, with_dc (snd p)
                     (filter (fun dc => negb (c_eqb (dc_cfg dc) t || (by_name && str_eqb (c_name (dc_cfg dc)) (c_name t))))
                             (n_dc (snd p))))) (s_nodes h)).
  { apply map_ext. intros p.
    rewrite (filter_ext (fun config => negb (gen_is_target t by_name config))
                        (fun dc => negb (c_eqb (dc_cfg dc) t || (by_name && str_eqb (c_name (dc_cfg dc)) (c_name t)))));
      [reflexivity|]. intros dc. rewrite gen_is_target_eq. reflexivity. }
  rewrite E. reflexivity.
Qed.

Lemma gen_remove_cfg_obj_eq h c cascade : gen_remove_cfg_obj h c cascade = remove_cfg_obj h c cascade.
Proof.
  unfold gen_remove_cfg_obj, remove_cfg_obj, gen_rem_unregistered.
  rewrite (existsb_ext (fun x => c_eqb x c) (c_eqb c)) by (intros x; apply c_eqb_sym).
  destruct (existsb (c_eqb c) (s_cfgs h)); simpl; [apply gen_remove_cfg_eq | reflexivity].
Qed.

Lemma gen_remove_cfg_name_eq h name cascade : gen_remove_cfg_name h name cascade = remove_cfg_name h name cascade.
Proof.
  unfold gen_remove_cfg_name, remove_cfg_name, gen_rem_name_match.
  destruct (find _ (s_cfgs h)); [apply gen_remove_cfg_eq | reflexivity].
Qed.

(* ---------------------------------------------------------------- Node.set_pipeline_stage / sharding_of / drop *)
Fixpoint gen_stage_dcs (c : cfgobj) (s : Z) (dcs : list ndc) : list ndc :=
  match dcs with
  | [] => [mkDC c (Some s) []]
  | dc :: r => if gen_stage_match dc c then mkDC (dc_cfg dc) (Some s) (dc_specs dc) :: r else dc :: gen_stage_dcs c s r
  end.
Definition gen_stage_nd (nd : node) (c : cfgobj) (s : Z) : res node :=
  if gen_stage_negative s then Raise ValueError else Ok (with_dc nd (gen_stage_dcs c s (n_dc nd))).

Lemma gen_stage_nd_eq nd c s : gen_stage_nd nd c s = stage_nd nd c s.
Proof.
  assert (E : forall dcs, gen_stage_dcs c s dcs = stage_dcs c s dcs).
  { induction dcs as [|dc r IH]; simpl; [reflexivity|]. unfold gen_stage_match. rewrite IH. reflexivity. }
  unfold gen_stage_nd, stage_nd, gen_stage_negative. rewrite E. reflexivity.
Qed.

Definition gen_sharding_of (nd : node) (v : valobj) : list spec :=
  flat_map (fun dc => filter (fun sp => gen_sharding_match sp v) (dc_specs dc)) (n_dc nd).
Lemma gen_sharding_of_eq nd v : gen_sharding_of nd v = sharding_of nd v.
Proof. reflexivity. Qed.

Definition gen_drop_for (nd : node) (v : valobj) : node :=
  if gen_drop_still_io (io nd) v then nd
  else with_dc nd (map (fun dc => mkDC (dc_cfg dc) (dc_stage dc) (gen_drop_kept dc v)) (n_dc nd)).
Lemma gen_drop_for_eq nd v : gen_drop_for nd v = drop_for nd v.
Proof. reflexivity. Qed.

(* ---------------------------------------------------------------- Node.shard *)
Fixpoint gen_merge_specs (v : valobj) (d : sdim) (devs : list Z) (specs : list spec) : res (list spec) :=
  match specs with
  | [] => Ok [mkS v devs [d]]
  | sp :: r =>
      if gen_shard_spec_skip sp v
      then match gen_merge_specs v d devs r with Ok r' => Ok (sp :: r') | Raise e => Raise e end
      else if gen_shard_axis_repeated (v_rank v) (sd_axis d) sp then Raise ValueError
      else Ok (mkS (sp_val sp) (gen_shard_merged_devices sp devs) (sp_dims sp ++ [d]) :: r)
  end.

Fixpoint gen_shard_dcs (c : cfgobj) (v : valobj) (d : sdim) (devs : list Z) (stage : option Z)
         (dcs : list ndc) : res (list ndc) :=
  match dcs with
  | [] => Ok [mkDC c stage [mkS v devs [d]]]
  | dc :: r =>
      if gen_shard_cfg_skip dc c
      then match gen_shard_dcs c v d devs stage r with Ok r' => Ok (dc :: r') | Raise e => Raise e end
      else if gen_shard_stage_conflict stage dc then Raise ValueError
      else match gen_merge_specs v d devs (dc_specs dc) with
           | Ok specs => Ok (mkDC (dc_cfg dc) (gen_shard_stage stage dc) specs :: r)
           | Raise e => Raise e
           end
  end.

Definition gen_shard_nd (nd : node) (v : valobj) (c : cfgobj) (axis shards : Z) (devs : list Z)
           (stage : option Z) : res node :=
  if gen_shard_not_io (io nd) v then Raise ValueError
  else if gen_shard_few shards then Raise ValueError
  else if gen_shard_neg_stage stage then Raise ValueError
  else if gen_shard_out_of_range (v_rank v) axis then Raise ValueError
  else match gen_shard_dcs c v (mkD axis shards) devs stage (n_dc nd) with
       | Ok dcs => Ok (with_dc nd dcs)
       | Raise e => Raise e
       end.

Lemma gen_merge_specs_eq v d devs specs : gen_merge_specs v d devs specs = merge_specs v d devs specs.
Proof.
  induction specs as [|sp r IH]; simpl; [reflexivity|]. unfold gen_shard_spec_skip.
  destruct (v_eqb (sp_val sp) v); simpl; [|rewrite IH; reflexivity].
  unfold gen_shard_axis_repeated, gen_shard_merged_devices, zmem. reflexivity.
Qed.

Lemma gen_shard_dcs_eq c v d devs stage dcs : gen_shard_dcs c v d devs stage dcs = shard_dcs c v d devs stage dcs.
Proof.
  induction dcs as [|dc r IH]; simpl; [reflexivity|]. unfold gen_shard_cfg_skip.
  destruct (c_eqb (dc_cfg dc) c); simpl; [|rewrite IH; reflexivity].
  replace (gen_shard_stage_conflict stage dc) with (stage_conflict stage (dc_stage dc))
    by (unfold gen_shard_stage_conflict, stage_conflict; destruct stage, (dc_stage dc); reflexivity).
  destruct (stage_conflict stage (dc_stage dc)); [reflexivity|]. rewrite gen_merge_specs_eq.
  unfold gen_shard_stage. destruct stage; reflexivity.
Qed.

Lemma gen_shard_nd_eq nd v c axis shards devs stage :
  gen_shard_nd nd v c axis shards devs stage = shard_nd nd v c axis shards devs stage.
Proof.
  unfold gen_shard_nd, shard_nd, gen_shard_not_io, in_io_b, gen_shard_few, gen_shard_neg_stage.
  destruct (existsb (v_eqb v) (io nd)); simpl; [|reflexivity]. destruct (shards <? 1); [reflexivity|].
  destruct (match stage with Some s => s <? 0 | None => false end); [reflexivity|].
  replace (gen_shard_out_of_range (v_rank v) axis) with (negb (in_range (v_rank v) axis))
    by (unfold gen_shard_out_of_range, in_range; destruct (v_rank v); reflexivity).
  destruct (negb (in_range (v_rank v) axis)); [reflexivity|]. rewrite gen_shard_dcs_eq. reflexivity.
Qed.

(* ---------------------------------------------------------------- the ops, re-assembled *)
Lemma on_node_ext h n f g : (forall nd, f nd = g nd) -> on_node h n f = on_node h n g.
Proof. intros H. unfold on_node. destruct (get_node h n); [|reflexivity]. rewrite H. reflexivity. Qed.

Theorem gen_exec_annotation_ops h o :
  match o with
  | OShard n v c axis shards devs stage => exec h o = on_node h n (fun nd => gen_shard_nd nd v c axis shards devs stage)
  | OStage n c s => exec h o = on_node h n (fun nd => gen_stage_nd nd c s)
  | ORemCfgObj c cascade => exec h o = gen_remove_cfg_obj h c cascade
  | ORemCfgName name cascade => exec h o = gen_remove_cfg_name h name cascade
  | _ => True
  end.
Proof.
  destruct o; try exact I; unfold exec.
  - apply on_node_ext. intros nd. symmetry. apply gen_shard_nd_eq.
  - apply on_node_ext. intros nd. symmetry. apply gen_stage_nd_eq.
  - symmetry. apply gen_remove_cfg_obj_eq.
  - symmetry. apply gen_remove_cfg_name_eq.
Qed.

(* ---------------------------------------------------------------- identity, not equality *)
(* remove_device_configuration(by object) recognises the configuration by IDENTITY: an object that is not registered
   is rejected with the state unchanged even when an equal (same name, same num_devices) object is registered *)
Lemma remove_unregistered_rejected h c cascade :
  ~ In c (s_cfgs h) -> exec h (ORemCfgObj c cascade) = (h, Raise ValueError).
Proof.
  intros Hn. simpl. unfold remove_cfg_obj.
  destruct (existsb (c_eqb c) (s_cfgs h)) eqn:E; [|reflexivity].
  apply existsb_exists in E. destruct E as [x [Hx Heq]]. apply c_eqb_eq in Heq. subst. contradiction.
Qed.

Definition idn_x := mkV 0 (Some 2).
Definition idn_h0 : state :=
  mkSt [(0, [120]); (1, [121])] [(0, mkN [Some idn_x] [mkV 1 None] [])] [idn_x] [] 2 0 11 (mkSc 1 [] []).
Definition idn_c := mkC 0 [116; 112] 2.            (* the registered object *)
Definition idn_foreign := mkC 7 [116; 112] 2.      (* equal fields, another object *)

Example equal_is_not_identical :
  let h := run idn_h0 [OAddCfg [116; 112] 2; OShard 0 idn_x idn_c 0 2 [0; 1] None] in
  In idn_c (s_cfgs h) /\ c_equal idn_foreign idn_c = true /\ idn_foreign <> idn_c
  /\ exec h (ORemCfgObj idn_foreign true) = (h, Raise ValueError)
  /\ map (fun p => map dc_cfg (n_dc (snd p))) (s_nodes (fst (exec h (ORemCfgObj idn_c true)))) = [[]]
  /\ s_cfgs (fst (exec h (ORemCfgObj idn_c true))) = [].
Proof. vm_compute. repeat split; try (left; reflexivity); discriminate. Qed.

(* C19/Proofs3.v — rejection frame, invalid requests are rejected, serialized references, examples. *)
From Coq Require Import ZArith List Bool Lia ZifyBool.
From IRV Require Import Base.Exn C19.Model C19.Proofs C19.Proofs2.
Import ListNotations.
Open Scope Z_scope.

(* ------------------------------------------------------------------ every rejection leaves the state unchanged *)
Lemma on_node_raise h n f h' e : on_node h n f = (h', Raise e) -> h' = h.
Proof.
  unfold on_node. destruct (get_node h n); [|intros [= <-]; reflexivity].
  destruct (f n0); [discriminate|]. intros [= <-]. reflexivity.
Qed.

Lemma reject_frame h o h' e : exec h o = (h', Raise e) -> h' = h.
Proof.
  destruct o; simpl; try (apply on_node_raise).
  - unfold add_cfg. destruct (str_empty name); [intros [= <-]; reflexivity|].
    destruct (existsb _ _); [intros [= <-]; reflexivity|]. destruct (ndev <? 1); [intros [= <-]; reflexivity|discriminate].
  - unfold remove_cfg_obj, remove_cfg. destruct (existsb _ _); [discriminate|intros [= <-]; reflexivity].
  - unfold remove_cfg_name, remove_cfg. destruct (find _ _); [discriminate|intros [= <-]; reflexivity].
  - discriminate.
  - unfold resize_outputs. destruct (get_node h n); [|intros [= <-]; reflexivity].
    destruct (k <? 0); [intros [= <-]; reflexivity|]. destruct (_ <? _)%nat; [|discriminate].
    destruct (existsb _ _); [intros [= <-]; reflexivity|discriminate].
  - unfold remove_node. destruct (get_node h n); [|intros [= <-]; reflexivity].
    destruct (existsb _ _); [intros [= <-]; reflexivity|discriminate].
  - unfold clone. destruct (clone_nodes _ _ _ _ _ _ _) as [[[a b] c]|]; [|intros [= <-]; reflexivity].
    destruct (clone_nodes _ _ _ _ _ _ _) as [[[a2 b2] c2]|]; [discriminate|intros [= <-]; reflexivity].
  - discriminate.
  - unfold roundtrip. destruct (rt_domain h); simpl; [|intros [= <-]; reflexivity].
    destruct (ser_model h); [discriminate|]. intros [= <-]. reflexivity.
Qed.

(* ------------------------------------------------------------------ invalid requests are rejected *)
(* the request conflicts with what the node already records for (configuration c, value v) *)
Definition shard_conflict (nd : node) (v : valobj) (c : cfgobj) (axis : Z) (stage : option Z) : Prop :=
  exists dc, find (fun dc => c_eqb (dc_cfg dc) c) (n_dc nd) = Some dc /\
    (stage_conflict stage (dc_stage dc) = true \/
     exists sp, find (fun sp => v_eqb (sp_val sp) v) (dc_specs dc) = Some sp /\
       existsb (fun e => normalize (v_rank v) (sd_axis e) =? normalize (v_rank v) axis) (sp_dims sp) = true).

Definition shard_invalid (nd : node) (v : valobj) (c : cfgobj) (axis shards : Z) (stage : option Z) : Prop :=
  ~ In v (io nd) \/ shards < 1 \/ (exists s, stage = Some s /\ s < 0)
  \/ in_range (v_rank v) axis = false \/ shard_conflict nd v c axis stage.

Lemma merge_specs_repeat v d devs specs sp :
  find (fun sp => v_eqb (sp_val sp) v) specs = Some sp ->
  existsb (fun e => normalize (v_rank v) (sd_axis e) =? normalize (v_rank v) (sd_axis d)) (sp_dims sp) = true ->
  merge_specs v d devs specs = Raise ValueError.
Proof.
  induction specs as [|x r IH]; simpl; [discriminate|]. destruct (v_eqb (sp_val x) v).
  - intros [= ->] E. rewrite E. reflexivity.
  - intros F E. rewrite (IH F E). reflexivity.
Qed.

Lemma shard_dcs_conflict c v d devs stage dcs dc :
  find (fun dc => c_eqb (dc_cfg dc) c) dcs = Some dc ->
  (stage_conflict stage (dc_stage dc) = true \/
   exists sp, find (fun sp => v_eqb (sp_val sp) v) (dc_specs dc) = Some sp /\
     existsb (fun e => normalize (v_rank v) (sd_axis e) =? normalize (v_rank v) (sd_axis d)) (sp_dims sp) = true) ->
  shard_dcs c v d devs stage dcs = Raise ValueError.
Proof.
  induction dcs as [|x r IH]; simpl; [discriminate|]. destruct (c_eqb (dc_cfg x) c).
  - intros [= ->] [H|[sp [F E]]].
    + rewrite H. reflexivity.
    + destruct (stage_conflict stage (dc_stage dc)); [reflexivity|]. rewrite (merge_specs_repeat _ _ _ _ _ F E). reflexivity.
  - intros F H. rewrite (IH F H). reflexivity.
Qed.

Lemma shard_nd_invalid nd v c axis shards devs stage :
  shard_invalid nd v c axis shards stage -> shard_nd nd v c axis shards devs stage = Raise ValueError.
Proof.
  unfold shard_nd. intros H.
  destruct (in_io_b nd v) eqn:Hio; simpl; [|reflexivity]. apply in_io_b_In in Hio.
  destruct (shards <? 1) eqn:Hs; [reflexivity|].
  destruct (match stage with Some s => s <? 0 | None => false end) eqn:Hst; [reflexivity|].
  destruct (in_range (v_rank v) axis) eqn:Hr; simpl; [|reflexivity].
  destruct H as [H|[H|[[s [-> H]]|[H|[dc [F H]]]]]]; try contradiction; try lia; try congruence.
  rewrite (shard_dcs_conflict c v (mkD axis shards) devs stage (n_dc nd) dc F H). reflexivity.
Qed.

Lemma invalid_shard_rejected h n nd v c axis shards devs stage :
  get_node h n = Some nd -> shard_invalid nd v c axis shards stage ->
  exec h (OShard n v c axis shards devs stage) = (h, Raise ValueError).
Proof.
  intros G H. simpl. unfold on_node. rewrite G. rewrite (shard_nd_invalid _ _ _ _ _ devs _ H). reflexivity.
Qed.

Lemma invalid_stage_rejected h n nd c s :
  get_node h n = Some nd -> s < 0 -> exec h (OStage n c s) = (h, Raise ValueError).
Proof.
  intros G H. simpl. unfold on_node, stage_nd. rewrite G. assert (E : s <? 0 = true) by lia. rewrite E. reflexivity.
Qed.

(* ------------------------------------------------------------------ serialized references are the current names *)
Lemma ser_current_names h dc p :
  ser_dc h dc = Ok p ->
  p = (c_name (dc_cfg dc), dc_stage dc,
       map (fun sp => (name_of h (sp_val sp), sp_dev sp, map (fun d => (sd_axis d, sd_shards d)) (sp_dims sp)))
           (dc_specs dc))
  /\ c_name (dc_cfg dc) <> [] /\ Forall (fun sp => name_of h (sp_val sp) <> []) (dc_specs dc).
Proof.
  unfold ser_dc, ser_dc_ok. destruct (negb (str_empty (c_name (dc_cfg dc)))) eqn:E1; simpl; [|discriminate].
  destruct (forallb _ (dc_specs dc)) eqn:E2; [|discriminate]. intros [= <-]. split; [reflexivity|]. split.
  - destruct (c_name (dc_cfg dc)); [discriminate | congruence].
  - rewrite forallb_forall in E2. apply Forall_forall. intros sp Hsp. specialize (E2 sp Hsp).
    destruct (name_of h (sp_val sp)); [discriminate | congruence].
Qed.

Lemma name_of_rename_same h v nm : name_of (rename h v nm) v = nm.
Proof. unfold name_of, rename. simpl. rewrite Z.eqb_refl. reflexivity. Qed.

Lemma name_of_rename_other h v nm w : v_id w <> v_id v -> name_of (rename h v nm) w = name_of h w.
Proof.
  intros H. unfold name_of, rename. simpl. assert (E : v_id v =? v_id w = false) by lia. rewrite E. reflexivity.
Qed.

(* the reference follows a rename: the annotations are untouched and the serialized name is the new one *)
Lemma ser_follows_rename h v nm sp :
  sp_val sp = v -> ser_spec (rename h v nm) sp = (nm, sp_dev sp, map (fun d => (sd_axis d, sd_shards d)) (sp_dims sp)).
Proof. intros E. unfold ser_spec. rewrite E, name_of_rename_same. reflexivity. Qed.

(* round trip below IR 11: every annotation (at every nesting depth) and every configuration is dropped *)
Lemma roundtrip_old_ir h h' :
  s_ir h < MULTI_DEVICE_SUPPORTED_VERSION -> roundtrip h = (h', Ok tt) ->
  s_cfgs h' = [] /\ Forall (fun p => n_dc (snd p) = []) (s_nodes h') /\ DevInv h'.
Proof.
  intros Hir R. destruct (rt_domain h) eqn:D; [|unfold roundtrip in R; rewrite D in R; discriminate].
  destruct (ser_ok h) eqn:S; [|unfold roundtrip, ser_model in R; rewrite D, S in R; discriminate].
  rewrite (roundtrip_old_ir_state h D S Hir) in R. injection R as <-. simpl.
  assert (F : Forall (fun p : Z * node => n_dc (snd p) = [])
                (map (fun p : Z * node => (fst p, with_dc (snd p) [])) (s_nodes h))).
  { rewrite Forall_map. apply Forall_forall. intros p _. reflexivity. }
  split; [reflexivity|]. split; [exact F|]. apply inv_initial; [reflexivity | exact F].
Qed.

(* the serialized model names every reference by the CURRENT name of the object *)
Lemma ser_model_current_names h p :
  ser_model h = Ok p ->
  mp_cfgs p = (if s_ir h <? MULTI_DEVICE_SUPPORTED_VERSION then [] else map (fun c => (c_name c, c_ndev c)) (s_cfgs h))
  /\ mp_nodes p = map (fun q => (fst q, if rt_keep h (fst q) then map (ser_dc_raw h) (n_dc (snd q)) else [])) (s_nodes h).
Proof. unfold ser_model. destruct (ser_ok h); simpl; [|discriminate]. intros [= <-]. split; reflexivity. Qed.

(* ------------------------------------------------------------------ examples: the hypotheses are satisfiable *)
Definition ex_x := mkV 0 (Some 2).
Definition ex_y := mkV 1 None.
Definition ex_z := mkV 2 (Some 1).
Definition ex_h0 : state :=
  mkSt [(0, [120]); (1, [121]); (2, [122])]
       [(0, mkN [Some ex_x; None] [ex_y] []); (1, mkN [Some ex_y; Some ex_x] [ex_z] [])]
       [ex_x] [] 3 0 11 (mkSc 1 [] []).
Definition ex_c := mkC 0 [99] 2.
Definition ex_ops : list op :=
  [OAddCfg [99] 2;
   OShard 0 ex_x ex_c (-1) 2 [0; 1] None;
   OShard 0 ex_x ex_c 0 2 [1] (Some 1);
   OShard 1 ex_y ex_c 5 3 [] None;
   OStage 1 ex_c 0;
   ORename ex_x [119; 119];
   OReplaceInput 0 0 None;
   OClone true false;
   ORoundTrip;
   ORemCfgName [99] true].

Example ex_h0_inv : DevInv ex_h0.
Proof. apply inv_initial; [reflexivity|]. repeat constructor. Qed.

Example ex_ops_ok : ops_ok ex_h0 ex_ops.
Proof.
  unfold ex_ops. simpl.
  repeat split; auto; try (left; reflexivity); try (unfold MULTI_DEVICE_SUPPORTED_VERSION; lia);
    try (unfold devs_ok; repeat constructor; simpl; lia).
Qed.

(* after the first five ops node 0 shards x on two axes and node 1 shards y; the check is silent *)
Example ex_annotated :
  let h := run ex_h0 (firstn 5 ex_ops) in
  map (fun p => length (n_dc (snd p))) (s_nodes h) = [1%nat; 1%nat] /\ check h = []
  /\ sharding_of (snd (nth 0 (s_nodes h) (0, mkN [] [] []))) ex_x
     = [mkS ex_x [0; 1] [mkD (-1) 2; mkD 0 2]].
Proof. vm_compute. repeat split. Qed.

(* replacing input 0 of node 0 drops the sharding of x there; node 1 keeps y; clone and round trip keep it *)
Example ex_after_edit :
  let h := run ex_h0 (firstn 9 ex_ops) in
  map (fun p => map (fun dc => length (dc_specs dc)) (n_dc (snd p))) (s_nodes h) = [[0%nat]; [1%nat]]
  /\ check h = [] /\ ser_all h = [(0, [Ok ([99], Some 1, [])]); (1, [Ok ([99], Some 0, [([121], [], [(5, 3)])])])].
Proof. vm_compute. repeat split. Qed.

Example ex_invalid_rejected :
  let h := run ex_h0 (firstn 5 ex_ops) in
  map (fun o => snd (exec h o))
      [OShard 0 ex_x ex_c 1 2 [] None;      (* axis 1 = axis -1 of a rank-2 value: repeated *)
       OShard 0 ex_x ex_c 2 2 [] None;      (* out of range *)
       OShard 0 ex_y ex_c 0 0 [] None;      (* fewer than one shard *)
       OShard 0 ex_z ex_c 0 2 [] None;      (* not an input/output of node 0 *)
       OShard 0 ex_y ex_c 0 2 [] (Some 2);  (* conflicting stage *)
       OStage 0 ex_c (-1)]
  = [Raise ValueError; Raise ValueError; Raise ValueError; Raise ValueError; Raise ValueError; Raise ValueError].
Proof. vm_compute. reflexivity. Qed.

(* documented behaviour (remove_device_configuration docstring), not a finding: without cascade the node
   references dangle, DevInv's configuration clause fails and the library's check reports kind 3 *)
Lemma noncascade_breaks :
  exists h o, DevInv h /\ ~ op_ok h o /\ ~ DevInv (fst (exec h o)) /\ check (fst (exec h o)) = [(3, 0, 0)].
Proof.
  exists (run ex_h0 (firstn 2 ex_ops)), (ORemCfgObj ex_c false). split; [|split; [|split]].
  - apply inv_reachable; [exact ex_h0_inv|]. simpl. repeat split; auto; try (left; reflexivity).
    unfold devs_ok. repeat constructor; simpl; lia.
  - simpl. discriminate.
  - intros [_ Hn]. vm_compute in Hn. inversion Hn as [|? ? Hnd _]; subst. inversion Hnd as [|? ? [Hc _] _]; subst.
    exact Hc.
  - vm_compute. reflexivity.
Qed.

Lemma drop_resize_inputs_state h n k h' :
  exec h (OResizeIn n k) = (h', Ok tt) ->
  exists nd nd', get_node h n = Some nd /\ get_node h' n = Some nd'
  /\ (forall w, sharding_of nd' w = if in_io_b nd w && negb (in_io_b nd' w) then [] else sharding_of nd w)
  /\ (forall m, m <> n -> get_node h' m = get_node h m).
Proof.
  simpl. unfold on_node. destruct (get_node h n) as [nd|] eqn:G; [|discriminate].
  destruct (resize_inputs_nd nd k) as [nd'|e] eqn:R; [|discriminate]. intros [= <-].
  exists nd, nd'. split; [reflexivity|]. split; [eapply get_set_node_same; exact G|].
  split; [exact (drop_resize_inputs _ _ _ R)|]. intros m Hm. apply get_set_node_other. exact Hm.
Qed.

(* ------------------------------------------------------------------ nested scopes *)
(* what a successful lookup through the scope stack means: the value is declared, under that name, in the
   innermost enclosing scope that declares the name at all *)
Inductive resolves_at (h : state) (nm : str) : Z -> valobj -> Prop :=
| res_here s v : In v (decl h s) -> name_of h v = nm -> resolves_at h nm s v
| res_up s p v : (forall w, In w (decl h s) -> name_of h w <> nm) -> parent_of h s = Some p ->
                 resolves_at h nm p v -> resolves_at h nm s v.

Lemma resolve_chain_sound h nm : forall fuel s v, resolve_chain h fuel s nm = Some v -> resolves_at h nm s v.
Proof.
  induction fuel as [|f IH]; intros s v; simpl;
    destruct (find (fun x => str_eqb (name_of h x) nm) (decl h s)) as [x|] eqn:E.
  - intros [= <-]. apply find_some in E. destruct E as [A B]. apply str_eqb_eq in B. apply res_here; assumption.
  - discriminate.
  - intros [= <-]. apply find_some in E. destruct E as [A B]. apply str_eqb_eq in B. apply res_here; assumption.
  - destruct (parent_of h s) as [p|] eqn:P; [|discriminate]. intros R. eapply res_up; [|exact P|apply IH; exact R].
    intros w Hw Hn. pose proof (find_none _ _ E w Hw) as F. simpl in F.
    assert (str_eqb (name_of h w) nm = true) by (apply str_eqb_eq; exact Hn). congruence.
Qed.

Lemma resolve_sound h s nm v : resolve h s nm = Some v -> resolves_at h nm s v.
Proof. apply resolve_chain_sound. Qed.

(* main graph: inputs x "x", w "w"; node 0 (If-like) has a body (scope 2) with node 1: inputs [w] captured from
   the main graph, output l named "x" (shadows the outer x inside the body); node 2 (body): input l, output m;
   node 3 has a body (scope 3) nested in scope 2 with node 4: inputs [w; l] captured from two levels up *)
Definition nx := mkV 0 (Some 2).
Definition nw := mkV 1 (Some 2).
Definition nl := mkV 2 (Some 1).
Definition nm_ := mkV 3 None.
Definition nq := mkV 4 None.
Definition ny := mkV 5 None.
Definition nz := mkV 6 None.
Definition nest_h0 : state :=
  mkSt [(0, [120]); (1, [119]); (2, [120]); (3, [109]); (4, [113]); (5, [121]); (6, [122])]
       [(0, mkN [Some nx] [ny] []); (1, mkN [Some nw] [nl] []); (2, mkN [Some nl] [nm_] []);
        (3, mkN [] [nz] []); (4, mkN [Some nw; Some nl] [nq] [])]
       [nx; nw] [] 7 0 11 (mkSc 2 [(1, 2); (2, 2); (3, 2); (4, 3)] [(2, 0); (3, 2)]).
Definition nest_c := mkC 0 [99] 2.
Definition nest_ops : list op :=
  [OAddCfg [99] 2;
   OShard 1 nw nest_c (-1) 2 [0; 1] None;     (* captured outer value *)
   OShard 1 nl nest_c 0 2 [] None;            (* local value whose name shadows the outer "x" *)
   OShard 2 nl nest_c 0 2 [1] (Some 1);
   OShard 4 nw nest_c 1 2 [] None;            (* captured from two levels up *)
   OShard 4 nl nest_c 0 2 [] None;            (* captured from the enclosing body *)
   OShard 0 nx nest_c 0 2 [] None].           (* the outer "x" itself, on the main-graph node *)

Example nest_resolution :
  let h := run nest_h0 nest_ops in
  resolve h 2 [120] = Some nl /\ resolve h 3 [120] = Some nl /\ resolve h 0 [120] = Some nx
  /\ resolve h 3 [119] = Some nw /\ resolve h 0 [109] = None /\ rt_domain h = true /\ check h = [].
Proof. vm_compute. repeat split. Qed.

Example nest_inv : DevInv (run nest_h0 nest_ops).
Proof.
  apply inv_reachable.
  - apply inv_initial; [reflexivity|]. repeat constructor.
  - simpl. repeat split; auto; try (left; reflexivity); unfold devs_ok; repeat constructor; simpl; lia.
Qed.

(* round trip of the nested model: every reference resolves to the very object (also after a clone) *)
Example nest_roundtrip :
  let h := run nest_h0 nest_ops in
  roundtrip h = (h, Ok tt) /\
  (let h2 := fst (clone h true false) in snd (clone h true false) = Ok tt /\ roundtrip h2 = (h2, Ok tt) /\ check h2 = []).
Proof. vm_compute. repeat split. Qed.

(* below IR 11 the nested model loses every annotation, also inside the bodies *)
Definition nest_h0_old : state :=
  mkSt (s_names nest_h0) (s_nodes nest_h0) (s_gin nest_h0) [] 7 0 10 (s_sc nest_h0).
Example nest_old_ir :
  let h := run nest_h0_old nest_ops in
  map (fun p => length (n_dc (snd p))) (s_nodes h) = [1%nat; 1%nat; 1%nat; 0%nat; 1%nat]
  /\ snd (roundtrip h) = Ok tt
  /\ map (fun p => length (n_dc (snd p))) (s_nodes (fst (roundtrip h))) = [0%nat; 0%nat; 0%nat; 0%nat; 0%nat]
  /\ s_cfgs (fst (roundtrip h)) = [] /\ check (fst (roundtrip h)) = [].
Proof. vm_compute. repeat split. Qed.

(* identity of configurations after clone: the clone registers the very same configuration objects, whatever the
   parameters, so the references of the cloned nodes stay registered *)
Lemma clone_same_cfgs h deep allow : s_cfgs (fst (clone h deep allow)) = s_cfgs h.
Proof.
  unfold clone. destruct (clone_nodes _ _ _ _ _ _ _) as [[[a b] c]|]; [|reflexivity].
  destruct (clone_nodes _ _ _ _ _ _ _) as [[[a2 b2] c2]|]; reflexivity.
Qed.

Lemma clone_deep_irrelevant h allow : clone h true allow = clone h false allow.
Proof. reflexivity. Qed.

(* unsorted main graph: node 0 reads the output b of the later node 1, node 1 reads a value d that no graph of the
   model declares.  clone() raises for both reasons; with allow_outer_scope_values the use-before-definition of b
   still raises (the clone never keeps a reference into the original graph), while after rewiring node 0 to the
   graph input the genuinely foreign d is passed through and the annotation on it follows *)
Definition uns_a := mkV 0 (Some 1).
Definition uns_b := mkV 1 (Some 1).
Definition uns_c := mkV 2 None.
Definition uns_d := mkV 3 (Some 2).
Definition uns_h0 : state :=
  mkSt [(0, [97]); (1, [98]); (2, [99]); (3, [100])]
       [(0, mkN [Some uns_b] [uns_c] []); (1, mkN [Some uns_a; Some uns_d] [uns_b] [])]
       [uns_a] [] 4 0 11 (mkSc 1 [] []).
Example uns_clone :
  let h := run uns_h0 [OAddCfg [120] 2; OShard 1 uns_d (mkC 0 [120] 2) 0 2 [] None] in
  let h2 := run h [OReplaceInput 0 0 (Some uns_a)] in
  snd (clone h false false) = Raise RuntimeError /\ snd (clone h true true) = Raise RuntimeError
  /\ snd (clone h2 false false) = Raise RuntimeError /\ snd (clone h2 true true) = Ok tt
  /\ map (fun p => n_in (snd p)) (s_nodes (fst (clone h2 true true)))
     = [[Some (mkV 4 (Some 1))]; [Some (mkV 4 (Some 1)); Some uns_d]]
  /\ sharding_of (snd (nth 1 (s_nodes (fst (clone h2 true true))) (0, mkN [] [] []))) uns_d <> []
  /\ check (fst (clone h2 true true)) = [].
Proof. vm_compute. repeat split; discriminate. Qed.

(* ------------------------------------------------------------------ shape edits after sharding *)
(* x (rank 2) is sharded on node 0 along axes -1 and 0.  Editing its shape to rank 3 keeps everything valid; rank 1
   makes the two recorded axes coincide, rank 0 puts both out of range: the library does not revisit the recorded
   axes, its check reports 8 / 7, and nothing else is affected (DevInvW). *)
Example shape_edit_example :
  let h := run ex_h0 (firstn 3 ex_ops) in
  check (set_rank h ex_x (Some 3)) = [] /\ check (set_rank h ex_x None) = []
  /\ check (set_rank h ex_x (Some 1)) = [(8, 0, 0)] /\ check (set_rank h ex_x (Some 0)) = [(7, 0, -1); (7, 0, 0)].
Proof. vm_compute. repeat split. Qed.

(* forgetting the shape (rank unknown) never invalidates a recorded axis: the hypothesis of the strict shape-edit
   theorem is satisfiable on every DevInv state *)
Lemma setrank_ok_unknown h v : DevInv h -> setrank_ok h v None.
Proof.
  intros [_ Hn] p dc sp Hp Hdc Hsp _. unfold Gen.nodes_ok in Hn. rewrite Forall_forall in Hn.
  specialize (Hn p Hp). unfold Gen.node_ok in Hn. rewrite Forall_forall in Hn. destruct (Hn dc Hdc) as [_ B].
  rewrite Forall_forall in B. destruct (B sp Hsp) as [_ [S2 _]]. eapply dims_ok_weaken. exact S2.
Qed.

Lemma shape_edit_unspecified :
  exists h v r, DevInv h /\ ~ DevInv (set_rank h v r) /\ DevInvW (set_rank h v r)
                /\ check (set_rank h v r) = [(8, 0, 0)].
Proof.
  set (h := run ex_h0 (firstn 3 ex_ops)).
  assert (Hinv : DevInv h).
  { apply inv_reachable; [exact ex_h0_inv|]. simpl. repeat split; auto; try (left; reflexivity);
      unfold devs_ok; repeat constructor; simpl; lia. }
  exists h, ex_x, (Some 1). split; [exact Hinv|]. split; [|split].
  - intros [_ Hn]. vm_compute in Hn. inversion Hn as [|? ? Hnd _]; subst. inversion Hnd as [|? ? [_ Hs] _]; subst.
    inversion Hs as [|? ? [_ [[_ N] _]] _]; subst. vm_compute in N. inversion N as [|? ? Hnot _]; subst.
    apply Hnot. left. reflexivity.
  - apply (exec_invW h (OSetRank ex_x (Some 1))); [apply DevInv_weaken; exact Hinv | exact I].
  - vm_compute. reflexivity.
Qed.

(* cross-root use: the function node 1 reads the main-graph value a.  Model.clone raises (the function's cloner does
   not know a); after rewiring it to the function's own input the clone succeeds *)
Definition xr_a := mkV 0 None.
Definition xr_f := mkV 1 None.
Definition xr_h0 : state :=
  mkSt [(0, [97]); (1, [102]); (2, [98]); (3, [103])]
       [(0, mkN [Some xr_a] [mkV 2 None] []); (1, mkN [Some xr_a] [mkV 3 None] [])]
       [xr_a; xr_f] [] 4 0 11 (mkSc 1 [(0, 0); (1, 1)] []).
Example cross_root_clone :
  snd (clone xr_h0 false false) = Raise RuntimeError /\ snd (clone xr_h0 true true) = Raise RuntimeError
  /\ snd (clone (run xr_h0 [OReplaceInput 1 0 (Some xr_f)]) false false) = Ok tt.
Proof. vm_compute. repeat split. Qed.

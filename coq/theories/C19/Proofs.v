(* C19/Proofs.v — the invariant DevInv and its preservation by every op of the alphabet. *)
From Coq Require Import ZArith List Bool Lia ZifyBool.
From IRV Require Import Base.Exn C19.Model.
Import ListNotations.
Open Scope Z_scope.

(* ------------------------------------------------------------------ equality tests reflect equality *)
Lemma str_eqb_eq a b : str_eqb a b = true <-> a = b.
Proof. apply list_eqb_eq. intros; apply Z.eqb_eq. Qed.

Lemma opt_eqb_eq {A} (eqb : A -> A -> bool) :
  (forall x y, eqb x y = true <-> x = y) -> forall a b, option_eqb eqb a b = true <-> a = b.
Proof.
  intros H [x|] [y|]; simpl; split; intros E; try reflexivity; try discriminate.
  - apply H in E. congruence.
  - inversion E; subst. apply H. reflexivity.
Qed.

Lemma v_eqb_eq a b : v_eqb a b = true <-> a = b.
Proof.
  unfold v_eqb. destruct a as [i r], b as [j s]; simpl. rewrite andb_true_iff, Z.eqb_eq.
  rewrite (opt_eqb_eq Z.eqb Z.eqb_eq). split; [intros [-> ->]; reflexivity | intros E; inversion E; auto].
Qed.
Lemma v_eqb_refl a : v_eqb a a = true. Proof. apply v_eqb_eq. reflexivity. Qed.
Lemma v_eqb_neq a b : v_eqb a b = false <-> a <> b.
Proof. rewrite <- v_eqb_eq. destruct (v_eqb a b); split; congruence. Qed.

Lemma c_eqb_eq a b : c_eqb a b = true <-> a = b.
Proof.
  unfold c_eqb. destruct a as [i n d], b as [j m e]; simpl.
  rewrite !andb_true_iff, !Z.eqb_eq, str_eqb_eq.
  split; [intros [[-> ->] ->]; reflexivity | intros E; inversion E; auto].
Qed.
Lemma c_eqb_refl a : c_eqb a a = true. Proof. apply c_eqb_eq. reflexivity. Qed.

Lemma ov_eqb_eq a b : ov_eqb a b = true <-> a = b.
Proof. apply opt_eqb_eq. apply v_eqb_eq. Qed.

Lemma existsb_v_In v l : existsb (v_eqb v) l = true <-> In v l.
Proof.
  rewrite existsb_exists. split.
  - intros [x [Hx E]]. apply v_eqb_eq in E. subst. exact Hx.
  - intros H. exists v. split; [exact H | apply v_eqb_refl].
Qed.
Lemma in_io_b_In nd v : in_io_b nd v = true <-> In v (io nd).
Proof. apply existsb_v_In. Qed.
Lemma zmem_In x l : zmem x l = true <-> In x l.
Proof.
  unfold zmem. rewrite existsb_exists. split.
  - intros [y [Hy E]]. apply Z.eqb_eq in E. subst. exact Hy.
  - intros H. exists x. split; [exact H | apply Z.eqb_refl].
Qed.

Lemma somes_In {A} (l : list (option A)) x : In x (somes l) <-> In (Some x) l.
Proof.
  induction l as [|[y|] l IH]; simpl.
  - tauto.
  - rewrite IH. split; intros [H|H]; auto; left; congruence.
  - rewrite IH. split; [auto | intros [H|H]; [discriminate | exact H]].
Qed.

Lemma io_In nd w : In w (io nd) <-> In (Some w) (n_in nd) \/ In w (n_out nd).
Proof. unfold io. rewrite in_app_iff, somes_In. tauto. Qed.

(* ------------------------------------------------------------------ the invariant *)
Definition dims_ok (rank : option Z) (dims : list sdim) : Prop :=
  Forall (fun d => in_range rank (sd_axis d) = true /\ 1 <= sd_shards d) dims
  /\ NoDup (map (fun d => normalize rank (sd_axis d)) dims).


(* The invariant is stated relative to a VIEW f of the rank: f = identity gives DevInv (axes within the rank and
   not repeated after normalisation); f = "unknown" gives the weak invariant DevInvW that survives shape edits of
   sharded values (axes pairwise distinct as written).  Everything below is proved once, for every view with the
   two properties f_range / f_norm. *)
Module Gen.
Section RankView.
Variable rk : option Z -> option Z.
Hypothesis f_range : forall r a, in_range r a = true -> in_range (rk r) a = true.
Hypothesis f_norm : forall r a b, normalize (rk r) a = normalize (rk r) b -> normalize r a = normalize r b.

(* P: "is a current input/output of the node" *)
Definition spec_ok (P : valobj -> Prop) (ndev : Z) (sp : spec) : Prop :=
  P (sp_val sp) /\ dims_ok (rk (v_rank (sp_val sp))) (sp_dims sp) /\ Forall (fun d => 0 <= d < ndev) (sp_dev sp).
Definition dc_ok (cfgs : list cfgobj) (P : valobj -> Prop) (dc : ndc) : Prop :=
  In (dc_cfg dc) cfgs /\ Forall (spec_ok P (c_ndev (dc_cfg dc))) (dc_specs dc).
Definition node_ok (cfgs : list cfgobj) (nd : node) : Prop :=
  Forall (dc_ok cfgs (fun v => In v (io nd))) (n_dc nd).
Definition cfgs_ok (cfgs : list cfgobj) : Prop :=
  NoDup (map c_name cfgs) /\ Forall (fun c => c_name c <> []) cfgs.
Definition nodes_ok (cfgs : list cfgobj) (nodes : list (Z * node)) : Prop :=
  Forall (fun p => node_ok cfgs (snd p)) nodes.

(* DevInv: every spec on node n targets a current input/output of n; every node configuration refers to a
   configuration registered on the model (registered names are distinct and non-empty); axes are within the
   rank when known and not repeated after normalisation; num_shards >= 1; device indices are inside
   range(num_devices) of the configuration. *)
Definition DevInv (h : state) : Prop := cfgs_ok (s_cfgs h) /\ nodes_ok (s_cfgs h) (s_nodes h).

Definition devs_ok (c : cfgobj) (devs : list Z) : Prop := Forall (fun d => 0 <= d < c_ndev c) devs.

(* a shape edit keeps the recorded axes of v valid under the view (for the identity view: the new rank still
   contains them and keeps them distinct; for the weak view: always, see setrank_ok_weak) *)
Definition setrank_ok (h : state) (v : valobj) (r : option Z) : Prop :=
  forall p dc sp, In p (s_nodes h) -> In dc (n_dc (snd p)) -> In sp (dc_specs dc) -> sp_val sp = v ->
  dims_ok (rk r) (sp_dims sp).

(* the op alphabet of the invariant theorem (DESIGN §6 C19 reading decisions) *)
Definition op_ok (h : state) (o : op) : Prop :=
  match o with
  | OShard _ _ c _ _ devs _ => In c (s_cfgs h) /\ devs_ok c devs
  | OStage _ c _ => In c (s_cfgs h)
  | ORemCfgObj _ cascade => cascade = true
  | ORemCfgName _ cascade => cascade = true
  | OSetRank v r => setrank_ok h v r
  | _ => True
  end.
Fixpoint ops_ok (h : state) (ops : list op) : Prop :=
  match ops with [] => True | o :: r => op_ok h o /\ ops_ok (fst (exec h o)) r end.

(* ------------------------------------------------------------------ monotonicity *)
Lemma spec_ok_mono (P Q : valobj -> Prop) ndev sp :
  (forall v, P v -> Q v) -> spec_ok P ndev sp -> spec_ok Q ndev sp.
Proof. intros H [A B]. split; auto. Qed.
Lemma dc_ok_mono cfgs (P Q : valobj -> Prop) dc :
  (forall v, P v -> Q v) -> dc_ok cfgs P dc -> dc_ok cfgs Q dc.
Proof.
  intros H [A B]. split; [exact A|]. eapply Forall_impl; [|exact B]. intros sp. apply spec_ok_mono. exact H.
Qed.
Lemma dcs_ok_mono cfgs (P Q : valobj -> Prop) dcs :
  (forall v, P v -> Q v) -> Forall (dc_ok cfgs P) dcs -> Forall (dc_ok cfgs Q) dcs.
Proof. intros H. apply Forall_impl. intros dc. apply dc_ok_mono. exact H. Qed.

Lemma dc_ok_cfgs_mono cfgs cfgs' P dc :
  (In (dc_cfg dc) cfgs -> In (dc_cfg dc) cfgs') -> dc_ok cfgs P dc -> dc_ok cfgs' P dc.
Proof. intros H [A B]. split; auto. Qed.

(* ------------------------------------------------------------------ node lookup / update *)
Lemma get_node_In h n nd : get_node h n = Some nd -> In (n, nd) (s_nodes h).
Proof.
  unfold get_node. destruct (find _ _) as [[m x]|] eqn:E; simpl; [|discriminate].
  intros H; inversion H; subst. apply find_some in E. destruct E as [HIn Heq]. simpl in Heq.
  apply Z.eqb_eq in Heq. subst. exact HIn.
Qed.

Lemma get_node_ok h n nd : nodes_ok (s_cfgs h) (s_nodes h) -> get_node h n = Some nd -> node_ok (s_cfgs h) nd.
Proof.
  intros H G. apply get_node_In in G. unfold nodes_ok in H. rewrite Forall_forall in H.
  apply (H (n, nd)). exact G.
Qed.

Lemma set_node_l_ok cfgs n nd l :
  nodes_ok cfgs l -> node_ok cfgs nd -> nodes_ok cfgs (set_node_l n nd l).
Proof.
  unfold nodes_ok, set_node_l. intros H Hn. rewrite Forall_map. eapply Forall_impl; [|exact H].
  intros [m x] Hx. simpl. destruct (m =? n); simpl; assumption.
Qed.

Lemma on_node_inv h n f :
  (forall nd nd', node_ok (s_cfgs h) nd -> f nd = Ok nd' -> node_ok (s_cfgs h) nd') ->
  DevInv h -> DevInv (fst (on_node h n f)).
Proof.
  intros Hf [Hc Hn]. unfold on_node. destruct (get_node h n) as [nd|] eqn:G; [|split; assumption].
  destruct (f nd) as [nd'|e] eqn:F; simpl; [|split; assumption].
  split; [exact Hc|]. simpl. apply set_node_l_ok; [exact Hn|].
  eapply Hf; [|exact F]. eapply get_node_ok; eassumption.
Qed.

(* ------------------------------------------------------------------ shard *)
Lemma NoDup_snoc {A} (l : list A) x : NoDup l -> ~ In x l -> NoDup (l ++ [x]).
Proof.
  induction l as [|y l IH]; simpl; intros Hd Hn.
  - constructor; [intros []|constructor].
  - inversion Hd; subst. constructor.
    + rewrite in_app_iff. simpl. intros [H|[H|[]]]; [contradiction|]. apply Hn. left. congruence.
    + apply IH; [assumption|]. intros H. apply Hn. right. exact H.
Qed.

Lemma dims_ok_single rank a k : in_range rank a = true -> 1 <= k -> dims_ok rank [mkD a k].
Proof.
  intros H1 H2. split.
  - constructor; [simpl; auto | constructor].
  - simpl. constructor; [intros []| constructor].
Qed.

Lemma dims_ok_snoc rank dims a k :
  dims_ok rank dims -> in_range rank a = true -> 1 <= k ->
  existsb (fun e => normalize rank (sd_axis e) =? normalize rank a) dims = false ->
  dims_ok rank (dims ++ [mkD a k]).
Proof.
  intros [F N] H1 H2 E. split.
  - apply Forall_app. split; [exact F|]. constructor; [simpl; auto | constructor].
  - rewrite map_app. simpl.
    assert (Hnot : ~ In (normalize rank a) (map (fun d => normalize rank (sd_axis d)) dims)).
    { intros HIn. apply in_map_iff in HIn. destruct HIn as [d [Hd HIn]].
      assert (existsb (fun e => normalize rank (sd_axis e) =? normalize rank a) dims = true).
      { apply existsb_exists. exists d. split; [exact HIn | apply Z.eqb_eq; exact Hd]. }
      congruence. }
    apply NoDup_snoc; assumption.
Qed.

Lemma dims_ok_single_f rank a k : in_range rank a = true -> 1 <= k -> dims_ok (rk rank) [mkD a k].
Proof. intros H1 H2. apply dims_ok_single; [apply f_range; exact H1 | exact H2]. Qed.

Lemma existsb_norm_f rank a dims :
  existsb (fun e => normalize rank (sd_axis e) =? normalize rank a) dims = false ->
  existsb (fun e => normalize (rk rank) (sd_axis e) =? normalize (rk rank) a) dims = false.
Proof.
  intros E. destruct (existsb (fun e => normalize (rk rank) (sd_axis e) =? normalize (rk rank) a) dims) eqn:X; [|reflexivity].
  apply existsb_exists in X. destruct X as [e [He Heq]]. apply Z.eqb_eq in Heq. apply f_norm in Heq.
  assert (existsb (fun e => normalize rank (sd_axis e) =? normalize rank a) dims = true).
  { apply existsb_exists. exists e. split; [exact He | apply Z.eqb_eq; exact Heq]. }
  congruence.
Qed.

Lemma merge_specs_ok (P : valobj -> Prop) ndev v a k devs specs specs' :
  Forall (spec_ok P ndev) specs -> P v -> in_range (v_rank v) a = true -> 1 <= k ->
  Forall (fun d => 0 <= d < ndev) devs ->
  merge_specs v (mkD a k) devs specs = Ok specs' -> Forall (spec_ok P ndev) specs'.
Proof.
  intros F Pv Hr Hk Hd. revert specs' F. induction specs as [|sp r IH]; intros specs' F M; simpl in M.
  - inversion M; subst. constructor; [|constructor]. split; [exact Pv|]. split; [|exact Hd].
    simpl. apply dims_ok_single_f; assumption.
  - inversion F as [|? ? Hsp Hr']; subst.
    destruct (v_eqb (sp_val sp) v) eqn:E.
    + apply v_eqb_eq in E.
      destruct (existsb _ (sp_dims sp)) eqn:X; [discriminate|]. inversion M; subst. clear M.
      constructor; [|exact Hr']. destruct Hsp as [A [B C]]. split; [exact A|]. simpl. split.
      * apply dims_ok_snoc; try assumption; [apply f_range; assumption | apply existsb_norm_f; exact X].
      * apply Forall_app. split; [exact C|]. apply Forall_forall. intros x Hx. apply filter_In in Hx.
        rewrite Forall_forall in Hd. apply Hd. tauto.
    + destruct (merge_specs v (mkD a k) devs r) as [r'|e] eqn:R; [|discriminate]. inversion M; subst.
      constructor; [exact Hsp|]. apply IH; [exact Hr' | reflexivity].
Qed.

Lemma shard_dcs_ok cfgs (P : valobj -> Prop) c v a k devs stage dcs dcs' :
  Forall (dc_ok cfgs P) dcs -> In c cfgs -> devs_ok c devs -> P v ->
  in_range (v_rank v) a = true -> 1 <= k ->
  shard_dcs c v (mkD a k) devs stage dcs = Ok dcs' -> Forall (dc_ok cfgs P) dcs'.
Proof.
  intros F Hc Hd Pv Hr Hk. revert dcs' F. induction dcs as [|dc r IH]; intros dcs' F M; simpl in M.
  - inversion M; subst. constructor; [|constructor]. split; [exact Hc|]. simpl.
    constructor; [|constructor]. split; [exact Pv|]. split; [apply dims_ok_single_f; assumption | exact Hd].
  - inversion F as [|? ? Hdc Hr']; subst.
    destruct (c_eqb (dc_cfg dc) c) eqn:E.
    + apply c_eqb_eq in E. destruct (stage_conflict stage (dc_stage dc)); [discriminate|].
      destruct (merge_specs v (mkD a k) devs (dc_specs dc)) as [specs|e] eqn:Ms; [|discriminate].
      inversion M; subst. constructor; [|exact Hr']. destruct Hdc as [A B]. split; [exact A|]. simpl.
      eapply merge_specs_ok; try eassumption.
    + destruct (shard_dcs c v (mkD a k) devs stage r) as [r'|e] eqn:R; [|discriminate]. inversion M; subst.
      constructor; [exact Hdc|]. apply IH; [exact Hr' | reflexivity].
Qed.

Lemma shard_nd_ok cfgs nd v c axis shards devs stage nd' :
  node_ok cfgs nd -> In c cfgs -> devs_ok c devs ->
  shard_nd nd v c axis shards devs stage = Ok nd' -> node_ok cfgs nd'.
Proof.
  unfold shard_nd. intros Hn Hc Hd M.
  destruct (in_io_b nd v) eqn:Hio; simpl in M; [|discriminate].
  destruct (shards <? 1) eqn:Hs; [discriminate|].
  destruct (match stage with Some s => s <? 0 | None => false end); [discriminate|].
  destruct (in_range (v_rank v) axis) eqn:Hr; simpl in M; [|discriminate].
  destruct (shard_dcs c v (mkD axis shards) devs stage (n_dc nd)) as [dcs|e] eqn:S; [|discriminate].
  inversion M; subst. unfold node_ok, with_dc. simpl. unfold io; simpl. fold (io nd).
  eapply shard_dcs_ok; try eassumption.
  - apply in_io_b_In. exact Hio.
  - lia.
Qed.

(* ------------------------------------------------------------------ set_pipeline_stage *)
Lemma stage_dcs_ok cfgs P c s dcs :
  Forall (dc_ok cfgs P) dcs -> In c cfgs -> Forall (dc_ok cfgs P) (stage_dcs c s dcs).
Proof.
  intros F Hc. induction dcs as [|dc r IH]; simpl.
  - constructor; [|constructor]. split; [exact Hc | constructor].
  - inversion F as [|? ? Hdc Hr]; subst. destruct (c_eqb (dc_cfg dc) c).
    + constructor; [|exact Hr]. destruct Hdc as [A B]. split; assumption.
    + constructor; [exact Hdc | apply IH; exact Hr].
Qed.

Lemma stage_nd_ok cfgs nd c s nd' :
  node_ok cfgs nd -> In c cfgs -> stage_nd nd c s = Ok nd' -> node_ok cfgs nd'.
Proof.
  unfold stage_nd. intros Hn Hc M. destruct (s <? 0); [discriminate|]. inversion M; subst.
  unfold node_ok, with_dc; simpl. unfold io; simpl. fold (io nd). apply stage_dcs_ok; assumption.
Qed.

(* ------------------------------------------------------------------ _drop_sharding_for_value *)
Lemma drop_specs_ok cfgs (P : valobj -> Prop) v dcs :
  Forall (dc_ok cfgs P) dcs -> Forall (dc_ok cfgs (fun w => P w /\ w <> v)) (drop_specs v dcs).
Proof.
  intros F. unfold drop_specs. rewrite Forall_map. eapply Forall_impl; [|exact F].
  intros dc [A B]. split; [exact A|]. simpl. apply Forall_forall. intros sp Hsp.
  apply filter_In in Hsp. destruct Hsp as [Hin Hneq]. rewrite Forall_forall in B.
  destruct (B sp Hin) as [B1 B2]. split; [|exact B2]. split; [exact B1|].
  apply negb_true_iff in Hneq. apply v_eqb_neq in Hneq. exact Hneq.
Qed.

Lemma drop_for_io nd v : io (drop_for nd v) = io nd.
Proof. unfold drop_for. destruct (in_io_b nd v); reflexivity. Qed.
Lemma drop_for_in nd v : n_in (drop_for nd v) = n_in nd.
Proof. unfold drop_for. destruct (in_io_b nd v); reflexivity. Qed.
Lemma drop_for_out nd v : n_out (drop_for nd v) = n_out nd.
Proof. unfold drop_for. destruct (in_io_b nd v); reflexivity. Qed.

(* P holds of the targets of the specs of nd (P: "was an input/output before the edit"); every such value
   other than o is still an input/output: after drop_for o the node is consistent again. *)
Lemma drop_for_ok cfgs (P : valobj -> Prop) nd o :
  Forall (dc_ok cfgs P) (n_dc nd) ->
  (forall w, P w -> w <> o -> In w (io nd)) ->
  node_ok cfgs (drop_for nd o).
Proof.
  intros F H. unfold node_ok. rewrite drop_for_io. unfold drop_for.
  destruct (in_io_b nd o) eqn:E.
  - apply in_io_b_In in E. eapply dcs_ok_mono; [|exact F]. intros w Pw.
    destruct (v_eqb w o) eqn:Ew; [apply v_eqb_eq in Ew; subst; exact E | apply v_eqb_neq in Ew; auto].
  - simpl. eapply dcs_ok_mono; [|apply drop_specs_ok; exact F]. intros w [Pw Hne]. auto.
Qed.

(* generalisation to a list of removed values (resize_outputs) *)
Lemma fold_drop_ok cfgs rem : forall (P : valobj -> Prop) nd,
  Forall (dc_ok cfgs P) (n_dc nd) ->
  (forall w, P w -> In w (io nd) \/ In w rem) ->
  node_ok cfgs (fold_left drop_for rem nd).
Proof.
  induction rem as [|r rem IH]; intros P nd F H; simpl.
  - unfold node_ok. eapply dcs_ok_mono; [|exact F]. intros w Pw. destruct (H w Pw) as [A|[]]. exact A.
  - apply (IH (fun w => P w /\ (In w (io nd) \/ w <> r))).
    + unfold drop_for. destruct (in_io_b nd r) eqn:E.
      * eapply dcs_ok_mono; [|exact F]. intros w Pw. split; [exact Pw|].
        destruct (v_eqb w r) eqn:Ew.
        -- apply v_eqb_eq in Ew. subst. left. apply in_io_b_In. exact E.
        -- right. apply v_eqb_neq. exact Ew.
      * simpl. eapply dcs_ok_mono; [|apply drop_specs_ok; exact F]. intros w [Pw Hne]. split; auto.
    + intros w [Pw Hw]. rewrite drop_for_io. destruct Hw as [Hw|Hw]; [left; exact Hw|].
      destruct (H w Pw) as [A|[A|A]]; [left; exact A | congruence | right; exact A].
Qed.

(* ------------------------------------------------------------------ replace_input_with *)
Lemma set_nth_In_or {A} (d : A) i y l x :
  In x l -> In x (set_nth i y l) \/ ((i < length l)%nat /\ x = nth i l d).
Proof.
  revert i. induction l as [|z l IH]; intros i H; simpl in *; [contradiction|].
  destruct i as [|i].
  - destruct H as [H|H]; [right; split; [lia | congruence] | left; right; exact H].
  - destruct H as [H|H]; [left; left; exact H|].
    destruct (IH i H) as [HA|[HA HB]]; [left; right; exact HA | right; split; [lia | exact HB]].
Qed.

Lemma set_nth_same {A} (d : A) i l : (i < length l)%nat -> set_nth i (nth i l d) l = l.
Proof.
  revert i. induction l as [|z l IH]; intros i H; simpl in *; [lia|].
  destruct i as [|i]; simpl; [reflexivity|]. f_equal. apply IH. lia.
Qed.

Lemma set_nth_length {A} i (y : A) l : length (set_nth i y l) = length l.
Proof. revert i. induction l as [|z l IH]; intros [|i]; simpl; auto. Qed.

Lemma nth_set_nth_eq {A} (d : A) i y l : (i < length l)%nat -> nth i (set_nth i y l) d = y.
Proof. revert i. induction l as [|z l IH]; intros [|i] H; simpl in *; try lia; auto. apply IH. lia. Qed.

Lemma nth_set_nth_neq {A} (d : A) i j y l : i <> j -> nth j (set_nth i y l) d = nth j l d.
Proof.
  revert i j. induction l as [|z l IH]; intros [|i] [|j] H; simpl; auto; try congruence.
Qed.

(* the io of the node after replacing input i: everything but (possibly) the old input stays *)
Lemma replace_io_keep nd i v w :
  let nd1 := mkN (set_nth i v (n_in nd)) (n_out nd) (n_dc nd) in
  In w (io nd) -> Some w <> nth i (n_in nd) None -> In w (io nd1).
Proof.
  intros nd1 H Hne. apply io_In in H. apply io_In. simpl. destruct H as [H|H]; [|right; exact H].
  destruct (set_nth_In_or None i v _ _ H) as [A|[_ B]]; [left; exact A | congruence].
Qed.

Lemma replace_input_nd_ok cfgs nd i v nd' :
  node_ok cfgs nd -> replace_input_nd nd i v = Ok nd' -> node_ok cfgs nd'.
Proof.
  unfold replace_input_nd. intros Hn M.
  destruct ((i <? 0) || (Z.of_nat (length (n_in nd)) <=? i)) eqn:Hi; [discriminate|].
  assert (Hlt : (Z.to_nat i < length (n_in nd))%nat) by lia.
  remember (Z.to_nat i) as k eqn:Hk. clear Hk Hi.
  inversion M as [M']; clear M M'.
  destruct (nth k (n_in nd) None) as [o|] eqn:Hold.
  - assert (Hdrop : node_ok cfgs (drop_for (mkN (set_nth k v (n_in nd)) (n_out nd) (n_dc nd)) o)).
    { apply (drop_for_ok cfgs (fun w => In w (io nd))).
      * exact Hn.
      * intros w Hw Hne. apply replace_io_keep; [exact Hw|]. rewrite Hold. congruence. }
    destruct v as [v'|]; simpl; [|exact Hdrop].
    destruct (v_eqb o v') eqn:E; [|exact Hdrop].
    apply v_eqb_eq in E. subst v'. rewrite <- Hold. rewrite set_nth_same by exact Hlt.
    destruct nd; exact Hn.
  - unfold node_ok. simpl. eapply dcs_ok_mono; [|exact Hn]. intros w Hw.
    apply (replace_io_keep nd k v w Hw). rewrite Hold. discriminate.
Qed.

(* ------------------------------------------------------------------ resize_inputs *)
Lemma replace_input_nd_cases nd i v nd' :
  replace_input_nd nd i v = Ok nd' ->
  let nd1 := mkN (set_nth (Z.to_nat i) v (n_in nd)) (n_out nd) (n_dc nd) in
  let old := nth (Z.to_nat i) (n_in nd) None in
  (Z.to_nat i < length (n_in nd))%nat /\ ((old = None /\ nd' = nd1) \/ (old <> None /\ old = v /\ nd' = nd1)
   \/ (exists o, old = Some o /\ Some o <> v /\ nd' = drop_for nd1 o)).
Proof.
  unfold replace_input_nd. destruct (_ || _) eqn:Hi; [discriminate|]. intros [= <-].
  split; [lia|].
  destruct (nth (Z.to_nat i) (n_in nd) None) as [o|]; [|left; split; reflexivity].
  right. destruct v as [v'|]; simpl.
  - destruct (v_eqb o v') eqn:E.
    + apply v_eqb_eq in E. subst. left. repeat split. discriminate.
    + apply v_eqb_neq in E. right. exists o. repeat split. congruence.
  - right. exists o. repeat split. discriminate.
Qed.

Lemma replace_input_nd_in nd i v nd' :
  replace_input_nd nd i v = Ok nd' -> n_in nd' = set_nth (Z.to_nat i) v (n_in nd).
Proof.
  intros M. destruct (replace_input_nd_cases _ _ _ _ M) as [_ [[_ ->]|[[_ [_ ->]]|[o [_ [_ ->]]]]]];
    try reflexivity. rewrite drop_for_in. reflexivity.
Qed.

Lemma replace_input_nd_out nd i v nd' :
  replace_input_nd nd i v = Ok nd' -> n_out nd' = n_out nd.
Proof.
  intros M. destruct (replace_input_nd_cases _ _ _ _ M) as [_ [[_ ->]|[[_ [_ ->]]|[o [_ [_ ->]]]]]];
    try reflexivity. rewrite drop_for_out. reflexivity.
Qed.

Lemma replace_input_nd_in_range nd i v :
  (i < length (n_in nd))%nat -> exists nd', replace_input_nd nd (Z.of_nat i) v = Ok nd'.
Proof.
  intros H. unfold replace_input_nd.
  assert (E : (Z.of_nat i <? 0) || (Z.of_nat (length (n_in nd)) <=? Z.of_nat i) = false) by lia.
  rewrite E. eexists. reflexivity.
Qed.

Lemma clear_inputs_spec cfgs : forall cnt nd i,
  (i + cnt <= length (n_in nd))%nat -> node_ok cfgs nd ->
  let nd' := clear_inputs nd i cnt in
  node_ok cfgs nd' /\ length (n_in nd') = length (n_in nd) /\ n_out nd' = n_out nd
  /\ (forall j, (i <= j < i + cnt)%nat -> nth j (n_in nd') None = None)
  /\ (forall j, (j < i)%nat -> nth j (n_in nd') None = nth j (n_in nd) None).
Proof.
  induction cnt as [|c IH]; intros nd i Hlen Hok; simpl.
  - repeat split; auto. intros j Hj. lia.
  - destruct (replace_input_nd_in_range nd i None) as [nd1 E]; [lia|]. rewrite E.
    pose proof (replace_input_nd_in _ _ _ _ E) as Hin. rewrite Nat2Z.id in Hin.
    pose proof (replace_input_nd_out _ _ _ _ E) as Hout.
    assert (Hl1 : length (n_in nd1) = length (n_in nd)) by (rewrite Hin; apply set_nth_length).
    destruct (IH nd1 (S i)) as [A [B [C [D F]]]]; [lia | eapply replace_input_nd_ok; eassumption |].
    split; [exact A|]. split; [lia|]. split; [congruence|]. split.
    + intros j Hj. destruct (Nat.eq_dec j i) as [->|Hne].
      * rewrite F by lia. rewrite Hin. apply nth_set_nth_eq. lia.
      * apply D. lia.
    + intros j Hj. rewrite F by lia. rewrite Hin. apply nth_set_nth_neq. lia.
Qed.

Lemma firstn_keeps_somes {A} (l : list (option A)) k x :
  (forall j, (k <= j < length l)%nat -> nth j l None = None) -> In (Some x) l -> In (Some x) (firstn k l).
Proof.
  intros H HIn. destruct (In_nth _ _ None HIn) as [j [Hj E]].
  assert (j < k)%nat. { destruct (Nat.lt_ge_cases j k) as [L|G]; [exact L|]. rewrite H in E by lia. discriminate. }
  assert (H1 : nth j (firstn k l) None = nth j l None).
  { rewrite <- (firstn_skipn k l) at 2. rewrite app_nth1; [reflexivity | rewrite firstn_length; lia]. }
  rewrite <- E, <- H1. apply nth_In. rewrite firstn_length. lia.
Qed.

Lemma somes_app_none {A} (l : list (option A)) k : somes (l ++ repeat None k) = somes l.
Proof.
  induction l as [|[x|] l IH]; simpl; [|rewrite IH; reflexivity | exact IH].
  induction k; simpl; auto.
Qed.

Lemma resize_inputs_nd_ok cfgs nd k nd' :
  node_ok cfgs nd -> resize_inputs_nd nd k = Ok nd' -> node_ok cfgs nd'.
Proof.
  unfold resize_inputs_nd. intros Hn M. destruct (k <? 0); [discriminate|].
  destruct (Z.to_nat k <? length (n_in nd))%nat eqn:E.
  - apply Nat.ltb_lt in E. inversion M; subst; clear M.
    destruct (clear_inputs_spec cfgs (length (n_in nd) - Z.to_nat k) nd (Z.to_nat k)) as [A [B [C [D F]]]];
      [lia | exact Hn |].
    set (nd1 := clear_inputs nd (Z.to_nat k) (length (n_in nd) - Z.to_nat k)) in *.
    unfold node_ok. simpl. eapply dcs_ok_mono; [|exact A]. intros w Hw.
    apply io_In in Hw. apply io_In. simpl. destruct Hw as [Hw|Hw]; [left|right; exact Hw].
    apply firstn_keeps_somes; [|exact Hw]. intros j Hj. apply D. lia.
  - inversion M; subst; clear M. unfold node_ok. simpl. eapply dcs_ok_mono; [|exact Hn].
    intros w Hw. unfold io in *. simpl. rewrite somes_app_none. exact Hw.
Qed.

(* ------------------------------------------------------------------ resize_outputs *)
Lemma resize_outputs_inv h n k : DevInv h -> DevInv (fst (resize_outputs h n k)).
Proof.
  intros [Hc Hn]. unfold resize_outputs. destruct (get_node h n) as [nd|] eqn:G; [|split; assumption].
  destruct (k <? 0); [split; assumption|].
  pose proof (get_node_ok _ _ _ Hn G) as Hnd.
  destruct (Z.to_nat k <? length (n_out nd))%nat.
  - destruct (existsb (uses_b h) (skipn (Z.to_nat k) (n_out nd))); [split; assumption|].
    simpl. split; [exact Hc|]. simpl. apply set_node_l_ok; [exact Hn|].
    apply (fold_drop_ok _ _ (fun w => In w (io nd))); [exact Hnd|].
    intros w Hw. apply io_In in Hw. rewrite io_In. simpl. destruct Hw as [Hw|Hw]; [left; left; exact Hw|].
    rewrite <- (firstn_skipn (Z.to_nat k) (n_out nd)) in Hw. apply in_app_iff in Hw. tauto.
  - simpl. split; [exact Hc|]. simpl. apply set_node_l_ok; [exact Hn|].
    unfold node_ok. simpl. eapply dcs_ok_mono; [|exact Hnd]. intros w Hw.
    apply io_In in Hw. apply io_In. simpl. rewrite in_app_iff. tauto.
Qed.

(* ------------------------------------------------------------------ remove node *)
Lemma remove_node_inv h n : DevInv h -> DevInv (fst (remove_node h n)).
Proof.
  intros [Hc Hn]. unfold remove_node. destruct (get_node h n); [|split; assumption].
  destruct (existsb _ _); [split; assumption|]. simpl. split; [exact Hc|]. simpl.
  unfold nodes_ok in *. rewrite Forall_forall in *. intros p Hp. apply filter_In in Hp. apply Hn. tauto.
Qed.

(* ------------------------------------------------------------------ configurations *)
Lemma add_cfg_inv h name ndev : DevInv h -> DevInv (fst (add_cfg h name ndev)).
Proof.
  intros [[Hd Hne] Hn]. unfold add_cfg. destruct (str_empty name) eqn:E1; [repeat split; assumption|].
  destruct (existsb _ (s_cfgs h)) eqn:E2; [repeat split; assumption|].
  destruct (ndev <? 1); [repeat split; assumption|]. simpl. split; [split|]; simpl.
  - rewrite map_app. simpl.
    assert (Hnot : ~ In name (map c_name (s_cfgs h))).
    { intros HIn. apply in_map_iff in HIn. destruct HIn as [c [Hcn HIn]].
      assert (existsb (fun c => str_eqb (c_name c) name) (s_cfgs h) = true).
      { apply existsb_exists. exists c. split; [exact HIn | apply str_eqb_eq; exact Hcn]. }
      congruence. }
    apply NoDup_snoc; assumption.
  - apply Forall_app. split; [exact Hne|]. constructor; [|constructor]. simpl. destruct name; [discriminate|discriminate].
  - unfold nodes_ok in *. eapply Forall_impl; [|exact Hn]. intros p Hp. unfold node_ok in *.
    eapply Forall_impl; [|exact Hp]. intros dc. apply dc_ok_cfgs_mono. intros H. apply in_app_iff. left. exact H.
Qed.

Lemma NoDup_map_filter {A B} (f : A -> B) (p : A -> bool) l : NoDup (map f l) -> NoDup (map f (filter p l)).
Proof.
  induction l as [|x l IH]; simpl; intros H; [constructor|]. inversion H; subst.
  destruct (p x); simpl; [|apply IH; assumption]. constructor; [|apply IH; assumption].
  intros HIn. apply in_map_iff in HIn. destruct HIn as [y [Hy HIn]]. apply filter_In in HIn.
  match goal with H : ~ In (f x) _ |- _ => apply H end. apply in_map_iff. exists y. tauto.
Qed.

Lemma remove_cfg_inv h t by_name : DevInv h -> DevInv (fst (remove_cfg h t by_name true)).
Proof.
  intros [[Hd Hne] Hn]. unfold remove_cfg. simpl. split; [split|]; simpl.
  - apply NoDup_map_filter. exact Hd.
  - rewrite Forall_forall in *. intros c Hc. apply filter_In in Hc. apply Hne. tauto.
  - unfold nodes_ok, cascade_nodes in *. rewrite Forall_map. eapply Forall_impl; [|exact Hn].
    intros [n nd] Hp. simpl in *. unfold node_ok, with_dc in *. simpl. unfold io in *. simpl.
    rewrite Forall_forall in *. intros dc Hdc. apply filter_In in Hdc. destruct Hdc as [Hin Hnt].
    destruct (Hp dc Hin) as [A B]. split; [|exact B]. apply filter_In. split; [exact A|].
    apply negb_true_iff in Hnt. apply orb_false_iff in Hnt. rewrite (proj1 Hnt). reflexivity.
Qed.

(* ------------------------------------------------------------------ clone *)
Definition rank_pres (m : vmap) : Prop := Forall (fun p => v_rank (snd p) = v_rank (fst p)) m.

Lemma fresh_from_length next l : length (fresh_from next l) = length l.
Proof. revert next. induction l; intros; simpl; auto. Qed.

Lemma fresh_from_rank next l : rank_pres (combine l (fresh_from next l)).
Proof.
  revert next. induction l as [|o l IH]; intros next; simpl; [constructor|].
  constructor; [reflexivity | apply IH].
Qed.

Lemma rank_pres_app a b : rank_pres a -> rank_pres b -> rank_pres (a ++ b).
Proof. intros. apply Forall_app. split; assumption. Qed.
Lemma rank_pres_rev a : rank_pres a -> rank_pres (rev a).
Proof. intros. apply Forall_rev. assumption. Qed.

Lemma vm_apply_rank m v : rank_pres m -> v_rank (vm_apply m v) = v_rank v.
Proof.
  intros H. unfold vm_apply, vm_get. destruct (find _ m) as [p|] eqn:E; simpl; [|reflexivity].
  apply find_some in E. destruct E as [HIn Heq]. apply v_eqb_eq in Heq. unfold rank_pres in H.
  rewrite Forall_forall in H. rewrite (H p HIn). congruence.
Qed.

Lemma find_app {A} (f : A -> bool) l1 l2 :
  find f (l1 ++ l2) = match find f l1 with Some x => Some x | None => find f l2 end.
Proof. induction l1 as [|x l1 IH]; simpl; [reflexivity|]. destruct (f x); auto. Qed.

Lemma clone_inputs_In allow own m ins ins' w :
  clone_inputs allow own m ins = Some ins' -> In (Some w) ins -> In (Some (vm_apply m w)) ins'.
Proof.
  revert ins'. induction ins as [|[v|] r IH]; intros ins' C H; simpl in *; [contradiction| |].
  - destruct (vm_get m v) as [x|] eqn:G.
    + destruct (clone_inputs allow own m r) as [r'|]; [|discriminate]. inversion C; subst. simpl.
      destruct H as [H|H].
      * inversion H; subst. left. unfold vm_apply. rewrite G. reflexivity.
      * right. apply IH; auto.
    + destruct (allow && negb (existsb (v_eqb v) own)); [|discriminate].
      destruct (clone_inputs allow own m r) as [r'|]; [|discriminate]. inversion C; subst. simpl.
      destruct H as [H|H].
      * inversion H; subst. left. unfold vm_apply. rewrite G. reflexivity.
      * right. apply IH; auto.
  - destruct (clone_inputs allow own m r) as [r'|]; [|discriminate]. inversion C; subst. simpl.
    destruct H as [H|H]; [discriminate|]. right. apply IH; auto.
Qed.

Lemma in_combine_fst_exists {A B} (l : list A) (l' : list B) x :
  length l = length l' -> In x l -> exists y, In (x, y) (combine l l').
Proof.
  revert l'. induction l as [|a l IH]; intros [|b l'] Hlen H; simpl in *; try contradiction; try discriminate.
  destruct H as [->|H]; [exists b; left; reflexivity|].
  destruct (IH l') as [y Hy]; [lia | exact H |]. exists y. right. exact Hy.
Qed.

(* the map after adding the outputs of the node: an output goes to a new output, anything else is as before *)
Lemma vm_apply_outs m outs outs' w :
  length outs = length outs' ->
  let m' := rev (combine outs outs') ++ m in
  (In w outs -> In (vm_apply m' w) outs') /\ (~ In w outs -> vm_apply m' w = vm_apply m w).
Proof.
  intros Hlen m'. unfold vm_apply, vm_get, m'. rewrite find_app.
  destruct (find (fun p => v_eqb (fst p) w) (rev (combine outs outs'))) as [p|] eqn:E; simpl.
  - apply find_some in E. destruct E as [HIn Heq]. apply v_eqb_eq in Heq. apply in_rev in HIn.
    destruct p as [a b]. simpl in *. subst a. split.
    + intros _. eapply in_combine_r. exact HIn.
    + intros Hn. exfalso. apply Hn. eapply in_combine_l. exact HIn.
  - split; [|reflexivity]. intros Hw. exfalso.
    destruct (in_combine_fst_exists outs outs' w Hlen Hw) as [y Hy].
    pose proof (find_none _ _ E (w, y)) as Hf. simpl in Hf. rewrite v_eqb_refl in Hf.
    assert (In (w, y) (rev (combine outs outs'))) by (apply in_rev; rewrite rev_involutive; exact Hy).
    specialize (Hf H). discriminate.
Qed.

Lemma remap_dcs_ok cfgs (P Q : valobj -> Prop) m dcs :
  rank_pres m -> (forall w, P w -> Q (vm_apply m w)) ->
  Forall (dc_ok cfgs P) dcs -> Forall (dc_ok cfgs Q) (remap_dcs m dcs).
Proof.
  intros Hr H F. unfold remap_dcs. rewrite Forall_map. eapply Forall_impl; [|exact F].
  intros dc [A B]. split; [exact A|]. simpl. rewrite Forall_map. eapply Forall_impl; [|exact B].
  intros sp [S1 [S2 S3]]. split; [|split]; simpl; auto. rewrite vm_apply_rank by exact Hr. exact S2.
Qed.

Definition pend_rank (pend : pending) : Prop := Forall (fun e => rank_pres (snd e)) pend.

Lemma flush_rank d : forall pend m pend' m',
  pend_rank pend -> rank_pres m -> flush d pend m = (pend', m') -> pend_rank pend' /\ rank_pres m'.
Proof.
  induction pend as [|[d' b] r IH]; intros m pend' m' Hp Hm F; simpl in F.
  - inversion F; subst. split; assumption.
  - inversion Hp as [|? ? Hb Hr]; subst. simpl in Hb. destruct (d <=? d')%nat.
    + eapply IH; [exact Hr | | exact F]. apply rank_pres_app; assumption.
    + inversion F; subst. split; assumption.
Qed.

Lemma clone_nodes_ok cfgs h allow ownv : forall nodes pend m next nodes' names' next',
  pend_rank pend -> rank_pres m -> nodes_ok cfgs nodes ->
  clone_nodes h allow ownv pend m next nodes = Some (nodes', names', next') -> nodes_ok cfgs nodes'.
Proof.
  induction nodes as [|[n nd] r IH]; intros pend m next nodes' names' next' Hp Hr Hn C; simpl in C.
  - inversion C; subst. constructor.
  - destruct (flush (depth h (node_scope h n)) pend m) as [pend1 m1] eqn:Fl.
    destruct (flush_rank _ _ _ _ _ Hp Hr Fl) as [Hp1 Hr1].
    destruct (clone_inputs _ _ m1 (n_in nd)) as [ins'|] eqn:Ci; [|discriminate].
    set (outs' := fresh_from next (n_out nd)) in *.
    set (own := rev (combine (n_out nd) outs')) in *.
    destruct (clone_nodes h allow ownv ((depth h (node_scope h n), own) :: pend1) m1
                (next + Z.of_nat (length (n_out nd))) r) as [[[r' nm'] nx']|] eqn:Cr; [|discriminate].
    inversion C; subst; clear C. inversion Hn as [|? ? Hnd Hr']; subst.
    assert (Hown : rank_pres own) by (apply rank_pres_rev; apply fresh_from_rank).
    assert (Hr2 : rank_pres (own ++ m1)) by (apply rank_pres_app; assumption).
    constructor; [|eapply IH; [| exact Hr1 | exact Hr' | exact Cr]; constructor; assumption].
    simpl. unfold node_ok. simpl. eapply remap_dcs_ok; [exact Hr2 | | exact Hnd].
    intros w Hw. simpl in Hw.
    assert (Hlen : length (n_out nd) = length outs') by (symmetry; apply fresh_from_length).
    destruct (vm_apply_outs m1 (n_out nd) outs' w Hlen) as [Hin Hout]. fold own in Hin, Hout.
    apply io_In. simpl. destruct (existsb (v_eqb w) (n_out nd)) eqn:Ex.
    + right. apply Hin. apply existsb_v_In. exact Ex.
    + assert (Hnot : ~ In w (n_out nd)).
      { intros H. apply existsb_v_In in H. congruence. }
      rewrite (Hout Hnot). left. apply io_In in Hw. destruct Hw as [Hw|Hw]; [|contradiction].
      eapply clone_inputs_In; eassumption.
Qed.

Lemma Forall_firstn_skipn {A} (P : A -> Prop) n l : Forall P l -> Forall P (firstn n l) /\ Forall P (skipn n l).
Proof. intros H. rewrite <- (firstn_skipn n l) in H. apply Forall_app in H. exact H. Qed.

Lemma nodes_ok_filter cfgs (p : Z * node -> bool) nodes : nodes_ok cfgs nodes -> nodes_ok cfgs (filter p nodes).
Proof.
  unfold nodes_ok. rewrite !Forall_forall. intros H x Hx. apply filter_In in Hx. apply H. tauto.
Qed.

Lemma clone_inv h deep allow : DevInv h -> DevInv (fst (clone h deep allow)).
Proof.
  intros [Hc Hn]. unfold clone.
  pose proof (fresh_from_rank (s_nextv h) (s_gin h)) as Hr.
  destruct (Forall_firstn_skipn _ (sc_nmain (s_sc h)) _ Hr) as [Hr1 Hr2].
  destruct (clone_nodes h _ _ _ _ _ (filter _ (s_nodes h))) as [[[nodes1 names1] next1]|] eqn:C1; [|split; assumption].
  destruct (clone_nodes h _ _ _ _ next1 _) as [[[nodes2 names2] next2]|] eqn:C2; [|split; assumption].
  simpl. split; [exact Hc|]. simpl. unfold nodes_ok. apply Forall_app. split.
  - eapply clone_nodes_ok; [constructor | | | exact C1]; [apply rank_pres_rev; exact Hr1 | apply nodes_ok_filter; exact Hn].
  - eapply clone_nodes_ok; [constructor | | | exact C2]; [apply rank_pres_rev; exact Hr2 | apply nodes_ok_filter; exact Hn].
Qed.

(* ------------------------------------------------------------------ round trip *)
Lemma NoDup_map_inj {A B} (f : A -> B) l a b : NoDup (map f l) -> In a l -> In b l -> f a = f b -> a = b.
Proof.
  induction l as [|x l IH]; simpl; intros Hd Ha Hb E; [contradiction|]. inversion Hd; subst.
  destruct Ha as [->|Ha], Hb as [->|Hb]; auto.
  - exfalso. match goal with H : ~ In _ _ |- _ => apply H end. rewrite E. apply in_map. exact Hb.
  - exfalso. match goal with H : ~ In _ _ |- _ => apply H end. rewrite <- E. apply in_map. exact Ha.
Qed.

Lemma find_last_registered cfgs c :
  NoDup (map c_name cfgs) -> In c cfgs ->
  find_last (fun r => str_eqb (c_name r) (c_name c)) cfgs = Some c.
Proof.
  intros Hd HIn. unfold find_last.
  destruct (find _ (rev cfgs)) as [r|] eqn:E.
  - apply find_some in E. destruct E as [Hr Heq]. apply in_rev in Hr. apply str_eqb_eq in Heq.
    f_equal. eapply NoDup_map_inj; eassumption.
  - pose proof (find_none _ _ E c) as Hf. simpl in Hf.
    assert (In c (rev cfgs)) by (apply in_rev; rewrite rev_involutive; exact HIn).
    specialize (Hf H). assert (str_eqb (c_name c) (c_name c) = true) by (apply str_eqb_eq; reflexivity). congruence.
Qed.

(* in the modelled domain every input/output of a node resolves, through the scope stack of the node's
   graph, to itself *)
Lemma rt_domain_resolve h n nd v :
  rt_domain h = true -> In (n, nd) (s_nodes h) -> In v (io nd) ->
  resolve h (node_scope h n) (name_of h v) = Some v.
Proof.
  intros D Hn Hv. unfold rt_domain in D. apply andb_true_iff in D. destruct D as [_ D].
  rewrite forallb_forall in D. specialize (D (n, nd) Hn). simpl in D.
  rewrite forallb_forall in D. specialize (D v Hv).
  destruct (resolve h (node_scope h n) (name_of h v)) as [w|]; [|discriminate].
  apply v_eqb_eq in D. congruence.
Qed.

Lemma de_dims_ser dims : de_dims (map (fun d => (sd_axis d, sd_shards d)) dims) = dims.
Proof. unfold de_dims. rewrite map_map. simpl. induction dims as [|[a k] r IH]; simpl; [reflexivity|]. rewrite IH. reflexivity. Qed.

Lemma de_cfgs_ser cfgs : de_cfgs cfgs (map (fun c => (c_name c, c_ndev c)) cfgs) = cfgs.
Proof. induction cfgs as [|[i n d] r IH]; simpl; [reflexivity|]. rewrite IH. reflexivity. Qed.

Lemma de_specs_id h sc (P : valobj -> Prop) ndev specs acc :
  (forall v, P v -> resolve h sc (name_of h v) = Some v) -> Forall (spec_ok P ndev) specs ->
  de_specs h sc (map (ser_spec h) specs) acc = (specs, acc).
Proof.
  intros HP F. induction specs as [|sp r IH]; simpl; [reflexivity|].
  inversion F as [|? ? [Hsp _] Hr]; subst. rewrite (HP _ Hsp).
  rewrite (IH Hr). rewrite de_dims_ser. destruct sp; reflexivity.
Qed.

Lemma de_dcs_id h sc (P : valobj -> Prop) dcs acc :
  cfgs_ok (s_cfgs h) -> (forall v, P v -> resolve h sc (name_of h v) = Some v) ->
  Forall (dc_ok (s_cfgs h) P) dcs -> de_dcs h (s_cfgs h) sc (map (ser_dc_raw h) dcs) acc = (dcs, acc).
Proof.
  intros [Hd _] HP F. induction dcs as [|dc r IH]; simpl; [reflexivity|].
  inversion F as [|? ? [Hc Hs] Hr]; subst. rewrite (find_last_registered _ _ Hd Hc).
  rewrite (de_specs_id h sc P _ _ acc HP Hs). rewrite (IH Hr). destruct dc; reflexivity.
Qed.

Lemma rt_keep_new_ir h n : MULTI_DEVICE_SUPPORTED_VERSION <= s_ir h -> rt_keep h n = true.
Proof. intros H. unfold rt_keep. lia. Qed.

Definition ser_nodes (h : state) (nodes : list (Z * node)) : list (Z * list pdc) :=
  map (fun p => (fst p, if rt_keep h (fst p) then map (ser_dc_raw h) (n_dc (snd p)) else [])) nodes.

Lemma de_nodes_id h nodes acc :
  MULTI_DEVICE_SUPPORTED_VERSION <= s_ir h ->
  rt_domain h = true -> cfgs_ok (s_cfgs h) -> nodes_ok (s_cfgs h) nodes -> incl nodes (s_nodes h) ->
  de_nodes h (s_cfgs h) nodes (ser_nodes h nodes) acc = (nodes, acc).
Proof.
  intros Hir D Hc Hn Hincl. induction nodes as [|[n nd] r IH]; simpl; [reflexivity|].
  inversion Hn as [|? ? Hnd Hr]; subst. rewrite (rt_keep_new_ir h n Hir).
  rewrite (de_dcs_id h (node_scope h n) (fun v => In v (io nd)) _ acc Hc); [| |exact Hnd].
  - fold (ser_nodes h r). rewrite IH; [|exact Hr|]. + destruct nd; reflexivity. + intros x Hx. apply Hincl. right. exact Hx.
  - intros v Hv. eapply rt_domain_resolve; [exact D | | exact Hv]. apply Hincl. left. reflexivity.
Qed.

(* deserialize . serialize = identity: every name in the proto resolves to the very object it was derived from *)
Lemma deser_ser_id h p :
  DevInv h -> rt_domain h = true -> MULTI_DEVICE_SUPPORTED_VERSION <= s_ir h ->
  ser_model h = Ok p -> deser h p = h.
Proof.
  intros [Hc Hn] D Hir. unfold ser_model. destruct (ser_ok h); simpl; [|discriminate].
  destruct (s_ir h <? MULTI_DEVICE_SUPPORTED_VERSION) eqn:E; [lia|]. intros [= <-].
  unfold deser. simpl. rewrite de_cfgs_ser. fold (ser_nodes h (s_nodes h)).
  rewrite (de_nodes_id h (s_nodes h) _ Hir D Hc Hn (incl_refl _)). destruct h; reflexivity.
Qed.

Lemma roundtrip_identity h :
  DevInv h -> rt_domain h = true -> MULTI_DEVICE_SUPPORTED_VERSION <= s_ir h -> ser_ok h = true ->
  roundtrip h = (h, Ok tt).
Proof.
  intros Hinv D Hir Hs. unfold roundtrip. rewrite D. simpl.
  destruct (ser_model h) as [p|e] eqn:S.
  - rewrite (deser_ser_id h p Hinv D Hir S). reflexivity.
  - unfold ser_model in S. rewrite Hs in S. discriminate.
Qed.

(* below IR 11 nothing is kept, at any depth *)
Lemma de_nodes_old_ir h : forall nodes acc,
  s_ir h < MULTI_DEVICE_SUPPORTED_VERSION ->
  de_nodes h [] nodes (ser_nodes h nodes) acc = (map (fun p => (fst p, with_dc (snd p) [])) nodes, acc).
Proof.
  induction nodes as [|[n nd] r IH]; intros acc Hir; simpl; [reflexivity|].
  assert (K : rt_keep h n = false) by (unfold rt_keep; lia). rewrite K. simpl.
  fold (ser_nodes h r). rewrite (IH acc Hir). reflexivity.
Qed.

Lemma roundtrip_old_ir_state h :
  rt_domain h = true -> ser_ok h = true -> s_ir h < MULTI_DEVICE_SUPPORTED_VERSION ->
  roundtrip h = (mkSt (s_names h) (map (fun p => (fst p, with_dc (snd p) [])) (s_nodes h)) (s_gin h) []
                      (s_nextv h) (s_nextc h) (s_ir h) (s_sc h), Ok tt).
Proof.
  intros D S Hir. unfold roundtrip, ser_model. rewrite D, S. simpl.
  assert (E : s_ir h <? MULTI_DEVICE_SUPPORTED_VERSION = true) by lia. rewrite E.
  unfold deser. simpl. fold (ser_nodes h (s_nodes h)).
  assert (C : de_cfgs (s_cfgs h) [] = []) by (destruct (s_cfgs h); reflexivity). rewrite C.
  rewrite de_nodes_old_ir by exact Hir. reflexivity.
Qed.

Lemma roundtrip_inv h : DevInv h -> DevInv (fst (roundtrip h)).
Proof.
  intros Hinv. destruct (rt_domain h) eqn:D; [|unfold roundtrip; rewrite D; exact Hinv].
  destruct (ser_ok h) eqn:S; [|unfold roundtrip, ser_model; rewrite D, S; exact Hinv].
  destruct (s_ir h <? MULTI_DEVICE_SUPPORTED_VERSION) eqn:E.
  - rewrite roundtrip_old_ir_state by (try assumption; lia). simpl. split; simpl.
    + split; constructor.
    + unfold nodes_ok. rewrite Forall_map. apply Forall_forall. intros p _. constructor.
  - rewrite roundtrip_identity by (try assumption; lia). exact Hinv.
Qed.

(* ------------------------------------------------------------------ shape edit *)
Lemma sub_io v v' nd w : In w (io nd) -> In (sub_v v v' w) (io (sub_node v v' nd)).
Proof.
  intros H. apply io_In in H. apply io_In. simpl. destruct H as [H|H].
  - left. apply (in_map (option_map (sub_v v v'))) in H. exact H.
  - right. apply in_map. exact H.
Qed.

Lemma set_rank_inv h v r : DevInv h -> setrank_ok h v r -> DevInv (set_rank h v r).
Proof.
  intros [Hc Hn] Hs. split; [exact Hc|]. simpl. unfold nodes_ok in *. rewrite Forall_map.
  rewrite Forall_forall in *. intros p Hp. specialize (Hn p Hp). simpl. unfold node_ok in *. simpl.
  rewrite Forall_map. rewrite Forall_forall in *. intros dc Hdc. destruct (Hn dc Hdc) as [A B].
  split; [exact A|]. simpl. rewrite Forall_map. rewrite Forall_forall in *. intros sp Hsp.
  destruct (B sp Hsp) as [S1 [S2 S3]]. split; [|split]; simpl; [apply sub_io; exact S1 | | exact S3].
  unfold sub_v. destruct (v_eqb (sp_val sp) v) eqn:E; simpl; [|exact S2].
  apply v_eqb_eq in E. eapply Hs; eassumption.
Qed.

(* ------------------------------------------------------------------ the step lemma and the history theorem *)
Lemma exec_inv h o : DevInv h -> op_ok h o -> DevInv (fst (exec h o)).
Proof.
  intros Hinv Hok. destruct o; simpl in *.
  - destruct Hok as [Hc Hd]. apply on_node_inv; [|exact Hinv]. intros nd nd' Hn. apply shard_nd_ok; assumption.
  - apply on_node_inv; [|exact Hinv]. intros nd nd' Hn. apply stage_nd_ok; assumption.
  - apply add_cfg_inv. exact Hinv.
  - subst cascade. unfold remove_cfg_obj. destruct (existsb _ _); [apply remove_cfg_inv|]; exact Hinv.
  - subst cascade. unfold remove_cfg_name. destruct (find _ _); [apply remove_cfg_inv|]; exact Hinv.
  - exact Hinv.
  - apply on_node_inv; [|exact Hinv]. intros nd nd'. apply replace_input_nd_ok.
  - apply resize_outputs_inv. exact Hinv.
  - apply on_node_inv; [|exact Hinv]. intros nd nd'. apply resize_inputs_nd_ok.
  - apply remove_node_inv. exact Hinv.
  - apply clone_inv. exact Hinv.
  - apply set_rank_inv; assumption.
  - apply roundtrip_inv. exact Hinv.
Qed.

Lemma inv_reachable ops : forall h, DevInv h -> ops_ok h ops -> DevInv (run h ops).
Proof.
  induction ops as [|o r IH]; intros h Hinv Hok; simpl in *; [exact Hinv|].
  destruct Hok as [H1 H2]. apply IH; [apply exec_inv; assumption | exact H2].
Qed.

Lemma inv_initial h :
  s_cfgs h = [] -> Forall (fun p => n_dc (snd p) = []) (s_nodes h) -> DevInv h.
Proof.
  intros Hc Hn. split.
  - rewrite Hc. split; constructor.
  - unfold nodes_ok. eapply Forall_impl; [|exact Hn]. intros p Hp. unfold node_ok. rewrite Hp. constructor.
Qed.

End RankView.
End Gen.
Export Gen.

(* ------------------------------------------------------------------ the two views *)
Definition rv_id (r : option Z) : option Z := r.
Definition rv_weak (r : option Z) : option Z := None.
Lemma rv_id_range r a : in_range r a = true -> in_range (rv_id r) a = true. Proof. auto. Qed.
Lemma rv_id_norm r a b : normalize (rv_id r) a = normalize (rv_id r) b -> normalize r a = normalize r b. Proof. auto. Qed.
Lemma rv_weak_range r a : in_range r a = true -> in_range (rv_weak r) a = true. Proof. reflexivity. Qed.
Lemma rv_weak_norm r a b : normalize (rv_weak r) a = normalize (rv_weak r) b -> normalize r a = normalize r b.
Proof. simpl. intros ->. reflexivity. Qed.

Ltac inst_id X :=
  first [exact (X rv_id rv_id_range rv_id_norm) | exact (X rv_id rv_id_range) | exact (X rv_id rv_id_norm)
        | exact (X rv_id)].
Ltac inst_weak X :=
  first [exact (X rv_weak rv_weak_range rv_weak_norm) | exact (X rv_weak rv_weak_range)
        | exact (X rv_weak rv_weak_norm) | exact (X rv_weak)].

(* ------------------------------------------------------------------ the strict view: DevInv *)
Definition spec_ok := Gen.spec_ok rv_id.
Definition dc_ok := Gen.dc_ok rv_id.
Definition node_ok := Gen.node_ok rv_id.
Definition nodes_ok := Gen.nodes_ok rv_id.
Definition DevInv := Gen.DevInv rv_id.
Definition setrank_ok := Gen.setrank_ok rv_id.
Definition op_ok := Gen.op_ok rv_id.
Definition ops_ok := Gen.ops_ok rv_id.
Definition exec_inv := ltac:(inst_id Gen.exec_inv).
Definition inv_reachable := ltac:(inst_id Gen.inv_reachable).
Definition inv_initial := ltac:(inst_id Gen.inv_initial).
Definition deser_ser_id := ltac:(inst_id Gen.deser_ser_id).
Definition roundtrip_identity := ltac:(inst_id Gen.roundtrip_identity).
Definition roundtrip_inv := ltac:(inst_id Gen.roundtrip_inv).
Definition set_rank_inv := ltac:(inst_id Gen.set_rank_inv).

(* ------------------------------------------------------------------ the weak view: DevInvW *)
(* every spec targets a current input/output; every node configuration is registered; num_shards >= 1; device
   indices in range; the recorded axes are pairwise distinct as written.  Says nothing about the axes being inside
   the CURRENT rank: that is what a later shape edit can break. *)
Definition DevInvW := Gen.DevInv rv_weak.
Definition op_okW (h : state) (o : op) : Prop :=
  match o with OSetRank _ _ => True | _ => Gen.op_ok rv_weak h o end.
Fixpoint ops_okW (h : state) (ops : list op) : Prop :=
  match ops with [] => True | o :: r => op_okW h o /\ ops_okW (fst (exec h o)) r end.

Lemma setrank_ok_weak h v r : DevInvW h -> Gen.setrank_ok rv_weak h v r.
Proof.
  intros [_ Hn] p dc sp Hp Hdc Hsp _. unfold Gen.nodes_ok in Hn. rewrite Forall_forall in Hn.
  specialize (Hn p Hp). unfold Gen.node_ok in Hn. rewrite Forall_forall in Hn. destruct (Hn dc Hdc) as [_ B].
  rewrite Forall_forall in B. destruct (B sp Hsp) as [_ [S2 _]]. exact S2.
Qed.

Lemma exec_invW h o : DevInvW h -> op_okW h o -> DevInvW (fst (exec h o)).
Proof.
  intros Hinv Hok. assert (H : Gen.op_ok rv_weak h o).
  { destruct o; try exact Hok. apply setrank_ok_weak. exact Hinv. }
  exact (Gen.exec_inv rv_weak rv_weak_range rv_weak_norm h o Hinv H).
Qed.

Lemma invW_reachable ops : forall h, DevInvW h -> ops_okW h ops -> DevInvW (run h ops).
Proof.
  induction ops as [|o r IH]; intros h Hinv Hok; simpl in *; [exact Hinv|].
  destruct Hok as [H1 H2]. apply IH; [apply exec_invW; assumption | exact H2].
Qed.

(* the strict invariant implies the weak one *)
Lemma dims_ok_weaken rank dims : dims_ok rank dims -> dims_ok None dims.
Proof.
  intros [F N]. split.
  - eapply Forall_impl; [|exact F]. intros d [_ H]. split; [reflexivity | exact H].
  - assert (E : forall a b, normalize None a = normalize None b -> normalize rank a = normalize rank b)
      by (simpl; intros a b ->; reflexivity).
    induction dims as [|d r IH]; simpl in *; [constructor|]. inversion N; subst. inversion F; subst.
    constructor; [|apply IH; assumption]. intros HIn. apply in_map_iff in HIn. destruct HIn as [e [He HIn]].
    match goal with H : ~ In _ _ |- _ => apply H end. apply in_map_iff. exists e. split; [|exact HIn].
    destruct rank as [k|]; simpl in *; [rewrite He; reflexivity | exact He].
Qed.

Lemma DevInv_weaken h : DevInv h -> DevInvW h.
Proof.
  intros [Hc Hn]. split; [exact Hc|]. unfold Gen.nodes_ok in *. eapply Forall_impl; [|exact Hn].
  intros p Hp. unfold Gen.node_ok in *. eapply Forall_impl; [|exact Hp]. intros dc [A B]. split; [exact A|].
  eapply Forall_impl; [|exact B]. intros sp [S1 [S2 S3]]. split; [exact S1|]. split; [|exact S3].
  eapply dims_ok_weaken. exact S2.
Qed.

(* C19/Proofs2.v — the checker is silent on DevInv states; drop / frame / rejection / serialization lemmas. *)
From Coq Require Import ZArith List Bool Lia ZifyBool.
From IRV Require Import Base.Exn C19.Model C19.Proofs.
Import ListNotations.
Open Scope Z_scope.

(* ------------------------------------------------------------------ check h = [] *)
Definition names_nonempty (h : state) : Prop :=
  forall p dc sp, In p (s_nodes h) -> In dc (n_dc (snd p)) -> In sp (dc_specs dc) -> name_of h (sp_val sp) <> [].

Lemma flat_map_nil {A B} (f : A -> list B) l : (forall x, In x l -> f x = []) -> flat_map f l = [].
Proof.
  induction l as [|x l IH]; simpl; intros H; [reflexivity|].
  rewrite (H x) by (left; reflexivity). rewrite IH; [reflexivity|]. intros y Hy. apply H. right. exact Hy.
Qed.

Lemma check_dims_nil n rank : forall dims seen,
  Forall (fun d => in_range rank (sd_axis d) = true /\ 1 <= sd_shards d) dims ->
  NoDup (map (fun d => normalize rank (sd_axis d)) dims) ->
  (forall d, In d dims -> ~ In (normalize rank (sd_axis d)) seen) ->
  check_dims n rank seen dims = [].
Proof.
  induction dims as [|d r IH]; intros seen F N S; simpl; [reflexivity|].
  inversion F as [|? ? [Hr Hs] Fr]; subst. inversion N as [|? ? Hnot Nr]; subst.
  rewrite Hr. simpl.
  destruct (zmem (normalize rank (sd_axis d)) seen) eqn:Z.
  - apply zmem_In in Z. exfalso. apply (S d); [left; reflexivity | exact Z].
  - assert (E : sd_shards d <? 1 = false) by lia. rewrite E. simpl. apply IH; try assumption.
    intros d' Hd' [H|H].
    + apply Hnot. rewrite H. apply in_map_iff. exists d'. split; [reflexivity | exact Hd'].
    + apply (S d'); [right; exact Hd' | exact H].
Qed.

Lemma str_empty_false s : s <> [] -> str_empty s = false.
Proof. destruct s; [congruence | reflexivity]. Qed.

Lemma check_spec_nil h n nd ndev sp :
  spec_ok (fun v => In v (io nd)) ndev sp -> name_of h (sp_val sp) <> [] -> check_spec h n nd ndev sp = [].
Proof.
  intros [Hio [[Hf Hn] Hd]] Hname. unfold check_spec. rewrite (str_empty_false _ Hname).
  rewrite (proj2 (in_io_b_In nd (sp_val sp)) Hio). simpl.
  rewrite check_dims_nil; try assumption; [|intros d _ []]. simpl.
  replace (filter _ (sp_dev sp)) with (@nil Z); [reflexivity|].
  symmetry. clear - Hd. induction (sp_dev sp) as [|d r IH]; simpl; [reflexivity|].
  inversion Hd; subst. assert (E : (0 <=? d) && (d <? ndev) = true) by lia. rewrite E. simpl. apply IH. assumption.
Qed.

Lemma check_empty h : DevInv h -> names_nonempty h -> check h = [].
Proof.
  intros [[Hd Hne] Hn] Hnames. unfold check. apply flat_map_nil. intros [n nd] Hp. simpl.
  apply flat_map_nil. intros dc Hdc. unfold nodes_ok, Gen.nodes_ok in Hn. rewrite Forall_forall in Hn.
  pose proof (Hn _ Hp) as Hnd. simpl in Hnd. unfold node_ok, Gen.node_ok in Hnd. rewrite Forall_forall in Hnd.
  destruct (Hnd dc Hdc) as [Hc Hs]. unfold check_dc.
  rewrite Forall_forall in Hne. rewrite (str_empty_false _ (Hne _ Hc)).
  rewrite (find_last_registered _ _ Hd Hc). rewrite c_eqb_refl. simpl.
  apply flat_map_nil. intros sp Hsp. rewrite Forall_forall in Hs. apply check_spec_nil; [apply Hs; exact Hsp|].
  apply (Hnames (n, nd) dc sp); assumption.
Qed.

(* ------------------------------------------------------------------ C19_drop *)
Lemma filter_filter_comm {A} (f g : A -> bool) l : filter f (filter g l) = filter g (filter f l).
Proof. induction l as [|x l IH]; simpl; [reflexivity|]. destruct (f x) eqn:F, (g x) eqn:G; simpl; rewrite ?F, ?G, IH; reflexivity. Qed.

Lemma sharding_of_drop_same dcs v nd0 :
  sharding_of (mkN (n_in nd0) (n_out nd0) (drop_specs v dcs)) v = [].
Proof.
  unfold sharding_of. simpl. apply flat_map_nil. intros dc Hdc. unfold drop_specs in Hdc.
  apply in_map_iff in Hdc. destruct Hdc as [dc0 [<- _]]. simpl.
  induction (dc_specs dc0) as [|sp r IH]; simpl; [reflexivity|].
  destruct (v_eqb (sp_val sp) v) eqn:E; simpl; [exact IH|]. rewrite E. exact IH.
Qed.

Lemma flat_map_map {A B C} (f : B -> list C) (g : A -> B) l : flat_map f (map g l) = flat_map (fun x => f (g x)) l.
Proof. induction l as [|x l IH]; simpl; [reflexivity|]. rewrite IH. reflexivity. Qed.

Lemma sharding_of_drop_other dcs v w i o :
  w <> v -> sharding_of (mkN i o (drop_specs v dcs)) w = sharding_of (mkN i o dcs) w.
Proof.
  intros Hne. unfold sharding_of, drop_specs. simpl. rewrite flat_map_map. simpl.
  apply flat_map_ext. intros dc. rewrite filter_filter_comm.
  induction (dc_specs dc) as [|sp r IH]; simpl; [reflexivity|].
  destruct (v_eqb (sp_val sp) w) eqn:E; simpl; [|exact IH].
  apply v_eqb_eq in E. assert (E2 : v_eqb (sp_val sp) v = false) by (apply v_eqb_neq; congruence).
  rewrite E2. simpl. rewrite IH. reflexivity.
Qed.

(* drop_for o touches exactly the specs of o, and only when o is no longer an input/output *)
Lemma sharding_of_drop_for nd o w :
  sharding_of (drop_for nd o) w =
  if v_eqb w o && negb (in_io_b nd o) then [] else sharding_of nd w.
Proof.
  unfold drop_for. destruct (in_io_b nd o) eqn:E; simpl.
  - rewrite andb_false_r. reflexivity.
  - rewrite andb_true_r. destruct (v_eqb w o) eqn:Ew.
    + apply v_eqb_eq in Ew. subst w. unfold with_dc. apply sharding_of_drop_same.
    + apply v_eqb_neq in Ew. unfold with_dc. rewrite sharding_of_drop_other by exact Ew. destruct nd; reflexivity.
Qed.

(* replace_input_with: exact description of the annotations afterwards *)
Lemma drop_replace_input nd i v nd' :
  replace_input_nd nd i v = Ok nd' ->
  forall w, sharding_of nd' w = if in_io_b nd w && negb (in_io_b nd' w) then [] else sharding_of nd w.
Proof.
  intros M w. destruct (replace_input_nd_cases _ _ _ _ M) as [Hlt Hc].
  set (nd1 := mkN (set_nth (Z.to_nat i) v (n_in nd)) (n_out nd) (n_dc nd)) in *.
  assert (Hs1 : sharding_of nd1 w = sharding_of nd w) by reflexivity.
  assert (Hkeep : forall x, In x (io nd) -> Some x <> nth (Z.to_nat i) (n_in nd) None -> In x (io nd1)).
  { intros x Hx Hne. exact (replace_io_keep nd (Z.to_nat i) v x Hx Hne). }
  destruct Hc as [[Hold ->]|[[Hne [Hold ->]]|[o [Hold [Hneq ->]]]]].
  - rewrite Hs1. destruct (in_io_b nd w) eqn:A; simpl; [|reflexivity].
    apply in_io_b_In in A. assert (B : in_io_b nd1 w = true).
    { apply in_io_b_In. apply Hkeep; [exact A|]. rewrite Hold. discriminate. }
    rewrite B. reflexivity.
  - assert (E : nd1 = nd).
    { unfold nd1. rewrite <- Hold. rewrite set_nth_same by exact Hlt. destruct nd; reflexivity. }
    rewrite E. destruct (in_io_b nd w); reflexivity.
  - rewrite sharding_of_drop_for. unfold in_io_b at 3. rewrite drop_for_io. fold (in_io_b nd1 w). rewrite Hs1.
    assert (Ho : In o (io nd)).
    { apply io_In. left. rewrite <- Hold. apply nth_In. exact Hlt. }
    destruct (v_eqb w o) eqn:Ew; simpl.
    + apply v_eqb_eq in Ew. subst w. rewrite (proj2 (in_io_b_In nd o) Ho). simpl. reflexivity.
    + destruct (in_io_b nd w) eqn:A; simpl; [|reflexivity].
      apply in_io_b_In in A. apply v_eqb_neq in Ew.
      assert (B : in_io_b nd1 w = true).
      { apply in_io_b_In. apply Hkeep; [exact A|]. rewrite Hold. congruence. }
      rewrite B. reflexivity.
Qed.

(* fold of drop_for over the removed outputs *)
Lemma sharding_of_fold_drop rem : forall nd w,
  sharding_of (fold_left drop_for rem nd) w =
  if existsb (v_eqb w) rem && negb (in_io_b nd w) then [] else sharding_of nd w.
Proof.
  induction rem as [|r rem IH]; intros nd w; simpl; [reflexivity|].
  rewrite IH. unfold in_io_b at 1. rewrite drop_for_io. fold (in_io_b nd w). rewrite sharding_of_drop_for.
  destruct (v_eqb w r) eqn:E; simpl.
  - apply v_eqb_eq in E. subst r. destruct (in_io_b nd w); simpl; [rewrite andb_false_r|]; try reflexivity.
    destruct (existsb (v_eqb w) rem); reflexivity.
  - reflexivity.
Qed.

Lemma fold_drop_io rem : forall nd, io (fold_left drop_for rem nd) = io nd.
Proof. induction rem as [|r rem IH]; intros nd; simpl; [reflexivity|]. rewrite IH. apply drop_for_io. Qed.

(* get_node after set_node *)
Lemma find_set_node_l_other n m nd l : m <> n ->
  find (fun p : Z * node => fst p =? m) (set_node_l n nd l) = find (fun p => fst p =? m) l.
Proof.
  intros Hne. induction l as [|[k x] l IH]; simpl; [reflexivity|].
  destruct (k =? n) eqn:E; simpl.
  - apply Z.eqb_eq in E. subst k. assert (E2 : n =? m = false) by lia. rewrite E2. exact IH.
  - destruct (k =? m); [reflexivity | exact IH].
Qed.

Lemma get_set_node_other h n nd m : m <> n -> get_node (set_node h n nd) m = get_node h m.
Proof. intros Hne. unfold get_node, set_node. simpl. rewrite find_set_node_l_other by exact Hne. reflexivity. Qed.

Lemma find_set_node_l_same n nd l x :
  find (fun p : Z * node => fst p =? n) l = Some x ->
  find (fun p : Z * node => fst p =? n) (set_node_l n nd l) = Some (n, nd).
Proof.
  induction l as [|[k y] l IH]; simpl; [discriminate|].
  destruct (k =? n) eqn:E; simpl.
  - intros _. rewrite Z.eqb_refl. reflexivity.
  - rewrite E. exact IH.
Qed.

Lemma get_set_node_same h n nd nd0 : get_node h n = Some nd0 -> get_node (set_node h n nd) n = Some nd.
Proof.
  unfold get_node, set_node. simpl. destruct (find _ (s_nodes h)) as [x|] eqn:E; [|discriminate].
  intros _. rewrite (find_set_node_l_same _ _ _ _ E). reflexivity.
Qed.

Lemma drop_replace_input_state h n i v h' :
  exec h (OReplaceInput n i v) = (h', Ok tt) ->
  exists nd nd', get_node h n = Some nd /\ get_node h' n = Some nd'
  /\ (forall w, sharding_of nd' w = if in_io_b nd w && negb (in_io_b nd' w) then [] else sharding_of nd w)
  /\ (forall m, m <> n -> get_node h' m = get_node h m).
Proof.
  simpl. unfold on_node. destruct (get_node h n) as [nd|] eqn:G; [|discriminate].
  destruct (replace_input_nd nd i v) as [nd'|e] eqn:R; [|discriminate]. intros [= <-].
  exists nd, nd'. split; [reflexivity|]. split; [eapply get_set_node_same; exact G|].
  split; [exact (drop_replace_input _ _ _ _ R)|]. intros m Hm. apply get_set_node_other. exact Hm.
Qed.

Lemma drop_resize_outputs_state h n k h' :
  exec h (OResizeOut n k) = (h', Ok tt) ->
  exists nd nd', get_node h n = Some nd /\ get_node h' n = Some nd'
  /\ (forall w, sharding_of nd' w = if in_io_b nd w && negb (in_io_b nd' w) then [] else sharding_of nd w)
  /\ (forall m, m <> n -> get_node h' m = get_node h m).
Proof.
  simpl. unfold resize_outputs. destruct (get_node h n) as [nd|] eqn:G; [|discriminate].
  destruct (k <? 0); [discriminate|].
  destruct (Z.to_nat k <? length (n_out nd))%nat eqn:Hlt.
  - destruct (existsb (uses_b h) (skipn (Z.to_nat k) (n_out nd))); [discriminate|]. intros [= <-].
    set (nd1 := mkN (n_in nd) (firstn (Z.to_nat k) (n_out nd)) (n_dc nd)).
    set (rem := skipn (Z.to_nat k) (n_out nd)).
    exists nd, (fold_left drop_for rem nd1). split; [reflexivity|].
    split; [eapply get_set_node_same; exact G|]. split; [|intros m Hm; apply get_set_node_other; exact Hm].
    intros w. rewrite sharding_of_fold_drop. unfold in_io_b at 3. rewrite fold_drop_io. fold (in_io_b nd1 w).
    change (sharding_of nd1 w) with (sharding_of nd w).
    destruct (in_io_b nd1 w) eqn:B; simpl.
    + rewrite !andb_false_r. reflexivity.
    + rewrite !andb_true_r. destruct (existsb (v_eqb w) rem) eqn:X.
      * assert (A : in_io_b nd w = true).
        { apply in_io_b_In. apply io_In. right. apply existsb_v_In in X. unfold rem in X.
          rewrite <- (firstn_skipn (Z.to_nat k) (n_out nd)). apply in_app_iff. right. exact X. }
        rewrite A. reflexivity.
      * destruct (in_io_b nd w) eqn:A; [|reflexivity]. exfalso.
        apply in_io_b_In in A. apply io_In in A.
        assert (Hn1 : ~ In w (io nd1)) by (intros H; apply in_io_b_In in H; congruence).
        assert (Hn2 : ~ In w rem) by (intros H; apply existsb_v_In in H; congruence).
        destruct A as [A|A].
        -- apply Hn1. apply io_In. left. exact A.
        -- rewrite <- (firstn_skipn (Z.to_nat k) (n_out nd)) in A. apply in_app_iff in A. destruct A as [A|A].
           ++ apply Hn1. apply io_In. right. exact A.
           ++ apply Hn2. exact A.
  - intros [= <-]. eexists nd, _. split; [reflexivity|].
    split; [unfold get_node; simpl; unfold get_node in G; destruct (find _ (s_nodes h)) as [x|] eqn:E; [|discriminate];
            rewrite (find_set_node_l_same _ _ _ _ E); reflexivity|].
    split.
    + intros w. unfold sharding_of at 1. simpl. fold (sharding_of nd w).
      destruct (in_io_b nd w) eqn:A; simpl; [|reflexivity].
      match goal with |- context [in_io_b ?x w] => assert (B : in_io_b x w = true) end.
      { apply in_io_b_In. apply in_io_b_In in A. apply io_In in A. apply io_In. simpl. rewrite in_app_iff. tauto. }
      rewrite B. reflexivity.
    + intros m Hm. unfold get_node. simpl. rewrite find_set_node_l_other by exact Hm. reflexivity.
Qed.

(* resize_inputs: the loop of replace_input_with(i, None) *)
Lemma clear_inputs_sharding : forall cnt nd i w,
  (i + cnt <= length (n_in nd))%nat ->
  let nd' := clear_inputs nd i cnt in
  (forall x, In x (io nd') -> In x (io nd)) /\
  sharding_of nd' w = if in_io_b nd w && negb (in_io_b nd' w) then [] else sharding_of nd w.
Proof.
  induction cnt as [|c IH]; intros nd i w Hlen; simpl.
  - split; [auto|]. destruct (in_io_b nd w); reflexivity.
  - destruct (replace_input_nd_in_range nd i None) as [nd1 E]; [lia|]. rewrite E.
    pose proof (replace_input_nd_in _ _ _ _ E) as Hin. rewrite Nat2Z.id in Hin.
    pose proof (replace_input_nd_out _ _ _ _ E) as Hout.
    assert (Hsub : forall x, In x (io nd1) -> In x (io nd)).
    { intros x Hx. apply io_In in Hx. apply io_In. rewrite Hin, Hout in Hx. destruct Hx as [Hx|Hx]; [left|right; exact Hx].
      clear - Hx. revert i Hx. induction (n_in nd) as [|y l IHl]; intros [|i] Hx; simpl in *; try contradiction.
      - destruct Hx as [Hx|Hx]; [discriminate | right; exact Hx].
      - destruct Hx as [Hx|Hx]; [left; exact Hx | right; eapply IHl; exact Hx]. }
    destruct (IH nd1 (S i) w) as [Hsub2 Hsh].
    { rewrite Hin, set_nth_length. lia. }
    split; [intros x Hx; apply Hsub; apply Hsub2; exact Hx|].
    rewrite Hsh. rewrite (drop_replace_input _ _ _ _ E w).
    set (nd2 := clear_inputs nd1 (S i) c) in *.
    destruct (in_io_b nd w) eqn:A, (in_io_b nd1 w) eqn:B, (in_io_b nd2 w) eqn:C; simpl; try reflexivity.
    all: exfalso;
      try (apply in_io_b_In in C; apply Hsub2 in C; apply in_io_b_In in C; congruence);
      try (apply in_io_b_In in B; apply Hsub in B; apply in_io_b_In in B; congruence).
Qed.

Lemma clear_inputs_struct : forall cnt nd i,
  (i + cnt <= length (n_in nd))%nat ->
  let nd' := clear_inputs nd i cnt in
  length (n_in nd') = length (n_in nd) /\ n_out nd' = n_out nd
  /\ (forall j, (i <= j < i + cnt)%nat -> nth j (n_in nd') None = None)
  /\ (forall j, (j < i)%nat -> nth j (n_in nd') None = nth j (n_in nd) None).
Proof.
  induction cnt as [|c IH]; intros nd i Hlen; simpl.
  - repeat split; auto. intros j Hj. lia.
  - destruct (replace_input_nd_in_range nd i None) as [nd1 E]; [lia|]. rewrite E.
    pose proof (replace_input_nd_in _ _ _ _ E) as Hin. rewrite Nat2Z.id in Hin.
    pose proof (replace_input_nd_out _ _ _ _ E) as Hout.
    assert (Hl1 : length (n_in nd1) = length (n_in nd)) by (rewrite Hin; apply set_nth_length).
    destruct (IH nd1 (S i)) as [B [C [D F]]]; [lia|].
    split; [lia|]. split; [congruence|]. split.
    + intros j Hj. destruct (Nat.eq_dec j i) as [->|Hne].
      * rewrite F by lia. rewrite Hin. apply nth_set_nth_eq. lia.
      * apply D. lia.
    + intros j Hj. rewrite F by lia. rewrite Hin. apply nth_set_nth_neq. lia.
Qed.

Lemma bool_eq_iff (a b : bool) : (a = true <-> b = true) -> a = b.
Proof. destruct a, b; intros [H1 H2]; auto; try (symmetry; apply H1; reflexivity); try (apply H2; reflexivity). Qed.

Lemma drop_resize_inputs nd k nd' :
  resize_inputs_nd nd k = Ok nd' ->
  forall w, sharding_of nd' w = if in_io_b nd w && negb (in_io_b nd' w) then [] else sharding_of nd w.
Proof.
  unfold resize_inputs_nd. intros M w. destruct (k <? 0); [discriminate|].
  destruct (Z.to_nat k <? length (n_in nd))%nat eqn:E.
  - apply Nat.ltb_lt in E. injection M as <-.
    set (nd1 := clear_inputs nd (Z.to_nat k) (length (n_in nd) - Z.to_nat k)).
    destruct (clear_inputs_sharding (length (n_in nd) - Z.to_nat k) nd (Z.to_nat k) w) as [Hsub Hsh]; [lia|].
    fold nd1 in Hsub, Hsh.
    destruct (clear_inputs_struct (length (n_in nd) - Z.to_nat k) nd (Z.to_nat k)) as [B [C [D F]]]; [lia|].
    fold nd1 in B, C, D, F.
    set (nd2 := mkN (firstn (Z.to_nat k) (n_in nd1)) (n_out nd1) (n_dc nd1)).
    change (sharding_of nd2 w) with (sharding_of nd1 w). rewrite Hsh.
    assert (Hio : in_io_b nd2 w = in_io_b nd1 w).
    { apply bool_eq_iff. rewrite !in_io_b_In, !io_In. simpl. split; intros [H|H]; auto; left.
      - rewrite <- (firstn_skipn (Z.to_nat k) (n_in nd1)). apply in_app_iff. left. exact H.
      - apply firstn_keeps_somes; [|exact H]. intros j Hj. apply D. lia. }
    rewrite Hio. reflexivity.
  - injection M as <-. unfold sharding_of at 1. simpl. fold (sharding_of nd w).
    destruct (in_io_b nd w) eqn:A; simpl; [|reflexivity].
    match goal with |- context [in_io_b ?x w] => assert (B : in_io_b x w = true) end.
    { apply in_io_b_In. apply in_io_b_In in A. unfold io in *. simpl. rewrite somes_app_none. exact A. }
    rewrite B. reflexivity.
Qed.

(* ------------------------------------------------------------------ the checker on DevInvW states *)
(* after shape edits the only thing the library's check can report is about axes: out of range (7), repeated (8) *)
Definition axis_err (e : err) : Prop := fst (fst e) = 7 \/ fst (fst e) = 8.

Lemma Forall_flat_map {A B} (P : B -> Prop) (f : A -> list B) l :
  (forall x, In x l -> Forall P (f x)) -> Forall P (flat_map f l).
Proof.
  induction l as [|x l IH]; simpl; intros H; [constructor|]. apply Forall_app. split.
  - apply H. left. reflexivity.
  - apply IH. intros y Hy. apply H. right. exact Hy.
Qed.

Lemma check_dims_axis n rank : forall dims seen,
  Forall (fun d => 1 <= sd_shards d) dims -> Forall axis_err (check_dims n rank seen dims).
Proof.
  induction dims as [|d r IH]; intros seen F; simpl; [constructor|]. inversion F as [|? ? Hs Fr]; subst.
  assert (E : sd_shards d <? 1 = false) by lia. rewrite E.
  destruct (negb (in_range rank (sd_axis d))).
  - constructor; [left; reflexivity|]. simpl. apply IH. exact Fr.
  - apply Forall_app. split.
    + destruct (zmem _ seen); [constructor; [right; reflexivity | constructor] | constructor].
    + simpl. apply IH. exact Fr.
Qed.

Lemma check_weak h : DevInvW h -> names_nonempty h -> Forall axis_err (check h).
Proof.
  intros [[Hd Hne] Hn] Hnames. unfold check. apply Forall_flat_map. intros [n nd] Hp. simpl.
  apply Forall_flat_map. intros dc Hdc. unfold Gen.nodes_ok in Hn. rewrite Forall_forall in Hn.
  pose proof (Hn _ Hp) as Hnd. simpl in Hnd. unfold Gen.node_ok in Hnd. rewrite Forall_forall in Hnd.
  destruct (Hnd dc Hdc) as [Hc Hs]. unfold check_dc.
  rewrite Forall_forall in Hne. rewrite (str_empty_false _ (Hne _ Hc)).
  rewrite (find_last_registered _ _ Hd Hc). rewrite c_eqb_refl. simpl.
  apply Forall_flat_map. intros sp Hsp. rewrite Forall_forall in Hs. destruct (Hs sp Hsp) as [Hio [[Hf _] Hdv]].
  unfold check_spec. rewrite (str_empty_false _ (Hnames (n, nd) dc sp Hp Hdc Hsp)).
  rewrite (proj2 (in_io_b_In nd (sp_val sp)) Hio). simpl.
  apply Forall_app. split.
  - apply check_dims_axis. eapply Forall_impl; [|exact Hf]. intros d [_ H]. exact H.
  - replace (filter _ (sp_dev sp)) with (@nil Z); [constructor|].
    symmetry. clear - Hdv. induction (sp_dev sp) as [|d r IH]; simpl; [reflexivity|].
    inversion Hdv; subst. assert (E : (0 <=? d) && (d <? c_ndev (dc_cfg dc)) = true) by lia. rewrite E. simpl.
    apply IH. assumption.
Qed.

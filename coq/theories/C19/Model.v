(* C19/Model.v — executable model of the object-bound multi-device annotations of onnx/ir-py.

   Python objects are modelled by records carrying an identity and their IMMUTABLE attributes:
     valobj  = Value            (identity, rank = len(shape) or None — the alphabet never edits the
                                 shape of a value, DESIGN §6 C19 reading decision; the mutable name
                                 lives in the state's name table keyed by identity)
     cfgobj  = ModelConfiguration (frozen dataclass: identity, name, num_devices)
   `is` is equality of records (two live objects never share an identity).

   Modelled code (src/onnx_ir):
     _core.Node.shard / set_pipeline_stage / sharding_of / _drop_sharding_for_value,
     Node.replace_input_with / resize_outputs / resize_inputs, Graph.remove(safe=True),
     Model.add_device_configuration / remove_device_configuration(cascade),
     Value.name setter (non-initializer), Model.clone (+ _cloner._remap_device_configurations),
     serde: serialize_node_device_configuration, to_proto/from_proto of the multi-device fields gated
     on ir_version 11 with _resolve_sharded_value / _resolve_node_device_configurations,
     _multi_device._check_device_configurations.
   The model has a main graph, one function and arbitrarily nested subgraph bodies (scinfo): name resolution
   on deserialization goes through the scope stack (resolve), the cloner enters a node's outputs into its
   value map after the node's bodies (pending), the IR-version gate applies at every depth (rt_keep).
   Executable definitions only. *)
From Coq Require Import ZArith List Bool Lia.
From IRV Require Import Base.Exn.
Import ListNotations.
Open Scope Z_scope.

Definition str := list Z.
Definition str_eqb : str -> str -> bool := list_eqb Z.eqb.
Definition str_empty (s : str) : bool := match s with [] => true | _ => false end.

Record valobj := mkV { v_id : Z; v_rank : option Z }.
Record cfgobj := mkC { c_id : Z; c_name : str; c_ndev : Z }.
Record sdim := mkD { sd_axis : Z; sd_shards : Z }.
Record spec := mkS { sp_val : valobj; sp_dev : list Z; sp_dims : list sdim }.
Record ndc := mkDC { dc_cfg : cfgobj; dc_stage : option Z; dc_specs : list spec }.
Record node := mkN { n_in : list (option valobj); n_out : list valobj; n_dc : list ndc }.
(* Nesting of graphs.  Scope 0 is the main graph, scope 1 the function body, scopes >= 2 are subgraph bodies
   (graph attributes of a node, If/Loop style, without graph inputs of their own).  s_gin lists the main graph's
   inputs (the first sc_nmain) followed by the function's inputs. *)
Record scinfo := mkSc {
  sc_nmain  : nat;               (* number of main-graph inputs at the front of s_gin *)
  sc_nscope : list (Z * Z);      (* node handle -> scope the node lives in (absent: 0) *)
  sc_parent : list (Z * Z) }.    (* body scope -> enclosing scope *)
Record state := mkSt {
  s_names : list (Z * str);      (* value identity -> current name; first binding wins; absent = None/"" *)
  s_nodes : list (Z * node);     (* node handle -> node, in all_nodes order (main graph, then functions) *)
  s_gin   : list valobj;         (* graph / function inputs *)
  s_cfgs  : list cfgobj;         (* Model.device_configurations *)
  s_nextv : Z; s_nextc : Z;      (* next fresh identities *)
  s_ir    : Z;                   (* Model.ir_version *)
  s_sc    : scinfo }.            (* graph nesting (constant: no op moves a node to another graph) *)

Definition v_eqb (a b : valobj) : bool := (v_id a =? v_id b) && option_eqb Z.eqb (v_rank a) (v_rank b).
Definition c_eqb (a b : cfgobj) : bool :=
  (c_id a =? c_id b) && str_eqb (c_name a) (c_name b) && (c_ndev a =? c_ndev b).
Definition ov_eqb : option valobj -> option valobj -> bool := option_eqb v_eqb.
Definition zmem (x : Z) (l : list Z) : bool := existsb (Z.eqb x) l.

(* ---------------------------------------------------------------- accessors *)
Fixpoint somes {A} (l : list (option A)) : list A :=
  match l with [] => [] | Some x :: r => x :: somes r | None :: r => somes r end.
Definition io (nd : node) : list valobj := somes (n_in nd) ++ n_out nd.
Definition in_io_b (nd : node) (v : valobj) : bool := existsb (v_eqb v) (io nd).

Definition name_of (h : state) (v : valobj) : str :=
  match find (fun p => fst p =? v_id v) (s_names h) with Some p => snd p | None => [] end.

Definition get_node (h : state) (n : Z) : option node :=
  option_map snd (find (fun p => fst p =? n) (s_nodes h)).
Definition set_node_l (n : Z) (nd : node) (l : list (Z * node)) : list (Z * node) :=
  map (fun p => if fst p =? n then (n, nd) else p) l.
Definition with_nodes (h : state) (l : list (Z * node)) : state :=
  mkSt (s_names h) l (s_gin h) (s_cfgs h) (s_nextv h) (s_nextc h) (s_ir h) (s_sc h).
Definition set_node (h : state) (n : Z) (nd : node) : state := with_nodes h (set_node_l n nd (s_nodes h)).
Definition with_dc (nd : node) (dcs : list ndc) : node := mkN (n_in nd) (n_out nd) dcs.

Definition normalize (rank : option Z) (a : Z) : Z :=
  match rank with Some r => if a <? 0 then a + r else a | None => a end.
Definition in_range (rank : option Z) (a : Z) : bool :=
  match rank with Some r => (- r <=? a) && (a <? r) | None => true end.

(* Node.sharding_of *)
Definition sharding_of (nd : node) (v : valobj) : list spec :=
  flat_map (fun dc => filter (fun sp => v_eqb (sp_val sp) v) (dc_specs dc)) (n_dc nd).

(* ---------------------------------------------------------------- Node.shard *)
Fixpoint merge_specs (v : valobj) (d : sdim) (devs : list Z) (specs : list spec) : res (list spec) :=
  match specs with
  | [] => Ok [mkS v devs [d]]
  | sp :: r =>
      if v_eqb (sp_val sp) v then
        if existsb (fun e => normalize (v_rank v) (sd_axis e) =? normalize (v_rank v) (sd_axis d)) (sp_dims sp)
        then Raise ValueError
        else Ok (mkS (sp_val sp) (sp_dev sp ++ filter (fun x => negb (zmem x (sp_dev sp))) devs)
                     (sp_dims sp ++ [d]) :: r)
      else match merge_specs v d devs r with Ok r' => Ok (sp :: r') | Raise e => Raise e end
  end.

Definition stage_conflict (new old : option Z) : bool :=
  match new, old with Some a, Some b => negb (a =? b) | _, _ => false end.

Fixpoint shard_dcs (c : cfgobj) (v : valobj) (d : sdim) (devs : list Z) (stage : option Z)
         (dcs : list ndc) : res (list ndc) :=
  match dcs with
  | [] => Ok [mkDC c stage [mkS v devs [d]]]
  | dc :: r =>
      if c_eqb (dc_cfg dc) c then
        if stage_conflict stage (dc_stage dc) then Raise ValueError
        else match merge_specs v d devs (dc_specs dc) with
             | Ok specs => Ok (mkDC (dc_cfg dc) (match stage with Some s => Some s | None => dc_stage dc end) specs :: r)
             | Raise e => Raise e
             end
      else match shard_dcs c v d devs stage r with Ok r' => Ok (dc :: r') | Raise e => Raise e end
  end.

Definition shard_nd (nd : node) (v : valobj) (c : cfgobj) (axis shards : Z) (devs : list Z)
           (stage : option Z) : res node :=
  if negb (in_io_b nd v) then Raise ValueError
  else if shards <? 1 then Raise ValueError
  else if match stage with Some s => s <? 0 | None => false end then Raise ValueError
  else if negb (in_range (v_rank v) axis) then Raise ValueError
  else match shard_dcs c v (mkD axis shards) devs stage (n_dc nd) with
       | Ok dcs => Ok (with_dc nd dcs)
       | Raise e => Raise e
       end.

(* ---------------------------------------------------------------- Node.set_pipeline_stage *)
Fixpoint stage_dcs (c : cfgobj) (s : Z) (dcs : list ndc) : list ndc :=
  match dcs with
  | [] => [mkDC c (Some s) []]
  | dc :: r => if c_eqb (dc_cfg dc) c then mkDC (dc_cfg dc) (Some s) (dc_specs dc) :: r
               else dc :: stage_dcs c s r
  end.
Definition stage_nd (nd : node) (c : cfgobj) (s : Z) : res node :=
  if s <? 0 then Raise ValueError else Ok (with_dc nd (stage_dcs c s (n_dc nd))).

(* ---------------------------------------------------------------- _drop_sharding_for_value *)
Definition drop_specs (v : valobj) (dcs : list ndc) : list ndc :=
  map (fun dc => mkDC (dc_cfg dc) (dc_stage dc) (filter (fun sp => negb (v_eqb (sp_val sp) v)) (dc_specs dc))) dcs.
Definition drop_for (nd : node) (v : valobj) : node :=
  if in_io_b nd v then nd else with_dc nd (drop_specs v (n_dc nd)).

(* ---------------------------------------------------------------- replace_input_with / resize_* *)
Fixpoint set_nth {A} (i : nat) (x : A) (l : list A) : list A :=
  match l, i with
  | [], _ => []
  | _ :: r, O => x :: r
  | y :: r, S k => y :: set_nth k x r
  end.

Definition replace_input_nd (nd : node) (i : Z) (v : option valobj) : res node :=
  if (i <? 0) || (Z.of_nat (length (n_in nd)) <=? i) then Raise ValueError
  else
    let old := nth (Z.to_nat i) (n_in nd) None in
    let nd1 := mkN (set_nth (Z.to_nat i) v (n_in nd)) (n_out nd) (n_dc nd) in
    Ok (match old with
        | Some o => if ov_eqb (Some o) v then nd1 else drop_for nd1 o
        | None => nd1
        end).

(* resize_inputs shrinking: replace_input_with(i, None) for i = k .. len-1, then truncate *)
Fixpoint clear_inputs (nd : node) (i : nat) (cnt : nat) : node :=
  match cnt with
  | O => nd
  | S c => match replace_input_nd nd (Z.of_nat i) None with
           | Ok nd' => clear_inputs nd' (S i) c
           | Raise _ => nd      (* unreachable: i < len *)
           end
  end.
Definition resize_inputs_nd (nd : node) (k : Z) : res node :=
  if k <? 0 then Raise OtherError else
  let len := length (n_in nd) in
  let kn := Z.to_nat k in
  if (kn <? len)%nat then
    let nd' := clear_inputs nd kn (len - kn) in
    Ok (mkN (firstn kn (n_in nd')) (n_out nd') (n_dc nd'))
  else Ok (mkN (n_in nd ++ repeat None (kn - len)) (n_out nd) (n_dc nd)).

Definition uses_b (h : state) (v : valobj) : bool :=
  existsb (fun p => existsb (ov_eqb (Some v)) (n_in (snd p))) (s_nodes h).

Fixpoint fresh_none (next : Z) (cnt : nat) : list valobj :=
  match cnt with O => [] | S c => mkV next None :: fresh_none (next + 1) c end.

Definition resize_outputs (h : state) (n : Z) (k : Z) : state * res unit :=
  match get_node h n with
  | None => (h, Raise OtherError)
  | Some nd =>
      if k <? 0 then (h, Raise OtherError) else
      let len := length (n_out nd) in
      let kn := Z.to_nat k in
      if (kn <? len)%nat then
        let removed := skipn kn (n_out nd) in
        if existsb (uses_b h) removed then (h, Raise ValueError)
        else
          let nd1 := mkN (n_in nd) (firstn kn (n_out nd)) (n_dc nd) in
          (set_node h n (fold_left drop_for removed nd1), Ok tt)
      else
        let new := fresh_none (s_nextv h) (kn - len) in
        let h' := mkSt (s_names h) (set_node_l n (mkN (n_in nd) (n_out nd ++ new) (n_dc nd)) (s_nodes h))
                       (s_gin h) (s_cfgs h) (s_nextv h + Z.of_nat (kn - len)) (s_nextc h) (s_ir h) (s_sc h) in
        (h', Ok tt)
  end.

(* ---------------------------------------------------------------- Graph.remove(node, safe=True) *)
Definition used_by_others (h : state) (n : Z) (v : valobj) : bool :=
  existsb (fun p => negb (fst p =? n) && existsb (ov_eqb (Some v)) (n_in (snd p))) (s_nodes h).
Definition remove_node (h : state) (n : Z) : state * res unit :=
  match get_node h n with
  | None => (h, Raise OtherError)
  | Some nd =>
      if existsb (used_by_others h n) (n_out nd) then (h, Raise ValueError)
      else (with_nodes h (filter (fun p => negb (fst p =? n)) (s_nodes h)), Ok tt)
  end.

(* ---------------------------------------------------------------- Model.add_/remove_device_configuration *)
Definition with_cfgs_nodes (h : state) (cfgs : list cfgobj) (nodes : list (Z * node)) (nextc : Z) : state :=
  mkSt (s_names h) nodes (s_gin h) cfgs (s_nextv h) nextc (s_ir h) (s_sc h).

Definition add_cfg (h : state) (name : str) (ndev : Z) : state * res unit :=
  if str_empty name then (h, Raise ValueError)
  else if existsb (fun c => str_eqb (c_name c) name) (s_cfgs h) then (h, Raise ValueError)
  else if ndev <? 1 then (h, Raise ValueError)
  else (with_cfgs_nodes h (s_cfgs h ++ [mkC (s_nextc h) name ndev]) (s_nodes h) (s_nextc h + 1), Ok tt).

Definition cascade_nodes (is_target : cfgobj -> bool) (nodes : list (Z * node)) : list (Z * node) :=
  map (fun p => (fst p, with_dc (snd p) (filter (fun dc => negb (is_target (dc_cfg dc))) (n_dc (snd p))))) nodes.

Definition remove_cfg (h : state) (target : cfgobj) (by_name cascade : bool) : state * res unit :=
  let cfgs := filter (fun c => negb (c_eqb c target)) (s_cfgs h) in
  let is_target := fun c => c_eqb c target || (by_name && str_eqb (c_name c) (c_name target)) in
  (with_cfgs_nodes h cfgs (if cascade then cascade_nodes is_target (s_nodes h) else s_nodes h) (s_nextc h), Ok tt).

Definition remove_cfg_obj (h : state) (c : cfgobj) (cascade : bool) : state * res unit :=
  if existsb (c_eqb c) (s_cfgs h) then remove_cfg h c false cascade else (h, Raise ValueError).
Definition remove_cfg_name (h : state) (name : str) (cascade : bool) : state * res unit :=
  match find (fun c => str_eqb (c_name c) name) (s_cfgs h) with
  | Some t => remove_cfg h t true cascade
  | None => (h, Raise ValueError)
  end.

(* ---------------------------------------------------------------- Value.name = ... *)
Definition rename (h : state) (v : valobj) (name : str) : state :=
  mkSt ((v_id v, name) :: s_names h) (s_nodes h) (s_gin h) (s_cfgs h) (s_nextv h) (s_nextc h) (s_ir h) (s_sc h).

(* ---------------------------------------------------------------- graph nesting *)
Definition zlookup (k : Z) (l : list (Z * Z)) : option Z :=
  option_map snd (find (fun p => fst p =? k) l).
Definition node_scope (h : state) (n : Z) : Z :=
  match zlookup n (sc_nscope (s_sc h)) with Some s => s | None => 0 end.
Definition parent_of (h : state) (s : Z) : option Z := zlookup s (sc_parent (s_sc h)).
Definition scopes (h : state) : list Z := 0 :: 1 :: map fst (sc_parent (s_sc h)).

Fixpoint depth_f (h : state) (fuel : nat) (s : Z) : nat :=
  match fuel, parent_of h s with S f, Some p => S (depth_f h f p) | _, _ => O end.
Definition depth (h : state) (s : Z) : nat := depth_f h (length (sc_parent (s_sc h))) s.
Fixpoint root_f (h : state) (fuel : nat) (s : Z) : Z :=
  match fuel, parent_of h s with S f, Some p => root_f h f p | _, _ => s end.
Definition root_of (h : state) (s : Z) : Z := root_f h (length (sc_parent (s_sc h))) s.

(* ---------------------------------------------------------------- Value.shape = ... (rank edit) *)
(* The rank is part of the record that stands for the Value object, so editing the shape of v replaces the record
   of v by (identity of v, new rank) wherever the object is referenced: node inputs/outputs, sharding specs,
   graph inputs.  Nothing in the library revisits the recorded axes when a shape changes. *)
Definition sub_v (v v' : valobj) (x : valobj) : valobj := if v_eqb x v then v' else x.
Definition sub_node (v v' : valobj) (nd : node) : node :=
  mkN (map (option_map (sub_v v v')) (n_in nd)) (map (sub_v v v') (n_out nd))
      (map (fun dc => mkDC (dc_cfg dc) (dc_stage dc)
                        (map (fun sp => mkS (sub_v v v' (sp_val sp)) (sp_dev sp) (sp_dims sp)) (dc_specs dc)))
           (n_dc nd)).
Definition set_rank (h : state) (v : valobj) (r : option Z) : state :=
  let v' := mkV (v_id v) r in
  mkSt (s_names h) (map (fun p => (fst p, sub_node v v' (snd p))) (s_nodes h)) (map (sub_v v v') (s_gin h))
       (s_cfgs h) (s_nextv h) (s_nextc h) (s_ir h) (s_sc h).

(* ---------------------------------------------------------------- Model.clone *)
Definition vmap := list (valobj * valobj).     (* first binding wins: later dict writes are prepended *)
Definition vm_get (m : vmap) (v : valobj) : option valobj :=
  option_map snd (find (fun p => v_eqb (fst p) v) m).
Definition vm_apply (m : vmap) (v : valobj) : valobj := match vm_get m v with Some w => w | None => v end.

Fixpoint fresh_from (next : Z) (olds : list valobj) : list valobj :=
  match olds with [] => [] | o :: r => mkV next (v_rank o) :: fresh_from (next + 1) r end.

(* allow = Cloner(allow_outer_scope_values=True): an input that is not in the value map is passed through
   unchanged instead of raising — unless it is an output of a node of the graphs being cloned (`own`): such a
   use-before-definition raises, either at once (Cloner._own_outputs) or in the post-check at the end of the
   graph that defines it (Cloner._passed_through); the clone never keeps a reference into the original graph. *)
Fixpoint clone_inputs (allow : bool) (own : list valobj) (m : vmap) (ins : list (option valobj))
  : option (list (option valobj)) :=
  match ins with
  | [] => Some []
  | None :: r => option_map (cons None) (clone_inputs allow own m r)
  | Some v :: r => match vm_get m v with
                   | None => if allow && negb (existsb (v_eqb v) own)
                             then option_map (cons (Some v)) (clone_inputs allow own m r)
                             else None       (* ValueError wrapped in RuntimeError *)
                   | Some w => option_map (cons (Some w)) (clone_inputs allow own m r)
                   end
  end.

Definition remap_dcs (m : vmap) (dcs : list ndc) : list ndc :=
  map (fun dc => mkDC (dc_cfg dc) (dc_stage dc)
                   (map (fun sp => mkS (vm_apply m (sp_val sp)) (sp_dev sp) (sp_dims sp)) (dc_specs dc))) dcs.

(* Nodes are visited in all_nodes() order (a node, then the nodes of its bodies).  Cloner.clone_node maps the
   inputs, clones the bodies, and only then enters the node's outputs into the value map: the outputs of a
   node at nesting depth d stay PENDING while deeper nodes (its bodies) are cloned and enter the map when the
   next node of depth <= d is reached.  The node's own device configurations are remapped with its outputs
   in the map.  returns cloned nodes, new name bindings, next id *)
Definition pending := list (nat * vmap).
Fixpoint flush (d : nat) (pend : pending) (m : vmap) : pending * vmap :=
  match pend with
  | [] => ([], m)
  | (d', b) :: r => if (d <=? d')%nat then flush d r (b ++ m) else (pend, m)
  end.

Fixpoint clone_nodes (h : state) (allow : bool) (own : list valobj) (pend : pending) (m : vmap) (next : Z) (nodes : list (Z * node))
  : option (list (Z * node) * list (Z * str) * Z) :=
  match nodes with
  | [] => Some ([], [], next)
  | (n, nd) :: r =>
      let d := depth h (node_scope h n) in
      let '(pend1, m1) := flush d pend m in
      (* Function.clone has no allow_outer_scope_values: the flag concerns the main graph and its bodies *)
      match clone_inputs (allow && (root_of h (node_scope h n) =? 0)) own m1 (n_in nd) with
      | None => None
      | Some ins' =>
          let outs' := fresh_from next (n_out nd) in
          let bind := rev (combine (n_out nd) outs') in
          let nd' := mkN ins' outs' (remap_dcs (bind ++ m1) (n_dc nd)) in
          let names := map (fun p => (v_id (snd p), name_of h (fst p))) (combine (n_out nd) outs') in
          match clone_nodes h allow own ((d, bind) :: pend1) m1 (next + Z.of_nat (length (n_out nd))) r with
          | None => None
          | Some (r', names', next') => Some ((n, nd') :: r', names ++ names', next')
          end
      end
  end.

(* Model.clone(deep_copy=deep): deep only concerns the metadata stores — the configurations of the clone are the
   SAME objects as the original's, so the cloned nodes' references stay registered.  allow = the model is
   re-assembled from Graph.clone(allow_outer_scope_values=True) (+ Function.clone, same configurations). *)
Definition clone (h : state) (deep allow : bool) : state * res unit :=
  let gin' := fresh_from (s_nextv h) (s_gin h) in
  let binds := combine (s_gin h) gin' in
  let names0 := map (fun p => (v_id (snd p), name_of h (fst p))) binds in
  let is_main := fun p : Z * node => root_of h (node_scope h (fst p)) =? 0 in
  let own := flat_map (fun p => if is_main p then n_out (snd p) else []) (s_nodes h) in
  (* Model.clone: self.graph.clone() and func.clone() use one Cloner each — separate value maps: a function node
     reading a main-graph value (or the reverse) is an "outer-scope value" for its cloner *)
  let m_main := rev (firstn (sc_nmain (s_sc h)) binds) in
  let m_func := rev (skipn (sc_nmain (s_sc h)) binds) in
  match clone_nodes h allow own [] m_main (s_nextv h + Z.of_nat (length (s_gin h))) (filter is_main (s_nodes h)) with
  | None => (h, Raise RuntimeError)
  | Some (nodes1, names1, next1) =>
      match clone_nodes h allow own [] m_func next1 (filter (fun p => negb (is_main p)) (s_nodes h)) with
      | None => (h, Raise RuntimeError)
      | Some (nodes2, names2, next2) =>
          (mkSt (names0 ++ names1 ++ names2 ++ s_names h) (nodes1 ++ nodes2) gin' (s_cfgs h) next2 (s_nextc h)
                (s_ir h) (s_sc h), Ok tt)
      end
  end.

(* ---------------------------------------------------------------- serialization of the references *)
(* NodeDeviceConfigurationProto restricted to what the property observes:
   (configuration_id, pipeline_stage, [(tensor_name, device, [(axis, num_shards)])]) *)
Definition pspec := (str * list Z * list (Z * Z))%type.
Definition pdc := (str * option Z * list pspec)%type.

Definition ser_spec (h : state) (sp : spec) : pspec :=
  (name_of h (sp_val sp), sp_dev sp, map (fun d => (sd_axis d, sd_shards d)) (sp_dims sp)).
Definition ser_dc_ok (h : state) (dc : ndc) : bool :=
  negb (str_empty (c_name (dc_cfg dc))) && forallb (fun sp => negb (str_empty (name_of h (sp_val sp)))) (dc_specs dc).
(* serde.serialize_node_device_configuration *)
Definition ser_dc (h : state) (dc : ndc) : res pdc :=
  if ser_dc_ok h dc then Ok (c_name (dc_cfg dc), dc_stage dc, map (ser_spec h) (dc_specs dc))
  else Raise ValueError.

(* ---------------------------------------------------------------- to_proto ; from_proto *)
(* the values DECLARED in a scope: its graph inputs and the outputs of its own nodes — what the deserializer
   registers in that scope's name table (_deserialize_graph / _declare_node_outputs).  Values captured from an
   enclosing graph are NOT in the table of the body that uses them. *)
Definition decl (h : state) (s : Z) : list valobj :=
  (if s =? 0 then firstn (sc_nmain (s_sc h)) (s_gin h)
   else if s =? 1 then skipn (sc_nmain (s_sc h)) (s_gin h) else [])
  ++ flat_map (fun p => if node_scope h (fst p) =? s then n_out (snd p) else []) (s_nodes h).

(* name lookup through the scope stack, innermost scope first (serde._deserialize_node: `merged_values` is the
   update of the scope tables from the outermost to the innermost, so inner names shadow outer ones) *)
Fixpoint resolve_chain (h : state) (fuel : nat) (s : Z) (nm : str) : option valobj :=
  match find (fun v => str_eqb (name_of h v) nm) (decl h s) with
  | Some v => Some v
  | None => match fuel, parent_of h s with
            | S f, Some p => resolve_chain h f p nm
            | _, _ => None
            end
  end.
Definition resolve (h : state) (s : Z) (nm : str) : option valobj :=
  resolve_chain h (length (sc_parent (s_sc h))) s nm.

(* modelled domain of the round trip = the graph wiring itself survives it: within a scope names are non-empty
   and identify the declared values, and every input/output of every node resolves, through the scope stack
   of the node's graph, to itself *)
Definition rt_domain (h : state) : bool :=
  forallb (fun s =>
    forallb (fun a => negb (str_empty (name_of h a))
                      && forallb (fun b => implb (str_eqb (name_of h a) (name_of h b)) (v_eqb a b)) (decl h s))
            (decl h s)) (scopes h)
  && forallb (fun p =>
       forallb (fun v => match resolve h (node_scope h (fst p)) (name_of h v) with
                         | Some w => v_eqb w v
                         | None => false
                         end) (io (snd p))) (s_nodes h).

Definition find_last {A} (f : A -> bool) (l : list A) : option A := find f (rev l).

Definition MULTI_DEVICE_SUPPORTED_VERSION := 11.

(* which nodes get their device configurations serialized: at IR >= 11 all of them, below 11 none — the gate
   (serde._serialize_node_multi_device_into, model_ir_version) is applied at every nesting depth
   (serialize_graph_into receives the model's IR version for GRAPH/GRAPHS attributes too). *)
Definition rt_keep (h : state) (n : Z) : bool := MULTI_DEVICE_SUPPORTED_VERSION <=? s_ir h.

Definition ser_ok (h : state) : bool :=
  forallb (fun p => negb (rt_keep h (fst p)) || forallb (ser_dc_ok h) (n_dc (snd p))) (s_nodes h).

(* ---- serialize_model: the multi-device content of the ModelProto, everything by NAME:
   ModelProto.configuration = [(name, num_devices)], and for every NodeProto (all_nodes order, nested bodies
   included) its device_configurations = [(configuration_id, pipeline_stage, [(tensor_name, device, dims)])] *)
Record mproto := mkMP { mp_cfgs : list (str * Z); mp_nodes : list (Z * list pdc) }.

Definition ser_dc_raw (h : state) (dc : ndc) : pdc :=
  (c_name (dc_cfg dc), dc_stage dc, map (ser_spec h) (dc_specs dc)).

Definition ser_model (h : state) : res mproto :=
  if negb (ser_ok h) then Raise RuntimeError        (* SerdeError: a reference without a name *)
  else Ok (mkMP (if s_ir h <? MULTI_DEVICE_SUPPORTED_VERSION then []
                 else map (fun c => (c_name c, c_ndev c)) (s_cfgs h))
                (map (fun p => (fst p, if rt_keep h (fst p) then map (ser_dc_raw h) (n_dc (snd p)) else []))
                     (s_nodes h))).

(* ---- deserialize_model: names back to objects.  The graph skeleton (nodes, inputs/outputs, value names, scopes)
   is the part of the proto this model does not describe; it is taken from h, and the deserialized objects keep
   the identities of the objects at the same position (values: same graph input / node output; configurations:
   same index in ModelProto.configuration).  Everything about the ANNOTATIONS is rebuilt from the proto alone:
   tensor_name through the scope stack (resolve), configuration_id through the deserialized configurations,
   placeholders (fresh identities, threaded in rt_acc) for names that resolve to nothing. *)
Definition rt_acc := (list (Z * str) * Z * Z)%type.   (* new name bindings, nextv, nextc *)

Fixpoint de_cfgs (olds : list cfgobj) (ps : list (str * Z)) : list cfgobj :=
  match olds, ps with
  | c :: r, (nm, nd) :: pr => mkC (c_id c) nm nd :: de_cfgs r pr
  | _, _ => []
  end.

Definition de_dims (dims : list (Z * Z)) : list sdim := map (fun d => mkD (fst d) (snd d)) dims.

Fixpoint de_specs (h : state) (sc : Z) (ps : list pspec) (acc : rt_acc) : list spec * rt_acc :=
  match ps with
  | [] => ([], acc)
  | (nm, devs, dims) :: r =>
      match resolve h sc nm with
      | Some v => let '(r', acc') := de_specs h sc r acc in (mkS v devs (de_dims dims) :: r', acc')
      | None =>
          let '(names, nv, nc) := acc in
          let ph := mkV nv None in
          let '(r', acc') := de_specs h sc r ((nv, nm) :: names, nv + 1, nc) in
          (mkS ph devs (de_dims dims) :: r', acc')
      end
  end.

Fixpoint de_dcs (h : state) (cfgs : list cfgobj) (sc : Z) (pds : list pdc) (acc : rt_acc) : list ndc * rt_acc :=
  match pds with
  | [] => ([], acc)
  | (nm, stage, pspecs) :: r =>
      let '(cfg, acc1) :=
        match find_last (fun c => str_eqb (c_name c) nm) cfgs with
        | Some c => (c, acc)
        | None => let '(names, nv, nc) := acc in (mkC nc nm 0, (names, nv, nc + 1))
        end in
      let '(specs, acc2) := de_specs h sc pspecs acc1 in
      let '(r', acc3) := de_dcs h cfgs sc r acc2 in
      (mkDC cfg stage specs :: r', acc3)
  end.

Fixpoint de_nodes (h : state) (cfgs : list cfgobj) (nodes : list (Z * node)) (pn : list (Z * list pdc))
         (acc : rt_acc) : list (Z * node) * rt_acc :=
  match nodes, pn with
  | (n, nd) :: r, (_, pds) :: pr =>
      let '(dcs, acc1) := de_dcs h cfgs (node_scope h n) pds acc in
      let '(r', acc2) := de_nodes h cfgs r pr acc1 in
      ((n, with_dc nd dcs) :: r', acc2)
  | _, _ => ([], acc)
  end.

Definition deser (h : state) (p : mproto) : state :=
  let cfgs := de_cfgs (s_cfgs h) (mp_cfgs p) in
  let '(nodes, (names, nv, nc)) := de_nodes h cfgs (s_nodes h) (mp_nodes p) ([], s_nextv h, s_nextc h) in
  mkSt (rev names ++ s_names h) nodes (s_gin h) cfgs nv nc (s_ir h) (s_sc h).

(* ir.from_proto (ir.to_proto model) *)
Definition roundtrip (h : state) : state * res unit :=
  if negb (rt_domain h) then (h, Raise OtherError)           (* outside the modelled domain *)
  else match ser_model h with
       | Raise e => (h, Raise e)
       | Ok p => (deser h p, Ok tt)
       end.

(* ---------------------------------------------------------------- _check_device_configurations *)
(* a message is (kind, node handle, integer argument):
   2 configuration with empty name      3 configuration not declared     4 not the registered object
   5 sharded value has empty name       6 value not an input/output      7 axis out of range
   8 axis repeated                      9 num_shards < 1                10 device index out of range *)
Definition err := (Z * Z * Z)%type.

Fixpoint check_dims (n : Z) (rank : option Z) (seen : list Z) (dims : list sdim) : list err :=
  match dims with
  | [] => []
  | d :: r =>
      let a := sd_axis d in
      let e2 := if sd_shards d <? 1 then [(9, n, sd_shards d)] else [] in
      if negb (in_range rank a) then (7, n, a) :: e2 ++ check_dims n rank seen r
      else let na := normalize rank a in
           (if zmem na seen then [(8, n, a)] else []) ++ e2 ++ check_dims n rank (na :: seen) r
  end.

Definition check_spec (h : state) (n : Z) (nd : node) (ndev : Z) (sp : spec) : list err :=
  (if str_empty (name_of h (sp_val sp)) then [(5, n, 0)] else [])
  ++ (if in_io_b nd (sp_val sp) then [] else [(6, n, 0)])
  ++ check_dims n (v_rank (sp_val sp)) [] (sp_dims sp)
  ++ map (fun d => (10, n, d)) (filter (fun d => negb ((0 <=? d) && (d <? ndev))) (sp_dev sp)).

Definition check_dc (h : state) (n : Z) (nd : node) (dc : ndc) : list err :=
  let c := dc_cfg dc in
  let '(e, ndev) :=
    if str_empty (c_name c) then ([(2, n, 0)], c_ndev c)
    else match find_last (fun r => str_eqb (c_name r) (c_name c)) (s_cfgs h) with
         | None => ([(3, n, 0)], c_ndev c)
         | Some r => if c_eqb c r then ([], c_ndev r) else ([(4, n, 0)], c_ndev r)
         end in
  e ++ flat_map (check_spec h n nd ndev) (dc_specs dc).

Definition check (h : state) : list err :=
  flat_map (fun p => flat_map (check_dc h (fst p) (snd p)) (n_dc (snd p))) (s_nodes h).

(* ---------------------------------------------------------------- the op alphabet *)
Inductive op :=
| OShard (n : Z) (v : valobj) (c : cfgobj) (axis shards : Z) (devs : list Z) (stage : option Z)
| OStage (n : Z) (c : cfgobj) (stage : Z)
| OAddCfg (name : str) (ndev : Z)
| ORemCfgObj (c : cfgobj) (cascade : bool)
| ORemCfgName (name : str) (cascade : bool)
| ORename (v : valobj) (name : str)
| OReplaceInput (n : Z) (i : Z) (v : option valobj)
| OResizeOut (n : Z) (k : Z)
| OResizeIn (n : Z) (k : Z)
| ORemoveNode (n : Z)
| OClone (deep allow : bool)
| OSetRank (v : valobj) (r : option Z)
| ORoundTrip.

Definition on_node (h : state) (n : Z) (f : node -> res node) : state * res unit :=
  match get_node h n with
  | None => (h, Raise OtherError)
  | Some nd => match f nd with
               | Ok nd' => (set_node h n nd', Ok tt)
               | Raise e => (h, Raise e)
               end
  end.

Definition exec (h : state) (o : op) : state * res unit :=
  match o with
  | OShard n v c axis shards devs stage => on_node h n (fun nd => shard_nd nd v c axis shards devs stage)
  | OStage n c s => on_node h n (fun nd => stage_nd nd c s)
  | OAddCfg name ndev => add_cfg h name ndev
  | ORemCfgObj c cascade => remove_cfg_obj h c cascade
  | ORemCfgName name cascade => remove_cfg_name h name cascade
  | ORename v name => (rename h v name, Ok tt)
  | OReplaceInput n i v => on_node h n (fun nd => replace_input_nd nd i v)
  | OResizeOut n k => resize_outputs h n k
  | OResizeIn n k => on_node h n (fun nd => resize_inputs_nd nd k)
  | ORemoveNode n => remove_node h n
  | OClone deep allow => clone h deep allow
  | OSetRank v r => (set_rank h v r, Ok tt)
  | ORoundTrip => roundtrip h
  end.

Fixpoint run (h : state) (ops : list op) : state :=
  match ops with [] => h | o :: r => run (fst (exec h o)) r end.

(* ---------------------------------------------------------------- comparison with observations *)
Definition sdim_eqb (a b : sdim) := (sd_axis a =? sd_axis b) && (sd_shards a =? sd_shards b).
Definition spec_eqb (a b : spec) :=
  v_eqb (sp_val a) (sp_val b) && list_eqb Z.eqb (sp_dev a) (sp_dev b) && list_eqb sdim_eqb (sp_dims a) (sp_dims b).
Definition ndc_eqb (a b : ndc) :=
  c_eqb (dc_cfg a) (dc_cfg b) && option_eqb Z.eqb (dc_stage a) (dc_stage b) && list_eqb spec_eqb (dc_specs a) (dc_specs b).
Definition node_eqb (a b : node) :=
  list_eqb ov_eqb (n_in a) (n_in b) && list_eqb v_eqb (n_out a) (n_out b) && list_eqb ndc_eqb (n_dc a) (n_dc b).
Definition err_eqb (a b : err) : bool :=
  let '(k1, n1, x1) := a in let '(k2, n2, x2) := b in (k1 =? k2) && (n1 =? n2) && (x1 =? x2).
Definition pspec_eqb (a b : pspec) : bool :=
  let '(n1, d1, s1) := a in let '(n2, d2, s2) := b in
  str_eqb n1 n2 && list_eqb Z.eqb d1 d2 && list_eqb (fun x y => (fst x =? fst y) && (snd x =? snd y)) s1 s2.
Definition pdc_eqb (a b : pdc) : bool :=
  let '(n1, st1, s1) := a in let '(n2, st2, s2) := b in
  str_eqb n1 n2 && option_eqb Z.eqb st1 st2 && list_eqb pspec_eqb s1 s2.

(* what the harness observes on the implementation after an op *)
Record obs := mkObs {
  o_res   : res unit;
  o_nodes : option (list (Z * node));       (* None: the nodes are exactly as before the op *)
  o_gin   : list valobj;
  o_cfgs  : list cfgobj;
  o_names : list (valobj * str);            (* names of the live values (those that may have changed) *)
  o_check : list err;                       (* _check_device_configurations, classified *)
  o_ser   : list (Z * list (res pdc));      (* serialize_node_device_configuration per node dc *)
  o_proto : option (res mproto) }.          (* multi-device content of ir.to_proto(model), when taken *)

Definition ser_all (h : state) : list (Z * list (res pdc)) :=
  map (fun p => (fst p, map (ser_dc h) (n_dc (snd p)))) (s_nodes h).

Definition mproto_eqb (a b : mproto) : bool :=
  list_eqb (fun x y => str_eqb (fst x) (fst y) && (snd x =? snd y)) (mp_cfgs a) (mp_cfgs b)
  && list_eqb (fun x y => (fst x =? fst y) && list_eqb pdc_eqb (snd x) (snd y)) (mp_nodes a) (mp_nodes b).

Definition nodes_eqb : list (Z * node) -> list (Z * node) -> bool :=
  list_eqb (fun a b => (fst a =? fst b) && node_eqb (snd a) (snd b)).

(* hp: the state before the op (the harness abbreviates "nodes unchanged" to keep the case files small) *)
Definition obs_agree (hp h : state) (r : res unit) (o : obs) : bool :=
  res_eqb (fun _ _ => true) r (o_res o)
  && nodes_eqb (s_nodes h) (match o_nodes o with Some l => l | None => s_nodes hp end)
  && list_eqb v_eqb (s_gin h) (o_gin o)
  && list_eqb c_eqb (s_cfgs h) (o_cfgs o)
  && forallb (fun p => str_eqb (name_of h (fst p)) (snd p)) (o_names o)
  && list_eqb err_eqb (check h) (o_check o)
  && list_eqb (fun a b => (fst a =? fst b) && list_eqb (res_eqb pdc_eqb) (snd a) (snd b)) (ser_all h) (o_ser o)
  && match o_proto o with None => true | Some p => res_eqb mproto_eqb (ser_model h) p end.

(* index (1-based) of the first step whose observation disagrees, 0 if the whole history agrees *)
Fixpoint first_diff (h : state) (steps : list (op * obs)) (i : nat) : nat :=
  match steps with
  | [] => O
  | (o, ob) :: r =>
      let '(h', res) := exec h o in
      if obs_agree h h' res ob then first_diff h' r (S i) else S i
  end.
Definition case_agree (c : state * list (op * obs)) : bool :=
  match first_diff (fst c) (snd c) 0 with O => true | _ => false end.

(* executable form of the invariant, used in examples and by case files *)
Definition dims_ok_b (rank : option Z) (dims : list sdim) : bool :=
  match check_dims 0 rank [] dims with [] => true | _ => false end.

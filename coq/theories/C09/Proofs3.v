(* C09/Proofs3.v — callback / write logs, driver invariants, the error path, termination measure. *)
From Coq Require Import ZArith List Bool Lia ZifyBool Permutation.
From IRV Require Import Base.Exn Gen.C09Gen C07.Model C09.Model C09.Proofs1 C09.Proofs2.
Import ListNotations.
Close Scope Z_scope.
Open Scope nat_scope.

(* ---------- the two logs *)
Definition is_done (x : tst) : bool := match x with TDone _ => true | _ => false end.

Definition cb_inv (c : cfg) (s : state) : Prop := log_inv past_cb is_done (s_cblog s) s.
Definition wr_inv (c : cfg) (s : state) : Prop := log_inv wrote is_done_ok (s_wlog s) s.

Lemma logs_wstep c s w s' :
  coh_inv c s -> cb_inv c s -> wr_inv c s -> wstep c s w = Some s' -> cb_inv c s' /\ wr_inv c s'.
Proof.
  intros Hco Hcb Hwr H. apply wstep_sum in H.
  destruct H as [t pc pc' Ew Ha Hts M1 M2 M3 L1 L2 | t pc' Ew Ha Hq Hts Hlt Hp Hdq P1 P2 L1 L2 | t e Ew Ha Hts L1 L2];
    unfold cb_inv, wr_inv in *; rewrite L1, L2; split.
  - eapply (log_move c past_cb is_done); try eassumption; try reflexivity; try (intros []; reflexivity).
  - eapply (log_move c wrote is_done_ok); try eassumption; try reflexivity; try (intros []; reflexivity).
  - eapply (log_deq c past_cb is_done); try eassumption; try reflexivity; try (intros []; reflexivity).
  - eapply (log_deq c wrote is_done_ok); try eassumption; try reflexivity; try (intros []; reflexivity).
  - eapply (log_fin c past_cb is_done); try eassumption; try reflexivity; try (intros []; reflexivity).
  - eapply (log_fin c wrote is_done_ok); try eassumption; try reflexivity; try (intros []; reflexivity).
Qed.

Lemma logs_dstep c s p s' :
  cb_inv c s -> wr_inv c s -> dstep c s p = Some s' -> cb_inv c s' /\ wr_inv c s'.
Proof.
  intros Hcb Hwr H. pose proof (dstep_frame _ _ _ _ H) as (Hwk & _ & _ & _ & _ & _ & L1 & L2 & _).
  apply dstep_sum in H. unfold cb_inv, wr_inv in *. rewrite L1, L2.
  assert (Hd : forall t, is_done (s_ts s' t) = is_done (s_ts s t) /\ is_done_ok (s_ts s' t) = is_done_ok (s_ts s t)).
  { destruct H as [Hd0 Hfu Hac Hdr Hts Hcn Hfl | t Hd0 Hf Hdr Hts Hcn Hfl | Hd0 Hf Hdr Hts Hcn Hfl
                   | Hd0 Hf Hdr Hts Hcn Hfl | Hd0 Hf Hok Hdr Hts Hcn Hfl | e Hd0 Hid Hdr Hts Hcn Hfl];
      try (intros t0; rewrite Hts; split; reflexivity).
    apply first_task_some in Hf. destruct Hf as (_ & _ & Hu). intros t0. rewrite Hts. unfold upd.
    destruct (Nat.eqb t0 t) eqn:E; [|split; reflexivity]. apply Nat.eqb_eq in E. subst.
    destruct (s_ts s t); try discriminate Hu. split; reflexivity. }
  split.
  - apply (log_frame past_cb is_done s s'); [exact Hcb|exact Hwk|apply Hd].
  - apply (log_frame wrote is_done_ok s s'); [exact Hwr|exact Hwk|apply Hd].
Qed.

Record safe_inv (c : cfg) (s : state) : Prop := {
  si_budget : budget_inv c s;
  si_lock : lock_inv c s;
  si_coh : coh_inv c s;
  si_cb : cb_inv c s;
  si_wr : wr_inv c s
}.

Lemma safe_init c : safe_inv c init.
Proof.
  constructor; [apply budget_init|apply lock_init|apply coh_init| |].
  - split; [constructor|]. intros t. split; [intros []|]. intros [H|(w & pc & H & _)]; discriminate.
  - split; [constructor|]. intros t. split; [intros []|]. intros [H|(w & pc & H & _)]; discriminate.
Qed.

Lemma safe_step c s th s' : safe_inv c s -> step c s th = Some s' -> safe_inv c s'.
Proof.
  intros [A B C D E] H.
  assert (Hl : cb_inv c s' /\ wr_inv c s').
  { destruct th as [|p|w]; simpl in H.
    - apply mstep_frame in H. destruct H as (Hw & _ & _ & _ & _ & _ & L1 & L2 & Ht & _).
      unfold cb_inv, wr_inv in *. rewrite L1, L2. split.
      + apply (log_frame past_cb is_done s s'); [exact D|exact Hw|intros; rewrite Ht; reflexivity].
      + apply (log_frame wrote is_done_ok s s'); [exact E|exact Hw|intros; rewrite Ht; reflexivity].
    - destruct (Nat.ltb p (np c)); [|discriminate]. eapply logs_dstep; eassumption.
    - destruct (Nat.ltb w (nw c)); [|discriminate]. eapply logs_wstep; eassumption. }
  constructor; [eapply budget_step|eapply lock_step|eapply coh_step|apply Hl|apply Hl]; eassumption.
Qed.

Lemma safe_reachable c s : reachable c s -> safe_inv c s.
Proof. induction 1; [apply safe_init|eapply safe_step; eassumption]. Qed.

(* ---------- driver invariants *)
Lemma wstep_frame c s w s' :
  wstep c s w = Some s' -> s_dr s' = s_dr s /\ s_cancel s' = s_cancel s /\ s_main s' = s_main s.
Proof.
  intros H. unfold wstep in H.
  destruct (s_wk s w) as [|t pc]; [|destruct pc]; cbv beta iota zeta in H;
    try discriminate H; break_match H; inv_some H; simpl; repeat split; reflexivity.
Qed.

Lemma failed_iff c s p :
  failed c s p = true <-> exists t, t < nt c /\ tpool c t = p /\ s_ts s t = TDone true.
Proof.
  unfold failed. rewrite existsb_exists. split.
  - intros (t & Hin & Hb). apply in_tasks in Hin. apply andb_prop in Hb. destruct Hb as [Hp Hd].
    apply Nat.eqb_eq in Hp. exists t. repeat split; try assumption.
    destruct (s_ts s t) as [| | |[]]; try discriminate Hd. reflexivity.
  - intros (t & Hlt & Hp & Hd). exists t. split; [apply in_tasks; exact Hlt|].
    rewrite Hp, Nat.eqb_refl, Hd. reflexivity.
Qed.

Lemma all_ok_iff c s p :
  all_ok c s p = true <-> forall t, t < nt c -> tpool c t = p -> s_ts s t = TDone false.
Proof.
  unfold all_ok. rewrite forallb_forall. split.
  - intros H t Hlt Hp. specialize (H t (proj2 (in_tasks c t) Hlt)). rewrite Hp, Nat.eqb_refl in H. simpl in H.
    destruct (s_ts s t) as [| | |[]]; try discriminate H. reflexivity.
  - intros H t Hin. apply in_tasks in Hin. destruct (Nat.eqb (tpool c t) p) eqn:E; [|reflexivity].
    apply Nat.eqb_eq in E. rewrite (H t Hin E). reflexivity.
Qed.

Lemma all_idle_iff c s p :
  all_idle c s p = true <-> forall w, w < nw c -> wpool c w = p -> s_wk s w = WIdle.
Proof.
  unfold all_idle. rewrite forallb_forall. split.
  - intros H w Hlt Hp. specialize (H w (proj2 (in_workers c w) Hlt)). rewrite Hp, Nat.eqb_refl in H. simpl in H.
    destruct (s_wk s w); [reflexivity|discriminate H].
  - intros H w Hin. apply in_workers in Hin. destruct (Nat.eqb (wpool c w) p) eqn:E; [|reflexivity].
    apply Nat.eqb_eq in E. rewrite (H w Hin E). reflexivity.
Qed.

Definition nounsub (c : cfg) (s : state) (p : nat) : Prop :=
  forall t, t < nt c -> tpool c t = p -> s_ts s t <> TUnsub.
Definition endok (c : cfg) (s : state) (p : nat) (e : bool) : Prop :=
  if e then s_cancel s p = true /\ failed c s p = true else s_cancel s p = false /\ all_ok c s p = true.

Definition dpool_ok (c : cfg) (s : state) (p : nat) : Prop :=
  match s_dr s p with
  | DNot => (forall t, t < nt c -> tpool c t = p -> s_ts s t = TUnsub) /\ s_cancel s p = false
  | DSub => s_cancel s p = false
  | DWait => nounsub c s p /\ s_cancel s p = false
  | DJoin e => nounsub c s p /\ endok c s p e
  | DDone e => nounsub c s p /\ endok c s p e /\ all_idle c s p = true
  end.

(* nothing that pool p's invariant mentions has changed *)
Lemma dpool_frame c s s' p :
  s_dr s' p = s_dr s p -> s_cancel s' p = s_cancel s p ->
  (forall t, t < nt c -> tpool c t = p -> s_ts s' t = s_ts s t) ->
  (forall w, w < nw c -> wpool c w = p -> s_wk s w = WIdle -> s_wk s' w = WIdle) ->
  dpool_ok c s p -> dpool_ok c s' p.
Proof.
  intros Hd Hc Ht Hw. unfold dpool_ok. rewrite Hd.
  assert (Hn : nounsub c s p -> nounsub c s' p).
  { intros H t Hlt Hp. rewrite Ht by assumption. apply H; assumption. }
  assert (He : forall e, endok c s p e -> endok c s' p e).
  { intros e. unfold endok. rewrite Hc. destruct e; intros [A B]; (split; [exact A|]).
    - apply failed_iff in B. destruct B as (t & Hlt & Hp & Hdn). apply failed_iff. exists t.
      rewrite Ht by assumption. auto.
    - apply all_ok_iff. intros t Hlt Hp. rewrite Ht by assumption. revert t Hlt Hp. apply all_ok_iff. exact B. }
  destruct (s_dr s p); rewrite ?Hc.
  - intros [A B]. split; [|exact B]. intros t Hlt Hp. rewrite Ht by assumption. apply A; assumption.
  - auto.
  - intros [A B]. auto.
  - intros [A B]. auto.
  - intros (A & B & C). repeat split; auto.
    apply all_idle_iff. intros w Hlt Hp. apply Hw; try assumption. revert w Hlt Hp. apply all_idle_iff. exact C.
Qed.

Definition drv_inv (c : cfg) (s : state) : Prop :=
  (forall p, dpool_ok c s p) /\ (forall t, nt c <= t -> s_ts s t = TUnsub).

Lemma drv_init c : drv_inv c init.
Proof. split; [intros p; unfold dpool_ok; simpl; auto|reflexivity]. Qed.

Lemma idle_after wk wk' w x' w0 :
  wk_after wk wk' w x' -> w0 <> w -> wk w0 = WIdle -> wk' w0 = WIdle.
Proof.
  intros Ha Hne H. destruct (wk_after_other (fun _ => True) _ _ _ _ _ Ha Hne) as [E|E]; rewrite E, H; reflexivity.
Qed.

Lemma drv_wstep c s w s' :
  w < nw c -> coh_inv c s -> drv_inv c s -> wstep c s w = Some s' -> drv_inv c s'.
Proof.
  intros Hw Hco [Hd Hr] H. pose proof (wstep_frame _ _ _ _ H) as (Fd & Fc & _). apply wstep_sum in H.
  assert (Hbusy : forall t pc, s_wk s w = WRun t pc -> forall e, s_dr s (wpool c w) <> DDone e).
  { intros t pc Ew e Hdd. specialize (Hd (wpool c w)). unfold dpool_ok in Hd. rewrite Hdd in Hd.
    destruct Hd as (_ & _ & Hi). rewrite all_idle_iff in Hi. rewrite (Hi w Hw eq_refl) in Ew. discriminate. }
  destruct H as [t pc pc' Ew Ha Hts _ _ _ _ _ | t pc' Ew Ha Hq Hts Hlt Hp Hdq _ _ _ _ | t e Ew Ha Hts _ _].
  - (* move *)
    split; [|intros t0 Ht0; rewrite Hts; apply Hr; exact Ht0].
    intros p. destruct (Nat.eq_dec p (wpool c w)) as [->|Hne].
    + specialize (Hd (wpool c w)). pose proof (Hbusy t pc Ew) as Hb.
      unfold dpool_ok, nounsub, endok, failed, all_ok in *. rewrite Fd, Fc, Hts.
      destruct (s_dr s (wpool c w)); try exact Hd. exfalso. eapply Hb. reflexivity.
    + apply (dpool_frame c s s' p); [rewrite Fd; reflexivity|rewrite Fc; reflexivity| | |apply Hd].
      * intros; rewrite Hts; reflexivity.
      * intros w0 Hlt0 Hp0 Hi. apply (idle_after _ _ _ _ _ Ha); [intros ->; congruence|exact Hi].
  - (* dequeue *)
    split.
    2:{ intros t0 Ht0. rewrite Hts, upd_other by lia. apply Hr. exact Ht0. }
    intros p. destruct (Nat.eq_dec p (wpool c w)) as [->|Hne].
    + specialize (Hd (wpool c w)). unfold dpool_ok in *. rewrite Fd. unfold dequeue_ok in Hdq.
      apply andb_prop in Hdq. destruct Hdq as [Hnc _]. apply negb_true_iff in Hnc.
      assert (Hn : nounsub c s (wpool c w) -> nounsub c s' (wpool c w)).
      { intros Hn t0 Hlt0 Hp0. rewrite Hts. unfold upd. destruct (Nat.eqb t0 t); [discriminate|apply Hn; assumption]. }
      assert (He : forall e0, endok c s (wpool c w) e0 -> endok c s' (wpool c w) e0).
      { intros e0. unfold endok. rewrite Fc. destruct e0; intros [A B]; [congruence|].
        exfalso. rewrite all_ok_iff in B. rewrite (B t Hlt Hp) in Hq. discriminate. }
      destruct (s_dr s (wpool c w)); rewrite ?Fc.
      * destruct Hd as [A _]. rewrite (A t Hlt Hp) in Hq. discriminate.
      * exact Hd.
      * destruct Hd as [A B]. auto.
      * destruct Hd as [A B]. auto.
      * destruct Hd as (A & B & C). exfalso. unfold endok in B. destruct e; destruct B as [B1 B2]; [congruence|].
        rewrite all_ok_iff in B2. rewrite (B2 t Hlt Hp) in Hq. discriminate.
    + apply (dpool_frame c s s' p); [rewrite Fd; reflexivity|rewrite Fc; reflexivity| | |apply Hd].
      * intros t0 Hlt0 Hp0. rewrite Hts, upd_other; [reflexivity|]. intros ->. congruence.
      * intros w0 Hlt0 Hp0 Hi. apply (idle_after _ _ _ _ _ Ha); [intros ->; congruence|exact Hi].
  - (* finish *)
    assert (Hcw : cur (s_wk s w) = Some t) by (rewrite Ew; reflexivity).
    destruct (co_run c s Hco w t Hcw) as (Htk & Hlt & Hp & _).
    split.
    2:{ intros t0 Ht0. rewrite Hts, upd_other by lia. apply Hr. exact Ht0. }
    intros p. destruct (Nat.eq_dec p (wpool c w)) as [->|Hne].
    + specialize (Hd (wpool c w)). pose proof (Hbusy t _ Ew) as Hb. unfold dpool_ok in *. rewrite Fd.
      assert (Hn : nounsub c s (wpool c w) -> nounsub c s' (wpool c w)).
      { intros Hn t0 Hlt0 Hp0. rewrite Hts. unfold upd. destruct (Nat.eqb t0 t); [discriminate|apply Hn; assumption]. }
      assert (He : forall e0, endok c s (wpool c w) e0 -> endok c s' (wpool c w) e0).
      { intros e0. unfold endok. rewrite Fc. destruct e0; intros [A B]; (split; [exact A|]).
        - apply failed_iff in B. destruct B as (t0 & Hlt0 & Hp0 & Hdn). apply failed_iff. exists t0.
          rewrite Hts, upd_other; [auto|]. intros ->. congruence.
        - exfalso. rewrite all_ok_iff in B. rewrite (B t Hlt Hp) in Htk. discriminate. }
      destruct (s_dr s (wpool c w)); rewrite ?Fc.
      * destruct Hd as [A _]. rewrite (A t Hlt Hp) in Htk. discriminate.
      * exact Hd.
      * destruct Hd as [A B]. auto.
      * destruct Hd as [A B]. auto.
      * exfalso. eapply Hb. reflexivity.
    + apply (dpool_frame c s s' p); [rewrite Fd; reflexivity|rewrite Fc; reflexivity| | |apply Hd].
      * intros t0 Hlt0 Hp0. rewrite Hts, upd_other; [reflexivity|]. intros ->. congruence.
      * intros w0 Hlt0 Hp0 Hi. apply (idle_after _ _ _ _ _ Ha); [intros ->; congruence|exact Hi].
Qed.

Lemma drv_dstep c s q s' : drv_inv c s -> dstep c s q = Some s' -> drv_inv c s'.
Proof.
  intros [Hd Hr] H. pose proof (dstep_frame _ _ _ _ H) as (Fw & _). apply dstep_sum in H.
  assert (Hother : forall p, p <> q ->
            (forall p0, p0 <> q -> s_dr s' p0 = s_dr s p0) -> (forall p0, p0 <> q -> s_cancel s' p0 = s_cancel s p0) ->
            (forall t, tpool c t <> q -> s_ts s' t = s_ts s t) -> dpool_ok c s' p).
  { intros p Hne F1 F2 F3. apply (dpool_frame c s s' p); [apply F1; exact Hne|apply F2; exact Hne| | |apply Hd].
    - intros t _ Hp. apply F3. congruence.
    - intros w _ _ Hi. rewrite Fw. exact Hi. }
  pose proof (Hd q) as Hq. unfold dpool_ok in Hq.
  destruct H as [Hd0 Hfu Hac Hdr Hts Hcn Hfl | t Hd0 Hf Hdr Hts Hcn Hfl | Hd0 Hf Hdr Hts Hcn Hfl
                 | Hd0 Hf Hdr Hts Hcn Hfl | Hd0 Hf Hok Hdr Hts Hcn Hfl | e Hd0 Hid Hdr Hts Hcn Hfl];
    rewrite Hd0 in Hq.
  all: split; [|intros t0 Ht0; rewrite Hts; try (apply Hr; exact Ht0)].
  all: try (intros p; destruct (Nat.eq_dec p q) as [->|Hne];
            [ unfold dpool_ok; rewrite Hdr, ?upd_same
            | apply Hother; [exact Hne | intros p0 Hp0; rewrite Hdr, ?upd_other by exact Hp0; reflexivity
                            | intros p0 Hp0; rewrite Hcn, ?upd_other by exact Hp0; reflexivity
                            | intros t0 Ht0; rewrite Hts; reflexivity ] ]).
  - (* start *) rewrite Hcn. apply Hq.
  - (* submit: the pool stays in DSub *)
    intros p. apply first_task_some in Hf. destruct Hf as (Hlt & Hp & Hu).
    destruct (Nat.eq_dec p q) as [->|Hne].
    + unfold dpool_ok. rewrite Hdr, Hd0, Hcn. exact Hq.
    + apply Hother; [exact Hne | intros; rewrite Hdr; reflexivity | intros; rewrite Hcn; reflexivity|].
      intros t0 Ht0. rewrite Hts, upd_other; [reflexivity|]. intros ->. congruence.
  - (* submit: range *)
    apply first_task_some in Hf. destruct Hf as (Hlt & _). rewrite upd_other by lia. apply Hr. exact Ht0.
  - (* submissions finished *)
    rewrite Hcn. split; [|exact Hq]. intros t Hlt Hp. rewrite Hts.
    pose proof (first_task_none c s q is_unsub t Hf Hlt Hp) as Hn. intros E. rewrite E in Hn. discriminate.
  - (* failure observed: shutdown(cancel_futures=True) *)
    destruct Hq as [A B]. split.
    + intros t Hlt Hp. rewrite Hts. apply A; assumption.
    + unfold endok. rewrite Hcn, upd_same. split; [reflexivity|].
      unfold failed in *. rewrite Hts. exact Hf.
  - (* all futures completed normally *)
    destruct Hq as [A B]. split.
    + intros t Hlt Hp. rewrite Hts. apply A; assumption.
    + unfold endok. rewrite Hcn. split; [exact B|]. unfold all_ok in *. rewrite Hts. exact Hok.
  - (* joined *)
    destruct Hq as [A B]. split; [|split].
    + intros t Hlt Hp. rewrite Hts. apply A; assumption.
    + unfold endok, failed, all_ok in *. rewrite Hcn, Hts. exact B.
    + unfold all_idle in *. rewrite Fw. exact Hid.
Qed.

Lemma drv_step c s th s' : coh_inv c s -> drv_inv c s -> step c s th = Some s' -> drv_inv c s'.
Proof.
  intros Hco Hi H. destruct th as [|p|w]; simpl in H.
  - apply mstep_frame in H. destruct H as (Hw & _ & _ & _ & _ & _ & _ & _ & Ht & Hd & Hc & _).
    destruct Hi as [A B]. split; [|intros; rewrite Ht; apply B; assumption].
    intros p. apply (dpool_frame c s s' p); [rewrite Hd|rewrite Hc|intros; rewrite Ht|intros; rewrite Hw|apply A]; auto.
  - destruct (Nat.ltb p (np c)); [|discriminate]. eapply drv_dstep; eassumption.
  - destruct (Nat.ltb w (nw c)) eqn:E; [|discriminate]. apply Nat.ltb_lt in E. eapply drv_wstep; eassumption.
Qed.

Lemma drv_reachable c s : reachable c s -> drv_inv c s.
Proof.
  induction 1; [apply drv_init|]. eapply drv_step; try eassumption. apply safe_reachable. assumption.
Qed.

(* ---------- the error path *)
Definition wf_cfg (c : cfg) : Prop :=
  (forall w, w < nw c -> wpool c w < np c) /\ (forall t, t < nt c -> tpool c t < np c).

Definition main_inv (c : cfg) (s : state) : Prop :=
  forall e, s_main s = MDeliv e -> all_drivers_done c s = true /\ e = any_driver_raised c s.

Lemma main_step c s th s' : main_inv c s -> step c s th = Some s' -> main_inv c s'.
Proof.
  intros Hi H. destruct th as [|p|w]; simpl in H.
  - unfold mstep in H. destruct (s_main s) eqn:Em; [|discriminate].
    destruct (all_drivers_done c s) eqn:Ea; [|discriminate]. inv_some H.
    intros e He. simpl in He. injection He as <-. split; [exact Ea|reflexivity].
  - destruct (Nat.ltb p (np c)) eqn:Ep; [|discriminate]. apply Nat.ltb_lt in Ep.
    pose proof (dstep_frame _ _ _ _ H) as (_ & _ & _ & _ & _ & _ & _ & _ & Fm).
    intros e He. rewrite Fm in He. destruct (Hi e He) as [Ha _]. exfalso.
    unfold all_drivers_done in Ha. rewrite forallb_forall in Ha.
    specialize (Ha p (proj2 (in_pools c p) Ep)). unfold dstep in H.
    destruct (s_dr s p); try discriminate Ha. discriminate H.
  - destruct (Nat.ltb w (nw c)); [|discriminate].
    pose proof (wstep_frame _ _ _ _ H) as (Fd & _ & Fm).
    intros e He. rewrite Fm in He. unfold all_drivers_done, any_driver_raised. rewrite Fd. apply Hi. exact He.
Qed.

Lemma main_reachable c s : reachable c s -> main_inv c s.
Proof. induction 1; [intros e He; discriminate|eapply main_step; eassumption]. Qed.

Lemma error_path c s e :
  wf_cfg c -> reachable c s -> s_main s = MDeliv e ->
  (forall p, p < np c -> exists e', s_dr s p = DDone e') /\
  (forall w, w < nw c -> s_wk s w = WIdle) /\
  s_inflight s = 0%Z /\ s_over s = false /\
  (e = true <-> exists t, t < nt c /\ s_ts s t = TDone true).
Proof.
  intros [Wf1 Wf2] Hr Hm.
  destruct (main_reachable c s Hr e Hm) as [Hall He].
  destruct (drv_reachable c s Hr) as [Hd _].
  destruct (safe_reachable c s Hr) as [[Hreg Hov _ _] _ _ _ _].
  unfold all_drivers_done in Hall. rewrite forallb_forall in Hall.
  assert (Hdone : forall p, p < np c -> exists e', s_dr s p = DDone e').
  { intros p Hp. specialize (Hall p (proj2 (in_pools c p) Hp)). destruct (s_dr s p); try discriminate Hall. eauto. }
  assert (Hidle : forall w, w < nw c -> s_wk s w = WIdle).
  { intros w Hw. destruct (Hdone (wpool c w) (Wf1 w Hw)) as [e' He'].
    specialize (Hd (wpool c w)). unfold dpool_ok in Hd. rewrite He' in Hd. destruct Hd as (_ & _ & Hi).
    rewrite all_idle_iff in Hi. apply Hi; [exact Hw|reflexivity]. }
  split; [exact Hdone|]. split; [exact Hidle|]. split; [|split].
  - rewrite Hreg. apply sumZ_zero. intros w Hw. apply in_workers in Hw. rewrite (Hidle w Hw). reflexivity.
  - assert (sumZ (fun w => held_over (s_wk s w)) (workers c) = 0%Z) as Hz.
    { apply sumZ_zero. intros w Hw. apply in_workers in Hw. rewrite (Hidle w Hw). reflexivity. }
    rewrite Hz in Hov. destruct (s_over s); [discriminate Hov|reflexivity].
  - rewrite He. unfold any_driver_raised. rewrite existsb_exists. split.
    + intros (p & Hin & Hp). apply in_pools in Hin. specialize (Hd p). unfold dpool_ok in Hd.
      destruct (s_dr s p) as [| | | |[]]; try discriminate Hp.
      destruct Hd as (_ & [_ Hf] & _). apply failed_iff in Hf. destruct Hf as (t & Hlt & _ & Ht). eauto.
    + intros (t & Hlt & Ht). exists (tpool c t). split; [apply in_pools; apply Wf2; exact Hlt|].
      destruct (Hdone (tpool c t) (Wf2 t Hlt)) as [e' He'].
      specialize (Hd (tpool c t)). unfold dpool_ok in Hd. rewrite He' in Hd. rewrite He'.
      destruct e'; [reflexivity|]. destruct Hd as (_ & [_ Hok] & _). rewrite all_ok_iff in Hok.
      rewrite (Hok t Hlt eq_refl) in Ht. discriminate.
Qed.

(* ---------- termination: a measure that strictly decreases on every step *)
Definition wm (x : wst) : Z :=
  match x with
  | WIdle => 0
  | WRun _ pc =>
      match pc with
      | PCbIn => 13 | PCbOut => 12 | PCb => 11 | PCbUnOut _ => 10 | PCbUnIn _ => 9 | POpen => 8 | PTLock => 7
      | PAcq => 6 | PSleep => 6 | PWrite _ => 5 | PRel _ _ => 4 | PTUn _ => 3 | PFin _ => 2
      end
  end%Z.
Definition aw (x : wst) : Z := match x with WRun _ PAcq => 1 | _ => 0 end%Z.
Definition tm (x : tst) : Z := match x with TUnsub => 15 | TQueued => 14 | _ => 0 end%Z.
Definition dm (x : dpc) : Z := match x with DNot => 4 | DSub => 3 | DWait => 2 | DJoin _ => 1 | DDone _ => 0 end%Z.
Definition mm (x : mpc) : Z := match x with MWait => 1 | MDeliv _ => 0 end%Z.

Definition level (c : cfg) (s : state) : Z :=
  (sumZ (fun t => tm (s_ts s t)) (tasks c) + sumZ (fun w => wm (s_wk s w)) (workers c)
   + sumZ (fun p => dm (s_dr s p)) (pools c) + mm (s_main s))%Z.
Definition awake (c : cfg) (s : state) : Z := sumZ (fun w => aw (s_wk s w)) (workers c).
(* lexicographic (level, awake) packed into one number: awake <= nw *)
Definition measure (c : cfg) (s : state) : Z := ((Z.of_nat (nw c) + 1) * level c s + awake c s)%Z.

Lemma wm_wake x : wm (wake1 x) = wm x.
Proof. destruct x as [|t []]; reflexivity. Qed.

Lemma sumZ_const_le g l k : (forall x, In x l -> (g x <= k)%Z) -> (sumZ g l <= k * Z.of_nat (length l))%Z.
Proof.
  induction l as [|a l IH]; intros H; simpl sumZ; [simpl; lia|].
  pose proof (H a (or_introl eq_refl)). assert (sumZ g l <= k * Z.of_nat (length l))%Z by (apply IH; intros; apply H; right; assumption).
  simpl length. lia.
Qed.

Lemma awake_bounds c s : (0 <= awake c s <= Z.of_nat (nw c))%Z.
Proof.
  unfold awake. split.
  - apply sumZ_nonneg. intros w _. destruct (s_wk s w) as [|t []]; simpl; lia.
  - pose proof (sumZ_const_le (fun w => aw (s_wk s w)) (workers c) 1%Z) as H.
    unfold workers in *. rewrite seq_length in H. rewrite Z.mul_1_l in H. apply H.
    intros w _. destruct (s_wk s w) as [|t []]; simpl; lia.
Qed.

Lemma level_nonneg c s : (0 <= level c s)%Z.
Proof.
  unfold level.
  assert (0 <= sumZ (fun t => tm (s_ts s t)) (tasks c))%Z by (apply sumZ_nonneg; intros t _; destruct (s_ts s t); simpl; lia).
  assert (0 <= sumZ (fun w => wm (s_wk s w)) (workers c))%Z by (apply sumZ_nonneg; intros w _; destruct (s_wk s w) as [|t []]; simpl; lia).
  assert (0 <= sumZ (fun p => dm (s_dr s p)) (pools c))%Z by (apply sumZ_nonneg; intros p _; destruct (s_dr s p); simpl; lia).
  destruct (s_main s); simpl; lia.
Qed.

Lemma measure_nonneg c s : (0 <= measure c s)%Z.
Proof. unfold measure. pose proof (level_nonneg c s). pose proof (awake_bounds c s). nia. Qed.

Lemma measure_dec_intro c s s' :
  (level c s' <= level c s - 1)%Z \/ (level c s' = level c s /\ (awake c s' < awake c s)%Z) ->
  (measure c s' < measure c s)%Z.
Proof.
  unfold measure. pose proof (awake_bounds c s). pose proof (awake_bounds c s').
  pose proof (level_nonneg c s'). intros [H2|[H2 H3]]; nia.
Qed.

Lemma sum_ts_upd c (ts : nat -> tst) t v :
  t < nt c ->
  sumZ (fun x => tm (upd ts t v x)) (tasks c) = (sumZ (fun x => tm (ts x)) (tasks c) - tm (ts t) + tm v)%Z.
Proof. intros H. apply sumZ_upd; [apply nodup_tasks|apply in_tasks; exact H]. Qed.

Lemma sum_ts_upd_le c (ts : nat -> tst) t v :
  (sumZ (fun x => tm (upd ts t v x)) (tasks c) <= sumZ (fun x => tm (ts x)) (tasks c) + tm v)%Z.
Proof.
  destruct (Nat.lt_ge_cases t (nt c)) as [H|H].
  - rewrite sum_ts_upd by exact H. destruct (ts t); simpl; lia.
  - rewrite sumZ_upd_notin; [destruct v; simpl; lia|]. rewrite in_tasks. lia.
Qed.

Lemma sum_dr_upd c (dr : nat -> dpc) p v :
  p < np c ->
  sumZ (fun x => dm (upd dr p v x)) (pools c) = (sumZ (fun x => dm (dr x)) (pools c) - dm (dr p) + dm v)%Z.
Proof. intros H. apply sumZ_upd; [apply nodup_pools|apply in_pools; exact H]. Qed.

Lemma measure_wstep c s w s' : w < nw c -> wstep c s w = Some s' -> (measure c s' < measure c s)%Z.
Proof.
  intros Hw H. apply measure_dec_intro. unfold wstep in H.
  destruct (s_wk s w) as [|t pc] eqn:Ew; [|destruct pc]; cbv beta iota zeta in H;
    try discriminate H; break_match H; inv_some H.
  (* all cases except notify_all: the worker array changes at w only *)
  all: try (unfold level, awake; simpl;
            rewrite ?(sum_wk_upd wm), ?(sum_wk_upd aw) by exact Hw; rewrite ?Ew; simpl;
            try unfold first_pc; try unfold after_outer; ifs; simpl; lia).
  - (* dequeue *)
    apply first_task_some in Heqo. destruct Heqo as (Hlt & _ & Hq).
    destruct (s_ts s n) eqn:Et; try discriminate Hq.
    left. unfold level; simpl. rewrite (sum_ts_upd c _ n) by exact Hlt. rewrite Et.
    rewrite (sum_wk_upd wm) by exact Hw. rewrite Ew. unfold first_pc. ifs; simpl; lia.
  - (* release + notify_all *)
    left. unfold level; simpl. rewrite (sum_wk_wake wm) by apply wm_wake.
    rewrite (sum_wk_upd wm) by exact Hw. simpl. rewrite Ew. simpl. lia.
  - left. unfold level; simpl. rewrite (sum_wk_wake wm) by apply wm_wake.
    rewrite (sum_wk_upd wm) by exact Hw. simpl. rewrite Ew. simpl. lia.
  - (* finish *)
    left. unfold level; simpl. pose proof (sum_ts_upd_le c (s_ts s) t (TDone e)) as Hle. simpl in Hle.
    rewrite (sum_wk_upd wm) by exact Hw. rewrite Ew. simpl. lia.
Qed.

Lemma measure_dstep c s p s' : p < np c -> dstep c s p = Some s' -> (measure c s' < measure c s)%Z.
Proof.
  intros Hp H. apply measure_dec_intro. left.
  pose proof (dstep_frame _ _ _ _ H) as (Fw & _ & _ & _ & _ & _ & _ & _ & Fm). apply dstep_sum in H.
  unfold level. rewrite Fw, Fm.
  destruct H as [Hd0 Hfu Hac Hdr Hts Hcn Hfl | t Hd0 Hf Hdr Hts Hcn Hfl | Hd0 Hf Hdr Hts Hcn Hfl
                 | Hd0 Hf Hdr Hts Hcn Hfl | Hd0 Hf Hok Hdr Hts Hcn Hfl | e Hd0 Hid Hdr Hts Hcn Hfl];
    rewrite Hdr, Hts; try (rewrite (sum_dr_upd c _ p) by exact Hp; rewrite Hd0; simpl; lia).
  apply first_task_some in Hf. destruct Hf as (Hlt & _ & Hu).
  rewrite (sum_ts_upd c _ t) by exact Hlt. destruct (s_ts s t); try discriminate Hu. simpl. lia.
Qed.

Lemma measure_mstep c s s' : mstep c s = Some s' -> (measure c s' < measure c s)%Z.
Proof.
  intros H. apply measure_dec_intro. left. unfold mstep in H.
  destruct (s_main s) eqn:Em; [|discriminate]. break_match H. inv_some H.
  unfold level; simpl. rewrite Em. simpl. lia.
Qed.

Lemma measure_step c s th s' : step c s th = Some s' -> (0 <= measure c s' < measure c s)%Z.
Proof.
  intros H. split; [apply measure_nonneg|]. destruct th as [|p|w]; simpl in H.
  - apply measure_mstep; exact H.
  - destruct (Nat.ltb p (np c)) eqn:E; [|discriminate]. apply Nat.ltb_lt in E. eapply measure_dstep; eassumption.
  - destruct (Nat.ltb w (nw c)) eqn:E; [|discriminate]. apply Nat.ltb_lt in E. eapply measure_wstep; eassumption.
Qed.

(* hence every schedule the system can follow from s is shorter than measure s *)
Lemma run_length_bound c : forall sched s s', run c s sched = Some s' -> (Z.of_nat (length sched) <= measure c s - measure c s')%Z.
Proof.
  induction sched as [|th r IH]; intros s s' H; simpl in H.
  - injection H as <-. simpl. lia.
  - destruct (step c s th) as [s1|] eqn:E; [|discriminate].
    pose proof (measure_step _ _ _ _ E). specialize (IH _ _ H). simpl length. lia.
Qed.

Lemma measure_init c :
  measure c init = ((Z.of_nat (nw c) + 1) * (15 * Z.of_nat (nt c) + 4 * Z.of_nat (np c) + 1))%Z.
Proof.
  unfold measure, level, awake, init. cbn [s_ts s_wk s_dr s_main tm wm dm mm aw].
  assert (forall l, sumZ (fun _ => 15%Z) l = (15 * Z.of_nat (length l))%Z) as H15 by (induction l; cbn [sumZ length]; lia).
  assert (forall l, sumZ (fun _ => 4%Z) l = (4 * Z.of_nat (length l))%Z) as H4 by (induction l; cbn [sumZ length]; lia).
  assert (forall l, sumZ (fun _ => 0%Z) l = 0%Z) as H0 by (induction l; cbn [sumZ]; lia).
  rewrite H15, H4, !H0. unfold tasks, pools. rewrite !seq_length. unfold nt, np. lia.
Qed.

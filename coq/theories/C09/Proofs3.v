(* C09/Proofs3.v — callback / write logs, driver invariants, the error path, termination measure. *)
From Coq Require Import ZArith List Bool Lia ZifyBool Permutation.
From IRV Require Import Base.Exn Gen.C09Gen C07.Model C09.Model C09.Proofs1 C09.Proofs2.
Import ListNotations.
Close Scope Z_scope.
Open Scope nat_scope.

(* ---------- the two logs *)
Definition is_done (x : tst) : bool := match x with TDone _ => true | _ => false end.

Definition cb_inv (c : cfg) (s : state) : Prop := log_inv past_cb is_done (s_cblog s) s.
Definition wr_inv (c : cfg) (s : state) : Prop := log_inv wrote is_done_ok (s_wlog s) s.

Lemma logs_wstep c s w s' :
  coh_inv c s -> cb_inv c s -> wr_inv c s -> wstep c s w = Some s' -> cb_inv c s' /\ wr_inv c s'.
Proof.
  intros Hco Hcb Hwr H. apply wstep_sum in H.
  destruct H as [t pc pc' Ew Ha Hts M1 M2 L1 L2 | t pc' Ew Ha Hq Hts Hlt Hp Hdq P1 P2 L1 L2 | t e Ew Ha Hts L1 L2];
    unfold cb_inv, wr_inv in *; rewrite L1, L2; split.
  - eapply (log_move c past_cb is_done); try eassumption; try reflexivity; try (intros []; reflexivity).
  - eapply (log_move c wrote is_done_ok); try eassumption; try reflexivity; try (intros []; reflexivity).
  - eapply (log_deq c past_cb is_done); try eassumption; try reflexivity; try (intros []; reflexivity).
  - eapply (log_deq c wrote is_done_ok); try eassumption; try reflexivity; try (intros []; reflexivity).
  - eapply (log_fin c past_cb is_done); try eassumption; try reflexivity; try (intros []; reflexivity).
  - eapply (log_fin c wrote is_done_ok); try eassumption; try reflexivity; try (intros []; reflexivity).
Qed.

Lemma logs_dstep c s p s' :
  cb_inv c s -> wr_inv c s -> dstep c s p = Some s' -> cb_inv c s' /\ wr_inv c s'.
Proof.
  intros Hcb Hwr H. pose proof (dstep_frame _ _ _ _ H) as (Hwk & _ & _ & _ & _ & _ & L1 & L2 & _).
  apply dstep_sum in H. unfold cb_inv, wr_inv in *. rewrite L1, L2.
  assert (Hd : forall t, is_done (s_ts s' t) = is_done (s_ts s t) /\ is_done_ok (s_ts s' t) = is_done_ok (s_ts s t)).
  { destruct H as [Hd0 Hfu Hac Hdr Hts Hcn Hfl | t Hd0 Hf Hdr Hts Hcn Hfl | Hd0 Hf Hdr Hts Hcn Hfl
                   | Hd0 Hf Hdr Hts Hcn Hfl | Hd0 Hf Hok Hdr Hts Hcn Hfl | e Hd0 Hid Hdr Hts Hcn Hfl];
      try (intros t0; rewrite Hts; split; reflexivity).
    apply first_task_some in Hf. destruct Hf as (_ & _ & Hu). intros t0. rewrite Hts. unfold upd.
    destruct (Nat.eqb t0 t) eqn:E; [|split; reflexivity]. apply Nat.eqb_eq in E. subst.
    destruct (s_ts s t); try discriminate Hu. split; reflexivity. }
  split.
  - apply (log_frame past_cb is_done s s'); [exact Hcb|exact Hwk|apply Hd].
  - apply (log_frame wrote is_done_ok s s'); [exact Hwr|exact Hwk|apply Hd].
Qed.

Record safe_inv (c : cfg) (s : state) : Prop := {
  si_budget : budget_inv c s;
  si_lock : lock_inv c s;
  si_coh : coh_inv c s;
  si_cb : cb_inv c s;
  si_wr : wr_inv c s
}.

Lemma safe_init c : safe_inv c init.
Proof.
  constructor; [apply budget_init|apply lock_init|apply coh_init| |].
  - split; [constructor|]. intros t. split; [intros []|]. intros [H|(w & pc & H & _)]; discriminate.
  - split; [constructor|]. intros t. split; [intros []|]. intros [H|(w & pc & H & _)]; discriminate.
Qed.

Lemma safe_step c s th s' : safe_inv c s -> step c s th = Some s' -> safe_inv c s'.
Proof.
  intros [A B C D E] H.
  assert (Hl : cb_inv c s' /\ wr_inv c s').
  { destruct th as [|p|w]; simpl in H.
    - apply mstep_frame in H. destruct H as (Hw & _ & _ & _ & _ & _ & L1 & L2 & Ht & _).
      unfold cb_inv, wr_inv in *. rewrite L1, L2. split.
      + apply (log_frame past_cb is_done s s'); [exact D|exact Hw|intros; rewrite Ht; reflexivity].
      + apply (log_frame wrote is_done_ok s s'); [exact E|exact Hw|intros; rewrite Ht; reflexivity].
    - destruct (Nat.ltb p (np c)); [|discriminate]. eapply logs_dstep; eassumption.
    - destruct (Nat.ltb w (nw c)); [|discriminate]. eapply logs_wstep; eassumption. }
  constructor; [eapply budget_step|eapply lock_step|eapply coh_step|apply Hl|apply Hl]; eassumption.
Qed.

Lemma safe_reachable c s : reachable c s -> safe_inv c s.
Proof. induction 1; [apply safe_init|eapply safe_step; eassumption]. Qed.

(* ---------- driver invariants *)
Lemma wstep_frame c s w s' :
  wstep c s w = Some s' -> s_dr s' = s_dr s /\ s_cancel s' = s_cancel s /\ s_main s' = s_main s.
Proof.
  intros H. unfold wstep in H.
  destruct (s_wk s w) as [|t pc]; [|destruct pc]; cbv beta iota zeta in H;
    try discriminate H; break_match H; inv_some H; simpl; repeat split; reflexivity.
Qed.

Lemma failed_iff c s p :
  failed c s p = true <-> exists t, t < nt c /\ tpool c t = p /\ s_ts s t = TDone true.
Proof.
  unfold failed. rewrite existsb_exists. split.
  - intros (t & Hin & Hb). apply in_tasks in Hin. apply andb_prop in Hb. destruct Hb as [Hp Hd].
    apply Nat.eqb_eq in Hp. exists t. repeat split; try assumption.
    destruct (s_ts s t) as [| | |[]]; try discriminate Hd. reflexivity.
  - intros (t & Hlt & Hp & Hd). exists t. split; [apply in_tasks; exact Hlt|].
    rewrite Hp, Nat.eqb_refl, Hd. reflexivity.
Qed.

Lemma all_ok_iff c s p :
  all_ok c s p = true <-> forall t, t < nt c -> tpool c t = p -> s_ts s t = TDone false.
Proof.
  unfold all_ok. rewrite forallb_forall. split.
  - intros H t Hlt Hp. specialize (H t (proj2 (in_tasks c t) Hlt)). rewrite Hp, Nat.eqb_refl in H. simpl in H.
    destruct (s_ts s t) as [| | |[]]; try discriminate H. reflexivity.
  - intros H t Hin. apply in_tasks in Hin. destruct (Nat.eqb (tpool c t) p) eqn:E; [|reflexivity].
    apply Nat.eqb_eq in E. rewrite (H t Hin E). reflexivity.
Qed.

Lemma all_idle_iff c s p :
  all_idle c s p = true <-> forall w, w < nw c -> wpool c w = p -> s_wk s w = WIdle.
Proof.
  unfold all_idle. rewrite forallb_forall. split.
  - intros H w Hlt Hp. specialize (H w (proj2 (in_workers c w) Hlt)). rewrite Hp, Nat.eqb_refl in H. simpl in H.
    destruct (s_wk s w); [reflexivity|discriminate H].
  - intros H w Hin. apply in_workers in Hin. destruct (Nat.eqb (wpool c w) p) eqn:E; [|reflexivity].
    apply Nat.eqb_eq in E. rewrite (H w Hin E). reflexivity.
Qed.

Definition nounsub (c : cfg) (s : state) (p : nat) : Prop :=
  forall t, t < nt c -> tpool c t = p -> s_ts s t <> TUnsub.
Definition endok (c : cfg) (s : state) (p : nat) (e : bool) : Prop :=
  if e then s_cancel s p = true /\ failed c s p = true else s_cancel s p = false /\ all_ok c s p = true.

Definition dpool_ok (c : cfg) (s : state) (p : nat) : Prop :=
  match s_dr s p with
  | DNot => (forall t, t < nt c -> tpool c t = p -> s_ts s t = TUnsub) /\ s_cancel s p = false
  | DSub => s_cancel s p = false
  | DWait => nounsub c s p /\ s_cancel s p = false
  | DJoin e => nounsub c s p /\ endok c s p e
  | DDone e => nounsub c s p /\ endok c s p e /\ all_idle c s p = true
  end.

(* nothing that pool p's invariant mentions has changed *)
Lemma dpool_frame c s s' p :
  s_dr s' p = s_dr s p -> s_cancel s' p = s_cancel s p ->
  (forall t, t < nt c -> tpool c t = p -> s_ts s' t = s_ts s t) ->
  (forall w, w < nw c -> wpool c w = p -> s_wk s w = WIdle -> s_wk s' w = WIdle) ->
  dpool_ok c s p -> dpool_ok c s' p.
Proof.
  intros Hd Hc Ht Hw. unfold dpool_ok. rewrite Hd.
  assert (Hn : nounsub c s p -> nounsub c s' p).
  { intros H t Hlt Hp. rewrite Ht by assumption. apply H; assumption. }
  assert (He : forall e, endok c s p e -> endok c s' p e).
  { intros e. unfold endok. rewrite Hc. destruct e; intros [A B]; (split; [exact A|]).
    - apply failed_iff in B. destruct B as (t & Hlt & Hp & Hdn). apply failed_iff. exists t.
      rewrite Ht by assumption. auto.
    - apply all_ok_iff. intros t Hlt Hp. rewrite Ht by assumption. revert t Hlt Hp. apply all_ok_iff. exact B. }
  destruct (s_dr s p); rewrite ?Hc.
  - intros [A B]. split; [|exact B]. intros t Hlt Hp. rewrite Ht by assumption. apply A; assumption.
  - auto.
  - intros [A B]. auto.
  - intros [A B]. auto.
  - intros (A & B & C). repeat split; auto.
    apply all_idle_iff. intros w Hlt Hp. apply Hw; try assumption. revert w Hlt Hp. apply all_idle_iff. exact C.
Qed.

Definition drv_inv (c : cfg) (s : state) : Prop :=
  (forall p, dpool_ok c s p) /\ (forall t, nt c <= t -> s_ts s t = TUnsub).

Lemma drv_init c : drv_inv c init.
Proof. split; [intros p; unfold dpool_ok; simpl; auto|reflexivity]. Qed.

Lemma idle_after wk wk' w x' w0 :
  wk_after wk wk' w x' -> w0 <> w -> wk w0 = WIdle -> wk' w0 = WIdle.
Proof.
  intros Ha Hne H. destruct (wk_after_other (fun _ => True) _ _ _ _ _ Ha Hne) as [E|E]; rewrite E, H; reflexivity.
Qed.

Lemma drv_wstep c s w s' :
  w < nw c -> coh_inv c s -> drv_inv c s -> wstep c s w = Some s' -> drv_inv c s'.
Proof.
  intros Hw Hco [Hd Hr] H. pose proof (wstep_frame _ _ _ _ H) as (Fd & Fc & _). apply wstep_sum in H.
  assert (Hbusy : forall t pc, s_wk s w = WRun t pc -> forall e, s_dr s (wpool c w) <> DDone e).
  { intros t pc Ew e Hdd. specialize (Hd (wpool c w)). unfold dpool_ok in Hd. rewrite Hdd in Hd.
    destruct Hd as (_ & _ & Hi). rewrite all_idle_iff in Hi. rewrite (Hi w Hw eq_refl) in Ew. discriminate. }
  destruct H as [t pc pc' Ew Ha Hts _ _ _ _ | t pc' Ew Ha Hq Hts Hlt Hp Hdq _ _ _ _ | t e Ew Ha Hts _ _].
  - (* move *)
    split; [|intros t0 Ht0; rewrite Hts; apply Hr; exact Ht0].
    intros p. destruct (Nat.eq_dec p (wpool c w)) as [->|Hne].
    + specialize (Hd (wpool c w)). pose proof (Hbusy t pc Ew) as Hb.
      unfold dpool_ok, nounsub, endok, failed, all_ok in *. rewrite Fd, Fc, Hts.
      destruct (s_dr s (wpool c w)); try exact Hd. exfalso. eapply Hb. reflexivity.
    + apply (dpool_frame c s s' p); [rewrite Fd; reflexivity|rewrite Fc; reflexivity| | |apply Hd].
      * intros; rewrite Hts; reflexivity.
      * intros w0 Hlt0 Hp0 Hi. apply (idle_after _ _ _ _ _ Ha); [intros ->; congruence|exact Hi].
  - (* dequeue *)
    split.
    2:{ intros t0 Ht0. rewrite Hts, upd_other by lia. apply Hr. exact Ht0. }
    intros p. destruct (Nat.eq_dec p (wpool c w)) as [->|Hne].
    + specialize (Hd (wpool c w)). unfold dpool_ok in *. rewrite Fd. unfold dequeue_ok in Hdq.
      apply andb_prop in Hdq. destruct Hdq as [Hnc _]. apply negb_true_iff in Hnc.
      assert (Hn : nounsub c s (wpool c w) -> nounsub c s' (wpool c w)).
      { intros Hn t0 Hlt0 Hp0. rewrite Hts. unfold upd. destruct (Nat.eqb t0 t); [discriminate|apply Hn; assumption]. }
      assert (He : forall e0, endok c s (wpool c w) e0 -> endok c s' (wpool c w) e0).
      { intros e0. unfold endok. rewrite Fc. destruct e0; intros [A B]; [congruence|].
        exfalso. rewrite all_ok_iff in B. rewrite (B t Hlt Hp) in Hq. discriminate. }
      destruct (s_dr s (wpool c w)); rewrite ?Fc.
      * destruct Hd as [A _]. rewrite (A t Hlt Hp) in Hq. discriminate.
      * exact Hd.
      * destruct Hd as [A B]. auto.
      * destruct Hd as [A B]. auto.
      * destruct Hd as (A & B & C). exfalso. unfold endok in B. destruct e; destruct B as [B1 B2]; [congruence|].
        rewrite all_ok_iff in B2. rewrite (B2 t Hlt Hp) in Hq. discriminate.
    + apply (dpool_frame c s s' p); [rewrite Fd; reflexivity|rewrite Fc; reflexivity| | |apply Hd].
      * intros t0 Hlt0 Hp0. rewrite Hts, upd_other; [reflexivity|]. intros ->. congruence.
      * intros w0 Hlt0 Hp0 Hi. apply (idle_after _ _ _ _ _ Ha); [intros ->; congruence|exact Hi].
  - (* finish *)
    assert (Hcw : cur (s_wk s w) = Some t) by (rewrite Ew; reflexivity).
    destruct (co_run c s Hco w t Hcw) as (Htk & Hlt & Hp & _).
    split.
    2:{ intros t0 Ht0. rewrite Hts, upd_other by lia. apply Hr. exact Ht0. }
    intros p. destruct (Nat.eq_dec p (wpool c w)) as [->|Hne].
    + specialize (Hd (wpool c w)). pose proof (Hbusy t _ Ew) as Hb. unfold dpool_ok in *. rewrite Fd.
      assert (Hn : nounsub c s (wpool c w) -> nounsub c s' (wpool c w)).
      { intros Hn t0 Hlt0 Hp0. rewrite Hts. unfold upd. destruct (Nat.eqb t0 t); [discriminate|apply Hn; assumption]. }
      assert (He : forall e0, endok c s (wpool c w) e0 -> endok c s' (wpool c w) e0).
      { intros e0. unfold endok. rewrite Fc. destruct e0; intros [A B]; (split; [exact A|]).
        - apply failed_iff in B. destruct B as (t0 & Hlt0 & Hp0 & Hdn). apply failed_iff. exists t0.
          rewrite Hts, upd_other; [auto|]. intros ->. congruence.
        - exfalso. rewrite all_ok_iff in B. rewrite (B t Hlt Hp) in Htk. discriminate. }
      destruct (s_dr s (wpool c w)); rewrite ?Fc.
      * destruct Hd as [A _]. rewrite (A t Hlt Hp) in Htk. discriminate.
      * exact Hd.
      * destruct Hd as [A B]. auto.
      * destruct Hd as [A B]. auto.
      * exfalso. eapply Hb. reflexivity.
    + apply (dpool_frame c s s' p); [rewrite Fd; reflexivity|rewrite Fc; reflexivity| | |apply Hd].
      * intros t0 Hlt0 Hp0. rewrite Hts, upd_other; [reflexivity|]. intros ->. congruence.
      * intros w0 Hlt0 Hp0 Hi. apply (idle_after _ _ _ _ _ Ha); [intros ->; congruence|exact Hi].
Qed.

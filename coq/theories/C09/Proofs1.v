(* C09/Proofs1.v — basics (point updates, finite sums), step inversion, the budget invariant. *)
From Coq Require Import ZArith List Bool Lia ZifyBool.
From IRV Require Import Base.Exn Gen.C09Gen C07.Model C09.Model.
Import ListNotations.
Close Scope Z_scope.
Open Scope nat_scope.

(* ---------- point updates *)
Lemma upd_same {A} (f : nat -> A) k v : upd f k v k = v.
Proof. unfold upd. rewrite Nat.eqb_refl. reflexivity. Qed.
Lemma upd_other {A} (f : nat -> A) k v x : x <> k -> upd f k v x = f x.
Proof. unfold upd. intros H. destruct (Nat.eqb x k) eqn:E; [apply Nat.eqb_eq in E; contradiction|reflexivity]. Qed.

(* ---------- sums over index lists *)
Fixpoint sumZ (g : nat -> Z) (l : list nat) : Z :=
  match l with [] => 0%Z | x :: r => (g x + sumZ g r)%Z end.

Lemma sumZ_ext g h l : (forall x, In x l -> g x = h x) -> sumZ g l = sumZ h l.
Proof.
  induction l as [|a l IH]; intros H; simpl; [reflexivity|].
  rewrite (H a (or_introl eq_refl)), IH; [reflexivity|]. intros x Hx. apply H. right. exact Hx.
Qed.

Lemma sumZ_upd_notin {A} (g : A -> Z) (f : nat -> A) k v l :
  ~ In k l -> sumZ (fun x => g (upd f k v x)) l = sumZ (fun x => g (f x)) l.
Proof.
  intros H. apply sumZ_ext. intros x Hx. rewrite upd_other; [reflexivity|]. intros ->. contradiction.
Qed.

Lemma sumZ_upd {A} (g : A -> Z) (f : nat -> A) k v l :
  NoDup l -> In k l ->
  sumZ (fun x => g (upd f k v x)) l = (sumZ (fun x => g (f x)) l - g (f k) + g v)%Z.
Proof.
  induction l as [|a l IH]; intros Hnd Hin; [destruct Hin|].
  inversion Hnd as [|? ? Hna Hnd']; subst. simpl.
  destruct Hin as [->|Hin].
  - rewrite upd_same. rewrite sumZ_upd_notin by exact Hna. lia.
  - rewrite upd_other by (intros ->; contradiction). rewrite IH by assumption. lia.
Qed.

Lemma sumZ_nonneg g l : (forall x, In x l -> (0 <= g x)%Z) -> (0 <= sumZ g l)%Z.
Proof.
  induction l as [|a l IH]; intros H; simpl; [lia|].
  pose proof (H a (or_introl eq_refl)). assert (0 <= sumZ g l)%Z by (apply IH; intros; apply H; right; assumption). lia.
Qed.

Lemma sumZ_le g h l : (forall x, In x l -> (g x <= h x)%Z) -> (sumZ g l <= sumZ h l)%Z.
Proof.
  induction l as [|a l IH]; intros H; simpl; [lia|].
  pose proof (H a (or_introl eq_refl)). assert (sumZ g l <= sumZ h l)%Z by (apply IH; intros; apply H; right; assumption). lia.
Qed.

Lemma sumZ_zero g l : (forall x, In x l -> g x = 0%Z) -> sumZ g l = 0%Z.
Proof.
  induction l as [|a l IH]; intros H; simpl; [reflexivity|].
  rewrite (H a (or_introl eq_refl)), IH; [reflexivity|]. intros; apply H; right; assumption.
Qed.

Lemma sumZ_pos_ex g l : (forall x, In x l -> (0 <= g x)%Z) -> (0 < sumZ g l)%Z -> exists x, In x l /\ (0 < g x)%Z.
Proof.
  induction l as [|a l IH]; intros Hn Hp; simpl in Hp; [lia|].
  destruct (Z_lt_dec 0 (g a)) as [Ha|Ha].
  - exists a. split; [left; reflexivity|exact Ha].
  - pose proof (Hn a (or_introl eq_refl)).
    destruct IH as [x [Hx Hg]]; [intros; apply Hn; right; assumption|lia|].
    exists x. split; [right; exact Hx|exact Hg].
Qed.

Lemma sumZ_plus g h l : sumZ (fun x => (g x + h x)%Z) l = (sumZ g l + sumZ h l)%Z.
Proof. induction l as [|a l IH]; simpl; [reflexivity|rewrite IH; lia]. Qed.

Lemma sumZ_scale k g l : sumZ (fun x => (k * g x)%Z) l = (k * sumZ g l)%Z.
Proof. induction l as [|a l IH]; simpl; [lia|rewrite IH; lia]. Qed.

Lemma in_workers c w : In w (workers c) <-> w < nw c.
Proof. unfold workers. rewrite in_seq. lia. Qed.
Lemma in_tasks c t : In t (tasks c) <-> t < nt c.
Proof. unfold tasks. rewrite in_seq. lia. Qed.
Lemma in_pools c p : In p (pools c) <-> p < np c.
Proof. unfold pools. rewrite in_seq. lia. Qed.
Lemma nodup_workers c : NoDup (workers c). Proof. apply seq_NoDup. Qed.
Lemma nodup_tasks c : NoDup (tasks c). Proof. apply seq_NoDup. Qed.
Lemma nodup_pools c : NoDup (pools c). Proof. apply seq_NoDup. Qed.

Lemma first_task_some c s p f t :
  first_task c s p f = Some t -> t < nt c /\ tpool c t = p /\ f (s_ts s t) = true.
Proof.
  unfold first_task. intros H. apply find_some in H. destruct H as [Hin Hb].
  apply in_tasks in Hin. apply andb_prop in Hb. destruct Hb as [Hp Hf].
  apply Nat.eqb_eq in Hp. auto.
Qed.

Lemma first_task_none c s p f t :
  first_task c s p f = None -> t < nt c -> tpool c t = p -> f (s_ts s t) = false.
Proof.
  unfold first_task. intros H Ht Hp.
  pose proof (find_none _ _ H t (proj2 (in_tasks c t) Ht)) as Hn. simpl in Hn.
  rewrite Hp, Nat.eqb_refl in Hn. exact Hn.
Qed.

(* ---------- facts about the generated budget arithmetic *)
Lemma cap_pos c : (1 <= cap c)%Z.
Proof. unfold cap, budget_capacity. lia. Qed.
Lemma need_nonneg c t : (0 <= need c t)%Z.
Proof. unfold need, acquire_amount. lia. Qed.
Lemma need_le_len c t : (need c t <= tlen c t)%Z.
Proof.
  unfold need, acquire_amount, reservation_bytes, reservation_bytes_external, reservation_bytes_memory, tlen.
  destruct (t_ext (task_of c t)); lia.
Qed.
Lemma rel_over_iff r : release_is_oversized r = true <-> r = oversized_token.
Proof. unfold release_is_oversized, oversized_token. lia. Qed.

(* ---------- what a worker holds *)
Definition held_reg (x : wst) : Z :=
  match x with
  | WRun _ (PWrite r) | WRun _ (PRel r _) => if release_is_oversized r then 0%Z else r
  | _ => 0%Z
  end.
Definition held_over (x : wst) : Z :=
  match x with
  | WRun _ (PWrite r) | WRun _ (PRel r _) => if release_is_oversized r then 1%Z else 0%Z
  | _ => 0%Z
  end.
(* bytes materialised by a worker: between the return of acquire and the end of release *)
Definition mat (c : cfg) (x : wst) : Z :=
  match x with
  | WRun t (PWrite _) | WRun t (PRel _ _) => need c t
  | _ => 0%Z
  end.
(* the token a holder carries is what acquire returned for its task *)
Definition tok_ok (c : cfg) (x : wst) : Prop :=
  match x with
  | WRun t (PWrite r) | WRun t (PRel r _) =>
      (r = oversized_token /\ (cap c < need c t)%Z) \/ (r = need c t /\ (need c t <= cap c)%Z)
  | _ => True
  end.

Lemma held_reg_wake x : held_reg (wake1 x) = held_reg x.
Proof. destruct x as [|t []]; reflexivity. Qed.
Lemma held_over_wake x : held_over (wake1 x) = held_over x.
Proof. destruct x as [|t []]; reflexivity. Qed.
Lemma mat_wake c x : mat c (wake1 x) = mat c x.
Proof. destruct x as [|t []]; reflexivity. Qed.
Lemma tok_ok_wake c x : tok_ok c x -> tok_ok c (wake1 x).
Proof. destruct x as [|t []]; simpl; auto. Qed.

Definition b2z (b : bool) : Z := if b then 1%Z else 0%Z.

Record budget_inv (c : cfg) (s : state) : Prop := {
  bi_reg : s_inflight s = sumZ (fun w => held_reg (s_wk s w)) (workers c);
  bi_over : b2z (s_over s) = sumZ (fun w => held_over (s_wk s w)) (workers c);
  bi_tok : forall w, tok_ok c (s_wk s w);
  bi_cap : (s_inflight s <= cap c)%Z
}.

Lemma held_reg_nonneg c x : tok_ok c x -> (0 <= held_reg x)%Z.
Proof.
  destruct x as [|t pc]; simpl; [lia|].
  destruct pc; simpl; try lia; intros [[-> _]|[-> _]];
    try (unfold release_is_oversized, oversized_token; simpl; lia);
    pose proof (need_nonneg c t); destruct (release_is_oversized (need c t)); lia.
Qed.

(* ---------- step inversion *)
Ltac break_match H :=
  repeat match type of H with
         | context [match ?x with _ => _ end] => destruct x eqn:?; try discriminate H
         | context [if ?x then _ else _] => destruct x eqn:?; try discriminate H
         end.

Ltac inv_some H := injection H as H; subst.

(* sums after a change of one worker followed by notify_all *)
Lemma sum_wk_upd (g : wst -> Z) c (f : nat -> wst) w v :
  w < nw c ->
  sumZ (fun x => g (upd f w v x)) (workers c) = (sumZ (fun x => g (f x)) (workers c) - g (f w) + g v)%Z.
Proof. intros H. apply sumZ_upd; [apply nodup_workers|apply in_workers; exact H]. Qed.

Lemma sum_wk_wake (g : wst -> Z) c (f : nat -> wst) :
  (forall x, g (wake1 x) = g x) ->
  sumZ (fun x => g (wake1 (f x))) (workers c) = sumZ (fun x => g (f x)) (workers c).
Proof. intros H. apply sumZ_ext. intros; apply H. Qed.

Lemma budget_init c : budget_inv c init.
Proof.
  constructor; simpl.
  - symmetry. apply sumZ_zero. reflexivity.
  - symmetry. apply sumZ_zero. reflexivity.
  - intros w. exact I.
  - pose proof (cap_pos c). lia.
Qed.

Lemma budget_wstep c s w s' :
  w < nw c -> budget_inv c s -> wstep c s w = Some s' -> budget_inv c s'.
Proof.
  intros Hw [Hr Ho Ht Hc] H. unfold wstep in H.
  destruct (s_wk s w) as [|t pc] eqn:Ew.
  - (* dequeue *)
    break_match H. inv_some H. constructor; simpl.
    + rewrite (sum_wk_upd held_reg) by exact Hw. rewrite Ew. simpl. unfold first_pc. rewrite Hr.
      destruct (serial c (wpool c w)); destruct (c_outer c); simpl; lia.
    + rewrite (sum_wk_upd held_over) by exact Hw. rewrite Ew. simpl. unfold first_pc. rewrite Ho.
      destruct (serial c (wpool c w)); destruct (c_outer c); simpl; lia.
    + intros w0. unfold upd. destruct (Nat.eqb w0 w); [|apply Ht].
      unfold first_pc. destruct (serial c (wpool c w)); destruct (c_outer c); exact I.
    + exact Hc.
  - pose proof (Ht w) as Htw. rewrite Ew in Htw.
    destruct pc; cbv beta iota zeta in H.
    all: try discriminate H.
    all: try (break_match H; inv_some H; (constructor; simpl;
      [ rewrite (sum_wk_upd held_reg) by exact Hw; rewrite Ew; simpl; rewrite Hr;
        try unfold after_outer; repeat match goal with |- context [if ?b then _ else _] => destruct b end; simpl; lia
      | rewrite (sum_wk_upd held_over) by exact Hw; rewrite Ew; simpl; rewrite Ho;
        try unfold after_outer; repeat match goal with |- context [if ?b then _ else _] => destruct b end; simpl; lia
      | intros w0; unfold upd; destruct (Nat.eqb w0 w); [|apply Ht];
        try unfold after_outer; repeat match goal with |- context [if ?b then _ else _] => destruct b end; exact I
      | exact Hc ]); fail).
    + (* PAcq *)
      destruct (acquire_is_oversized (need c t) (cap c)) eqn:Eov.
      * destruct (acquire_oversized_guard (s_over s)) eqn:Eg; inv_some H; constructor; simpl.
        -- rewrite (sum_wk_upd held_reg) by exact Hw. rewrite Ew. simpl. rewrite Hr. lia.
        -- rewrite (sum_wk_upd held_over) by exact Hw. rewrite Ew. simpl. rewrite <- Ho.
           unfold acquire_oversized_guard in Eg. destruct (s_over s); simpl in *; [discriminate|lia].
        -- intros w0. unfold upd. destruct (Nat.eqb w0 w); [|apply Ht]. simpl. left.
           split; [reflexivity|]. unfold acquire_is_oversized in Eov. lia.
        -- exact Hc.
        -- rewrite (sum_wk_upd held_reg) by exact Hw. rewrite Ew. simpl. rewrite Hr. lia.
        -- rewrite (sum_wk_upd held_over) by exact Hw. rewrite Ew. simpl. rewrite Ho. lia.
        -- intros w0. unfold upd. destruct (Nat.eqb w0 w); [exact I|apply Ht].
        -- exact Hc.
      * destruct (acquire_regular_guard (s_inflight s) (need c t) (cap c)) eqn:Eg; inv_some H; constructor; simpl.
        -- rewrite (sum_wk_upd held_reg) by exact Hw. rewrite Ew. simpl. rewrite <- Hr.
           unfold acquire_regular_update.
           assert (release_is_oversized (need c t) = false) as ->.
           { pose proof (need_nonneg c t). unfold release_is_oversized. lia. }
           lia.
        -- rewrite (sum_wk_upd held_over) by exact Hw. rewrite Ew. simpl. rewrite Ho.
           assert (release_is_oversized (need c t) = false) as ->.
           { pose proof (need_nonneg c t). unfold release_is_oversized. lia. }
           lia.
        -- intros w0. unfold upd. destruct (Nat.eqb w0 w); [|apply Ht]. simpl. right.
           split; [reflexivity|]. unfold acquire_is_oversized in Eov. lia.
        -- unfold acquire_regular_guard, acquire_regular_update in *. lia.
        -- rewrite (sum_wk_upd held_reg) by exact Hw. rewrite Ew. simpl. rewrite Hr. lia.
        -- rewrite (sum_wk_upd held_over) by exact Hw. rewrite Ew. simpl. rewrite Ho. lia.
        -- intros w0. unfold upd. destruct (Nat.eqb w0 w); [exact I|apply Ht].
        -- exact Hc.
    + (* PWrite *)
      destruct (t_wfail (task_of c t)); inv_some H; constructor; simpl.
      all: try (rewrite (sum_wk_upd held_reg) by exact Hw; rewrite Ew; simpl; rewrite Hr; lia).
      all: try (rewrite (sum_wk_upd held_over) by exact Hw; rewrite Ew; simpl; rewrite Ho; lia).
      all: try exact Hc.
      all: intros w0; unfold upd; destruct (Nat.eqb w0 w); [exact Htw|apply Ht].
    + (* PRel *)
      inv_some H. simpl in Htw.
      destruct (release_is_oversized r) eqn:Er; constructor; simpl.
      * rewrite (sum_wk_wake held_reg) by apply held_reg_wake.
        rewrite (sum_wk_upd held_reg) by exact Hw. rewrite Ew. simpl. rewrite Er, Hr. lia.
      * rewrite (sum_wk_wake held_over) by apply held_over_wake.
        rewrite (sum_wk_upd held_over) by exact Hw. rewrite Ew. simpl. rewrite Er.
        assert (s_over s = true) as Hov.
        { destruct (s_over s); [reflexivity|]. simpl in Ho.
          assert (0 < sumZ (fun w0 => held_over (s_wk s w0)) (workers c))%Z; [|lia].
          assert (sumZ (fun w0 => held_over (s_wk s w0)) (workers c)
                  = sumZ (fun x => held_over (upd (s_wk s) w WIdle x)) (workers c) + 1)%Z as ->.
          { rewrite (sum_wk_upd held_over) by exact Hw. rewrite Ew. simpl. rewrite Er. lia. }
          assert (0 <= sumZ (fun x => held_over (upd (s_wk s) w WIdle x)) (workers c))%Z; [|lia].
          apply sumZ_nonneg. intros x _. destruct (upd (s_wk s) w WIdle x) as [|? []]; simpl; try lia;
            destruct (release_is_oversized r0); lia. }
        rewrite Hov in Ho. simpl in Ho. lia.
      * intros w0. apply tok_ok_wake. unfold upd. destruct (Nat.eqb w0 w); [exact I|apply Ht].
      * exact Hc.
      * rewrite (sum_wk_wake held_reg) by apply held_reg_wake.
        rewrite (sum_wk_upd held_reg) by exact Hw. rewrite Ew. simpl. rewrite Er, Hr.
        unfold release_regular_update. lia.
      * rewrite (sum_wk_wake held_over) by apply held_over_wake.
        rewrite (sum_wk_upd held_over) by exact Hw. rewrite Ew. simpl. rewrite Er, Ho. lia.
      * intros w0. apply tok_ok_wake. unfold upd. destruct (Nat.eqb w0 w); [exact I|apply Ht].
      * unfold release_regular_update.
        assert (0 <= r)%Z; [|lia].
        pose proof (held_reg_nonneg c _ (Ht w)) as Hn. rewrite Ew in Hn. simpl in Hn. rewrite Er in Hn. exact Hn.
Qed.

(* driver and main steps do not touch workers or the budget *)
Lemma dstep_frame c s p s' :
  dstep c s p = Some s' ->
  s_wk s' = s_wk s /\ s_inflight s' = s_inflight s /\ s_over s' = s_over s /\
  s_cbin s' = s_cbin s /\ s_cbout s' = s_cbout s /\ s_tl s' = s_tl s /\
  s_cblog s' = s_cblog s /\ s_wlog s' = s_wlog s /\ s_main s' = s_main s.
Proof.
  unfold dstep. intros H. break_match H; inv_some H; simpl; repeat split; reflexivity.
Qed.

Lemma mstep_frame c s s' :
  mstep c s = Some s' ->
  s_wk s' = s_wk s /\ s_inflight s' = s_inflight s /\ s_over s' = s_over s /\
  s_cbin s' = s_cbin s /\ s_cbout s' = s_cbout s /\ s_tl s' = s_tl s /\
  s_cblog s' = s_cblog s /\ s_wlog s' = s_wlog s /\ s_ts s' = s_ts s /\ s_dr s' = s_dr s /\
  s_cancel s' = s_cancel s /\ s_files s' = s_files s.
Proof.
  unfold mstep. intros H. break_match H; inv_some H; simpl; repeat split; reflexivity.
Qed.

Lemma budget_step c s th s' : budget_inv c s -> step c s th = Some s' -> budget_inv c s'.
Proof.
  intros Hi H. destruct th as [|p|w]; simpl in H.
  - apply mstep_frame in H. destruct H as (Hw & Hf & Ho & _). destruct Hi as [Hr Hov Ht Hc].
    constructor; rewrite ?Hw, ?Hf, ?Ho; assumption.
  - destruct (Nat.ltb p (np c)); [|discriminate].
    apply dstep_frame in H. destruct H as (Hw & Hf & Ho & _). destruct Hi as [Hr Hov Ht Hc].
    constructor; rewrite ?Hw, ?Hf, ?Ho; assumption.
  - destruct (Nat.ltb w (nw c)) eqn:E; [|discriminate]. apply Nat.ltb_lt in E.
    eapply budget_wstep; eassumption.
Qed.

Lemma budget_reachable c s : reachable c s -> budget_inv c s.
Proof. induction 1; [apply budget_init|eapply budget_step; eassumption]. Qed.

(* ---------- C09_budget_inv *)
Lemma inflight_bounds c s : budget_inv c s -> (0 <= s_inflight s <= cap c)%Z.
Proof.
  intros [Hr Ho Ht Hc]. split; [|exact Hc].
  rewrite Hr. apply sumZ_nonneg. intros w _. apply (held_reg_nonneg c). apply Ht.
Qed.

Lemma need_out_of_range c t : nt c <= t -> need c t = 0%Z.
Proof.
  intros H. unfold need, tlen, task_of. rewrite nth_overflow by exact H. reflexivity.
Qed.

Lemma need_bound_all c M : (0 <= M)%Z -> (forall t, t < nt c -> (need c t <= M)%Z) -> forall t, (need c t <= M)%Z.
Proof.
  intros HM H t. destruct (Nat.lt_ge_cases t (nt c)) as [Hl|Hg]; [apply H; exact Hl|].
  rewrite need_out_of_range by exact Hg. exact HM.
Qed.

(* materialised bytes = sum over workers between acquire's return and release *)
Definition materialised (c : cfg) (s : state) : Z := sumZ (fun w => mat c (s_wk s w)) (workers c).

Lemma materialised_bound c s M :
  budget_inv c s -> (0 <= M)%Z -> (forall t, t < nt c -> (need c t <= M)%Z) ->
  (materialised c s <= cap c + M)%Z.
Proof.
  intros [Hr Ho Ht Hc] HM HN. unfold materialised.
  assert (Hall := need_bound_all c M HM HN).
  apply Z.le_trans with (sumZ (fun w => held_reg (s_wk s w) + M * held_over (s_wk s w))%Z (workers c)).
  - apply sumZ_le. intros w _. pose proof (Ht w) as Hw.
    destruct (s_wk s w) as [|t pc]; simpl; [lia|].
    destruct pc; simpl in *; try lia.
    all: pose proof (Hall t); pose proof (need_nonneg c t);
      destruct Hw as [[-> Hlt]|[-> Hle]];
      [ assert (release_is_oversized oversized_token = true) as -> by (apply rel_over_iff; reflexivity); lia
      | assert (release_is_oversized (need c t) = false) as -> by (unfold release_is_oversized; lia); lia ].
  - rewrite sumZ_plus, sumZ_scale, <- Hr, <- Ho. destruct (s_over s); simpl; lia.
Qed.

(* C09/Proofs2.v — lock ownership invariants (mutual exclusion), step summaries, task/worker coherence,
   callback-log and write-log invariants. *)
From Coq Require Import ZArith List Bool Lia ZifyBool Permutation.
From IRV Require Import Base.Exn Gen.C09Gen C07.Model C09.Model C09.Proofs1.
Import ListNotations.
Close Scope Z_scope.
Open Scope nat_scope.

(* ---------- which lock a worker holds, read off its program counter *)
Definition hk_in (c : cfg) (w : nat) (x : wst) : option nat :=
  match x with
  | WRun _ PCbOut | WRun _ PCb | WRun _ (PCbUnOut _) | WRun _ (PCbUnIn _) =>
      if serial c (wpool c w) then None else Some (wpool c w)
  | _ => None
  end.
Definition h_out (c : cfg) (x : wst) : bool :=
  match x with
  | WRun _ PCb | WRun _ (PCbUnOut _) => c_outer c
  | _ => false
  end.
Definition hk_tl (c : cfg) (x : wst) : option nat :=
  match x with
  | WRun t PAcq | WRun t PSleep | WRun t (PWrite _) | WRun t (PRel _ _) | WRun t (PTUn _) => Some (tobj c t)
  | _ => None
  end.
(* program counters that only exist under some configurations *)
Definition pc_cfg (c : cfg) (w : nat) (x : wst) : Prop :=
  match x with
  | WRun _ PCbIn | WRun _ (PCbUnIn _) => serial c (wpool c w) = false
  | WRun _ PCbOut | WRun _ (PCbUnOut _) => c_outer c = true
  | _ => True
  end.

Record lock_inv (c : cfg) (s : state) : Prop := {
  li_in : forall w p, s_cbin s p = Some w <-> hk_in c w (s_wk s w) = Some p;
  li_out : forall w, s_cbout s = Some w <-> h_out c (s_wk s w) = true;
  li_tl : forall w o, s_tl s o = Some w <-> hk_tl c (s_wk s w) = Some o;
  li_cfg : forall w, pc_cfg c w (s_wk s w)
}.

Lemma hk_in_wake c w x : hk_in c w (wake1 x) = hk_in c w x.
Proof. destruct x as [|t []]; reflexivity. Qed.
Lemma h_out_wake c x : h_out c (wake1 x) = h_out c x.
Proof. destruct x as [|t []]; reflexivity. Qed.
Lemma hk_tl_wake c x : hk_tl c (wake1 x) = hk_tl c x.
Proof. destruct x as [|t []]; reflexivity. Qed.
Lemma pc_cfg_wake c w x : pc_cfg c w x -> pc_cfg c w (wake1 x).
Proof. destruct x as [|t []]; simpl; auto. Qed.

(* generic: a family of locks with explicit owners vs. "who is in the region" *)
Lemma own_step (L L' : nat -> option nat) (Hf : nat -> wst -> option nat) (wk wk' : nat -> wst) w :
  (forall w0 k, L k = Some w0 <-> Hf w0 (wk w0) = Some k) ->
  (forall w0, w0 <> w -> Hf w0 (wk' w0) = Hf w0 (wk w0)) ->
  ( ((forall k, L' k = L k) /\ Hf w (wk' w) = Hf w (wk w))
    \/ (exists k, L k = None /\ Hf w (wk w) = None /\ Hf w (wk' w) = Some k /\ (forall k', L' k' = upd L k (Some w) k'))
    \/ (exists k, Hf w (wk w) = Some k /\ Hf w (wk' w) = None /\ (forall k', L' k' = upd L k None k')) ) ->
  forall w0 k, L' k = Some w0 <-> Hf w0 (wk' w0) = Some k.
Proof.
  intros Hinv Hoth Hcase w0 k.
  destruct (Nat.eq_dec w0 w) as [->|Hne].
  - destruct Hcase as [[HL Hw]|[[k1 (HN & Hw0 & Hw1 & HL)]|[k1 (Hw0 & Hw1 & HL)]]].
    + rewrite HL, Hw. apply Hinv.
    + rewrite HL, Hw1. unfold upd. destruct (Nat.eqb k k1) eqn:E.
      * apply Nat.eqb_eq in E. subst. split; reflexivity.
      * apply Nat.eqb_neq in E. split.
        -- intros H. apply Hinv in H. congruence.
        -- intros H. congruence.
    + rewrite HL, Hw1. unfold upd. destruct (Nat.eqb k k1) eqn:E.
      * split; discriminate.
      * apply Nat.eqb_neq in E. split; [|discriminate].
        intros H. apply Hinv in H. congruence.
  - rewrite (Hoth w0 Hne).
    destruct Hcase as [[HL Hw]|[[k1 (HN & Hw0 & Hw1 & HL)]|[k1 (Hw0 & Hw1 & HL)]]].
    + rewrite HL. apply Hinv.
    + rewrite HL. unfold upd. destruct (Nat.eqb k k1) eqn:E.
      * apply Nat.eqb_eq in E. subst. split.
        -- intros H. congruence.
        -- intros H. apply Hinv in H. congruence.
      * apply Hinv.
    + rewrite HL. unfold upd. destruct (Nat.eqb k k1) eqn:E.
      * apply Nat.eqb_eq in E. subst. split; [discriminate|].
        intros H. apply Hinv in H. apply Hinv in Hw0. congruence.
      * apply Hinv.
Qed.

(* a single lock *)
Lemma own1_step (L L' : option nat) (Hf : wst -> bool) (wk wk' : nat -> wst) w :
  (forall w0, L = Some w0 <-> Hf (wk w0) = true) ->
  (forall w0, w0 <> w -> Hf (wk' w0) = Hf (wk w0)) ->
  ( (L' = L /\ Hf (wk' w) = Hf (wk w))
    \/ (L = None /\ Hf (wk w) = false /\ Hf (wk' w) = true /\ L' = Some w)
    \/ (Hf (wk w) = true /\ Hf (wk' w) = false /\ L' = None) ) ->
  forall w0, L' = Some w0 <-> Hf (wk' w0) = true.
Proof.
  intros Hinv Hoth Hcase w0.
  destruct (Nat.eq_dec w0 w) as [->|Hne].
  - destruct Hcase as [[-> Hw]|[(-> & Hw0 & Hw1 & ->)|(Hw0 & Hw1 & ->)]].
    + rewrite Hw. apply Hinv.
    + rewrite Hw1. split; reflexivity.
    + rewrite Hw1. split; discriminate.
  - rewrite (Hoth w0 Hne).
    destruct Hcase as [[-> Hw]|[(-> & Hw0 & Hw1 & ->)|(Hw0 & Hw1 & ->)]].
    + apply Hinv.
    + split; [congruence|]. intros H. apply Hinv in H. discriminate.
    + split; [discriminate|]. intros H. apply Hinv in H. apply Hinv in Hw0. congruence.
Qed.

Lemma lock_init c : lock_inv c init.
Proof. constructor; simpl; intros; try exact I; split; discriminate. Qed.

(* the worker array after a step of w: w's entry replaced, possibly followed by notify_all *)
Definition wk_after (wk wk' : nat -> wst) (w : nat) (x' : wst) : Prop :=
  (forall w0, wk' w0 = upd wk w x' w0) \/ (wake1 x' = x' /\ forall w0, wk' w0 = wake1 (upd wk w x' w0)).

Lemma wk_after_self wk wk' w x' : wk_after wk wk' w x' -> wk' w = x'.
Proof. intros [H|[Hx H]]; rewrite H, upd_same; [reflexivity|exact Hx]. Qed.

Lemma wk_after_other (g : wst -> Prop) wk wk' w x' w0 :
  wk_after wk wk' w x' -> w0 <> w -> wk' w0 = wk w0 \/ wk' w0 = wake1 (wk w0).
Proof. intros [H|[Hx H]] Hne; rewrite H, upd_other by exact Hne; auto. Qed.

Lemma wk_after_other_f {A} (g : wst -> A) wk wk' w x' w0 :
  (forall x, g (wake1 x) = g x) -> wk_after wk wk' w x' -> w0 <> w -> g (wk' w0) = g (wk w0).
Proof. intros Hg [H|[Hx H]] Hne; rewrite H, upd_other by exact Hne; [reflexivity|apply Hg]. Qed.

Ltac ifs := repeat match goal with |- context [if ?b then _ else _] => destruct b eqn:? end.
Ltac fin := simpl in *; ifs; try reflexivity; try congruence; try discriminate.

(* the three ways a step of w can relate to one lock: untouched / acquired / released *)
Ltac own_cases Ew :=
  simpl; try unfold first_pc; try unfold after_outer; rewrite ?hk_in_wake, ?hk_tl_wake, ?h_out_wake, ?upd_same, ?Ew;
  first
    [ left; split; [intros; reflexivity | solve [fin]]
    | right; left; eexists; split; [eassumption | split; [solve [fin] | split; [solve [fin] | intros; reflexivity]]]
    | right; right; eexists; split; [solve [fin] | split; [solve [fin] | intros; reflexivity]] ].
Ltac own1_cases Ew :=
  simpl; try unfold first_pc; try unfold after_outer; rewrite ?hk_in_wake, ?hk_tl_wake, ?h_out_wake, ?upd_same, ?Ew;
  first
    [ left; split; [reflexivity | solve [fin]]
    | right; left; split; [first [assumption | reflexivity] | split; [solve [fin] | split; [solve [fin] | reflexivity]]]
    | right; right; split; [solve [fin] | split; [solve [fin] | reflexivity]] ].
Ltac others :=
  let w0 := fresh "w0" in let Hne := fresh "Hne" in
  intros w0 Hne; simpl; rewrite ?hk_in_wake, ?hk_tl_wake, ?h_out_wake, upd_other by exact Hne; reflexivity.

Lemma lock_wstep c s w s' : lock_inv c s -> wstep c s w = Some s' -> lock_inv c s'.
Proof.
  intros [Hin Hout Htl Hcf] H. pose proof (Hcf w) as Hcw. unfold wstep in H.
  destruct (s_wk s w) as [|t pc] eqn:Ew; [|destruct pc]; cbv beta iota zeta in H; simpl in Hcw;
    try discriminate H; break_match H; inv_some H.
  all: constructor;
    [ apply (own_step _ _ (hk_in c) (s_wk s) _ w Hin); [others | own_cases Ew]
    | apply (own1_step _ _ (h_out c) (s_wk s) _ w Hout); [others | own1_cases Ew]
    | apply (own_step _ _ (fun _ => hk_tl c) (s_wk s) _ w Htl); [others | own_cases Ew]
    | let w0 := fresh "w0" in intros w0; simpl; try apply pc_cfg_wake; unfold upd;
      destruct (Nat.eqb w0 w) eqn:Ee; [apply Nat.eqb_eq in Ee; subst w0; unfold first_pc, after_outer; fin; auto | apply Hcf] ].
Qed.

Lemma lock_step c s th s' : lock_inv c s -> step c s th = Some s' -> lock_inv c s'.
Proof.
  intros Hi H. destruct th as [|p|w]; simpl in H.
  - apply mstep_frame in H. destruct H as (Hw & _ & _ & Hi1 & Hi2 & Hi3 & _). destruct Hi as [A B C D].
    constructor; intros; rewrite ?Hw, ?Hi1, ?Hi2, ?Hi3; auto.
  - destruct (Nat.ltb p (np c)); [|discriminate].
    apply dstep_frame in H. destruct H as (Hw & _ & _ & Hi1 & Hi2 & Hi3 & _). destruct Hi as [A B C D].
    constructor; intros; rewrite ?Hw, ?Hi1, ?Hi2, ?Hi3; auto.
  - destruct (Nat.ltb w (nw c)); [|discriminate]. eapply lock_wstep; eassumption.
Qed.

Lemma lock_reachable c s : reachable c s -> lock_inv c s.
Proof. induction 1; [apply lock_init|eapply lock_step; eassumption]. Qed.

(* ---------- mutual exclusion statements *)
Definition in_callback (x : wst) : bool := match x with WRun _ PCb => true | _ => false end.
(* a worker is "using" tensor object o from the moment it owns the write lock until it gives it back *)
Definition using_obj (c : cfg) (x : wst) (o : nat) : Prop := hk_tl c x = Some o.

Lemma tensor_mutex c s w1 w2 o :
  lock_inv c s -> using_obj c (s_wk s w1) o -> using_obj c (s_wk s w2) o -> w1 = w2.
Proof.
  intros [_ _ Htl _] H1 H2. apply Htl in H1. apply Htl in H2. congruence.
Qed.

(* callbacks are protected either by the outer lock (sharded save) or, for the single-file writer,
   by the one inner lock of the one (parallel) pool *)
Definition cb_protected (c : cfg) : Prop :=
  c_outer c = true \/ (forall w, wpool c w = 0 /\ serial c 0 = false).

Lemma cb_mutex c s w1 w2 :
  cb_protected c -> lock_inv c s ->
  in_callback (s_wk s w1) = true -> in_callback (s_wk s w2) = true -> w1 = w2.
Proof.
  intros Hp [Hin Hout _ _] H1 H2.
  destruct (s_wk s w1) as [|t1 pc1] eqn:E1; [discriminate|]. destruct pc1; try discriminate.
  destruct (s_wk s w2) as [|t2 pc2] eqn:E2; [discriminate|]. destruct pc2; try discriminate.
  destruct Hp as [Ho|Hs].
  - assert (A1 : s_cbout s = Some w1) by (apply Hout; rewrite E1; exact Ho).
    assert (A2 : s_cbout s = Some w2) by (apply Hout; rewrite E2; exact Ho).
    congruence.
  - destruct (Hs w1) as [P1 S0]. destruct (Hs w2) as [P2 _].
    assert (A1 : s_cbin s 0 = Some w1) by (apply Hin; rewrite E1; simpl; rewrite P1, S0; reflexivity).
    assert (A2 : s_cbin s 0 = Some w2) by (apply Hin; rewrite E2; simpl; rewrite P2, S0; reflexivity).
    congruence.
Qed.

(* ---------- summary of a worker step *)
Definition cur (x : wst) : option nat := match x with WRun t _ => Some t | WIdle => None end.
Lemma cur_wake x : cur (wake1 x) = cur x.
Proof. destruct x as [|t []]; reflexivity. Qed.

Definition past_cb (pc : wpc) : bool := match pc with PCbIn | PCbOut | PCb => false | _ => true end.
Definition wrote (pc : wpc) : bool :=
  match pc with PRel _ false | PTUn false | PFin false => true | _ => false end.
(* the tensor has not been evaluated yet by the worker at this point *)
Definition pre_write (pc : wpc) : bool :=
  match pc with PRel _ _ | PTUn _ | PFin _ => false | _ => true end.
Definition app_if (b : bool) (l : list nat) (t : nat) : list nat := if b then l ++ [t] else l.

Inductive wsum (c : cfg) (s : state) (w : nat) (s' : state) : Prop :=
| ws_move t pc pc' :
    s_wk s w = WRun t pc -> wk_after (s_wk s) (s_wk s') w (WRun t pc') ->
    s_ts s' = s_ts s ->
    (past_cb pc = true -> past_cb pc' = true) -> (wrote pc = true -> wrote pc' = true) ->
    (pre_write pc' = true -> pre_write pc = true) ->
    s_cblog s' = app_if (past_cb pc' && negb (past_cb pc)) (s_cblog s) t ->
    s_wlog s' = app_if (wrote pc' && negb (wrote pc)) (s_wlog s) t ->
    wsum c s w s'
| ws_deq t pc' :
    s_wk s w = WIdle -> wk_after (s_wk s) (s_wk s') w (WRun t pc') ->
    s_ts s t = TQueued -> s_ts s' = upd (s_ts s) t TTaken -> t < nt c -> tpool c t = wpool c w ->
    dequeue_ok c s (wpool c w) = true ->
    past_cb pc' = false -> wrote pc' = false ->
    s_cblog s' = s_cblog s -> s_wlog s' = s_wlog s ->
    wsum c s w s'
| ws_fin t e :
    s_wk s w = WRun t (PFin e) -> wk_after (s_wk s) (s_wk s') w WIdle ->
    s_ts s' = upd (s_ts s) t (TDone e) ->
    s_cblog s' = s_cblog s -> s_wlog s' = s_wlog s ->
    wsum c s w s'.

Lemma wstep_sum c s w s' : wstep c s w = Some s' -> wsum c s w s'.
Proof.
  intros H. unfold wstep in H.
  destruct (s_wk s w) as [|t pc] eqn:Ew; [|destruct pc]; cbv beta iota zeta in H;
    try discriminate H; break_match H; inv_some H.
  all: try (eapply ws_move;
            [ exact Ew
            | first [left; intros; reflexivity | right; refine (conj _ (fun w0 => eq_refl)); reflexivity]
            | .. ]; simpl; try unfold after_outer; fin; fail).
  - (* dequeue *)
    apply first_task_some in Heqo. destruct Heqo as (Hlt & Hp & Hq).
    destruct (s_ts s n) eqn:Et; try discriminate Hq.
    eapply ws_deq with (t := n); simpl; try reflexivity; try eassumption.
    + left. reflexivity.
    + unfold first_pc. fin.
    + unfold first_pc. fin.
  - (* PFin *)
    eapply ws_fin; [exact Ew | left; intros; reflexivity | reflexivity..].
Qed.

(* ---------- summary of a driver step *)
Definition init_file (c : cfg) (p : nat) : list Z := if serial c p then [] else repeat 0%Z (total_size c p).

Inductive dsum (c : cfg) (s : state) (p : nat) (s' : state) : Prop :=
| ds_start :
    s_dr s p = DNot -> first_unstarted c s = Some p -> active_count c s < c_limit c ->
    s_dr s' = upd (s_dr s) p DSub -> s_ts s' = s_ts s -> s_cancel s' = s_cancel s ->
    s_files s' = upd (s_files s) p (init_file c p) -> dsum c s p s'
| ds_submit t :
    s_dr s p = DSub -> first_task c s p is_unsub = Some t ->
    s_dr s' = s_dr s -> s_ts s' = upd (s_ts s) t TQueued -> s_cancel s' = s_cancel s ->
    s_files s' = s_files s -> dsum c s p s'
| ds_subdone :
    s_dr s p = DSub -> first_task c s p is_unsub = None ->
    s_dr s' = upd (s_dr s) p DWait -> s_ts s' = s_ts s -> s_cancel s' = s_cancel s ->
    s_files s' = s_files s -> dsum c s p s'
| ds_fail :
    s_dr s p = DWait -> failed c s p = true ->
    s_dr s' = upd (s_dr s) p (DJoin true) -> s_ts s' = s_ts s -> s_cancel s' = upd (s_cancel s) p true ->
    s_files s' = s_files s -> dsum c s p s'
| ds_ok :
    s_dr s p = DWait -> failed c s p = false -> all_ok c s p = true ->
    s_dr s' = upd (s_dr s) p (DJoin false) -> s_ts s' = s_ts s -> s_cancel s' = s_cancel s ->
    s_files s' = s_files s -> dsum c s p s'
| ds_join e :
    s_dr s p = DJoin e -> all_idle c s p = true ->
    s_dr s' = upd (s_dr s) p (DDone e) -> s_ts s' = s_ts s -> s_cancel s' = s_cancel s ->
    s_files s' = s_files s -> dsum c s p s'.

Lemma dstep_sum c s p s' : dstep c s p = Some s' -> dsum c s p s'.
Proof.
  intros H. unfold dstep in H. destruct (s_dr s p) eqn:Ed; try discriminate H; break_match H; inv_some H.
  1-2: apply andb_prop in Heqb; destruct Heqb as [A B]; apply Nat.eqb_eq in A; apply Nat.ltb_lt in B; subst n.
  1-2: apply ds_start; try reflexivity; try assumption; simpl; unfold init_file; rewrite Heqb0; reflexivity.
  - eapply ds_submit; try reflexivity; eassumption.
  - apply ds_subdone; try reflexivity; assumption.
  - apply ds_fail; try reflexivity; assumption.
  - apply ds_ok; try reflexivity; assumption.
  - eapply ds_join; try reflexivity; eassumption.
Qed.

(* ---------- coherence between workers and task statuses *)
Record coh_inv (c : cfg) (s : state) : Prop := {
  co_run : forall w t, cur (s_wk s w) = Some t ->
                       s_ts s t = TTaken /\ t < nt c /\ tpool c t = wpool c w /\ w < nw c;
  co_uniq : forall w1 w2 t, cur (s_wk s w1) = Some t -> cur (s_wk s w2) = Some t -> w1 = w2;
  co_taken : forall t, s_ts s t = TTaken -> exists w, cur (s_wk s w) = Some t
}.

Lemma coh_init c : coh_inv c init.
Proof. constructor; simpl; intros; discriminate. Qed.

Lemma coh_same c s s' :
  (forall w0, cur (s_wk s' w0) = cur (s_wk s w0)) -> s_ts s' = s_ts s -> coh_inv c s -> coh_inv c s'.
Proof.
  intros Hc Ht [A B C]. constructor.
  - intros w t H. rewrite Hc in H. rewrite Ht. apply A. exact H.
  - intros w1 w2 t H1 H2. rewrite Hc in H1, H2. eapply B; eassumption.
  - intros t H. rewrite Ht in H. destruct (C t H) as [w Hw]. exists w. rewrite Hc. exact Hw.
Qed.

Lemma cur_after wk wk' w x' w0 :
  wk_after wk wk' w x' -> cur (wk' w0) = if Nat.eqb w0 w then cur x' else cur (wk w0).
Proof.
  intros Ha. destruct (Nat.eqb w0 w) eqn:E.
  - apply Nat.eqb_eq in E. subst. rewrite (wk_after_self _ _ _ _ Ha). reflexivity.
  - apply Nat.eqb_neq in E. apply (wk_after_other_f cur _ _ _ _ _ cur_wake Ha E).
Qed.

Lemma coh_wstep c s w s' : w < nw c -> coh_inv c s -> wstep c s w = Some s' -> coh_inv c s'.
Proof.
  intros Hw Hi H. apply wstep_sum in H.
  destruct H as [t pc pc' Ew Ha Hts _ _ _ _ _ | t pc' Ew Ha Hq Hts Hlt Hp _ _ _ _ _ | t e Ew Ha Hts _ _].
  - apply (coh_same c s s'); [|exact Hts|exact Hi].
    intros w0. rewrite (cur_after _ _ _ _ w0 Ha). destruct (Nat.eqb w0 w) eqn:E; [|reflexivity].
    apply Nat.eqb_eq in E. subst. rewrite Ew. reflexivity.
  - destruct Hi as [A B C]. constructor.
    + intros w0 t0 H. rewrite (cur_after _ _ _ _ w0 Ha) in H. rewrite Hts.
      destruct (Nat.eqb w0 w) eqn:E.
      * apply Nat.eqb_eq in E. subst. simpl in H. injection H as <-. rewrite upd_same. auto.
      * destruct (A w0 t0 H) as (A1 & A2 & A3 & A4).
        rewrite upd_other; [auto|]. intros ->. congruence.
    + intros w1 w2 t0 H1 H2. rewrite (cur_after _ _ _ _ w1 Ha) in H1. rewrite (cur_after _ _ _ _ w2 Ha) in H2.
      destruct (Nat.eqb w1 w) eqn:E1; destruct (Nat.eqb w2 w) eqn:E2.
      * apply Nat.eqb_eq in E1, E2. congruence.
      * simpl in H1. injection H1 as <-. destruct (A w2 t H2) as (A1 & _). congruence.
      * simpl in H2. injection H2 as <-. destruct (A w1 t H1) as (A1 & _). congruence.
      * eapply B; eassumption.
    + intros t0 H. rewrite Hts in H. unfold upd in H. destruct (Nat.eqb t0 t) eqn:E.
      * apply Nat.eqb_eq in E. subst. exists w. rewrite (cur_after _ _ _ _ _ Ha), Nat.eqb_refl. reflexivity.
      * destruct (C t0 H) as [w0 Hw0]. exists w0. rewrite (cur_after _ _ _ _ _ Ha).
        destruct (Nat.eqb w0 w) eqn:E0; [|exact Hw0].
        apply Nat.eqb_eq in E0. subst. rewrite Ew in Hw0. discriminate.
  - assert (Hcw : cur (s_wk s w) = Some t) by (rewrite Ew; reflexivity).
    destruct Hi as [A B C]. constructor.
    + intros w0 t0 H. rewrite (cur_after _ _ _ _ w0 Ha) in H. rewrite Hts.
      destruct (Nat.eqb w0 w) eqn:E; [discriminate|].
      destruct (A w0 t0 H) as (A1 & A2 & A3 & A4).
      rewrite upd_other; [auto|]. intros ->. apply Nat.eqb_neq in E. apply E. eapply B; eassumption.
    + intros w1 w2 t0 H1 H2. rewrite (cur_after _ _ _ _ w1 Ha) in H1. rewrite (cur_after _ _ _ _ w2 Ha) in H2.
      destruct (Nat.eqb w1 w); [discriminate|]. destruct (Nat.eqb w2 w); [discriminate|].
      eapply B; eassumption.
    + intros t0 H. rewrite Hts in H. unfold upd in H. destruct (Nat.eqb t0 t) eqn:E; [discriminate|].
      destruct (C t0 H) as [w0 Hw0]. exists w0. rewrite (cur_after _ _ _ _ _ Ha).
      destruct (Nat.eqb w0 w) eqn:E0; [|exact Hw0].
      apply Nat.eqb_eq in E0. subst. rewrite Hcw in Hw0. injection Hw0 as <-. rewrite Nat.eqb_refl in E. discriminate.
Qed.

Lemma coh_dstep c s p s' : coh_inv c s -> dstep c s p = Some s' -> coh_inv c s'.
Proof.
  intros Hi H. pose proof (dstep_frame _ _ _ _ H) as (Hwk & _). apply dstep_sum in H.
  destruct H as [ | t Hd Hf Hdr Hts | | | | ];
    try (apply (coh_same c s s'); [intros; rewrite Hwk; reflexivity | assumption | exact Hi]).
  apply first_task_some in Hf. destruct Hf as (Hlt & Hp & Hu).
  destruct (s_ts s t) eqn:Et; try discriminate Hu.
  destruct Hi as [A B C]. constructor.
  - intros w t0 HX. rewrite Hwk in HX. rewrite Hts. destruct (A w t0 HX) as (A1 & A2).
    rewrite upd_other; [auto|]. intros ->. congruence.
  - intros w1 w2 t0 H1 H2. rewrite Hwk in H1, H2. eapply B; eassumption.
  - intros t0 HX. rewrite Hts in HX. unfold upd in HX. destruct (Nat.eqb t0 t); [discriminate|].
    rewrite Hwk. apply C. exact HX.
Qed.

Lemma coh_step c s th s' : coh_inv c s -> step c s th = Some s' -> coh_inv c s'.
Proof.
  intros Hi H. destruct th as [|p|w]; simpl in H.
  - apply mstep_frame in H. destruct H as (Hw & _ & _ & _ & _ & _ & _ & _ & Ht & _).
    apply (coh_same c s s'); [intros; rewrite Hw; reflexivity | exact Ht | exact Hi].
  - destruct (Nat.ltb p (np c)); [|discriminate]. eapply coh_dstep; eassumption.
  - destruct (Nat.ltb w (nw c)) eqn:E; [|discriminate]. apply Nat.ltb_lt in E. eapply coh_wstep; eassumption.
Qed.

Lemma coh_reachable c s : reachable c s -> coh_inv c s.
Proof. induction 1; [apply coh_init|eapply coh_step; eassumption]. Qed.

Lemma nodup_snoc {A} (l : list A) x : NoDup l -> ~ In x l -> NoDup (l ++ [x]).
Proof.
  intros Hnd Hni. apply (Permutation_NoDup (l := x :: l)); [apply Permutation_cons_append|constructor; assumption].
Qed.

(* ---------- log invariants: a log holds exactly the tasks that passed a certain point, once each *)
Section Log.
  Variable c : cfg.
  Variable phi : wpc -> bool.            (* "the worker running the task is past the point" *)
  Variable delta : tst -> bool.          (* "the finished task had passed the point" *)
  Hypothesis phi_wake : phi PSleep = phi PAcq.
  Hypothesis delta_unsub : delta TUnsub = false.
  Hypothesis delta_queued : delta TQueued = false.
  Hypothesis delta_taken : delta TTaken = false.
  Hypothesis delta_done : forall e, delta (TDone e) = phi (PFin e).

  Definition passed (s : state) (t : nat) : Prop :=
    delta (s_ts s t) = true \/ exists w pc, s_wk s w = WRun t pc /\ phi pc = true.
  Definition log_inv (log : list nat) (s : state) : Prop :=
    NoDup log /\ forall t, In t log <-> passed s t.

  Lemma wake_run x t pc : wake1 x = WRun t pc -> exists pc0, x = WRun t pc0 /\ phi pc0 = phi pc.
  Proof.
    destruct x as [|t0 pc0]; simpl; [discriminate|].
    destruct pc0; intros H; injection H as <- <-; eexists; split; try reflexivity. exact phi_wake.
  Qed.

  Lemma run_wake t pc : exists pc1, wake1 (WRun t pc) = WRun t pc1 /\ phi pc1 = phi pc.
  Proof. destruct pc; simpl; eexists; split; try reflexivity. symmetry. exact phi_wake. Qed.

  (* other workers keep their task and their side of the point *)
  Lemma other_fwd wk wk' w x' w0 t pc :
    wk_after wk wk' w x' -> w0 <> w -> wk w0 = WRun t pc -> exists pc1, wk' w0 = WRun t pc1 /\ phi pc1 = phi pc.
  Proof.
    intros Ha Hne H. destruct (wk_after_other (fun _ => True) _ _ _ _ _ Ha Hne) as [E|E]; rewrite E, H.
    - eexists; split; reflexivity.
    - apply run_wake.
  Qed.
  Lemma other_bwd wk wk' w x' w0 t pc :
    wk_after wk wk' w x' -> w0 <> w -> wk' w0 = WRun t pc -> exists pc0, wk w0 = WRun t pc0 /\ phi pc0 = phi pc.
  Proof.
    intros Ha Hne H. destruct (wk_after_other (fun _ => True) _ _ _ _ _ Ha Hne) as [E|E]; rewrite E in H.
    - eexists; split; [exact H|reflexivity].
    - apply wake_run. exact H.
  Qed.

  Lemma log_move s s' w t pc pc' log :
    coh_inv c s -> log_inv log s ->
    s_wk s w = WRun t pc -> wk_after (s_wk s) (s_wk s') w (WRun t pc') -> s_ts s' = s_ts s ->
    (phi pc = true -> phi pc' = true) ->
    log_inv (app_if (phi pc' && negb (phi pc)) log t) s'.
  Proof.
    intros [A B C] [Hnd Hiff] Ew Ha Hts Hmono.
    assert (Hcw : cur (s_wk s w) = Some t) by (rewrite Ew; reflexivity).
    assert (Hself := wk_after_self _ _ _ _ Ha).
    assert (Hnotin : phi pc = false -> ~ In t log).
    { intros Hf Hin. apply Hiff in Hin. destruct Hin as [Hd|(w0 & pc0 & Hw0 & Hp0)].
      - destruct (A w t Hcw) as (A1 & _). rewrite A1, delta_taken in Hd. discriminate.
      - assert (w0 = w) by (eapply B; [rewrite Hw0; reflexivity|exact Hcw]). subst. congruence. }
    split.
    - unfold app_if. destruct (phi pc' && negb (phi pc)) eqn:E; [|exact Hnd].
      apply andb_prop in E. destruct E as [_ E]. apply negb_true_iff in E.
      apply nodup_snoc; [exact Hnd|apply Hnotin; exact E].
    - intros t0. unfold passed. rewrite Hts. split.
      + intros Hin.
        assert (Hcase : In t0 log \/ (t0 = t /\ phi pc' = true)).
        { unfold app_if in Hin. destruct (phi pc' && negb (phi pc)) eqn:E; [|left; exact Hin].
          apply in_app_or in Hin. destruct Hin as [Hin|[<-|[]]]; [left; exact Hin|right].
          apply andb_prop in E. split; [reflexivity|apply E]. }
        destruct Hcase as [Hin'|[-> Hp]].
        * apply Hiff in Hin'. destruct Hin' as [Hd|(w0 & pc0 & Hw0 & Hp0)]; [left; exact Hd|right].
          destruct (Nat.eq_dec w0 w) as [->|Hne].
          -- rewrite Ew in Hw0. injection Hw0 as <- <-. exists w, pc'. split; [exact Hself|apply Hmono; exact Hp0].
          -- destruct (other_fwd _ _ _ _ _ _ _ Ha Hne Hw0) as (pc1 & E1 & E2).
             exists w0, pc1. split; [exact E1|congruence].
        * right. exists w, pc'. split; [exact Hself|exact Hp].
      + intros [Hd|(w0 & pc0 & Hw0 & Hp0)].
        * assert (In t0 log) by (apply Hiff; left; exact Hd).
          unfold app_if. destruct (phi pc' && negb (phi pc)); [apply in_or_app; left|]; assumption.
        * destruct (Nat.eq_dec w0 w) as [->|Hne].
          -- rewrite Hself in Hw0. injection Hw0 as <- <-.
             unfold app_if. destruct (phi pc) eqn:Ep.
             ++ rewrite andb_false_r. apply Hiff. right. exists w, pc. split; assumption.
             ++ rewrite Hp0. simpl. apply in_or_app. right. left. reflexivity.
          -- destruct (other_bwd _ _ _ _ _ _ _ Ha Hne Hw0) as (pc1 & E1 & E2).
             assert (In t0 log) by (apply Hiff; right; exists w0, pc1; split; [exact E1|congruence]).
             unfold app_if. destruct (phi pc' && negb (phi pc)); [apply in_or_app; left|]; assumption.
  Qed.

  Lemma log_deq s s' w t pc' log :
    coh_inv c s -> log_inv log s ->
    s_wk s w = WIdle -> wk_after (s_wk s) (s_wk s') w (WRun t pc') ->
    s_ts s t = TQueued -> s_ts s' = upd (s_ts s) t TTaken -> phi pc' = false ->
    log_inv log s'.
  Proof.
    intros [A B C] [Hnd Hiff] Ew Ha Hq Hts Hp.
    assert (Hself := wk_after_self _ _ _ _ Ha).
    split; [exact Hnd|]. intros t0. rewrite Hiff. unfold passed. rewrite Hts. split.
    - intros [Hd|(w0 & pc0 & Hw0 & Hp0)].
      + left. unfold upd. destruct (Nat.eqb t0 t) eqn:E; [|exact Hd].
        apply Nat.eqb_eq in E. subst. rewrite Hq, delta_queued in Hd. discriminate.
      + right. assert (Hne : w0 <> w) by (intros ->; congruence).
        destruct (other_fwd _ _ _ _ _ _ _ Ha Hne Hw0) as (pc1 & E1 & E2). exists w0, pc1. split; congruence.
    - intros [Hd|(w0 & pc0 & Hw0 & Hp0)].
      + left. unfold upd in Hd. destruct (Nat.eqb t0 t) eqn:E; [|exact Hd].
        rewrite delta_taken in Hd. discriminate.
      + right. destruct (Nat.eq_dec w0 w) as [->|Hne].
        * rewrite Hself in Hw0. injection Hw0 as <- <-. congruence.
        * destruct (other_bwd _ _ _ _ _ _ _ Ha Hne Hw0) as (pc1 & E1 & E2). exists w0, pc1. split; congruence.
  Qed.

  Lemma log_fin s s' w t e log :
    coh_inv c s -> log_inv log s ->
    s_wk s w = WRun t (PFin e) -> wk_after (s_wk s) (s_wk s') w WIdle ->
    s_ts s' = upd (s_ts s) t (TDone e) ->
    log_inv log s'.
  Proof.
    intros [A B C] [Hnd Hiff] Ew Ha Hts.
    assert (Hcw : cur (s_wk s w) = Some t) by (rewrite Ew; reflexivity).
    assert (Hself := wk_after_self _ _ _ _ Ha).
    destruct (A w t Hcw) as (Htk & _).
    split; [exact Hnd|]. intros t0. rewrite Hiff. unfold passed. rewrite Hts. split.
    - intros [Hd|(w0 & pc0 & Hw0 & Hp0)].
      + left. rewrite upd_other; [exact Hd|]. intros ->. rewrite Htk, delta_taken in Hd. discriminate.
      + destruct (Nat.eq_dec w0 w) as [->|Hne].
        * rewrite Ew in Hw0. injection Hw0 as <- <-. left. rewrite upd_same, delta_done. exact Hp0.
        * right. destruct (other_fwd _ _ _ _ _ _ _ Ha Hne Hw0) as (pc1 & E1 & E2). exists w0, pc1. split; congruence.
    - intros [Hd|(w0 & pc0 & Hw0 & Hp0)].
      + unfold upd in Hd. destruct (Nat.eqb t0 t) eqn:E.
        * apply Nat.eqb_eq in E. subst. rewrite delta_done in Hd. right. exists w, (PFin e). split; assumption.
        * left. exact Hd.
      + right. destruct (Nat.eq_dec w0 w) as [->|Hne].
        * rewrite Hself in Hw0. discriminate.
        * destruct (other_bwd _ _ _ _ _ _ _ Ha Hne Hw0) as (pc1 & E1 & E2). exists w0, pc1. split; congruence.
  Qed.

  (* a submission (TUnsub -> TQueued) or any step that leaves workers and statuses alone *)
  Lemma log_frame s s' log :
    log_inv log s -> s_wk s' = s_wk s ->
    (forall t, delta (s_ts s' t) = delta (s_ts s t)) -> log_inv log s'.
  Proof.
    intros [Hnd Hiff] Hw Hd. split; [exact Hnd|]. intros t. rewrite Hiff. unfold passed. rewrite Hw, Hd. reflexivity.
  Qed.
End Log.

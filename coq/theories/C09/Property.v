(* C09/Property.v — ONLY the property theorems (each an `exact` of a lemma of Proofs1-5) + Print Assumptions.
   `reachable c s` = s is reached from the initial state by ANY finite schedule of the LTS C09/Model.v
   (any interleaving of the caller, the shard-driver threads and the worker threads at their
   synchronisation points); c ranges over ALL configurations: any number of tensors / shards / workers,
   any max_in_flight_bytes, any sizes (several tensors above the budget included), any sharing of tensor
   objects, any set of failing callbacks and failing tensors.  The budget arithmetic is Gen/C09Gen.v,
   regenerated from external_data.py on every run. *)
From Coq Require Import ZArith List Bool Lia Permutation.
From IRV Require Import Base.Exn Gen.C09Gen C07.Model C09.Model
  C09.Proofs1 C09.Proofs2 C09.Proofs3 C09.Proofs4 C09.Proofs5 C09.Proofs6 C09.Proofs7.
Import ListNotations.
Close Scope Z_scope.
Open Scope nat_scope.

(* Budget: 0 <= in_flight <= capacity; in_flight is exactly the sum of the regular reservations held;
   the oversized flag is exactly the number (0 or 1) of oversized holders; and the bytes materialised
   (held between acquire's return and release) never exceed capacity + the largest tensor. *)
Theorem C09_budget_inv :
  forall c s, reachable c s ->
  (0 <= s_inflight s <= cap c)%Z /\
  s_inflight s = sumZ (fun w => held_reg (s_wk s w)) (workers c) /\
  b2z (s_over s) = sumZ (fun w => held_over (s_wk s w)) (workers c) /\
  forall M, (0 <= M)%Z -> (forall t, t < nt c -> (tlen c t <= M)%Z) -> (materialised c s <= cap c + M)%Z.
Proof.
  intros c s Hr. pose proof (budget_reachable c s Hr) as Hb.
  split; [apply inflight_bounds; exact Hb|]. split; [apply Hb|]. split; [apply Hb|].
  intros M HM Hl. apply materialised_bound; [exact Hb|exact HM|].
  intros t Ht. pose proof (need_le_len c t). specialize (Hl t Ht). lia.
Qed.
Print Assumptions C09_budget_inv.

(* The callback is never run by two threads at once ... *)
Theorem C09_cb_mutex :
  forall c s w1 w2, cb_protected c -> reachable c s ->
  in_callback (s_wk s w1) = true -> in_callback (s_wk s w2) = true -> w1 = w2.
Proof. intros c s w1 w2 Hp Hr. apply (cb_mutex c); [exact Hp|apply lock_reachable; exact Hr]. Qed.
Print Assumptions C09_cb_mutex.

(* ... at most once per tensor in every run, and exactly once per tensor when the save succeeds. *)
Theorem C09_cb_once :
  forall c s, wf_cfg c -> reachable c s ->
  NoDup (s_cblog s) /\ (forall t, In t (s_cblog s) -> t < nt c) /\
  (s_main s = MDeliv false -> Permutation (s_cblog s) (tasks c)).
Proof. exact cb_once. Qed.
Print Assumptions C09_cb_once.

(* A tensor OBJECT shared by several initializers is used by one thread at a time (from taking its
   write lock, through acquire / materialise+write / release, to giving the lock back). *)
Theorem C09_tensor_mutex :
  forall c s w1 w2 o, reachable c s ->
  using_obj c (s_wk s w1) o -> using_obj c (s_wk s w2) o -> w1 = w2.
Proof. intros c s w1 w2 o Hr. apply tensor_mutex. apply lock_reachable. exact Hr. Qed.
Print Assumptions C09_tensor_mutex.

(* No lost wake-up: whenever a thread sits in condition.wait(), its guard is false in the current state. *)
Theorem C09_no_lost_wakeup :
  forall c s w t, reachable c s -> s_wk s w = WRun t PSleep -> guard_of c s t = false.
Proof. intros c s w t Hr. apply sleep_reachable. exact Hr. Qed.
Print Assumptions C09_no_lost_wakeup.

(* An exception reaches the caller only when every driver has joined its pool and every worker is idle,
   with the whole budget released; and it reaches the caller exactly when some task raised. *)
Theorem C09_error_path :
  forall c s e, wf_cfg c -> reachable c s -> s_main s = MDeliv e ->
  (forall p, p < np c -> exists e', s_dr s p = DDone e') /\
  (forall w, w < nw c -> s_wk s w = WIdle) /\
  s_inflight s = 0%Z /\ s_over s = false /\
  (e = true <-> exists t, t < nt c /\ s_ts s t = TDone true).
Proof. exact error_path. Qed.
Print Assumptions C09_error_path.

(* Every step strictly decreases a non-negative measure, so every schedule is finite, with an explicit
   bound on its length. *)
Theorem C09_terminates :
  forall c, (forall s th s', step c s th = Some s' -> (0 <= measure c s' < measure c s)%Z) /\
  (forall sched s', run c init sched = Some s' ->
     (Z.of_nat (length sched) <= (Z.of_nat (nw c) + 1) * (15 * Z.of_nat (nt c) + 4 * Z.of_nat (np c) + 1))%Z).
Proof.
  intros c. split; [apply measure_step|]. intros sched s' H.
  pose proof (run_length_bound c sched init s' H). pose proof (measure_nonneg c s'). rewrite measure_init in *. lia.
Qed.
Print Assumptions C09_terminates.

(* Every reachable state in which the caller has not got control back has an enabled thread. *)
Theorem C09_deadlock_free :
  forall c s, wf_live c -> reachable c s -> final s = false -> exists th s', step c s th = Some s'.
Proof. exact deadlock_free. Qed.
Print Assumptions C09_deadlock_free.

(* When the save succeeds, every data file equals the file the serial writer produces (C07 file model:
   writes in declaration order into an empty file), whatever the schedule was. *)
Theorem C09_file_deterministic :
  forall c s, wf_cfg c -> ranges_disjoint c -> reachable c s -> s_main s = MDeliv false ->
  forall p, p < np c -> s_files s p = serial_file c p.
Proof. exact file_deterministic. Qed.
Print Assumptions C09_file_deterministic.

(* Every tensor is evaluated (tofile entered) at most once, whatever fails and however the run ends:
   no retry path exists in the writer. *)
Theorem C09_evaluated_at_most_once :
  forall c s t, reachable c s -> s_evals s t <= 1.
Proof. intros c s t Hr. apply (ev_le c s (eval_reachable c s Hr)). Qed.
Print Assumptions C09_evaluated_at_most_once.

(* Worker descriptors: a parallel writer's worker holds an open descriptor whenever it is between taking
   the tensor lock and giving it back (so every write goes through a descriptor that worker opened) ... *)
Theorem C09_handle_valid :
  forall c s w t pc, reachable c s -> s_wk s w = WRun t pc -> needs_handle pc = true ->
  serial c (wpool c w) = false -> s_hopen s w = true.
Proof. intros c s w t pc Hr. apply (handle_valid_reachable c s Hr). Qed.
Print Assumptions C09_handle_valid.

(* ... and when the caller gets control back — normally or with an exception, OSError from a failed
   open(path, "r+b") included — every worker descriptor has been closed. *)
Theorem C09_handles_closed :
  forall c s e, wf_cfg c -> reachable c s -> s_main s = MDeliv e -> forall w, s_hopen s w = false.
Proof. exact handles_closed. Qed.
Print Assumptions C09_handles_closed.

(* The code's waits are untimed (extracted from acquire on every run), which is what the LTS assumes: a thread in
   condition.wait() has no step of its own; only the notify_all of a release makes it runnable.  The budget
   invariant above is proved for every schedule of exactly this LTS. *)
Theorem C09_waits_untimed :
  acquire_wait_timeouts = [None; None] /\
  forall c s w t, s_wk s w = WRun t PSleep -> step c s (TWrk w) = None.
Proof.
  split; [reflexivity|]. intros c s w t H. simpl. destruct (Nat.ltb w (nw c)); [|reflexivity].
  unfold wstep. rewrite H. reflexivity.
Qed.
Print Assumptions C09_waits_untimed.

(* The per-task program of the LTS IS the statement order of the source on this run: the event codes of the steps
   a worker takes for one task (computed from `step`) equal the operations extracted from _write_one (parallel
   writer), and from the loop body of _write_serial (serial writer), with the callback expanded by
   _locked_callback's outer lock when sharded.  Both writers: callback lock(s) -> callback -> unlock ->
   [open descriptor] -> tensor lock -> budget.acquire -> write -> release -> unlock. *)
Theorem C09_program_order_matches_source :
  model_task_codes false false = source_codes parallel_task_ops /\
  model_task_codes false true = source_codes (with_outer parallel_task_ops) /\
  model_task_codes true true = source_codes (with_outer serial_task_ops).
Proof. exact program_order_matches_source. Qed.
Print Assumptions C09_program_order_matches_source.

(* One acquisition order for every writer (0 inner callback lock < 1 outer callback lock < 2 tensor-object lock
   < 3 byte budget): a thread waiting for resource r owns only resources of lower rank, and nothing of the budget. *)
Theorem C09_lock_order :
  forall c s w t pc r, reachable c s -> s_wk s w = WRun t pc -> waits_for pc = Some r ->
  (forall p, s_cbin s p = Some w -> 0 < r) /\ (s_cbout s = Some w -> 1 < r) /\
  (forall o, s_tl s o = Some w -> 2 < r) /\ held_reg (s_wk s w) = 0%Z /\ held_over (s_wk s w) = 0%Z.
Proof.
  intros c s w t pc r Hr. apply (lock_order c); [apply lock_reachable|apply budget_reachable]; exact Hr.
Qed.
Print Assumptions C09_lock_order.

(* Every evaluation of a tensor (serial or parallel writer, any pool) happens under a reservation of the one
   budget: the oversized slot, or need(t) bytes that are counted in in_flight. *)
Theorem C09_write_under_budget :
  forall c s w t r, reachable c s -> s_wk s w = WRun t (PWrite r) ->
  (r = oversized_token /\ (cap c < need c t)%Z /\ s_over s = true) \/
  (r = need c t /\ (need c t <= cap c)%Z /\ (need c t <= s_inflight s)%Z).
Proof. exact write_under_budget. Qed.
Print Assumptions C09_write_under_budget.

(* ---------- non-vacuity: a schedule recorded from the implementation (2 workers, budget 3, sizes 3,2,5,3;
   tensors 0 and 3 are the same object; tensor 2 is oversized) in which a thread sleeps in the condition
   (event 11), an oversized reservation is granted (event 10), and the save succeeds. *)
Definition ex_cfg : cfg :=
  mkCfg [mkTask 0 0 0 [83%Z; 243%Z; 39%Z] false false false; mkTask 0 1 3 [102%Z; 167%Z] false false false;
         mkTask 0 2 5 [13%Z; 19%Z; 211%Z; 138%Z; 25%Z] false false false;
         mkTask 0 0 10 [83%Z; 243%Z; 39%Z] false false false] [false] [0; 0] 3%Z 1048576%Z false 1 [].

Definition ex_sched : list thread :=
  [(TDrv 0); (TDrv 0); (TWrk 1); (TWrk 1); (TDrv 0); (TWrk 1); (TDrv 0); (TWrk 0); (TWrk 1); (TWrk 1); (TDrv 0);
   (TDrv 0); (TWrk 1); (TWrk 0); (TWrk 0); (TWrk 0); (TWrk 1); (TWrk 0); (TWrk 0); (TWrk 1); (TWrk 0); (TWrk 1);
   (TWrk 1); (TWrk 1); (TWrk 1); (TWrk 0); (TWrk 0); (TWrk 1); (TWrk 1); (TWrk 0); (TWrk 1); (TWrk 0); (TWrk 0);
   (TWrk 1); (TWrk 0); (TWrk 1); (TWrk 1); (TWrk 1); (TWrk 1); (TWrk 1); (TWrk 0); (TWrk 0); (TWrk 0); (TWrk 0);
   (TWrk 0); (TWrk 0); (TWrk 0); (TWrk 0); (TWrk 0); (TDrv 0); (TDrv 0); TMain].

Example C09_example_hypotheses : wf_live ex_cfg /\ cb_protected ex_cfg /\ ranges_disjoint ex_cfg.
Proof.
  split; [|split].
  - split; [split|split].
    + intros w _. unfold wpool, np. simpl. destruct w as [|[|[|w]]]; simpl; lia.
    + intros t Ht. unfold nt in Ht. simpl in Ht. unfold tpool, task_of, np. simpl.
      destruct t as [|[|[|[|t]]]]; simpl; lia.
    + intros p Hp. unfold np in Hp. simpl in Hp. assert (p = 0) by lia. subst. exists 0. unfold nw. simpl. split; [lia|reflexivity].
    + simpl. lia.
  - right. intros w. unfold wpool. simpl. destruct w as [|[|[|w]]]; simpl; split; reflexivity.
  - intros t1 t2 H1 H2 Hne _. unfold nt in *. simpl in H1, H2. unfold tdisj, jdisj, job, task_of. simpl.
    destruct t1 as [|[|[|[|t1]]]]; destruct t2 as [|[|[|[|t2]]]]; simpl; try lia.
Qed.

Example C09_example_run :
  match run ex_cfg init ex_sched with
  | Some s => s_main s = MDeliv false /\ s_files s 0 = serial_file ex_cfg 0 /\ s_cblog s = [0; 1; 2; 3]
              /\ s_inflight s = 0%Z /\ s_over s = false /\ s_nopen s = 2 /\ open_handles ex_cfg s = 0
              /\ total_evals ex_cfg s = 4
  | None => False
  end.
Proof. vm_compute. repeat split; reflexivity. Qed.

(* the 21st step of that run puts worker 0 to sleep in the budget's condition (both workers hold an open
   descriptor by then); the 36th grants the oversized reservation *)
Example C09_example_sleep_and_oversized :
  (match run ex_cfg init (firstn 21 ex_sched) with
   | Some s => s_wk s 0 = WRun 1 PSleep /\ s_hopen s 0 = true /\ s_hopen s 1 = true | None => False end) /\
  (match run ex_cfg init (firstn 36 ex_sched) with Some s => s_over s = true | None => False end).
Proof. vm_compute. repeat split; reflexivity. Qed.

(* a failing tensor: the exception is delivered, and only after everything stopped *)
Definition ex_cfg_fail : cfg :=
  mkCfg [mkTask 0 0 0 [83%Z; 243%Z; 39%Z] false false false; mkTask 0 1 3 [102%Z; 167%Z] false false true;
         mkTask 0 2 5 [13%Z; 19%Z; 211%Z; 138%Z; 25%Z] false false false;
         mkTask 0 3 10 [94%Z; 150%Z; 15%Z] false false false] [false] [0; 0] 3%Z 1048576%Z false 1 [].
Definition ex_sched_fail : list thread :=
  [(TDrv 0); (TDrv 0); (TWrk 0); (TWrk 0); (TWrk 0); (TWrk 0); (TWrk 0); (TDrv 0); (TWrk 1); (TDrv 0); (TDrv 0);
   (TDrv 0); (TWrk 1); (TWrk 0); (TWrk 1); (TWrk 0); (TWrk 0); (TWrk 1); (TWrk 1); (TWrk 0); (TWrk 1); (TWrk 0);
   (TWrk 1); (TWrk 1); (TWrk 1); (TWrk 0); (TWrk 1); (TWrk 0); (TWrk 1); (TWrk 1); (TWrk 1); (TWrk 1); (TWrk 1);
   (TDrv 0); (TWrk 1); (TWrk 0); (TWrk 0); (TWrk 0); (TWrk 0); (TWrk 0); (TWrk 1); (TWrk 0); (TWrk 0); (TWrk 1);
   (TWrk 1); (TWrk 0); (TWrk 1); (TWrk 1); (TWrk 0); (TDrv 0); TMain].
Example C09_example_error_run :
  match run ex_cfg_fail init ex_sched_fail with
  | Some s => s_main s = MDeliv true /\ s_cancel s 0 = true /\ s_inflight s = 0%Z
  | None => False
  end.
Proof. vm_compute. repeat split; reflexivity. Qed.

(* the second attempt to open a worker descriptor fails with OSError (EMFILE): the save raises, the other
   worker's descriptor is closed, nothing is evaluated twice *)
Definition ex_cfg_open : cfg :=
  mkCfg [mkTask 0 0 0 [83%Z; 243%Z; 39%Z] false false false; mkTask 0 1 3 [102%Z; 167%Z] false false false;
         mkTask 0 2 5 [13%Z; 19%Z; 211%Z; 138%Z; 25%Z] false false false;
         mkTask 0 0 10 [83%Z; 243%Z; 39%Z] false false false] [false] [0; 0] 3%Z 1048576%Z false 1 [1].
Definition ex_sched_open : list thread :=
  [(TDrv 0); (TDrv 0); (TWrk 0); (TWrk 0); (TWrk 0); (TWrk 0); (TWrk 0); (TDrv 0); (TWrk 1); (TDrv 0); (TDrv 0);
   (TDrv 0); (TWrk 1); (TWrk 0); (TWrk 1); (TWrk 0); (TWrk 0); (TWrk 1); (TWrk 1); (TWrk 0); (TWrk 1); (TWrk 0);
   (TWrk 0); (TWrk 1); (TWrk 1); (TWrk 1); (TWrk 0); (TWrk 1); (TWrk 1); (TWrk 0); (TDrv 0); (TWrk 0); (TWrk 0);
   (TWrk 1); (TWrk 1); (TWrk 0); (TWrk 1); (TWrk 0); (TWrk 0); (TWrk 0); (TWrk 0); (TWrk 0); (TWrk 1); (TWrk 1);
   (TWrk 1); (TDrv 0); TMain].
Example C09_example_open_failure :
  match run ex_cfg_open init ex_sched_open with
  | Some s => s_main s = MDeliv true /\ s_nopen s = 3 /\ open_handles ex_cfg_open s = 0
              /\ s_ts s 1 = TDone true /\ s_evals s 1 = 0 /\ s_inflight s = 0%Z
  | None => False
  end.
Proof. vm_compute. repeat split; reflexivity. Qed.

(* zero-length tensors are ordinary tasks (entry point convert_tensors_to_external; tensors 1 and 3 are the same
   empty object): each gets its callback, its (empty) write under an amount-0 reservation, exactly once *)
Definition ex_cfg_zero : cfg :=
  mkCfg [mkTask 0 0 0 [119%Z; 157%Z] false false false; mkTask 0 1 2 [] false false false;
         mkTask 0 2 2 [96%Z; 69%Z; 36%Z] false false false; mkTask 0 1 5 [] false false false]
        [false] [0; 0] 2%Z 1048576%Z false 1 [].
Definition ex_sched_zero : list thread :=
  [(TDrv 0); (TDrv 0); (TWrk 1); (TWrk 1); (TWrk 1); (TDrv 0); (TDrv 0); (TDrv 0); (TDrv 0); (TWrk 1); (TWrk 1);
   (TWrk 0); (TWrk 0); (TWrk 0); (TWrk 0); (TWrk 1); (TWrk 0); (TWrk 1); (TWrk 1); (TWrk 0); (TWrk 1); (TWrk 1);
   (TWrk 1); (TWrk 1); (TWrk 1); (TWrk 0); (TWrk 0); (TWrk 0); (TWrk 1); (TWrk 1); (TWrk 0); (TWrk 1); (TWrk 0);
   (TWrk 0); (TWrk 1); (TWrk 1); (TWrk 0); (TWrk 1); (TWrk 1); (TWrk 1); (TWrk 0); (TWrk 0); (TWrk 0); (TWrk 0);
   (TWrk 0); (TWrk 0); (TWrk 0); (TWrk 0); (TDrv 0); (TDrv 0); TMain].
Example C09_example_zero_length :
  match run ex_cfg_zero init ex_sched_zero with
  | Some s => s_main s = MDeliv false /\ Permutation (s_cblog s) [0; 1; 2; 3] /\ total_evals ex_cfg_zero s = 4
              /\ s_evals s 1 = 1 /\ s_evals s 3 = 1 /\ s_files s 0 = serial_file ex_cfg_zero 0
  | None => False
  end.
Proof.
  vm_compute. repeat split; reflexivity.
Qed.

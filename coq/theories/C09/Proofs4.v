(* C09/Proofs4.v — no lost wake-up (sleepers' guards are false) and deadlock freedom. *)
From Coq Require Import ZArith List Bool Lia ZifyBool Permutation.
From IRV Require Import Base.Exn Gen.C09Gen C07.Model C09.Model C09.Proofs1 C09.Proofs2 C09.Proofs3.
Import ListNotations.
Close Scope Z_scope.
Open Scope nat_scope.

(* the guard a thread in condition.wait() is waiting for *)
Definition guard_of (c : cfg) (s : state) (t : nat) : bool :=
  if acquire_is_oversized (need c t) (cap c) then acquire_oversized_guard (s_over s)
  else acquire_regular_guard (s_inflight s) (need c t) (cap c).

(* Every sleeping thread's guard is false: whoever makes a guard true (release) wakes all sleepers. *)
Definition sleep_inv (c : cfg) (s : state) : Prop :=
  forall w t, s_wk s w = WRun t PSleep -> guard_of c s t = false.

Lemma sleep_wstep c s w s' :
  budget_inv c s -> sleep_inv c s -> wstep c s w = Some s' -> sleep_inv c s'.
Proof.
  intros Hb Hi H. unfold wstep in H.
  destruct (s_wk s w) as [|t pc] eqn:Ew; [|destruct pc]; cbv beta iota zeta in H;
    try discriminate H; break_match H; inv_some H.
  (* steps that leave the budget alone and do not put w to sleep *)
  all: try (intros w0 t0 Hs; simpl in Hs; unfold upd in Hs; destruct (Nat.eqb w0 w) eqn:E;
            [ try unfold first_pc in Hs; try unfold after_outer in Hs;
              repeat match type of Hs with context [if ?b then _ else _] => destruct b end; discriminate Hs
            | unfold guard_of; simpl; apply (Hi w0 t0 Hs) ]; fail).
  - (* oversized grant: _oversized_active := True *)
    intros w0 t0 Hs. simpl in Hs. unfold upd in Hs. destruct (Nat.eqb w0 w); [discriminate|].
    pose proof (Hi w0 t0 Hs) as Hg. unfold guard_of in *. simpl.
    destruct (acquire_is_oversized (need c t0) (cap c)); [reflexivity|exact Hg].
  - (* oversized, guard false: go to sleep *)
    intros w0 t0 Hs. simpl in Hs. unfold upd in Hs. destruct (Nat.eqb w0 w) eqn:E.
    + injection Hs as <-. unfold guard_of. rewrite Heqb. exact Heqb0.
    + apply (Hi w0 t0 Hs).
  - (* regular grant: in_flight grows *)
    intros w0 t0 Hs. simpl in Hs. unfold upd in Hs. destruct (Nat.eqb w0 w); [discriminate|].
    pose proof (Hi w0 t0 Hs) as Hg. unfold guard_of in *. simpl.
    destruct (acquire_is_oversized (need c t0) (cap c)); [exact Hg|].
    pose proof (need_nonneg c t). unfold acquire_regular_guard, acquire_regular_update in *. lia.
  - (* regular, guard false: go to sleep *)
    intros w0 t0 Hs. simpl in Hs. unfold upd in Hs. destruct (Nat.eqb w0 w) eqn:E.
    + injection Hs as <-. unfold guard_of. rewrite Heqb. exact Heqb0.
    + apply (Hi w0 t0 Hs).
  - (* release + notify_all: nobody sleeps any more *)
    intros w0 t0 Hs. simpl in Hs. exfalso.
    destruct (upd (s_wk s) w (WRun t (PTUn e)) w0) as [|t1 []]; simpl in Hs; discriminate Hs.
  - intros w0 t0 Hs. simpl in Hs. exfalso.
    destruct (upd (s_wk s) w (WRun t (PTUn e)) w0) as [|t1 []]; simpl in Hs; discriminate Hs.
Qed.

Lemma sleep_step c s th s' : budget_inv c s -> sleep_inv c s -> step c s th = Some s' -> sleep_inv c s'.
Proof.
  intros Hb Hi H. destruct th as [|p|w]; simpl in H.
  - apply mstep_frame in H. destruct H as (Hw & Hf & Ho & _).
    intros w t Hs. rewrite Hw in Hs. unfold guard_of. rewrite Hf, Ho. apply (Hi w t Hs).
  - destruct (Nat.ltb p (np c)); [|discriminate].
    apply dstep_frame in H. destruct H as (Hw & Hf & Ho & _).
    intros w t Hs. rewrite Hw in Hs. unfold guard_of. rewrite Hf, Ho. apply (Hi w t Hs).
  - destruct (Nat.ltb w (nw c)); [|discriminate]. eapply sleep_wstep; eassumption.
Qed.

Lemma sleep_reachable c s : reachable c s -> sleep_inv c s.
Proof.
  induction 1; [intros w t Hs; discriminate|].
  eapply sleep_step; try eassumption. apply safe_reachable. assumption.
Qed.

(* ---------- finite search helpers *)
Lemma dec_ex (P : nat -> bool) n : (exists w, w < n /\ P w = true) \/ (forall w, w < n -> P w = false).
Proof.
  induction n as [|n IH]; [right; intros; lia|].
  destruct IH as [(w & Hw & Hp)|Hall]; [left; exists w; split; [lia|exact Hp]|].
  destruct (P n) eqn:E; [left; exists n; split; [lia|exact E]|].
  right. intros w Hw. destruct (Nat.eq_dec w n) as [->|]; [exact E|apply Hall; lia].
Qed.

Lemma forallb_false_ex {A} (f : A -> bool) l : forallb f l = false -> exists x, In x l /\ f x = false.
Proof.
  induction l as [|a l IH]; simpl; [discriminate|].
  destruct (f a) eqn:E; simpl; [|intros _; exists a; auto].
  intros H. destruct (IH H) as (x & Hx & Hf). exists x. auto.
Qed.

(* ---------- which program counters can always move *)
Definition is_runnable (x : wst) : bool :=
  match x with
  | WRun _ PCb | WRun _ (PCbUnOut _) | WRun _ (PCbUnIn _) | WRun _ POpen | WRun _ PAcq | WRun _ (PWrite _)
  | WRun _ (PRel _ _) | WRun _ (PTUn _) | WRun _ (PFin _) => true
  | _ => false
  end.
Definition at_sleep (x : wst) : bool := match x with WRun _ PSleep => true | _ => false end.
Definition at_tlock (x : wst) : bool := match x with WRun _ PTLock => true | _ => false end.
Definition at_cbout (x : wst) : bool := match x with WRun _ PCbOut => true | _ => false end.
Definition at_cbin (x : wst) : bool := match x with WRun _ PCbIn => true | _ => false end.

Lemma runnable_steps c s w : is_runnable (s_wk s w) = true -> exists s', wstep c s w = Some s'.
Proof.
  intros H. unfold wstep. destruct (s_wk s w) as [|t pc]; [discriminate|].
  destruct pc; try discriminate H; cbv beta iota zeta;
    repeat match goal with |- context [if ?b then _ else _] => destruct b end; eexists; reflexivity.
Qed.

Lemma held_over_nonneg x : (0 <= held_over x)%Z.
Proof. destruct x as [|t []]; simpl; try lia; destruct (release_is_oversized r); lia. Qed.

Lemma busy_enabled c s :
  safe_inv c s -> sleep_inv c s ->
  (exists w t pc, w < nw c /\ s_wk s w = WRun t pc) ->
  exists w s', w < nw c /\ wstep c s w = Some s'.
Proof.
  intros [[Hreg Hov Htok Hcap] [Lin Lout Ltl Lcf] [Crun Cuniq Ctaken] _ _] Hsl (w0 & t0 & pc0 & Hw0 & Ew0).
  assert (Hlt : forall w t pc, s_wk s w = WRun t pc -> w < nw c).
  { intros w t pc E. apply (Crun w t). rewrite E. reflexivity. }
  destruct (dec_ex (fun w => is_runnable (s_wk s w)) (nw c)) as [(w & Hw & Hr)|Hnr].
  { destruct (runnable_steps c s w Hr) as [s' Hs']. eauto. }
  assert (Hholder_reg : (0 < s_inflight s)%Z -> False).
  { intros Hpos. rewrite Hreg in Hpos.
    destruct (sumZ_pos_ex _ _ (fun w _ => held_reg_nonneg c _ (Htok w)) Hpos) as (w & Hin & Hh).
    apply in_workers in Hin. specialize (Hnr w Hin). simpl in Hnr.
    destruct (s_wk s w) as [|t []]; simpl in Hh, Hnr; try lia; discriminate. }
  assert (Hholder_over : s_over s = true -> False).
  { intros Ho. rewrite Ho in Hov. simpl in Hov.
    assert (Hpos : (0 < sumZ (fun w => held_over (s_wk s w)) (workers c))%Z) by lia.
    destruct (sumZ_pos_ex _ _ (fun w _ => held_over_nonneg (s_wk s w)) Hpos) as (w & Hin & Hh).
    apply in_workers in Hin. specialize (Hnr w Hin). simpl in Hnr.
    destruct (s_wk s w) as [|t []]; simpl in Hh, Hnr; try lia; discriminate. }
  destruct (dec_ex (fun w => at_sleep (s_wk s w)) (nw c)) as [(w & Hw & Hs)|Hns].
  { exfalso. destruct (s_wk s w) as [|t pc] eqn:Ew; [discriminate|]. destruct pc; try discriminate Hs.
    pose proof (Hsl w t Ew) as Hg. unfold guard_of in Hg.
    destruct (acquire_is_oversized (need c t) (cap c)) eqn:Eo.
    - apply Hholder_over. unfold acquire_oversized_guard in Hg. destruct (s_over s); [reflexivity|discriminate].
    - apply Hholder_reg. unfold acquire_regular_guard, acquire_is_oversized in *. lia. }
  destruct (dec_ex (fun w => at_tlock (s_wk s w)) (nw c)) as [(w & Hw & Hs)|Hnt].
  { destruct (s_wk s w) as [|t pc] eqn:Ew; [discriminate|]. destruct pc; try discriminate Hs.
    destruct (s_tl s (tobj c t)) as [w'|] eqn:El.
    - exfalso. apply Ltl in El. destruct (s_wk s w') as [|t' pc'] eqn:Ew'; [discriminate|].
      pose proof (Hlt _ _ _ Ew') as Hw'. specialize (Hnr w' Hw'). specialize (Hns w' Hw'). simpl in Hnr, Hns. rewrite Ew' in Hnr, Hns.
      destruct pc'; simpl in El, Hnr, Hns; discriminate.
    - exists w. eexists. split; [exact Hw|]. unfold wstep. rewrite Ew, El. reflexivity. }
  destruct (dec_ex (fun w => at_cbout (s_wk s w)) (nw c)) as [(w & Hw & Hs)|Hno].
  { destruct (s_wk s w) as [|t pc] eqn:Ew; [discriminate|]. destruct pc; try discriminate Hs.
    destruct (s_cbout s) as [w'|] eqn:El.
    - exfalso. pose proof (proj1 (Lout w') eq_refl) as El'. destruct (s_wk s w') as [|t' pc'] eqn:Ew'; [discriminate|].
      pose proof (Hlt _ _ _ Ew') as Hw'. specialize (Hnr w' Hw'). simpl in Hnr. rewrite Ew' in Hnr.
      destruct pc'; simpl in El', Hnr; discriminate.
    - exists w. eexists. split; [exact Hw|]. unfold wstep. rewrite Ew, El. reflexivity. }
  destruct (dec_ex (fun w => at_cbin (s_wk s w)) (nw c)) as [(w & Hw & Hs)|Hni].
  { destruct (s_wk s w) as [|t pc] eqn:Ew; [discriminate|]. destruct pc; try discriminate Hs.
    destruct (s_cbin s (wpool c w)) as [w'|] eqn:El.
    - exfalso. apply Lin in El. destruct (s_wk s w') as [|t' pc'] eqn:Ew'; [discriminate|].
      pose proof (Hlt _ _ _ Ew') as Hw'. specialize (Hnr w' Hw'). specialize (Hno w' Hw'). simpl in Hnr, Hno. rewrite Ew' in Hnr, Hno.
      destruct pc'; simpl in El, Hnr, Hno; discriminate.
    - exists w. eexists. split; [exact Hw|]. unfold wstep. rewrite Ew, El. reflexivity. }
  exfalso. specialize (Hnr w0 Hw0). specialize (Hns w0 Hw0). specialize (Hnt w0 Hw0).
  specialize (Hno w0 Hw0). specialize (Hni w0 Hw0). simpl in *. rewrite Ew0 in *.
  destruct pc0; simpl in *; discriminate.
Qed.

(* ---------- when all workers are idle, a driver, a dequeue or the caller can move *)
Definition wf_live (c : cfg) : Prop :=
  wf_cfg c /\ (forall p, p < np c -> exists w, w < nw c /\ wpool c w = p) /\ 1 <= c_limit c.

Definition is_dsub (x : dpc) := match x with DSub => true | _ => false end.
Definition is_djoin (x : dpc) := match x with DJoin _ => true | _ => false end.
Definition is_dwait (x : dpc) := match x with DWait => true | _ => false end.

Lemma find_ex {A} (f : A -> bool) l x : In x l -> f x = true -> exists y, find f l = Some y.
Proof.
  intros Hin Hf. destruct (find f l) eqn:E; [eauto|]. pose proof (find_none _ _ E x Hin). congruence.
Qed.

Lemma idle_enabled c s :
  wf_live c -> coh_inv c s -> drv_inv c s -> final s = false ->
  (forall w, w < nw c -> s_wk s w = WIdle) ->
  exists th s', step c s th = Some s'.
Proof.
  intros (Wf & Hworkers & Hlim) [Crun Cuniq Ctaken] [Hd Hrange] Hfin Hidle.
  assert (Hai : forall p, all_idle c s p = true).
  { intros p. apply all_idle_iff. intros w Hw _. apply Hidle. exact Hw. }
  destruct (dec_ex (fun p => is_dsub (s_dr s p)) (np c)) as [(p & Hp & Hs)|Hnsub].
  { exists (TDrv p). simpl. apply Nat.ltb_lt in Hp. rewrite Hp. unfold dstep.
    destruct (s_dr s p); try discriminate Hs. destruct (first_task c s p is_unsub); eexists; reflexivity. }
  destruct (dec_ex (fun p => is_djoin (s_dr s p)) (np c)) as [(p & Hp & Hs)|Hnjoin].
  { exists (TDrv p). simpl. apply Nat.ltb_lt in Hp. rewrite Hp. unfold dstep.
    destruct (s_dr s p); try discriminate Hs. rewrite Hai. eexists; reflexivity. }
  destruct (dec_ex (fun p => is_dwait (s_dr s p)) (np c)) as [(p & Hp & Hs)|Hnwait].
  { destruct (s_dr s p) eqn:Ed; try discriminate Hs.
    destruct (failed c s p) eqn:Ef.
    { exists (TDrv p). simpl. apply Nat.ltb_lt in Hp. rewrite Hp. unfold dstep. rewrite Ed, Ef. eexists; reflexivity. }
    destruct (all_ok c s p) eqn:Eo.
    { exists (TDrv p). simpl. apply Nat.ltb_lt in Hp. rewrite Hp. unfold dstep. rewrite Ed, Ef, Eo. eexists; reflexivity. }
    (* some task of the pool is not finished: it must be queued, and an idle worker can take it *)
    pose proof (Hd p) as Hdp. unfold dpool_ok in Hdp. rewrite Ed in Hdp. destruct Hdp as [Hnu Hnc].
    unfold all_ok in Eo. apply forallb_false_ex in Eo. destruct Eo as (t & Hin & Ht). apply in_tasks in Hin.
    apply orb_false_iff in Ht. destruct Ht as [Htp Htd]. apply negb_false_iff in Htp. apply Nat.eqb_eq in Htp.
    destruct (s_ts s t) eqn:Et.
    - exfalso. apply (Hnu t Hin Htp). exact Et.
    - destruct (Hworkers p Hp) as (w & Hw & Hwp).
      assert (Hq : exists t', first_task c s p is_queued = Some t').
      { unfold first_task. apply (find_ex _ _ t); [apply in_tasks; exact Hin|]. rewrite Htp, Nat.eqb_refl, Et. reflexivity. }
      destruct Hq as [t' Hq].
      exists (TWrk w). simpl. apply Nat.ltb_lt in Hw. rewrite Hw. unfold wstep. apply Nat.ltb_lt in Hw.
      rewrite (Hidle w Hw), Hwp. unfold dequeue_ok. rewrite Hnc, Ef, Hq. simpl. rewrite orb_true_r. eexists; reflexivity.
    - exfalso. destruct (Ctaken t Et) as [w Hw]. destruct (Crun w t Hw) as (_ & _ & _ & Hlt).
      rewrite (Hidle w Hlt) in Hw. discriminate.
    - destruct e; [|discriminate Htd]. exfalso.
      assert (failed c s p = true) by (apply failed_iff; exists t; auto). congruence. }
  destruct (dec_ex (fun p => is_not (s_dr s p)) (np c)) as [(p & Hp & Hs)|Hnnot].
  { assert (Hac : active_count c s = 0).
    { unfold active_count. apply length_zero_iff_nil.
      destruct (filter (fun p0 => is_active (s_dr s p0)) (pools c)) as [|q l] eqn:Ef; [reflexivity|exfalso].
      assert (Hq : In q (filter (fun p0 => is_active (s_dr s p0)) (pools c))) by (rewrite Ef; left; reflexivity).
      apply filter_In in Hq. destruct Hq as [Hq1 Hq2]. apply in_pools in Hq1.
      specialize (Hnsub q Hq1). specialize (Hnjoin q Hq1). specialize (Hnwait q Hq1). simpl in *.
      destruct (s_dr s q); discriminate. }
    destruct (find_ex (fun q => is_not (s_dr s q)) (pools c) p (proj2 (in_pools c p) Hp) Hs) as [q Hq].
    pose proof (find_some _ _ Hq) as [Hq1 Hq2]. apply in_pools in Hq1.
    exists (TDrv q). simpl. apply Nat.ltb_lt in Hq1. rewrite Hq1. unfold dstep.
    destruct (s_dr s q); try discriminate Hq2. unfold first_unstarted. rewrite Hq, Nat.eqb_refl, Hac. simpl.
    assert (Nat.ltb 0 (c_limit c) = true) as -> by (apply Nat.ltb_lt; lia). eexists; reflexivity. }
  (* every driver is done: the caller gets control back *)
  exists TMain. simpl. unfold mstep. unfold final in Hfin. destruct (s_main s); [|discriminate].
  assert (all_drivers_done c s = true) as ->.
  { unfold all_drivers_done. apply forallb_forall. intros p Hp. apply in_pools in Hp.
    specialize (Hnsub p Hp). specialize (Hnjoin p Hp). specialize (Hnwait p Hp). specialize (Hnnot p Hp). simpl in *.
    destruct (s_dr s p); try discriminate; reflexivity. }
  eexists; reflexivity.
Qed.

Lemma deadlock_free c s :
  wf_live c -> reachable c s -> final s = false -> exists th s', step c s th = Some s'.
Proof.
  intros Wf Hr Hfin.
  pose proof (safe_reachable c s Hr) as Hsafe. pose proof (sleep_reachable c s Hr) as Hsl.
  pose proof (drv_reachable c s Hr) as Hdrv.
  destruct (dec_ex (fun w => negb (is_idle (s_wk s w))) (nw c)) as [(w & Hw & Hb)|Hall].
  - destruct (s_wk s w) as [|t pc] eqn:Ew; [discriminate|].
    destruct (busy_enabled c s Hsafe Hsl) as (w' & s' & Hw' & Hs'); [exists w, t, pc; auto|].
    exists (TWrk w'), s'. simpl. apply Nat.ltb_lt in Hw'. rewrite Hw'. exact Hs'.
  - apply (idle_enabled c s Wf (si_coh c s Hsafe) Hdrv Hfin).
    intros w Hw. specialize (Hall w Hw). simpl in Hall. destruct (s_wk s w); [reflexivity|discriminate].
Qed.

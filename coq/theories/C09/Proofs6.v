(* C09/Proofs6.v — each tensor is evaluated at most once; worker descriptors: opened before use, all closed
   when the caller gets control back (also on every error path, OSError from open included). *)
From Coq Require Import ZArith List Bool Lia ZifyBool Permutation.
From IRV Require Import Base.Exn Gen.C09Gen C07.Model C09.Model C09.Proofs1 C09.Proofs2 C09.Proofs3.
Import ListNotations.
Close Scope Z_scope.
Open Scope nat_scope.

(* ---------- evaluations *)
Lemma wstep_evals c s w s' :
  wstep c s w = Some s' ->
  s_evals s' = s_evals s \/
  (exists t r e, s_wk s w = WRun t (PWrite r) /\ wk_after (s_wk s) (s_wk s') w (WRun t (PRel r e)) /\
                 s_ts s' = s_ts s /\ s_evals s' = upd (s_evals s) t (S (s_evals s t))).
Proof.
  intros H. unfold wstep in H.
  destruct (s_wk s w) as [|t pc] eqn:Ew; [|destruct pc]; cbv beta iota zeta in H;
    try discriminate H; break_match H; inv_some H; try (left; reflexivity).
  all: right; exists t, r; eexists; split; [reflexivity|]; split; [left; intros; reflexivity|]; split; reflexivity.
Qed.

Record eval_inv (c : cfg) (s : state) : Prop := {
  ev_le : forall t, s_evals s t <= 1;
  ev_pre : forall w t pc, s_wk s w = WRun t pc -> pre_write pc = true -> s_evals s t = 0;
  ev_wait : forall t, s_ts s t = TUnsub \/ s_ts s t = TQueued -> s_evals s t = 0
}.

Lemma pre_write_wake t pc t' pc' : wake1 (WRun t pc) = WRun t' pc' -> t = t' /\ pre_write pc' = pre_write pc.
Proof. destruct pc; simpl; intros H; injection H as <- <-; auto. Qed.

Lemma other_worker wk wk' w x' w0 t0 pc0 :
  wk_after wk wk' w x' -> w0 <> w -> wk' w0 = WRun t0 pc0 ->
  exists pc1, wk w0 = WRun t0 pc1 /\ pre_write pc1 = pre_write pc0.
Proof.
  intros Ha Hne E. destruct (wk_after_other (fun _ => True) _ _ _ _ _ Ha Hne) as [E1|E1]; rewrite E1 in E.
  - eauto.
  - destruct (wk w0) as [|t1 pc1]; [discriminate|]. apply pre_write_wake in E. destruct E as [-> E]. eauto.
Qed.

Lemma eval_wstep c s w s' : coh_inv c s -> eval_inv c s -> wstep c s w = Some s' -> eval_inv c s'.
Proof.
  intros Hco [Hle Hpre Hwait] H. pose proof (wstep_evals _ _ _ _ H) as Hev.
  destruct Hev as [Hev|(t & r & e & Ew & Ha & Hts & Hev)].
  - apply wstep_sum in H.
    destruct H as [t pc pc' Ew Ha Hts _ _ Hmono _ _ | t pc' Ew Ha Hq Hts Hlt Hp _ _ _ _ _ | t e Ew Ha Hts _ _];
      constructor; rewrite Hev; try exact Hle.
    + intros w0 t0 pc0 E Hp0. destruct (Nat.eq_dec w0 w) as [->|Hne].
      * rewrite (wk_after_self _ _ _ _ Ha) in E. injection E as <- <-. apply (Hpre w t pc Ew). apply Hmono. exact Hp0.
      * destruct (other_worker _ _ _ _ _ _ _ Ha Hne E) as (pc1 & E1 & E2). apply (Hpre w0 t0 pc1 E1). congruence.
    + intros t0. rewrite Hts. apply Hwait.
    + intros w0 t0 pc0 E Hp0. destruct (Nat.eq_dec w0 w) as [->|Hne].
      * rewrite (wk_after_self _ _ _ _ Ha) in E. injection E as <- <-. apply Hwait. right. exact Hq.
      * destruct (other_worker _ _ _ _ _ _ _ Ha Hne E) as (pc1 & E1 & E2). apply (Hpre w0 t0 pc1 E1). congruence.
    + intros t0. rewrite Hts. unfold upd. destruct (Nat.eqb t0 t); [intros [X|X]; discriminate X|apply Hwait].
    + intros w0 t0 pc0 E Hp0. destruct (Nat.eq_dec w0 w) as [->|Hne].
      * rewrite (wk_after_self _ _ _ _ Ha) in E. discriminate.
      * destruct (other_worker _ _ _ _ _ _ _ Ha Hne E) as (pc1 & E1 & E2). apply (Hpre w0 t0 pc1 E1). congruence.
    + intros t0. rewrite Hts. unfold upd. destruct (Nat.eqb t0 t); [intros [X|X]; discriminate X|apply Hwait].
  - (* the evaluation itself *)
    assert (Hcw : cur (s_wk s w) = Some t) by (rewrite Ew; reflexivity).
    pose proof (Hpre w t _ Ew eq_refl) as H0.
    constructor; rewrite Hev.
    + intros t0. unfold upd. destruct (Nat.eqb t0 t); [rewrite H0; lia|apply Hle].
    + intros w0 t0 pc0 E Hp0. destruct (Nat.eq_dec w0 w) as [->|Hne].
      * rewrite (wk_after_self _ _ _ _ Ha) in E. injection E as <- <-. discriminate Hp0.
      * destruct (other_worker _ _ _ _ _ _ _ Ha Hne E) as (pc1 & E1 & E2).
        rewrite upd_other; [apply (Hpre w0 t0 pc1 E1); congruence|].
        intros ->. apply Hne. apply (co_uniq c s Hco w0 w t); [rewrite E1; reflexivity|exact Hcw].
    + intros t0 Ht0. rewrite Hts in Ht0. rewrite upd_other; [apply Hwait; exact Ht0|].
      intros ->. destruct (co_run c s Hco w t Hcw) as (Htk & _). rewrite Htk in Ht0. destruct Ht0; discriminate.
Qed.

Lemma eval_step c s th s' : coh_inv c s -> eval_inv c s -> step c s th = Some s' -> eval_inv c s'.
Proof.
  intros Hco Hi H. destruct th as [|p|w]; simpl in H.
  - unfold mstep in H. destruct (s_main s); [|discriminate]. break_match H. inv_some H.
    destruct Hi as [A B C]. constructor; simpl; assumption.
  - destruct (Nat.ltb p (np c)); [|discriminate].
    pose proof (dstep_frame _ _ _ _ H) as (Fw & _).
    assert (Fe : s_evals s' = s_evals s).
    { unfold dstep in H. break_match H; inv_some H; reflexivity. }
    apply dstep_sum in H. destruct Hi as [A B C]. constructor; rewrite Fe; try rewrite Fw; try assumption.
    destruct H as [Hd0 Hfu Hac Hdr Hts Hcn Hfl | t Hd0 Hf Hdr Hts Hcn Hfl | Hd0 Hf Hdr Hts Hcn Hfl
                   | Hd0 Hf Hdr Hts Hcn Hfl | Hd0 Hf Hok Hdr Hts Hcn Hfl | e Hd0 Hid Hdr Hts Hcn Hfl];
      rewrite Hts; try exact C.
    apply first_task_some in Hf. destruct Hf as (_ & _ & Hu).
    intros t0. unfold upd. destruct (Nat.eqb t0 t) eqn:E; [|apply C].
    apply Nat.eqb_eq in E. subst. intros _. apply C. left. destruct (s_ts s t); try discriminate Hu. reflexivity.
  - destruct (Nat.ltb w (nw c)); [|discriminate]. eapply eval_wstep; eassumption.
Qed.

Lemma eval_reachable c s : reachable c s -> eval_inv c s.
Proof.
  induction 1 as [|s th s' Hr IH Hs]; [constructor; simpl; intros; try reflexivity; try lia; discriminate|].
  eapply eval_step; try eassumption. apply safe_reachable. exact Hr.
Qed.

(* ---------- descriptors *)
Lemma wstep_hopen c s w s' :
  wstep c s w = Some s' ->
  s_hopen s' = s_hopen s \/ (exists t, s_wk s w = WRun t POpen /\ s_hopen s' = upd (s_hopen s) w true).
Proof.
  intros H. unfold wstep in H.
  destruct (s_wk s w) as [|t pc] eqn:Ew; [|destruct pc]; cbv beta iota zeta in H;
    try discriminate H; break_match H; inv_some H; try (left; reflexivity).
  right. exists t. split; reflexivity.
Qed.

Lemma dstep_hopen c s p s' :
  dstep c s p = Some s' ->
  (s_hopen s' = s_hopen s /\ forall e, s_dr s p <> DJoin e) \/
  (exists e, s_dr s p = DJoin e /\ s_hopen s' = (fun w => if Nat.eqb (wpool c w) p then false else s_hopen s w)).
Proof.
  intros H. unfold dstep in H. destruct (s_dr s p) eqn:Ed; try discriminate H; break_match H; inv_some H;
    try (left; split; [reflexivity|intros e0; discriminate]).
  right. exists e. split; reflexivity.
Qed.

(* a worker that is running a task belongs to a pool whose driver is between start and join *)
Lemma busy_active c s w t pc :
  w < nw c -> coh_inv c s -> drv_inv c s -> s_wk s w = WRun t pc -> is_active (s_dr s (wpool c w)) = true.
Proof.
  intros Hw Hco [Hd _] Ew.
  assert (Hcw : cur (s_wk s w) = Some t) by (rewrite Ew; reflexivity).
  destruct (co_run c s Hco w t Hcw) as (Htk & Hlt & Hp & _).
  specialize (Hd (wpool c w)). unfold dpool_ok in Hd.
  destruct (s_dr s (wpool c w)); try reflexivity; exfalso.
  - destruct Hd as [A _]. rewrite (A t Hlt Hp) in Htk. discriminate.
  - destruct Hd as (_ & _ & Hi). rewrite all_idle_iff in Hi. rewrite (Hi w Hw eq_refl) in Ew. discriminate.
Qed.

(* an open descriptor belongs to a real worker of a pool that has not been joined yet *)
Definition handle_inv (c : cfg) (s : state) : Prop :=
  forall w, s_hopen s w = true -> w < nw c /\ is_active (s_dr s (wpool c w)) = true.

Lemma handle_step c s th s' :
  coh_inv c s -> drv_inv c s -> handle_inv c s -> step c s th = Some s' -> handle_inv c s'.
Proof.
  intros Hco Hdrv Hi H. destruct th as [|q|w]; simpl in H.
  - unfold mstep in H. destruct (s_main s); [|discriminate]. break_match H. inv_some H. exact Hi.
  - destruct (Nat.ltb q (np c)); [|discriminate].
    pose proof (dstep_hopen _ _ _ _ H) as Hh. apply dstep_sum in H.
    intros w0 Hw0. destruct Hh as [[Hh Hnj]|(e & Hj & Hh)].
    + rewrite Hh in Hw0. destruct (Hi w0 Hw0) as [A B]. split; [exact A|].
      destruct H as [Hd0 Hfu Hac Hdr Hts Hcn Hfl | t Hd0 Hf Hdr Hts Hcn Hfl | Hd0 Hf Hdr Hts Hcn Hfl
                     | Hd0 Hf Hdr Hts Hcn Hfl | Hd0 Hf Hok Hdr Hts Hcn Hfl | e Hd0 Hid Hdr Hts Hcn Hfl];
        rewrite Hdr; try exact B; unfold upd; destruct (Nat.eqb (wpool c w0) q) eqn:E; try exact B; try reflexivity.
      (* join: excluded, it changes the descriptors *)
      exfalso. apply (Hnj e). exact Hd0.
    + rewrite Hh in Hw0. destruct (Nat.eqb (wpool c w0) q) eqn:E; [discriminate|].
      destruct (Hi w0 Hw0) as [A B]. split; [exact A|].
      destruct H as [Hd0 Hfu Hac Hdr Hts Hcn Hfl | t Hd0 Hf Hdr Hts Hcn Hfl | Hd0 Hf Hdr Hts Hcn Hfl
                     | Hd0 Hf Hdr Hts Hcn Hfl | Hd0 Hf Hok Hdr Hts Hcn Hfl | e' Hd0 Hid Hdr Hts Hcn Hfl];
        rewrite Hdr; try exact B; unfold upd; rewrite E; exact B.
  - destruct (Nat.ltb w (nw c)) eqn:El; [|discriminate]. apply Nat.ltb_lt in El.
    pose proof (wstep_frame _ _ _ _ H) as (Fd & _). pose proof (wstep_hopen _ _ _ _ H) as Hh.
    intros w0 Hw0. rewrite Fd. destruct Hh as [Hh|(t & Ew & Hh)]; rewrite Hh in Hw0.
    + apply Hi. exact Hw0.
    + unfold upd in Hw0. destruct (Nat.eqb w0 w) eqn:E; [|apply Hi; exact Hw0].
      apply Nat.eqb_eq in E. subst. split; [exact El|]. eapply busy_active; eassumption.
Qed.

Lemma handle_reachable c s : reachable c s -> handle_inv c s.
Proof.
  induction 1 as [|s th s' Hr IH Hs]; [intros w Hw; discriminate|].
  eapply handle_step; try eassumption; [apply safe_reachable|apply drv_reachable]; exact Hr.
Qed.

Lemma handles_closed c s e :
  wf_cfg c -> reachable c s -> s_main s = MDeliv e -> forall w, s_hopen s w = false.
Proof.
  intros Wf Hr Hm w. destruct (s_hopen s w) eqn:E; [exfalso|reflexivity].
  destruct (handle_reachable c s Hr w E) as [Hw Ha].
  destruct (error_path c s e Wf Hr Hm) as (Hdone & _).
  destruct Wf as [Wf1 _]. destruct (Hdone (wpool c w) (Wf1 w Hw)) as [e' He']. rewrite He' in Ha. discriminate.
Qed.

(* a tensor is only written through a descriptor its worker has opened (parallel writers) *)
Definition needs_handle (pc : wpc) : bool :=
  match pc with PTLock | PAcq | PSleep | PWrite _ | PRel _ _ | PTUn _ => true | _ => false end.
Definition handle_valid (c : cfg) (s : state) : Prop :=
  forall w t pc, s_wk s w = WRun t pc -> needs_handle pc = true -> serial c (wpool c w) = false -> s_hopen s w = true.

Lemma handle_valid_step c s th s' :
  coh_inv c s -> drv_inv c s -> handle_valid c s -> step c s th = Some s' -> handle_valid c s'.
Proof.
  intros Hco Hdrv Hi H. destruct th as [|q|w]; simpl in H.
  - unfold mstep in H. destruct (s_main s); [|discriminate]. break_match H. inv_some H. exact Hi.
  - destruct (Nat.ltb q (np c)); [|discriminate].
    pose proof (dstep_frame _ _ _ _ H) as (Fw & _). pose proof (dstep_hopen _ _ _ _ H) as Hh.
    intros w0 t pc Ew Hn Hs. rewrite Fw in Ew. destruct Hh as [[Hh _]|(e & Hj & Hh)]; rewrite Hh.
    + eapply Hi; eassumption.
    + destruct (Nat.eqb (wpool c w0) q) eqn:E; [exfalso|eapply Hi; eassumption].
      apply Nat.eqb_eq in E. unfold dstep in H. rewrite Hj in H.
      destruct (all_idle c s q) eqn:Eid; [|discriminate]. rewrite all_idle_iff in Eid.
      assert (Hlt : w0 < nw c) by (apply (co_run c s Hco w0 t); rewrite Ew; reflexivity).
      rewrite (Eid w0 Hlt E) in Ew. discriminate.
  - destruct (Nat.ltb w (nw c)) eqn:El; [|discriminate].
    unfold wstep in H.
    destruct (s_wk s w) as [|t pc] eqn:Ew; [|destruct pc]; cbv beta iota zeta in H;
      try discriminate H; break_match H; inv_some H.
    all: intros w0 t0 pc0 E0 Hn Hs; simpl in *.
    all: try (unfold upd in *; destruct (Nat.eqb w0 w) eqn:E;
              [ apply Nat.eqb_eq in E; subst w0;
                try (injection E0 as <- <-); try unfold first_pc in Hn; try unfold after_outer in Hn;
                repeat match type of Hn with context [if ?b then _ else _] => destruct b eqn:? end;
                try discriminate Hn; try reflexivity; try congruence; try (eapply Hi; [exact Ew|reflexivity|exact Hs])
              | try (eapply Hi; eassumption) ]; fail).
    all: unfold upd in E0; destruct (Nat.eqb w0 w) eqn:E.
    all: try (apply Nat.eqb_eq in E; subst w0; simpl in E0; injection E0 as <- <-;
              eapply Hi; [exact Ew|reflexivity|exact Hs]).
    all: match goal with |- _ =>
      destruct (s_wk s w0) as [|t1 pc1] eqn:E1; [discriminate E0|];
      destruct pc1; simpl in E0; injection E0 as <- <-; try discriminate Hn;
      (eapply Hi; [exact E1|reflexivity|exact Hs]) end.
Qed.

Lemma handle_valid_reachable c s : reachable c s -> handle_valid c s.
Proof.
  induction 1 as [|s th s' Hr IH Hs]; [intros w t pc Hw; discriminate|].
  eapply handle_valid_step; try eassumption; [apply safe_reachable|apply drv_reachable]; exact Hr.
Qed.


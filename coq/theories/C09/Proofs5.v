(* C09/Proofs5.v — the files written under any schedule equal the serial writer's files. *)
From Coq Require Import ZArith List Bool Lia ZifyBool Permutation.
From IRV Require Import Base.Exn Gen.C09Gen C07.Model C09.Model C09.Proofs1 C09.Proofs2 C09.Proofs3.
Import ListNotations.
Close Scope Z_scope.
Open Scope nat_scope.

(* ---------- pointwise view of the C07 file model (bytes past EOF read as 0) *)
Lemma nth_repeat0 i k : nth i (repeat 0%Z k) 0%Z = 0%Z.
Proof. revert i. induction k as [|k IH]; intros [|i]; simpl; auto. Qed.

Lemma nth_pad f n i : nth i (pad_to f n) 0%Z = nth i f 0%Z.
Proof.
  unfold pad_to. destruct (Nat.lt_ge_cases i (length f)) as [H|H].
  - apply app_nth1. exact H.
  - rewrite app_nth2 by exact H. rewrite nth_repeat0. symmetry. apply nth_overflow. exact H.
Qed.

Lemma nth_firstn_lt {A} (l : list A) d : forall n i, i < n -> nth i (firstn n l) d = nth i l d.
Proof.
  induction l as [|a l IH]; intros n i H.
  - rewrite firstn_nil. reflexivity.
  - destruct n; [lia|]. destruct i; [reflexivity|]. simpl. apply IH. lia.
Qed.

Lemma nth_skipn_add {A} (l : list A) d : forall n i, nth i (skipn n l) d = nth (n + i) l d.
Proof.
  induction l as [|a l IH]; intros n i.
  - rewrite skipn_nil. destruct i, n; reflexivity.
  - destruct n; [reflexivity|]. simpl. apply IH.
Qed.

Lemma pad_length f n : length (pad_to f n) = Nat.max (length f) n.
Proof. unfold pad_to. rewrite app_length, repeat_length. lia. Qed.

Lemma write_at_len f off bs : length (write_at f off bs) = Nat.max (length f) (off + length bs).
Proof. unfold write_at. rewrite !app_length, firstn_length, skipn_length, pad_length. lia. Qed.

Lemma nth_write_at f off bs i :
  nth i (write_at f off bs) 0%Z =
  if (off <=? i) && (i <? off + length bs) then nth (i - off) bs 0%Z else nth i f 0%Z.
Proof.
  unfold write_at.
  assert (Hl : length (firstn off (pad_to f off)) = off) by (rewrite firstn_length, pad_length; lia).
  destruct (off <=? i) eqn:E1; simpl.
  - apply Nat.leb_le in E1. rewrite app_nth2 by lia. rewrite Hl.
    destruct (i <? off + length bs) eqn:E2.
    + apply Nat.ltb_lt in E2. apply app_nth1. lia.
    + apply Nat.ltb_ge in E2. rewrite app_nth2 by lia. rewrite nth_skipn_add, nth_pad. f_equal. lia.
  - apply Nat.leb_gt in E1. rewrite app_nth1 by lia. rewrite nth_firstn_lt by exact E1. apply nth_pad.
Qed.

Definition jdisj (a b : nat * list Z) : Prop :=
  fst a + length (snd a) <= fst b \/ fst b + length (snd b) <= fst a.

Lemma write_at_comm f a b :
  jdisj a b ->
  write_at (write_at f (fst a) (snd a)) (fst b) (snd b) = write_at (write_at f (fst b) (snd b)) (fst a) (snd a).
Proof.
  intros Hd. apply (nth_ext _ _ 0%Z 0%Z).
  - rewrite !write_at_len. unfold byte in *. lia.
  - intros i _. rewrite !nth_write_at. unfold jdisj in Hd.
    repeat match goal with
           | |- context [Nat.leb ?x ?y] => destruct (Nat.leb_spec x y)
           | |- context [Nat.ltb ?x ?y] => destruct (Nat.ltb_spec x y)
           end; simpl; try reflexivity; exfalso; unfold byte in *; lia.
Qed.

Lemma write_all_app f l1 l2 : write_all f (l1 ++ l2) = write_all (write_all f l1) l2.
Proof. unfold write_all. apply fold_left_app. Qed.

(* ---------- any order of pairwise disjoint writes gives the same file *)
Section Perm.
  Variable c : cfg.
  Definition tdisj (t1 t2 : nat) : Prop := jdisj (job c t1) (job c t2).

  Lemma write_tasks_perm l1 l2 :
    Permutation l1 l2 -> NoDup l1 ->
    (forall t1 t2, In t1 l1 -> In t2 l1 -> t1 <> t2 -> tdisj t1 t2) ->
    forall f, write_all f (map (job c) l1) = write_all f (map (job c) l2).
  Proof.
    induction 1 as [|x l l' Hp IH|x y l|l l' l'' Hp1 IH1 Hp2 IH2]; intros Hnd Hdis f.
    - reflexivity.
    - simpl. unfold write_all in *. simpl. inversion Hnd; subst. apply IH; [assumption|].
      intros t1 t2 G1 G2. apply Hdis; right; assumption.
    - simpl. unfold write_all. simpl. f_equal. apply (write_at_comm f (job c y) (job c x)).
      inversion Hnd as [|? ? Hni _]; subst. apply Hdis; [left; reflexivity|right; left; reflexivity|].
      intros ->. apply Hni. left. reflexivity.
    - rewrite IH1 by assumption. apply IH2.
      + eapply Permutation_NoDup; eassumption.
      + intros t1 t2 G1 G2. apply Hdis; eapply Permutation_in; try eassumption; apply Permutation_sym; assumption.
  Qed.
End Perm.

(* ---------- the initial file (empty or preallocated zeros of the final size) does not matter *)
Definition maxend (jobs : list (nat * list Z)) : nat :=
  fold_right (fun j m => Nat.max (fst j + length (snd j)) m) 0 jobs.

Lemma write_all_len jobs : forall f, length (write_all f jobs) = Nat.max (length f) (maxend jobs).
Proof.
  induction jobs as [|j r IH]; intros f; unfold write_all in *; simpl; [lia|].
  rewrite IH, write_at_len. unfold byte in *. lia.
Qed.

Lemma write_all_nth jobs : forall f g,
  (forall i, nth i f 0%Z = nth i g 0%Z) -> forall i, nth i (write_all f jobs) 0%Z = nth i (write_all g jobs) 0%Z.
Proof.
  induction jobs as [|j r IH]; intros f g H i; unfold write_all in *; simpl; [apply H|].
  apply IH. intros k. rewrite !nth_write_at. destruct ((fst j <=? k) && (k <? fst j + length (snd j))); [reflexivity|apply H].
Qed.

Lemma write_all_prealloc jobs :
  write_all (repeat 0%Z (maxend jobs)) jobs = write_all [] jobs.
Proof.
  apply (nth_ext _ _ 0%Z 0%Z).
  - rewrite !write_all_len, repeat_length. simpl. unfold byte in *. lia.
  - intros i _. apply write_all_nth. intros k. rewrite nth_repeat0. destruct k; reflexivity.
Qed.

Lemma total_size_maxend c p : total_size c p = maxend (map (job c) (pool_tasks c p)).
Proof.
  unfold total_size, pool_tasks.
  assert (H : forall l a,
    fold_left (fun m t => if Nat.eqb (tpool c t) p
                          then Nat.max m (t_off (task_of c t) + length (t_bytes (task_of c t))) else m) l a
    = Nat.max a (maxend (map (job c) (filter (fun t => Nat.eqb (tpool c t) p) l)))).
  { induction l as [|t l IH]; intros a; simpl; [lia|].
    rewrite IH. destruct (Nat.eqb (tpool c t) p); simpl; unfold job; simpl; unfold byte in *; lia. }
  rewrite H. lia.
Qed.

(* ---------- the file invariant *)
Definition in_pool (c : cfg) (p : nat) (t : nat) : bool := Nat.eqb (tpool c t) p.

Definition file_inv (c : cfg) (s : state) : Prop :=
  forall p, s_dr s p <> DNot ->
            s_files s p = write_all (init_file c p) (map (job c) (filter (in_pool c p) (s_wlog s))).

Lemma wstep_files c s w s' :
  wstep c s w = Some s' ->
  (s_files s' = s_files s /\ s_wlog s' = s_wlog s) \/
  (exists t r, s_wk s w = WRun t (PWrite r) /\
     s_files s' = upd (s_files s) (wpool c w) (write_at (s_files s (wpool c w)) (fst (job c t)) (snd (job c t))) /\
     s_wlog s' = s_wlog s ++ [t]).
Proof.
  intros H. unfold wstep in H.
  destruct (s_wk s w) as [|t pc] eqn:Ew; [|destruct pc]; cbv beta iota zeta in H;
    try discriminate H; break_match H; inv_some H; try (left; split; reflexivity).
  right. exists t, r. repeat split; reflexivity.
Qed.

Lemma filter_nil {A} (f : A -> bool) l : (forall x, In x l -> f x = false) -> filter f l = [].
Proof.
  induction l as [|a l IH]; intros H; simpl; [reflexivity|].
  rewrite (H a (or_introl eq_refl)). apply IH. intros; apply H; right; assumption.
Qed.

Lemma file_step c s th s' :
  coh_inv c s -> wr_inv c s -> drv_inv c s -> file_inv c s -> step c s th = Some s' -> file_inv c s'.
Proof.
  intros Hco Hwr [Hd Hrange] Hi H. destruct th as [|q|w]; simpl in H.
  - apply mstep_frame in H. destruct H as (_ & _ & _ & _ & _ & _ & _ & L2 & _ & Fd & _ & Ff).
    intros p Hp. rewrite Ff, L2. apply Hi. rewrite <- Fd. exact Hp.
  - destruct (Nat.ltb q (np c)); [|discriminate].
    pose proof (dstep_frame _ _ _ _ H) as (_ & _ & _ & _ & _ & _ & _ & L2 & _). apply dstep_sum in H.
    destruct H as [Hd0 Hfu Hac Hdr Hts Hcn Hfl | t Hd0 Hf Hdr Hts Hcn Hfl | Hd0 Hf Hdr Hts Hcn Hfl
                   | Hd0 Hf Hdr Hts Hcn Hfl | Hd0 Hf Hok Hdr Hts Hcn Hfl | e Hd0 Hid Hdr Hts Hcn Hfl].
    2-6: intros p Hp; rewrite Hfl, L2; apply Hi; rewrite Hdr in Hp;
         try (unfold upd in Hp; destruct (Nat.eqb p q) eqn:E; [apply Nat.eqb_eq in E; subst; congruence|exact Hp]);
         exact Hp.
    (* start: the file is created; no write of this pool has happened yet *)
    intros p Hp. rewrite Hfl, L2. unfold upd. destruct (Nat.eqb p q) eqn:E.
    + apply Nat.eqb_eq in E. subst p. rewrite filter_nil; [reflexivity|].
      intros t Hin. unfold in_pool. destruct (Nat.eqb (tpool c t) q) eqn:Et; [exfalso|reflexivity].
      apply Nat.eqb_eq in Et.
      assert (Hun : s_ts s t = TUnsub).
      { destruct (Nat.lt_ge_cases t (nt c)) as [Hl|Hg]; [|apply Hrange; exact Hg].
        specialize (Hd q). unfold dpool_ok in Hd. rewrite Hd0 in Hd. apply Hd; assumption. }
      destruct Hwr as [_ Hiff]. apply Hiff in Hin. destruct Hin as [Hx|(w0 & pc0 & Hw0 & _)].
      * rewrite Hun in Hx. discriminate.
      * destruct (co_run c s Hco w0 t) as (Htk & _); [rewrite Hw0; reflexivity|]. congruence.
    + apply Hi. rewrite Hdr in Hp. unfold upd in Hp. rewrite E in Hp. exact Hp.
  - destruct (Nat.ltb w (nw c)); [|discriminate].
    pose proof (wstep_frame _ _ _ _ H) as (Fd & _). apply wstep_files in H.
    destruct H as [[Ff L2]|(t & r & Ew & Ff & L2)].
    + intros p Hp. rewrite Ff, L2. apply Hi. rewrite <- Fd. exact Hp.
    + destruct (co_run c s Hco w t) as (_ & _ & Hpool & _); [rewrite Ew; reflexivity|].
      intros p Hp. rewrite Fd in Hp. rewrite Ff, L2, filter_app. simpl. unfold in_pool at 2. rewrite Hpool.
      unfold upd. destruct (Nat.eqb p (wpool c w)) eqn:E.
      * apply Nat.eqb_eq in E. subst p. rewrite Nat.eqb_refl. rewrite map_app, write_all_app. simpl.
        rewrite <- (Hi (wpool c w) Hp). reflexivity.
      * rewrite Nat.eqb_sym, E, app_nil_r. apply Hi. exact Hp.
Qed.

Lemma file_reachable c s : reachable c s -> file_inv c s.
Proof.
  induction 1 as [|s th s' Hr IH Hs]; [intros p Hp; exfalso; apply Hp; reflexivity|].
  pose proof (safe_reachable c s Hr) as [_ _ Hco _ Hwr].
  eapply file_step; try eassumption. apply drv_reachable. exact Hr.
Qed.

(* ---------- C09_file_deterministic *)
Definition ranges_disjoint (c : cfg) : Prop :=
  forall t1 t2, t1 < nt c -> t2 < nt c -> t1 <> t2 -> tpool c t1 = tpool c t2 -> tdisj c t1 t2.

Lemma file_deterministic c s :
  wf_cfg c -> ranges_disjoint c -> reachable c s -> s_main s = MDeliv false ->
  forall p, p < np c -> s_files s p = serial_file c p.
Proof.
  intros Wf Hdis Hr Hm p Hp.
  destruct (error_path c s false Wf Hr Hm) as (Hdone & _ & _ & _ & Hnoraise).
  pose proof (safe_reachable c s Hr) as [_ _ Hco _ [Hnd Hiff]].
  destruct (drv_reachable c s Hr) as [Hd Hrange].
  destruct (Hdone p Hp) as [e' He'].
  pose proof (Hd p) as Hdp. unfold dpool_ok in Hdp. rewrite He' in Hdp. destruct Hdp as (_ & Hend & _).
  assert (Hok : forall t, t < nt c -> tpool c t = p -> s_ts s t = TDone false).
  { destruct e'.
    - exfalso. destruct Hend as [_ Hf]. apply failed_iff in Hf. destruct Hf as (t & Hlt & _ & Ht).
      assert (false = true) by (apply Hnoraise; eauto). discriminate.
    - destruct Hend as [_ Ha]. apply all_ok_iff. exact Ha. }
  rewrite (file_reachable c s Hr p) by (rewrite He'; discriminate).
  assert (Hperm : Permutation (filter (in_pool c p) (s_wlog s)) (pool_tasks c p)).
  { apply NoDup_Permutation.
    - apply NoDup_filter. exact Hnd.
    - unfold pool_tasks. apply NoDup_filter. apply nodup_tasks.
    - intros t. unfold pool_tasks. rewrite !filter_In. unfold in_pool. split.
      + intros [Hin Ht]. split; [|exact Ht]. apply in_tasks. apply Hiff in Hin.
        destruct Hin as [Hx|(w0 & pc0 & Hw0 & _)].
        * destruct (Nat.lt_ge_cases t (nt c)) as [Hl|Hg]; [exact Hl|]. rewrite (Hrange t Hg) in Hx. discriminate.
        * apply (co_run c s Hco w0 t). rewrite Hw0. reflexivity.
      + intros [Hin Ht]. split; [|exact Ht]. apply in_tasks in Hin. apply Nat.eqb_eq in Ht.
        apply Hiff. left. rewrite (Hok t Hin Ht). reflexivity. }
  rewrite (write_tasks_perm c _ _ Hperm).
  - unfold serial_file, init_file. destruct (serial c p); [reflexivity|].
    rewrite total_size_maxend. apply write_all_prealloc.
  - apply NoDup_filter. exact Hnd.
  - intros t1 t2 H1 H2 Hne.
    assert (Hin : forall t, In t (filter (in_pool c p) (s_wlog s)) -> t < nt c /\ tpool c t = p).
    { intros t Ht. apply (Permutation_in _ Hperm) in Ht. unfold pool_tasks in Ht. apply filter_In in Ht.
      destruct Ht as [A B]. apply in_tasks in A. apply Nat.eqb_eq in B. auto. }
    destruct (Hin t1 H1) as [A1 B1]. destruct (Hin t2 H2) as [A2 B2]. apply Hdis; try assumption. congruence.
Qed.

(* ---------- C09_cb_once *)
Lemma cb_once c s :
  wf_cfg c -> reachable c s ->
  NoDup (s_cblog s) /\ (forall t, In t (s_cblog s) -> t < nt c) /\
  (s_main s = MDeliv false -> Permutation (s_cblog s) (tasks c)).
Proof.
  intros Wf Hr.
  pose proof (safe_reachable c s Hr) as [_ _ Hco [Hnd Hiff] _].
  destruct (drv_reachable c s Hr) as [Hd Hrange].
  assert (Hlt : forall t, In t (s_cblog s) -> t < nt c).
  { intros t Hin. apply Hiff in Hin. destruct Hin as [Hx|(w0 & pc0 & Hw0 & _)].
    - destruct (Nat.lt_ge_cases t (nt c)) as [Hl|Hg]; [exact Hl|]. rewrite (Hrange t Hg) in Hx. discriminate.
    - apply (co_run c s Hco w0 t). rewrite Hw0. reflexivity. }
  split; [exact Hnd|]. split; [exact Hlt|]. intros Hm.
  destruct (error_path c s false Wf Hr Hm) as (Hdone & _ & _ & _ & Hnoraise).
  apply NoDup_Permutation; [exact Hnd|apply nodup_tasks|].
  intros t. rewrite in_tasks. split; [apply Hlt|]. intros Ht.
  destruct Wf as [_ Wf2]. destruct (Hdone (tpool c t) (Wf2 t Ht)) as [e' He'].
  pose proof (Hd (tpool c t)) as Hdp. unfold dpool_ok in Hdp. rewrite He' in Hdp. destruct Hdp as (_ & Hend & _).
  apply Hiff. left. destruct e'.
  - exfalso. destruct Hend as [_ Hf]. apply failed_iff in Hf. destruct Hf as (t' & Hlt' & _ & Ht').
    assert (false = true) by (apply Hnoraise; eauto). discriminate.
  - destruct Hend as [_ Ha]. rewrite all_ok_iff in Ha. rewrite (Ha t Ht eq_refl). reflexivity.
Qed.

Lemma run_reachable c : forall sched s s', reachable c s -> run c s sched = Some s' -> reachable c s'.
Proof.
  induction sched as [|th r IH]; intros s s' Hr H; simpl in H.
  - injection H as <-. exact Hr.
  - destruct (step c s th) as [s1|] eqn:E; [|discriminate]. apply (IH s1); [|exact H].
    eapply reach_step; eassumption.
Qed.

Lemma follow_reachable c : forall tr s s', reachable c s -> follow c s tr = Some s' -> reachable c s'.
Proof.
  induction tr as [|o r IH]; intros s s' Hr H; simpl in H.
  - injection H as <-. exact Hr.
  - destruct (ostep_ok c s o) as [s1|] eqn:E; [|discriminate]. apply (IH s1); [|exact H].
    unfold ostep_ok in E. destruct o as [[[[th code] t] inf] ov].
    destruct (Nat.eqb (ev_code c s th) code && Nat.eqb (ev_task c s th) t); [|discriminate].
    destruct (step c s th) as [s2|] eqn:Es; [|discriminate].
    destruct (Z.eqb (s_inflight s2) inf && Bool.eqb (s_over s2) ov); [|discriminate].
    injection E as <-. eapply reach_step; eassumption.
Qed.

(* C09/Proofs7.v — the per-task program of the LTS equals the statement order extracted from the source on this
   run (Gen/C09Gen.v: parallel_task_ops, serial_task_ops, outer_callback_ops); one global acquisition order of
   callback locks, tensor lock and budget for serial and parallel writers; every evaluation happens under a
   reservation of the shared budget. *)
From Coq Require Import ZArith List Bool Lia ZifyBool.
From IRV Require Import Base.Exn Gen.C09Gen C07.Model C09.Model C09.Proofs1 C09.Proofs2 C09.Proofs3.
Import ListNotations.
Close Scope Z_scope.
Open Scope nat_scope.

(* ---------- the LTS's task program, read off `step` itself *)
(* event codes (Model.ev_code) of the source-level operations *)
Definition code_of_op (o : sop) : nat :=
  match o with
  | OLock CbInner => 2 | OLock CbOuter => 3 | OCallback => 4 | OUnlock CbOuter => 6 | OUnlock CbInner => 7
  | OOpenHandle => 18 | OLock TensorLock => 8 | OAcquire => 9 | OWrite => 12 | ORelease => 14
  | OUnlock TensorLock => 15
  end.

(* run worker w alone and collect the event code of every step it takes *)
Fixpoint worker_codes (c : cfg) (s : state) (w : nat) (fuel : nat) : list nat :=
  match fuel with
  | 0 => []
  | S f => match step c s (TWrk w) with
           | Some s' => ev_code c s (TWrk w) :: worker_codes c s' w f
           | None => []
           end
  end.

(* one non-failing task that fits the budget, alone in its pool; the driver has submitted it *)
Definition one_task_cfg (ser outer : bool) : cfg :=
  mkCfg [mkTask 0 0 0 [7%Z] false false false] [ser] [0] 8%Z 1048576%Z outer 1 [].
Definition submitted (c : cfg) : option state := run c init [TDrv 0; TDrv 0; TDrv 0].
Definition model_task_codes (ser outer : bool) : list nat :=
  match submitted (one_task_cfg ser outer) with
  | Some s => worker_codes (one_task_cfg ser outer) s 0 40
  | None => []
  end.

(* source order: dequeue, the operations of the task (the callback wrapped by the outer lock when sharded), done *)
Definition with_outer (ops : list sop) : list sop :=
  flat_map (fun o => match o with OCallback => outer_callback_ops | _ => [o] end) ops.
Definition source_codes (ops : list sop) : list nat := 1 :: map code_of_op ops ++ [16].

Lemma program_order_matches_source :
  model_task_codes false false = source_codes parallel_task_ops /\
  model_task_codes false true = source_codes (with_outer parallel_task_ops) /\
  model_task_codes true true = source_codes (with_outer serial_task_ops).
Proof. vm_compute. repeat split; reflexivity. Qed.

(* ---------- one acquisition order *)
(* resources: 0 inner callback lock, 1 outer callback lock, 2 tensor-object lock, 3 byte budget *)
Definition waits_for (pc : wpc) : option nat :=
  match pc with PCbIn => Some 0 | PCbOut => Some 1 | PTLock => Some 2 | PAcq | PSleep => Some 3 | _ => None end.

Lemma lock_order c s w t pc r :
  lock_inv c s -> budget_inv c s -> s_wk s w = WRun t pc -> waits_for pc = Some r ->
  (forall p, s_cbin s p = Some w -> 0 < r) /\ (s_cbout s = Some w -> 1 < r) /\
  (forall o, s_tl s o = Some w -> 2 < r) /\ held_reg (s_wk s w) = 0%Z /\ held_over (s_wk s w) = 0%Z.
Proof.
  intros [Lin Lout Ltl Lcf] _ Ew Hw.
  split; [|split; [|split; [|split]]].
  - intros p Hp. apply Lin in Hp. rewrite Ew in Hp. destruct pc; simpl in *; try discriminate; injection Hw as <-; lia.
  - intros Hp. apply Lout in Hp. rewrite Ew in Hp. destruct pc; simpl in *; try discriminate; injection Hw as <-; lia.
  - intros o Hp. apply Ltl in Hp. rewrite Ew in Hp. destruct pc; simpl in *; try discriminate; injection Hw as <-; lia.
  - rewrite Ew. destruct pc; simpl in *; try discriminate; reflexivity.
  - rewrite Ew. destruct pc; simpl in *; try discriminate; reflexivity.
Qed.

(* ---------- every evaluation is covered by a reservation of THE budget *)
Lemma sumZ_ge_elem g l x : (forall y, In y l -> (0 <= g y)%Z) -> In x l -> (g x <= sumZ g l)%Z.
Proof.
  induction l as [|a l IH]; intros Hn Hin; [destruct Hin|]. simpl.
  assert (0 <= sumZ g l)%Z by (apply sumZ_nonneg; intros; apply Hn; right; assumption).
  pose proof (Hn a (or_introl eq_refl)). destruct Hin as [->|Hin]; [lia|].
  assert (g x <= sumZ g l)%Z by (apply IH; [intros; apply Hn; right; assumption|exact Hin]). lia.
Qed.

Lemma held_over_nonneg' x : (0 <= held_over x)%Z.
Proof. destruct x as [|t []]; simpl; try lia; destruct (release_is_oversized r); lia. Qed.

Lemma write_under_budget c s w t r :
  reachable c s -> s_wk s w = WRun t (PWrite r) ->
  (r = oversized_token /\ (cap c < need c t)%Z /\ s_over s = true) \/
  (r = need c t /\ (need c t <= cap c)%Z /\ (need c t <= s_inflight s)%Z).
Proof.
  intros Hr Ew. pose proof (safe_reachable c s Hr) as [[Hreg Hov Htok Hcap] _ Hco _ _].
  assert (Hw : w < nw c) by (apply (co_run c s Hco w t); rewrite Ew; reflexivity).
  pose proof (Htok w) as Hk. rewrite Ew in Hk. simpl in Hk.
  destruct Hk as [[-> Hlt]|[-> Hle]]; [left|right]; (split; [reflexivity|]); (split; [assumption|]).
  - assert (held_over (s_wk s w) <= sumZ (fun w0 => held_over (s_wk s w0)) (workers c))%Z as Hs
      by (apply (sumZ_ge_elem (fun w0 => held_over (s_wk s w0))); [intros; apply held_over_nonneg'|apply in_workers; exact Hw]).
    rewrite Ew in Hs. simpl in Hs.
    assert (release_is_oversized oversized_token = true) as E by (apply rel_over_iff; reflexivity).
    try rewrite E in Hs. rewrite <- Hov in Hs. destruct (s_over s); [reflexivity|simpl in Hs; lia].
  - assert (held_reg (s_wk s w) <= sumZ (fun w0 => held_reg (s_wk s w0)) (workers c))%Z as Hs
      by (apply (sumZ_ge_elem (fun w0 => held_reg (s_wk s w0))); [intros; apply (held_reg_nonneg c); apply Htok|apply in_workers; exact Hw]).
    rewrite Ew in Hs. simpl in Hs.
    assert (release_is_oversized (need c t) = false) as E by (pose proof (need_nonneg c t); unfold release_is_oversized; lia).
    try rewrite E in Hs. rewrite <- Hreg in Hs. exact Hs.
Qed.

(* C09/Model.v — executable labelled transition system of the concurrent external-data writer.

   Code modelled (src/onnx_ir/external_data.py):
     _ByteBudget.acquire/release (336-375)      guards / updates come from Gen/C09Gen.v (regenerated)
     _reservation_bytes (378-382)               Gen/C09Gen.v
     _write_tensor_with_budget_at (400-416)     acquire ; try write ; finally release
     _ExternalDataWriter._write_tensor (562-571)  per-tensor-OBJECT lock around the budgeted write
     _ExternalDataWriter._write_parallel (588-650)  callback lock ; callback ; unlock ; tensor write ;
                                                executor with k workers + FIFO queue ; as_completed ;
                                                shutdown(wait=True, cancel_futures=True) on error
     _ExternalDataWriter._write_serial (573-586)  the same per-tensor sequence run by one thread, stops at
                                                the first exception (a "serial pool")
     _write_external_tensors (858-895)          shard-driver pool: every shard job is a "pool" below with
                                                its own workers/inner callback lock ; all pools share ONE
                                                budget, ONE tensor-lock table and ONE outer callback lock.

   A *pool* is one _ExternalDataWriter (one data file).  Single-file parallel save = 1 pool, no outer
   lock, limit 1.  Sharded parallel save = one pool per shard (parallel or serial inner writer), outer
   callback lock, at most `c_limit` (= shard_workers) drivers active at a time, started in shard order.

   Steps are exactly the synchronisation points.  Locks have explicit owners.  The budget's condition
   variable has an explicit wait set (PSleep): a sleeping thread only becomes runnable again through the
   notify_all of a release, so a lost wake-up would show up as a deadlock of this LTS.
   `step c s th = None` means thread th is blocked (or finished) in s. *)
From Coq Require Import ZArith List Bool Lia.
From IRV Require Import Base.Exn Gen.C09Gen C07.Model.
Import ListNotations.

(* ---------- static configuration *)
Record task := mkTask {
  t_pool : nat;            (* which writer / data file *)
  t_obj : nat;             (* tensor OBJECT identity: equal for initializers sharing one tensor object *)
  t_off : nat;             (* byte offset in the pool's file *)
  t_bytes : list Z;        (* the tensor's bytes *)
  t_ext : bool;            (* isinstance(tensor, ExternalTensor) *)
  t_cbfail : bool;         (* the progress callback raises for this tensor *)
  t_wfail : bool           (* materialising / writing this tensor raises *)
}.

Record cfg := mkCfg {
  c_tasks : list task;     (* all tensors, global callback-index order; pool p's tasks in submission order *)
  c_serial : list bool;    (* per pool: inner writer is _write_serial (workers_per_shard = 1) *)
  c_wpool : list nat;      (* per worker thread: its pool *)
  c_cap : Z;               (* max_in_flight_bytes as passed (capacity = budget_capacity c_cap) *)
  c_chunk : Z;             (* _core._EXTERNAL_TENSOR_COPY_CHUNK_SIZE in force *)
  c_outer : bool;          (* sharded: callbacks additionally wrapped in the outer callback lock *)
  c_limit : nat;           (* number of shard-driver threads (1 for the single-file writer) *)
  c_openfail : list nat    (* which attempts (0-based, in order of occurrence) to open a worker descriptor fail with OSError *)
}.

Definition dummy_task : task := mkTask 0 0 0 [] false false false.
Definition nt (c : cfg) : nat := length (c_tasks c).
Definition np (c : cfg) : nat := length (c_serial c).
Definition nw (c : cfg) : nat := length (c_wpool c).
Definition task_of (c : cfg) (t : nat) : task := nth t (c_tasks c) dummy_task.
Definition tpool (c : cfg) (t : nat) : nat := t_pool (task_of c t).
Definition tobj (c : cfg) (t : nat) : nat := t_obj (task_of c t).
Definition serial (c : cfg) (p : nat) : bool := nth p (c_serial c) false.
Definition wpool (c : cfg) (w : nat) : nat := nth w (c_wpool c) 0%nat.
Definition cap (c : cfg) : Z := budget_capacity (c_cap c).
Definition tlen (c : cfg) (t : nat) : Z := Z.of_nat (length (t_bytes (task_of c t))).
(* the amount passed through acquire: max(_reservation_bytes(tensor, length), 0) *)
Definition need (c : cfg) (t : nat) : Z :=
  acquire_amount (reservation_bytes (t_ext (task_of c t)) (tlen c t) (c_chunk c)).

(* ---------- dynamic state *)
Inductive wpc : Type :=
| PCbIn                      (* at `with callback_lock:` of _write_one (inner lock) *)
| PCbOut                     (* at `with callback_lock:` of _locked_callback (outer lock) *)
| PCb                        (* inside the user callback *)
| PCbUnOut (e : bool)        (* leaving the outer with-block; e = an exception is propagating *)
| PCbUnIn (e : bool)         (* leaving the inner with-block *)
| POpen                      (* in _thread_file(): this worker has no descriptor yet, about to open(path, "r+b") *)
| PTLock                     (* at `with self._tensor_write_locks[id(tensor)]:` *)
| PAcq                       (* in budget.acquire, about to test the guard (initially or after a wake-up) *)
| PSleep                     (* in condition.wait(): not runnable until notified *)
| PWrite (r : Z)             (* reservation r held, about to materialise + write *)
| PRel (r : Z) (e : bool)    (* in the finally: about to budget.release(r) *)
| PTUn (e : bool)            (* leaving the tensor-lock with-block *)
| PFin (e : bool).           (* _write_one returned / raised; about to complete the future *)

Inductive wst : Type := WIdle | WRun (t : nat) (pc : wpc).
Inductive tst : Type := TUnsub | TQueued | TTaken | TDone (e : bool).
Inductive dpc : Type := DNot | DSub | DWait | DJoin (e : bool) | DDone (e : bool).
Inductive mpc : Type := MWait | MDeliv (e : bool).
Inductive thread : Type := TMain | TDrv (p : nat) | TWrk (w : nat).

Record state := mkState {
  s_ts : nat -> tst;            (* per task *)
  s_wk : nat -> wst;            (* per worker *)
  s_dr : nat -> dpc;            (* per pool: its driver *)
  s_cancel : nat -> bool;       (* per pool: shutdown(cancel_futures=True) happened *)
  s_main : mpc;
  s_inflight : Z;               (* _ByteBudget._in_flight *)
  s_over : bool;                (* _ByteBudget._oversized_active *)
  s_cbin : nat -> option nat;   (* per pool: owner of the inner callback lock *)
  s_cbout : option nat;         (* owner of the outer callback lock *)
  s_tl : nat -> option nat;     (* per tensor object: owner of its write lock *)
  s_files : nat -> list Z;      (* per pool: image of the data file being written *)
  s_cblog : list nat;           (* callbacks invoked so far (task indices, in order) *)
  s_wlog : list nat;            (* completed writes so far (task indices, in order) *)
  s_hopen : nat -> bool;        (* per worker: it holds an open r+b descriptor on its pool's file *)
  s_nopen : nat;                (* number of attempts to open a worker descriptor so far *)
  s_evals : nat -> nat          (* per task: how many times the tensor was evaluated (tofile entered) *)
}.

Definition upd {A} (f : nat -> A) (k : nat) (v : A) : nat -> A :=
  fun x => if Nat.eqb x k then v else f x.

Definition init : state :=
  mkState (fun _ => TUnsub) (fun _ => WIdle) (fun _ => DNot) (fun _ => false) MWait
          0%Z false (fun _ => None) None (fun _ => None) (fun _ => []) [] [] (fun _ => false) 0%nat (fun _ => 0%nat).

(* setters *)
Definition set_ts s v := mkState v (s_wk s) (s_dr s) (s_cancel s) (s_main s) (s_inflight s) (s_over s) (s_cbin s) (s_cbout s) (s_tl s) (s_files s) (s_cblog s) (s_wlog s) (s_hopen s) (s_nopen s) (s_evals s).
Definition set_wk s v := mkState (s_ts s) v (s_dr s) (s_cancel s) (s_main s) (s_inflight s) (s_over s) (s_cbin s) (s_cbout s) (s_tl s) (s_files s) (s_cblog s) (s_wlog s) (s_hopen s) (s_nopen s) (s_evals s).
Definition set_dr s v := mkState (s_ts s) (s_wk s) v (s_cancel s) (s_main s) (s_inflight s) (s_over s) (s_cbin s) (s_cbout s) (s_tl s) (s_files s) (s_cblog s) (s_wlog s) (s_hopen s) (s_nopen s) (s_evals s).
Definition set_cancel s v := mkState (s_ts s) (s_wk s) (s_dr s) v (s_main s) (s_inflight s) (s_over s) (s_cbin s) (s_cbout s) (s_tl s) (s_files s) (s_cblog s) (s_wlog s) (s_hopen s) (s_nopen s) (s_evals s).
Definition set_main s v := mkState (s_ts s) (s_wk s) (s_dr s) (s_cancel s) v (s_inflight s) (s_over s) (s_cbin s) (s_cbout s) (s_tl s) (s_files s) (s_cblog s) (s_wlog s) (s_hopen s) (s_nopen s) (s_evals s).
Definition set_inflight s v := mkState (s_ts s) (s_wk s) (s_dr s) (s_cancel s) (s_main s) v (s_over s) (s_cbin s) (s_cbout s) (s_tl s) (s_files s) (s_cblog s) (s_wlog s) (s_hopen s) (s_nopen s) (s_evals s).
Definition set_over s v := mkState (s_ts s) (s_wk s) (s_dr s) (s_cancel s) (s_main s) (s_inflight s) v (s_cbin s) (s_cbout s) (s_tl s) (s_files s) (s_cblog s) (s_wlog s) (s_hopen s) (s_nopen s) (s_evals s).
Definition set_cbin s v := mkState (s_ts s) (s_wk s) (s_dr s) (s_cancel s) (s_main s) (s_inflight s) (s_over s) v (s_cbout s) (s_tl s) (s_files s) (s_cblog s) (s_wlog s) (s_hopen s) (s_nopen s) (s_evals s).
Definition set_cbout s v := mkState (s_ts s) (s_wk s) (s_dr s) (s_cancel s) (s_main s) (s_inflight s) (s_over s) (s_cbin s) v (s_tl s) (s_files s) (s_cblog s) (s_wlog s) (s_hopen s) (s_nopen s) (s_evals s).
Definition set_tl s v := mkState (s_ts s) (s_wk s) (s_dr s) (s_cancel s) (s_main s) (s_inflight s) (s_over s) (s_cbin s) (s_cbout s) v (s_files s) (s_cblog s) (s_wlog s) (s_hopen s) (s_nopen s) (s_evals s).
Definition set_files s v := mkState (s_ts s) (s_wk s) (s_dr s) (s_cancel s) (s_main s) (s_inflight s) (s_over s) (s_cbin s) (s_cbout s) (s_tl s) v (s_cblog s) (s_wlog s) (s_hopen s) (s_nopen s) (s_evals s).
Definition set_cblog s v := mkState (s_ts s) (s_wk s) (s_dr s) (s_cancel s) (s_main s) (s_inflight s) (s_over s) (s_cbin s) (s_cbout s) (s_tl s) (s_files s) v (s_wlog s) (s_hopen s) (s_nopen s) (s_evals s).
Definition set_wlog s v := mkState (s_ts s) (s_wk s) (s_dr s) (s_cancel s) (s_main s) (s_inflight s) (s_over s) (s_cbin s) (s_cbout s) (s_tl s) (s_files s) (s_cblog s) v (s_hopen s) (s_nopen s) (s_evals s).
Definition set_hopen s v := mkState (s_ts s) (s_wk s) (s_dr s) (s_cancel s) (s_main s) (s_inflight s) (s_over s) (s_cbin s) (s_cbout s) (s_tl s) (s_files s) (s_cblog s) (s_wlog s) v (s_nopen s) (s_evals s).
Definition set_nopen s v := mkState (s_ts s) (s_wk s) (s_dr s) (s_cancel s) (s_main s) (s_inflight s) (s_over s) (s_cbin s) (s_cbout s) (s_tl s) (s_files s) (s_cblog s) (s_wlog s) (s_hopen s) v (s_evals s).
Definition set_evals s v := mkState (s_ts s) (s_wk s) (s_dr s) (s_cancel s) (s_main s) (s_inflight s) (s_over s) (s_cbin s) (s_cbout s) (s_tl s) (s_files s) (s_cblog s) (s_wlog s) (s_hopen s) (s_nopen s) v.

Definition set_pc s (w t : nat) (pc : wpc) := set_wk s (upd (s_wk s) w (WRun t pc)).

(* ---------- queries over all tasks / workers / pools *)
Definition is_unsub (x : tst) := match x with TUnsub => true | _ => false end.
Definition is_queued (x : tst) := match x with TQueued => true | _ => false end.
Definition is_done_ok (x : tst) := match x with TDone false => true | _ => false end.
Definition is_done_raise (x : tst) := match x with TDone true => true | _ => false end.
Definition is_idle (x : wst) := match x with WIdle => true | _ => false end.
Definition is_not (x : dpc) := match x with DNot => true | _ => false end.
Definition is_ddone (x : dpc) := match x with DDone _ => true | _ => false end.
Definition is_ddone_raise (x : dpc) := match x with DDone true => true | _ => false end.
Definition is_active (x : dpc) := match x with DNot | DDone _ => false | _ => true end.

Definition tasks (c : cfg) : list nat := seq 0 (nt c).
Definition workers (c : cfg) : list nat := seq 0 (nw c).
Definition pools (c : cfg) : list nat := seq 0 (np c).

Definition first_task (c : cfg) (s : state) (p : nat) (f : tst -> bool) : option nat :=
  find (fun t => Nat.eqb (tpool c t) p && f (s_ts s t)) (tasks c).
Definition failed (c : cfg) (s : state) (p : nat) : bool :=
  existsb (fun t => Nat.eqb (tpool c t) p && is_done_raise (s_ts s t)) (tasks c).
Definition all_ok (c : cfg) (s : state) (p : nat) : bool :=
  forallb (fun t => negb (Nat.eqb (tpool c t) p) || is_done_ok (s_ts s t)) (tasks c).
Definition all_idle (c : cfg) (s : state) (p : nat) : bool :=
  forallb (fun w => negb (Nat.eqb (wpool c w) p) || is_idle (s_wk s w)) (workers c).
Definition active_count (c : cfg) (s : state) : nat :=
  length (filter (fun p => is_active (s_dr s p)) (pools c)).
Definition first_unstarted (c : cfg) (s : state) : option nat :=
  find (fun p => is_not (s_dr s p)) (pools c).
Definition all_drivers_done (c : cfg) (s : state) : bool :=
  forallb (fun p => is_ddone (s_dr s p)) (pools c).
Definition any_driver_raised (c : cfg) (s : state) : bool :=
  existsb (fun p => is_ddone_raise (s_dr s p)) (pools c).

(* file size preallocated by _write_parallel: max(offset + length) *)
Definition total_size (c : cfg) (p : nat) : nat :=
  fold_left (fun m t => if Nat.eqb (tpool c t) p
                        then Nat.max m (t_off (task_of c t) + length (t_bytes (task_of c t))) else m)
            (tasks c) 0%nat.

(* ---------- the per-task program *)
Definition first_pc (c : cfg) (p : nat) : wpc :=
  if serial c p then (if c_outer c then PCbOut else PCb) else PCbIn.
(* after the callback returned / raised and the outer lock (if any) was left *)
Definition after_outer (c : cfg) (p : nat) (e : bool) : wpc :=
  if serial c p then (if e then PFin true else PTLock) else PCbUnIn e.

Definition wake1 (x : wst) : wst :=
  match x with WRun t PSleep => WRun t PAcq | _ => x end.

(* a worker may take the next queued task of its pool: the executor has not been shut down with
   cancel_futures, and (serial writer) the for-loop has not been left by an exception *)
Definition dequeue_ok (c : cfg) (s : state) (p : nat) : bool :=
  negb (s_cancel s p) && (negb (serial c p) || negb (failed c s p)).

Definition wstep (c : cfg) (s : state) (w : nat) : option state :=
  let p := wpool c w in
  match s_wk s w with
  | WIdle =>
      if dequeue_ok c s p then
        match first_task c s p is_queued with
        | Some t => Some (set_pc (set_ts s (upd (s_ts s) t TTaken)) w t (first_pc c p))
        | None => None
        end
      else None
  | WRun t pc =>
      match pc with
      | PCbIn =>
          match s_cbin s p with
          | None => Some (set_pc (set_cbin s (upd (s_cbin s) p (Some w))) w t (if c_outer c then PCbOut else PCb))
          | Some _ => None
          end
      | PCbOut =>
          match s_cbout s with
          | None => Some (set_pc (set_cbout s (Some w)) w t PCb)
          | Some _ => None
          end
      | PCb =>
          let e := t_cbfail (task_of c t) in
          Some (set_pc (set_cblog s (s_cblog s ++ [t])) w t
                       (if c_outer c then PCbUnOut e else after_outer c p e))
      | PCbUnOut e => Some (set_pc (set_cbout s None) w t (after_outer c p e))
      | PCbUnIn e =>
          (* after the callback: `self._write_tensor(tensor, _thread_file(), ...)`; _thread_file opens a descriptor
             the first time this thread gets here *)
          Some (set_pc (set_cbin s (upd (s_cbin s) p None)) w t
                       (if e then PFin true else if s_hopen s w then PTLock else POpen))
      | POpen =>
          let k := s_nopen s in
          if existsb (Nat.eqb k) (c_openfail c)
          then Some (set_pc (set_nopen s (S k)) w t (PFin true))                 (* OSError from open *)
          else Some (set_pc (set_hopen (set_nopen s (S k)) (upd (s_hopen s) w true)) w t PTLock)
      | PTLock =>
          match s_tl s (tobj c t) with
          | None => Some (set_pc (set_tl s (upd (s_tl s) (tobj c t) (Some w))) w t PAcq)
          | Some _ => None
          end
      | PAcq =>
          let a := need c t in
          if acquire_is_oversized a (cap c) then
            if acquire_oversized_guard (s_over s)
            then Some (set_pc (set_over s true) w t (PWrite oversized_token))
            else Some (set_pc s w t PSleep)
          else
            if acquire_regular_guard (s_inflight s) a (cap c)
            then Some (set_pc (set_inflight s (acquire_regular_update (s_inflight s) a)) w t (PWrite a))
            else Some (set_pc s w t PSleep)
      | PSleep => None
      | PWrite r =>
          let s := set_evals s (upd (s_evals s) t (S (s_evals s t))) in
          if t_wfail (task_of c t) then Some (set_pc s w t (PRel r true))
          else
            let tk := task_of c t in
            Some (set_pc (set_wlog (set_files s (upd (s_files s) p (write_at (s_files s p) (t_off tk) (t_bytes tk))))
                                   (s_wlog s ++ [t])) w t (PRel r false))
      | PRel r e =>
          let s1 := if release_is_oversized r then set_over s false
                    else set_inflight s (release_regular_update (s_inflight s) r) in
          (* notify_all: every thread in condition.wait() is made runnable again (it re-tests its guard) *)
          Some (set_wk s1 (fun w' => wake1 (upd (s_wk s1) w (WRun t (PTUn e)) w')))
      | PTUn e => Some (set_pc (set_tl s (upd (s_tl s) (tobj c t) None)) w t (PFin e))
      | PFin e => Some (set_wk (set_ts s (upd (s_ts s) t (TDone e))) (upd (s_wk s) w WIdle))
      end
  end.

Definition dstep (c : cfg) (s : state) (p : nat) : option state :=
  match s_dr s p with
  | DNot =>
      (* shard jobs start in order, at most c_limit driver threads *)
      match first_unstarted c s with
      | Some q =>
          if Nat.eqb q p && Nat.ltb (active_count c s) (c_limit c)
          then Some (set_dr (set_files s (upd (s_files s) p
                                 (if serial c p then [] else repeat 0%Z (total_size c p))))
                            (upd (s_dr s) p DSub))
          else None
      | None => None
      end
  | DSub =>
      match first_task c s p is_unsub with
      | Some t => Some (set_ts s (upd (s_ts s) t TQueued))          (* executor.submit *)
      | None => Some (set_dr s (upd (s_dr s) p DWait))              (* enter as_completed *)
      end
  | DWait =>
      if failed c s p
      then Some (set_dr (set_cancel s (upd (s_cancel s) p true)) (upd (s_dr s) p (DJoin true)))
      else if all_ok c s p then Some (set_dr s (upd (s_dr s) p (DJoin false)))
      else None
  | DJoin e =>
      (* shutdown(wait=True) returned; the `finally` closes every descriptor the pool's workers opened *)
      if all_idle c s p
      then Some (set_dr (set_hopen s (fun w => if Nat.eqb (wpool c w) p then false else s_hopen s w))
                        (upd (s_dr s) p (DDone e)))
      else None
  | DDone _ => None
  end.

Definition mstep (c : cfg) (s : state) : option state :=
  match s_main s with
  | MWait => if all_drivers_done c s then Some (set_main s (MDeliv (any_driver_raised c s))) else None
  | MDeliv _ => None
  end.

Definition step (c : cfg) (s : state) (th : thread) : option state :=
  match th with
  | TMain => mstep c s
  | TDrv p => if Nat.ltb p (np c) then dstep c s p else None
  | TWrk w => if Nat.ltb w (nw c) then wstep c s w else None
  end.

(* run a schedule; None as soon as a scheduled thread is not enabled *)
Fixpoint run (c : cfg) (s : state) (sched : list thread) : option state :=
  match sched with
  | [] => Some s
  | th :: r => match step c s th with Some s' => run c s' r | None => None end
  end.

(* a schedule-free notion of reachability used by the theorems *)
Inductive reachable (c : cfg) : state -> Prop :=
| reach_init : reachable c init
| reach_step s th s' : reachable c s -> step c s th = Some s' -> reachable c s'.

Definition final (s : state) : bool := match s_main s with MDeliv _ => true | MWait => false end.

(* ---------- observations compared with the implementation by the case files *)
(* event code of the step thread th is about to take in s (0 = none) *)
Definition ev_code (c : cfg) (s : state) (th : thread) : nat :=
  match th with
  | TMain => 40
  | TDrv p =>
      match s_dr s p with
      | DNot => 30
      | DSub => match first_task c s p is_unsub with Some _ => 31 | None => 32 end
      | DWait => if failed c s p then 33 else 34
      | DJoin _ => 35
      | DDone _ => 0
      end
  | TWrk w =>
      match s_wk s w with
      | WIdle => 1
      | WRun t pc =>
          match pc with
          | PCbIn => 2 | PCbOut => 3
          | PCb => if t_cbfail (task_of c t) then 5 else 4
          | PCbUnOut _ => 6 | PCbUnIn _ => 7 | PTLock => 8
          | POpen => if existsb (Nat.eqb (s_nopen s)) (c_openfail c) then 19 else 18
          | PAcq =>
              if acquire_is_oversized (need c t) (cap c)
              then (if acquire_oversized_guard (s_over s) then 10 else 11)
              else (if acquire_regular_guard (s_inflight s) (need c t) (cap c) then 9 else 11)
          | PSleep => 0
          | PWrite _ => if t_wfail (task_of c t) then 13 else 12
          | PRel _ _ => 14 | PTUn _ => 15
          | PFin e => if e then 17 else 16
          end
      end
  end.

(* task involved in the step thread th is about to take (0 for driver / main steps) *)
Definition ev_task (c : cfg) (s : state) (th : thread) : nat :=
  match th with
  | TWrk w =>
      match s_wk s w with
      | WRun t _ => t
      | WIdle => match first_task c s (wpool c w) is_queued with Some t => t | None => 0 end
      end
  | _ => 0
  end.

(* one observed step: thread, event code, task, in_flight and oversized flag AFTER the step *)
Definition ostep : Type := (thread * nat * nat * Z * bool)%type.

Definition ostep_ok (c : cfg) (s : state) (o : ostep) : option state :=
  let '(th, code, t, inf, ov) := o in
  if Nat.eqb (ev_code c s th) code && Nat.eqb (ev_task c s th) t then
    match step c s th with
    | Some s' => if Z.eqb (s_inflight s') inf && Bool.eqb (s_over s') ov then Some s' else None
    | None => None
    end
  else None.

Fixpoint follow (c : cfg) (s : state) (tr : list ostep) : option state :=
  match tr with
  | [] => Some s
  | o :: r => match ostep_ok c s o with Some s' => follow c s' r | None => None end
  end.

(* number of observed steps the model accepts (for diagnostics) *)
Fixpoint accepted (c : cfg) (s : state) (tr : list ostep) : nat :=
  match tr with
  | [] => 0
  | o :: r => match ostep_ok c s o with Some s' => S (accepted c s' r) | None => 0 end
  end.

(* whole-run agreement: the trace is a path of the LTS ending in a final state with the observed
   outcome, callback order and (successful runs) the observed files *)
Definition total_evals (c : cfg) (s : state) : nat := fold_right (fun t a => (s_evals s t + a)%nat) 0%nat (tasks c).
Definition open_handles (c : cfg) (s : state) : nat := length (filter (s_hopen s) (workers c)).

Definition run_agrees (c : cfg) (tr : list ostep) (raised : bool) (cbs : list nat)
           (files : list (list Z)) (lens : option (list nat)) (nopen nevals : nat) : bool :=
  match follow c init tr with
  | Some s =>
      match s_main s with
      | MDeliv e =>
          Bool.eqb e raised && list_eqb Nat.eqb (s_cblog s) cbs &&
          Nat.eqb (s_nopen s) nopen && Nat.eqb (total_evals c s) nevals && Nat.eqb (open_handles c s) 0%nat &&
          (raised ||
           match lens with
           | None => list_eqb (list_eqb Z.eqb) (map (s_files s) (pools c)) files
           | Some l =>
               (* aligned layouts (files of several KiB): compare the file sizes with the implementation's and
                  check that every tensor's range of the model file holds its bytes *)
               list_eqb Nat.eqb (map (fun p => length (s_files s p)) (pools c)) l &&
               forallb (fun t => list_eqb Z.eqb (slice (s_files s (tpool c t)) (t_off (task_of c t))
                                                        (length (t_bytes (task_of c t))))
                                          (t_bytes (task_of c t))) (tasks c)
           end)
      | MWait => false
      end
  | None => false
  end.

(* the serial writer's file for pool p: writes in declaration order into an empty file (C07 model) *)
Definition pool_tasks (c : cfg) (p : nat) : list nat :=
  filter (fun t => Nat.eqb (tpool c t) p) (tasks c).
Definition job (c : cfg) (t : nat) : nat * list Z := (t_off (task_of c t), t_bytes (task_of c t)).
Definition serial_file (c : cfg) (p : nat) : list Z := write_all [] (map (job c) (pool_tasks c p)).

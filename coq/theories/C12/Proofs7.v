(* C12/Proofs7.v — an ordered, well-scoped scope has no cycle: its post-order (nested nodes before the
   enclosing node) respects every dependency, hence the sort returns Ok. *)
From Coq Require Import ZArith List Bool Arith Lia Permutation Relations.
From IRV Require Import Base.Exn C12.Model C12.Proofs1 C12.Proofs2 C12.Proofs3 C12.Proofs4 C12.Proofs5 C12.Proofs6.
Import ListNotations.

Fixpoint post_n (n : node) : list nat :=
  match n with
  | Node i _ subs =>
      concat (map (fun s : nat * list node => let '(gi, body) := s in concat (map post_n body)) subs) ++ [i]
  end.
Definition post (gr : graph) : list nat := flat_map post_n (snd gr).

Lemma post_n_eq n : post_n n = flat_map (fun gk => post_n (snd gk)) (sub_nodes n) ++ [nid n].
Proof. destruct n as [i ins subs]. simpl. f_equal. apply (concat_sub (fun _ => post_n)). Qed.

Lemma post_n_perm : forall n, Permutation (post_n n) (ids_n n).
Proof.
  apply (node_ind_sub (fun n => Permutation (post_n n) (ids_n n))).
  intros n IH. rewrite post_n_eq, ids_n_eq. apply Permutation_sym. apply Permutation_cons_app.
  rewrite app_nil_r. apply Permutation_sym. apply perm_flat_map_ext. exact IH.
Qed.

Lemma post_perm gr : Permutation (post gr) (ids gr).
Proof. unfold post. rewrite ids_top. apply perm_flat_map_ext. intros n _. apply post_n_perm. Qed.

Lemma post_n_self n : In (nid n) (post_n n).
Proof. rewrite post_n_eq. apply in_or_app. right. left. reflexivity. Qed.

Lemma post_segment_n : forall n g0 g u, In (g, u) (placed_n g0 n) -> exists A B, post_n n = A ++ post_n u ++ B.
Proof.
  apply (node_ind_sub (fun n => forall g0 g u, In (g, u) (placed_n g0 n) -> exists A B, post_n n = A ++ post_n u ++ B)).
  intros n IH g0 g u Hin. rewrite placed_n_eq in Hin. destruct Hin as [E|Hin].
  - injection E as _ <-. exists [], []. rewrite app_nil_r. reflexivity.
  - apply in_flat_map in Hin. destruct Hin as [gk [Hgk Hin]].
    destruct (IH gk Hgk (fst gk) g u Hin) as [A [B E]].
    apply in_split in Hgk. destruct Hgk as [K1 [K2 EK]].
    rewrite post_n_eq, EK, flat_map_app. simpl. rewrite E.
    exists (flat_map (fun gk => post_n (snd gk)) K1 ++ A), (B ++ flat_map (fun gk => post_n (snd gk)) K2 ++ [nid n]).
    rewrite <- !app_assoc. reflexivity.
Qed.

Lemma post_segment gr g u : In (g, u) (placed gr) -> exists A B, post gr = A ++ post_n u ++ B.
Proof.
  unfold placed, post. intros Hin. apply in_concat in Hin. destruct Hin as [l [Hl Hin]].
  apply in_map_iff in Hl. destruct Hl as [n [<- Hn]].
  destruct (post_segment_n n (fst gr) g u Hin) as [A [B E]].
  apply in_split in Hn. destruct Hn as [K1 [K2 ->]]. rewrite flat_map_app. simpl. rewrite E.
  exists (flat_map post_n K1 ++ A), (B ++ flat_map post_n K2). rewrite <- !app_assoc. reflexivity.
Qed.

Lemma child_before_parent u gk : In gk (sub_nodes u) -> before (nid (snd gk)) (nid u) (post_n u).
Proof.
  intros Hgk. rewrite post_n_eq. apply before_of_split.
  apply in_flat_map. exists gk. split; [exact Hgk | apply post_n_self].
Qed.

Lemma before_flat_map_gen {A} (f : A -> list nat) (l1 : list A) na l2 nb l3 a z :
  In a (f na) -> In z (f nb) -> before a z (flat_map f (l1 ++ na :: l2 ++ nb :: l3)).
Proof.
  intros Ha Hz. apply in_split in Ha. destruct Ha as [a1 [a2 Ea]].
  apply in_split in Hz. destruct Hz as [z1 [z2 Ez]].
  rewrite flat_map_app. simpl. rewrite flat_map_app. simpl. rewrite Ea, Ez.
  exists (flat_map f l1 ++ a1), (a2 ++ flat_map f l2 ++ z1), (z2 ++ flat_map f l3).
  repeat (rewrite <- app_assoc; simpl). reflexivity.
Qed.

Lemma before_app_r a b (m r : list nat) : before a b m -> before a b (m ++ r).
Proof. intros H. apply (before_app_mid a b [] m r) in H. exact H. Qed.

Lemma flat_map_pair_post (g : nat) (l : list node) :
  flat_map (fun gk : nat * node => post_n (snd gk)) (map (pair g) l) = flat_map post_n l.
Proof. induction l as [|a l IH]; simpl; [reflexivity|]. rewrite IH. reflexivity. Qed.

Lemma region_post_n : forall n g0 g old a b, In (g, old) (orders_n n) -> before a b old ->
  exists nb, In (g, nb) (placed_n g0 n) /\ nid nb = b /\ forall z, In z (post_n nb) -> before a z (post_n n).
Proof.
  apply (node_ind_sub (fun n => forall g0 g old a b, In (g, old) (orders_n n) -> before a b old ->
           exists nb, In (g, nb) (placed_n g0 n) /\ nid nb = b /\
                      forall z, In z (post_n nb) -> before a z (post_n n))).
  intros n IH g0 g old a b Hin Hab. apply orders_n_In in Hin. destruct Hin as [[s [Hs E]]|[gk [Hgk Hin]]].
  - injection E as -> ->. apply before_map_inv in Hab.
    destruct Hab as [l1 [na [l2 [nb [l3 [El [Ea Eb]]]]]]]. exists nb. split; [|split; [exact Eb|]].
    + apply (placed_n_in_sub g0 n (fst s, nb)); [|apply placed_n_head].
      apply sub_nodes_In. exists s. repeat split; [exact Hs|]. simpl. rewrite El.
      apply in_or_app. right. right. apply in_or_app. right. left. reflexivity.
    + intros z Hz. rewrite post_n_eq. apply before_app_r. unfold sub_nodes.
      apply in_split in Hs. destruct Hs as [S1 [S2 ES]]. rewrite ES, map_app, concat_app. simpl.
      rewrite !flat_map_app. apply before_app_mid. rewrite flat_map_pair_post, El.
      apply (before_flat_map_gen post_n l1 na l2 nb l3 a z); [|exact Hz].
      rewrite <- Ea. apply post_n_self.
  - destruct (IH gk Hgk (fst gk) g old a b Hin Hab) as [nb [Hnb [Eb Hz]]]. exists nb.
    split; [apply (placed_n_in_sub g0 n gk _ Hgk Hnb)|]. split; [exact Eb|].
    intros z Hzn. rewrite post_n_eq. apply before_app_r.
    apply in_split in Hgk. destruct Hgk as [K1 [K2 ->]]. rewrite flat_map_app. simpl.
    apply before_app_mid. apply Hz. exact Hzn.
Qed.

Lemma region_post gr g old a b : In (g, old) (orders gr) -> before a b old ->
  exists nb, In (g, nb) (placed gr) /\ nid nb = b /\ forall z, In z (post_n nb) -> before a z (post gr).
Proof.
  unfold orders. intros [E|Hin] Hab.
  - injection E as <- <-. apply before_map_inv in Hab.
    destruct Hab as [l1 [na [l2 [nb [l3 [El [Ea Eb]]]]]]]. exists nb. split; [|split; [exact Eb|]].
    + unfold placed. apply in_concat. exists (placed_n (fst gr) nb). split; [|apply placed_n_head].
      apply in_map. rewrite El. apply in_or_app. right. right. apply in_or_app. right. left. reflexivity.
    + intros z Hz. unfold post. rewrite El.
      apply (before_flat_map_gen post_n l1 na l2 nb l3 a z); [|exact Hz]. rewrite <- Ea. apply post_n_self.
  - apply in_concat in Hin. destruct Hin as [l [Hl Hin]]. apply in_map_iff in Hl. destruct Hl as [n [<- Hn]].
    destruct (region_post_n n (fst gr) g old a b Hin Hab) as [nb [Hnb [Eb Hz]]]. exists nb.
    split; [|split; [exact Eb|]].
    + unfold placed. apply in_concat. exists (placed_n (fst gr) n). split; [apply in_map; exact Hn | exact Hnb].
    + intros z Hzn. unfold post. apply in_split in Hn. destruct Hn as [K1 [K2 ->]].
      rewrite flat_map_app. simpl. apply before_app_mid. apply Hz. exact Hzn.
Qed.

Lemma before_split_in (L l1 l2 : list nat) c u : NoDup L -> L = l1 ++ c :: l2 -> before c u L -> In u l2.
Proof.
  intros Hnd E [k1 [k2 [k3 E2]]]. rewrite E in E2.
  apply nodup_split_unique in E2; [|rewrite <- E; exact Hnd].
  destruct E2 as [_ ->]. apply in_or_app. right. left. reflexivity.
Qed.

Lemma post_topo gr : wf gr -> well_scoped gr -> ordered gr -> topo (tflat gr) (tpreds gr) (post gr).
Proof.
  intros Hwf Hsc Hord. pose proof Hwf as [Hnd [Hg Hno]].
  assert (Hpp : Permutation (post gr) (tflat gr)) by (unfold tflat; rewrite flat_ids; apply post_perm).
  assert (Hndp : NoDup (post gr)).
  { apply (Permutation_NoDup (Permutation_sym (post_perm gr))). exact Hnd. }
  split; [exact Hpp|]. intros l1 c l2 E u Hu Hc. apply (before_split_in (post gr) l1 l2 c u Hndp E).
  unfold tflat in Hu. rewrite flat_ids in Hu. apply ids_placed in Hu. destruct Hu as [gu [nu [Hnu <-]]].
  unfold tpreds in Hc. rewrite (preds_placed gr gu nu Hnd Hnu) in Hc. apply filter_In in Hc.
  destruct Hc as [Hraw Hci]. apply memb_In in Hci. apply raw_of_In in Hraw.
  destruct Hraw as [Hin|[gk [Hgk <-]]].
  - destruct (Hsc gu nu c Hnu Hin Hci) as [g' [np [a [Hnp [Enp [Ha Hnua]]]]]].
    destruct (placed_orders gr g' a Ha) as [old' [Ho' _]].
    assert (Hb : before c (nid a) old').
    { apply (Hord g' a nu c old' Ha Hnua Hin); [|exact Ho']. exists np. split; assumption. }
    destruct (region_post gr g' old' c (nid a) Ho' Hb) as [nb [Hnb [Eb Hz]]].
    assert (E2 : (g', nb) = (g', a)) by (apply (placed_inj gr g' nb g' a Hnd Hnb Ha Eb)).
    injection E2 as ->. apply Hz.
    apply (Permutation_in _ (Permutation_sym (post_n_perm a))). unfold ids_n. apply in_map. exact Hnua.
  - destruct (post_segment gr gu nu Hnu) as [A [B ->]]. apply before_app_mid.
    apply child_before_parent. exact Hgk.
Qed.

Theorem sort_ordered_ok gr : wf gr -> well_scoped gr -> ordered gr -> sort_graph gr = (Ok tt, orders gr).
Proof.
  intros Hwf Hsc Hord. pose proof Hwf as [Hnd _].
  pose proof (sort_stable gr Hwf Hsc Hord) as Hst.
  destruct (sort_graph_spec gr Hnd) as [out [HF Hs]].
  assert (Hlen : length out = length (tflat gr)).
  { assert (Hfn : NoDup (tflat gr)) by (unfold tflat; rewrite flat_ids; exact Hnd).
    apply (topo_exists_complete (tflat gr) (tpreds gr) (tidx gr) Hfn out (post gr) HF).
    apply post_topo; assumption. }
  rewrite Hlen, Nat.eqb_refl in Hs. rewrite Hs in Hst. simpl in Hst. rewrite Hs, Hst. reflexivity.
Qed.

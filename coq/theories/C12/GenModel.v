(* C12/GenModel.v — Graph.sort written over the pieces that harness/props/c12.py translates from the source on
   every run (Gen/C12Gen.v): the index key, the depth initial value / increment / decrement, the ready and push
   tests, the sorted-node counter, the cycle test, the raised exception, the order of "cycle check" and
   "re-link", and whether the per-graph lists are reversed.  heapq enters by its contract: heappop returns the
   entry with the smallest key (pop_min).  gsort_eq_model: when the pieces are what the model assumes
   (key = -index, 0, +1, -1, == 0, != len(nodes), ValueError, check first, reversed) gsort IS Model.sort_graph. *)
From Coq Require Import ZArith List Bool Arith Lia.
From IRV Require Import Base.Exn C12.Model.
Import ListNotations.

Record sort_src : Type := {
  s_key : Z -> Z;               (* neg_node_index[node] as a function of enumerate's i *)
  s_depth_init : Z;             (* dict.fromkeys(nodes, _) *)
  s_depth_inc : Z -> Z;         (* node_depth[predecessor] += _ *)
  s_ready : Z -> bool;          (* initial queue: if node_depth[node] == _ *)
  s_count_init : Z;             (* num_of_sorted_nodes = _ *)
  s_count_inc : Z -> Z;         (* num_of_sorted_nodes += _ *)
  s_depth_dec : Z -> Z;         (* node_depth[predecessor_node] -= _ *)
  s_push : Z -> bool;           (* if node_depth[predecessor_node] == _: heappush *)
  s_cycle : Z -> Z -> bool;     (* if num_of_sorted_nodes != len(nodes): raise *)
  s_exn : exn;
  s_check_before_relink : bool; (* the raise precedes the graph.extend loop *)
  s_relink_reversed : bool      (* graph.extend(reversed(sorted_nodes)) *)
}.

Fixpoint min_by (key : nat -> Z) (x : nat) (l : list nat) : nat :=
  match l with [] => x | y :: r => min_by key (if (key y <? key x)%Z then y else x) r end.
Definition pop_min (key : nat -> Z) (q : list nat) : option (nat * list nat) :=
  match q with [] => None | x :: r => let m := min_by key x r in Some (m, remove1 m q) end.

Section G.
Variable s : sort_src.

Definition g_depth0 (flat : list nat) (preds : nat -> list nat) : nat -> Z :=
  fold_left (fun d p => upd d p (s_depth_inc s (d p))) (concat (map preds flat)) (fun _ => s_depth_init s).

Definition g_dec_step (st : (nat -> Z) * list nat) (p : nat) : (nat -> Z) * list nat :=
  let '(d, q) := st in
  let d' := upd d p (s_depth_dec s (d p)) in
  (d', if s_push s (d' p) then p :: q else q).

Fixpoint g_kahn (key : nat -> Z) (preds : nat -> list nat) (fuel : nat)
         (d : nat -> Z) (q out : list nat) (cnt : Z) : option (list nat * Z) :=
  match pop_min key q with
  | None => Some (out, cnt)
  | Some (x, q') =>
      match fuel with
      | 0 => None
      | S f => let '(d', q'') := fold_left g_dec_step (preds x) (d, q') in
               g_kahn key preds f d' q'' (x :: out) (s_count_inc s cnt)
      end
  end.

Definition gsort (gr : graph) : res unit * list (nat * list nat) :=
  let es := entries gr in
  let flat := flat_of es in
  let preds := preds_of es in
  let key := fun x => s_key s (Z.of_nat (index_of x flat)) in
  let d0 := g_depth0 flat preds in
  match g_kahn key preds (length flat) d0 (filter (fun x => s_ready s (d0 x)) flat) [] (s_count_init s) with
  | None => (Raise OtherError, orders gr)
  | Some (out, cnt) =>
      let new := map (fun go : nat * list nat =>
                        (fst go, relink (snd go)
                           (let l := filter (fun x => Nat.eqb (owner_of es x) (fst go)) out in
                            if s_relink_reversed s then l else rev l)))
                     (orders gr) in
      if s_cycle s cnt (Z.of_nat (length flat))
      then (Raise (s_exn s), if s_check_before_relink s then orders gr else new)
      else (Ok tt, new)
  end.

(* ---- the pieces the model assumes ---------------------------------------------------------------- *)
Hypothesis Hkey : forall i, s_key s i = (- i)%Z.
Hypothesis Hinit : s_depth_init s = 0%Z.
Hypothesis Hinc : forall d, s_depth_inc s d = (d + 1)%Z.
Hypothesis Hready : forall d, s_ready s d = (d =? 0)%Z.
Hypothesis Hcinit : s_count_init s = 0%Z.
Hypothesis Hcinc : forall c, s_count_inc s c = (c + 1)%Z.
Hypothesis Hdec : forall d, s_depth_dec s d = (d - 1)%Z.
Hypothesis Hpush : forall d, s_push s d = (d =? 0)%Z.
Hypothesis Hcycle : forall c n, s_cycle s c n = negb (c =? n)%Z.
Hypothesis Hexn : s_exn s = ValueError.
Hypothesis Hcheck : s_check_before_relink s = true.
Hypothesis Hrev : s_relink_reversed s = true.

Lemma fold_left_ext_in {A B} (f g : A -> B -> A) l : (forall a b, f a b = g a b) ->
  forall a, fold_left f l a = fold_left g l a.
Proof. intros H. induction l as [|b l IH]; intros a; simpl; [reflexivity|]. rewrite H. apply IH. Qed.

Lemma g_depth0_eq flat preds : g_depth0 flat preds = depth0 flat preds.
Proof.
  unfold g_depth0, depth0. rewrite Hinit. apply fold_left_ext_in. intros d p. rewrite Hinc. reflexivity.
Qed.

Lemma g_dec_step_eq st p : g_dec_step st p = dec_step st p.
Proof. destruct st as [d q]. unfold g_dec_step, dec_step. rewrite Hdec, Hpush. reflexivity. Qed.

Lemma min_by_eq (idx : nat -> nat) (key : nat -> Z) : (forall x, key x = (- Z.of_nat (idx x))%Z) ->
  forall l x, min_by key x l = max_by idx x l.
Proof.
  intros Hk. induction l as [|y r IH]; intros x; simpl; [reflexivity|].
  assert (E : (key y <? key x)%Z = (idx x <? idx y)).
  { rewrite !Hk. destruct (idx x <? idx y) eqn:E1.
    - apply Nat.ltb_lt in E1. apply Z.ltb_lt. lia.
    - apply Nat.ltb_ge in E1. apply Z.ltb_ge. lia. }
  rewrite E. apply IH.
Qed.

Lemma pop_min_eq (idx : nat -> nat) (key : nat -> Z) : (forall x, key x = (- Z.of_nat (idx x))%Z) ->
  forall q, pop_min key q = pop_max idx q.
Proof. intros Hk [|x r]; simpl; [reflexivity|]. rewrite (min_by_eq idx key Hk). reflexivity. Qed.

Lemma g_kahn_eq (idx : nat -> nat) (key : nat -> Z) preds : (forall x, key x = (- Z.of_nat (idx x))%Z) ->
  forall fuel d q out cnt,
  g_kahn key preds fuel d q out cnt =
  match kahn idx preds fuel d q out with
  | Some o => Some (o, (cnt + Z.of_nat (length o) - Z.of_nat (length out))%Z)
  | None => None
  end.
Proof.
  intros Hk. induction fuel as [|f IH]; intros d q out cnt; simpl; rewrite (pop_min_eq idx key Hk).
  - destruct (pop_max idx q) as [[x q']|]; [reflexivity|]. f_equal. f_equal. lia.
  - destruct (pop_max idx q) as [[x q']|]; [|f_equal; f_equal; lia].
    rewrite (fold_left_ext_in g_dec_step dec_step (preds x) g_dec_step_eq).
    destruct (fold_left dec_step (preds x) (d, q')) as [d' q''].
    rewrite IH, Hcinc. destruct (kahn idx preds f d' q'' (x :: out)) as [o|]; [|reflexivity].
    f_equal. f_equal. simpl length. lia.
Qed.

Theorem gsort_eq_model : forall gr, gsort gr = sort_graph gr.
Proof.
  intros gr. unfold gsort, sort_graph, kahn_run.
  rewrite g_depth0_eq.
  rewrite (g_kahn_eq (fun x => index_of x (flat_of (entries gr)))
             (fun x => s_key s (Z.of_nat (index_of x (flat_of (entries gr))))))
    by (intros x; apply Hkey).
  rewrite Hcinit.
  replace (filter (fun x => s_ready s (depth0 (flat_of (entries gr)) (preds_of (entries gr)) x)) (flat_of (entries gr)))
    with (filter (fun x => (depth0 (flat_of (entries gr)) (preds_of (entries gr)) x =? 0)%Z) (flat_of (entries gr)))
    by (apply filter_ext; intros x; rewrite Hready; reflexivity).
  destruct (kahn _ _ _ _ _ _) as [out|]; [|reflexivity].
  rewrite Hcycle, Hexn, Hcheck, Hrev. simpl length.
  replace (0 + Z.of_nat (length out) - Z.of_nat 0)%Z with (Z.of_nat (length out)) by lia.
  destruct (Nat.eqb (length out) (length (flat_of (entries gr)))) eqn:E.
  - apply Nat.eqb_eq in E. rewrite E, Z.eqb_refl. reflexivity.
  - apply Nat.eqb_neq in E.
    assert (E2 : (Z.of_nat (length out) =? Z.of_nat (length (flat_of (entries gr))))%Z = false)
      by (apply Z.eqb_neq; lia).
    rewrite E2. reflexivity.
Qed.
End G.

(* ---- the Python-level view of one node used by the predecessor-collection loop (step 1) ------------------ *)
(* an input slot: None, or a Value with its producer (None = graph input / initializer / no producer) *)
Inductive pyin : Type := PNone | PVal (producer : option nat).
(* an attribute: not an Attr / a reference attribute / GRAPH with the ids of the nodes directly in the graph /
   GRAPHS with one id list per graph *)
Inductive pyat : Type := POther | PRef | PGraph (l : list nat) | PGraphs (ls : list (list nat)).
(* what Model.node keeps of them *)
Definition view_in (i : pyin) : option nat := match i with PNone => None | PVal p => p end.
Definition view_at (a : pyat) : list (list nat) :=
  match a with POther => [] | PRef => [] | PGraph l => [l] | PGraphs ls => ls end.

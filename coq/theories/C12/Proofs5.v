(* C12/Proofs5.v — stability, part 2: a node has one parent; a graph's nodes live in one place;
   position of a graph's region in the flattened order. *)
From Coq Require Import ZArith List Bool Arith Lia Permutation Relations.
From IRV Require Import Base.Exn C12.Model C12.Proofs1 C12.Proofs2 C12.Proofs3 C12.Proofs4.
Import ListNotations.

(* ---- (child id, parent id) pairs --------------------------------------------------------------- *)
Definition pairs_of (L : list (nat * node)) : list (nat * nat) :=
  flat_map (fun gn => map (fun gk : nat * node => (nid (snd gk), nid (snd gn))) (sub_nodes (snd gn))) L.

Lemma flat_map_flat_map {A B C} (f : B -> list C) (g : A -> list B) l :
  flat_map f (flat_map g l) = flat_map (fun x => flat_map f (g x)) l.
Proof. induction l as [|a l IH]; simpl; [reflexivity|]. rewrite flat_map_app, IH. reflexivity. Qed.

Lemma perm_flat_map_cons {A} (f : A -> list nat) (h : A -> nat) (t : A -> list nat) l :
  (forall a, In a l -> f a = h a :: t a) -> Permutation (flat_map f l) (map h l ++ flat_map t l).
Proof.
  induction l as [|a l IH]; intros H; simpl; [constructor|].
  rewrite (H a (or_introl eq_refl)). simpl. constructor.
  apply Permutation_trans with (t a ++ map h l ++ flat_map t l).
  - apply Permutation_app_head. apply IH. intros b Hb. apply H. right. exact Hb.
  - rewrite !app_assoc. apply Permutation_app_tail. apply Permutation_app_comm.
Qed.

Lemma perm_flat_map_ext {A} (f f' : A -> list nat) l :
  (forall a, In a l -> Permutation (f a) (f' a)) -> Permutation (flat_map f l) (flat_map f' l).
Proof.
  induction l as [|a l IH]; intros H; simpl; [constructor|].
  apply Permutation_app; [apply H; left; reflexivity | apply IH; intros b Hb; apply H; right; exact Hb].
Qed.

Lemma ids_n_cons n : ids_n n = nid n :: tl (ids_n n).
Proof. rewrite ids_n_eq. reflexivity. Qed.

Lemma pairs_placed_n : forall n g, Permutation (map fst (pairs_of (placed_n g n))) (tl (ids_n n)).
Proof.
  apply (node_ind_sub (fun n => forall g, Permutation (map fst (pairs_of (placed_n g n))) (tl (ids_n n)))).
  intros n IH g. rewrite placed_n_eq, ids_n_eq. simpl. unfold pairs_of at 1. simpl.
  fold (pairs_of (flat_map (fun gk => placed_n (fst gk) (snd gk)) (sub_nodes n))).
  rewrite map_app, map_map. simpl. unfold pairs_of. rewrite flat_map_flat_map.
  apply Permutation_sym.
  apply Permutation_trans with (map (fun gk : nat * node => nid (snd gk)) (sub_nodes n)
                                ++ flat_map (fun gk => tl (ids_n (snd gk))) (sub_nodes n)).
  - apply perm_flat_map_cons. intros a _. apply ids_n_cons.
  - apply Permutation_app_head. apply Permutation_sym.
    assert (E : forall l : list (nat * node),
               map fst (flat_map (fun x => flat_map (fun gn : nat * node =>
                   map (fun gk : nat * node => (nid (snd gk), nid (snd gn))) (sub_nodes (snd gn)))
                   (placed_n (fst x) (snd x))) l) =
               flat_map (fun x => map fst (pairs_of (placed_n (fst x) (snd x)))) l).
    { induction l as [|a l IHl]; simpl; [reflexivity|]. rewrite map_app, IHl. reflexivity. }
    rewrite E. apply perm_flat_map_ext. intros gk Hgk. apply IH. exact Hgk.
Qed.

Lemma pairs_nodup gr : NoDup (ids gr) -> NoDup (map fst (pairs_of (placed gr))).
Proof.
  intros Hnd. rewrite ids_top in Hnd.
  assert (Hp : Permutation (flat_map ids_n (snd gr))
                 (map nid (snd gr) ++ flat_map (fun n => tl (ids_n n)) (snd gr))).
  { apply perm_flat_map_cons. intros a _. apply ids_n_cons. }
  apply (Permutation_NoDup Hp) in Hnd. apply nodup_app_iff in Hnd. destruct Hnd as [_ [Hnd _]].
  apply (Permutation_NoDup (l := flat_map (fun n => tl (ids_n n)) (snd gr))); [|exact Hnd].
  apply Permutation_sym. unfold placed, pairs_of.
  rewrite <- flat_map_concat_map, flat_map_flat_map.
  assert (E : forall l : list node,
             map fst (flat_map (fun x => flat_map (fun gn : nat * node =>
                 map (fun gk : nat * node => (nid (snd gk), nid (snd gn))) (sub_nodes (snd gn)))
                 (placed_n (fst gr) x)) l) =
             flat_map (fun x => map fst (pairs_of (placed_n (fst gr) x))) l).
  { induction l as [|a l IHl]; simpl; [reflexivity|]. rewrite map_app, IHl. reflexivity. }
  rewrite E. apply perm_flat_map_ext. intros n _. apply pairs_placed_n.
Qed.

(* a node is directly inside an attribute graph of at most one node of the scope *)
Lemma parent_unique gr g1 q1 g2 q2 gk1 gk2 : NoDup (ids gr) ->
  In (g1, q1) (placed gr) -> In (g2, q2) (placed gr) ->
  In gk1 (sub_nodes q1) -> In gk2 (sub_nodes q2) -> nid (snd gk1) = nid (snd gk2) ->
  (g1, q1) = (g2, q2).
Proof.
  intros Hnd H1 H2 Hk1 Hk2 E.
  apply (placed_inj gr g1 q1 g2 q2 Hnd H1 H2).
  apply (assoc_unique (pairs_of (placed gr)) (nid (snd gk1)) (nid q1) (nid q2) (pairs_nodup gr Hnd)).
  - unfold pairs_of. apply in_flat_map. exists (g1, q1). split; [exact H1|].
    apply in_map_iff. exists gk1. split; [reflexivity | exact Hk1].
  - unfold pairs_of. apply in_flat_map. exists (g2, q2). split; [exact H2|].
    apply in_map_iff. exists gk2. split; [rewrite E; reflexivity | exact Hk2].
Qed.

(* a node strictly inside the subtree of n has its parent in the subtree *)
Lemma strict_has_parent : forall n g gz z, In (gz, z) (tl (placed_n g n)) ->
  exists gq q, In (gq, q) (placed_n g n) /\ In (gz, z) (sub_nodes q).
Proof.
  apply (node_ind_sub (fun n => forall g gz z, In (gz, z) (tl (placed_n g n)) ->
           exists gq q, In (gq, q) (placed_n g n) /\ In (gz, z) (sub_nodes q))).
  intros n IH g gz z Hin. rewrite placed_n_eq in Hin. simpl in Hin.
  apply in_flat_map in Hin. destruct Hin as [gk [Hgk Hin]].
  pose proof Hin as Hin'. rewrite placed_n_eq in Hin'. destruct Hin' as [E|Ht].
  - exists g, n. split; [apply placed_n_head|]. rewrite <- E. destruct gk; exact Hgk.
  - destruct (IH gk Hgk (fst gk) gz z) as [gq [q [Hq Hz]]]; [rewrite placed_n_eq; exact Ht|].
    exists gq, q. split; [apply (placed_n_in_sub g n gk _ Hgk Hq) | exact Hz].
Qed.

(* ---- the nodes of one graph live in one place ------------------------------------------------------ *)
Lemma placed_n_orders_tl n g0 g k : In (g, k) (tl (placed_n g0 n)) ->
  exists old, In (g, old) (orders_n n) /\ In (nid k) old.
Proof.
  intros Hin. rewrite placed_n_eq in Hin. simpl in Hin.
  apply in_flat_map in Hin. destruct Hin as [gk [Hgk Hin]].
  destruct (placed_n_orders (snd gk) (fst gk) g k Hin) as [E|[old [Ho Hk]]].
  - apply sub_nodes_In in Hgk. destruct Hgk as [s [Hs [E1 Hks]]]. injection E as -> ->.
    exists (map nid (snd s)). split; [|apply in_map; exact Hks].
    apply orders_n_In. left. exists s. split; [exact Hs | rewrite E1; reflexivity].
  - exists old. split; [|exact Hk]. apply orders_n_In. right. exists gk. split; assumption.
Qed.

Lemma orders_n_incl_n : forall n g0 g n1, In (g, n1) (placed_n g0 n) -> incl (orders_n n1) (orders_n n).
Proof.
  apply (node_ind_sub (fun n => forall g0 g n1, In (g, n1) (placed_n g0 n) -> incl (orders_n n1) (orders_n n))).
  intros n IH g0 g n1 Hin. rewrite placed_n_eq in Hin. destruct Hin as [E|Hin].
  - injection E as _ <-. apply incl_refl.
  - apply in_flat_map in Hin. destruct Hin as [gk [Hgk Hin]]. intros x Hx.
    apply orders_n_In. right. exists gk. split; [exact Hgk | apply (IH gk Hgk (fst gk) g n1 Hin x Hx)].
Qed.

Lemma orders_n_incl gr g n1 : In (g, n1) (placed gr) -> incl (orders_n n1) (orders gr).
Proof.
  unfold placed, orders. intros Hin. apply in_concat in Hin. destruct Hin as [l [Hl Hin]].
  apply in_map_iff in Hl. destruct Hl as [n [<- Hn]]. intros x Hx. right.
  apply in_concat. exists (orders_n n). split; [apply in_map; exact Hn|].
  apply (orders_n_incl_n n (fst gr) g n1 Hin x Hx).
Qed.

Lemma same_graph_inside gr g n1 g' z a : wf gr -> In (g, n1) (placed gr) ->
  In (g', z) (tl (placed_n g n1)) -> In (g', a) (placed gr) -> In (g', a) (placed_n g n1).
Proof.
  intros [Hnd [Hg _]] Hpl Hz Ha.
  destruct (placed_n_orders_tl n1 g g' z Hz) as [old' [Ho' _]].
  destruct (placed_orders gr g' a Ha) as [old'' [Ho'' Hia]].
  assert (E : old'' = old').
  { apply (assoc_unique (orders gr) g' old'' old' Hg Ho''). apply (orders_n_incl gr g n1 Hpl). exact Ho'. }
  subst old''. destruct (orders_n_placed n1 g g' old' Ho' (nid a) Hia) as [k [Hk Ek]].
  assert (E : (g', k) = (g', a)).
  { apply (placed_inj gr g' k g' a Hnd); [apply (placed_n_incl gr n1 g Hpl); exact Hk | exact Ha | exact Ek]. }
  injection E as <-. exact Hk.
Qed.

(* ---- where the region of a graph sits in the flattened order ------------------------------------- *)
Lemma before_flat_map {A} (f : A -> list nat) (l1 : list A) na l2 nb l3 a ta z :
  f na = a :: ta -> In z (f nb) -> before a z (flat_map f (l1 ++ na :: l2 ++ nb :: l3)).
Proof.
  intros Ea Hz. apply in_split in Hz. destruct Hz as [z1 [z2 Ez]].
  rewrite flat_map_app. simpl. rewrite flat_map_app. simpl. rewrite Ea, Ez.
  exists (flat_map f l1), (ta ++ flat_map f l2 ++ z1), (z2 ++ flat_map f l3).
  simpl. rewrite <- !app_assoc. simpl. reflexivity.
Qed.

Lemma flat_map_pair (g : nat) (l : list node) :
  flat_map (fun gk : nat * node => ids_n (snd gk)) (map (pair g) l) = flat_map ids_n l.
Proof. induction l as [|a l IH]; simpl; [reflexivity|]. rewrite IH. reflexivity. Qed.

Lemma region_n : forall n g0 g old a b, In (g, old) (orders_n n) -> before a b old ->
  exists nb, In (g, nb) (placed_n g0 n) /\ nid nb = b /\ forall z, In z (ids_n nb) -> before a z (ids_n n).
Proof.
  apply (node_ind_sub (fun n => forall g0 g old a b, In (g, old) (orders_n n) -> before a b old ->
           exists nb, In (g, nb) (placed_n g0 n) /\ nid nb = b /\
                      forall z, In z (ids_n nb) -> before a z (ids_n n))).
  intros n IH g0 g old a b Hin Hab. apply orders_n_In in Hin. destruct Hin as [[s [Hs E]]|[gk [Hgk Hin]]].
  - injection E as -> ->. apply before_map_inv in Hab.
    destruct Hab as [l1 [na [l2 [nb [l3 [El [Ea Eb]]]]]]]. exists nb. split; [|split; [exact Eb|]].
    + apply (placed_n_in_sub g0 n (fst s, nb)); [|apply placed_n_head].
      apply sub_nodes_In. exists s. repeat split; [exact Hs|]. simpl. rewrite El.
      apply in_or_app. right. right. apply in_or_app. right. left. reflexivity.
    + intros z Hz. rewrite ids_n_eq. apply before_cons. unfold sub_nodes.
      apply in_split in Hs. destruct Hs as [S1 [S2 ES]]. rewrite ES, map_app, concat_app. simpl.
      rewrite !flat_map_app. apply before_app_mid. rewrite flat_map_pair, El.
      apply (before_flat_map ids_n l1 na l2 nb l3 a (tl (ids_n na)) z); [|exact Hz].
      rewrite <- Ea. apply ids_n_cons.
  - destruct (IH gk Hgk (fst gk) g old a b Hin Hab) as [nb [Hnb [Eb Hz]]]. exists nb.
    split; [apply (placed_n_in_sub g0 n gk _ Hgk Hnb)|]. split; [exact Eb|].
    intros z Hzn. rewrite ids_n_eq. apply before_cons.
    apply in_split in Hgk. destruct Hgk as [K1 [K2 ->]]. rewrite flat_map_app. simpl.
    apply before_app_mid. apply Hz. exact Hzn.
Qed.

Lemma region gr g old a b : In (g, old) (orders gr) -> before a b old ->
  exists nb, In (g, nb) (placed gr) /\ nid nb = b /\ forall z, In z (ids_n nb) -> before a z (ids gr).
Proof.
  unfold orders. intros [E|Hin] Hab.
  - injection E as <- <-. apply before_map_inv in Hab.
    destruct Hab as [l1 [na [l2 [nb [l3 [El [Ea Eb]]]]]]]. exists nb. split; [|split; [exact Eb|]].
    + unfold placed. apply in_concat. exists (placed_n (fst gr) nb). split; [|apply placed_n_head].
      apply in_map. rewrite El. apply in_or_app. right. right. apply in_or_app. right. left. reflexivity.
    + intros z Hz. rewrite ids_top, El.
      apply (before_flat_map ids_n l1 na l2 nb l3 a (tl (ids_n na)) z); [|exact Hz].
      rewrite <- Ea. apply ids_n_cons.
  - apply in_concat in Hin. destruct Hin as [l [Hl Hin]]. apply in_map_iff in Hl. destruct Hl as [n [<- Hn]].
    destruct (region_n n (fst gr) g old a b Hin Hab) as [nb [Hnb [Eb Hz]]]. exists nb.
    split; [|split; [exact Eb|]].
    + unfold placed. apply in_concat. exists (placed_n (fst gr) n). split; [apply in_map; exact Hn | exact Hnb].
    + intros z Hzn. rewrite ids_top. apply in_split in Hn. destruct Hn as [K1 [K2 ->]].
      rewrite flat_map_app. simpl. apply before_app_mid. apply Hz. exact Hzn.
Qed.

(* C12/Model.v — executable model of Graph.sort (src/onnx_ir/_core.py:3921-4021), of the flattening
   done by traversal.RecursiveGraphIterator, of Function.sort (delegates) and of TopologicalSortPass.

   A graph is a tree: a node carries its id, its inputs (None = missing optional input or a value
   without producer: graph input / initializer / outer value of a detached graph; Some p = value
   produced by node p, wherever p lives) and its attribute graphs in attribute order (GRAPH and
   GRAPHS attributes flattened; other attributes and reference attributes — including reference
   attributes of GRAPH/GRAPHS type, which have no value (skipped by `attr.is_ref()` since 86f4e6a) —
   contribute nothing),
   each with a graph id.  One subgraph object under two attributes cannot be expressed: it is
   outside the property's quantifier.

   Definitions only; everything here must keep running when a proof breaks. *)
From Coq Require Import ZArith List Bool Arith.
From IRV Require Import Base.Exn.
Import ListNotations.

Inductive node : Type :=
| Node (id : nat) (ins : list (option nat)) (subs : list (nat * list node)).

Definition graph : Type := (nat * list node)%type.      (* (graph id, node sequence) *)

Definition nid (n : node) : nat := match n with Node i _ _ => i end.
Definition nins (n : node) : list (option nat) := match n with Node _ i _ => i end.
Definition nsubs (n : node) : list graph := match n with Node _ _ s => s end.

Fixpoint somes {A} (l : list (option A)) : list A :=
  match l with [] => [] | Some x :: r => x :: somes r | None :: r => somes r end.

(* ---- RecursiveGraphIterator: the node, then every attribute graph in attribute order ---------- *)
(* entry = (node id, id of the graph the node is in (node.graph), raw predecessor candidates):
   producers of the inputs in input order, then the nodes directly in each attribute graph. *)
Definition entry : Type := (nat * nat * list nat)%type.
Definition e_id (e : entry) : nat := fst (fst e).
Definition e_graph (e : entry) : nat := snd (fst e).
Definition e_raw (e : entry) : list nat := snd e.

Fixpoint entries_n (g : nat) (n : node) : list entry :=
  match n with
  | Node i ins subs =>
      (i, g, somes ins ++ concat (map (fun s : nat * list node => map nid (snd s)) subs))
      :: concat (map (fun s : nat * list node =>
                        let '(gi, body) := s in concat (map (entries_n gi) body)) subs)
  end.
Definition entries (gr : graph) : list entry := concat (map (entries_n (fst gr)) (snd gr)).

(* every graph of the scope with its node sequence, the graph itself first *)
Fixpoint orders_n (n : node) : list (nat * list nat) :=
  match n with
  | Node _ _ subs =>
      concat (map (fun s : nat * list node =>
                     let '(gi, body) := s in (gi, map nid body) :: concat (map orders_n body)) subs)
  end.
Definition orders (gr : graph) : list (nat * list nat) :=
  (fst gr, map nid (snd gr)) :: concat (map orders_n (snd gr)).

(* ---- tables built by Graph.sort ------------------------------------------------------------- *)
Definition memb (x : nat) (l : list nat) : bool := existsb (Nat.eqb x) l.

Fixpoint index_of (x : nat) (l : list nat) : nat :=
  match l with [] => 0 | y :: r => if Nat.eqb x y then 0 else S (index_of x r) end.

Fixpoint lookup {A} (d : A) (x : nat) (l : list (nat * A)) : A :=
  match l with [] => d | (k, v) :: r => if Nat.eqb x k then v else lookup d x r end.

Definition flat_of (es : list entry) : list nat := map e_id es.
Definition owner_of (es : list entry) (x : nat) : nat :=
  lookup 0 x (map (fun e => (e_id e, e_graph e)) es).
(* add_predecessor: skipped when the producer is not in the flattened set *)
Definition preds_of (es : list entry) (x : nat) : list nat :=
  filter (fun p => memb p (flat_of es)) (lookup [] x (map (fun e => (e_id e, e_raw e)) es)).

Definition upd (d : nat -> Z) (k : nat) (v : Z) : nat -> Z :=
  fun j => if Nat.eqb j k then v else d j.

(* node_depth after step 1: one increment per recorded predecessor occurrence *)
Definition depth0 (flat : list nat) (preds : nat -> list nat) : nat -> Z :=
  fold_left (fun d p => upd d p (d p + 1)%Z) (concat (map preds flat)) (fun _ => 0%Z).

(* ---- the priority queue: only the contract of heapq is modelled — pop returns the entry with the
   minimum key (-index), i.e. the queued node with the largest original index (keys are distinct,
   so the node component of the tuple is never compared). *)
Fixpoint max_by (idx : nat -> nat) (x : nat) (l : list nat) : nat :=
  match l with [] => x | y :: r => max_by idx (if idx x <? idx y then y else x) r end.
Fixpoint remove1 (x : nat) (l : list nat) : list nat :=
  match l with [] => [] | y :: r => if Nat.eqb x y then r else y :: remove1 x r end.
Definition pop_max (idx : nat -> nat) (q : list nat) : option (nat * list nat) :=
  match q with [] => None | x :: r => let m := max_by idx x r in Some (m, remove1 m q) end.

(* the loop body for one popped node: decrement every predecessor, push the ones reaching zero *)
Definition dec_step (st : (nat -> Z) * list nat) (p : nat) : (nat -> Z) * list nat :=
  let '(d, q) := st in
  let d' := upd d p (d p - 1)%Z in
  (d', if (d' p =? 0)%Z then p :: q else q).

(* step 3; `out` accumulates the popped nodes most recent first, i.e. reversed(sorted_nodes).
   Fuel = number of flattened nodes; None = out of fuel (proved unreachable: kahn_fuel_enough). *)
Fixpoint kahn (idx : nat -> nat) (preds : nat -> list nat) (fuel : nat)
         (d : nat -> Z) (q : list nat) (out : list nat) : option (list nat) :=
  match pop_max idx q with
  | None => Some out
  | Some (x, q') =>
      match fuel with
      | 0 => None
      | S f => let '(d', q'') := fold_left dec_step (preds x) (d, q') in
               kahn idx preds f d' q'' (x :: out)
      end
  end.

Definition kahn_run (flat : list nat) (preds : nat -> list nat) : option (list nat) :=
  let d0 := depth0 flat preds in
  kahn (fun x => index_of x flat) preds (length flat) d0
       (filter (fun x => (d0 x =? 0)%Z) flat) [].

(* ---- step 5: graph.extend(reversed(sorted_nodes)); DoublyLinkedSet.append moves a present
   element to the end *)
Definition relink (old : list nat) (new : list nat) : list nat :=
  fold_left (fun l x => remove1 x l ++ [x]) new old.

(* Graph.sort on the graph `gr`: (result, node order of every graph of the scope afterwards) *)
Definition sort_graph (gr : graph) : res unit * list (nat * list nat) :=
  let es := entries gr in
  let flat := flat_of es in
  match kahn_run flat (preds_of es) with
  | None => (Raise OtherError, orders gr)
  | Some out =>
      if Nat.eqb (length out) (length flat)
      then (Ok tt, map (fun go : nat * list nat =>
                          (fst go, relink (snd go)
                                     (filter (fun x => Nat.eqb (owner_of es x) (fst go)) out)))
                       (orders gr))
      else (Raise ValueError, orders gr)       (* raised before any graph is touched *)
  end.

(* Graph.sort called on the graph `t` somewhere inside the forest `root` (t = the root itself, a subgraph, a graph
   nested in a function body): only the scope of t is flattened and re-linked; the result lists the node order
   of EVERY graph of root afterwards. *)
Fixpoint find_n (t : nat) (n : node) : option graph :=
  match n with
  | Node _ _ subs =>
      (fix go (l : list (nat * list node)) : option graph :=
         match l with
         | [] => None
         | s :: r =>
             if Nat.eqb (fst s) t then Some s
             else match (fix gob (b : list node) : option graph :=
                           match b with
                           | [] => None
                           | k :: b' => match find_n t k with Some g => Some g | None => gob b' end
                           end) (snd s) with
                  | Some g => Some g
                  | None => go r
                  end
         end) subs
  end.
Fixpoint find_first (t : nat) (b : list node) : option graph :=
  match b with [] => None | k :: b' => match find_n t k with Some g => Some g | None => find_first t b' end end.
Definition find_graph (t : nat) (root : graph) : option graph :=
  if Nat.eqb (fst root) t then Some root else find_first t (snd root).

Fixpoint lookup_opt {A} (x : nat) (l : list (nat * A)) : option A :=
  match l with [] => None | (k, v) :: r => if Nat.eqb x k then Some v else lookup_opt x r end.

Definition sort_in (root : graph) (t : nat) : res unit * list (nat * list nat) :=
  match find_graph t root with
  | None => (Raise OtherError, orders root)
  | Some sub =>
      let '(r, os) := sort_graph sub in
      (r, map (fun go : nat * list nat =>
                 match lookup_opt (fst go) os with Some l => (fst go, l) | None => go end) (orders root))
  end.

(* Function.sort = Graph.sort of the function's graph. *)
Definition sort_function (gr : graph) := sort_graph gr.

(* TopologicalSortPass.call: the main graph, then every function, stopping at the first ValueError;
   modified: see sort_pass below. *)
Fixpoint sort_units (us : list graph) : res unit * list (list (nat * list nat)) :=
  match us with
  | [] => (Ok tt, [])
  | u :: r =>
      match sort_graph u with
      | (Ok _, o) => let '(rr, os) := sort_units r in (rr, o :: os)
      | (Raise e, o) => (Raise e, o :: map orders r)
      end
  end.
(* list(RecursiveGraphIterator(g)) once the graphs have the node sequences `ord`: the block of every
   node (the node, then its attribute graphs in attribute order) arranged by the graph's sequence *)
Fixpoint flat_new_n (ord : nat -> list nat) (n : node) : list nat :=
  match n with
  | Node i _ subs =>
      i :: concat (map (fun s : nat * list node =>
                          let '(gi, body) := s in
                          concat (map (fun x => lookup [] x (map (fun k => (nid k, flat_new_n ord k)) body))
                                      (ord gi))) subs)
  end.
Definition flat_new (gr : graph) (o : list (nat * list nat)) : list nat :=
  let ord := fun g => lookup [] g o in
  concat (map (fun x => lookup [] x (map (fun k => (nid k, flat_new_n ord k)) (snd gr))) (ord (fst gr))).
(* `for node, new_node in zip(original_nodes, sorted_nodes): if node is not new_node` *)
Fixpoint zip_differs (a b : list nat) : bool :=
  match a, b with
  | x :: a', y :: b' => negb (Nat.eqb x y) || zip_differs a' b'
  | _, _ => false
  end.
Fixpoint flat_all (us : list graph) (os : list (list (nat * list nat))) : list nat :=
  match us, os with
  | u :: us', o :: os' => flat_new u o ++ flat_all us' os'
  | _, _ => []
  end.
(* since 733a9c1: modified = some position of the concatenated recursive node sequences (main graph, then
   every function) holds another node after the sorts *)
Definition sort_pass (us : list graph) : res bool * list (list (nat * list nat)) :=
  match sort_units us with
  | (Ok _, os) => (Ok (zip_differs (flat_all us (map orders us)) (flat_all us os)), os)
  | (Raise e, os) => (Raise e, os)
  end.

(* C12/Proofs4.v — stability, part 1: list and tree facts. *)
From Coq Require Import ZArith List Bool Arith Lia Permutation Relations.
From IRV Require Import Base.Exn C12.Model C12.Proofs1 C12.Proofs2 C12.Proofs3.
Import ListNotations.

(* ---- before ---------------------------------------------------------------------------------------- *)
Lemma before_total (x y : nat) l : In x l -> In y l -> x <> y -> before x y l \/ before y x l.
Proof.
  intros Hx Hy Hne. apply in_split in Hx. destruct Hx as [l1 [l2 ->]].
  apply in_app_or in Hy. destruct Hy as [Hy|[Hy|Hy]]; [|congruence|].
  - right. apply before_of_split. exact Hy.
  - left. apply in_split in Hy. destruct Hy as [k1 [k2 ->]]. exists l1, k1, k2. reflexivity.
Qed.

Lemma before_asym (x y : nat) l : NoDup l -> before x y l -> ~ before y x l.
Proof.
  intros Hnd H1 H2. apply (before_irrefl_nodup x x l Hnd); [|reflexivity].
  apply (before_trans x y x l Hnd H1 H2).
Qed.

Lemma before_app_mid a b (l m r : list nat) : before a b m -> before a b (l ++ m ++ r).
Proof.
  intros [l1 [l2 [l3 ->]]]. exists (l ++ l1), l2, (l3 ++ r).
  rewrite <- !app_assoc. simpl. rewrite <- !app_assoc. reflexivity.
Qed.

Lemma before_cons_inv a b x (l : list nat) : before a b (x :: l) -> a <> x -> before a b l.
Proof.
  intros [l1 [l2 [l3 E]]] Hne. destruct l1 as [|y l1]; simpl in E; injection E as E1 E2; [congruence|].
  exists l1, l2, l3. exact E2.
Qed.

Lemma before_cons a b x (l : list nat) : before a b l -> before a b (x :: l).
Proof. intros [l1 [l2 [l3 ->]]]. exists (x :: l1), l2, l3. reflexivity. Qed.

Lemma before_head a b (l : list nat) : In b l -> before a b (a :: l).
Proof. intros H. apply in_split in H. destruct H as [k1 [k2 ->]]. exists [], k1, k2. reflexivity. Qed.

(* two duplicate-free arrangements of the same elements with the same "before" are equal *)
Lemma same_before_eq : forall l l' : list nat,
  NoDup l -> NoDup l' -> Permutation l' l ->
  (forall x y, before x y l -> before x y l') -> l' = l.
Proof.
  induction l as [|a l IH]; intros l' Hnd Hnd' Hp Hb.
  - apply Permutation_nil. apply Permutation_sym. exact Hp.
  - destruct l' as [|b l']; [apply Permutation_nil_cons in Hp; destruct Hp|].
    assert (Hab : b = a).
    { destruct (Nat.eq_dec b a) as [E|Hne]; [exact E|]. exfalso.
      assert (Hal' : In a l').
      { assert (H : In a (b :: l')) by (apply (Permutation_in _ (Permutation_sym Hp)); left; reflexivity).
        destruct H as [H|H]; [congruence | exact H]. }
      assert (Hbl : In b l).
      { assert (H : In b (a :: l)) by (apply (Permutation_in _ Hp); left; reflexivity).
        destruct H as [H|H]; [congruence | exact H]. }
      apply (before_asym b a (b :: l') Hnd'); [apply before_head; exact Hal'|].
      apply Hb. apply before_head. exact Hbl. }
    subst b. f_equal. inversion Hnd as [|? ? Hna Hnd1]; inversion Hnd' as [|? ? Hna' Hnd1']; subst.
    apply IH; [exact Hnd1 | exact Hnd1' | apply (Permutation_cons_inv Hp)|].
    intros x y Hxy. apply (before_cons_inv x y a); [apply Hb; apply before_cons; exact Hxy|].
    intros ->. apply Hna. apply before_In in Hxy. tauto.
Qed.

Lemma index_of_app_notin x (l1 l2 : list nat) : ~ In x l1 -> index_of x (l1 ++ l2) = length l1 + index_of x l2.
Proof.
  induction l1 as [|a l1 IH]; intros Hn; simpl; [reflexivity|].
  destruct (Nat.eqb x a) eqn:E; [apply Nat.eqb_eq in E; subst; exfalso; apply Hn; left; reflexivity|].
  rewrite IH; [reflexivity | intros H; apply Hn; right; exact H].
Qed.

Lemma before_index x y l : NoDup l -> before x y l -> index_of x l < index_of y l.
Proof.
  intros Hnd [l1 [l2 [l3 ->]]].
  assert (Hx1 : ~ In x l1) by (apply NoDup_remove_2 in Hnd; intros H; apply Hnd; apply in_or_app; left; exact H).
  assert (Hy : ~ In y (l1 ++ x :: l2)).
  { replace (l1 ++ x :: l2 ++ y :: l3) with ((l1 ++ x :: l2) ++ y :: l3) in Hnd by (rewrite <- app_assoc; reflexivity).
    apply NoDup_remove_2 in Hnd. intros H. apply Hnd. apply in_or_app. left. exact H. }
  rewrite (index_of_app_notin x l1 _ Hx1). simpl. rewrite Nat.eqb_refl.
  replace (l1 ++ x :: l2 ++ y :: l3) with ((l1 ++ x :: l2) ++ y :: l3) by (rewrite <- app_assoc; reflexivity).
  rewrite (index_of_app_notin y _ _ Hy). rewrite app_length. simpl. lia.
Qed.

Lemma before_map_inv {A} (f : A -> nat) a b (l : list A) : before a b (map f l) ->
  exists l1 na l2 nb l3, l = l1 ++ na :: l2 ++ nb :: l3 /\ f na = a /\ f nb = b.
Proof.
  intros [m1 [m2 [m3 E]]].
  apply map_eq_app in E. destruct E as [l1 [r1 [-> [E1 E]]]].
  destruct r1 as [|na r1]; [discriminate|]. simpl in E. injection E as Ea E.
  apply map_eq_app in E. destruct E as [l2 [r2 [-> [E2 E]]]].
  destruct r2 as [|nb l3]; [discriminate|]. simpl in E. injection E as Eb E.
  exists l1, na, l2, nb, l3. repeat split; assumption.
Qed.

(* ---- NoDup over flat_map -------------------------------------------------------------------------- *)
Lemma nodup_flat_map_inj {A} (f : A -> list nat) (l : list A) a b x :
  NoDup (flat_map f l) -> In a l -> In b l -> In x (f a) -> In x (f b) -> a = b.
Proof.
  induction l as [|c l IH]; intros Hnd Ha Hb Hxa Hxb; [destruct Ha|].
  simpl in Hnd. apply nodup_app_iff in Hnd. destruct Hnd as [_ [Hnd Hdis]].
  destruct Ha as [->|Ha], Hb as [->|Hb].
  - reflexivity.
  - exfalso. apply (Hdis x Hxa). apply in_flat_map. exists b. split; assumption.
  - exfalso. apply (Hdis x Hxb). apply in_flat_map. exists a. split; assumption.
  - apply IH; assumption.
Qed.

Lemma nodup_flat_map_elem {A} (f : A -> list nat) (l : list A) a :
  NoDup (flat_map f l) -> In a l -> NoDup (f a).
Proof.
  induction l as [|c l IH]; intros Hnd Ha; [destruct Ha|].
  simpl in Hnd. apply nodup_app_iff in Hnd. destruct Hnd as [H1 [H2 _]].
  destruct Ha as [->|Ha]; [exact H1 | apply IH; assumption].
Qed.

(* ---- ids of a subtree -------------------------------------------------------------------------------- *)
Definition ids_n (n : node) : list nat := map nid (desc_n n).

Lemma desc_n_eq n : desc_n n = n :: flat_map (fun gk => desc_n (snd gk)) (sub_nodes n).
Proof.
  unfold desc_n. rewrite placed_n_eq. simpl. f_equal.
  induction (sub_nodes n) as [|gk l IH]; simpl; [reflexivity|].
  rewrite map_app, IH. f_equal. apply placed_n_snd.
Qed.

Lemma ids_n_eq n : ids_n n = nid n :: flat_map (fun gk => ids_n (snd gk)) (sub_nodes n).
Proof.
  unfold ids_n. rewrite desc_n_eq. simpl. f_equal.
  induction (sub_nodes n) as [|gk l IH]; simpl; [reflexivity|]. rewrite map_app, IH. reflexivity.
Qed.

Lemma ids_placed_n g n : map (fun gn => nid (snd gn)) (placed_n g n) = ids_n n.
Proof. unfold ids_n, desc_n. rewrite map_map. rewrite <- (map_map snd nid), <- (map_map snd nid (placed_n 0 n)).
  rewrite (placed_n_snd g 0). reflexivity. Qed.

Lemma ids_top gr : ids gr = flat_map ids_n (snd gr).
Proof.
  unfold ids, placed. induction (snd gr) as [|n l IH]; simpl; [reflexivity|].
  rewrite map_app, IH, ids_placed_n. reflexivity.
Qed.

Lemma placed_inj gr g1 n1 g2 n2 : NoDup (ids gr) ->
  In (g1, n1) (placed gr) -> In (g2, n2) (placed gr) -> nid n1 = nid n2 -> (g1, n1) = (g2, n2).
Proof.
  unfold ids. intros Hnd H1 H2 E.
  assert (Hinj : forall (l : list (nat * node)) a b,
             NoDup (map (fun gn => nid (snd gn)) l) -> In a l -> In b l -> nid (snd a) = nid (snd b) -> a = b).
  { clear. induction l as [|c l IH]; intros a b Hnd Ha Hb E; [destruct Ha|].
    simpl in Hnd. inversion Hnd as [|? ? Hn Hnd']; subst.
    destruct Ha as [->|Ha], Hb as [->|Hb]; try reflexivity.
    - exfalso. apply Hn. rewrite E. apply (in_map (fun gn => nid (snd gn))). exact Hb.
    - exfalso. apply Hn. rewrite <- E. apply (in_map (fun gn => nid (snd gn))). exact Ha.
    - apply IH; assumption. }
  apply (Hinj (placed gr) (g1, n1) (g2, n2) Hnd H1 H2 E).
Qed.

Lemma placed_n_incl gr : forall n g, In (g, n) (placed gr) -> incl (placed_n g n) (placed gr).
Proof.
  apply (node_ind_sub (fun n => forall g, In (g, n) (placed gr) -> incl (placed_n g n) (placed gr))).
  intros n IH g Hpl x Hx. rewrite placed_n_eq in Hx. destruct Hx as [<-|Hx]; [exact Hpl|].
  apply in_flat_map in Hx. destruct Hx as [gk [Hgk Hx]].
  apply (IH gk Hgk (fst gk)); [|exact Hx].
  destruct gk as [gi k]. apply (placed_sub gr g n (gi, k) Hpl Hgk).
Qed.

Lemma desc_n_placed_n g n m : In m (desc_n n) -> exists g', In (g', m) (placed_n g n).
Proof.
  unfold desc_n. intros H. apply in_map_iff in H. destruct H as [[g' m'] [E H]]. simpl in E. subst m'.
  rewrite placed_n_eq in H. destruct H as [E|H].
  - injection E as _ <-. exists g. apply placed_n_head.
  - exists g'. rewrite placed_n_eq. right. exact H.
Qed.

Lemma desc_n_trans : forall n a m, In a (desc_n n) -> In m (desc_n a) -> In m (desc_n n).
Proof.
  apply (node_ind_sub (fun n => forall a m, In a (desc_n n) -> In m (desc_n a) -> In m (desc_n n))).
  intros n IH a m Ha Hm. apply desc_n_cases in Ha. destruct Ha as [->|[gk [Hgk Ha]]]; [exact Hm|].
  apply desc_n_cases. right. exists gk. split; [exact Hgk | apply (IH gk Hgk a m Ha Hm)].
Qed.

Lemma desc_n_self n : In n (desc_n n).
Proof. apply desc_n_cases. left. reflexivity. Qed.

(* C12/GenEquiv.v — the pieces translated from the source of Graph.sort on every run (Gen/C12Gen.v), plugged into
   the parametrised algorithm C12/GenModel.gsort, compute exactly Model.sort_graph, the function every C12 theorem
   is about.  A change of the key (-i), of an increment / decrement / test, of the cycle test, of the exception, of
   the order "check, then re-link" or of the reversal changes gen_src and this proof no longer goes through. *)
From Coq Require Import ZArith List Bool.
From IRV Require Import Base.Exn C12.Model C12.GenModel Gen.C12Gen.

Theorem gen_sort_is_model : forall gr, gsort gen_src gr = sort_graph gr.
Proof. apply gsort_eq_model; intros; reflexivity. Qed.

(* ---- step 1: the translated predecessor-collection loop computes the model's predecessor list ----------- *)
From Coq Require Import Arith Lia.
From IRV Require Import C12.Proofs1 C12.Proofs2 C12.Proofs3.
Import ListNotations.

Local Arguments gen_add : simpl never.

Lemma gen_add_list scope (l : list nat) : forall acc,
  fold_left (fun acc q => gen_add scope acc (Some q)) l acc = acc ++ filter scope l.
Proof.
  induction l as [|q l IH]; intros acc; simpl; [rewrite app_nil_r; reflexivity|].
  rewrite IH. unfold gen_add. destruct (scope q); [rewrite <- app_assoc; reflexivity | reflexivity].
Qed.

Lemma gen_inputs_spec scope (ins : list pyin) : forall acc,
  gen_inputs scope acc ins = acc ++ filter scope (somes (map view_in ins)).
Proof.
  unfold gen_inputs. induction ins as [|iv ins IH]; intros acc; simpl; [rewrite app_nil_r; reflexivity|].
  rewrite IH. destruct iv as [|[q|]]; unfold gen_add; simpl; try reflexivity.
  destruct (scope q); [rewrite <- app_assoc; reflexivity | reflexivity].
Qed.

Lemma gen_add_lists scope (ls : list (list nat)) : forall acc,
  fold_left (fun acc l => fold_left (fun acc q => gen_add scope acc (Some q)) l acc) ls acc
  = acc ++ filter scope (concat ls).
Proof.
  induction ls as [|l ls IH]; intros acc; simpl; [rewrite app_nil_r; reflexivity|].
  rewrite IH, gen_add_list, filter_app, <- app_assoc. reflexivity.
Qed.

Lemma gen_attrs_spec scope (ats : list pyat) : forall acc,
  gen_attrs scope acc ats = acc ++ filter scope (concat (concat (map view_at ats))).
Proof.
  unfold gen_attrs. induction ats as [|a ats IH]; intros acc; [simpl; rewrite app_nil_r; reflexivity|].
  cbn [fold_left map concat]. rewrite IH, concat_app, filter_app, app_assoc. f_equal.
  destruct a as [| |l|ls]; cbn [view_at concat].
  - rewrite app_nil_r. reflexivity.
  - rewrite app_nil_r. reflexivity.
  - rewrite gen_add_list, app_nil_r. reflexivity.
  - apply gen_add_lists.
Qed.

Theorem gen_collect_spec scope ins ats :
  gen_collect scope ins ats = filter scope (somes (map view_in ins) ++ concat (concat (map view_at ats))).
Proof.
  unfold gen_collect. rewrite gen_attrs_spec, gen_inputs_spec, filter_app. reflexivity.
Qed.

(* for a node n of the scope whose Python-level view is (ins, ats) *)
Theorem gen_collect_is_model gr g n ins ats :
  NoDup (ids gr) -> In (g, n) (placed gr) ->
  map view_in ins = nins n ->
  concat (map view_at ats) = map (fun s : nat * list node => map nid (snd s)) (nsubs n) ->
  gen_collect (fun p => memb p (ids gr)) ins ats = preds_of (entries gr) (nid n).
Proof.
  intros Hnd Hpl Hi Ha. rewrite gen_collect_spec, Hi, Ha.
  rewrite (preds_placed gr g n Hnd Hpl). reflexivity.
Qed.

(* C12/GenEquiv.v — the pieces translated from the source of Graph.sort on every run (Gen/C12Gen.v), plugged into
   the parametrised algorithm C12/GenModel.gsort, compute exactly Model.sort_graph, the function every C12 theorem
   is about.  A change of the key (-i), of an increment / decrement / test, of the cycle test, of the exception, of
   the order "check, then re-link" or of the reversal changes gen_src and this proof no longer goes through. *)
From Coq Require Import ZArith List Bool.
From IRV Require Import Base.Exn C12.Model C12.GenModel Gen.C12Gen.

Theorem gen_sort_is_model : forall gr, gsort gen_src gr = sort_graph gr.
Proof. apply gsort_eq_model; intros; reflexivity. Qed.

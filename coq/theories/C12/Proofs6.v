(* C12/Proofs6.v — stability: an already ordered, well-scoped scope is left exactly as it was. *)
From Coq Require Import ZArith List Bool Arith Lia Permutation Relations.
From IRV Require Import Base.Exn C12.Model C12.Proofs1 C12.Proofs2 C12.Proofs3 C12.Proofs4 C12.Proofs5.
Import ListNotations.

(* every node of every graph comes after the producers, located in the same graph, of every value used
   by it or by any node nested inside it (the conclusion of sort_respects_deps, about the old orders) *)
Definition ordered (gr : graph) : Prop :=
  forall g n m p old,
    In (g, n) (placed gr) -> In m (desc_n n) -> In (Some p) (nins m) ->
    (exists n', In (g, n') (placed gr) /\ nid n' = p) ->
    In (g, old) (orders gr) -> before p (nid n) old.

(* a used value produced inside the scope is produced in the user's graph or in a graph enclosing it:
   the producer's graph holds a node a whose subtree contains the user (a = the user itself when the
   two are in the same graph) *)
Definition well_scoped (gr : graph) : Prop :=
  forall g m p, In (g, m) (placed gr) -> In (Some p) (nins m) -> In p (ids gr) ->
    exists g' np a, In (g', np) (placed gr) /\ nid np = p /\ In (g', a) (placed gr) /\ In m (desc_n a).

Lemma dec_forall_exists (P : nat -> Prop) (l : list nat) :
  (forall u, {P u} + {~ P u}) -> (forall u, In u l -> P u) \/ (exists u, In u l /\ ~ P u).
Proof.
  intros Hdec. induction l as [|a l IH]; [left; intros u []|].
  destruct (Hdec a) as [Ha|Ha]; [|right; exists a; split; [left; reflexivity | exact Ha]].
  destruct IH as [IH|[u [Hu Hn]]]; [|right; exists u; split; [right; exact Hu | exact Hn]].
  left. intros u [<-|Hu]; [exact Ha | apply IH; exact Hu].
Qed.

Lemma placed_n_split g n x : In x (placed_n g n) -> x = (g, n) \/ In x (tl (placed_n g n)).
Proof. rewrite placed_n_eq. simpl. intros [H|H]; [left; symmetry; exact H | right; exact H]. Qed.

Lemma placed_n_desc g n g' m : In (g', m) (placed_n g n) -> In m (desc_n n).
Proof.
  intros H. unfold desc_n. rewrite (placed_n_snd 0 g). apply in_map_iff. exists (g', m). split; [reflexivity | exact H].
Qed.

Section Stable.
Variable gr : graph.
Hypothesis Hwf : wf gr.
Hypothesis Hsc : well_scoped gr.
Hypothesis Hord : ordered gr.

Variable g : nat.
Variable old : list nat.
Hypothesis Hold : In (g, old) (orders gr).
Variable ny : node.
Hypothesis Hny : In (g, ny) (placed gr).

Lemma Hnd : NoDup (ids gr).
Proof. exact (proj1 Hwf). Qed.
Lemma Hgids : NoDup (map fst (orders gr)).
Proof. exact (proj1 (proj2 Hwf)). Qed.

Lemma old_nodup : NoDup old.
Proof. destruct Hwf as [_ [_ H]]. rewrite Forall_forall in H. apply (H (g, old) Hold). Qed.

(* n2 is a node of graph g at or after ny *)
Definition after_y (n2 : node) : Prop :=
  In (g, n2) (placed gr) /\ (n2 = ny \/ before (nid ny) (nid n2) old).
(* z is the id of a node in the subtree of such a node *)
Definition inS (z : nat) : Prop :=
  exists n2 gz z', after_y n2 /\ In (gz, z') (placed_n g n2) /\ nid z' = z.

Lemma inS_closed z gu nu : inS z -> In (gu, nu) (placed gr) -> In z (raw_of nu) ->
  inS (nid nu) \/ exists gk, In gk (sub_nodes nu) /\ fst gk = g.
Proof.
  intros [n2 [gz [z' [[Hn2 Haft] [Hz' Ez]]]]] Hnu Hraw.
  assert (Hz'p : In (gz, z') (placed gr)) by (apply (placed_n_incl gr n2 g Hn2); exact Hz').
  apply raw_of_In in Hraw. destruct Hraw as [Hin|[gk [Hgk Egk]]].
  - (* nu consumes a value produced by z' *)
    assert (Hzi : In z (ids gr)) by (apply ids_placed; exists gz, z'; split; assumption).
    destruct (Hsc gu nu z Hnu Hin Hzi) as [g' [np [a [Hnp [Enp [Ha Hnua]]]]]].
    assert (E : (g', np) = (gz, z')) by (apply (placed_inj gr g' np gz z' Hnd Hnp Hz'p); congruence).
    injection E as -> ->. left.
    destruct (placed_n_split g n2 _ Hz') as [E|Ht].
    + injection E as -> ->.
      assert (Hb : before (nid n2) (nid a) old).
      { apply (Hord g a nu (nid n2) old Ha Hnua); [rewrite Ez; exact Hin | | exact Hold].
        exists n2. split; [exact Hn2 | reflexivity]. }
      destruct (desc_n_placed_n g a nu Hnua) as [g'' Hg''].
      exists a, g'', nu. split; [|split; [exact Hg'' | reflexivity]].
      split; [exact Ha|]. right. destruct Haft as [->|Haft]; [exact Hb|].
      apply (before_trans _ (nid n2) _ old old_nodup Haft Hb).
    + pose proof (same_graph_inside gr g n2 gz z' a Hwf Hn2 Ht Ha) as Ha2.
      assert (Hnu2 : In nu (desc_n n2)).
      { apply (desc_n_trans n2 a nu); [apply (placed_n_desc g n2 gz a Ha2) | exact Hnua]. }
      destruct (desc_n_placed_n g n2 nu Hnu2) as [g'' Hg''].
      exists n2, g'', nu. split; [split; assumption|]. split; [exact Hg'' | reflexivity].
  - (* z' is directly inside an attribute graph of nu *)
    assert (Hgkp : In (fst gk, snd gk) (placed gr)).
    { destruct gk as [gi k]. apply (placed_sub gr gu nu (gi, k) Hnu Hgk). }
    assert (E : (fst gk, snd gk) = (gz, z')) by (apply (placed_inj gr _ _ gz z' Hnd Hgkp Hz'p); congruence).
    destruct (placed_n_split g n2 _ Hz') as [E2|Ht].
    + right. exists gk. split; [exact Hgk|]. injection E2 as <- _. injection E as E _. exact E.
    + left. destruct (strict_has_parent n2 g gz z' Ht) as [gq [q [Hq Hzq]]].
      assert (Hqp : In (gq, q) (placed gr)) by (apply (placed_n_incl gr n2 g Hn2); exact Hq).
      assert (E3 : (gq, q) = (gu, nu)).
      { apply (parent_unique gr gq q gu nu (gz, z') gk Hnd Hqp Hnu Hzq Hgk). simpl. congruence. }
      injection E3 as -> ->. exists n2, gu, nu. split; [split; assumption|]. split; [exact Hq | reflexivity].
Qed.

(* a node having an attribute graph with id g uses every node of graph g *)
Lemma encloser_uses_all gu nu gk nx : In (gu, nu) (placed gr) -> In gk (sub_nodes nu) -> fst gk = g ->
  In (g, nx) (placed gr) -> In (nid nx) (raw_of nu).
Proof.
  intros Hnu Hgk Eg Hnx. apply sub_nodes_In in Hgk. destruct Hgk as [s [Hs [Es Hk]]].
  assert (Ho : In (g, map nid (snd s)) (orders gr)).
  { apply (orders_n_incl gr gu nu Hnu). apply orders_n_In. left. exists s. split; [exact Hs|]. congruence. }
  destruct (placed_orders gr g nx Hnx) as [old' [Ho' Hin]].
  rewrite (assoc_unique (orders gr) g old' (map nid (snd s)) Hgids Ho' Ho) in Hin.
  apply in_map_iff in Hin. destruct Hin as [k' [Ek' Hk']].
  apply raw_of_In. right. exists (fst s, k'). split; [|exact Ek'].
  apply sub_nodes_In. exists s. repeat split; assumption.
Qed.

Lemma inS_ids z : inS z -> In z (ids gr).
Proof.
  intros [n2 [gz [z' [[Hn2 _] [Hz' Ez]]]]]. apply ids_placed. exists gz, z'. split; [|exact Ez].
  apply (placed_n_incl gr n2 g Hn2). exact Hz'.
Qed.

(* every element of S comes after x in the flattened order *)
Lemma inS_after x nx z : In (g, nx) (placed gr) -> nid nx = x -> before x (nid ny) old -> inS z ->
  before x z (ids gr).
Proof.
  intros Hnx Ex Hxy [n2 [gz [z' [[Hn2 Haft] [Hz' Ez]]]]].
  assert (Hb : before x (nid n2) old).
  { destruct Haft as [->|Haft]; [exact Hxy | apply (before_trans _ (nid ny) _ old old_nodup Hxy Haft)]. }
  destruct (region gr g old x (nid n2) Hold Hb) as [nb [Hnb [Eb Hz]]].
  assert (E : (g, nb) = (g, n2)) by (apply (placed_inj gr g nb g n2 Hnd Hnb Hn2 Eb)).
  injection E as ->. apply Hz. rewrite <- (ids_placed_n g n2), <- Ez.
  apply (in_map (fun gn : nat * node => nid (snd gn)) _ (gz, z')). exact Hz'.
Qed.

Variable out : list nat.
Hypothesis HF : Final (tflat gr) (tpreds gr) (tidx gr) out.
Hypothesis Htopo : topo (tflat gr) (tpreds gr) out.

Lemma out_nodup : NoDup out.
Proof. exact (proj1 HF). Qed.

Lemma stable_pair nx : In (g, nx) (placed gr) -> before (nid nx) (nid ny) old ->
  before (nid nx) (nid ny) out.
Proof.
  intros Hnx Hxy. set (x := nid nx) in *. set (y := nid ny) in *.
  assert (Hxo : In x out).
  { apply (Permutation_in _ (Permutation_sym (proj1 Htopo))). unfold tflat. rewrite flat_ids.
    apply ids_placed. exists g, nx. split; [exact Hnx | reflexivity]. }
  assert (Hyo : In y out).
  { apply (Permutation_in _ (Permutation_sym (proj1 Htopo))). unfold tflat. rewrite flat_ids.
    apply ids_placed. exists g, ny. split; [exact Hny | reflexivity]. }
  assert (Hne : x <> y) by (apply (before_irrefl_nodup x y old old_nodup Hxy)).
  destruct (before_total x y out Hxo Hyo Hne) as [H|H]; [exact H|]. exfalso.
  destruct H as [l1 [l2 [l3 Eout]]].
  destruct HF as [Hndo [Hincl [_ [Husers Hmax]]]].
  assert (Esplit : out = (l1 ++ y :: l2) ++ x :: l3) by (rewrite <- app_assoc; exact Eout).
  (* all users of x were popped before x *)
  assert (Hxusers : forall u, In u (tflat gr) -> In x (tpreds gr u) -> In u l3)
    by (apply (Husers (l1 ++ y :: l2) x l3 Esplit)).
  assert (Hflat : forall u, In u (tflat gr) <-> In u (ids gr)) by (intros u; unfold tflat; rewrite flat_ids; tauto).
  (* some element of S is unpopped and ready when x is popped *)
  assert (Hfind : forall k z, inS z -> ~ In z l3 -> length out - index_of z out <= k ->
            exists z', inS z' /\ ~ In z' l3 /\ forall u, In u (tflat gr) -> In z' (tpreds gr u) -> In u l3).
  { induction k as [|k IH]; intros z HzS Hz3 Hk.
    - exfalso. assert (Hzo : In z out).
      { apply (Permutation_in _ (Permutation_sym (proj1 Htopo))). apply Hflat. apply inS_ids. exact HzS. }
      apply in_split in Hzo. destruct Hzo as [a1 [a2 Ea]].
      assert (index_of z out < length out); [|lia].
      rewrite Ea. rewrite index_of_app_notin.
      + simpl. rewrite Nat.eqb_refl. rewrite app_length. simpl. lia.
      + rewrite Ea in Hndo. apply NoDup_remove_2 in Hndo. intros Hi. apply Hndo. apply in_or_app. left. exact Hi.
    - destruct (dec_forall_exists (fun u => In z (tpreds gr u) -> In u l3) (tflat gr)) as [Hall|[u [Hu Hnot]]].
      + intros u. destruct (in_dec Nat.eq_dec z (tpreds gr u)) as [H1|H1].
        * destruct (in_dec Nat.eq_dec u l3) as [H2|H2]; [left; intros _; exact H2 | right; intros H; apply H2; apply H; exact H1].
        * left. intros H. contradiction.
      + exists z. split; [exact HzS|]. split; [exact Hz3 | exact Hall].
      + assert (Hzu : In z (tpreds gr u)).
        { destruct (in_dec Nat.eq_dec z (tpreds gr u)) as [H1|H1]; [exact H1|]. exfalso. apply Hnot. intros H. contradiction. }
        assert (Hu3 : ~ In u l3) by (intros H; apply Hnot; intros _; exact H).
        pose proof Hu as Hu'. apply Hflat, ids_placed in Hu'. destruct Hu' as [gu [nu [Hnu Enu]]].
        assert (Hraw : In z (raw_of nu)).
        { unfold tpreds in Hzu. rewrite <- Enu, (preds_placed gr gu nu Hnd Hnu) in Hzu.
          apply filter_In in Hzu. tauto. }
        destruct (inS_closed z gu nu HzS Hnu Hraw) as [HuS|[gk [Hgk Eg]]].
        * rewrite Enu in HuS. apply (IH u HuS Hu3).
          assert (Hb : before z u out).
          { apply (topo_before (tflat gr) (tpreds gr)); [intros a b; apply preds_in_flat | exact Htopo | exact Hu | exact Hzu]. }
          apply (before_index z u out Hndo) in Hb. lia.
        * exfalso. apply Hu3. apply Hxusers; [exact Hu|].
          unfold tpreds. rewrite <- Enu, (preds_placed gr gu nu Hnd Hnu). apply filter_In. split.
          -- apply (encloser_uses_all gu nu gk nx Hnu Hgk Eg Hnx).
          -- apply memb_In. apply ids_placed. exists g, nx. split; [exact Hnx | reflexivity]. }
  assert (HyS : inS y).
  { exists ny, g, ny. split; [split; [exact Hny | left; reflexivity]|]. split; [apply placed_n_head | reflexivity]. }
  assert (Hy3 : ~ In y l3).
  { rewrite Eout in Hndo. apply NoDup_remove_2 in Hndo. intros H. apply Hndo.
    apply in_or_app. right. apply in_or_app. right. right. exact H. }
  destruct (Hfind (length out) y HyS Hy3) as [z [HzS [Hz3 Hready]]]; [lia|].
  assert (Hle : tidx gr z <= tidx gr x).
  { apply (Hmax (l1 ++ y :: l2) x l3 Esplit z); [apply Hflat; apply inS_ids; exact HzS | exact Hz3 | exact Hready]. }
  assert (Hlt : index_of x (ids gr) < index_of z (ids gr)).
  { apply before_index; [exact Hnd|]. apply (inS_after x nx z Hnx eq_refl Hxy HzS). }
  unfold tidx, tflat in Hle. rewrite flat_ids in Hle. lia.
Qed.

End Stable.

Theorem sort_stable gr : wf gr -> well_scoped gr -> ordered gr -> snd (sort_graph gr) = orders gr.
Proof.
  intros Hwf Hsc Hord. destruct (sort_graph gr) as [r os] eqn:Hs. simpl.
  destruct r as [[]|e]; [|apply (sort_atomic gr e os Hs)].
  pose proof Hwf as [Hnd [Hg Hno]].
  destruct (ok_out gr os Hwf Hs) as [out [HF [Ht ->]]].
  assert (Hperm : Permutation out (ids gr)) by (rewrite <- flat_ids; exact (proj1 Ht)).
  unfold new_orders. rewrite <- (map_id (orders gr)) at 2. apply map_ext_in. intros [g old] Hin. simpl.
  f_equal. rewrite (new_orders_value gr out g old Hwf Hperm Hin).
  assert (Hndold : NoDup old) by (rewrite Forall_forall in Hno; apply (Hno (g, old) Hin)).
  apply same_before_eq.
  - exact Hndold.
  - apply NoDup_filter. exact (proj1 HF).
  - apply filter_owner_perm; assumption.
  - intros x y Hxy. pose proof (before_In x y old Hxy) as [Hx Hy].
    destruct (orders_placed gr g old Hin x Hx) as [nx [Hnx Ex]].
    destruct (orders_placed gr g old Hin y Hy) as [ny [Hny Ey]].
    apply before_filter; [apply Nat.eqb_eq; rewrite <- Ex; apply owner_placed; assumption
                         | apply Nat.eqb_eq; rewrite <- Ey; apply owner_placed; assumption |].
    rewrite <- Ex, <- Ey.
    apply (stable_pair gr Hwf Hsc Hord g old Hin ny Hny out HF Ht nx Hnx). rewrite Ex, Ey. exact Hxy.
Qed.

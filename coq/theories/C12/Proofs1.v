(* C12/Proofs1.v — the reverse Kahn loop over an abstract dependency table: invariant, fuel,
   what the final `out` satisfies. *)
From Coq Require Import ZArith List Bool Arith Lia Permutation.
From IRV Require Import Base.Exn C12.Model.
Import ListNotations.

Lemma memb_In x l : memb x l = true <-> In x l.
Proof.
  unfold memb. rewrite existsb_exists. split.
  - intros [y [Hy E]]. apply Nat.eqb_eq in E. subst. exact Hy.
  - intros H. exists x. split; [exact H | apply Nat.eqb_refl].
Qed.

Lemma memb_false x l : memb x l = false <-> ~ In x l.
Proof.
  rewrite <- memb_In. destruct (memb x l); split; intros H; congruence.
Qed.

(* ---- remove1 / pop_max ---------------------------------------------------------------------- *)
Lemma remove1_In_nodup x l : NoDup l -> forall y, In y (remove1 x l) <-> In y l /\ y <> x.
Proof.
  induction l as [|a l IH]; intros Hnd y; simpl.
  - tauto.
  - inversion Hnd as [|? ? Hna Hnd']; subst.
    destruct (Nat.eqb x a) eqn:E.
    + apply Nat.eqb_eq in E. subst a. split.
      * intros Hy. split; [right; exact Hy | intros ->; contradiction].
      * intros [[->|Hy] Hne]; [congruence | exact Hy].
    + apply Nat.eqb_neq in E. simpl. rewrite (IH Hnd' y). split.
      * intros [->|[Hy Hne]]; [split; [left; reflexivity | congruence] | tauto].
      * intros [[->|Hy] Hne]; [left; reflexivity | right; tauto].
Qed.

Lemma remove1_nodup x l : NoDup l -> NoDup (remove1 x l).
Proof.
  induction l as [|a l IH]; intros Hnd; simpl; [constructor|].
  inversion Hnd as [|? ? Hna Hnd']; subst.
  destruct (Nat.eqb x a) eqn:E; [exact Hnd'|].
  constructor; [|apply IH; exact Hnd'].
  intros Hin. apply (remove1_In_nodup x l Hnd' a) in Hin. tauto.
Qed.

Lemma remove1_notin x l : ~ In x l -> remove1 x l = l.
Proof.
  induction l as [|a l IH]; intros Hn; simpl; [reflexivity|].
  destruct (Nat.eqb x a) eqn:E.
  - apply Nat.eqb_eq in E. subst. exfalso. apply Hn. left. reflexivity.
  - f_equal. apply IH. intros H. apply Hn. right. exact H.
Qed.

Lemma max_by_spec idx l : forall x,
  In (max_by idx x l) (x :: l) /\ forall y, In y (x :: l) -> idx y <= idx (max_by idx x l).
Proof.
  induction l as [|a l IH]; intros x; simpl.
  - split; [left; reflexivity | intros y [->|[]]; lia].
  - destruct (IH (if idx x <? idx a then a else x)) as [Hin Hmax].
    split.
    + destruct Hin as [Hin|Hin]; [|right; right; exact Hin].
      destruct (idx x <? idx a); [right; left; exact Hin | left; exact Hin].
    + intros y Hy.
      assert (Hm : idx (if idx x <? idx a then a else x) <= idx (max_by idx (if idx x <? idx a then a else x) l))
        by (apply Hmax; left; reflexivity).
      destruct Hy as [->|[->|Hy]].
      * destruct (idx y <? idx a) eqn:E; [apply Nat.ltb_lt in E; lia | exact Hm].
      * destruct (idx x <? idx y) eqn:E; [exact Hm | apply Nat.ltb_ge in E; lia].
      * apply Hmax. right. exact Hy.
Qed.

Lemma pop_max_spec idx q x q' :
  pop_max idx q = Some (x, q') ->
  In x q /\ q' = remove1 x q /\ forall y, In y q -> idx y <= idx x.
Proof.
  destruct q as [|a r]; simpl; [discriminate|].
  intros H. injection H as <- <-.
  destruct (max_by_spec idx r a) as [Hin Hmax]. repeat split; assumption.
Qed.

Lemma pop_max_none idx q : pop_max idx q = None -> q = [].
Proof. destruct q; simpl; [reflexivity | discriminate]. Qed.

(* ---- counting ------------------------------------------------------------------------------- *)
Notation cnt := (count_occ Nat.eq_dec).

Lemma cnt_app l1 l2 p : cnt (l1 ++ l2) p = cnt l1 p + cnt l2 p.
Proof. apply count_occ_app. Qed.

Lemma upd_same d k v : upd d k v k = v.
Proof. unfold upd. rewrite Nat.eqb_refl. reflexivity. Qed.
Lemma upd_other d k v j : j <> k -> upd d k v j = d j.
Proof. unfold upd. intros H. apply Nat.eqb_neq in H. rewrite H. reflexivity. Qed.

Lemma depth_fold l : forall d p,
  fold_left (fun d p => upd d p (d p + 1)%Z) l d p = (d p + Z.of_nat (cnt l p))%Z.
Proof.
  induction l as [|a l IH]; intros d p; simpl; [lia|].
  rewrite IH. destruct (Nat.eq_dec a p) as [->|Hne].
  - rewrite upd_same. lia.
  - rewrite upd_other by congruence. lia.
Qed.

(* the inner loop over the predecessors of the popped node *)
Lemma dec_fold l : forall d q,
  (forall p, In p l -> (Z.of_nat (cnt l p) <= d p)%Z) ->
  (forall p, In p l -> ~ In p q) -> NoDup q ->
  forall d' q', fold_left dec_step l (d, q) = (d', q') ->
  (forall p, d' p = (d p - Z.of_nat (cnt l p))%Z) /\ NoDup q' /\
  (forall y, In y q' <-> In y q \/ (In y l /\ d' y = 0%Z)).
Proof.
  induction l as [|a l IH]; intros d q Hge Hnq Hnd d' q' Hf; simpl in Hf.
  - injection Hf as <- <-. split; [intros; simpl; lia|]. split; [exact Hnd|].
    intros y. simpl. tauto.
  - set (d1 := upd d a (d a - 1)%Z) in *.
    set (q1 := if (d1 a =? 0)%Z then a :: q else q) in *.
    assert (Hge1 : forall p, In p l -> (Z.of_nat (cnt l p) <= d1 p)%Z).
    { intros p Hp. specialize (Hge p (or_intror Hp)). simpl in Hge.
      destruct (Nat.eq_dec a p) as [->|Hne].
      - unfold d1. rewrite upd_same. lia.
      - unfold d1. rewrite upd_other by congruence. exact Hge. }
    assert (Hd1a : (d1 a = d a - 1)%Z) by (unfold d1; apply upd_same).
    assert (Hnq1 : forall p, In p l -> ~ In p q1).
    { intros p Hp Hin. unfold q1 in Hin. destruct (d1 a =? 0)%Z eqn:E.
      - destruct Hin as [<-|Hin]; [|exact (Hnq p (or_intror Hp) Hin)].
        apply Z.eqb_eq in E. specialize (Hge1 a Hp).
        assert (0 < cnt l a) by (apply count_occ_In; exact Hp). lia.
      - exact (Hnq p (or_intror Hp) Hin). }
    assert (Hnd1 : NoDup q1).
    { unfold q1. destruct (d1 a =? 0)%Z; [|exact Hnd].
      constructor; [apply Hnq; left; reflexivity | exact Hnd]. }
    destruct (IH d1 q1 Hge1 Hnq1 Hnd1 d' q' Hf) as [Hd' [Hnd' Hq']].
    split; [|split; [exact Hnd'|]].
    + intros p. rewrite Hd'. simpl. destruct (Nat.eq_dec a p) as [->|Hne].
      * rewrite Hd1a. lia.
      * unfold d1. rewrite upd_other by congruence. lia.
    + intros y. rewrite Hq'. unfold q1. split.
      * intros [Hin|[Hin Hz]].
        -- destruct (d1 a =? 0)%Z eqn:E; [|left; exact Hin].
           destruct Hin as [<-|Hin]; [|left; exact Hin].
           right. split; [left; reflexivity|].
           apply Z.eqb_eq in E. rewrite Hd'.
           destruct (in_dec Nat.eq_dec a l) as [Hal|Hal].
           ++ specialize (Hge1 a Hal). assert (0 < cnt l a) by (apply count_occ_In; exact Hal). lia.
           ++ rewrite (proj1 (count_occ_not_In Nat.eq_dec l a) Hal). lia.
        -- right. split; [right; exact Hin | exact Hz].
      * intros [Hin|[[<-|Hin] Hz]].
        -- left. destruct (d1 a =? 0)%Z; [right; exact Hin | exact Hin].
        -- destruct (in_dec Nat.eq_dec a l) as [Hal|Hal]; [right; split; assumption|].
           left. rewrite Hd' in Hz.
           rewrite (proj1 (count_occ_not_In Nat.eq_dec l a) Hal) in Hz.
           assert (E : (d1 a =? 0)%Z = true) by (apply Z.eqb_eq; lia).
           rewrite E. left. reflexivity.
        -- right. split; assumption.
Qed.

(* ---- the loop invariant ----------------------------------------------------------------------- *)
Section Kahn.
Variable flat : list nat.
Variable preds : nat -> list nat.
Variable idx : nat -> nat.
Hypothesis flat_nodup : NoDup flat.
Hypothesis preds_in : forall x p, In p (preds x) -> In p flat.

(* occurrences of p among the predecessor lists of the nodes not yet popped *)
Definition ucount (out : list nat) (p : nat) : nat :=
  cnt (concat (map preds (filter (fun c => negb (memb c out)) flat))) p.

Lemma cnt_concat_filter (f : nat -> bool) l p u :
  In u l -> f u = true -> In p (preds u) -> 0 < cnt (concat (map preds (filter f l))) p.
Proof.
  induction l as [|a l IH]; intros Hu Hf Hp; [destruct Hu|].
  simpl. destruct Hu as [->|Hu].
  - rewrite Hf. simpl. rewrite cnt_app. assert (0 < cnt (preds u) p) by (apply count_occ_In; exact Hp). lia.
  - destruct (f a); [simpl; rewrite cnt_app|]; specialize (IH Hu Hf Hp); lia.
Qed.

Lemma cnt_concat_zero (f : nat -> bool) l p :
  (forall u, In u l -> f u = true -> ~ In p (preds u)) -> cnt (concat (map preds (filter f l))) p = 0.
Proof.
  induction l as [|a l IH]; intros H; [reflexivity|].
  simpl. destruct (f a) eqn:E.
  - simpl. rewrite cnt_app. rewrite IH by (intros u Hu; apply H; right; exact Hu).
    rewrite (proj1 (count_occ_not_In Nat.eq_dec (preds a) p)); [reflexivity|].
    apply H; [left; reflexivity | exact E].
  - apply IH. intros u Hu. apply H. right. exact Hu.
Qed.

Lemma ucount_pos out p u : In u flat -> ~ In u out -> In p (preds u) -> 0 < ucount out p.
Proof.
  intros Hu Hn Hp. unfold ucount. apply (cnt_concat_filter _ flat p u Hu); [|exact Hp].
  apply memb_false in Hn. rewrite Hn. reflexivity.
Qed.

Lemma ucount_zero out p : (forall u, In u flat -> In p (preds u) -> In u out) -> ucount out p = 0.
Proof.
  intros H. unfold ucount. apply cnt_concat_zero. intros u Hu Hf Hp.
  apply H in Hp; [|exact Hu]. apply memb_In in Hp. rewrite Hp in Hf. discriminate.
Qed.

Lemma cnt_filter_split (f : nat -> bool) x p : forall l, NoDup l -> In x l -> f x = true ->
  cnt (concat (map preds (filter f l))) p =
  cnt (preds x) p + cnt (concat (map preds (filter (fun c => f c && negb (Nat.eqb c x)) l))) p.
Proof.
  induction l as [|a l IH]; intros Hnd Hx Hf; [destruct Hx|].
  inversion Hnd as [|? ? Hna Hnd']; subst. simpl. destruct Hx as [->|Hx].
  - rewrite Hf, Nat.eqb_refl. simpl. rewrite cnt_app. f_equal.
    replace (filter (fun c => f c && negb (Nat.eqb c x)) l) with (filter f l); [reflexivity|].
    apply filter_ext_in. intros c Hc.
    assert (c <> x) by (intros ->; contradiction).
    apply Nat.eqb_neq in H. rewrite H. simpl. rewrite andb_true_r. reflexivity.
  - assert (Hax : a <> x) by (intros ->; contradiction).
    apply Nat.eqb_neq in Hax. rewrite Hax. rewrite andb_true_r.
    destruct (f a); simpl; [rewrite !cnt_app|]; rewrite (IH Hnd' Hx Hf); lia.
Qed.

Lemma ucount_step out x p : In x flat -> ~ In x out ->
  ucount out p = cnt (preds x) p + ucount (x :: out) p.
Proof.
  intros Hx Hn. unfold ucount.
  rewrite (cnt_filter_split (fun c => negb (memb c out)) x p flat flat_nodup Hx)
    by (apply memb_false in Hn; rewrite Hn; reflexivity).
  f_equal.
  replace (filter (fun c => negb (memb c (x :: out))) flat)
    with (filter (fun c => negb (memb c out) && negb (Nat.eqb c x)) flat); [reflexivity|].
  apply filter_ext. intros c. simpl.
  rewrite (Nat.eqb_sym c x). destruct (Nat.eqb x c); simpl; [rewrite andb_false_r|rewrite andb_true_r]; reflexivity.
Qed.

Record Inv (d : nat -> Z) (q out : list nat) : Prop := {
  inv_out_nodup : NoDup out;
  inv_out_flat : incl out flat;
  inv_q_nodup : NoDup q;
  inv_q : forall x, In x q <-> (In x flat /\ ~ In x out /\ d x = 0%Z);
  inv_d : forall p, d p = Z.of_nat (ucount out p);
  (* when c was popped every user of c had been popped before *)
  inv_users : forall l1 c l2, out = l1 ++ c :: l2 ->
              forall u, In u flat -> In c (preds u) -> In u l2;
  (* ... and c had the largest index among the nodes that were unpopped and ready *)
  inv_max : forall l1 c l2, out = l1 ++ c :: l2 ->
            forall y, In y flat -> ~ In y l2 ->
            (forall u, In u flat -> In y (preds u) -> In u l2) -> idx y <= idx c
}.

Lemma inv_init :
  let d0 := depth0 flat preds in Inv d0 (filter (fun x => (d0 x =? 0)%Z) flat) [].
Proof.
  intros d0.
  assert (Hd0 : forall p, d0 p = Z.of_nat (ucount [] p)).
  { intros p. unfold d0, depth0. rewrite depth_fold. unfold ucount. simpl.
    replace (filter (fun _ => true) flat) with flat; [lia|].
    clear. induction flat as [|a l IH]; simpl; [reflexivity | f_equal; exact IH]. }
  constructor.
  - constructor.
  - intros x [].
  - apply NoDup_filter. exact flat_nodup.
  - intros x. rewrite filter_In, Z.eqb_eq. simpl. tauto.
  - exact Hd0.
  - intros l1 c l2 H. destruct l1; discriminate.
  - intros l1 c l2 H. destruct l1; discriminate.
Qed.

Lemma inv_step d q out x q' d' q'' :
  Inv d q out -> pop_max idx q = Some (x, q') ->
  fold_left dec_step (preds x) (d, q') = (d', q'') ->
  Inv d' q'' (x :: out).
Proof.
  intros I Hpop Hfold.
  destruct (pop_max_spec _ _ _ _ Hpop) as [Hxq [-> Hmax]].
  destruct (proj1 (inv_q _ _ _ I x) Hxq) as [Hxf [Hxo Hdx]].
  assert (Hq' : forall y, In y (remove1 x q) <-> In y q /\ y <> x)
    by (apply remove1_In_nodup; exact (inv_q_nodup _ _ _ I)).
  assert (Hcnt : forall p, (Z.of_nat (cnt (preds x) p) <= d p)%Z).
  { intros p. rewrite (inv_d _ _ _ I p), (ucount_step out x p Hxf Hxo). lia. }
  assert (Hxself : ~ In x (preds x)).
  { intros H. specialize (Hcnt x). assert (0 < cnt (preds x) x) by (apply count_occ_In; exact H). lia. }
  destruct (dec_fold (preds x) d (remove1 x q)) with (d' := d') (q' := q'') as [Hd' [Hnd'' Hq'']].
  - intros p _. apply Hcnt.
  - intros p Hp Hin. apply Hq' in Hin. destruct Hin as [Hin _].
    apply (inv_q _ _ _ I) in Hin. destruct Hin as [_ [_ Hz]].
    specialize (Hcnt p). assert (0 < cnt (preds x) p) by (apply count_occ_In; exact Hp). lia.
  - apply remove1_nodup. exact (inv_q_nodup _ _ _ I).
  - exact Hfold.
  - assert (Hdnew : forall p, d' p = Z.of_nat (ucount (x :: out) p)).
    { intros p. rewrite Hd', (inv_d _ _ _ I p), (ucount_step out x p Hxf Hxo). lia. }
    constructor.
    + constructor; [exact Hxo | exact (inv_out_nodup _ _ _ I)].
    + intros y [<-|Hy]; [exact Hxf | exact (inv_out_flat _ _ _ I y Hy)].
    + exact Hnd''.
    + intros y. rewrite Hq'', Hq', (inv_q _ _ _ I y). split.
      * intros [[[Hyf [Hyo Hdy]] Hne]|[Hyp Hz]].
        -- split; [exact Hyf|]. split; [intros [E|E]; [congruence|contradiction]|].
           rewrite Hd'. specialize (Hcnt y). lia.
        -- split; [exact (preds_in _ _ Hyp)|]. split; [|exact Hz].
           intros [<-|Hyo]; [contradiction|].
           apply in_split in Hyo. destruct Hyo as [l1 [l2 E]].
           pose proof (inv_users _ _ _ I l1 y l2 E x Hxf Hyp) as Hx2.
           apply Hxo. rewrite E. apply in_or_app. right. right. exact Hx2.
      * intros [Hyf [Hyo Hz]].
        assert (Hne : y <> x) by (intros ->; apply Hyo; left; reflexivity).
        assert (Hyo' : ~ In y out) by (intros H; apply Hyo; right; exact H).
        destruct (Z.eq_dec (d y) 0) as [E|E]; [left; tauto|].
        right. split; [|exact Hz]. rewrite Hd' in Hz.
        apply (count_occ_In Nat.eq_dec). lia.
    + exact Hdnew.
    + intros l1 c l2 E u Hu Hc. destruct l1 as [|a l1]; simpl in E; injection E as -> E.
      * subst l2. destruct (in_dec Nat.eq_dec u out) as [H|H]; [exact H|].
        pose proof (ucount_pos out c u Hu H Hc). pose proof (inv_d _ _ _ I c). lia.
      * exact (inv_users _ _ _ I l1 c l2 E u Hu Hc).
    + intros l1 c l2 E y Hy Hny Hready. destruct l1 as [|a l1]; simpl in E; injection E as -> E.
      * subst l2. apply Hmax. apply (inv_q _ _ _ I). split; [exact Hy|]. split; [exact Hny|].
        rewrite (inv_d _ _ _ I y), (ucount_zero out y Hready). reflexivity.
      * exact (inv_max _ _ _ I l1 c l2 E y Hy Hny Hready).
Qed.

(* Fuel = number of flattened nodes always suffices, and the loop ends with an empty queue. *)
Lemma kahn_inv : forall fuel d q out,
  Inv d q out -> length out + fuel = length flat ->
  exists out' d', kahn idx preds fuel d q out = Some out' /\ Inv d' [] out'.
Proof.
  induction fuel as [|f IH]; intros d q out I Hlen; simpl.
  - destruct (pop_max idx q) as [[x q']|] eqn:Hpop.
    + exfalso. destruct (pop_max_spec _ _ _ _ Hpop) as [Hxq _].
      destruct (proj1 (inv_q _ _ _ I x) Hxq) as [Hxf [Hxo _]].
      apply Hxo. apply (@NoDup_length_incl nat out flat (inv_out_nodup _ _ _ I)); [lia | exact (inv_out_flat _ _ _ I) | exact Hxf].
    + apply pop_max_none in Hpop. subst q. exists out, d. split; [reflexivity | exact I].
  - destruct (pop_max idx q) as [[x q']|] eqn:Hpop.
    + destruct (fold_left dec_step (preds x) (d, q')) as [d' q''] eqn:Hf.
      apply (IH d' q'' (x :: out)); [exact (inv_step _ _ _ _ _ _ _ I Hpop Hf) | simpl; lia].
    + apply pop_max_none in Hpop. subst q. exists out, d. split; [reflexivity | exact I].
Qed.

Definition Final (out : list nat) : Prop :=
  NoDup out /\ incl out flat /\
  (* every node left unpopped has an unpopped user *)
  (forall x, In x flat -> ~ In x out -> exists u, In u flat /\ ~ In u out /\ In x (preds u)) /\
  (forall l1 c l2, out = l1 ++ c :: l2 -> forall u, In u flat -> In c (preds u) -> In u l2) /\
  (forall l1 c l2, out = l1 ++ c :: l2 -> forall y, In y flat -> ~ In y l2 ->
     (forall u, In u flat -> In y (preds u) -> In u l2) -> idx y <= idx c).

End Kahn.

(* C12/Proofs8.v — the write-back step `graph.extend(reversed(sorted_nodes))` through the box-level model of
   DoublyLinkedSet of property C11 (imported read-only: IRV.C11.Model / Proofs.. files): after extending a well-formed
   linked set with a rearrangement of its own elements, forward iteration, backward iteration, len and indexing
   all describe that rearrangement. *)
From Coq Require Import ZArith List Bool Arith Lia Permutation.
From IRV Require Import Base.Exn.
From IRV Require C11.Model C11.Proofs2 C11.Proofs3 C11.Property.
From IRV Require Import C12.Model C12.Proofs1 C12.Proofs2 C12.Proofs3.
Import ListNotations.

Module L := IRV.C11.Model.

Lemma l_remove_notin (x : nat) (l : list nat) : ~ In x l -> L.l_remove x l = l.
Proof.
  unfold L.l_remove. induction l as [|b l IH]; intros Hn; [reflexivity|]. simpl.
  destruct (Nat.eqb b x) eqn:E; simpl.
  - apply Nat.eqb_eq in E. subst. exfalso. apply Hn. left. reflexivity.
  - f_equal. apply IH. intros H. apply Hn. right. exact H.
Qed.

Lemma l_remove_remove1 (x : nat) (l : list nat) : NoDup l -> L.l_remove x l = remove1 x l.
Proof.
  induction l as [|a l IH]; intros Hnd; [reflexivity|]. inversion Hnd as [|? ? Hn Hnd']; subst.
  change (L.l_remove x (a :: l)) with (if negb (Nat.eqb a x) then a :: L.l_remove x l else L.l_remove x l).
  simpl remove1. rewrite (Nat.eqb_sym x a). destruct (Nat.eqb a x) eqn:E; simpl.
  - apply Nat.eqb_eq in E. subst a. apply l_remove_notin. exact Hn.
  - f_equal. apply IH. exact Hnd'.
Qed.

Lemma l_last_snoc (l : list nat) a : L.l_last (l ++ [a]) = Some a.
Proof. unfold L.l_last. rewrite rev_app_distr. reflexivity. Qed.

Lemma l_ins_after_last (m : list nat) (a x : nat) : ~ In a m -> L.l_ins_after a x (m ++ [a]) = m ++ [a; x].
Proof.
  induction m as [|b m IH]; intros Hn; simpl.
  - rewrite Nat.eqb_refl. reflexivity.
  - destruct (Nat.eqb b a) eqn:E.
    + apply Nat.eqb_eq in E. subst. exfalso. apply Hn. left. reflexivity.
    + f_equal. apply IH. intros H. apply Hn. right. exact H.
Qed.

Lemma remove1_snoc_other (x : nat) (m : list nat) (a : nat) : x <> a -> remove1 x (m ++ [a]) = remove1 x m ++ [a].
Proof.
  intros Hne. induction m as [|b m IH]; simpl.
  - apply Nat.eqb_neq in Hne. rewrite Hne. reflexivity.
  - destruct (Nat.eqb x b); [reflexivity|]. simpl. f_equal. exact IH.
Qed.

Lemma l_append_move (x : nat) (l : list nat) : NoDup l -> L.l_append x l = remove1 x l ++ [x].
Proof.
  intros Hnd. unfold L.l_append, L.l_one.
  destruct l as [|a0 l0] using rev_ind.
  - reflexivity.
  - clear IHl0. rewrite l_last_snoc. simpl option_eqb.
    assert (Hn : ~ In a0 l0).
    { apply NoDup_remove_2 in Hnd. rewrite app_nil_r in Hnd. exact Hnd. }
    destruct (Nat.eqb a0 x) eqn:E; simpl fst.
    + apply Nat.eqb_eq in E. subst a0.
      assert (H : remove1 x (l0 ++ [x]) = l0).
      { clear -Hn. induction l0 as [|b m IH]; simpl; [rewrite Nat.eqb_refl; reflexivity|].
        destruct (Nat.eqb x b) eqn:E; [apply Nat.eqb_eq in E; subst; exfalso; apply Hn; left; reflexivity|].
        f_equal. apply IH. intros H. apply Hn. right. exact H. }
      rewrite H. reflexivity.
    + apply Nat.eqb_neq in E. unfold L.l_ins_at. rewrite (l_remove_remove1 x _ Hnd).
      rewrite (remove1_snoc_other x l0 a0) by congruence.
      rewrite l_ins_after_last.
      * rewrite <- app_assoc. reflexivity.
      * intros H. assert (Hnd0 : NoDup l0) by (apply nodup_app_iff in Hnd; tauto).
        apply (remove1_In_nodup x l0 Hnd0) in H. tauto.
Qed.

Lemma move_nodup (x : nat) (l : list nat) : NoDup l -> NoDup (remove1 x l ++ [x]).
Proof.
  intros Hnd. apply nodup_app_iff. split; [apply remove1_nodup; exact Hnd|].
  split; [constructor; [intros []|constructor]|].
  intros y Hy [E|[]]. subst y. apply (remove1_In_nodup x l Hnd) in Hy. tauto.
Qed.

Lemma l_extend_relink (new : list nat) : forall l : list nat, NoDup l ->
  fold_left (fun l x => L.l_append x l) new l = relink l new.
Proof.
  unfold relink. induction new as [|x new IH]; intros l Hnd; simpl; [reflexivity|].
  rewrite (l_append_move x l Hnd). apply IH. apply move_nodup. exact Hnd.
Qed.

(* the write-back of one graph: s = the graph's linked set before, new = the sorted sequence of its own nodes *)
Theorem writeback_views_agree (s : L.st) (new : list nat) :
  C11.Proofs2.wf s -> Permutation new (L.to_list s) ->
  let s' := L.extend new s in
  C11.Proofs2.wf s' /\ L.to_list s' = new /\
  L.list_of true s' = Some new /\ L.list_of false s' = Some (rev new) /\
  L.slen s' = length new /\
  (forall i, L.getitem i s' = C11.Proofs3.py_index new i) /\
  (forall x, L.mem x s' = Ok (existsb (Nat.eqb x) new)).
Proof.
  intros Hw Hp s'.
  assert (Hw' : C11.Proofs2.wf s') by (apply (C11.Property.C11_wf_preserved (L.Extend new) s Hw)).
  assert (Hnd : NoDup (L.to_list s)) by (destruct Hw as [_ [_ [H _]]]; exact H).
  assert (Hl : L.to_list s' = new).
  { pose proof (C11.Property.C11_refines_list (L.Extend new) s Hw) as H. simpl in H.
    injection H as H. unfold s'. rewrite H. rewrite (l_extend_relink new _ Hnd). apply relink_perm; assumption. }
  split; [exact Hw'|]. split; [exact Hl|].
  destruct (C11.Property.C11_observers_agree s' Hw') as [H1 [H2 [H3 [_ [H5 H6]]]]].
  rewrite Hl in *. repeat split; assumption.
Qed.

(* ... for every graph of a successfully sorted scope *)
Theorem sort_writeback_views_agree gr os g old new (s : L.st) :
  wf gr -> sort_graph gr = (Ok tt, os) -> In (g, old) (orders gr) -> In (g, new) os ->
  C11.Proofs2.wf s -> L.to_list s = old ->
  let s' := L.extend new s in
  C11.Proofs2.wf s' /\ L.to_list s' = new /\
  L.list_of true s' = Some new /\ L.list_of false s' = Some (rev new) /\
  L.slen s' = length new /\
  (forall i, L.getitem i s' = C11.Proofs3.py_index new i) /\
  (forall x, L.mem x s' = Ok (existsb (Nat.eqb x) new)).
Proof.
  intros Hwf Hs Hold Hnew Hw Hl. apply writeback_views_agree; [exact Hw|]. rewrite Hl.
  destruct (sort_perm gr (Ok tt) os Hwf Hs) as [Hfst Hp].
  destruct (Hp g old Hold) as [new' [Hin' Hperm]].
  assert (E : new' = new).
  { apply (assoc_unique os g new' new); [|exact Hin' | exact Hnew]. rewrite Hfst. exact (proj1 (proj2 Hwf)). }
  subst new'. exact Hperm.
Qed.

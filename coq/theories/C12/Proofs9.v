(* C12/Proofs9.v — frame: Graph.sort on a graph inside a forest leaves every graph outside its scope exactly as
   it was (whatever the outcome); a finite tree cannot contain itself. *)
From Coq Require Import ZArith List Bool Arith Lia Permutation.
From IRV Require Import Base.Exn C12.Model C12.Proofs1 C12.Proofs2 C12.Proofs3.
Import ListNotations.

Lemma sort_graph_keys gr : map fst (snd (sort_graph gr)) = map fst (orders gr).
Proof.
  unfold sort_graph. destruct (kahn_run _ _) as [out|]; [|reflexivity].
  destruct (Nat.eqb _ _); simpl; [rewrite map_map; reflexivity | reflexivity].
Qed.

Lemma lookup_opt_none {A} x (l : list (nat * A)) : ~ In x (map fst l) -> lookup_opt x l = None.
Proof.
  induction l as [|[k v] l IH]; intros Hn; [reflexivity|]. simpl in *.
  destruct (Nat.eqb x k) eqn:E.
  - apply Nat.eqb_eq in E. subst. exfalso. apply Hn. left. reflexivity.
  - apply IH. intros H. apply Hn. right. exact H.
Qed.

Lemma lookup_opt_some {A} x (l : list (nat * A)) : In x (map fst l) -> exists v, lookup_opt x l = Some v /\ In (x, v) l.
Proof.
  induction l as [|[k v] l IH]; intros Hi; [destruct Hi|]. simpl in *.
  destruct (Nat.eqb x k) eqn:E.
  - apply Nat.eqb_eq in E. subst. exists v. split; [reflexivity | left; reflexivity].
  - destruct Hi as [Hi|Hi]; [apply Nat.eqb_neq in E; congruence|].
    destruct (IH Hi) as [v' [H1 H2]]. exists v'. split; [exact H1 | right; exact H2].
Qed.

Lemma sort_in_eq root t sub : find_graph t root = Some sub ->
  sort_in root t = (fst (sort_graph sub),
                    map (fun go : nat * list nat =>
                           match lookup_opt (fst go) (snd (sort_graph sub)) with Some l => (fst go, l) | None => go end)
                        (orders root)).
Proof. intros Hf. unfold sort_in. rewrite Hf. destruct (sort_graph sub) as [r os]. reflexivity. Qed.

(* every graph outside the scope of the sorted graph keeps its sequence; the graphs listed stay the same *)
Theorem sort_in_frame root t sub r os :
  find_graph t root = Some sub -> sort_in root t = (r, os) ->
  map fst os = map fst (orders root) /\
  (forall g old, In (g, old) (orders root) -> ~ In g (map fst (orders sub)) -> In (g, old) os) /\
  (forall g old, In (g, old) (orders root) -> In g (map fst (orders sub)) ->
     exists new, In (g, new) (snd (sort_graph sub)) /\ In (g, new) os) /\
  r = fst (sort_graph sub).
Proof.
  intros Hf Hs. rewrite (sort_in_eq root t sub Hf) in Hs.
  pose proof (sort_graph_keys sub) as Hk.
  pose proof (f_equal fst Hs) as H1. pose proof (f_equal snd Hs) as H2. cbn [fst snd] in H1, H2.
  set (os' := snd (sort_graph sub)) in *. clearbody os'. subst r os. clear Hs.
  split; [|split; [|split; [|reflexivity]]].
  - rewrite map_map. apply map_ext. intros [g old]. simpl. destruct (lookup_opt g os'); reflexivity.
  - intros g old Hin Hn. apply in_map_iff. exists (g, old). split; [|exact Hin]. simpl.
    rewrite lookup_opt_none; [reflexivity | rewrite Hk; exact Hn].
  - intros g old Hin Hi. rewrite <- Hk in Hi. destruct (lookup_opt_some g os' Hi) as [new [H1 H2]].
    exists new. split; [exact H2|]. apply in_map_iff. exists (g, old). split; [|exact Hin]. simpl.
    rewrite H1. reflexivity.
Qed.

Lemma find_graph_root root : find_graph (fst root) root = Some root.
Proof. unfold find_graph. rewrite Nat.eqb_refl. reflexivity. Qed.

(* a node is strictly larger than every node nested in it: no finite scope contains itself *)
Theorem no_self_nesting : forall n m, In m (tl (desc_n n)) -> size m < size n.
Proof.
  apply (node_ind_sub (fun n => forall m, In m (tl (desc_n n)) -> size m < size n)).
  intros n IH m Hm. unfold desc_n in Hm. rewrite placed_n_eq in Hm. simpl in Hm.
  apply in_map_iff in Hm. destruct Hm as [[g' m'] [E Hm]]. simpl in E. subst m'.
  apply in_flat_map in Hm. destruct Hm as [gk [Hgk Hm]].
  pose proof (sub_nodes_size n gk Hgk) as Hlt.
  rewrite placed_n_eq in Hm. destruct Hm as [E|Hm].
  - injection E as _ <-. exact Hlt.
  - assert (Hm' : In m (tl (desc_n (snd gk)))).
    { unfold desc_n. rewrite placed_n_eq. simpl. apply in_map_iff. exists (g', m). split; [reflexivity | exact Hm]. }
    specialize (IH gk Hgk m Hm'). lia.
Qed.

Corollary not_nested_in_itself n : ~ In n (tl (desc_n n)).
Proof. intros H. apply no_self_nesting in H. lia. Qed.

(* C12/Property.v — topological sort: correct across scopes, stable, deterministic, atomic.
   Statements are about C12/Model.v (sort_graph = Graph.sort = Function.sort on a graph tree; the
   second component of its result is the node sequence of every graph of the scope afterwards).

   Vocabulary (C12/Proofs3.v): placed gr = every (graph id, node) of the scope; desc_n n = n and all
   nodes nested in n at any depth; ids gr = node ids of the scope; orders gr = node sequence of
   every graph before the call; uses gr u c = "c is in the scope and produces an input of u or is
   directly in an attribute graph of u"; before a b l = a occurs strictly before b in l;
   wf gr = no node and no graph object occurs twice in the scope. *)
From Coq Require Import ZArith List Bool Arith Lia Permutation Relations.
From IRV Require Import Base.Exn C12.Model C12.Proofs1 C12.Proofs2 C12.Proofs3 C12.Proofs4 C12.Proofs5 C12.Proofs6 C12.Proofs7 C12.GenModel Gen.C12Gen C12.GenEquiv C12.Proofs8 C12.Proofs9.
Import ListNotations.

(* Sample scope: graph 0 = [n0 (If with body graph 1 = [n2 uses n1; n3 uses n2]); n1; n4 uses n0, n1(twice), None].
   The body captures n1, which is placed AFTER the control-flow node n0. *)
Definition ex_dag : graph :=
  (0, [Node 0 [None] [(1, [Node 3 [Some 2] []; Node 2 [Some 1; None] []])];
       Node 4 [Some 0; Some 1; Some 1; None] [];
       Node 1 [] []]).
Definition ex_cyc : graph :=
  (0, [Node 0 [Some 2] [(1, [Node 1 [] []])]; Node 2 [Some 0] []]).

Example ex_dag_wf : wf ex_dag.
Proof. repeat split; repeat constructor; simpl; intuition discriminate. Qed.
Example ex_dag_sorted : sort_graph ex_dag = (Ok tt, [(0, [1; 0; 4]); (1, [2; 3])]).
Proof. vm_compute. reflexivity. Qed.
Example ex_cyc_raises : sort_graph ex_cyc = (Raise ValueError, [(0, [0; 2]); (1, [1])]).
Proof. vm_compute. reflexivity. Qed.

(* The only outcomes are success and ValueError: in particular the fuel (number of nodes) always
   suffices — the model's out-of-fuel value (Raise OtherError) is unreachable. *)
Theorem C12_outcome :
  forall gr, wf gr -> fst (sort_graph gr) = Ok tt \/ fst (sort_graph gr) = Raise ValueError.
Proof. exact sort_outcome. Qed.
Print Assumptions C12_outcome.

(* Each graph keeps exactly its own nodes: same graphs in the same listing, and the new sequence of
   every graph is a rearrangement of its old one (whatever the outcome). *)
Theorem C12_perm :
  forall gr r os, wf gr -> sort_graph gr = (r, os) ->
  map fst os = map fst (orders gr) /\
  forall g old, In (g, old) (orders gr) -> exists new, In (g, new) os /\ Permutation new old.
Proof. exact sort_perm. Qed.
Print Assumptions C12_perm.

(* After a successful sort every node n of every graph g of the scope comes after the producers
   located in g of every value used by n or by any node m nested inside n at any depth. *)
Theorem C12_respects_deps :
  forall gr os, wf gr -> sort_graph gr = (Ok tt, os) ->
  forall g n m p new,
    In (g, n) (placed gr) -> In m (desc_n n) -> In (Some p) (nins m) ->
    (exists n', In (g, n') (placed gr) /\ nid n' = p) ->
    In (g, new) os -> before p (nid n) new.
Proof. exact sort_respects_deps. Qed.
Print Assumptions C12_respects_deps.

Example C12_respects_deps_nonvacuous :
  In (0, Node 0 [None] [(1, [Node 3 [Some 2] []; Node 2 [Some 1; None] []])]) (placed ex_dag) /\
  In (Node 2 [Some 1; None] []) (desc_n (Node 0 [None] [(1, [Node 3 [Some 2] []; Node 2 [Some 1; None] []])])) /\
  In (0, Node 1 [] []) (placed ex_dag) /\ before 1 0 [1; 0; 4].
Proof. repeat split; simpl; try tauto. exists [], [], [4]. reflexivity. Qed.

(* ValueError is raised exactly when the dependency relation of the scope has a cycle. *)
Theorem C12_cycle_iff :
  forall gr, wf gr ->
  (fst (sort_graph gr) = Raise ValueError <-> exists x, clos_trans nat (uses gr) x x).
Proof. exact sort_cycle_iff. Qed.
Print Assumptions C12_cycle_iff.

(* On any exception no graph's order has changed (the check precedes all relinking).  No hypothesis. *)
Theorem C12_cycle_atomic :
  forall gr e os, sort_graph gr = (Raise e, os) -> os = orders gr.
Proof. exact sort_atomic. Qed.
Print Assumptions C12_cycle_atomic.

(* Stability: a scope in which every graph already satisfies the order predicate of C12_respects_deps
   (`ordered`) and whose references are well scoped (`well_scoped`: a used value is produced in the
   user's graph or in a graph enclosing it — the property's quantifier) is sorted successfully and
   every graph is left exactly as it was.
   well_scoped cannot be dropped: ex_illscoped below is ordered, yet its root graph is rearranged. *)
Theorem C12_stable :
  forall gr, wf gr -> well_scoped gr -> ordered gr -> sort_graph gr = (Ok tt, orders gr).
Proof. exact sort_ordered_ok. Qed.
Print Assumptions C12_stable.

(* hypotheses satisfiable by a scope with a captured value: graph 0 = [n1; n0 (body graph 1 = [n2 uses n1]) uses n1] *)
Definition ex_sorted : graph :=
  (0, [Node 1 [] []; Node 0 [Some 1] [(1, [Node 2 [Some 1] []])]]).
Example ex_sorted_hyps : wf ex_sorted /\ well_scoped ex_sorted /\ ordered ex_sorted.
Proof.
  split; [repeat split; repeat constructor; simpl; intuition discriminate|]. split.
  - intros g m p Hm Hp Hi. simpl in Hm.
    destruct Hm as [E|[E|[E|[]]]]; injection E as <- <-; simpl in Hp; try tauto.
    + destruct Hp as [Hp|[]]. injection Hp as <-.
      exists 0, (Node 1 [] []), (Node 0 [Some 1] [(1, [Node 2 [Some 1] []])]). simpl. tauto.
    + destruct Hp as [Hp|[]]. injection Hp as <-.
      exists 0, (Node 1 [] []), (Node 0 [Some 1] [(1, [Node 2 [Some 1] []])]). simpl. tauto.
  - intros g n m p old Hn Hm Hp Hex Ho. simpl in Hn, Ho.
    destruct Ho as [E|[E|[]]]; inversion E; subst; clear E;
      (destruct Hn as [E|[E|[E|[]]]]; inversion E; subst; clear E);
      simpl in Hm; repeat (destruct Hm as [Hm'|Hm]; [subst m; simpl in Hp|]); try contradiction;
      repeat (destruct Hp as [Hp|Hp]; [inversion Hp; subst; clear Hp|]); try contradiction;
      try (exists [], [], []; reflexivity).
    all: destruct Hex as [n' [Hn' En']]; simpl in Hn'; destruct Hn' as [E|[E|[E|[]]]]; inversion E; subst; discriminate En'.
Qed.
Definition ex_illscoped : graph :=
  (0, [Node 0 [] [(1, [Node 1 [Some 4] []])]; Node 2 [] []; Node 3 [] [(2, [Node 4 [Some 2] []])]]).
Example ex_illscoped_moves : sort_graph ex_illscoped = (Ok tt, [(0, [2; 0; 3]); (1, [1]); (2, [4])]).
Proof. vm_compute. reflexivity. Qed.

(* Determinism: the outcome and every resulting order are a function of the structure and the
   previous order only (the model takes nothing else; that the implementation agrees with this
   function under different hash seeds / allocation orders is the correspondence check). *)
Theorem C12_deterministic :
  forall gr1 gr2, gr1 = gr2 -> sort_graph gr1 = sort_graph gr2.
Proof. intros gr1 gr2 E. rewrite E. reflexivity. Qed.
Print Assumptions C12_deterministic.

(* The source of Graph.sort, translated statement by statement on every run (Gen/C12Gen.gen_src: index key,
   depth initial value / increment / decrement, ready and push tests, counter, cycle test, exception, order of
   "cycle check" and "re-link", reversal) and run by the parametrised algorithm GenModel.gsort (heapq by its
   contract: pop the smallest key), is the model every theorem above is about. *)
Theorem C12_source_is_model : forall gr, gsort gen_src gr = sort_graph gr.
Proof. exact gen_sort_is_model. Qed.
Print Assumptions C12_source_is_model.

(* Write-back through the linked set (box-level model of DoublyLinkedSet of property C11, imported read-only):
   s is the graph's linked set before the sort (well formed, holding the old sequence), the sort re-links it by
   extend(new).  Afterwards the set is well formed and forward iteration, backward iteration, len, indexing and
   membership all describe `new` — the consistency of list(graph), reversed(graph), graph[i], len(graph) after
   a successful sort (seeded change C12-r5m1 broke exactly this). *)
Theorem C12_writeback_views_agree :
  forall gr os g old new (s : IRV.C11.Model.st),
  wf gr -> sort_graph gr = (Ok tt, os) -> In (g, old) (orders gr) -> In (g, new) os ->
  IRV.C11.Proofs2.wf s -> IRV.C11.Model.to_list s = old ->
  let s' := IRV.C11.Model.extend new s in
  IRV.C11.Proofs2.wf s' /\ IRV.C11.Model.to_list s' = new /\
  IRV.C11.Model.list_of true s' = Some new /\ IRV.C11.Model.list_of false s' = Some (rev new) /\
  IRV.C11.Model.slen s' = length new /\
  (forall i, IRV.C11.Model.getitem i s' = IRV.C11.Proofs3.py_index new i) /\
  (forall x, IRV.C11.Model.mem x s' = Ok (existsb (Nat.eqb x) new)).
Proof. exact sort_writeback_views_agree. Qed.
Print Assumptions C12_writeback_views_agree.

(* hypotheses satisfiable: the linked set built by extend on the empty set is well formed (C11_wf_init) *)
Example C12_writeback_nonvacuous :
  IRV.C11.Proofs2.wf (IRV.C11.Model.extend [0; 2] IRV.C11.Model.empty) /\
  IRV.C11.Model.to_list (IRV.C11.Model.extend [0; 2] IRV.C11.Model.empty) = [0; 2].
Proof. split; [apply IRV.C11.Property.C11_wf_init | reflexivity]. Qed.

(* Frame: Graph.sort called on a graph t inside a forest (sort_in; t may be the root, a subgraph, or a graph nested
   in a function body) lists the same graphs afterwards, leaves every graph outside the scope of t exactly as it
   was whatever the outcome, and gives the graphs of the scope the sequences computed by sort_graph on t. *)
Theorem C12_frame :
  forall root t sub r os, find_graph t root = Some sub -> sort_in root t = (r, os) ->
  map fst os = map fst (orders root) /\
  (forall g old, In (g, old) (orders root) -> ~ In g (map fst (orders sub)) -> In (g, old) os) /\
  (forall g old, In (g, old) (orders root) -> In g (map fst (orders sub)) ->
     exists new, In (g, new) (snd (sort_graph sub)) /\ In (g, new) os) /\
  r = fst (sort_graph sub).
Proof. exact sort_in_frame. Qed.
Print Assumptions C12_frame.

Example C12_frame_nonvacuous :
  find_graph 1 ex_dag = Some (1, [Node 3 [Some 2] []; Node 2 [Some 1; None] []]) /\
  sort_in ex_dag 1 = (Ok tt, [(0, [0; 4; 1]); (1, [2; 3])]).
Proof. split; vm_compute; reflexivity. Qed.

(* A scope is a finite tree: every node nested in n is strictly smaller than n, so no graph contains itself.  A
   Graph object nested in itself can be built through the API (assign an attribute after construction); it has
   no serialised form, the recursive iterator does not terminate on it (RecursionError, nothing re-linked —
   probed on every run) and it is outside the property's quantifier ("subgraphs nested to any depth"). *)
Theorem C12_no_self_nesting : forall n m, In m (tl (desc_n n)) -> size m < size n.
Proof. exact no_self_nesting. Qed.
Print Assumptions C12_no_self_nesting.

(* Step 1 of Graph.sort (the predecessor-collection loop with the guards of add_predecessor), translated from the
   source on every run into folds over the Python-level view of a node (inputs: None / a Value with its producer;
   attributes: other / reference / GRAPH / GRAPHS), computes exactly the predecessor list the model — and hence the
   relation `uses` of the theorems above — is built from: the in-scope producers of the inputs in input order, then
   the nodes directly in the attribute graphs in attribute order. *)
Theorem C12_collection_is_model :
  forall gr g n ins ats,
  NoDup (ids gr) -> In (g, n) (placed gr) ->
  map view_in ins = nins n ->
  concat (map view_at ats) = map (fun s : nat * list node => map nid (snd s)) (nsubs n) ->
  gen_collect (fun p => memb p (ids gr)) ins ats = preds_of (entries gr) (nid n).
Proof. exact gen_collect_is_model. Qed.
Print Assumptions C12_collection_is_model.

Example C12_collection_nonvacuous :
  gen_collect (fun p => memb p (ids ex_dag)) [PVal (Some 1); PNone; PVal None; PVal (Some 99)]
              [POther; PGraphs [[3; 2]; []]; PRef; PGraph [4]] = [1; 3; 2; 4].
Proof. vm_compute. reflexivity. Qed.

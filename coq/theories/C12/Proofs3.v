(* C12/Proofs3.v — specification vocabulary on the graph tree, its link to the tables built by the
   model, and the theorems that do not need the index order: outcome, permutation, dependency order,
   cycle characterisation, atomicity. *)
From Coq Require Import ZArith List Bool Arith Lia Permutation Relations.
From IRV Require Import Base.Exn C12.Model C12.Proofs1 C12.Proofs2.
Import ListNotations.

(* ---- specification vocabulary ------------------------------------------------------------------ *)
(* the nodes directly inside the attribute graphs of n, with the id of the graph holding each *)
Definition sub_nodes (n : node) : list (nat * node) :=
  concat (map (fun s : nat * list node => map (pair (fst s)) (snd s)) (nsubs n)).

(* (graph id, node) for the node and everything nested in it, iterator order *)
Fixpoint placed_n (g : nat) (n : node) : list (nat * node) :=
  match n with
  | Node i ins subs =>
      (g, Node i ins subs)
      :: concat (map (fun s : nat * list node =>
                        let '(gi, body) := s in concat (map (placed_n gi) body)) subs)
  end.
(* every node of the scope of gr with the id of the graph it is in *)
Definition placed (gr : graph) : list (nat * node) := concat (map (placed_n (fst gr)) (snd gr)).
(* n and the nodes nested inside n at any depth *)
Definition desc_n (n : node) : list node := map snd (placed_n 0 n).
Definition ids (gr : graph) : list nat := map (fun gn => nid (snd gn)) (placed gr).

(* c is the producer of an input of n, or a node directly in an attribute graph of n *)
Definition raw_of (n : node) : list nat :=
  somes (nins n) ++ concat (map (fun s : nat * list node => map nid (snd s)) (nsubs n)).

(* well-formed scope: node ids are distinct and graph ids are distinct (no node or graph object
   occurs twice — in particular no subgraph shared by two attributes); the third clause (no sequence
   holds a node twice) follows from the first and is kept explicit only to shorten the proofs *)
Definition wf (gr : graph) : Prop :=
  NoDup (ids gr) /\ NoDup (map fst (orders gr)) /\ Forall (fun go => NoDup (snd go)) (orders gr).

(* direct dependency used by the sort, restricted to the scope *)
Definition uses (gr : graph) (u c : nat) : Prop :=
  exists g n, In (g, n) (placed gr) /\ nid n = u /\ In c (raw_of n) /\ In c (ids gr).

(* ---- generic list facts -------------------------------------------------------------------------- *)
Lemma concat_sub {B} (f : nat -> node -> list B) (subs : list (nat * list node)) :
  concat (map (fun s : nat * list node => let '(gi, body) := s in concat (map (f gi) body)) subs) =
  flat_map (fun gk : nat * node => f (fst gk) (snd gk))
           (concat (map (fun s : nat * list node => map (pair (fst s)) (snd s)) subs)).
Proof.
  induction subs as [|[gi body] subs IH]; simpl; [reflexivity|].
  rewrite flat_map_app, IH. f_equal.
  clear. induction body as [|k body IH]; simpl; [reflexivity|]. rewrite IH. reflexivity.
Qed.

Lemma placed_n_eq g n :
  placed_n g n = (g, n) :: flat_map (fun gk => placed_n (fst gk) (snd gk)) (sub_nodes n).
Proof. destruct n as [i ins subs]. simpl. f_equal. apply concat_sub. Qed.

Lemma entries_n_eq g n :
  entries_n g n = (nid n, g, raw_of n) :: flat_map (fun gk => entries_n (fst gk) (snd gk)) (sub_nodes n).
Proof. destruct n as [i ins subs]. simpl. f_equal. apply concat_sub. Qed.

Lemma somes_In {A} (l : list (option A)) x : In x (somes l) <-> In (Some x) l.
Proof.
  induction l as [|[a|] l IH]; simpl; [tauto | |].
  - rewrite IH. split; intros [H|H]; [left; congruence | right; exact H | left; congruence | right; exact H].
  - rewrite IH. split; [intros H; right; exact H | intros [H|H]; [discriminate | exact H]].
Qed.

Lemma raw_of_In n c :
  In c (raw_of n) <-> In (Some c) (nins n) \/ exists gk, In gk (sub_nodes n) /\ nid (snd gk) = c.
Proof.
  unfold raw_of, sub_nodes. rewrite in_app_iff, somes_In.
  assert (H : In c (concat (map (fun s : nat * list node => map nid (snd s)) (nsubs n))) <->
              exists gk, In gk (concat (map (fun s : nat * list node => map (pair (fst s)) (snd s)) (nsubs n)))
                         /\ nid (snd gk) = c).
  { induction (nsubs n) as [|s l IH]; simpl.
    - split; [intros [] | intros [gk [[] _]]].
    - rewrite in_app_iff, IH. split.
      + intros [H|[gk [H1 H2]]].
        * apply in_map_iff in H. destruct H as [k [<- Hk]]. exists (fst s, k). split; [|reflexivity].
          apply in_or_app. left. apply in_map. exact Hk.
        * exists gk. split; [apply in_or_app; right; exact H1 | exact H2].
      + intros [gk [H1 H2]]. apply in_app_or in H1. destruct H1 as [H1|H1].
        * left. apply in_map_iff in H1. destruct H1 as [k [<- Hk]]. simpl in H2. subst c. apply in_map. exact Hk.
        * right. exists gk. split; assumption. }
  rewrite H. tauto.
Qed.

(* ---- induction on the nesting ------------------------------------------------------------------ *)
Fixpoint size (n : node) : nat :=
  match n with
  | Node _ _ subs => S (list_sum (map (fun s : nat * list node => list_sum (map size (snd s))) subs))
  end.

Lemma list_sum_In {A} (f : A -> nat) x l : In x l -> f x <= list_sum (map f l).
Proof.
  induction l as [|a l IH]; intros H; [destruct H|]. simpl. destruct H as [->|H]; [lia|]. specialize (IH H). lia.
Qed.

Lemma sub_nodes_size n gk : In gk (sub_nodes n) -> size (snd gk) < size n.
Proof.
  destruct n as [i ins subs]. unfold sub_nodes. simpl. intros H.
  apply in_concat in H. destruct H as [l [Hl Hgk]]. apply in_map_iff in Hl. destruct Hl as [s [<- Hs]].
  apply in_map_iff in Hgk. destruct Hgk as [k [<- Hk]]. simpl.
  pose proof (list_sum_In (fun s : nat * list node => list_sum (map size (snd s))) s subs Hs) as H1.
  pose proof (list_sum_In size k (snd s) Hk) as H2. simpl in H1. lia.
Qed.

Lemma node_ind_sub (P : node -> Prop) :
  (forall n, (forall gk, In gk (sub_nodes n) -> P (snd gk)) -> P n) -> forall n, P n.
Proof.
  intros H. assert (Hk : forall k n, size n < k -> P n).
  { induction k as [|k IH]; intros n Hn; [lia|]. apply H. intros gk Hgk. apply IH.
    pose proof (sub_nodes_size n gk Hgk). lia. }
  intros n. apply (Hk (S (size n))). lia.
Qed.

(* ---- tables vs vocabulary ------------------------------------------------------------------------ *)
Definition mk_entry (gn : nat * node) : entry := (nid (snd gn), fst gn, raw_of (snd gn)).

Lemma flat_map_map_ext {A B C} (h : B -> C) (f : A -> list C) (f' : A -> list B) l :
  (forall x, In x l -> f x = map h (f' x)) -> flat_map f l = map h (flat_map f' l).
Proof.
  induction l as [|a l IH]; intros H; simpl; [reflexivity|].
  rewrite map_app, H by (left; reflexivity). f_equal. apply IH. intros x Hx. apply H. right. exact Hx.
Qed.

Lemma entries_n_placed : forall n g, entries_n g n = map mk_entry (placed_n g n).
Proof.
  apply (node_ind_sub (fun n => forall g, entries_n g n = map mk_entry (placed_n g n))).
  intros n IH g. rewrite entries_n_eq, placed_n_eq. simpl. unfold mk_entry at 1. simpl.
  apply (f_equal (cons (nid n, g, raw_of n))).
  apply flat_map_map_ext. intros gk Hgk. apply IH. exact Hgk.
Qed.

Lemma entries_placed gr : entries gr = map mk_entry (placed gr).
Proof.
  unfold entries, placed. induction (snd gr) as [|n l IH]; simpl; [reflexivity|].
  rewrite map_app, entries_n_placed, IH. reflexivity.
Qed.

Lemma flat_ids gr : flat_of (entries gr) = ids gr.
Proof. unfold flat_of, ids. rewrite entries_placed, map_map. reflexivity. Qed.

Lemma lookup_nodup {A} (d : A) k v (l : list (nat * A)) :
  NoDup (map fst l) -> In (k, v) l -> lookup d k l = v.
Proof.
  induction l as [|[k' v'] l IH]; intros Hnd Hin; [destruct Hin|].
  simpl in *. inversion Hnd as [|? ? Hn Hnd']; subst. destruct Hin as [E|Hin].
  - injection E as -> ->. rewrite Nat.eqb_refl. reflexivity.
  - destruct (Nat.eqb k k') eqn:E; [|apply IH; assumption].
    apply Nat.eqb_eq in E. subst k'. exfalso. apply Hn. apply (in_map fst) in Hin. exact Hin.
Qed.

Lemma lookup_notin {A} (d : A) k (l : list (nat * A)) : ~ In k (map fst l) -> lookup d k l = d.
Proof.
  induction l as [|[k' v'] l IH]; intros Hn; [reflexivity|]. simpl in *.
  destruct (Nat.eqb k k') eqn:E.
  - apply Nat.eqb_eq in E. subst. exfalso. apply Hn. left. reflexivity.
  - apply IH. intros H. apply Hn. right. exact H.
Qed.

Lemma owner_placed gr g n : NoDup (ids gr) -> In (g, n) (placed gr) -> owner_of (entries gr) (nid n) = g.
Proof.
  intros Hnd Hin. unfold owner_of. apply lookup_nodup.
  - rewrite map_map. simpl. rewrite entries_placed, map_map. exact Hnd.
  - rewrite entries_placed, map_map. apply in_map_iff. exists (g, n). split; [reflexivity | exact Hin].
Qed.

Lemma preds_placed gr g n : NoDup (ids gr) -> In (g, n) (placed gr) ->
  preds_of (entries gr) (nid n) = filter (fun p => memb p (ids gr)) (raw_of n).
Proof.
  intros Hnd Hin. unfold preds_of. rewrite flat_ids. f_equal. apply lookup_nodup.
  - rewrite map_map. simpl. rewrite entries_placed, map_map. exact Hnd.
  - rewrite entries_placed, map_map. apply in_map_iff. exists (g, n). split; [reflexivity | exact Hin].
Qed.

Lemma preds_in_flat gr x p : In p (preds_of (entries gr) x) -> In p (flat_of (entries gr)).
Proof. unfold preds_of. intros H. apply filter_In in H. destruct H as [_ H]. apply memb_In. exact H. Qed.

Lemma ids_placed gr x : In x (ids gr) <-> exists g n, In (g, n) (placed gr) /\ nid n = x.
Proof.
  unfold ids. rewrite in_map_iff. split.
  - intros [[g n] [E H]]. exists g, n. split; [exact H | exact E].
  - intros [g [n [H E]]]. exists (g, n). split; [exact E | exact H].
Qed.

(* the dependency relation of the tables is `uses` *)
Lemma dep_uses gr : NoDup (ids gr) -> forall u c,
  dep (flat_of (entries gr)) (preds_of (entries gr)) u c <-> uses gr u c.
Proof.
  intros Hnd u c. unfold dep, uses. rewrite flat_ids. split.
  - intros [Hu Hc]. apply ids_placed in Hu. destruct Hu as [g [n [Hp <-]]].
    rewrite (preds_placed gr g n Hnd Hp) in Hc. apply filter_In in Hc. destruct Hc as [Hc Hm].
    exists g, n. repeat split; [exact Hp | exact Hc | apply memb_In; exact Hm].
  - intros [g [n [Hp [<- [Hc Hi]]]]]. split; [apply ids_placed; exists g, n; split; [exact Hp | reflexivity]|].
    rewrite (preds_placed gr g n Hnd Hp). apply filter_In. split; [exact Hc | apply memb_In; exact Hi].
Qed.

(* nesting: closure of placed under sub_nodes *)
Lemma placed_n_sub : forall n g g' m, In (g', m) (placed_n g n) ->
  forall gk, In gk (sub_nodes m) -> In gk (placed_n g n).
Proof.
  apply (node_ind_sub (fun n => forall g g' m, In (g', m) (placed_n g n) ->
                                 forall gk, In gk (sub_nodes m) -> In gk (placed_n g n))).
  intros n IH g g' m Hin gk Hgk. rewrite placed_n_eq in *. destruct Hin as [E|Hin].
  - injection E as <- <-. right. apply in_flat_map. exists gk. split; [exact Hgk|].
    rewrite placed_n_eq. left. destruct gk; reflexivity.
  - right. apply in_flat_map in Hin. destruct Hin as [gk' [Hgk' Hin]].
    apply in_flat_map. exists gk'. split; [exact Hgk'|]. apply (IH gk' Hgk' _ g' m Hin gk Hgk).
Qed.

Lemma placed_sub gr g m gk : In (g, m) (placed gr) -> In gk (sub_nodes m) -> In gk (placed gr).
Proof.
  unfold placed. intros Hin Hgk. apply in_concat in Hin. destruct Hin as [l [Hl Hin]].
  apply in_map_iff in Hl. destruct Hl as [n [<- Hn]].
  apply in_concat. exists (placed_n (fst gr) n). split; [apply in_map; exact Hn|].
  apply (placed_n_sub n _ g m Hin gk Hgk).
Qed.

(* gid of the head of placed_n is the only thing depending on the first argument *)
Lemma placed_n_tail g g' n : tl (placed_n g n) = tl (placed_n g' n).
Proof. rewrite !placed_n_eq. reflexivity. Qed.

Lemma placed_n_snd g g' n : map snd (placed_n g n) = map snd (placed_n g' n).
Proof. rewrite !placed_n_eq. reflexivity. Qed.

Lemma desc_n_cases n m : In m (desc_n n) <-> m = n \/ exists gk, In gk (sub_nodes n) /\ In m (desc_n (snd gk)).
Proof.
  unfold desc_n. rewrite placed_n_eq. simpl. split.
  - intros [E|H]; [left; congruence|]. right.
    apply in_map_iff in H. destruct H as [[g' m'] [E H]]. simpl in E. subst m'.
    apply in_flat_map in H. destruct H as [gk [Hgk H]]. exists gk. split; [exact Hgk|].
    rewrite (placed_n_snd 0 (fst gk)). apply in_map_iff. exists (g', m). split; [reflexivity | exact H].
  - intros [->|[gk [Hgk H]]]; [left; reflexivity|]. right.
    rewrite (placed_n_snd 0 (fst gk)) in H. apply in_map_iff in H. destruct H as [[g' m'] [E H]].
    simpl in E. subst m'. apply in_map_iff. exists (g', m). split; [reflexivity|].
    apply in_flat_map. exists gk. split; assumption.
Qed.

(* ---- orders vs placed ---------------------------------------------------------------------------- *)
Lemma sub_nodes_In n gk :
  In gk (sub_nodes n) <-> exists s, In s (nsubs n) /\ fst gk = fst s /\ In (snd gk) (snd s).
Proof.
  unfold sub_nodes. rewrite in_concat. split.
  - intros [l [Hl H]]. apply in_map_iff in Hl. destruct Hl as [s [<- Hs]].
    apply in_map_iff in H. destruct H as [k [<- Hk]]. exists s. repeat split; assumption.
  - intros [s [Hs [E Hk]]]. exists (map (pair (fst s)) (snd s)). split; [apply (in_map (fun s : nat * list node => map (pair (fst s)) (snd s))); exact Hs|].
    apply in_map_iff. exists (snd gk). split; [rewrite <- E; destruct gk; reflexivity | exact Hk].
Qed.

Lemma orders_n_In n go :
  In go (orders_n n) <->
  (exists s, In s (nsubs n) /\ go = (fst s, map nid (snd s))) \/
  (exists gk, In gk (sub_nodes n) /\ In go (orders_n (snd gk))).
Proof.
  destruct n as [i ins subs]. unfold sub_nodes. simpl.
  induction subs as [|[gi body] subs IH]; simpl.
  - split; [intros [] | intros [[s [F _]]|[gk [F _]]]; destruct F].
  - rewrite in_app_iff, IH. clear IH. split.
    + intros [E|[H|[[s [Hs E]]|[gk [Hgk H]]]]].
      * left. exists (gi, body). split; [left; reflexivity | symmetry; exact E].
      * right. apply in_concat in H. destruct H as [l [Hl H]]. apply in_map_iff in Hl.
        destruct Hl as [k [<- Hk]]. exists (gi, k). split; [|exact H].
        apply in_or_app. left. apply in_map. exact Hk.
      * left. exists s. split; [right; exact Hs | exact E].
      * right. exists gk. split; [apply in_or_app; right; exact Hgk | exact H].
    + intros [[s [[<-|Hs] E]]|[gk [Hgk H]]].
      * left. symmetry. exact E.
      * right. right. left. exists s. split; assumption.
      * apply in_app_or in Hgk. destruct Hgk as [Hgk|Hgk].
        -- right. left. apply in_map_iff in Hgk. destruct Hgk as [k [<- Hk]]. simpl in H.
           apply in_concat. exists (orders_n k). split; [apply in_map; exact Hk | exact H].
        -- right. right. right. exists gk. split; assumption.
Qed.

Lemma placed_n_head g n : In (g, n) (placed_n g n).
Proof. rewrite placed_n_eq. left. reflexivity. Qed.

Lemma placed_n_in_sub g n gk x : In gk (sub_nodes n) -> In x (placed_n (fst gk) (snd gk)) -> In x (placed_n g n).
Proof. intros Hgk H. rewrite placed_n_eq. right. apply in_flat_map. exists gk. split; assumption. Qed.

Lemma orders_n_placed : forall n g0 g old, In (g, old) (orders_n n) ->
  forall x, In x old -> exists k, In (g, k) (placed_n g0 n) /\ nid k = x.
Proof.
  apply (node_ind_sub (fun n => forall g0 g old, In (g, old) (orders_n n) ->
           forall x, In x old -> exists k, In (g, k) (placed_n g0 n) /\ nid k = x)).
  intros n IH g0 g old Hin x Hx. apply orders_n_In in Hin. destruct Hin as [[s [Hs E]]|[gk [Hgk H]]].
  - injection E as -> ->. apply in_map_iff in Hx. destruct Hx as [k [<- Hk]]. exists k. split; [|reflexivity].
    apply (placed_n_in_sub g0 n (fst s, k)); [|apply placed_n_head].
    apply sub_nodes_In. exists s. repeat split; assumption.
  - destruct (IH gk Hgk (fst gk) g old H x Hx) as [k [Hk E]]. exists k. split; [|exact E].
    apply (placed_n_in_sub g0 n gk _ Hgk Hk).
Qed.

Lemma orders_placed gr g old : In (g, old) (orders gr) ->
  forall x, In x old -> exists k, In (g, k) (placed gr) /\ nid k = x.
Proof.
  unfold orders, placed. intros [E|Hin] x Hx.
  - injection E as <- <-. apply in_map_iff in Hx. destruct Hx as [k [<- Hk]]. exists k. split; [|reflexivity].
    apply in_concat. exists (placed_n (fst gr) k). split; [apply in_map; exact Hk | apply placed_n_head].
  - apply in_concat in Hin. destruct Hin as [l [Hl Hin]]. apply in_map_iff in Hl. destruct Hl as [n [<- Hn]].
    destruct (orders_n_placed n (fst gr) g old Hin x Hx) as [k [Hk E]]. exists k. split; [|exact E].
    apply in_concat. exists (placed_n (fst gr) n). split; [apply in_map; exact Hn | exact Hk].
Qed.

Lemma placed_n_orders : forall n g0 g k, In (g, k) (placed_n g0 n) ->
  (g, k) = (g0, n) \/ exists old, In (g, old) (orders_n n) /\ In (nid k) old.
Proof.
  apply (node_ind_sub (fun n => forall g0 g k, In (g, k) (placed_n g0 n) ->
           (g, k) = (g0, n) \/ exists old, In (g, old) (orders_n n) /\ In (nid k) old)).
  intros n IH g0 g k Hin. rewrite placed_n_eq in Hin. destruct Hin as [E|Hin]; [left; symmetry; exact E|].
  right. apply in_flat_map in Hin. destruct Hin as [gk [Hgk Hin]].
  destruct (IH gk Hgk (fst gk) g k Hin) as [E|[old [Ho Hk]]].
  - apply sub_nodes_In in Hgk. destruct Hgk as [s [Hs [E1 Hks]]]. injection E as -> ->.
    exists (map nid (snd s)). split; [|apply in_map; exact Hks].
    apply orders_n_In. left. exists s. split; [exact Hs | rewrite E1; reflexivity].
  - exists old. split; [|exact Hk]. apply orders_n_In. right. exists gk. split; assumption.
Qed.

Lemma placed_orders gr g k : In (g, k) (placed gr) -> exists old, In (g, old) (orders gr) /\ In (nid k) old.
Proof.
  unfold placed, orders. intros Hin. apply in_concat in Hin. destruct Hin as [l [Hl Hin]].
  apply in_map_iff in Hl. destruct Hl as [n [<- Hn]].
  destruct (placed_n_orders n (fst gr) g k Hin) as [E|[old [Ho Hk]]].
  - injection E as -> ->. exists (map nid (snd gr)). split; [left; reflexivity | apply in_map; exact Hn].
  - exists old. split; [|exact Hk]. right. apply in_concat. exists (orders_n n). split; [apply in_map; exact Hn | exact Ho].
Qed.

Lemma assoc_unique {A} (l : list (nat * A)) k a b :
  NoDup (map fst l) -> In (k, a) l -> In (k, b) l -> a = b.
Proof.
  intros Hnd Ha Hb. rewrite <- (lookup_nodup a k a l Hnd Ha). apply (lookup_nodup a k b l Hnd Hb).
Qed.

(* ---- what sort_graph computes ------------------------------------------------------------------------ *)
Definition tflat (gr : graph) := flat_of (entries gr).
Definition tpreds (gr : graph) := preds_of (entries gr).
Definition tidx (gr : graph) := fun x => index_of x (tflat gr).
Definition new_orders (gr : graph) (out : list nat) : list (nat * list nat) :=
  map (fun go : nat * list nat =>
         (fst go, relink (snd go) (filter (fun x => Nat.eqb (owner_of (entries gr) x) (fst go)) out)))
      (orders gr).

Lemma sort_graph_spec gr : NoDup (ids gr) ->
  exists out, Final (tflat gr) (tpreds gr) (tidx gr) out /\
    sort_graph gr = if Nat.eqb (length out) (length (tflat gr))
                    then (Ok tt, new_orders gr out) else (Raise ValueError, orders gr).
Proof.
  intros Hnd.
  destruct (kahn_total (tflat gr) (tpreds gr) (tidx gr)) as [out [Hk HF]].
  - unfold tflat. rewrite flat_ids. exact Hnd.
  - intros x p. apply preds_in_flat.
  - exists out. split; [exact HF|]. unfold sort_graph, kahn_run.
    fold (tflat gr) (tpreds gr). unfold tidx in Hk. rewrite Hk. reflexivity.
Qed.

Lemma sort_graph_raise_unchanged gr e os : sort_graph gr = (Raise e, os) -> os = orders gr.
Proof.
  unfold sort_graph. destruct (kahn_run _ _) as [out|].
  - destruct (Nat.eqb _ _); intros H; [discriminate | injection H as _ <-; reflexivity].
  - intros H. injection H as _ <-. reflexivity.
Qed.

Lemma filter_owner_perm gr out g old : wf gr -> Permutation out (ids gr) -> In (g, old) (orders gr) ->
  Permutation (filter (fun x => Nat.eqb (owner_of (entries gr) x) g) out) old.
Proof.
  intros [Hnd [Hg Hno]] Hp Hin.
  assert (Hndo : NoDup out) by (apply (Permutation_NoDup (Permutation_sym Hp)); exact Hnd).
  apply NoDup_Permutation.
  - apply NoDup_filter. exact Hndo.
  - rewrite Forall_forall in Hno. apply (Hno (g, old) Hin).
  - intros x. rewrite filter_In, Nat.eqb_eq. split.
    + intros [Hx Ho]. apply (Permutation_in _ Hp) in Hx. apply ids_placed in Hx.
      destruct Hx as [g' [n [Hpl <-]]]. rewrite (owner_placed gr g' n Hnd Hpl) in Ho. subst g'.
      destruct (placed_orders gr g n Hpl) as [old' [Ho' Hx]].
      rewrite (assoc_unique (orders gr) g old old' Hg Hin Ho'). exact Hx.
    + intros Hx. destruct (orders_placed gr g old Hin x Hx) as [k [Hk <-]]. split.
      * apply (Permutation_in _ (Permutation_sym Hp)). apply ids_placed. exists g, k. split; [exact Hk | reflexivity].
      * apply owner_placed; assumption.
Qed.

Lemma new_orders_value gr out g old : wf gr -> Permutation out (ids gr) -> In (g, old) (orders gr) ->
  relink old (filter (fun x => Nat.eqb (owner_of (entries gr) x) g) out) =
  filter (fun x => Nat.eqb (owner_of (entries gr) x) g) out.
Proof.
  intros Hwf Hp Hin. apply relink_perm.
  - destruct Hwf as [_ [_ Hno]]. rewrite Forall_forall in Hno. apply (Hno (g, old) Hin).
  - apply filter_owner_perm; assumption.
Qed.

Lemma clos_trans_ext (R R' : relation nat) : (forall a b, R a b -> R' a b) ->
  forall x y, clos_trans nat R x y -> clos_trans nat R' x y.
Proof.
  intros H x y Hxy. induction Hxy as [x y Hr|x y z _ IH1 _ IH2]; [apply t_step; apply H; exact Hr|].
  apply t_trans with y; assumption.
Qed.

(* ---- theorems --------------------------------------------------------------------------------------- *)
Theorem sort_outcome gr : wf gr ->
  fst (sort_graph gr) = Ok tt \/ fst (sort_graph gr) = Raise ValueError.
Proof.
  intros [Hnd _]. destruct (sort_graph_spec gr Hnd) as [out [_ ->]].
  destruct (Nat.eqb _ _); [left | right]; reflexivity.
Qed.

Theorem sort_atomic gr e os : sort_graph gr = (Raise e, os) -> os = orders gr.
Proof. apply sort_graph_raise_unchanged. Qed.

Theorem sort_perm gr r os : wf gr -> sort_graph gr = (r, os) ->
  map fst os = map fst (orders gr) /\
  forall g old, In (g, old) (orders gr) -> exists new, In (g, new) os /\ Permutation new old.
Proof.
  intros Hwf. pose proof Hwf as [Hnd _]. destruct (sort_graph_spec gr Hnd) as [out [HF ->]].
  destruct (Nat.eqb _ _) eqn:E; intros H; injection H as <- <-.
  - apply Nat.eqb_eq in E. split; [unfold new_orders; rewrite map_map; reflexivity|].
    intros g old Hin.
    assert (Hp : Permutation out (ids gr)).
    { rewrite <- flat_ids. apply (final_complete_topo (tflat gr) (tpreds gr) (tidx gr) out HF E). }
    exists (filter (fun x => Nat.eqb (owner_of (entries gr) x) g) out). split.
    + unfold new_orders. apply in_map_iff. exists (g, old). split; [|exact Hin]. simpl. f_equal.
      apply new_orders_value; assumption.
    + apply filter_owner_perm; assumption.
  - split; [reflexivity|]. intros g old Hin. exists old. split; [exact Hin | apply Permutation_refl].
Qed.

Lemma ok_out gr os : wf gr -> sort_graph gr = (Ok tt, os) ->
  exists out, Final (tflat gr) (tpreds gr) (tidx gr) out /\ topo (tflat gr) (tpreds gr) out /\
              os = new_orders gr out.
Proof.
  intros [Hnd _]. destruct (sort_graph_spec gr Hnd) as [out [HF ->]].
  destruct (Nat.eqb _ _) eqn:E; intros H; [|discriminate]. injection H as <-.
  apply Nat.eqb_eq in E. exists out. split; [exact HF|]. split; [|reflexivity].
  apply (final_complete_topo _ _ (tidx gr)); assumption.
Qed.

Lemma topo_nested gr out : NoDup (ids gr) -> topo (tflat gr) (tpreds gr) out ->
  forall n g, In (g, n) (placed gr) -> forall m, In m (desc_n n) ->
  (exists g', In (g', m) (placed gr)) /\ (m = n \/ before (nid m) (nid n) out).
Proof.
  intros Hnd Ht.
  assert (Hndo : NoDup out).
  { apply (Permutation_NoDup (Permutation_sym (proj1 Ht))). unfold tflat. rewrite flat_ids. exact Hnd. }
  apply (node_ind_sub (fun n => forall g, In (g, n) (placed gr) -> forall m, In m (desc_n n) ->
           (exists g', In (g', m) (placed gr)) /\ (m = n \/ before (nid m) (nid n) out))).
  intros n IH g Hpl m Hm. apply desc_n_cases in Hm. destruct Hm as [->|[gk [Hgk Hm]]].
  - split; [exists g; exact Hpl | left; reflexivity].
  - assert (Hgkp : In (fst gk, snd gk) (placed gr)).
    { destruct gk as [gi k]. apply (placed_sub gr g n (gi, k) Hpl Hgk). }
    destruct (IH gk Hgk (fst gk) Hgkp m Hm) as [Hex Hor]. split; [exact Hex|]. right.
    assert (Hb : before (nid (snd gk)) (nid n) out).
    { apply (topo_before (tflat gr) (tpreds gr)); [intros x p; apply preds_in_flat | exact Ht | |].
      - unfold tflat. rewrite flat_ids. apply ids_placed. exists g, n. split; [exact Hpl | reflexivity].
      - unfold tpreds. rewrite (preds_placed gr g n Hnd Hpl). apply filter_In. split.
        + apply raw_of_In. right. exists gk. split; [exact Hgk | reflexivity].
        + apply memb_In. apply ids_placed. exists (fst gk), (snd gk). split; [exact Hgkp | reflexivity]. }
    destruct Hor as [->|Hor]; [exact Hb | apply (before_trans _ (nid (snd gk)) _ out Hndo Hor Hb)].
Qed.

Theorem sort_respects_deps gr os : wf gr -> sort_graph gr = (Ok tt, os) ->
  forall g n m p new,
    In (g, n) (placed gr) -> In m (desc_n n) -> In (Some p) (nins m) ->
    (exists n', In (g, n') (placed gr) /\ nid n' = p) ->
    In (g, new) os -> before p (nid n) new.
Proof.
  intros Hwf Hs g n m p new Hpl Hm Hp [n' [Hpl' Hn']] Hnew.
  pose proof Hwf as [Hnd [Hg Hno]].
  destruct (ok_out gr os Hwf Hs) as [out [HF [Ht ->]]].
  assert (Hndo : NoDup out).
  { apply (Permutation_NoDup (Permutation_sym (proj1 Ht))). unfold tflat. rewrite flat_ids. exact Hnd. }
  assert (Hperm : Permutation out (ids gr)) by (rewrite <- flat_ids; exact (proj1 Ht)).
  destruct (topo_nested gr out Hnd Ht n g Hpl m Hm) as [[gm Hplm] Hor].
  assert (Hpm : before p (nid m) out).
  { apply (topo_before (tflat gr) (tpreds gr)); [intros x q; apply preds_in_flat | exact Ht | |].
    - unfold tflat. rewrite flat_ids. apply ids_placed. exists gm, m. split; [exact Hplm | reflexivity].
    - unfold tpreds. rewrite (preds_placed gr gm m Hnd Hplm). apply filter_In. split.
      + apply raw_of_In. left. exact Hp.
      + apply memb_In. apply ids_placed. exists g, n'. split; assumption. }
  assert (Hpn : before p (nid n) out).
  { destruct Hor as [->|Hor]; [exact Hpm | apply (before_trans _ (nid m) _ out Hndo Hpm Hor)]. }
  unfold new_orders in Hnew. apply in_map_iff in Hnew. destruct Hnew as [[g0 old] [E Hin]].
  simpl in E. injection E as -> <-.
  rewrite (new_orders_value gr out g old Hwf Hperm Hin).
  apply before_filter; [| | exact Hpn]; apply Nat.eqb_eq.
  - rewrite <- Hn'. apply owner_placed; assumption.
  - apply owner_placed; assumption.
Qed.

Theorem sort_cycle_iff gr : wf gr ->
  (fst (sort_graph gr) = Raise ValueError <-> exists x, clos_trans nat (uses gr) x x).
Proof.
  intros Hwf. pose proof Hwf as [Hnd _].
  assert (Hfn : NoDup (tflat gr)) by (unfold tflat; rewrite flat_ids; exact Hnd).
  assert (Hpi : forall x p, In p (tpreds gr x) -> In p (tflat gr)) by (intros x p; apply preds_in_flat).
  destruct (sort_graph_spec gr Hnd) as [out [HF ->]].
  destruct (Nat.eqb _ _) eqn:E; simpl; split.
  - discriminate.
  - intros [x Hx]. exfalso. apply Nat.eqb_eq in E.
    apply (topo_acyclic (tflat gr) (tpreds gr) Hfn Hpi out (final_complete_topo _ _ (tidx gr) out HF E) x).
    apply (clos_trans_ext (uses gr)); [|exact Hx]. intros a b. apply dep_uses. exact Hnd.
  - intros _. apply Nat.eqb_neq in E.
    destruct (incomplete_cycle (tflat gr) (tpreds gr) (tidx gr) Hfn out HF E) as [x Hx].
    exists x. apply (clos_trans_ext (dep (tflat gr) (tpreds gr))); [|exact Hx]. intros a b. apply dep_uses. exact Hnd.
  - reflexivity.
Qed.

(* C12/Proofs2.v — consequences of the loop invariant: the run ends, what a complete / incomplete
   run means (topological order, cycle), relinking. *)
From Coq Require Import ZArith List Bool Arith Lia Permutation Relations.
From IRV Require Import Base.Exn C12.Model C12.Proofs1.
Import ListNotations.

Notation cnt := (count_occ Nat.eq_dec).

(* a comes strictly before b in l *)
Definition before (a b : nat) (l : list nat) : Prop :=
  exists l1 l2 l3, l = l1 ++ a :: l2 ++ b :: l3.

Lemma before_In a b l : before a b l -> In a l /\ In b l.
Proof.
  intros [l1 [l2 [l3 ->]]]. split; apply in_or_app; right; [left; reflexivity|].
  right. apply in_or_app. right. left. reflexivity.
Qed.

Lemma nodup_split_unique (x : nat) l1 l2 m1 m2 :
  NoDup (l1 ++ x :: l2) -> l1 ++ x :: l2 = m1 ++ x :: m2 -> l1 = m1 /\ l2 = m2.
Proof.
  revert m1. induction l1 as [|a l1 IH]; intros m1 Hnd E.
  - destruct m1 as [|b m1]; simpl in E.
    + injection E as E. split; [reflexivity | exact E].
    + injection E as <- E. exfalso. simpl in Hnd. inversion Hnd as [|? ? Hn _]; subst.
      apply Hn. apply in_or_app. right. left. reflexivity.
  - destruct m1 as [|b m1]; simpl in E.
    + injection E as -> E. exfalso. simpl in Hnd. inversion Hnd as [|? ? Hn _]; subst.
      apply Hn. apply in_or_app. right. left. reflexivity.
    + injection E as <- E. simpl in Hnd. inversion Hnd as [|? ? _ Hnd']; subst.
      destruct (IH m1 Hnd' E) as [-> ->]. split; reflexivity.
Qed.

Lemma before_irrefl_nodup a b l : NoDup l -> before a b l -> a <> b.
Proof.
  intros Hnd [l1 [l2 [l3 ->]]] ->. apply NoDup_remove_2 in Hnd. apply Hnd.
  apply in_or_app. right. apply in_or_app. right. left. reflexivity.
Qed.

Lemma before_trans a b c l : NoDup l -> before a b l -> before b c l -> before a c l.
Proof.
  intros Hnd [l1 [l2 [l3 E1]]] [m1 [m2 [m3 E2]]].
  assert (E : (l1 ++ a :: l2) ++ b :: l3 = m1 ++ b :: m2 ++ c :: m3).
  { rewrite <- app_assoc. simpl. rewrite <- E1. exact E2. }
  apply nodup_split_unique in E.
  - destruct E as [_ ->]. exists l1, (l2 ++ b :: m2), m3. rewrite E1.
    rewrite <- app_assoc. reflexivity.
  - rewrite <- app_assoc. simpl. rewrite <- E1. exact Hnd.
Qed.

Lemma before_of_split a l1 c l2 : In a l1 -> before a c (l1 ++ c :: l2).
Proof.
  intros H. apply in_split in H. destruct H as [k1 [k2 ->]].
  exists k1, k2, l2. rewrite <- app_assoc. reflexivity.
Qed.

Lemma before_filter f a b l : f a = true -> f b = true -> before a b l -> before a b (filter f l).
Proof.
  intros Ha Hb [l1 [l2 [l3 ->]]]. exists (filter f l1), (filter f l2), (filter f l3).
  rewrite filter_app. simpl. rewrite Ha. rewrite filter_app. simpl. rewrite Hb. reflexivity.
Qed.

Lemma before_filter_inv f a b l : before a b (filter f l) -> before a b l.
Proof.
  revert a b. induction l as [|x l IH]; intros a b [l1 [l2 [l3 E]]].
  - destruct l1; discriminate.
  - simpl in E. destruct (f x).
    + destruct l1 as [|y l1]; simpl in E; injection E as <- E.
      * assert (Hb : In b l).
        { assert (H : In b (filter f l)) by (rewrite E; apply in_or_app; right; left; reflexivity).
          apply filter_In in H. tauto. }
        apply in_split in Hb. destruct Hb as [k1 [k2 ->]]. exists [], k1, k2. reflexivity.
      * destruct (IH a b) as [k1 [k2 [k3 ->]]]; [exists l1, l2, l3; exact E|].
        exists (x :: k1), k2, k3. reflexivity.
    + destruct (IH a b) as [k1 [k2 [k3 ->]]]; [exists l1, l2, l3; exact E|].
      exists (x :: k1), k2, k3. reflexivity.
Qed.

Section Kahn2.
Variable flat : list nat.
Variable preds : nat -> list nat.
Variable idx : nat -> nat.
Hypothesis flat_nodup : NoDup flat.
Hypothesis preds_in : forall x p, In p (preds x) -> In p flat.

Lemma cnt_concat_pos_ex (f : nat -> bool) p : forall l,
  0 < cnt (concat (map preds (filter f l))) p -> exists u, In u l /\ f u = true /\ In p (preds u).
Proof.
  induction l as [|a l IH]; simpl; [lia|].
  destruct (f a) eqn:E.
  - simpl. rewrite count_occ_app. intros H.
    destruct (in_dec Nat.eq_dec p (preds a)) as [Hp|Hp].
    + exists a. repeat split; [left; reflexivity | exact E | exact Hp].
    + rewrite (proj1 (count_occ_not_In Nat.eq_dec _ _) Hp) in H.
      destruct (IH H) as [u [Hu [Hf Hpu]]]. exists u. repeat split; [right; exact Hu | exact Hf | exact Hpu].
  - intros H. destruct (IH H) as [u [Hu [Hf Hpu]]]. exists u. repeat split; [right; exact Hu | exact Hf | exact Hpu].
Qed.

Lemma inv_final d out : Inv flat preds idx d [] out -> Final flat preds idx out.
Proof.
  intros I. split; [exact (inv_out_nodup _ _ _ _ _ _ I)|]. split; [exact (inv_out_flat _ _ _ _ _ _ I)|].
  split; [|split; [exact (inv_users _ _ _ _ _ _ I) | exact (inv_max _ _ _ _ _ _ I)]].
  intros x Hx Hxo.
  assert (Hd : d x <> 0%Z).
  { intros Hz. apply (proj2 (inv_q _ _ _ _ _ _ I x)). repeat split; assumption. }
  rewrite (inv_d _ _ _ _ _ _ I x) in Hd.
  destruct (cnt_concat_pos_ex (fun c => negb (memb c out)) x flat) as [u [Hu [Hf Hp]]].
  - unfold ucount in Hd. lia.
  - exists u. repeat split; [exact Hu | | exact Hp].
    apply memb_false. destruct (memb u out); [discriminate | reflexivity].
Qed.

(* The run never runs out of fuel and its result satisfies Final. *)
Lemma kahn_total :
  let d0 := depth0 flat preds in
  exists out, kahn idx preds (length flat) d0 (filter (fun x => (d0 x =? 0)%Z) flat) [] = Some out
              /\ Final flat preds idx out.
Proof.
  intros d0.
  destruct (kahn_inv flat preds idx flat_nodup preds_in (length flat) d0
              (filter (fun x => (d0 x =? 0)%Z) flat) []) as [out [d' [Hk I]]].
  - apply inv_init; assumption.
  - reflexivity.
  - exists out. split; [exact Hk | apply (inv_final d'); exact I].
Qed.

(* a dependency-respecting arrangement of the flattened nodes: every user after its predecessor *)
Definition topo (l : list nat) : Prop :=
  Permutation l flat /\
  forall l1 c l2, l = l1 ++ c :: l2 -> forall u, In u flat -> In c (preds u) -> In u l2.

Lemma final_complete_topo out :
  Final flat preds idx out -> length out = length flat -> topo out.
Proof.
  intros [Hnd [Hincl [_ [Hus _]]]] Hlen. split; [|exact Hus].
  apply NoDup_Permutation_bis; [exact Hnd | lia | exact Hincl].
Qed.

Lemma topo_before l u c : topo l -> In u flat -> In c (preds u) -> before c u l.
Proof.
  intros [Hp Hus] Hu Hc.
  assert (Hcl : In c l) by (apply (Permutation_in _ (Permutation_sym Hp)); exact (preds_in _ _ Hc)).
  apply in_split in Hcl. destruct Hcl as [l1 [l2 E]].
  pose proof (Hus l1 c l2 E u Hu Hc) as H. apply in_split in H. destruct H as [k1 [k2 ->]].
  exists l1, k1, k2. exact E.
Qed.

(* if any dependency-respecting arrangement exists, the run pops every node *)
Lemma topo_exists_complete out L :
  Final flat preds idx out -> topo L -> length out = length flat.
Proof.
  intros [Hnd [Hincl [Hstuck _]]] [HpL HusL].
  assert (Hall : forall l2 l1, L = l1 ++ l2 -> forall x, In x l2 -> In x out).
  { induction l2 as [|c l2 IH]; intros l1 E x Hx; [destruct Hx|].
    assert (IH' : forall y, In y l2 -> In y out).
    { apply (IH (l1 ++ [c])). rewrite <- app_assoc. exact E. }
    destruct Hx as [<-|Hx]; [|apply IH'; exact Hx].
    destruct (in_dec Nat.eq_dec c out) as [H|H]; [exact H|]. exfalso.
    assert (Hcf : In c flat).
    { apply (Permutation_in _ HpL). rewrite E. apply in_or_app. right. left. reflexivity. }
    destruct (Hstuck c Hcf H) as [u [Hu [Huo Hcu]]].
    apply Huo. apply IH'. exact (HusL l1 c l2 E u Hu Hcu). }
  assert (Hfo : incl flat out).
  { intros x Hx. apply (Hall L [] eq_refl). apply (Permutation_in _ (Permutation_sym HpL)). exact Hx. }
  apply Nat.le_antisymm.
  - apply NoDup_incl_length; assumption.
  - apply NoDup_incl_length; assumption.
Qed.

(* ---- cycles ------------------------------------------------------------------------------------ *)
(* dep u c: u depends directly on c (c is a recorded predecessor of the flattened node u) *)
Definition dep (u c : nat) : Prop := In u flat /\ In c (preds u).

Lemma topo_acyclic l : topo l -> forall x, ~ clos_trans nat dep x x.
Proof.
  intros Ht.
  assert (Hnd : NoDup l) by (apply (Permutation_NoDup (Permutation_sym (proj1 Ht))); exact flat_nodup).
  assert (H : forall x y, clos_trans nat dep x y -> before y x l).
  { intros x y Hxy. induction Hxy as [x y [Hx Hy]|x y z _ IH1 _ IH2].
    - apply topo_before; assumption.
    - apply (before_trans z y x l Hnd); assumption. }
  intros x Hx. apply H in Hx. exact (before_irrefl_nodup x x l Hnd Hx eq_refl).
Qed.

(* a walk of n steps inside the stuck set *)
Lemma stuck_walk out : Final flat preds idx out -> forall n x, In x flat -> ~ In x out ->
  exists w, length w = S n /\ hd x w = x /\ (forall y, In y w -> In y flat /\ ~ In y out) /\
            (forall w1 a b w2, w = w1 ++ a :: b :: w2 -> dep b a).
Proof.
  intros [_ [_ [Hstuck _]]]. induction n as [|n IH]; intros x Hx Hxo.
  - exists [x]. repeat split; try reflexivity.
    + destruct H as [<-|[]]; exact Hx.
    + destruct H as [<-|[]]; exact Hxo.
    + destruct w1 as [|? [|? ?]]; discriminate.
    + destruct w1 as [|? [|? ?]]; discriminate.
  - destruct (Hstuck x Hx Hxo) as [u [Hu [Huo Hxu]]].
    destruct (IH u Hu Huo) as [w [Hlen [Hhd [Hin Hstep]]]].
    exists (x :: w). split; [simpl; lia|]. split; [reflexivity|]. split.
    + intros y [<-|Hy]; [split; assumption | apply Hin; exact Hy].
    + intros w1 a b w2 E. destruct w1 as [|c w1]; simpl in E; injection E as -> E.
      * destruct w as [|b' w']; [discriminate|]. injection E as -> _. simpl in Hhd. subst b.
        split; assumption.
      * apply (Hstep w1 a b w2 E).
Qed.

Lemma walk_segment_path (w : list nat) :
  (forall w1 a b w2, w = w1 ++ a :: b :: w2 -> dep b a) ->
  forall m a z m', w = m ++ a :: m' -> In z m' -> clos_trans nat dep z a.
Proof.
  intros Hstep m a z m'. revert m a. induction m' as [|b m' IH]; intros m a E Hz; [destruct Hz|].
  assert (Hba : dep b a) by (apply (Hstep m a b m'); exact E).
  destruct Hz as [<-|Hz]; [apply t_step; exact Hba|].
  apply t_trans with b; [|apply t_step; exact Hba].
  apply (IH (m ++ [a]) b); [rewrite <- app_assoc; exact E | exact Hz].
Qed.

Lemma incomplete_cycle out :
  Final flat preds idx out -> length out <> length flat -> exists x, clos_trans nat dep x x.
Proof.
  intros HF Hlen. pose proof HF as [Hnd [Hincl _]].
  assert (Hex : exists x, In x flat /\ ~ In x out).
  { destruct (forallb (fun x => memb x out) flat) eqn:E.
    - exfalso. apply Hlen. apply Nat.le_antisymm; [apply NoDup_incl_length; assumption|].
      apply NoDup_incl_length; [exact flat_nodup|]. intros x Hx.
      rewrite forallb_forall in E. apply memb_In. apply E. exact Hx.
    - assert (E' : existsb (fun x => negb (memb x out)) flat = true).
      { clear -E. induction flat as [|a l IH]; simpl in *; [discriminate|].
        destruct (memb a out); simpl in *; [apply IH; exact E | reflexivity]. }
      apply existsb_exists in E'. destruct E' as [x [Hx Hm]]. exists x. split; [exact Hx|].
      apply memb_false. destruct (memb x out); [discriminate | reflexivity]. }
  destruct Hex as [x [Hx Hxo]].
  destruct (stuck_walk out HF (length flat) x Hx Hxo) as [w [Hlenw [_ [Hin Hstep]]]].
  assert (Hdup : ~ NoDup w).
  { intros Hndw. assert (length w <= length flat); [|lia].
    apply NoDup_incl_length; [exact Hndw|]. intros y Hy. apply Hin. exact Hy. }
  assert (Hrep : forall l : list nat, ~ NoDup l -> exists a l1 l2, l = l1 ++ a :: l2 /\ In a l2).
  { clear. induction l as [|a l IH]; intros H; [exfalso; apply H; constructor|].
    destruct (in_dec Nat.eq_dec a l) as [Ha|Ha].
    - exists a, [], l. split; [reflexivity | exact Ha].
    - destruct IH as [b [l1 [l2 [-> Hb]]]].
      + intros Hn. apply H. constructor; assumption.
      + exists b, (a :: l1), l2. split; [reflexivity | exact Hb]. }
  destruct (Hrep w Hdup) as [a [l1 [l2 [E Ha]]]].
  exists a. apply (walk_segment_path w Hstep l1 a a l2 E Ha).
Qed.

End Kahn2.

Lemma nodup_app_iff (l1 l2 : list nat) :
  NoDup (l1 ++ l2) <-> NoDup l1 /\ NoDup l2 /\ forall x, In x l1 -> ~ In x l2.
Proof.
  induction l1 as [|a l1 IH]; simpl.
  - split; [intros H; repeat split; [constructor | exact H | intros x []] | tauto].
  - split.
    + intros H. inversion H as [|? ? Hn Hnd]; subst. apply IH in Hnd. destruct Hnd as [H1 [H2 H3]].
      split; [constructor; [intros Hi; apply Hn; apply in_or_app; left; exact Hi | exact H1]|].
      split; [exact H2|]. intros x [<-|Hx]; [intros Hi; apply Hn; apply in_or_app; right; exact Hi | apply H3; exact Hx].
    + intros [H1 [H2 H3]]. inversion H1 as [|? ? Hn Hnd]; subst. constructor.
      * intros Hi. apply in_app_or in Hi. destruct Hi as [Hi|Hi]; [contradiction|]. apply (H3 a); [left; reflexivity | exact Hi].
      * apply IH. split; [exact Hnd|]. split; [exact H2|]. intros x Hx. apply H3. right. exact Hx.
Qed.

(* ---- relinking: extending a sequence with a rearrangement of itself yields the rearrangement --- *)
Lemma relink_aux new : forall old done,
  NoDup (done ++ new) -> (forall x, In x old <-> In x (done ++ new)) -> NoDup old ->
  (exists rest, old = rest ++ done /\ forall x, In x rest <-> In x new) ->
  fold_left (fun l x => remove1 x l ++ [x]) new old = done ++ new.
Proof.
  induction new as [|a new IH]; intros old done Hnd Hsame Hndo [rest [E Hrest]]; simpl.
  - rewrite app_nil_r. destruct rest as [|r rest]; [exact E|].
    exfalso. apply (Hrest r). left. reflexivity.
  - replace (done ++ a :: new) with ((done ++ [a]) ++ new) by (rewrite <- app_assoc; reflexivity).
    assert (Har : In a rest) by (apply Hrest; left; reflexivity).
    assert (Had : ~ In a done).
    { intros H. apply NoDup_remove_2 in Hnd. apply Hnd. apply in_or_app. left. exact H. }
    assert (Hrm : remove1 a old = remove1 a rest ++ done).
    { subst old. clear -Har. induction rest as [|r rest IH]; [destruct Har|].
      simpl. destruct (Nat.eqb a r) eqn:Er; [reflexivity|].
      simpl. f_equal. apply IH. destruct Har as [->|H]; [rewrite Nat.eqb_refl in Er; discriminate | exact H]. }
    assert (Hsp : NoDup rest /\ NoDup done /\ forall x, In x rest -> ~ In x done).
    { apply nodup_app_iff. rewrite <- E. exact Hndo. }
    destruct Hsp as [Hndr [Hdn Hdisj]].
    apply IH.
    + rewrite <- app_assoc. exact Hnd.
    + intros x. rewrite Hrm. rewrite <- (app_assoc done [a] new). simpl.
      rewrite <- Hsame. rewrite E. rewrite !in_app_iff. simpl.
      rewrite (remove1_In_nodup a rest Hndr x).
      destruct (Nat.eq_dec x a) as [->|Hne].
      * split; intros _; [left; exact Har | right; left; reflexivity].
      * assert (Hne' : a <> x) by congruence. tauto.
    + rewrite Hrm. rewrite <- app_assoc. apply nodup_app_iff.
      split; [apply remove1_nodup; exact Hndr|]. split.
      * apply nodup_app_iff. split; [exact Hdn|]. split; [constructor; [intros []|constructor]|].
        intros x Hx [<-|[]]. contradiction.
      * intros x Hx Hd. apply (remove1_In_nodup a rest Hndr) in Hx. destruct Hx as [Hx Hne].
        apply in_app_or in Hd. destruct Hd as [Hd|[->|[]]]; [exact (Hdisj x Hx Hd) | congruence].
    + exists (remove1 a rest). split; [rewrite Hrm; rewrite <- app_assoc; reflexivity|].
      intros x. rewrite (remove1_In_nodup a rest Hndr x), Hrest. simpl.
      assert (Han : ~ In a new).
      { apply NoDup_remove_2 in Hnd. intros H. apply Hnd. apply in_or_app. right. exact H. }
      split; [intros [[->|H] Hne]; [congruence | exact H]|].
      intros H. split; [right; exact H | intros ->; contradiction].
Qed.

Lemma relink_perm old new : NoDup old -> Permutation new old -> relink old new = new.
Proof.
  intros Hnd Hp. unfold relink. apply (relink_aux new old []); simpl.
  - apply (Permutation_NoDup (Permutation_sym Hp)). exact Hnd.
  - intros x. split; [apply Permutation_in; apply Permutation_sym; exact Hp | apply Permutation_in; exact Hp].
  - exact Hnd.
  - exists old. split; [rewrite app_nil_r; reflexivity|].
    intros x. split; [apply Permutation_in; apply Permutation_sym; exact Hp | apply Permutation_in; exact Hp].
Qed.

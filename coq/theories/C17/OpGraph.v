(* C17/OpGraph.v — Graph.__init__ (Model.new_graph) preserves the heap invariant: proof of Specs.new_graph_spec. *)
From Coq Require Import NArith List Bool Arith Lia.
From IRV Require Import Base.Exn C03.Model C03.Inv C17.Basics C17.Specs.
Import ListNotations.

(* ------------------------------------------------------------------ boolean membership *)

Definition memb (v : nat) (l : list nat) : bool := existsb (Nat.eqb v) l.

Lemma memb_In v l : memb v l = true <-> In v l.
Proof.
  unfold memb. rewrite existsb_exists. split.
  - intros (w & Hw & E). apply Nat.eqb_eq in E. subst; auto.
  - intros H. exists v. split; auto. apply Nat.eqb_refl.
Qed.

Lemma memb_notIn v l : memb v l = false <-> ~ In v l.
Proof.
  rewrite <- memb_In. destruct (memb v l); split; intros H; auto; try discriminate.
  exfalso; apply H; reflexivity.
Qed.

Lemma memb_cons_eq v r : memb v (v :: r) = true.
Proof. unfold memb; simpl. rewrite Nat.eqb_refl; auto. Qed.

Lemma memb_cons_neq v w r : w <> v -> memb v (w :: r) = memb v r.
Proof.
  intros H. unfold memb; simpl. destruct (Nat.eqb_spec v w); auto. congruence.
Qed.

(* ------------------------------------------------------------------ the three role setters *)

Definition f_in (gid : nat) (x : value) : value := with_own (Some gid) true (v_out x) (v_init x) x.
Definition f_out (gid : nat) (x : value) : value := with_own (Some gid) (v_in x) true (v_init x) x.
Definition f_init (gid : nat) (x : value) : value := with_own (Some gid) (v_in x) (v_out x) true x.

Definition owner_free (gid : nat) (x : value) : Prop := v_owner x = None \/ v_owner x = Some gid.

Lemma owner_ok_free x gid : owner_ok x gid = true -> owner_free gid x.
Proof.
  unfold owner_ok, owner_free. destruct (v_owner x) as [g|]; auto.
  intros H. apply Nat.eqb_eq in H. subst; auto.
Qed.

(* --- set_inputs *)
Lemma set_inputs_length l gid vs l' : set_inputs l gid vs = Ok l' -> length l' = length l.
Proof.
  revert l; induction vs as [|w r IH]; intros l H; simpl in H.
  - inversion H; auto.
  - destruct (nth_error l w) as [x|]; [|discriminate].
    destruct (owner_ok x gid && match v_prod x with None => true | Some _ => false end); [|discriminate].
    apply IH in H. rewrite H, upd_length; auto.
Qed.

Lemma set_inputs_nth l gid vs l' v : set_inputs l gid vs = Ok l' ->
  nth_error l' v = option_map (fun x => if memb v vs then f_in gid x else x) (nth_error l v).
Proof.
  revert l; induction vs as [|w r IH]; intros l H; simpl in H.
  - inversion H; subst. destruct (nth_error l' v); auto.
  - destruct (nth_error l w) as [x0|] eqn:E0; [|discriminate].
    destruct (owner_ok x0 gid && match v_prod x0 with None => true | Some _ => false end); [|discriminate].
    apply IH in H. rewrite H, nth_error_upd.
    destruct (Nat.eqb_spec w v) as [->|Hn].
    + rewrite memb_cons_eq. destruct (nth_error l v) as [x|]; simpl; auto.
      destruct (memb v r); auto.
    + rewrite (memb_cons_neq v w r Hn). reflexivity.
Qed.

Lemma set_inputs_chk l gid vs l' v : set_inputs l gid vs = Ok l' -> In v vs ->
  exists x, nth_error l v = Some x /\ owner_free gid x /\ v_prod x = None.
Proof.
  revert l; induction vs as [|w r IH]; intros l H Hin; simpl in H; [destruct Hin|].
  destruct (nth_error l w) as [x0|] eqn:E0; [|discriminate].
  destruct (owner_ok x0 gid && match v_prod x0 with None => true | Some _ => false end) eqn:Ec; [|discriminate].
  apply andb_prop in Ec. destruct Ec as (Eo & Ep).
  destruct (Nat.eq_dec w v) as [->|Hn].
  - exists x0. split; auto. split; [apply owner_ok_free; auto|]. destruct (v_prod x0); congruence.
  - destruct Hin as [Hin|Hin]; [congruence|].
    destruct (IH _ H Hin) as (x & Hx & Hf & Hp). rewrite nth_error_upd_neq in Hx by auto. eauto.
Qed.

(* --- set_outputs *)
Lemma set_outputs_length l gid vs l' : set_outputs l gid vs = Ok l' -> length l' = length l.
Proof.
  revert l; induction vs as [|w r IH]; intros l H; simpl in H.
  - inversion H; auto.
  - destruct (nth_error l w) as [x|]; [|discriminate].
    destruct (owner_ok x gid); [|discriminate].
    apply IH in H. rewrite H, upd_length; auto.
Qed.

Lemma set_outputs_nth l gid vs l' v : set_outputs l gid vs = Ok l' ->
  nth_error l' v = option_map (fun x => if memb v vs then f_out gid x else x) (nth_error l v).
Proof.
  revert l; induction vs as [|w r IH]; intros l H; simpl in H.
  - inversion H; subst. destruct (nth_error l' v); auto.
  - destruct (nth_error l w) as [x0|] eqn:E0; [|discriminate].
    destruct (owner_ok x0 gid); [|discriminate].
    apply IH in H. rewrite H, nth_error_upd.
    destruct (Nat.eqb_spec w v) as [->|Hn].
    + rewrite memb_cons_eq. destruct (nth_error l v) as [x|]; simpl; auto.
      destruct (memb v r); auto.
    + rewrite (memb_cons_neq v w r Hn). reflexivity.
Qed.

Lemma set_outputs_chk l gid vs l' v : set_outputs l gid vs = Ok l' -> In v vs ->
  exists x, nth_error l v = Some x /\ owner_free gid x.
Proof.
  revert l; induction vs as [|w r IH]; intros l H Hin; simpl in H; [destruct Hin|].
  destruct (nth_error l w) as [x0|] eqn:E0; [|discriminate].
  destruct (owner_ok x0 gid) eqn:Eo; [|discriminate].
  destruct (Nat.eq_dec w v) as [->|Hn].
  - exists x0. split; auto. apply owner_ok_free; auto.
  - destruct Hin as [Hin|Hin]; [congruence|].
    destruct (IH _ H Hin) as (x & Hx & Hf). rewrite nth_error_upd_neq in Hx by auto. eauto.
Qed.

(* --- set_inits *)
Lemma set_inits_length l gid (d : list (name * nat)) l' : set_inits l gid d = Ok l' -> length l' = length l.
Proof.
  revert l; induction d as [|[k w] r IH]; intros l H; simpl in H.
  - inversion H; auto.
  - destruct (nth_error l w) as [x|]; [|discriminate].
    destruct (owner_ok x gid); [|discriminate].
    apply IH in H. rewrite H, upd_length; auto.
Qed.

Lemma set_inits_nth l gid (d : list (name * nat)) l' v : set_inits l gid d = Ok l' ->
  nth_error l' v = option_map (fun x => if memb v (map snd d) then f_init gid x else x) (nth_error l v).
Proof.
  revert l; induction d as [|[k w] r IH]; intros l H; simpl in H.
  - inversion H; subst. destruct (nth_error l' v); auto.
  - destruct (nth_error l w) as [x0|] eqn:E0; [|discriminate].
    destruct (owner_ok x0 gid); [|discriminate].
    apply IH in H. rewrite H, nth_error_upd. simpl map.
    destruct (Nat.eqb_spec w v) as [->|Hn].
    + rewrite memb_cons_eq. destruct (nth_error l v) as [x|]; simpl; auto.
      destruct (memb v (map snd r)); auto.
    + rewrite (memb_cons_neq v w _ Hn). reflexivity.
Qed.

Lemma set_inits_chk l gid (d : list (name * nat)) l' v : set_inits l gid d = Ok l' -> In v (map snd d) ->
  exists x, nth_error l v = Some x /\ owner_free gid x.
Proof.
  revert l; induction d as [|[k w] r IH]; intros l H Hin; simpl in H; [destruct Hin|].
  destruct (nth_error l w) as [x0|] eqn:E0; [|discriminate].
  destruct (owner_ok x0 gid) eqn:Eo; [|discriminate].
  destruct (Nat.eq_dec w v) as [->|Hn].
  - exists x0. split; auto. apply owner_ok_free; auto.
  - destruct Hin as [Hin|Hin]; [simpl in Hin; congruence|].
    destruct (IH _ H Hin) as (x & Hx & Hf). rewrite nth_error_upd_neq in Hx by auto. eauto.
Qed.

(* --- set_ngraphs *)
Definition nnode (gid : nat) (nodes : list nat) (n : nat) (y : node) : node :=
  if memb n nodes then with_ngraph (Some gid) y else y.

Lemma set_ngraphs_length l gid ns l' : set_ngraphs l gid ns = Ok l' -> length l' = length l.
Proof.
  revert l; induction ns as [|w r IH]; intros l H; simpl in H.
  - inversion H; auto.
  - destruct (nth_error l w) as [y|]; [|discriminate].
    destruct (match n_graph y with None => true | Some g => Nat.eqb g gid end); [|discriminate].
    apply IH in H. rewrite H, upd_length; auto.
Qed.

Lemma set_ngraphs_nth l gid ns l' n : set_ngraphs l gid ns = Ok l' ->
  nth_error l' n = option_map (nnode gid ns n) (nth_error l n).
Proof.
  unfold nnode. revert l; induction ns as [|w r IH]; intros l H; simpl in H.
  - inversion H; subst. destruct (nth_error l' n); auto.
  - destruct (nth_error l w) as [y0|] eqn:E0; [|discriminate].
    destruct (match n_graph y0 with None => true | Some g => Nat.eqb g gid end); [|discriminate].
    apply IH in H. rewrite H, nth_error_upd.
    destruct (Nat.eqb_spec w n) as [->|Hn].
    + rewrite memb_cons_eq. destruct (nth_error l n) as [y|]; simpl; auto.
      destruct (memb n r); auto.
    + rewrite (memb_cons_neq n w r Hn). reflexivity.
Qed.

Lemma set_ngraphs_chk l gid ns l' n : set_ngraphs l gid ns = Ok l' -> In n ns ->
  exists y, nth_error l n = Some y /\ (n_graph y = None \/ n_graph y = Some gid).
Proof.
  revert l; induction ns as [|w r IH]; intros l H Hin; simpl in H; [destruct Hin|].
  destruct (nth_error l w) as [y0|] eqn:E0; [|discriminate].
  destruct (match n_graph y0 with None => true | Some g => Nat.eqb g gid end) eqn:Eo; [|discriminate].
  destruct (Nat.eq_dec w n) as [->|Hn].
  - exists y0. split; auto. destruct (n_graph y0) as [g|]; auto. apply Nat.eqb_eq in Eo. subst; auto.
  - destruct Hin as [Hin|Hin]; [congruence|].
    destruct (IH _ H Hin) as (y & Hy & Hf). rewrite nth_error_upd_neq in Hy by auto. eauto.
Qed.

(* ------------------------------------------------------------------ keyed / dict_of *)

Lemma keyed_in l vs kv k v : keyed l vs = Ok kv -> In (k, v) kv ->
  In v vs /\ exists x, nth_error l v = Some x /\ v_name x = Some k.
Proof.
  revert kv; induction vs as [|w r IH]; intros kv H Hin; simpl in H.
  - inversion H; subst. destruct Hin.
  - destruct (nth_error l w) as [x|] eqn:E; [|discriminate].
    destruct (v_name x) as [k0|] eqn:En; [|discriminate].
    destruct (keyed l r) as [t|e]; [|discriminate].
    inversion H; subst kv. destruct Hin as [Hin|Hin].
    + inversion Hin; subst. split; [left; auto|eauto].
    + destruct (IH t eq_refl Hin) as (A & B). split; [right; auto|auto].
Qed.

Lemma dict_set_in {A} k (a : A) l k' a' : In (k', a') (dict_set k a l) -> (k', a') = (k, a) \/ In (k', a') l.
Proof.
  induction l as [|[k0 a0] r IH]; simpl; intros H.
  - destruct H as [H|[]]; auto.
  - destruct (N.eqb k k0).
    + destruct H as [H|H]; auto.
    + destruct H as [H|H]; auto. destruct (IH H); auto.
Qed.

Lemma dict_set_keys {A} k (a : A) l k' : In k' (map fst (dict_set k a l)) -> k' = k \/ In k' (map fst l).
Proof.
  induction l as [|[k0 a0] r IH]; simpl; intros H.
  - destruct H as [H|[]]; auto.
  - destruct (N.eqb_spec k k0) as [->|Hn]; simpl in H.
    + destruct H as [H|H]; auto.
    + destruct H as [H|H]; auto. destruct (IH H); auto.
Qed.

Lemma dict_set_nodup {A} k (a : A) l : NoDup (map fst l) -> NoDup (map fst (dict_set k a l)).
Proof.
  induction l as [|[k0 a0] r IH]; simpl; intros H.
  - constructor; [intros []|constructor].
  - inversion H; subst. destruct (N.eqb_spec k k0) as [->|Hn]; simpl.
    + constructor; auto.
    + constructor; auto. intros Hk. apply dict_set_keys in Hk. destruct Hk as [Hk|Hk]; auto.
Qed.

Lemma dict_of_in {A} (acc l : list (N * A)) k a : In (k, a) (dict_of acc l) -> In (k, a) acc \/ In (k, a) l.
Proof.
  revert acc; induction l as [|[k0 a0] r IH]; intros acc H; simpl in *; auto.
  destruct (IH _ H) as [H1|H1]; auto.
  apply dict_set_in in H1. destruct H1 as [H1|H1]; auto.
Qed.

Lemma dict_of_nodup {A} (acc l : list (N * A)) : NoDup (map fst acc) -> NoDup (map fst (dict_of acc l)).
Proof.
  revert acc; induction l as [|[k0 a0] r IH]; intros acc H; simpl; auto.
  apply IH. apply dict_set_nodup; auto.
Qed.

(* ------------------------------------------------------------------ the value after Graph.__init__ *)

Definition gval (gid : nat) (ins outs dvs : list nat) (v : nat) (x : value) : value :=
  mkV (v_name x) (v_prod x) (v_uses x)
      (if memb v ins || memb v outs || memb v dvs then Some gid else v_owner x)
      (memb v ins || v_in x) (memb v outs || v_out x) (memb v dvs || v_init x)
      (v_const x) (v_info x).

Lemma gval_compose gid ins outs dvs v x :
  (if memb v dvs then f_init gid else fun x => x)
    ((if memb v outs then f_out gid else fun x => x)
       ((if memb v ins then f_in gid else fun x => x) x)) = gval gid ins outs dvs v x.
Proof.
  unfold gval. destruct x. destruct (memb v ins), (memb v outs), (memb v dvs); reflexivity.
Qed.

Lemma gval_untouched gid ins outs dvs v x :
  memb v ins || memb v outs || memb v dvs = false -> gval gid ins outs dvs v x = x.
Proof.
  intros H. apply orb_false_elim in H. destruct H as (H & H3). apply orb_false_elim in H. destruct H as (H1 & H2).
  unfold gval. rewrite H1, H2, H3. destruct x; reflexivity.
Qed.

Lemma new_graph_values l gid ins outs (d : list (name * nat)) l1 l2 l3 v :
  set_inputs l gid ins = Ok l1 -> set_outputs l1 gid outs = Ok l2 -> set_inits l2 gid d = Ok l3 ->
  nth_error l3 v = option_map (gval gid ins outs (map snd d) v) (nth_error l v).
Proof.
  intros H1 H2 H3.
  rewrite (set_inits_nth _ _ _ _ v H3), (set_outputs_nth _ _ _ _ v H2), (set_inputs_nth _ _ _ _ v H1).
  destruct (nth_error l v) as [x|]; simpl; auto.
  rewrite <- gval_compose. destruct (memb v ins), (memb v outs), (memb v (map snd d)); reflexivity.
Qed.

(* ------------------------------------------------------------------ the heap after Graph.__init__ *)

Lemma nnode_inputs gid nodes n y : n_inputs (nnode gid nodes n y) = n_inputs y.
Proof. unfold nnode. destruct (memb n nodes); reflexivity. Qed.
Lemma nnode_outputs gid nodes n y : n_outputs (nnode gid nodes n y) = n_outputs y.
Proof. unfold nnode. destruct (memb n nodes); reflexivity. Qed.
Lemma nnode_graph gid nodes n y :
  n_graph (nnode gid nodes n y) = if memb n nodes then Some gid else n_graph y.
Proof. unfold nnode. destruct (memb n nodes); reflexivity. Qed.

Section NewGraph.
  Variables (h : heap) (gname gtok : N) (ins outs inits : list nat) (d : list (name * nat))
            (nodes : list nat) (l3 : list value) (ln : list node).
  Let gid := ngr h.
  Let dvs := map snd d.
  Hypothesis HI : Inv h.
  Hypothesis Hl3 : forall v, nth_error l3 v = option_map (gval gid ins outs dvs v) (nth_error (hv h) v).
  Hypothesis Hln : forall n, nth_error ln n = option_map (nnode gid nodes n) (nth_error (hn h) n).
  Hypothesis Hlen3 : length l3 = length (hv h).
  Hypothesis Hlenn : length ln = length (hn h).
  Hypothesis Hins : forall v, In v ins -> exists x, getv h v = Some x /\ v_owner x = None /\ v_prod x = None.
  Hypothesis Houts : forall v, In v outs -> exists x, getv h v = Some x /\ v_owner x = None.
  Hypothesis Hd : forall k v, In (k, v) d ->
    In v inits /\ exists x, getv h v = Some x /\ v_owner x = None /\ v_name x = Some k.
  Hypothesis Hdnd : NoDup (map fst d).
  Hypothesis Hnodes : forall n, In n nodes -> exists y, getn h n = Some y /\ n_graph y = None.
  Hypothesis Hnd : NoDup nodes.
  Hypothesis Hinits : forall v x, In v inits -> getv h v = Some x -> v_prod x = None.

  Let newg := mkG gname gtok ins outs d nodes.
  Let h' := mkH l3 ln (hg h ++ [newg]) (ht h).
  Let touched (v : nat) : bool := memb v ins || memb v outs || memb v dvs.

  Lemma ng_nv' : nv h' = nv h.
  Proof. unfold nv, h'; simpl; auto. Qed.
  Lemma ng_nn' : nn h' = nn h.
  Proof. unfold nn, h'; simpl; auto. Qed.
  Lemma ng_ngr' : ngr h' = S (ngr h).
  Proof. unfold ngr, h'; simpl. rewrite app_length; simpl; lia. Qed.

  Lemma ng_getg_old g : g < gid -> getg h' g = getg h g.
  Proof. intros H. unfold getg, h'; simpl. apply nth_error_app_old; auto. Qed.
  Lemma ng_getg_old' g z : getg h g = Some z -> getg h' g = Some z.
  Proof. intros H. rewrite ng_getg_old; auto. eapply getg_lt; eauto. Qed.
  Lemma ng_getg_new : getg h' gid = Some newg.
  Proof. unfold getg, h', gid, ngr; simpl. apply nth_error_app_new. Qed.
  Lemma ng_getg_inv g z : getg h' g = Some z -> (g < gid /\ getg h g = Some z) \/ (g = gid /\ z = newg).
  Proof. unfold getg, h'; simpl. apply nth_error_app_inv. Qed.

  Lemma ng_getv v : getv h' v = option_map (gval gid ins outs dvs v) (getv h v).
  Proof. unfold getv, h'; simpl. apply Hl3. Qed.
  Lemma ng_getv_inv v x' : getv h' v = Some x' ->
    exists x, getv h v = Some x /\ x' = gval gid ins outs dvs v x.
  Proof. rewrite ng_getv. destruct (getv h v) as [x|]; simpl; intros H; inversion H; eauto. Qed.

  Lemma ng_getn n : getn h' n = option_map (nnode gid nodes n) (getn h n).
  Proof. unfold getn, h'; simpl. apply Hln. Qed.
  Lemma ng_getn_inv n y : getn h' n = Some y -> exists y0, getn h n = Some y0 /\ y = nnode gid nodes n y0.
  Proof. rewrite ng_getn. destruct (getn h n) as [y0|]; simpl; intros H; inversion H; eauto. Qed.

  Lemma ng_dvs_in v : In v dvs -> exists k, In (k, v) d.
  Proof.
    unfold dvs. rewrite in_map_iff. intros ([k w] & E & Hin). simpl in E; subst. eauto.
  Qed.
  Lemma ng_in_dvs k v : In (k, v) d -> In v dvs.
  Proof. intros H. unfold dvs. apply in_map_iff. exists (k, v); auto. Qed.

  (* touched values were unowned, hence had no role *)
  Lemma ng_touched_old v x : getv h v = Some x -> touched v = true ->
    v_owner x = None /\ v_in x = false /\ v_out x = false /\ v_init x = false.
  Proof.
    intros Hx Ht. assert (Ho : v_owner x = None).
    { unfold touched in Ht. apply orb_true_iff in Ht. destruct Ht as [Ht|Ht].
      - apply orb_true_iff in Ht. destruct Ht as [Ht|Ht]; apply memb_In in Ht.
        + destruct (Hins v Ht) as (x1 & Hx1 & Ho & _). congruence.
        + destruct (Houts v Ht) as (x1 & Hx1 & Ho). congruence.
      - apply memb_In in Ht. destruct (ng_dvs_in v Ht) as (k & Hk).
        destruct (Hd k v Hk) as (_ & x1 & Hx1 & Ho & _). congruence. }
    split; auto. apply (i7_owner h HI v x Hx); auto.
  Qed.

  Lemma ng_touched_val v x : getv h v = Some x -> touched v = true ->
    v_owner (gval gid ins outs dvs v x) = Some gid /\
    v_in (gval gid ins outs dvs v x) = memb v ins /\
    v_out (gval gid ins outs dvs v x) = memb v outs /\
    v_init (gval gid ins outs dvs v x) = memb v dvs.
  Proof.
    intros Hx Ht. destruct (ng_touched_old v x Hx Ht) as (_ & H1 & H2 & H3).
    unfold touched in Ht. simpl. rewrite Ht, H1, H2, H3, !orb_false_r. auto.
  Qed.

  Lemma ng_untouched_val v x : touched v = false -> gval gid ins outs dvs v x = x.
  Proof. apply gval_untouched. Qed.

  Lemma ng_owned_untouched v x g : getv h v = Some x -> v_owner x = Some g -> touched v = false.
  Proof.
    intros Hx Ho. destruct (touched v) eqn:Ht; auto.
    destruct (ng_touched_old v x Hx Ht) as (Hn & _). congruence.
  Qed.
  Lemma ng_owned_same v x g : getv h v = Some x -> v_owner x = Some g -> getv h' v = Some x.
  Proof.
    intros Hx Ho. rewrite ng_getv, Hx. simpl. f_equal. apply ng_untouched_val.
    eapply ng_owned_untouched; eauto.
  Qed.

  Lemma ng_touched_ins v : In v ins -> touched v = true.
  Proof. intros H. unfold touched. apply memb_In in H. rewrite H; auto. Qed.
  Lemma ng_touched_outs v : In v outs -> touched v = true.
  Proof. intros H. unfold touched. apply memb_In in H. rewrite H. rewrite orb_true_r; auto. Qed.
  Lemma ng_touched_dvs v : In v dvs -> touched v = true.
  Proof. intros H. unfold touched. apply memb_In in H. rewrite H. rewrite orb_true_r; auto. Qed.

  (* ---------------- C0 *)
  Lemma ng_c0_nin n y v : getn h' n = Some y -> In (Some v) (n_inputs y) -> v < nv h'.
  Proof.
    rewrite ng_nv'. intros Hn Hv. destruct (ng_getn_inv _ _ Hn) as (y0 & Hy0 & ->).
    rewrite nnode_inputs in Hv. eapply c0_nin; eauto.
  Qed.
  Lemma ng_c0_nout n y v : getn h' n = Some y -> In v (n_outputs y) -> v < nv h'.
  Proof.
    rewrite ng_nv'. intros Hn Hv. destruct (ng_getn_inv _ _ Hn) as (y0 & Hy0 & ->).
    rewrite nnode_outputs in Hv. eapply c0_nout; eauto.
  Qed.
  Lemma ng_c0_ngraph n y g : getn h' n = Some y -> n_graph y = Some g -> g < ngr h'.
  Proof.
    rewrite ng_ngr'. intros Hn Hg. destruct (ng_getn_inv _ _ Hn) as (y0 & Hy0 & ->).
    rewrite nnode_graph in Hg. destruct (memb n nodes).
    - inversion Hg; subst. unfold gid; lia.
    - pose proof (c0_ngraph h HI n y0 g Hy0 Hg). lia.
  Qed.
  Lemma ng_c0_gin g z v : getg h' g = Some z -> In v (g_inputs z) -> v < nv h'.
  Proof.
    rewrite ng_nv'. intros Hg Hv. destruct (ng_getg_inv _ _ Hg) as [(_ & Ho)|(_ & ->)].
    - eapply c0_gin; eauto.
    - simpl in Hv. destruct (Hins v Hv) as (x & Hx & _). eapply getv_lt; eauto.
  Qed.
  Lemma ng_c0_gout g z v : getg h' g = Some z -> In v (g_outputs z) -> v < nv h'.
  Proof.
    rewrite ng_nv'. intros Hg Hv. destruct (ng_getg_inv _ _ Hg) as [(_ & Ho)|(_ & ->)].
    - eapply c0_gout; eauto.
    - simpl in Hv. destruct (Houts v Hv) as (x & Hx & _). eapply getv_lt; eauto.
  Qed.
  Lemma ng_c0_ginit g z k v : getg h' g = Some z -> In (k, v) (g_inits z) -> v < nv h'.
  Proof.
    rewrite ng_nv'. intros Hg Hv. destruct (ng_getg_inv _ _ Hg) as [(_ & Ho)|(_ & ->)].
    - eapply c0_ginit; eauto.
    - simpl in Hv. destruct (Hd k v Hv) as (_ & x & Hx & _). eapply getv_lt; eauto.
  Qed.
  Lemma ng_c0_gnodes g z n : getg h' g = Some z -> In n (g_nodes z) -> n < nn h'.
  Proof.
    rewrite ng_nn'. intros Hg Hv. destruct (ng_getg_inv _ _ Hg) as [(_ & Ho)|(_ & ->)].
    - eapply c0_gnodes; eauto.
    - simpl in Hv. destruct (Hnodes n Hv) as (y & Hy & _). eapply getn_lt; eauto.
  Qed.
  Lemma ng_c0_uses v x n i : getv h' v = Some x -> In (n, i) (v_uses x) -> n < nn h'.
  Proof.
    rewrite ng_nn'. intros Hv Hu. destruct (ng_getv_inv _ _ Hv) as (x0 & Hx0 & ->). simpl in Hu.
    eapply c0_uses; eauto.
  Qed.
  Lemma ng_c0_prod v x n i : getv h' v = Some x -> v_prod x = Some (n, i) -> n < nn h'.
  Proof.
    rewrite ng_nn'. intros Hv Hu. destruct (ng_getv_inv _ _ Hv) as (x0 & Hx0 & ->). simpl in Hu.
    eapply c0_prod; eauto.
  Qed.
  Lemma ng_c0_owner v x g : getv h' v = Some x -> v_owner x = Some g -> g < ngr h'.
  Proof.
    rewrite ng_ngr'. intros Hv Ho. destruct (ng_getv_inv _ _ Hv) as (x0 & Hx0 & ->). simpl in Ho.
    destruct (memb v ins || memb v outs || memb v dvs).
    - inversion Ho; subst. unfold gid; lia.
    - pose proof (c0_owner h HI v x0 g Hx0 Ho). lia.
  Qed.

  (* ---------------- I1 *)
  Lemma ng_i1_uses v x n i : getv h' v = Some x ->
    (In (n, i) (v_uses x) <-> exists y, getn h' n = Some y /\ nth_error (n_inputs y) i = Some (Some v)).
  Proof.
    intros Hv. destruct (ng_getv_inv _ _ Hv) as (x0 & Hx0 & ->). simpl.
    rewrite (i1_uses h HI v x0 n i Hx0). split.
    - intros (y & Hy & Hi). exists (nnode gid nodes n y). split; [rewrite ng_getn, Hy; auto|].
      rewrite nnode_inputs; auto.
    - intros (y & Hy & Hi). destruct (ng_getn_inv _ _ Hy) as (y0 & Hy0 & ->).
      rewrite nnode_inputs in Hi. eauto.
  Qed.
  Lemma ng_i1_nodup v x : getv h' v = Some x -> NoDup (v_uses x).
  Proof.
    intros Hv. destruct (ng_getv_inv _ _ Hv) as (x0 & Hx0 & ->). simpl. eapply i1_nodup; eauto.
  Qed.

  (* ---------------- I2 *)
  Lemma ng_i2_out n y i v : getn h' n = Some y -> nth_error (n_outputs y) i = Some v ->
    exists x, getv h' v = Some x /\ v_prod x = Some (n, i).
  Proof.
    intros Hn Hi. destruct (ng_getn_inv _ _ Hn) as (y0 & Hy0 & ->). rewrite nnode_outputs in Hi.
    destruct (i2_out h HI n y0 i v Hy0 Hi) as (x0 & Hx0 & Hp).
    exists (gval gid ins outs dvs v x0). split; [rewrite ng_getv, Hx0; auto|auto].
  Qed.
  Lemma ng_i2_prod v x n i : getv h' v = Some x -> v_prod x = Some (n, i) ->
    exists y, getn h' n = Some y /\ nth_error (n_outputs y) i = Some v.
  Proof.
    intros Hv Hp. destruct (ng_getv_inv _ _ Hv) as (x0 & Hx0 & ->). simpl in Hp.
    destruct (i2_prod h HI v x0 n i Hx0 Hp) as (y & Hy & Ho).
    exists (nnode gid nodes n y). split; [rewrite ng_getn, Hy; auto|]. rewrite nnode_outputs; auto.
  Qed.

  (* ---------------- I3 *)
  Lemma ng_i3_graph n y g : getn h' n = Some y ->
    (n_graph y = Some g <-> exists z, getg h' g = Some z /\ In n (g_nodes z)).
  Proof.
    intros Hn. destruct (ng_getn_inv _ _ Hn) as (y0 & Hy0 & ->). rewrite nnode_graph.
    destruct (memb n nodes) eqn:Hm.
    - assert (Hin : In n nodes) by (apply memb_In; auto).
      destruct (Hnodes n Hin) as (y1 & Hy1 & Hg1). assert (y1 = y0) by congruence. subst y1.
      split.
      + intros E. inversion E; subst g. exists newg. split; [apply ng_getg_new|auto].
      + intros (z & Hz & Hnz). destruct (ng_getg_inv _ _ Hz) as [(_ & Ho)|(-> & _)]; auto.
        assert (n_graph y0 = Some g) by (apply (i3_graph h HI n y0 g Hy0); eauto). congruence.
    - split.
      + intros E. apply (i3_graph h HI n y0 g Hy0) in E. destruct E as (z & Hz & Hnz).
        exists z. split; auto. apply ng_getg_old'; auto.
      + intros (z & Hz & Hnz). destruct (ng_getg_inv _ _ Hz) as [(_ & Ho)|(_ & ->)].
        * apply (i3_graph h HI n y0 g Hy0); eauto.
        * simpl in Hnz. apply memb_In in Hnz. congruence.
  Qed.
  Lemma ng_i3_nodup g z : getg h' g = Some z -> NoDup (g_nodes z).
  Proof.
    intros Hg. destruct (ng_getg_inv _ _ Hg) as [(_ & Ho)|(_ & ->)]; auto.
    eapply i3_nodup; eauto.
  Qed.

  (* ---------------- I4 *)
  Lemma ng_i4_in v x g : getv h' v = Some x ->
    ((v_in x = true /\ v_owner x = Some g) <-> exists z, getg h' g = Some z /\ In v (g_inputs z)).
  Proof.
    intros Hv. destruct (ng_getv_inv _ _ Hv) as (x0 & Hx0 & ->).
    destruct (touched v) eqn:Ht.
    - destruct (ng_touched_val v x0 Hx0 Ht) as (Ho & Hi & _ & _). rewrite Ho, Hi.
      destruct (ng_touched_old v x0 Hx0 Ht) as (Hno & _). split.
      + intros (Hm & E). inversion E; subst g. exists newg. split; [apply ng_getg_new|].
        simpl. apply memb_In; auto.
      + intros (z & Hz & Hin). destruct (ng_getg_inv _ _ Hz) as [(_ & Hzo)|(-> & ->)].
        * assert (v_in x0 = true /\ v_owner x0 = Some g) as (_ & E)
            by (apply (i4_in h HI v x0 g Hx0); eauto). congruence.
        * simpl in Hin. split; auto. apply memb_In; auto.
    - rewrite (ng_untouched_val v x0 Ht). rewrite (i4_in h HI v x0 g Hx0). split.
      + intros (z & Hz & Hin). exists z. split; auto. apply ng_getg_old'; auto.
      + intros (z & Hz & Hin). destruct (ng_getg_inv _ _ Hz) as [(_ & Hzo)|(-> & ->)]; eauto.
        simpl in Hin. rewrite (ng_touched_ins v Hin) in Ht. discriminate.
  Qed.
  Lemma ng_i4_out v x g : getv h' v = Some x ->
    ((v_out x = true /\ v_owner x = Some g) <-> exists z, getg h' g = Some z /\ In v (g_outputs z)).
  Proof.
    intros Hv. destruct (ng_getv_inv _ _ Hv) as (x0 & Hx0 & ->).
    destruct (touched v) eqn:Ht.
    - destruct (ng_touched_val v x0 Hx0 Ht) as (Ho & _ & Hi & _). rewrite Ho, Hi.
      destruct (ng_touched_old v x0 Hx0 Ht) as (Hno & _). split.
      + intros (Hm & E). inversion E; subst g. exists newg. split; [apply ng_getg_new|].
        simpl. apply memb_In; auto.
      + intros (z & Hz & Hin). destruct (ng_getg_inv _ _ Hz) as [(_ & Hzo)|(-> & ->)].
        * assert (v_out x0 = true /\ v_owner x0 = Some g) as (_ & E)
            by (apply (i4_out h HI v x0 g Hx0); eauto). congruence.
        * simpl in Hin. split; auto. apply memb_In; auto.
    - rewrite (ng_untouched_val v x0 Ht). rewrite (i4_out h HI v x0 g Hx0). split.
      + intros (z & Hz & Hin). exists z. split; auto. apply ng_getg_old'; auto.
      + intros (z & Hz & Hin). destruct (ng_getg_inv _ _ Hz) as [(_ & Hzo)|(-> & ->)]; eauto.
        simpl in Hin. rewrite (ng_touched_outs v Hin) in Ht. discriminate.
  Qed.

  (* ---------------- I5 *)
  Lemma ng_i5_key g z k v : getg h' g = Some z -> In (k, v) (g_inits z) ->
    exists x, getv h' v = Some x /\ v_name x = Some k /\ v_init x = true /\ v_owner x = Some g.
  Proof.
    intros Hg Hin. destruct (ng_getg_inv _ _ Hg) as [(_ & Ho)|(-> & ->)].
    - destruct (i5_key h HI g z k v Ho Hin) as (x0 & Hx0 & H1 & H2 & H3).
      exists x0. split; auto. eapply ng_owned_same; eauto.
    - simpl in Hin. destruct (Hd k v Hin) as (_ & x0 & Hx0 & Hno & Hname).
      assert (Ht : touched v = true) by (apply ng_touched_dvs; eapply ng_in_dvs; eauto).
      destruct (ng_touched_val v x0 Hx0 Ht) as (Ho & _ & _ & Hi).
      exists (gval gid ins outs dvs v x0). split; [rewrite ng_getv, Hx0; auto|].
      split; [exact Hname|]. split; auto. rewrite Hi. apply memb_In. eapply ng_in_dvs; eauto.
  Qed.
  Lemma ng_i5_nodup g z : getg h' g = Some z -> NoDup (map fst (g_inits z)).
  Proof.
    intros Hg. destruct (ng_getg_inv _ _ Hg) as [(_ & Ho)|(_ & ->)]; auto.
    eapply i5_nodup; eauto.
  Qed.
  Lemma ng_i5_flag v x g : getv h' v = Some x -> v_init x = true -> v_owner x = Some g ->
    exists z k, getg h' g = Some z /\ In (k, v) (g_inits z).
  Proof.
    intros Hv. destruct (ng_getv_inv _ _ Hv) as (x0 & Hx0 & ->).
    destruct (touched v) eqn:Ht.
    - destruct (ng_touched_val v x0 Hx0 Ht) as (Ho & _ & _ & Hi). rewrite Ho, Hi.
      intros Hm E. inversion E; subst g. apply memb_In in Hm. destruct (ng_dvs_in v Hm) as (k & Hk).
      exists newg, k. split; [apply ng_getg_new|auto].
    - rewrite (ng_untouched_val v x0 Ht). intros Hi Ho.
      destruct (i5_flag h HI v x0 g Hx0 Hi Ho) as (z & k & Hz & Hin).
      exists z, k. split; auto. apply ng_getg_old'; auto.
  Qed.

  (* ---------------- I6 *)
  Lemma ng_i6_in g z v x : getg h' g = Some z -> In v (g_inputs z) -> getv h' v = Some x -> v_prod x = None.
  Proof.
    intros Hg Hin Hv. destruct (ng_getv_inv _ _ Hv) as (x0 & Hx0 & ->). simpl.
    destruct (ng_getg_inv _ _ Hg) as [(_ & Ho)|(_ & ->)].
    - eapply i6_in; eauto.
    - simpl in Hin. destruct (Hins v Hin) as (x1 & Hx1 & _ & Hp). congruence.
  Qed.
  Lemma ng_i6_init g z k v x : getg h' g = Some z -> In (k, v) (g_inits z) -> getv h' v = Some x -> v_prod x = None.
  Proof.
    intros Hg Hin Hv. destruct (ng_getv_inv _ _ Hv) as (x0 & Hx0 & ->). simpl.
    destruct (ng_getg_inv _ _ Hg) as [(_ & Ho)|(_ & ->)].
    - eapply i6_init; eauto.
    - simpl in Hin. destruct (Hd k v Hin) as (Hi & _). eapply Hinits; eauto.
  Qed.

  (* ---------------- I7 *)
  Lemma ng_i7_owner v x : getv h' v = Some x ->
    (v_owner x = None <-> (v_in x = false /\ v_out x = false /\ v_init x = false)).
  Proof.
    intros Hv. destruct (ng_getv_inv _ _ Hv) as (x0 & Hx0 & ->).
    destruct (touched v) eqn:Ht.
    - destruct (ng_touched_val v x0 Hx0 Ht) as (Ho & H1 & H2 & H3). rewrite Ho, H1, H2, H3. split.
      + discriminate.
      + intros (E1 & E2 & E3). unfold touched in Ht. rewrite E1, E2, E3 in Ht. discriminate.
    - rewrite (ng_untouched_val v x0 Ht). apply (i7_owner h HI v x0 Hx0).
  Qed.

  Lemma ng_inv : Inv h'.
  Proof.
    constructor.
    - exact ng_c0_nin.
    - exact ng_c0_nout.
    - exact ng_c0_ngraph.
    - exact ng_c0_gin.
    - exact ng_c0_gout.
    - exact ng_c0_ginit.
    - exact ng_c0_gnodes.
    - exact ng_c0_uses.
    - exact ng_c0_prod.
    - exact ng_c0_owner.
    - exact ng_i1_uses.
    - exact ng_i1_nodup.
    - exact ng_i2_out.
    - exact ng_i2_prod.
    - exact ng_i3_graph.
    - exact ng_i3_nodup.
    - exact ng_i4_in.
    - exact ng_i4_out.
    - exact ng_i5_key.
    - exact ng_i5_nodup.
    - exact ng_i5_flag.
    - exact ng_i6_in.
    - exact ng_i6_init.
    - exact ng_i7_owner.
  Qed.

  Lemma ng_frame_v v x : getv h v = Some x ->
     exists x', getv h' v = Some x' /\ v_name x' = v_name x /\ v_prod x' = v_prod x /\ v_uses x' = v_uses x /\
                v_const x' = v_const x /\ v_info x' = v_info x /\
                (~ In v ins -> ~ In v outs -> ~ In v inits -> x' = x).
  Proof.
    intros Hx. exists (gval gid ins outs dvs v x). split; [rewrite ng_getv, Hx; auto|].
    repeat (split; [reflexivity|]). intros H1 H2 H3. apply ng_untouched_val.
    unfold touched. apply memb_notIn in H1. apply memb_notIn in H2. rewrite H1, H2. simpl.
    apply memb_notIn. intros Hd'. destruct (ng_dvs_in v Hd') as (k & Hk).
    destruct (Hd k v Hk) as (Hi & _). auto.
  Qed.
End NewGraph.

(* ------------------------------------------------------------------ Graph.__init__ *)

Lemma owner_free_none h v x : Inv h -> getv h v = Some x -> owner_free (ngr h) x -> v_owner x = None.
Proof.
  intros HI Hx [H|H]; auto. pose proof (c0_owner h HI v x _ Hx H). lia.
Qed.

Lemma new_graph_inv : new_graph_spec.
Proof.
  unfold new_graph_spec. intros h gname gtok ins outs inits nodes h' gid HI Hnew Hnd Hinits.
  unfold new_graph in Hnew.
  destruct (set_inputs (hv h) (length (hg h)) ins) as [l1|] eqn:E1; [|discriminate].
  destruct (set_outputs l1 (length (hg h)) outs) as [l2|] eqn:E2; [|discriminate].
  destruct (keyed l2 inits) as [kv|] eqn:Ek; [|discriminate].
  destruct (set_inits l2 (length (hg h)) (dict_of [] kv)) as [l3|] eqn:E3; [|discriminate].
  destruct (set_ngraphs (hn h) (length (hg h)) nodes) as [ln|] eqn:En; [|discriminate].
  inversion Hnew; subst h' gid; clear Hnew.
  fold (ngr h) in E1, E2, E3, En. set (d := dict_of [] kv) in *.
  (* lengths *)
  assert (Hlen1 : length l1 = length (hv h)) by (eapply set_inputs_length; eauto).
  assert (Hlen2 : length l2 = length (hv h)) by (rewrite <- Hlen1; eapply set_outputs_length; eauto).
  assert (Hlen3 : length l3 = length (hv h)) by (rewrite <- Hlen2; eapply set_inits_length; eauto).
  assert (Hlenn : length ln = length (hn h)) by (eapply set_ngraphs_length; eauto).
  (* contents *)
  assert (Hl3 : forall v, nth_error l3 v = option_map (gval (ngr h) ins outs (map snd d) v) (nth_error (hv h) v)).
  { intros v. eapply new_graph_values; eauto. }
  assert (Hln : forall n, nth_error ln n = option_map (nnode (ngr h) nodes n) (nth_error (hn h) n)).
  { intros n. eapply set_ngraphs_nth; eauto. }
  (* checks *)
  assert (Hins : forall v, In v ins -> exists x, getv h v = Some x /\ v_owner x = None /\ v_prod x = None).
  { intros v Hv. destruct (set_inputs_chk _ _ _ _ v E1 Hv) as (x & Hx & Hf & Hp).
    exists x. split; auto. split; auto. eapply owner_free_none; eauto. }
  assert (Houts : forall v, In v outs -> exists x, getv h v = Some x /\ v_owner x = None).
  { intros v Hv. destruct (set_outputs_chk _ _ _ _ v E2 Hv) as (x1 & Hx1 & Hf).
    rewrite (set_inputs_nth _ _ _ _ v E1) in Hx1.
    destruct (nth_error (hv h) v) as [x|] eqn:Hx; simpl in Hx1; [|discriminate].
    exists x. split; auto. destruct (memb v ins) eqn:Hm.
    - apply memb_In in Hm. destruct (Hins v Hm) as (x' & Hx' & Ho & _).
      unfold getv in Hx'. congruence.
    - inversion Hx1; subst x1. eapply owner_free_none; eauto. }
  assert (Hd : forall k v, In (k, v) d ->
            In v inits /\ exists x, getv h v = Some x /\ v_owner x = None /\ v_name x = Some k).
  { intros k v Hkv.
    assert (Hkv' : In (k, v) kv).
    { unfold d in Hkv. apply dict_of_in in Hkv. destruct Hkv as [[]|]; auto. }
    destruct (keyed_in _ _ _ k v Ek Hkv') as (Hin & x2 & Hx2 & Hname). split; auto.
    assert (Hdv : In v (map snd d)) by (apply in_map_iff; exists (k, v); auto).
    destruct (set_inits_chk _ _ _ _ v E3 Hdv) as (x2' & Hx2' & Hf).
    assert (x2' = x2) by congruence. subst x2'. clear Hx2'.
    rewrite (set_outputs_nth _ _ _ _ v E2), (set_inputs_nth _ _ _ _ v E1) in Hx2.
    destruct (nth_error (hv h) v) as [x|] eqn:Hx; simpl in Hx2; [|discriminate].
    exists x. split; auto. inversion Hx2 as [Ex2]; clear Hx2. split.
    - destruct (memb v outs) eqn:Hmo.
      + apply memb_In in Hmo. destruct (Houts v Hmo) as (x' & Hx' & Ho). unfold getv in Hx'. congruence.
      + destruct (memb v ins) eqn:Hmi.
        * apply memb_In in Hmi. destruct (Hins v Hmi) as (x' & Hx' & Ho & _). unfold getv in Hx'. congruence.
        * subst x2. eapply owner_free_none; eauto.
    - subst x2. destruct (memb v outs), (memb v ins); simpl in Hname; auto. }
  assert (Hdnd : NoDup (map fst d)) by (unfold d; apply dict_of_nodup; constructor).
  assert (Hnodes : forall n, In n nodes -> exists y, getn h n = Some y /\ n_graph y = None).
  { intros n Hn. destruct (set_ngraphs_chk _ _ _ _ n En Hn) as (y & Hy & Hg).
    exists y. split; auto. destruct Hg as [Hg|Hg]; auto.
    pose proof (c0_ngraph h HI n y _ Hy Hg). lia. }
  split; [eapply ng_inv; eauto|].
  split; [reflexivity|].
  split; [unfold ngr; simpl; rewrite app_length; simpl; lia|].
  split; [unfold nv; simpl; auto|].
  split; [unfold nn; simpl; auto|].
  split; [reflexivity|].
  intros v x Hx. eapply ng_frame_v; eauto.
Qed.

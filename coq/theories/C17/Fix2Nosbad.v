(* C17/Fix2Nosbad.v — if the serializer SUCCEEDED, no attribute reachable through the generalised unfolding
   (C17/Tree2.v) has sbad = true: ser_attrs raises TypeError on `AtPlain tok true`, and every nested graph the
   unfolding visits is one the serializer visited (same recursion, same fuel).  The unfolding reads the original
   heap, the serializer threads it; the two agree up to tensor names (tn_equiv). *)
From Coq Require Import NArith List Bool Arith Lia.
From IRV Require Import Base.Exn C03.Model C03.Canon C03.Inv C03.Tree C03.TreeF C03.IsoSpecs C03.IsoSpecsF C03.PayFixDefs C03.Readonly C03.Twice C03.IsoSer C03.IsoSerF C17.Tree2 C17.Fix2Specs C17.PUnfold C17.Fix2Defs.
Import ListNotations.

Lemma tn_step h a a' : tn_equiv h a -> readonly a a' -> tn_equiv h a'.
Proof. intros E R. eapply tn_trans; [exact E|]. apply readonly_tn. exact R. Qed.

Local Notation nb_f :=
  (fun F : ftree => match F with FBad => true | FT _ _ _ nodes _ => nosbad_ns nodes end).

(* ------------------------------------------------------------------ one level of the recursion *)
Section BodyNB.
Variable np : list (N * N).
Variable h : heap.
Variable rec_ser : heap -> nat -> res (heap * gproto).
Variable rec_unf : list (list nat) -> nat -> gtree.
Hypothesis rec_ro : forall a g a' q, rec_ser a g = Ok (a', q) -> readonly a a'.
Hypothesis Hrec : forall a chain g a' q,
  tn_equiv h a -> rec_ser a g = Ok (a', q) -> nosbad_g (rec_unf chain g) = true.

Lemma ser_gs_nb chain : forall l a a' gl,
  tn_equiv h a -> ser_gs rec_ser a l = Ok (a', gl) ->
  nosbad_gs (gtrees_of (map (rec_unf chain) l)) = true.
Proof.
  induction l as [|g r IH]; intros a a' gl E H; [reflexivity|].
  cbn [ser_gs] in H.
  destruct (rec_ser a g) as [[a1 gp]|e] eqn:E1; [|discriminate].
  destruct (ser_gs rec_ser a1 r) as [[a2 l2]|e] eqn:E2; [|discriminate].
  cbn [map gtrees_of nosbad_gs]. rewrite (Hrec a chain g a1 gp E E1). simpl.
  eapply IH; [|exact E2]. eapply tn_step; eauto.
Qed.

Lemma ser_attrs_nb chain : forall al a a' ap,
  tn_equiv h a -> ser_attrs rec_ser a al = Ok (a', ap) ->
  nosbad_as (atrees_of (map (unfold_attr rec_unf chain) al)) = true.
Proof.
  induction al as [|[k at_] r IH]; intros a a' ap E H; [reflexivity|].
  cbn [ser_attrs] in H. cbn [map atrees_of nosbad_as].
  unfold unfold_attr at 1. cbn [fst snd].
  destruct at_ as [tok sbad|sg|sgs]; cbn [nosbad_a].
  - destruct sbad; [discriminate|].
    destruct (ser_attrs rec_ser a r) as [[a1 l]|e] eqn:E1; [|discriminate].
    simpl. eapply IH; eauto.
  - destruct (rec_ser a sg) as [[a1 gp]|e] eqn:E1; [|discriminate].
    destruct (ser_attrs rec_ser a1 r) as [[a2 l]|e] eqn:E2; [|discriminate].
    rewrite (Hrec a chain sg a1 gp E E1). simpl.
    eapply IH; [|exact E2]. eapply tn_step; eauto.
  - destruct (ser_gs rec_ser a sgs) as [[a1 gl]|e] eqn:E1; [|discriminate].
    destruct (ser_attrs rec_ser a1 r) as [[a2 l]|e] eqn:E2; [|discriminate].
    rewrite (ser_gs_nb chain sgs a a1 gl E E1). simpl.
    eapply IH; [|exact E2]. eapply tn_step; [exact E|]. eapply ser_gs_readonly; eauto.
Qed.

Lemma ser_node_nb outer cur n a a' q :
  tn_equiv h a -> ser_node rec_ser a n = Ok (a', q) ->
  nosbad_n (fst (unfold2_node np h rec_unf outer cur n)) = true.
Proof.
  intros E H. unfold ser_node in H. unfold unfold2_node. rewrite (tn_getn _ _ n E) in H.
  destruct (getn h n) as [y|]; [|discriminate].
  destruct (ser_node_inputs a (n_inputs y)) as [ins|e]; [|discriminate].
  destruct (ser_node_outputs a (trim_outputs a (n_outputs y))) as [outs|e]; [|discriminate].
  destruct (ser_attrs rec_ser a (n_attrs y)) as [[a1 al]|e] eqn:E1; [|discriminate].
  cbv zeta. cbn [fst nosbad_n]. eapply ser_attrs_nb; eauto.
Qed.

Lemma ser_nodes_nb infn outer : forall ns cur a a' l vs,
  tn_equiv h a -> ser_nodes np rec_ser infn a ns = Ok (a', l, vs) ->
  nosbad_ns (ntrees_of (fst (unfold2_nodes np h rec_unf outer cur ns))) = true.
Proof.
  induction ns as [|n r IH]; intros cur a a' l vs E H; [reflexivity|].
  cbn [ser_nodes] in H.
  destruct (ser_node rec_ser a n) as [[a1 q]|e] eqn:E1; [|discriminate].
  destruct (ser_nodes np rec_ser infn a1 r) as [[[a2 l2] vs2]|e] eqn:E2; [|discriminate].
  pose proof (ser_node_nb outer cur n a a1 q E E1) as Hn.
  assert (T1 : tn_equiv h a1) by (eapply tn_step; [exact E|]; eapply ser_node_readonly; eauto).
  cbn [unfold2_nodes].
  destruct (unfold2_node np h rec_unf outer cur n) as [t cur1] eqn:Un.
  pose proof (IH cur1 a1 a2 l2 vs2 T1 E2) as Hr.
  destruct (unfold2_nodes np h rec_unf outer cur1 r) as [ts cur2] eqn:Uns.
  cbn [fst ntrees_of nosbad_ns] in *. rewrite Hn, Hr. reflexivity.
Qed.

Lemma ser_graph_body_nb chain g a a' q :
  tn_equiv h a -> ser_graph_body np rec_ser a g = Ok (a', q) ->
  nosbad_g (unfold2_graph_body np h rec_unf chain g) = true.
Proof.
  intros E H. unfold ser_graph_body in H. unfold unfold2_graph_body.
  rewrite <- (tn_getg _ _ g E).
  destruct (getg a g) as [z|] eqn:Eg; [|discriminate].
  destruct (ser_values np a (g_inputs z)) as [ins|e]; [|discriminate].
  match type of H with context [ser_inits np a ?inn (g_inits z)] =>
    destruct (ser_inits np a inn (g_inits z)) as [[[a1 ts] ivis]|e] eqn:E1; [|discriminate] end.
  destruct (ser_nodes np rec_ser false a1 (g_nodes z)) as [[[a2 nps] nvis]|e] eqn:E2; [|discriminate].
  assert (T1 : tn_equiv h a1).
  { eapply tn_step; [exact E|]. eapply ser_inits_readonly; [apply readonly_refl| |exact E1].
    intros k v Hin. eauto. }
  pose proof (ser_nodes_nb false chain (g_nodes z) (gdefs h z) a1 a2 nps nvis T1 E2) as Hn.
  destruct (unfold2_nodes np h rec_unf chain (gdefs h z) (g_nodes z)) as [nts lvl].
  cbn [fst] in Hn. cbn [nosbad_g]. exact Hn.
Qed.
End BodyNB.

(* ------------------------------------------------------------------ induction on the fuel *)
Lemma ser_graph_nb np : forall fuel h a chain g a' q,
  tn_equiv h a -> ser_graph np fuel a g = Ok (a', q) ->
  nosbad_g (unfold2_graph np fuel h chain g) = true.
Proof.
  induction fuel as [|f IH]; intros h a chain g a' q E H.
  - simpl in H. discriminate.
  - cbn [ser_graph unfold2_graph] in *.
    eapply (ser_graph_body_nb np h (ser_graph np f) (unfold2_graph np f h)); eauto.
    intros. eapply ser_graph_readonly; eauto.
Qed.

(* ------------------------------------------------------------------ functions *)
Lemma ser_function_nb np h a f a' q :
  tn_equiv h a -> ser_function np a f = Ok (a', q) -> nb_f (unfold2_function np h f) = true.
Proof.
  intros E H. unfold ser_function in H. unfold unfold2_function. cbv beta.
  rewrite (tn_getg _ _ _ E) in H.
  destruct (getg h (f_graph f)) as [z|]; [|discriminate].
  destruct (g_inits z) as [|i0 il]; [|reflexivity].
  destruct (ser_names a (g_inputs z)) as [ins|e]; [|discriminate].
  destruct (ser_names a (g_outputs z)) as [outs|e]; [|discriminate].
  rewrite (tn_fuel _ _ E) in H.
  destruct (ser_nodes np (ser_graph np (ser_fuel h)) true a (g_nodes z)) as [[[a1 nps] nvis]|e] eqn:E1; [|discriminate].
  pose proof (ser_nodes_nb np h (ser_graph np (ser_fuel h)) (unfold2_graph np (ser_fuel h) h)
                (ser_graph_readonly np (ser_fuel h))
                (fun a chain g a' q => ser_graph_nb np (ser_fuel h) h a chain g a' q)
                true [] (g_nodes z) (gdefs h z) a a1 nps nvis E E1) as Hn.
  destruct (unfold2_nodes np h (unfold2_graph np (ser_fuel h) h) [] (gdefs h z) (g_nodes z)) as [nts lvl].
  cbn [fst] in Hn. exact Hn.
Qed.

Lemma ser_functions_nb np h : forall fs a a' l,
  tn_equiv h a -> ser_functions np a fs = Ok (a', l) ->
  forallb nb_f (map (unfold2_function np h) fs) = true.
Proof.
  induction fs as [|f r IH]; intros a a' l E H; [reflexivity|].
  cbn [ser_functions] in H.
  destruct (ser_function np a f) as [[a1 fp]|e] eqn:E1; [|discriminate].
  destruct (ser_functions np a1 r) as [[a2 l2]|e] eqn:E2; [|discriminate].
  cbn [map forallb]. rewrite (ser_function_nb np h a f a1 fp E E1). simpl.
  eapply IH; [|exact E2]. eapply tn_step; [exact E|]. eapply ser_function_readonly; eauto.
Qed.

(* general form: threaded heap; np_ok is not needed *)
Lemma ser_nosbad_tn np h a m a' q :
  tn_equiv h a -> ser_model np a m = Ok (a', q) -> nosbad_m (unfold2_model np h m) = true.
Proof.
  intros E H. unfold ser_model in H. rewrite (tn_fuel _ _ E) in H.
  destruct (ser_graph np (ser_fuel h) a (m_graph m)) as [[a1 gp]|e] eqn:E1; [|discriminate].
  destruct (ser_functions np a1 (m_funcs m)) as [[a2 fps]|e] eqn:E2; [|discriminate].
  unfold nosbad_m, unfold2_model, unfold2_root. cbn [mt_graph mt_funcs].
  rewrite (ser_graph_nb np (ser_fuel h) h a [] (m_graph m) a1 gp E E1). simpl.
  eapply ser_functions_nb; [|exact E2]. eapply tn_step; [exact E|]. eapply ser_graph_readonly; eauto.
Qed.

Lemma ser_nosbad : ser_nosbad_spec.
Proof.
  intros np h m h1 q _ H. eapply ser_nosbad_tn; [apply tn_refl|exact H].
Qed.

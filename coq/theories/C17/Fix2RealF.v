(* C17/Fix2RealF.v — functions: the relational unfolding real2_f of a function, its stability and bridge to
   unfold2_function, the input phase of deserialize_function, and the function case PF of punfold_real. *)
From Coq Require Import NArith List Bool Arith Lia.
From IRV Require Import Base.Exn C03.Model C03.Canon C03.Inv C03.Tree C03.TreeF C03.IsoDeserA C03.IsoDeserB C03.IsoDeserC
  C03.IsoDeserD
  C17.Basics C17.Specs C17.Steps C17.Phases C17.OpNode C17.OpGraph C17.Deser C17.Top C17.Tree2 C17.PUnfold C17.Fix2Defs
  C17.Fix2RealA C17.Fix2RealB C17.Fix2RealC C17.Fix2RealD C17.Fix2RealE.
Import ListNotations.

Arguments alloc_value : simpl never.
Arguments new_node : simpl never.
Arguments new_graph : simpl never.
Arguments lookup_scopes : simpl never.
Arguments lookup : simpl never.
Arguments apply_info_opt : simpl never.
Arguments declare_nodes : simpl never.

(* ------------------------------------------------------------------ the mutual induction *)
Theorem real_all :
  (forall gp, PG gp) /\ (forall ns, PNs ns) /\ (forall n, PN n) /\ (forall al, PAs al) /\ (forall a, PA a) /\ (forall gs, PGs gs).
Proof.
  apply proto_mutind.
  - intros gname gtok ins outs inits vis nodes IHn. apply PG_case; auto.
  - apply PNs_nil.
  - intros n IHn r IHr. apply PNs_cons; auto.
  - intros nname op ntok ins outs attrs IHa. apply PN_case; auto.
  - apply PAs_nil.
  - intros a IHa r IHr. apply PAs_cons; auto.
  - intros k tok bad sbad. apply PA_plain.
  - intros k g IHg. apply PA_graph; auto.
  - intros k gs IHgs. apply PA_graphs; auto.
  - apply PGs_nil.
  - intros g IHg r IHr. apply PGs_cons; auto.
Qed.

(* ------------------------------------------------------------------ the relational unfolding of a function *)
Definition real2_f (P : nat -> Prop) (h : heap) (f : func) (F : ftree) : Prop :=
  match F with
  | FBad => False
  | FT fid ftok ins nodes outs =>
    exists z lvl, getg h (f_graph f) = Some z /\ g_inits z = [] /\ f_id f = fid /\ f_tok f = ftok /\
      map (fn_in_desc [] h) (g_inputs z) = ins /\
      map (fun v => (find_ref v [lvl] 0, vd_name (vdesc_of [] h v), vd_named (vdesc_of [] h v))) (g_outputs z) = outs /\
      (forall v, In v (g_inputs z) -> P v /\ v < nv h) /\
      (forall v, In v (g_outputs z) -> v < nv h) /\
      real2_ns P h [] (gdefs h z) (f_graph f) (g_nodes z) nodes lvl
  end.

Lemma real2_f_stable P h h' f F : keepsP P h h' -> real2_f P h f F -> real2_f P h' f F.
Proof.
  intros K H. destruct F as [|fid ftok ins nodes outs]; [exact H|]. cbn [real2_f] in *.
  destruct H as (z & lvl & Hz & Hi & H1 & H2 & H3 & H4 & H5 & H6 & H7).
  pose proof K as (E & K').
  assert (Hgd : gdefs h' z = gdefs h z).
  { apply gdefs_ext; auto. eapply real2_ns_nodes; eauto. }
  assert (Hnv : nv h <= nv h') by (destruct E; auto).
  exists z, lvl. csplit; auto.
  - destruct E as (_ & _ & _ & _ & _ & E6 & _). auto.
  - rewrite <- H3. apply map_ext_in. intros v Hv. destruct (H5 _ Hv). unfold fn_in_desc. rewrite (vdesc_keepP P h h' v); auto.
  - rewrite <- H4. apply map_ext_in. intros v Hv. destruct (vname_ext h h' v E (H6 _ Hv)) as (A & B & _). rewrite A, B. auto.
  - intros v Hv. destruct (H5 _ Hv). split; auto; lia.
  - intros v Hv. specialize (H6 _ Hv). lia.
  - rewrite Hgd. destruct real2_stable as (_ & Sns & _). eapply Sns; eauto.
Qed.
Lemma real2_f_mono (P P' : nat -> Prop) h f F : (forall v, P v -> P' v) -> real2_f P h f F -> real2_f P' h f F.
Proof.
  intros HP H. destruct F as [|fid ftok ins nodes outs]; [exact H|]. cbn [real2_f] in *.
  destruct H as (z & lvl & Hz & Hi & H1 & H2 & H3 & H4 & H5 & H6 & H7).
  exists z, lvl. csplit; auto.
  - intros v Hv. destruct (H5 _ Hv). split; auto.
  - destruct real2_mono as (_ & Mns & _). eapply Mns; eauto.
Qed.
Lemma real2_f_unfold P h f F : real2_f P h f F -> unfold2_function [] h f = F.
Proof.
  intros H. destruct F as [|fid ftok ins nodes outs]; [destruct H|]. cbn [real2_f] in H.
  destruct H as (z & lvl & Hz & Hi & H1 & H2 & H3 & H4 & H5 & H6 & H7).
  unfold unfold2_function. rewrite Hz, Hi.
  destruct real2_unfold as (_ & Bns & _).
  destruct (Bns _ _ _ _ _ _ _ _ H7 (ser_fuel h)) as (nts & En & Et).
  { apply getg_lt in Hz. unfold ser_fuel, ngr in *. lia. }
  rewrite En, H1, H2, H3, H4, Et. reflexivity.
Qed.

(* ------------------------------------------------------------------ the inputs of a function *)
Lemma table_of_names_rev : forall ks vs t, length vs = length ks -> rev (table_of_names t ks vs) = rev t ++ combine ks vs.
Proof.
  induction ks as [|k r IH]; intros [|v vs] t Hl; simpl in *; try discriminate.
  - rewrite app_nil_r; auto.
  - rewrite IH by lia. simpl. rewrite <- app_assoc. auto.
Qed.
Lemma alloc_named_spec : forall ks h h1 invs, alloc_named h ks = (h1, invs) ->
  hn h1 = hn h /\ hg h1 = hg h /\ ht h1 = ht h /\ nv h1 = nv h + length ks /\
  (forall u, u < nv h -> getv h1 u = getv h u) /\
  Forall2 (fun k v => getv h1 v = Some (fresh_value (Some k) None 0%N)) ks invs /\
  invs = seq (nv h) (length ks).
Proof.
  induction ks as [|k r IH]; cbn; intros h h1 invs H.
  - inversion H; subst. csplit; auto; lia.
  - destruct (alloc_value h (Some k) None 0%N) as [h0 v] eqn:Ea.
    destruct (alloc_named h0 r) as [h2 vs] eqn:Er. inversion H; subst; clear H.
    destruct (alloc_spec _ _ _ _ _ _ Ea) as (Hv & Hnv & Hn & Hg & Ht & Hnew & Hold).
    destruct (IH _ _ _ Er) as (A1 & A2 & A3 & A4 & A5 & A6 & A7).
    csplit; try congruence.
    + lia.
    + intros u Hu. rewrite A5 by lia. auto.
    + constructor; auto. rewrite A5 by lia. auto.
Qed.
Lemma apply_infos_named_spec vis : forall ks vs h h',
  apply_infos_named h vis ks vs = Ok h' -> NoDup vs ->
  Forall2 (fun k v => getv h v = Some (fresh_value (Some k) None 0%N)) ks vs ->
  exists ps, Forall2 (fun k p => vis_pay vis k = Some p) ks ps /\
    nv h' = nv h /\ hn h' = hn h /\ hg h' = hg h /\ ht h' = ht h /\
    (forall u, ~ In u vs -> getv h' u = getv h u) /\
    Forall2 (fun kp v => getv h' v = Some (fresh_value (Some (fst kp)) None (snd kp))) (combine ks ps) vs.
Proof.
  induction ks as [|k r IH]; intros vs h h' H Hnd F; inversion F as [|k0 v r0 vr Hkv F' E1 E2]; subst; cbn in H.
  - inversion H; subst. exists []. cbn. csplit; auto.
  - destruct (apply_info_opt h k vis v) as [h1|e] eqn:Ei; [|discriminate].
    inversion Hnd as [|? ? Hnot Hnd']; subst.
    assert (G : exists p, vis_pay vis k = Some p /\ nv h1 = nv h /\ hn h1 = hn h /\ hg h1 = hg h /\ ht h1 = ht h /\
                getv h1 v = Some (fresh_value (Some k) None p) /\ (forall u, u <> v -> getv h1 u = getv h u)).
    { unfold apply_info_opt in Ei. unfold vis_pay. destruct (vi_lookup k vis) as [i|].
      - unfold apply_info in Ei. destruct (vi_bad i); [discriminate|]. inversion Ei; subst h1. exists (vi_pay i).
        csplit; auto.
        + apply updv_nv.
        + rewrite (updv_getv_eq _ _ _ _ Hkv). reflexivity.
        + intros u Hu. apply updv_getv_neq; auto.
      - inversion Ei; subst h1. exists 0%N. csplit; auto. }
    destruct G as (p & Ep & G1 & G2 & G3 & G4 & G5 & G6).
    destruct (IH vr h1 h' H Hnd') as (ps & P1 & P2 & P3 & P4 & P5 & P6 & P7).
    { eapply Forall2_imp_In; [|exact F']. intros k' v' _ Hv' Hk'. rewrite G6; auto. intros ->. contradiction. }
    exists (p :: ps). cbn [combine]. csplit; auto; try congruence.
    + intros u Hu. rewrite P6 by (intros Hc; apply Hu; right; auto). apply G6. intros ->. apply Hu. left; auto.
    + constructor; auto. cbn [fst snd]. rewrite P6 by auto. exact G5.
Qed.

Lemma phase_fn_inputs b h ks vis h0 invs h1 : b = nv h ->
  alloc_named h ks = (h0, invs) -> apply_infos_named h0 vis ks invs = Ok h1 ->
  exists ps, Forall2 (fun k p => vis_pay vis k = Some p) ks ps /\ length ps = length ks /\
    invs = seq (nv h) (length ks) /\ nv h1 = nv h + length ks /\
    hn h1 = hn h /\ hg h1 = hg h /\ ht h1 = ht h /\ (forall u, u < nv h -> getv h1 u = getv h u) /\
    TBL b h1 (table_of_names [] ks invs) /\ TD h1 (table_of_names [] ks invs) (combine ks ps) /\
    ids (table_of_names [] ks invs) = invs /\ vstep h h1.
Proof.
  intros Hb E1 E2. destruct (alloc_named_spec _ _ _ _ E1) as (A1 & A2 & A3 & A4 & A5 & A6 & A7).
  assert (Hlen : length invs = length ks) by (rewrite A7; apply seq_length).
  assert (Hnd : NoDup invs) by (rewrite A7; apply seq_NoDup).
  assert (Hlt : forall v, In v invs -> nv h <= v < nv h0).
  { intros v Hin. rewrite A7 in Hin. apply in_seq in Hin. lia. }
  destruct (apply_infos_named_spec vis ks invs h0 h1 E2 Hnd A6) as (ps & P1 & P2 & P3 & P4 & P5 & P6 & P7).
  pose proof (Forall2_len _ _ _ P1) as Lps.
  assert (Hrev : rev (table_of_names [] ks invs) = combine ks invs) by (rewrite table_of_names_rev; auto).
  assert (Hids : ids (table_of_names [] ks invs) = invs).
  { unfold ids. rewrite Hrev. apply map_snd_comb. auto. }
  assert (Old : forall u, u < nv h -> getv h1 u = getv h u).
  { intros u Hu. rewrite P6, A5; auto. intros Hin. apply Hlt in Hin. lia. }
  (* pointwise view *)
  assert (FV : Forall2 (fun k v => exists p, In (k, p) (combine ks ps) /\ getv h1 v = Some (fresh_value (Some k) None p)) ks invs).
  { clear - P7 Lps Hlen. revert ps invs P7 Lps Hlen. induction ks as [|k r IH]; intros [|p ps] [|v vs] P7 L1 L2; simpl in *; try discriminate; constructor.
    - inversion P7; subst. exists p. split; auto.
    - inversion P7; subst. eapply Forall2_imp; [|apply (IH ps vs); auto]. intros k' v' (p' & A & B). exists p'. split; auto. }
  assert (HT : TBL b h1 (table_of_names [] ks invs)).
  { split; [rewrite Hids; auto|]. intros k v Hin. apply in_rev in Hin. rewrite Hrev in Hin.
    assert (Hvin : In v invs) by (eapply in_combine_r; eauto). apply Hlt in Hvin.
    assert (G : exists p, getv h1 v = Some (fresh_value (Some k) None p)).
    { clear - FV Hin. induction FV as [|k0 v0 l l' (p & _ & Hp) F IH]; simpl in Hin; [destruct Hin|].
      destruct Hin as [E|Hin]; [inversion E; subst; eauto | auto]. }
    destruct G as (p & G). split; [lia|]. eexists. split; [exact G|]. simpl. auto. }
  assert (HD : TD h1 (table_of_names [] ks invs) (combine ks ps)).
  { unfold TD. rewrite Hrev. clear - P7 Lps Hlen. revert ps invs P7 Lps Hlen.
    induction ks as [|k r IH]; intros [|p ps] [|v vs] P7 L1 L2; simpl in *; try discriminate; constructor.
    - inversion P7; subst. split; auto. eexists. split; [eassumption|]. reflexivity.
    - inversion P7; subst. apply IH; auto. }
  exists ps. csplit; auto; try congruence; try lia.
  apply vstep_same_old; auto; try congruence; [apply gett_same; congruence | lia].
Qed.

(* ------------------------------------------------------------------ the final tree of pu_f in closed form *)
Definition ff_orefs (lvl : list N) (outs : list N) : list (ref * N) := map (fun k => (resolve2 k [lvl] 0, k)) outs.
Definition ff_flag (orefs : list (ref * N)) (j : nat) : bool :=
  existsb (fun o => match fst o with Some (_, j') => Nat.eqb j j' | None => false end) orefs.
Definition ff_vd (defs0 : list (N * N)) (orefs : list (ref * N)) (k : N) : vdesc :=
  match index_last k (map fst defs0) 0 with
  | Some j => mkVD k true (match nth_error defs0 j with Some kp => snd kp | None => 0%N end) (ff_flag orefs j)
  | None => mkVD k true 0 false
  end.
Definition fn_indefs (vis : list vinfo) (inn : list N) : option (list (N * N)) :=
  fold_right (fun k acc => obind acc (fun l => obind (vis_pay vis k) (fun p => Some ((k, if N.eqb k 0 then 0%N else p) :: l)))) (Some []) inn.
Definition fin_ftree (f : fproto) (indefs decl : list (N * N)) (lvl : list N) (pns : list pnode) : ftree :=
  let defs0 := indefs ++ decl in
  let orefs := ff_orefs lvl (fp_outs f) in
  FT (fp_id f) (fp_tok f)
     (map (fun jk => let '(j, kp) := jk in mkVD (fst kp) true (snd kp) (ff_flag orefs j)) (combine (seq 0 (length indefs)) indefs))
     (ntrees_of (map (f_node (ff_vd defs0 orefs)) pns))
     (map (fun o => (fst o, snd o, true)) orefs).

Lemma pu_f_unfold f indefs decl lvl pns :
  fp_bad f = false -> fn_indefs (fp_vis f) (fp_ins f) = Some indefs ->
  pu_declare (fp_vis f) (fp_ins f) [] (fp_nodes f) = Some decl ->
  pu_ns (fp_vis f) [] (map fst (indefs ++ decl)) (fp_nodes f) = Some (lvl, pns) ->
  forallb (fun o => is_some (fst o)) (ff_orefs lvl (fp_outs f)) = true ->
  pu_f f = Some (fin_ftree f indefs decl lvl pns).
Proof.
  intros H1 H2 H3 H4 H5. unfold pu_f. rewrite H1. unfold fn_indefs in H2. rewrite H2. cbn [obind]. rewrite H3. cbn [obind].
  rewrite H4. cbn [obind]. cbv beta iota. unfold ff_orefs in H5. rewrite H5. reflexivity.
Qed.

Lemma fn_indefs_spec vis : forall ks ps, Forall2 (fun k p => vis_pay vis k = Some p) ks ps ->
  fn_indefs vis ks = Some (map (fun kp => (fst kp, if N.eqb (fst kp) 0 then 0%N else snd kp)) (combine ks ps)).
Proof.
  induction 1 as [|k p ks ps Hk F IH]; [reflexivity|]. unfold fn_indefs in *. cbn [fold_right combine map fst snd].
  rewrite IH. cbn [obind]. rewrite Hk. reflexivity.
Qed.

Lemma memb_fsel (t : table) outs outvs u : Forall2 (fun k v => lookup k t = Some v) outs outvs ->
  memb u outvs = existsb (fun k => match lookup k t with Some w => Nat.eqb w u | None => false end) outs.
Proof.
  induction 1 as [|k v l l' Hkv F IH]; simpl; auto. rewrite <- IH, Hkv. unfold memb at 1. simpl. f_equal. apply Nat.eqb_sym.
Qed.
Lemma fsel_fflag (t : table) j u outs : NoDup (ids t) -> nth_error (ids t) j = Some u ->
  existsb (fun k => match lookup k t with Some w => Nat.eqb w u | None => false end) outs = ff_flag (ff_orefs (nms t) outs) j.
Proof.
  intros Hnd Hu. unfold ff_flag, ff_orefs. rewrite existsb_map. apply existsb_ext_in. intros k _. cbn [fst].
  apply look_pos; auto.
Qed.

(* ------------------------------------------------------------------ the function case *)
Definition PF (f : fproto) : Prop := forall h h' x,
  deser_function f h = Ok (h', x) ->
  exists F, pu_f f = Some F /\ real2_f (range h h') h' x F /\ f_id x = fid_of F /\ vstep h h' /\ f_graph x < ngr h'.

Lemma PF_all f : PF f.
Proof.
  intros h h4 x H. unfold deser_function in H.
  set (b := nv h) in *. set (vis := fp_vis f) in *. set (nodes := fp_nodes f) in *.
  destruct (alloc_named h (fp_ins f)) as [h0 invs] eqn:E1.
  destruct (apply_infos_named h0 vis (fp_ins f) invs) as [h1|e] eqn:E1'; [|discriminate].
  destruct (phase_fn_inputs b h (fp_ins f) vis h0 invs h1 eq_refl E1 E1') as (ps & B0 & Lps & B2 & B3 & B4 & B5 & B6 & B7 & HT1 & HD1 & Hids0 & S01).
  set (tbl0 := table_of_names [] (fp_ins f) invs) in *.
  set (rdefs := combine (fp_ins f) ps) in *.
  assert (Einn : map fst rdefs = fp_ins f) by (apply map_fst_comb; auto).
  destruct (declare_nodes h1 tbl0 vis nodes) as [[h2 tbl1]|e] eqn:E2; [|discriminate].
  destruct (declare_nodes_pu b vis rdefs nodes h1 tbl0 [] h2 tbl1 E2 HT1)
    as (decl & D1 & D2 & D3 & D4 & D5 & D6 & D7 & D8 & D9 & D10 & D11 & D12 & D13 & D14);
    [unfold b; lia | rewrite app_nil_r; exact HD1 |].
  cbn [map app] in D4.
  assert (D1' : pu_declare vis (fp_ins f) [] nodes = Some decl) by (rewrite <- Einn; exact D1). clear D1. rename D1' into D1.
  destruct (deser_nodes nodes tbl1 [] vis h2) as [[[h3 tbl2] nids]|e] eqn:E3; [|discriminate].
  assert (S02 : vstep h h2) by (eapply vstep_trans; eauto).
  pose proof (vstep_nv _ _ S02) as NV02.
  destruct real_all as (_ & Hns & _).
  destruct (Hns nodes b [] vis h2 tbl1 h3 tbl2 nids) as (pns & N1 & N2 & N3 & N4 & N5 & N6); auto.
  { split; [exact I|]. split; [intros t k v []|intros t k v []]. }
  destruct (lookup_all tbl2 (fp_outs f)) as [outvs|e] eqn:E4; [|discriminate].
  pose proof (lookup_all_inv _ _ _ E4) as LA.
  destruct (new_graph h3 0%N 0%N invs outvs [] nids) as [[h4' gid]|e] eqn:E5; [|discriminate].
  destruct (fp_bad f) eqn:Ebad; [discriminate|]. inversion H; subst h4' x; clear H.
  destruct (new_graph_inv2 _ _ _ _ _ _ _ _ _ E5) as (Hgid & kv & K1 & K2 & K3 & K4 & K5 & K6 & K7 & K8 & K9).
  inversion K1; subst kv. cbn [dict_of map] in K2, K8.
  set (indefs := map (fun kp : N * N => (fst kp, if N.eqb (fst kp) 0 then 0%N else snd kp)) rdefs).
  assert (Eind : map fst indefs = fp_ins f).
  { unfold indefs. rewrite map_map. cbn [fst]. exact Einn. }
  assert (Lind : length indefs = length (fp_ins f)) by (rewrite <- Eind, map_length; auto).
  set (defs0 := indefs ++ decl). set (rdefs0 := rdefs ++ decl).
  assert (Nms1 : nms tbl1 = map fst defs0).
  { rewrite (TD_nms _ _ _ D3). unfold defs0. rewrite !map_app. f_equal. rewrite Eind. exact Einn. }
  set (lvl := nms tbl2) in *. set (orefs := ff_orefs lvl (fp_outs f)).
  (* every function output resolves *)
  assert (OR : Forall2 (fun k v => exists j, index_last k lvl 0 = Some j /\ nth_error (ids tbl2) j = Some v) (fp_outs f) outvs).
  { eapply Forall2_imp; [|exact LA]. intros k v Hl. apply lookup_some_ilast; auto. }
  exists (fin_ftree f indefs decl lvl pns). split.
  { apply pu_f_unfold; auto.
    - unfold indefs, rdefs. apply fn_indefs_spec; auto.
    - fold defs0. rewrite <- Nms1. exact N1.
    - apply forallb_forall. intros o Ho. unfold ff_orefs in Ho. apply in_map_iff in Ho. destruct Ho as (k & <- & Hk).
      destruct (Forall2_inl _ _ _ _ OR Hk) as (v & _ & j & J1 & _). cbn [fst]. rewrite resolve2_one, J1. reflexivity. }
  pose proof (vstep_nv _ _ N4) as NV23. pose proof (vstep_nn _ _ N4) as NN23. pose proof (vstep_ngr _ _ N4) as NG23.
  assert (Hnd2 : NoDup (ids tbl2)) by apply N2.
  destruct (grows_ids _ _ _ N3) as (e3 & Eids3 & He3).
  destruct (grows_nms _ _ _ N3) as (en3 & Enms3 & Hen3). fold lvl in Enms3.
  assert (Len1 : length (ids tbl1) = length rdefs0).
  { rewrite ids_length, <- (rev_length tbl1). apply (Forall2_len _ _ _ D3). }
  assert (HD3 : TD h3 tbl1 rdefs0) by (eapply TD_vstep; eauto).
  assert (Hb2 : forall v, In v (ids tbl2) -> b <= v < nv h3) by (intros v Hv; eapply TBL_ids_lt; eauto).
  assert (Hov : forall w, In w outvs -> In w (ids tbl2)).
  { intros w Hw. destruct (Forall2_inr _ _ _ _ LA Hw) as (k & _ & Hl). eapply In_lookup_ids; eauto. }
  assert (Hinv2 : forall v, In v invs -> In v (ids tbl2)).
  { intros v Hv. rewrite <- Hids0 in Hv. apply In_ids in Hv. destruct Hv as (k & Hk). apply In_ids. exists k.
    eapply grows_in; [exact N3|]. eapply grows_in; [exact D8|]. exact Hk. }
  (* ---- the values of the level in the final heap *)
  assert (LVD : forall j v, nth_error (ids tbl2) j = Some v ->
            exists k x3, nth_error lvl j = Some k /\ getv h3 v = Some x3 /\ b <= v < nv h3 /\
              vdesc_of [] h4 v = mkVD k true (v_info x3) (ff_flag orefs j) /\
              exists x4, getv h4 v = Some x4 /\ v_name x4 = Some k).
  { intros j v Hj. destruct (nth_ids_inv _ _ _ Hj) as (k & Hk & Hin).
    destruct N2 as (_ & N2'). destruct (N2' _ _ Hin) as (Hb & x3 & Hx3 & Hn3 & Ho3).
    pose proof (getv_lt _ _ _ Hx3) as Hlt.
    exists k, x3. csplit; auto.
    - rewrite (vdesc_val h4 v (gval gid invs outvs [] v x3)).
      2:{ rewrite K8, Hx3. subst gid. reflexivity. }
      destruct (gval_fields gid invs outvs [] v x3) as (F1 & F2 & F3 & F4).
      rewrite F1, F2, F4, Hn3, Ho3, orb_false_r.
      rewrite (memb_fsel tbl2 _ _ v LA), (fsel_fflag tbl2 j v _ Hnd2 Hj). reflexivity.
    - eexists. split; [rewrite K8, Hx3; reflexivity|]. cbn. auto. }
  assert (LV2 : forall j v k p0, nth_error (ids tbl2) j = Some v -> nth_error rdefs0 j = Some (k, p0) ->
            vdesc_of [] h4 v = mkVD k true p0 (ff_flag orefs j)).
  { intros j v k p0 Hj Hd. destruct (LVD _ _ Hj) as (k' & x3 & L1 & L2 & L3 & L4 & _).
    assert (Hjl : j < length (ids tbl1)). { rewrite Len1. apply nth_error_Some. congruence. }
    assert (Hj2 : nth_error (ids tbl1) j = Some v). { rewrite Eids3, nth_error_app1 in Hj; auto. }
    destruct (TD_nth _ _ _ _ _ HD3 Hj2) as (k2 & p2 & y & T1 & T2 & T3 & T4).
    assert (Ekp : k2 = k /\ p2 = p0) by (pose proof (eq_trans (eq_sym Hd) T1) as Et; inversion Et; auto). destruct Ekp as (Ek & Ep).
    assert (Ex : y = x3) by congruence.
    assert (Ek' : k' = k). { rewrite Enms3, nth_error_app1 in L1; [congruence|]. rewrite nms_length, <- ids_length; auto. }
    rewrite L4, Ek', <- Ex, T4, Ep. reflexivity. }
  (* ---- frames *)
  assert (X34 : ext h3 h4).
  { unfold ext. rewrite K6, K7, K4. csplit; auto.
    - intros v y Hy. rewrite K8, Hy. cbn. eexists. split; reflexivity.
    - intros n y Hy. rewrite K9, Hy. cbn. eexists. split; [reflexivity|]. apply nfix_nnode.
    - apply gett_same; auto. }
  assert (K34 : keepsP (fun v => range h2 h3 v /\ ~ In v (ids tbl2)) h3 h4).
  { split; auto. intros v y ((V1 & V2) & V3) Hy.
    exists y. split; [|reflexivity]. rewrite K8, Hy. cbn [option_map]. f_equal. apply gval_untouched.
    rewrite !orb_false_iff. repeat split; apply memb_notIn; intros Hin; auto. }
  assert (S03 : vstep h h3) by (eapply vstep_trans; eauto).
  assert (S04 : vstep h h4).
  { destruct S03 as (X03 & V03 & Nd03). split; [eapply ext_trans; eauto|]. split.
    - intros v y Hy. pose proof (getv_lt _ _ _ Hy) as Hv. destruct (V03 _ _ Hy) as (y3 & Hy3 & Em).
      exists y3. split; auto. rewrite K8, Hy3. cbn. f_equal. apply gval_untouched.
      rewrite !orb_false_iff. repeat split; apply memb_notIn; intros Hin; auto.
      + apply Hinv2, Hb2 in Hin. unfold b in *; lia.
      + apply Hov, Hb2 in Hin. unfold b in *; lia.
    - intros n y Hy. rewrite K9, (Nd03 _ _ Hy). cbn. f_equal. unfold nnode.
      assert (Hm : memb n nids = false).
      { apply memb_notIn. intros Hin. apply N5 in Hin. apply getn_lt in Hy. pose proof (vstep_nn _ _ S02). lia. }
      rewrite Hm. auto. }
  (* ---- gdefs *)
  set (z := mkG 0%N 0%N invs outvs [] nids) in *.
  assert (GD : gdefs h4 z = ids tbl1).
  { unfold gdefs. cbn [g_inputs g_inits g_nodes z map filter app].
    assert (P3 : flat_map (fun n => match getn h4 n with Some y => filter (named_ne h4) (n_outputs y) | None => [] end) nids
                 = map (look tbl1) (out_names nodes)).
    { rewrite (gdefs_nodes2 (fun v => range h2 h3 v /\ ~ In v (ids tbl2)) h3 h4 [] (ngr h3) tbl2 X34) with (pns := pns) (cur := ids tbl1) (lvl := ids tbl2).
      - rewrite (pu_ns_outs _ _ _ _ _ _ N1). apply map_ext_in. intros k Hk. unfold look.
        assert (Hk2 : In k (nms tbl1)).
        { rewrite Nms1. unfold defs0. rewrite map_app. apply in_or_app. right. rewrite D4. auto. }
        apply lookup_some_nms in Hk2. destruct (lookup k tbl1) as [w|] eqn:E; [|congruence].
        rewrite (grows_lookup _ _ _ _ _ N3 E). auto.
      - intros k v Hl. eapply TBL_name; eauto. apply lookup_In; auto.
      - exact N6. }
    transitivity (invs ++ map (look tbl1) (out_names nodes)); [f_equal; exact P3|].
    unfold ids at 1. rewrite D5, map_app, map_map. fold (ids tbl0). rewrite Hids0. reflexivity. }
  assert (I12 : exists rest, ids tbl1 = invs ++ rest).
  { destruct (grows_ids _ _ _ D8) as (e2 & Ee2 & _). exists e2. rewrite Ee2, Hids0. reflexivity. }
  destruct I12 as (rest1 & I12).
  assert (Edn : map fst defs0 = fp_ins f ++ out_names nodes).
  { unfold defs0. rewrite map_app, Eind, D4. reflexivity. }
  assert (NG04 : ngr h <= ngr h3) by (apply vstep_ngr; auto).
  split; [|split; [reflexivity|split; [exact S04|cbn [f_graph]; subst gid; rewrite K4; lia]]].
  unfold fin_ftree. fold defs0. fold orefs. cbn [real2_f f_graph f_id f_tok]. exists z, (ids tbl2). rewrite GD.
  cbn [g_name g_tok g_inputs g_inits g_outputs g_nodes z].
  split; [exact K2|]. split; [reflexivity|]. split; [reflexivity|]. split; [reflexivity|].
  split.
  { apply map_combine_seq with (s := 0).
    - rewrite B2, seq_length; auto.
    - intros j v kp Hv Hkp. cbn [Nat.add]. unfold indefs in Hkp. apply nth_error_map_inv in Hkp.
      destruct Hkp as ([k p] & Hkp & <-). cbn [fst snd].
      assert (Hj : nth_error (ids tbl2) j = Some v).
      { rewrite Eids3, I12. apply nth_error_app_l. apply nth_error_app_l. exact Hv. }
      assert (Hd : nth_error rdefs0 j = Some (k, p)) by (unfold rdefs0; apply nth_error_app_l; exact Hkp).
      unfold fn_in_desc. rewrite (LV2 _ _ _ _ Hj Hd). cbn [vd_name vd_named vd_out].
      destruct (N.eqb_spec k 0) as [->|Hz]; reflexivity. }
  split.
  { apply Forall2_map_same. unfold orefs. unfold ff_orefs. apply Forall2_mapr. apply Forall2_flp.
    eapply Forall2_imp; [|exact OR]. intros k v (j & J1 & J2). cbv beta. cbn [fst snd].
    rewrite resolve2_one, J1.
    assert (Hfr : find_ref v [ids tbl2] 0 = Some (0, j)).
    { simpl. rewrite (index_nat_nth v _ Hnd2 j 0 J2). reflexivity. }
    rewrite Hfr. destruct (LVD _ _ J2) as (k' & x3 & L1 & _ & _ & _ & x4 & Hx4 & Hn4).
    assert (k' = k).
    { pose proof (index_last_nth _ _ _ _ J1) as Hn. rewrite Nat.sub_0_r in Hn. congruence. }
    subst k'. destruct (vdesc_name h4 v x4 k Hx4 Hn4) as (A1 & A2). rewrite A1, A2. reflexivity. }
  split.
  { intros v Hv. apply Hinv2, Hb2 in Hv. unfold range, b in *. lia. }
  split.
  { intros v Hv. apply Hov, Hb2 in Hv. lia. }
  eapply pre_real2_ns with (P := fun v => range h2 h3 v /\ ~ In v (ids tbl2)) (h := h3) (gb := ngr h3) (tbl := tbl2).
  - exact K34.
  - intros v ((V1 & V2) & _). unfold range in *. lia.
  - cbn [f_graph]. subst gid. lia.
  - exact N6.
  - intros k v Hk Hl. rewrite (pu_ns_outs _ _ _ _ _ _ N1) in Hk.
    destruct (lookup_some_ilast _ _ _ Hl) as (j & J1 & J2). fold lvl in J1.
    assert (Hk0 : In k (map fst defs0)) by (rewrite Edn; apply in_or_app; auto).
    assert (Hi0 : index_last k (map fst defs0) 0 = Some j).
    { rewrite <- J1. unfold lvl. rewrite <- Nms1. symmetry. apply (grows_index _ _ _ _ N3). rewrite Nms1; auto. }
    (* the position is in the declared part *)
    assert (Hnin : ~ In k (fp_ins f)).
    { intros Hc. apply (D7 _ Hk). rewrite (TD_nms _ _ _ HD1). rewrite <- Einn in Hc. exact Hc. }
    pose proof (index_last_nth _ _ _ _ Hi0) as Hn. rewrite Nat.sub_0_r in Hn.
    assert (Hjge : length (fp_ins f) <= j).
    { destruct (Nat.lt_ge_cases j (length (fp_ins f))) as [Hlt|]; auto. exfalso. apply Hnin.
      rewrite Edn, nth_error_app1 in Hn by auto. eapply nth_error_In; eauto. }
    apply nth_error_map_inv in Hn. destruct Hn as ([k' p0] & Hp0 & Ek). cbn in Ek. subst k'.
    assert (Hr0 : nth_error rdefs0 j = Some (k, p0)).
    { unfold defs0 in Hp0. unfold rdefs0. rewrite nth_error_app2 in Hp0 |- * by (rewrite ?Lind; unfold rdefs; rewrite ?combine_length, ?Lps, ?Nat.min_id; lia).
      rewrite Lind in Hp0. unfold rdefs. rewrite combine_length, Lps, Nat.min_id. exact Hp0. }
    destruct (LVD _ _ J2) as (k' & x3 & L1 & L2 & L3 & L4 & x4 & Hx4 & Hn4).
    assert (k' = k).
    { pose proof (index_last_nth _ _ _ _ J1) as Hn'. rewrite Nat.sub_0_r in Hn'. congruence. }
    subst k'. csplit.
    + unfold range, b in *. lia.
    + lia.
    + unfold ff_vd. rewrite Hi0, Hp0. cbn [snd]. apply LV2; auto.
    + eauto.
Qed.

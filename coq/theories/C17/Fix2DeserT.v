(* C17/Fix2DeserT.v — deser2 for graphs: the deserializer accepts the proto of every wf2 tree and rebuilds a
   state whose generalised unfolding is that tree. *)
From Coq Require Import NArith List Bool Arith Lia.
From IRV Require Import Base.Exn C03.Model C03.Canon C03.Inv C03.Tree C03.TreeF C03.IsoSpecs C17.Basics C17.Specs C17.Steps C17.Phases C17.OpNode C17.OpGraph C17.Deser C03.IsoDeserA C03.IsoDeserB C03.IsoDeserC C03.IsoDeserD C03.IsoDeserE C17.Tree2 C17.Fix2DeserA C17.Fix2DeserB C17.Fix2DeserC C17.Fix2DeserD C17.Fix2DeserE C17.Fix2DeserF C17.Fix2DeserG.
Import ListNotations.

Theorem deser2_all :
  (forall T, P2G T) /\ (forall ns, P2Ns ns) /\ (forall n, P2N n) /\ (forall al, P2As al) /\ (forall a, P2A a) /\
  (forall gs, P2Gs gs).
Proof.
  apply tree_mutind.
  - exact P2G_bad.
  - intros; apply P2G_case; auto.
  - exact P2Ns_nil.
  - intros; apply P2Ns_cons; auto.
  - exact P2N_bad.
  - intros; apply P2N_case; auto.
  - exact P2As_nil.
  - intros; apply P2As_cons; auto.
  - intros; apply P2A_plain.
  - intros; apply P2A_graph; auto.
  - intros; apply P2A_graphs; auto.
  - exact P2Gs_nil.
  - intros; apply P2Gs_cons; auto.
Qed.

Lemma deser2_tree_real : forall T h, wf2_g [] T = true ->
  exists h2 g2, deser_graph (t2p_g T) [] h = Ok (h2, g2) /\ nested h h2 /\ ngr h2 = S g2 /\
                real2_g (fun v => nv h <= v) h2 [] g2 T /\ depth_g T + ngr h <= ngr h2.
Proof.
  intros T h Hwf. destruct deser2_all as (Hg & _).
  destruct (Hg T [] [] h) as (h2 & g2 & E & N & L & R & D); auto.
  - exact I.
  - intros t k v [].
  - exists h2, g2. auto.
Qed.

Lemma real2_g_unfold Q h chain g T :
  real2_g Q h chain g T -> forall fuel, depth_g T < fuel -> unfold2_graph [] fuel h chain g = T.
Proof. destruct real2_unfold as (Bg' & _). apply Bg'. Qed.
Lemma real2_g_nested Q h h' chain g T : real2_g Q h chain g T -> nested h h' -> real2_g Q h' chain g T.
Proof. intros R N. destruct real2_stable as (Sg' & _). eapply Sg'; eauto. apply nested_keepsP; auto. Qed.

Lemma deser2_tree : forall T, wf2_g [] T = true ->
  exists h2 g2, deser_graph (t2p_g T) [] empty_heap = Ok (h2, g2) /\ depth_g T <= length (hg h2) /\
                forall fuel, depth_g T < fuel -> unfold2_graph [] fuel h2 [] g2 = T.
Proof.
  intros T Hwf. destruct (deser2_tree_real T empty_heap Hwf) as (h2 & g2 & E & N & L & R & D).
  exists h2, g2. split; auto. split; [unfold ngr in *; cbn in D; lia|]. eapply real2_g_unfold; eauto.
Qed.

(* C17/PUnfold.v — the unfolding of the state the deserializer builds, computed PURELY from the proto
   (names resolved symbolically).  Definitions only.

   punfold_m p = Some M  is meant to satisfy, for every proto p:
     deser_model p = Ok (h, m)  ->  unfold2_model [] h m = M            (proved in Fix2Real*.v)
   and M is well formed up to the leaf conditions (Fix2Wf*.v).  It mirrors serde._deserialize_graph step by
   step on a symbolic level = list of names (definitions, then placeholders), with "None" where the
   deserializer raises because of a leaf (bad value_info / tensor / attribute) or a redeclared output. *)
From Coq Require Import NArith ZArith List Bool Arith.
From IRV Require Import Base.Exn C03.Model C03.Canon C03.Inv C03.Tree C03.TreeF C17.Tree2.
Import ListNotations.

Definition obind {A B} (o : option A) (f : A -> option B) : option B := match o with Some a => f a | None => None end.

(* payload a freshly created value named k receives from the value_info table; None = leaf error *)
Definition vis_pay (vis : list vinfo) (k : N) : option N :=
  match vi_lookup k vis with
  | Some i => if vi_bad i then None else Some (vi_pay i)
  | None => Some 0%N
  end.
Definition init_pay (vis : list vinfo) (t : tproto) : option N :=
  match vi_lookup (tp_name t) vis with
  | Some i => if vi_bad i then None else Some (fill_pay t (vi_pay i))
  | None => Some (tp_pay t)
  end.
Definition tdesc_of (t : tproto) : tdesc := mkTD (tp_tok t) (tp_pay t) (tp_bad_info t) (tp_fill t).

(* initializer records in dict order: name, last tensor, is-an-input, payload at creation (non-inputs) *)
Record irec := mkIR { ir_name : N; ir_t : tdesc; ir_input : bool; ir_pay : N }.
Fixpoint irec_update (k : N) (t : tdesc) (l : list irec) : option (list irec) :=
  match l with
  | [] => None
  | r :: rest => if N.eqb (ir_name r) k then Some (mkIR k t (ir_input r) (ir_pay r) :: rest)
                 else match irec_update k t rest with Some l' => Some (r :: l') | None => None end
  end.
(* names bound so far = input names ++ names of the non-input initializers created so far *)
Fixpoint pu_inits (vis : list vinfo) (inn : list N) (newn : list N) (recs : list irec) (ts : list tproto)
  : option (list N * list irec) :=
  match ts with
  | [] => Some (newn, recs)
  | t :: r =>
    let k := tp_name t in
    if N.eqb k 0 then pu_inits vis inn newn recs r
    else if existsb (fun t' => N.eqb (tp_name t') k) r then pu_inits vis inn newn recs r   (* only the last tensor of a name *)
    else if memN k inn || memN k newn
    then match irec_update k (tdesc_of t) recs with
         | Some recs' => pu_inits vis inn newn recs' r
         | None => pu_inits vis inn newn (recs ++ [mkIR k (tdesc_of t) true 0%N]) r     (* first initializer of an input *)
         end
    else if tp_bad_info t then None
    else obind (init_pay vis t) (fun p => pu_inits vis inn (newn ++ [k]) (recs ++ [mkIR k (tdesc_of t) false p]) r)
  end.

(* _declare_node_outputs over all nodes: the declared names with their creation payloads *)
Fixpoint pu_declare_outs (vis : list vinfo) (bound : list N) (acc : list (N * N)) (outs : list N) : option (list (N * N)) :=
  match outs with
  | [] => Some acc
  | k :: r =>
    if N.eqb k 0 then pu_declare_outs vis bound acc r
    else if memN k bound || memN k (map fst acc) then None
    else obind (vis_pay vis k) (fun p => pu_declare_outs vis bound (acc ++ [(k, p)]) r)
  end.
Fixpoint pu_declare (vis : list vinfo) (bound : list N) (acc : list (N * N)) (ns : nprotos) : option (list (N * N)) :=
  match ns with
  | NNil => Some acc
  | NCons (Np _ _ _ _ outs _) r => obind (pu_declare_outs vis bound acc outs) (fun acc' => pu_declare vis bound acc' r)
  end.

(* node inputs: resolve, or create a placeholder name in the current level *)
Fixpoint pu_inputs (vis : list vinfo) (outer : list (list N)) (cur : list N) (ins : list N)
  : option (list N * list (option (ref * N * bool))) :=
  match ins with
  | [] => Some (cur, [])
  | k :: r =>
    if N.eqb k 0 then obind (pu_inputs vis outer cur r) (fun cr => Some (fst cr, None :: snd cr))
    else match resolve2 k (cur :: outer) 0 with
         | Some rf => obind (pu_inputs vis outer cur r) (fun cr => Some (fst cr, Some (Some rf, k, true) :: snd cr))
         | None =>
           obind (vis_pay vis k) (fun _ =>
           obind (pu_inputs vis outer (cur ++ [k]) r) (fun cr =>
             Some (fst cr, Some (Some (0, length cur), k, true) :: snd cr)))
         end
  end.

(* trailing empty names are not serialized, hence absent from the unfolding *)
Fixpoint trim_names (l : list N) : list N :=
  match l with
  | [] => []
  | k :: r => match trim_names r with [] => if N.eqb k 0 then [] else [k] | l' => k :: l' end
  end.

(* attribute dict: a later attribute of the same name replaces the value in place *)
Definition aname (a : atree) : N := match a with TPlain k _ _ => k | TGraph k _ => k | TGraphs k _ => k end.
Fixpoint adict_set (a : atree) (l : list atree) : list atree :=
  match l with
  | [] => [a]
  | b :: r => if N.eqb (aname a) (aname b) then a :: r else b :: adict_set a r
  end.
Definition adict (l : list atree) : list atree := fold_left (fun acc a => adict_set a acc) l [].

(* provisional node: everything except the final payload / out flag of its outputs *)
Record pnode := mkPN { pn_name : N; pn_op : N; pn_tok : N; pn_ins : list (option (ref * N * bool));
                       pn_outs : list N; pn_attrs : list atree }.


Fixpoint pu_g (outer : list (list N)) (gp : gproto) {struct gp} : option gtree :=
  match gp with
  | Gp gname gtok ins outs inits vis nodes =>
    if existsb vi_bad ins || existsb vi_bad outs || existsb tp_bad_ctor inits then None else
    let inn := map vi_name ins in
    obind (pu_inits vis inn [] [] inits) (fun nr =>
    let '(newn, recs) := nr in
    let initdefs := map (fun r => (ir_name r, ir_pay r)) (filter (fun r => negb (ir_input r)) recs) in
    obind (pu_declare vis (inn ++ newn) [] nodes) (fun decl =>
    let defs0 := map (fun i => (vi_name i, vi_pay i)) ins ++ initdefs ++ decl in
    let D := map fst defs0 in
    obind (pu_ns vis outer D nodes) (fun lp =>
    let '(lvl, pns) := lp in
    (* graph outputs: own final level *)
    let orefs := map (fun i => (resolve2 (vi_name i) [lvl] 0, vi_name i, vi_pay i)) outs in
    (* final payload / out flag of level position j *)
    let pay_fin := fun (j : nat) (p0 : N) =>
      fold_left (fun acc o => match fst (fst o) with
                              | Some (_, j') => if Nat.eqb j j' then snd o else acc
                              | None => acc
                              end) orefs p0 in
    let flag := fun (j : nat) =>
      existsb (fun o => match fst (fst o) with Some (_, j') => Nat.eqb j j' | None => false end) orefs in
    let pos := fun (k : N) => match index_last k D 0 with Some j => j | None => 0 end in
    let vd := fun (k : N) => match index_last k D 0 with
                             | Some j => mkVD k true (pay_fin j (match nth_error defs0 j with Some kp => snd kp | None => 0%N end)) (flag j)
                             | None => mkVD k true 0 false
                             end in
    Some (GT gname gtok
             (map (fun ji => let '(j, i) := ji in mkVD (vi_name i) true (pay_fin j (vi_pay i)) (flag j))
                  (combine (seq 0 (length ins)) ins))
             (map (fun r => mkID (ir_name r) true (Some (ir_t r)) (ir_input r)
                                 (if ir_input r
                                  then match index_last (ir_name r) inn 0 with
                                       | Some j => pay_fin j (match nth_error ins j with Some i => vi_pay i | None => 0%N end)
                                       | None => 0%N
                                       end
                                  else vd_pay (vd (ir_name r)))) recs)
             (ntrees_of (map (fun pn => NT (pn_name pn) (pn_op pn) (pn_tok pn) (pn_ins pn)
                                           (map (fun k => if N.eqb k 0 then mkVD 0 true 0 false else vd k) (pn_outs pn))
                                           (atrees_of (pn_attrs pn))) pns))
             (map (fun o => let '(r, k, p) := o in
                            (r, mkVD k true (match r with Some (_, j) => pay_fin j p | None => p end) true)) orefs)))))
  end
(* nodes: thread the level; returns the final level and the provisional nodes *)
with pu_ns (vis : list vinfo) (outer : list (list N)) (cur : list N) (ns : nprotos) {struct ns}
  : option (list N * list pnode) :=
  match ns with
  | NNil => Some (cur, [])
  | NCons n r =>
    obind (pu_n vis outer cur n) (fun cp =>
    obind (pu_ns vis outer (fst cp) r) (fun cr => Some (fst cr, snd cp :: snd cr)))
  end
with pu_n (vis : list vinfo) (outer : list (list N)) (cur : list N) (n : nproto) {struct n} : option (list N * pnode) :=
  match n with
  | Np nname op ntok ins outs attrs =>
    obind (pu_inputs vis outer cur ins) (fun ci =>
    let '(cur', itrees) := ci in
    obind (pu_as (cur' :: outer) attrs) (fun al =>
    Some (cur', mkPN nname op ntok itrees (trim_names outs) (adict al))))
  end
with pu_as (nsc : list (list N)) (al : aprotos) {struct al} : option (list atree) :=
  match al with
  | ANil => Some []
  | ACons a r => if existsb (N.eqb (aproto_name a)) (aproto_names r) then pu_as nsc r   (* only the last of a name *)
                 else obind (pu_a nsc a) (fun x => obind (pu_as nsc r) (fun l => Some (x :: l)))
  end
with pu_a (nsc : list (list N)) (a : aproto) {struct a} : option atree :=
  match a with
  | APlain k tok bad sbad => if bad then None else Some (TPlain k tok sbad)
  | AGraph k g => obind (pu_g nsc g) (fun t => Some (TGraph k t))
  | AGraphs k gs => obind (pu_gs nsc gs) (fun l => Some (TGraphs k (gtrees_of l)))
  end
with pu_gs (nsc : list (list N)) (gs : gprotos) {struct gs} : option (list gtree) :=
  match gs with
  | GNil => Some []
  | GCons g r => obind (pu_g nsc g) (fun t => obind (pu_gs nsc r) (fun l => Some (t :: l)))
  end.

(* functions: inputs by name (payload from the function's value_info), no initializers, outputs must resolve *)
Definition pu_f (f : fproto) : option ftree :=
  if fp_bad f then None else
  let vis := fp_vis f in
  let inn := fp_ins f in
  obind (fold_right (fun k acc => obind acc (fun l => obind (vis_pay vis k) (fun p => Some ((k, if N.eqb k 0 then 0%N else p) :: l)))) (Some []) inn)
        (fun indefs =>
  obind (pu_declare vis inn [] (fp_nodes f)) (fun decl =>
  let defs0 := indefs ++ decl in
  let D := map fst defs0 in
  obind (pu_ns vis [] D (fp_nodes f)) (fun lp =>
  let '(lvl, pns) := lp in
  let orefs := map (fun k => (resolve2 k [lvl] 0, k)) (fp_outs f) in
  if negb (forallb (fun o => is_some (fst o)) orefs) then None else
  let flag := fun (j : nat) =>
    existsb (fun o => match fst o with Some (_, j') => Nat.eqb j j' | None => false end) orefs in
  let vd := fun (k : N) => match index_last k D 0 with
                           | Some j => mkVD k true (match nth_error defs0 j with Some kp => snd kp | None => 0%N end) (flag j)
                           | None => mkVD k true 0 false
                           end in
  Some (FT (fp_id f) (fp_tok f)
           (map (fun jk => let '(j, kp) := jk in mkVD (fst kp) true (snd kp) (flag j)) (combine (seq 0 (length indefs)) indefs))
           (ntrees_of (map (fun pn => NT (pn_name pn) (pn_op pn) (pn_tok pn) (pn_ins pn)
                                         (map (fun k => if N.eqb k 0 then mkVD 0 true 0 false else vd k) (pn_outs pn))
                                         (atrees_of (pn_attrs pn))) pns))
           (map (fun o => (fst o, snd o, true)) orefs))))).

(* Model(functions=...) dict: a later function of the same identifier replaces the earlier one in place *)
Fixpoint fdict_set (F : ftree) (l : list ftree) : list ftree :=
  match l with
  | [] => [F]
  | G :: r => if N.eqb (fid_of G) (fid_of F) then F :: r else G :: fdict_set F r
  end.
Definition pu_m (p : mproto) : option mtree :=
  obind (pu_g [] (mp_graph p)) (fun T =>
  obind (fold_right (fun f acc => obind acc (fun l => obind (pu_f f) (fun F => Some (F :: l)))) (Some []) (mp_funcs p))
        (fun Fs => Some (MT (mp_tok p) T (fold_left (fun acc F => fdict_set F acc) Fs [])))).

(* per-case evaluation: the symbolic unfolding equals the unfolding of the deserialized state *)
Definition punfold_agrees_b (p : mproto) : bool :=
  match deser_model p with
  | Raise _ => true
  | Ok (h, m) => match pu_m p with
                 | None => false
                 | Some M => obs_eqb (obs_mt M) (obs_mt (unfold2_model [] h m))
                 end
  end.

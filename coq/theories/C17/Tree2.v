(* C17/Tree2.v — unfolding of ARBITRARY deserialized states (used to prove C17_ser_fixpoint for every proto).
   Definitions only.

   Same trees as C03/Tree.v (gtree ...; t2p_g is reused unchanged), but the unfolding also handles what the
   deserializer accepts from malformed protos:
   * placeholder values for dangling node-input names: a scope level is the list of values the graph defines
     (gdefs) FOLLOWED BY its placeholders in order of first use by the graph's own nodes; while the nodes of a
     graph are unfolded the level grows, and a nested graph sees the level as it is at its enclosing node;
   * duplicated / empty input names: name resolution takes the LAST definition of a name in a level;
   * graph outputs that resolve to nothing in their own level: reference None (a fresh value per occurrence).
   wf2_g is the boolean well-formedness under which (i) the deserializer accepts t2p_g T and rebuilds a state
   unfolding to T, and which (ii) holds of the unfolding of every state the deserializer returns. *)
From Coq Require Import NArith ZArith List Bool Arith.
From IRV Require Import Base.Exn C03.Model C03.Canon C03.Inv C03.Tree C03.TreeF.
Import ListNotations.

(* ------------------------------------------------------------------ heap -> tree *)
Section Unfold2.
  Variable np : list (N * N).
  Variable h : heap.
  Variable rec : list (list nat) -> nat -> gtree.

  Definition in_chain (v : nat) (chain : list (list nat)) : bool := is_some (find_ref v chain 0).
  (* placeholders first used by this node's inputs *)
  Fixpoint add_frees (outer : list (list nat)) (cur : list nat) (ins : list (option nat)) : list nat :=
    match ins with
    | [] => cur
    | None :: r => add_frees outer cur r
    | Some v :: r => if in_chain v (cur :: outer) then add_frees outer cur r else add_frees outer (cur ++ [v]) r
    end.
  Definition unfold2_node (outer : list (list nat)) (cur : list nat) (n : nat) : ntree * list nat :=
    match getn h n with
    | None => (NBad, cur)
    | Some y =>
      let cur' := add_frees outer cur (n_inputs y) in
      (NT (match n_name y with Some k => k | None => 0%N end) (n_op y) (n_tok y)
          (map (fun ov => match ov with
                          | None => None
                          | Some v => Some (find_ref v (cur' :: outer) 0, vd_name (vdesc_of np h v), vd_named (vdesc_of np h v))
                          end) (n_inputs y))
          (map (vdesc_of np h) (trim_outputs h (n_outputs y)))
          (atrees_of (map (unfold_attr rec (cur' :: outer)) (n_attrs y))),
       cur')
    end.
  Fixpoint unfold2_nodes (outer : list (list nat)) (cur : list nat) (ns : list nat) : list ntree * list nat :=
    match ns with
    | [] => ([], cur)
    | n :: r => let '(t, cur1) := unfold2_node outer cur n in
                let '(ts, cur2) := unfold2_nodes outer cur1 r in (t :: ts, cur2)
    end.
  Definition unfold2_graph_body (chain : list (list nat)) (g : nat) : gtree :=
    match getg h g with
    | None => GBad
    | Some z =>
      let '(nts, lvl) := unfold2_nodes chain (gdefs h z) (g_nodes z) in
      GT (g_name z) (g_tok z)
         (map (vdesc_of np h) (g_inputs z))
         (map (idesc_of np h z) (g_inits z))
         (ntrees_of nts)
         (map (fun v => (find_ref v [lvl] 0, vdesc_of np h v)) (g_outputs z))
    end.
End Unfold2.

Fixpoint unfold2_graph (np : list (N * N)) (fuel : nat) (h : heap) (chain : list (list nat)) (g : nat) : gtree :=
  match fuel with
  | O => GBad
  | S f => unfold2_graph_body np h (unfold2_graph np f h) chain g
  end.
Definition unfold2_root (np : list (N * N)) (h : heap) (g : nat) : gtree := unfold2_graph np (ser_fuel h) h [] g.

(* a function input receives its payload through the function's value_info BY NAME, and an empty name never
   gets an entry: the payload of an empty-named function input is not part of the serialized form *)
Definition fn_in_desc (np : list (N * N)) (h : heap) (v : nat) : vdesc :=
  let d := vdesc_of np h v in
  if N.eqb (vd_name d) 0 then mkVD 0 (vd_named d) 0 (vd_out d) else d.
Definition unfold2_function (np : list (N * N)) (h : heap) (f : func) : ftree :=
  match getg h (f_graph f) with
  | None => FBad
  | Some z =>
    match g_inits z with
    | _ :: _ => FBad
    | [] =>
      let '(nts, lvl) := unfold2_nodes np h (unfold2_graph np (ser_fuel h) h) [] (gdefs h z) (g_nodes z) in
      FT (f_id f) (f_tok f)
         (map (fn_in_desc np h) (g_inputs z))
         (ntrees_of nts)
         (map (fun v => (find_ref v [lvl] 0, vd_name (vdesc_of np h v), vd_named (vdesc_of np h v))) (g_outputs z))
    end
  end.
Definition unfold2_model (np : list (N * N)) (h : heap) (m : model) : mtree :=
  MT (m_tok m) (unfold2_root np h (m_graph m)) (map (unfold2_function np h) (m_funcs m)).

(* ------------------------------------------------------------------ well-formedness (names vs references) *)
Fixpoint index_last (k : N) (l : list N) (i : nat) : option nat :=
  match l with
  | [] => None
  | y :: r => match index_last k r (S i) with
              | Some j => Some j
              | None => if N.eqb k y then Some i else None
              end
  end.
(* a name resolves to the LAST definition of the innermost level that has one *)
Fixpoint resolve2 (k : N) (nsc : list (list N)) (d : nat) : ref :=
  match nsc with
  | [] => None
  | Lv :: r => match index_last k Lv 0 with Some j => Some (d, j) | None => resolve2 k r (S d) end
  end.
(* dangling input names of one node become placeholder names of the current level *)
Fixpoint add_free_names (outer : list (list N)) (cur : list N) (ins : list (option (ref * N * bool))) : list N :=
  match ins with
  | [] => cur
  | None :: r => add_free_names outer cur r
  | Some (_, k, _) :: r =>
    if is_some (resolve2 k (cur :: outer) 0) then add_free_names outer cur r
    else add_free_names outer (cur ++ [k]) r
  end.

Definition is_last (k : N) (j : nat) (l : list N) : bool := option_eqb Nat.eqb (index_last k l 0) (Some j).

(* inputs: the out flag is set exactly on the last input of a name that is a graph output name *)
Fixpoint wf2_ins (inn outn : list N) (ins : list vdesc) (j : nat) : bool :=
  match ins with
  | [] => true
  | d :: r => vd_named d && Bool.eqb (vd_out d) (memN (vd_name d) outn && is_last (vd_name d) j inn)
              && wf2_ins inn outn r (S j)
  end.
Definition wf2_init (ins : list vdesc) (outn : list N) (i : idesc) : bool :=
  id_named i && negb (N.eqb (id_name i) 0)
  && match id_tensor i with
     | None => false
     | Some t =>
       let inn := map vd_name ins in
       if id_input i
       then match index_last (id_name i) inn 0 with
            | Some j => match nth_error ins j with Some d => N.eqb (vd_pay d) (id_pay i) | None => false end
            | None => false
            end
       else negb (memN (id_name i) inn) && negb (td_bad t)
            && (memN (id_name i) outn || (negb (N.eqb (id_pay i) 0) && N.eqb (fill_pay' t (id_pay i)) (id_pay i)))
     end.
Definition wf2_node_in (nsc : list (list N)) (o : option (ref * N * bool)) : bool :=
  match o with
  | None => true
  | Some (r, k, named) => named && negb (N.eqb k 0) && is_some r && ref_eqb r (resolve2 k nsc 0)
  end.

Fixpoint wf2_g (nsc : list (list N)) (T : gtree) : bool :=
  match T with
  | GBad => false
  | GT gname gtok ins inits nodes outs =>
    let inn := map vd_name ins in
    let defs := tdefs ins inits nodes in
    let D := map fst defs in
    let rest := skipn (length ins) D in        (* non-input initializers and non-empty node outputs *)
    let outn := map (fun o => vd_name (snd o)) outs in
    wf2_ins inn outn ins 0
    && forallb (wf2_init ins outn) inits
    && nodup_N (map id_name inits)
    && nodup_N rest && forallb (fun k => negb (memN k inn)) rest
    && match wf2_ns nsc D outn nodes with
       | None => false
       | Some Lv =>
         forallb (fun o => let '(r, d) := o in
                           vd_named d && vd_out d && ref_eqb r (resolve2 (vd_name d) [Lv] 0)
                           && match r with
                              | Some (_, j) =>
                                (* the payload written at the output is the payload at the definition site;
                                   outputs naming the same placeholder agree among themselves *)
                                match nth_error defs j with
                                | Some (_, p) => N.eqb p (vd_pay d)
                                | None => forallb (fun o' => negb (ref_eqb (fst o') r) || N.eqb (vd_pay (snd o')) (vd_pay d)) outs
                                end
                              | None => true
                              end) outs
       end
  end
(* returns the level (definitions ++ placeholder names) after the nodes, None when ill formed *)
with wf2_ns (outer : list (list N)) (cur : list N) (outn : list N) (ns : ntrees) : option (list N) :=
  match ns with
  | TNil => Some cur
  | TCons n r => match wf2_n outer cur outn n with
                 | None => None
                 | Some cur1 => wf2_ns outer cur1 outn r
                 end
  end
with wf2_n (outer : list (list N)) (cur : list N) (outn : list N) (n : ntree) : option (list N) :=
  match n with
  | NBad => None
  | NT nname op ntok ins outs attrs =>
    let cur' := add_free_names outer cur ins in
    if forallb (wf2_node_in (cur' :: outer)) ins && forallb (wf_node_out outn) outs && no_trailing_empty outs
       && nodup_N (anames attrs) && wf2_as (cur' :: outer) attrs
    then Some cur' else None
  end
with wf2_as (nsc : list (list N)) (al : atrees) : bool :=
  match al with TANil => true | TACons a r => wf2_a nsc a && wf2_as nsc r end
with wf2_a (nsc : list (list N)) (a : atree) : bool :=
  match a with
  | TPlain _ _ sbad => negb sbad
  | TGraph _ g => wf2_g nsc g
  | TGraphs _ gs => wf2_gs nsc gs
  end
with wf2_gs (nsc : list (list N)) (gs : gtrees) : bool :=
  match gs with TGNil => true | TGCons g r => wf2_g nsc g && wf2_gs nsc r end.

Definition wf2_f (F : ftree) : bool :=
  match F with
  | FBad => false
  | FT fid ftok ins nodes outs =>
    let inn := map vd_name ins in
    let defs := tdefs ins [] nodes in
    let D := map fst defs in
    let rest := skipn (length ins) D in
    let outn := map (fun o => snd (fst o)) outs in
    wf2_ins inn outn ins 0
    (* every input of a name carries the payload of the LAST value_info entry of that name (none: 0) *)
    && forallb (fun d => N.eqb (vd_pay d) (match vi_lookup (vd_name d) (flat_map fn_vi ins) with
                                           | Some i => vi_pay i | None => 0%N end)) ins
    && nodup_N rest && forallb (fun k => negb (memN k inn)) rest
    && match wf2_ns [] D outn nodes with
       | None => false
       | Some Lv => forallb (fun o => let '(r, k, named) := o in
                                      named && is_some r && ref_eqb r (resolve2 k [Lv] 0)) outs
       end
  end.
Definition wf2_m (M : mtree) : bool :=
  wf2_g [] (mt_graph M) && forallb wf2_f (mt_funcs M) && nodup_N (map fid_of (mt_funcs M)).

(* ------------------------------------------------------------------ per-case evaluation of the three lemmas *)
(* (A2) the serializer writes t2p of the unfolding;  (W2) the unfolding of a deserialized state is well formed;
   (B2) deserializing t2p of a well-formed tree rebuilds a state unfolding to it *)
Definition fix2_statement_b (np : list (N * N)) (p : mproto) : bool :=
  match deser_model p with
  | Raise _ => true
  | Ok (h, m) =>
    match ser_model np h m with
    | Raise _ => true
    | Ok (_, q) =>
      let M := unfold2_model np h m in
      obs_eqb (obs_m (t2p_m M)) (obs_m q)
      && wf2_m M
      && match deser_model (t2p_m M) with
         | Raise _ => false
         | Ok (h2, m2) => obs_eqb (obs_mt (unfold2_model [] h2 m2)) (obs_mt M)
         end
    end
  end.
Definition fix2_parts (np : list (N * N)) (p : mproto) : list bool :=
  match deser_model p with
  | Raise _ => []
  | Ok (h, m) =>
    match ser_model np h m with
    | Raise _ => []
    | Ok (_, q) =>
      let M := unfold2_model np h m in
      [obs_eqb (obs_m (t2p_m M)) (obs_m q); wf2_m M;
       match deser_model (t2p_m M) with
       | Raise _ => false
       | Ok (h2, m2) => obs_eqb (obs_mt (unfold2_model [] h2 m2)) (obs_mt M)
       end]
    end
  end.

(* C17/Fix2DeserA.v — pure lemmas for the generalised deserialization proof (deser2): association lists with
   duplicated keys (the newest binding wins = index_last in the list of keys, oldest first), resolve2 vs find_ref. *)
From Coq Require Import NArith List Bool Arith Lia.
From IRV Require Import Base.Exn C03.Model C03.Canon C03.Inv C03.Tree C03.TreeF C03.IsoSpecs C17.Basics C17.Specs C17.Steps C17.Phases C17.OpNode C17.OpGraph C17.Deser C03.IsoDeserA C03.IsoDeserB C03.IsoDeserC C17.Tree2.
Import ListNotations.

Arguments lookup : simpl never.
Arguments lookup_scopes : simpl never.

Lemma lookup_app {A} k (a b : list (N * A)) :
  lookup k (a ++ b) = match lookup k a with Some v => Some v | None => lookup k b end.
Proof.
  induction a as [|[k' x] a IH]; cbn [app].
  - rewrite lookup_nil. auto.
  - rewrite !lookup_cons. destruct (N.eqb k k'); auto.
Qed.

(* ------------------------------------------------------------------ index_last *)
Lemma index_last_None k l i : index_last k l i = None <-> ~ In k l.
Proof.
  revert i; induction l as [|y l IH]; intros i; simpl.
  - split; auto.
  - destruct (index_last k l (S i)) eqn:E.
    + split; [discriminate|]. intros H. exfalso. assert (Hn : ~ In k l) by (intros Hc; apply H; auto).
      apply (IH (S i)) in Hn. congruence.
    + apply IH in E. destruct (N.eqb_spec k y) as [->|Hn].
      * split; [discriminate | intros H; exfalso; apply H; auto].
      * split; auto. intros _ [Hc|Hc]; [congruence|auto].
Qed.

Lemma index_last_ge k l : forall i j, index_last k l i = Some j -> i <= j.
Proof.
  induction l as [|y l IH]; intros i j H; simpl in H; [discriminate|].
  destruct (index_last k l (S i)) eqn:E.
  - inversion H; subst. apply IH in E. lia.
  - destruct (N.eqb k y); inversion H; subst; lia.
Qed.

Lemma index_last_nth k l : forall i j, index_last k l i = Some j -> nth_error l (j - i) = Some k.
Proof.
  induction l as [|y l IH]; intros i j H; simpl in H; [discriminate|].
  destruct (index_last k l (S i)) eqn:E.
  - inversion H; subst. pose proof (index_last_ge _ _ _ _ E). apply IH in E.
    replace (j - i) with (S (j - S i)) by lia. exact E.
  - destruct (N.eqb_spec k y); inversion H; subst. rewrite Nat.sub_diag. reflexivity.
Qed.

Lemma index_last_shift k l : forall i j, index_last k l i = Some j -> forall i', index_last k l i' = Some (j - i + i').
Proof.
  induction l as [|y l IH]; intros i j H i'; simpl in *; [discriminate|].
  destruct (index_last k l (S i)) eqn:E.
  - inversion H; subst. pose proof (index_last_ge _ _ _ _ E). rewrite (IH _ _ E (S i')). f_equal. lia.
  - assert (E' : index_last k l (S i') = None) by (apply index_last_None; apply index_last_None in E; auto).
    rewrite E'. destruct (N.eqb k y); inversion H; subst. f_equal. lia.
Qed.

Lemma index_last_app_notin k l1 l2 i : ~ In k l2 -> index_last k (l1 ++ l2) i = index_last k l1 i.
Proof.
  revert i; induction l1 as [|y l1 IH]; intros i H; simpl.
  - apply index_last_None; auto.
  - rewrite IH; auto.
Qed.
Lemma index_last_app_in k l1 l2 i : In k l2 -> index_last k (l1 ++ l2) i = index_last k l2 (i + length l1).
Proof.
  revert i; induction l1 as [|y l1 IH]; intros i H; simpl.
  - rewrite Nat.add_0_r. auto.
  - rewrite IH; auto. replace (S i + length l1) with (i + S (length l1)) by lia.
    destruct (index_last k l2 (i + S (length l1))) eqn:E; auto. apply index_last_None in E. contradiction.
Qed.
Lemma index_last_lt k l i j : index_last k l i = Some j -> j < i + length l.
Proof.
  intros H. pose proof (index_last_ge _ _ _ _ H). apply index_last_nth in H.
  assert (j - i < length l) by (apply nth_error_Some; congruence). lia.
Qed.

(* the newest binding of k in a table = the last occurrence of k in the keys (oldest first) *)
Lemma ilast_spec (l : table) k : forall i,
  match index_last k (map fst l) i with
  | Some j => i <= j /\ exists v, lookup k (rev l) = Some v /\ nth_error (map snd l) (j - i) = Some v
  | None => lookup k (rev l) = None
  end.
Proof.
  induction l as [|[k0 v0] l IH]; intros i; simpl.
  - rewrite lookup_nil. auto.
  - rewrite lookup_app. specialize (IH (S i)). revert IH. destruct (index_last k (map fst l) (S i)) as [j|]; intros IH.
    + destruct IH as (Hl & v & Hv & Hn). split; [lia|]. exists v. rewrite Hv. split; auto.
      replace (j - i) with (S (j - S i)) by lia. exact Hn.
    + rewrite IH. rewrite lookup_cons, lookup_nil. destruct (N.eqb k k0).
      * split; auto. exists v0. rewrite Nat.sub_diag. auto.
      * auto.
Qed.

Lemma lookup_ilast (t : table) k :
  match index_last k (nms t) 0 with
  | Some j => exists v, lookup k t = Some v /\ nth_error (ids t) j = Some v
  | None => lookup k t = None
  end.
Proof.
  pose proof (ilast_spec (rev t) k 0) as H. rewrite rev_involutive in H. unfold nms, ids.
  revert H. destruct (index_last k (map fst (rev t)) 0) as [j|]; intros H; auto.
  destruct H as (_ & v & Hv & Hn). rewrite Nat.sub_0_r in Hn. eauto.
Qed.

Lemma lookup_none_ilast (t : table) k : lookup k t = None <-> index_last k (nms t) 0 = None.
Proof.
  pose proof (lookup_ilast t k) as H. revert H. destruct (index_last k (nms t) 0) as [j|]; intros H.
  - destruct H as (v & Hv & _). split; congruence.
  - split; auto.
Qed.

(* ------------------------------------------------------------------ index_nat on duplicate-free lists *)
Lemma index_nat_nth v l : NoDup l -> forall j i, nth_error l j = Some v -> index_nat v l i = Some (i + j).
Proof.
  intros Hnd. induction Hnd as [|y l Hy Hnd IH]; intros j i H; [destruct j; discriminate|].
  simpl. destruct j as [|j]; simpl in H.
  - inversion H; subst. rewrite Nat.eqb_refl. f_equal; lia.
  - destruct (Nat.eqb_spec v y) as [->|Hn].
    + exfalso. apply Hy. eapply nth_error_In; eauto.
    + rewrite (IH j (S i) H). f_equal; lia.
Qed.

Lemma find_ref_None v : forall chain d, find_ref v chain d = None <-> forall l, In l chain -> ~ In v l.
Proof.
  induction chain as [|D r IH]; intros d; simpl.
  - split; auto; intros _ l [].
  - destruct (index_nat v D 0) eqn:E.
    + split; [discriminate|]. intros H. exfalso. apply (H D); auto.
      destruct (in_dec Nat.eq_dec v D) as [Hi|Hi]; auto. apply (index_nat_None v D 0) in Hi. congruence.
    + apply index_nat_None in E. rewrite IH. split.
      * intros H l [<-|Hl]; auto.
      * intros H l Hl. apply H; auto.
Qed.
Lemma find_ref_Some_ex v : forall chain d r, find_ref v chain d = Some r -> exists l, In l chain /\ In v l.
Proof.
  induction chain as [|D rr IH]; intros d r H; simpl in H; [discriminate|].
  destruct (index_nat v D 0) eqn:E.
  - exists D. split; [left; auto|]. destruct (in_dec Nat.eq_dec v D) as [Hi|Hi]; auto.
    apply (index_nat_None v D 0) in Hi. congruence.
  - destruct (IH _ _ H) as (l & Hl & Hv). exists l. split; auto. right; auto.
Qed.
Lemma in_chain_true v chain : in_chain v chain = true <-> exists l, In l chain /\ In v l.
Proof.
  unfold in_chain. destruct (find_ref v chain 0) eqn:E; simpl.
  - split; auto. intros _. eapply find_ref_Some_ex; eauto.
  - pose proof (proj1 (find_ref_None v chain 0) E) as E'. split; [discriminate|]. intros (l & Hl & Hv). exfalso. eapply E'; eauto.
Qed.
Lemma in_chain_false v chain : in_chain v chain = false <-> forall l, In l chain -> ~ In v l.
Proof.
  split.
  - intros H l Hl Hv. assert (in_chain v chain = true) by (apply in_chain_true; eauto). congruence.
  - intros H. destruct (in_chain v chain) eqn:E; auto. apply in_chain_true in E. destruct E as (l & Hl & Hv).
    exfalso. eapply H; eauto.
Qed.

(* ------------------------------------------------------------------ scope chains with duplicated keys *)
Fixpoint chain_ok2 (sc : list table) : Prop :=
  match sc with
  | [] => True
  | t :: r => NoDup (ids t) /\ (forall k v, In (k, v) t -> forall t' k', In t' r -> ~ In (k', v) t') /\ chain_ok2 r
  end.

Lemma find_resolve2 : forall sc k v d,
  chain_ok2 sc -> lookup_scopes k sc = Some v ->
  find_ref v (map ids sc) d = resolve2 k (map nms sc) d /\ resolve2 k (map nms sc) d <> None.
Proof.
  induction sc as [|t r IH]; intros k v d Hc Hl; unfold lookup_scopes in Hl; fold lookup_scopes in Hl; [discriminate|].
  destruct Hc as (H2 & H3 & H4). simpl.
  pose proof (lookup_ilast t k) as Hi. revert Hi. destruct (index_last k (nms t) 0) as [j|]; intros Hi.
  - destruct Hi as (v' & Hv' & Hn). rewrite Hv' in Hl. inversion Hl; subst v'.
    rewrite (index_nat_nth v (ids t) H2 j 0 Hn). split; [auto|discriminate].
  - rewrite Hi in Hl.
    assert (Hv : index_nat v (ids t) 0 = None).
    { apply index_nat_None. rewrite In_ids. intros (k' & Hk').
      destruct (lookup_scopes_In _ _ _ Hl) as (t' & Ht' & Hin'). eapply (H3 _ _ Hk'); eauto. }
    rewrite Hv. apply IH; auto.
Qed.

Lemma resolve2_none : forall sc k d, lookup_scopes k sc = None -> resolve2 k (map nms sc) d = None.
Proof.
  induction sc as [|t r IH]; intros k d H; simpl; auto.
  unfold lookup_scopes in H; fold lookup_scopes in H. destruct (lookup k t) eqn:E; [discriminate|].
  apply lookup_none_ilast in E. rewrite E. auto.
Qed.
Lemma resolve2_some : forall sc k d, resolve2 k (map nms sc) d <> None -> exists v, lookup_scopes k sc = Some v.
Proof.
  intros sc k d H. destruct (lookup_scopes k sc) eqn:E; eauto. exfalso. apply H. apply resolve2_none; auto.
Qed.

Lemma lookup_scopes_cons k t sc : lookup_scopes k (t :: sc) = match lookup k t with Some v => Some v | None => lookup_scopes k sc end.
Proof. reflexivity. Qed.

(* C17/Fix2RealB.v — frame relations for the proof of punfold_real (vstep: existing values keep everything but
   producer/uses; keepsP P: the values in P keep what the unfolding reads), the relational, fuel-free form
   real2_g of unfold2 (levels threaded through the nodes; P = the values owned by the construct; nested graph
   identifiers are smaller than the enclosing one, which replaces the fuel), its stability under keepsP,
   monotonicity, and the bridge to unfold2_graph. *)
From Coq Require Import NArith List Bool Arith Lia.
From IRV Require Import Base.Exn C03.Model C03.Canon C03.Inv C03.Tree C03.TreeF C03.IsoDeserA C03.IsoDeserB
  C17.Basics C17.Specs C17.Steps C17.Phases C17.OpNode C17.OpGraph C17.Deser C17.Top C17.Tree2 C17.PUnfold C17.Fix2Defs
  C17.Fix2RealA.
Import ListNotations.

(* ------------------------------------------------------------------ frames *)
Definition vstep (h h' : heap) : Prop :=
  ext h h' /\
  (forall v x, getv h v = Some x -> exists x', getv h' v = Some x' /\ vmid x' = vmid x) /\
  (forall n y, getn h n = Some y -> getn h' n = Some y).
Definition keepsP (P : nat -> Prop) (h h' : heap) : Prop :=
  ext h h' /\ forall v x, P v -> getv h v = Some x -> exists x', getv h' v = Some x' /\ vview x' = vview x.

Lemma vstep_refl h : vstep h h.
Proof. split; [apply ext_refl|]. split; eauto. Qed.
Lemma vstep_trans h1 h2 h3 : vstep h1 h2 -> vstep h2 h3 -> vstep h1 h3.
Proof.
  intros (A & A' & A'') (B & B' & B''). split; [eapply ext_trans; eauto|]. split; auto.
  intros v x H. destruct (A' _ _ H) as (x' & H' & E). destruct (B' _ _ H') as (x'' & H'' & E').
  exists x''. split; auto. congruence.
Qed.
Lemma vstep_ext h h' : vstep h h' -> ext h h'.
Proof. intros (A & _); auto. Qed.
Lemma vstep_nv h h' : vstep h h' -> nv h <= nv h'.
Proof. intros ((A & _) & _); auto. Qed.
Lemma vstep_nn h h' : vstep h h' -> nn h <= nn h'.
Proof. intros ((_ & A & _) & _); auto. Qed.
Lemma vstep_ngr h h' : vstep h h' -> ngr h <= ngr h'.
Proof. intros ((_ & _ & A & _) & _); auto. Qed.
Lemma keepsP_refl P h : keepsP P h h.
Proof. split; [apply ext_refl|]. eauto. Qed.
Lemma keepsP_trans P h1 h2 h3 : keepsP P h1 h2 -> keepsP P h2 h3 -> keepsP P h1 h3.
Proof.
  intros (A & A') (B & B'). split; [eapply ext_trans; eauto|].
  intros v x Hp H. destruct (A' _ _ Hp H) as (x' & H' & E). destruct (B' _ _ Hp H') as (x'' & H'' & E').
  exists x''. split; auto. congruence.
Qed.
Lemma keepsP_mono (P P' : nat -> Prop) h h' : (forall v, P' v -> P v) -> keepsP P h h' -> keepsP P' h h'.
Proof. intros Hs (A & B). split; auto. Qed.
Lemma vstep_keepsP P h h' : vstep h h' -> keepsP P h h'.
Proof.
  intros (A & B & C). split; auto. intros v x _ H. destruct (B _ _ H) as (x' & H' & E). exists x'. split; auto.
  apply vmid_vview; auto.
Qed.

Lemma vdesc_keepP P h h' v : keepsP P h h' -> P v -> v < nv h -> vdesc_of [] h' v = vdesc_of [] h v.
Proof.
  intros (_ & K) Hp Hv. destruct (getv_some h v Hv) as (x & Hx). destruct (K _ _ Hp Hx) as (x' & Hx' & E).
  unfold vdesc_of, tpay. rewrite Hx, Hx'. apply vview_inv in E. destruct E as (E1 & E2 & E3 & E4). rewrite E1, E3, E4. auto.
Qed.
Lemma idesc_keepP P h h' z kv : keepsP P h h' -> P (snd kv) -> snd kv < nv h -> id_tensor (idesc_of [] h z kv) <> None ->
  idesc_of [] h' z kv = idesc_of [] h z kv.
Proof.
  intros (E & K) Hp Hv Ht. destruct (getv_some h _ Hv) as (x & Hx). destruct (K _ _ Hp Hx) as (x' & Hx' & Ev).
  unfold idesc_of in *. rewrite Hx in *. rewrite Hx'. apply vview_inv in Ev. destruct Ev as (E1 & E2 & E3 & E4).
  unfold tpay. rewrite E1, E2, E3. simpl in Ht.
  destruct (v_const x) as [c|]; [|congruence]. destruct (gett h c) as [t|] eqn:Et; [|congruence].
  destruct E as (_ & _ & _ & _ & _ & _ & E7). rewrite (E7 _ _ Et). auto.
Qed.

(* ------------------------------------------------------------------ the relational unfolding *)
Fixpoint real2_g (P : nat -> Prop) (h : heap) (chain : list (list nat)) (g : nat) (T : gtree) {struct T} : Prop :=
  match T with
  | GBad => False
  | GT gname gtok ins inits nodes outs =>
    exists z lvl, getg h g = Some z /\ g_name z = gname /\ g_tok z = gtok /\
      map (vdesc_of [] h) (g_inputs z) = ins /\
      map (idesc_of [] h z) (g_inits z) = inits /\
      map (fun v => (find_ref v [lvl] 0, vdesc_of [] h v)) (g_outputs z) = outs /\
      (forall v, In v (g_inputs z) -> P v /\ v < nv h) /\
      (forall kv, In kv (g_inits z) -> (P (snd kv) /\ snd kv < nv h) /\ id_tensor (idesc_of [] h z kv) <> None) /\
      (forall v, In v (g_outputs z) -> P v /\ v < nv h) /\
      real2_ns P h chain (gdefs h z) g (g_nodes z) nodes lvl
  end
with real2_ns (P : nat -> Prop) (h : heap) (outer : list (list nat)) (cur : list nat) (gb : nat) (ns : list nat)
              (Ts : ntrees) (lvl : list nat) {struct Ts} : Prop :=
  match Ts with
  | TNil => ns = [] /\ lvl = cur
  | TCons t r => match ns with
                 | [] => False
                 | n :: ns' => exists cur1, real2_n P h outer cur gb n t cur1 /\ real2_ns P h outer cur1 gb ns' r lvl
                 end
  end
with real2_n (P : nat -> Prop) (h : heap) (outer : list (list nat)) (cur : list nat) (gb : nat) (n : nat) (t : ntree)
             (cur1 : list nat) {struct t} : Prop :=
  match t with
  | NBad => False
  | NT nname op ntok ins outs attrs =>
    exists y, getn h n = Some y /\ (match n_name y with Some k => k | None => 0%N end) = nname /\
      n_op y = op /\ n_tok y = ntok /\
      cur1 = add_frees outer cur (n_inputs y) /\
      map (in_desc h (cur1 :: outer)) (n_inputs y) = ins /\
      map (vdesc_of [] h) (trim_outputs h (n_outputs y)) = outs /\
      (forall v, In (Some v) (n_inputs y) -> v < nv h) /\
      (forall v, In v (n_outputs y) -> P v /\ v < nv h) /\
      real2_as P h (cur1 :: outer) gb (n_attrs y) attrs
  end
with real2_as (P : nat -> Prop) (h : heap) (chain : list (list nat)) (gb : nat) (al : list (name * attr)) (Ts : atrees)
              {struct Ts} : Prop :=
  match Ts with
  | TANil => al = []
  | TACons t r => match al with [] => False | a :: al' => real2_a P h chain gb a t /\ real2_as P h chain gb al' r end
  end
with real2_a (P : nat -> Prop) (h : heap) (chain : list (list nat)) (gb : nat) (a : name * attr) (t : atree) {struct t} : Prop :=
  match t with
  | TPlain k tok sbad => a = (k, AtPlain tok sbad)
  | TGraph k gt => exists g, a = (k, AtGraph g) /\ g < gb /\ real2_g P h chain g gt
  | TGraphs k Ts => exists gs, a = (k, AtGraphs gs) /\ real2_gs P h chain gb gs Ts
  end
with real2_gs (P : nat -> Prop) (h : heap) (chain : list (list nat)) (gb : nat) (gs : list nat) (Ts : gtrees) {struct Ts} : Prop :=
  match Ts with
  | TGNil => gs = []
  | TGCons gt r => match gs with
                   | [] => False
                   | g :: gs' => (g < gb /\ real2_g P h chain g gt) /\ real2_gs P h chain gb gs' r
                   end
  end.

(* list forms *)
Lemma real2_as_list P h chain gb : forall al ts,
  real2_as P h chain gb al (atrees_of ts) <-> Forall2 (real2_a P h chain gb) al ts.
Proof.
  intros al ts; revert al. induction ts as [|t ts IH]; intros al; simpl.
  - split; [intros ->; constructor | intros H; inversion H; auto].
  - destruct al as [|a al]; [split; [intros [] | intros H; inversion H]|].
    rewrite IH. split; [intros (A & B); constructor; auto | intros H; inversion H; auto].
Qed.
Lemma real2_gs_list P h chain gb : forall gs ts,
  real2_gs P h chain gb gs (gtrees_of ts) <-> Forall2 (fun g t => g < gb /\ real2_g P h chain g t) gs ts.
Proof.
  intros gs ts; revert gs. induction ts as [|t ts IH]; intros gs; simpl.
  - split; [intros ->; constructor | intros H; inversion H; auto].
  - destruct gs as [|a gs]; [split; [intros [] | intros H; inversion H]|].
    rewrite IH. split; [intros (A & B); constructor; auto | intros H; inversion H; auto].
Qed.

Lemma real2_ns_nodes P h outer gb : forall Ts cur ns lvl, real2_ns P h outer cur gb ns Ts lvl ->
  forall n, In n ns -> exists y, getn h n = Some y /\ forall v, In v (n_outputs y) -> v < nv h.
Proof.
  induction Ts as [|t r IH]; intros cur ns lvl H n Hin.
  - destruct H as (-> & _). destruct Hin.
  - destruct ns as [|m ns']; [destruct H|]. destruct H as (cur1 & Hn & Hr). destruct Hin as [->|Hin]; [|eauto].
    destruct t; [destruct Hn|]. destruct Hn as (y & Hy & _ & _ & _ & _ & _ & _ & _ & Ho & _).
    exists y. split; auto. intros v Hv. apply Ho in Hv. tauto.
Qed.

(* ---- stability *)
Definition S2g (T : gtree) := forall P h h' chain g, keepsP P h h' -> real2_g P h chain g T -> real2_g P h' chain g T.
Definition S2ns (Ts : ntrees) := forall P h h' outer cur gb ns lvl, keepsP P h h' ->
  real2_ns P h outer cur gb ns Ts lvl -> real2_ns P h' outer cur gb ns Ts lvl.
Definition S2n (t : ntree) := forall P h h' outer cur gb n cur1, keepsP P h h' ->
  real2_n P h outer cur gb n t cur1 -> real2_n P h' outer cur gb n t cur1.
Definition S2as (Ts : atrees) := forall P h h' chain gb al, keepsP P h h' -> real2_as P h chain gb al Ts -> real2_as P h' chain gb al Ts.
Definition S2a (t : atree) := forall P h h' chain gb a, keepsP P h h' -> real2_a P h chain gb a t -> real2_a P h' chain gb a t.
Definition S2gs (Ts : gtrees) := forall P h h' chain gb gs, keepsP P h h' -> real2_gs P h chain gb gs Ts -> real2_gs P h' chain gb gs Ts.

Theorem real2_stable :
  (forall T, S2g T) /\ (forall Ts, S2ns Ts) /\ (forall t, S2n t) /\ (forall Ts, S2as Ts) /\ (forall t, S2a t) /\ (forall Ts, S2gs Ts).
Proof.
  apply tree_mutind.
  - intros P h h' chain g K H. destruct H.
  - intros gname gtok ins inits nodes IHn outs P h h' chain g K H. cbn [real2_g] in H |- *.
    destruct H as (z & lvl & Hz & H1 & H2 & H3 & H4 & H5 & H6 & H7 & H8 & H9).
    pose proof K as (E & K').
    assert (Hgd : gdefs h' z = gdefs h z).
    { apply gdefs_ext; auto. eapply real2_ns_nodes; eauto. }
    assert (Hnv : nv h <= nv h') by (destruct E; auto).
    exists z, lvl. csplit; auto.
    + destruct E as (_ & _ & _ & _ & _ & E6 & _). auto.
    + rewrite <- H3. apply map_ext_in. intros v Hv. destruct (H6 _ Hv). eapply vdesc_keepP; eauto.
    + rewrite <- H4. apply map_ext_in. intros kv Hkv. destruct (H7 _ Hkv) as ((A & B) & C). eapply idesc_keepP; eauto.
    + rewrite <- H5. apply map_ext_in. intros v Hv. f_equal. destruct (H8 _ Hv). eapply vdesc_keepP; eauto.
    + intros v Hv. destruct (H6 _ Hv). split; auto; lia.
    + intros kv Hkv. destruct (H7 _ Hkv) as ((A & B) & C). split; [split; auto; lia|]. erewrite idesc_keepP; eauto.
    + intros v Hv. destruct (H8 _ Hv). split; auto; lia.
    + rewrite Hgd. eapply IHn; eauto.
  - intros P h h' outer cur gb ns lvl K H. exact H.
  - intros t IHt r IHr P h h' outer cur gb ns lvl K H. cbn [real2_ns] in H |- *. destruct ns as [|n ns']; auto.
    destruct H as (cur1 & A & B). exists cur1. split; [eapply IHt | eapply IHr]; eauto.
  - intros P h h' outer cur gb n cur1 K H. destruct H.
  - intros nname op ntok ins outs attrs IHa P h h' outer cur gb n cur1 K H. cbn [real2_n] in H |- *.
    destruct H as (y & Hy & H1 & H2 & H3 & Hc & H4 & H5 & H6 & H7 & H8).
    pose proof K as (E & K').
    assert (Hnv : nv h <= nv h') by (destruct E; auto).
    pose proof E as (_ & _ & _ & _ & E5 & _). destruct (E5 _ _ Hy) as (y' & Hy' & Ef).
    apply nfix_inv in Ef. destruct Ef as (F1 & F2 & F3 & F4 & F5 & F6).
    exists y'. rewrite F1, F2, F3, F4, F5, F6. csplit; auto.
    + rewrite <- H4. apply map_ext_in. intros [v|] Hin; simpl; auto.
      destruct (vname_ext h h' v E (H6 _ Hin)) as (A & B & _). rewrite A, B. auto.
    + rewrite <- H5. rewrite (trim_ext h h') by (auto; intros v Hv; apply H7 in Hv; tauto).
      apply map_ext_in. intros v Hv. apply trim_incl in Hv. destruct (H7 _ Hv). eapply vdesc_keepP; eauto.
    + intros v Hv. specialize (H6 _ Hv). lia.
    + intros v Hv. destruct (H7 _ Hv). split; auto; lia.
    + eapply IHa; eauto.
  - intros P h h' chain gb al K H. exact H.
  - intros t IHt r IHr P h h' chain gb al K H. cbn [real2_as] in H |- *. destruct al as [|a al']; auto.
    destruct H. split; [eapply IHt | eapply IHr]; eauto.
  - intros k tok sbad P h h' chain gb a K H. exact H.
  - intros k T IH P h h' chain gb a K H. cbn [real2_a] in H |- *. destruct H as (g & Ha & Hb & Hg). exists g. csplit; auto.
    eapply IH; eauto.
  - intros k Ts IH P h h' chain gb a K H. cbn [real2_a] in H |- *. destruct H as (gs & Ha & Hg). exists gs. split; auto.
    eapply IH; eauto.
  - intros P h h' chain gb gs K H. exact H.
  - intros T IHT r IHr P h h' chain gb gs K H. cbn [real2_gs] in H |- *. destruct gs as [|g gs']; auto.
    destruct H as ((A & B) & C). split; [split; auto; eapply IHT | eapply IHr]; eauto.
Qed.

(* ---- monotone in the set of owned values and in the bound of nested graph identifiers *)
Definition M2g (T : gtree) := forall (P P' : nat -> Prop) h chain g, (forall v, P v -> P' v) ->
  real2_g P h chain g T -> real2_g P' h chain g T.
Definition M2ns (Ts : ntrees) := forall (P P' : nat -> Prop) h outer cur gb gb' ns lvl, (forall v, P v -> P' v) -> gb <= gb' ->
  real2_ns P h outer cur gb ns Ts lvl -> real2_ns P' h outer cur gb' ns Ts lvl.
Definition M2n (t : ntree) := forall (P P' : nat -> Prop) h outer cur gb gb' n cur1, (forall v, P v -> P' v) -> gb <= gb' ->
  real2_n P h outer cur gb n t cur1 -> real2_n P' h outer cur gb' n t cur1.
Definition M2as (Ts : atrees) := forall (P P' : nat -> Prop) h chain gb gb' al, (forall v, P v -> P' v) -> gb <= gb' ->
  real2_as P h chain gb al Ts -> real2_as P' h chain gb' al Ts.
Definition M2a (t : atree) := forall (P P' : nat -> Prop) h chain gb gb' a, (forall v, P v -> P' v) -> gb <= gb' ->
  real2_a P h chain gb a t -> real2_a P' h chain gb' a t.
Definition M2gs (Ts : gtrees) := forall (P P' : nat -> Prop) h chain gb gb' gs, (forall v, P v -> P' v) -> gb <= gb' ->
  real2_gs P h chain gb gs Ts -> real2_gs P' h chain gb' gs Ts.

Theorem real2_mono :
  (forall T, M2g T) /\ (forall Ts, M2ns Ts) /\ (forall t, M2n t) /\ (forall Ts, M2as Ts) /\ (forall t, M2a t) /\ (forall Ts, M2gs Ts).
Proof.
  apply tree_mutind.
  - intros P P' h chain g K H. destruct H.
  - intros gname gtok ins inits nodes IHn outs P P' h chain g K H. cbn [real2_g] in H |- *.
    destruct H as (z & lvl & Hz & H1 & H2 & H3 & H4 & H5 & H6 & H7 & H8 & H9).
    exists z, lvl. csplit; auto.
    + intros v Hv. destruct (H6 _ Hv). split; auto.
    + intros kv Hkv. destruct (H7 _ Hkv) as ((A & B) & C). split; [split; auto|auto].
    + intros v Hv. destruct (H8 _ Hv). split; auto.
    + eapply IHn; eauto.
  - intros P P' h outer cur gb gb' ns lvl K Hg H. exact H.
  - intros t IHt r IHr P P' h outer cur gb gb' ns lvl K Hg H. cbn [real2_ns] in H |- *. destruct ns as [|n ns']; auto.
    destruct H as (cur1 & A & B). exists cur1. split; [eapply IHt | eapply IHr]; eauto.
  - intros P P' h outer cur gb gb' n cur1 K Hg H. destruct H.
  - intros nname op ntok ins outs attrs IHa P P' h outer cur gb gb' n cur1 K Hg H. cbn [real2_n] in H |- *.
    destruct H as (y & Hy & H1 & H2 & H3 & Hc & H4 & H5 & H6 & H7 & H8).
    exists y. csplit; auto.
    + intros v Hv. destruct (H7 _ Hv). split; auto.
    + eapply IHa; eauto.
  - intros P P' h chain gb gb' al K Hg H. exact H.
  - intros t IHt r IHr P P' h chain gb gb' al K Hg H. cbn [real2_as] in H |- *. destruct al as [|a al']; auto.
    destruct H. split; [eapply IHt | eapply IHr]; eauto.
  - intros k tok sbad P P' h chain gb gb' a K Hg H. exact H.
  - intros k T IH P P' h chain gb gb' a K Hg H. cbn [real2_a] in H |- *. destruct H as (g & Ha & Hb & Hr). exists g. csplit; auto; [lia|].
    eapply IH; eauto.
  - intros k Ts IH P P' h chain gb gb' a K Hg H. cbn [real2_a] in H |- *. destruct H as (gs & Ha & Hr). exists gs. split; auto.
    eapply IH; eauto.
  - intros P P' h chain gb gb' gs K Hg H. exact H.
  - intros T IHT r IHr P P' h chain gb gb' gs K Hg H. cbn [real2_gs] in H |- *. destruct gs as [|g gs']; auto.
    destruct H as ((A & B) & C). split; [split; [lia|]; eapply IHT | eapply IHr]; eauto.
Qed.

(* ------------------------------------------------------------------ bridge to the functional unfolding *)
Definition B2g (T : gtree) := forall P h chain g, real2_g P h chain g T ->
  forall fuel, g < fuel -> unfold2_graph [] fuel h chain g = T.
Definition B2ns (Ts : ntrees) := forall P h outer cur gb ns lvl, real2_ns P h outer cur gb ns Ts lvl ->
  forall f, gb <= f ->
  exists nts, unfold2_nodes [] h (unfold2_graph [] f h) outer cur ns = (nts, lvl) /\ ntrees_of nts = Ts.
Definition B2n (t : ntree) := forall P h outer cur gb n cur1, real2_n P h outer cur gb n t cur1 ->
  forall f, gb <= f -> unfold2_node [] h (unfold2_graph [] f h) outer cur n = (t, cur1).
Definition B2as (Ts : atrees) := forall P h chain gb al, real2_as P h chain gb al Ts ->
  forall f, gb <= f -> atrees_of (map (unfold_attr (unfold2_graph [] f h) chain) al) = Ts.
Definition B2a (t : atree) := forall P h chain gb a, real2_a P h chain gb a t ->
  forall f, gb <= f -> unfold_attr (unfold2_graph [] f h) chain a = t.
Definition B2gs (Ts : gtrees) := forall P h chain gb gs, real2_gs P h chain gb gs Ts ->
  forall f, gb <= f -> gtrees_of (map (unfold2_graph [] f h chain) gs) = Ts.

Theorem real2_unfold :
  (forall T, B2g T) /\ (forall Ts, B2ns Ts) /\ (forall t, B2n t) /\ (forall Ts, B2as Ts) /\ (forall t, B2a t) /\ (forall Ts, B2gs Ts).
Proof.
  apply tree_mutind.
  - intros P h chain g H. destruct H.
  - intros gname gtok ins inits nodes IHn outs P h chain g H fuel Hf. cbn [real2_g] in H.
    destruct H as (z & lvl & Hz & H1 & H2 & H3 & H4 & H5 & H6 & H7 & H8 & H9).
    destruct fuel as [|f]; [lia|]. simpl. unfold unfold2_graph_body. rewrite Hz.
    destruct (IHn _ _ _ _ _ _ _ H9 f) as (nts & En & Et); [lia|]. rewrite En.
    rewrite H1, H2, H3, H4, H5, Et. reflexivity.
  - intros P h outer cur gb ns lvl H f Hf. destruct H as (-> & ->). exists []. split; reflexivity.
  - intros t IHt r IHr P h outer cur gb ns lvl H f Hf. cbn [real2_ns] in H.
    destruct ns as [|n ns']; [destruct H|]. destruct H as (cur1 & Hn & Hr).
    destruct (IHr _ _ _ _ _ _ _ Hr f) as (nts & En & Et); [lia|].
    exists (t :: nts). cbn [unfold2_nodes]. rewrite (IHt _ _ _ _ _ _ _ Hn f) by lia. rewrite En. simpl. split; congruence.
  - intros P h outer cur gb n cur1 H. destruct H.
  - intros nname op ntok ins outs attrs IHa P h outer cur gb n cur1 H f Hf. cbn [real2_n] in H.
    destruct H as (y & Hy & H1 & H2 & H3 & Hc & H4 & H5 & H6 & H7 & H8).
    unfold unfold2_node. rewrite Hy, H2, H3, <- Hc. unfold in_desc in H4. rewrite H4, H5. f_equal. f_equal; [exact H1|].
    eapply IHa; eauto.
  - intros P h chain gb al H f Hf. simpl in H. subst. reflexivity.
  - intros t IHt r IHr P h chain gb al H f Hf. simpl in H. destruct al as [|a al']; [destruct H|].
    destruct H as (Hn & Hr). simpl. f_equal; [eapply IHt | eapply IHr]; eauto; lia.
  - intros k tok sbad P h chain gb a H f Hf. simpl in H. subst. reflexivity.
  - intros k T IH P h chain gb a H f Hf. simpl in H. destruct H as (g & -> & Hb & Hg).
    unfold unfold_attr; simpl. f_equal. eapply IH; eauto. lia.
  - intros k Ts IH P h chain gb a H f Hf. simpl in H. destruct H as (gs & -> & Hg).
    unfold unfold_attr; simpl. f_equal. eapply IH; eauto.
  - intros P h chain gb gs H f Hf. simpl in H. subst. reflexivity.
  - intros T IHT r IHr P h chain gb gs H f Hf. simpl in H. destruct gs as [|g gs']; [destruct H|].
    destruct H as ((Hb & Hn) & Hr). simpl. f_equal; [eapply IHT; eauto; lia | eapply IHr; eauto].
Qed.

Lemma real2_g_unfold P h chain g T fuel : real2_g P h chain g T -> g < fuel -> unfold2_graph [] fuel h chain g = T.
Proof. intros H Hf. destruct real2_unfold as (B & _). eapply B; eauto. Qed.

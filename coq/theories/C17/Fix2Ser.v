(* C17/Fix2Ser.v — (A2): on every state whose GENERALISED unfolding (C17/Tree2.v) is well formed the serializer
   succeeds and writes exactly the proto t2p_m computes from that unfolding.  C03/IsoSer.v + C03/IsoSerF.v
   replayed over unfold2: the serializer never looks at references, only the threading of the scope level
   through unfold2_nodes is new. *)
From Coq Require Import NArith List Bool Arith Lia.
From IRV Require Import Base.Exn C03.Model C03.Canon C03.Inv C03.Tree C03.TreeF C03.IsoSpecs C03.IsoSpecsF C03.PayFixDefs C03.Readonly C03.Twice C03.IsoSer C03.IsoSerF C17.Tree2 C17.Fix2Specs.
Import ListNotations.

(* ------------------------------------------------------------------ what the serializer needs from wf2 *)
Lemma wf2_ins_named inn outn : forall ins j,
  wf2_ins inn outn ins j = true -> forall d, In d ins -> vd_named d = true.
Proof.
  induction ins as [|d0 r IH]; simpl; intros j H d Hin; [contradiction|].
  spl H H2. spl H H3. destruct Hin as [<-|Hin]; eauto.
Qed.

Definition init_ser_ok (i : idesc) : bool := id_named i && is_some (id_tensor i).

Lemma wf2_init_ser ins outn i : wf2_init ins outn i = true -> init_ser_ok i = true.
Proof.
  unfold wf2_init, init_ser_ok. intros H. spl H H2. spl H H3. rewrite H.
  destruct (id_tensor i); [reflexivity|discriminate].
Qed.

(* ------------------------------------------------------------------ pure readers, on the original heap *)
Section Comp2.
Variable np : list (N * N).
Hypothesis Hnp : np_ok np = true.
Variable h : heap.

Lemma ser_node_inputs_tree2 nsc chain ins :
  forallb (wf2_node_in nsc) (map (nin np h chain) ins) = true ->
  ser_node_inputs h ins
  = Ok (map (fun o : option (ref * N * bool) => match o with None => 0%N | Some rd => snd (fst rd) end)
            (map (nin np h chain) ins)).
Proof.
  induction ins as [|[v|] r IH]; simpl; intros Hw; auto.
  - splitb. rewrite IH; auto. unfold vdesc_of in *. destruct (getv h v) as [x|]; [|discriminate].
    destruct (v_name x) as [k|]; [|discriminate]. reflexivity.
  - rewrite IH; auto.
Qed.

(* initializers: only `has a name` and `has a tensor` are needed *)
Lemma ser_inits_tree2 z ins :
  (forall v, In v ins -> vd_named (vdesc_of np h v) = true) ->
  forall l a, tn_equiv h a ->
    forallb init_ser_ok (map (idesc_of np h z) l) = true ->
    exists a',
      ser_inits np a (map (fun v => match getv h v with Some x => v_name x | None => None end) ins) l
      = Ok (a', flat_map init_tps (map (idesc_of np h z) l),
            flat_map (init_vis (map vd_name (map (vdesc_of np h) ins))) (map (idesc_of np h z) l))
      /\ tn_equiv h a'.
Proof.
  intros Hins. induction l as [|[k0 v] r IH]; intros a E Hw.
  - simpl. eauto.
  - cbn [map forallb] in Hw. apply andb_prop in Hw. destruct Hw as [Hw1 Hw2].
    cbn [map flat_map ser_inits]. rewrite (tn_getv _ _ v E).
    set (R := map (idesc_of np h z) r) in *.
    unfold init_ser_ok, idesc_of in Hw1. unfold idesc_of. cbn [snd] in *.
    destruct (getv h v) as [x|] eqn:Ev; [|simpl in Hw1; discriminate].
    cbn [id_named id_tensor] in Hw1.
    destruct (v_name x) as [k|] eqn:Ek; [|simpl in Hw1; discriminate].
    destruct (v_const x) as [c|] eqn:Ec; [|simpl in Hw1; discriminate].
    pose proof E as (_ & _ & _ & E4). specialize (E4 c).
    destruct (gett h c) as [t|] eqn:Et; [|simpl in Hw1; discriminate].
    destruct (gett a c) as [t'|] eqn:Et'; [|contradiction].
    destruct E4 as (B1 & B2 & B3 & B4).
    destruct (IH (set_tname a c (Some k)) (set_tname_tn_r _ _ c (Some k) E) Hw2) as (a' & Ea & T').
    exists a'. split; auto. rewrite Ea.
    unfold init_tps, init_vis. cbn [id_named id_name id_tensor id_input id_pay td_tok td_pay td_bad td_fill].
    rewrite B1, B2, B3, B4. rewrite (in_names_mem np h) by auto. rewrite tpay_z by auto.
    unfold should_vi, falsy. rewrite Ek, andb_true_r.
    cbn [app]. rewrite tpay_eq by auto. reflexivity.
Qed.
End Comp2.

(* ------------------------------------------------------------------ one level of the recursion *)
Section Body2.
Variable np : list (N * N).
Hypothesis Hnp : np_ok np = true.
Variable h : heap.
Variable rec_ser : heap -> nat -> res (heap * gproto).
Variable rec_unf : list (list nat) -> nat -> gtree.
Hypothesis Hrec : forall a nsc chain g,
  tn_equiv h a -> wf2_g nsc (rec_unf chain g) = true ->
  exists a', rec_ser a g = Ok (a', t2p_g (rec_unf chain g)) /\ tn_equiv h a'.

Lemma ser_gs_tree2 nsc chain : forall l a,
  tn_equiv h a -> wf2_gs nsc (gtrees_of (map (rec_unf chain) l)) = true ->
  exists a', ser_gs rec_ser a l = Ok (a', map t2p_g (map (rec_unf chain) l)) /\ tn_equiv h a'.
Proof.
  induction l as [|g r IH]; intros a E Hw.
  - simpl. eauto.
  - cbn [map gtrees_of wf2_gs] in Hw. apply andb_prop in Hw. destruct Hw as [Hw1 Hw2].
    destruct (Hrec a nsc chain g E Hw1) as (a1 & Ea1 & T1).
    destruct (IH a1 T1 Hw2) as (a2 & Ea2 & T2).
    exists a2. split; auto. cbn [ser_gs map]. rewrite Ea1, Ea2. reflexivity.
Qed.

Lemma ser_attrs_tree2 nsc chain : forall al a,
  tn_equiv h a -> wf2_as nsc (atrees_of (map (unfold_attr rec_unf chain) al)) = true ->
  exists a', ser_attrs rec_ser a al = Ok (a', t2p_as (atrees_of (map (unfold_attr rec_unf chain) al)))
             /\ tn_equiv h a'.
Proof.
  induction al as [|[k at_] r IH]; intros a E Hw.
  - simpl. eauto.
  - cbn [map atrees_of wf2_as] in Hw. apply andb_prop in Hw. destruct Hw as [Hw1 Hw2].
    cbn [map atrees_of t2p_as ser_attrs].
    unfold unfold_attr at 1 in Hw1. unfold unfold_attr at 1. cbn [fst snd] in *.
    destruct at_ as [tok sbad|sg|sgs].
    + cbn [wf2_a t2p_a] in *. destruct sbad; [discriminate|].
      destruct (IH a E Hw2) as (a1 & Ea1 & T1). exists a1. split; auto. rewrite Ea1. reflexivity.
    + cbn [wf2_a t2p_a] in *.
      destruct (Hrec a nsc chain sg E Hw1) as (a1 & Ea1 & T1).
      destruct (IH a1 T1 Hw2) as (a2 & Ea2 & T2).
      exists a2. split; auto. rewrite Ea1, Ea2. reflexivity.
    + cbn [wf2_a t2p_a] in *.
      destruct (ser_gs_tree2 nsc chain sgs a E Hw1) as (a1 & Ea1 & T1).
      destruct (IH a1 T1 Hw2) as (a2 & Ea2 & T2).
      exists a2. split; auto. rewrite Ea1, Ea2. rewrite t2p_gs_list. reflexivity.
Qed.

Lemma ser_node_tree2 outerN curN outn outer cur n a L :
  tn_equiv h a -> wf2_n outerN curN outn (fst (unfold2_node np h rec_unf outer cur n)) = Some L ->
  exists a', ser_node rec_ser a n = Ok (a', t2p_n (fst (unfold2_node np h rec_unf outer cur n)))
             /\ tn_equiv h a'.
Proof.
  intros E Hw. unfold ser_node, unfold2_node in *. rewrite (tn_getn _ _ n E).
  destruct (getn h n) as [y|]; [|discriminate].
  cbv zeta in Hw. cbn [fst wf2_n] in Hw. cbv zeta in Hw.
  match type of Hw with (if ?c then _ else _) = _ => destruct c eqn:Hc; [|discriminate] end.
  spl Hc Has. spl Hc Hnd. spl Hc Hnt. spl Hc Hout.
  rewrite (ser_node_inputs_tn _ _ _ E), (trim_outputs_tn _ _ _ E), (ser_node_outputs_tn _ _ _ E).
  rewrite (ser_node_inputs_tree2 np h _ (add_frees outer cur (n_inputs y) :: outer) (n_inputs y)) by exact Hc.
  rewrite (ser_node_outputs_tree np h).
  2:{ intros v Hin. rewrite forallb_forall in Hout. specialize (Hout _ (in_map (vdesc_of np h) _ _ Hin)).
      unfold wf_node_out in Hout. spl Hout Hx. exact Hout. }
  destruct (ser_attrs_tree2 _ _ (n_attrs y) a E Has) as (a1 & Ea1 & T1).
  exists a1. split; auto. rewrite Ea1. reflexivity.
Qed.

(* the nodes of a graph (infn = false) or of a function body (infn = true), from an arbitrary level *)
Lemma ser_nodes_tree2 infn outerN outn outer : forall ns cur curN a L,
  tn_equiv h a ->
  wf2_ns outerN curN outn (ntrees_of (fst (unfold2_nodes np h rec_unf outer cur ns))) = Some L ->
  exists a', ser_nodes np rec_ser infn a ns
             = Ok (a', t2p_ns (ntrees_of (fst (unfold2_nodes np h rec_unf outer cur ns))),
                   (if infn then t2p_fnvis else t2p_nvis)
                     (ntrees_of (fst (unfold2_nodes np h rec_unf outer cur ns))))
             /\ tn_equiv h a'.
Proof.
  induction ns as [|n r IH]; intros cur curN a L E Hw.
  - simpl. destruct infn; eauto.
  - cbn [unfold2_nodes] in *.
    destruct (unfold2_node np h rec_unf outer cur n) as [t cur1] eqn:Un.
    destruct (unfold2_nodes np h rec_unf outer cur1 r) as [ts cur2] eqn:Uns.
    cbn [fst ntrees_of wf2_ns] in *.
    destruct (wf2_n outerN curN outn t) as [curN1|] eqn:Hw1; [|discriminate].
    assert (Et : fst (unfold2_node np h rec_unf outer cur n) = t) by (rewrite Un; auto).
    assert (Ets : fst (unfold2_nodes np h rec_unf outer cur1 r) = ts) by (rewrite Uns; auto).
    rewrite <- Et in Hw1. destruct (ser_node_tree2 _ _ _ _ _ _ _ _ E Hw1) as (a1 & Ea1 & T1).
    rewrite <- Ets in Hw. destruct (IH cur1 curN1 a1 L T1 Hw) as (a2 & Ea2 & T2).
    exists a2. split; auto. cbn [ser_nodes]. rewrite Ea1, Ea2, Et, Ets.
    rewrite (tn_getn _ _ n T1), (out_vis_tn _ _ _ _ T1), (fn_out_vis_tn _ _ _ _ T1).
    rewrite Et in Hw1. clear Et Ets Ea1 Ea2. unfold unfold2_node in Un.
    destruct (getn h n) as [y|].
    2:{ injection Un as Ht Hc1. subst t. simpl in Hw1. discriminate. }
    cbv zeta in Un. injection Un as Ht Hc1. subst t.
    destruct infn; cbn [t2p_ns t2p_nvis t2p_fnvis t2p_n].
    + rewrite <- (fn_out_vis_trim np h), (fn_out_vis_tree np Hnp h). reflexivity.
    + rewrite <- (out_vis_trim np h), (out_vis_tree np Hnp h). reflexivity.
Qed.

Lemma ser_graph_body_tree2 nsc chain g a :
  tn_equiv h a -> wf2_g nsc (unfold2_graph_body np h rec_unf chain g) = true ->
  exists a', ser_graph_body np rec_ser a g = Ok (a', t2p_g (unfold2_graph_body np h rec_unf chain g))
             /\ tn_equiv h a'.
Proof.
  intros E Hw. unfold ser_graph_body, unfold2_graph_body in *. rewrite (tn_getg _ _ g E).
  destruct (getg h g) as [z|]; [|discriminate].
  destruct (unfold2_nodes np h rec_unf chain (gdefs h z) (g_nodes z)) as [nts lvl] eqn:Uns.
  assert (Ets : fst (unfold2_nodes np h rec_unf chain (gdefs h z) (g_nodes z)) = nts) by (rewrite Uns; auto).
  cbn [wf2_g] in Hw. cbv zeta in Hw. spl Hw Hm. spl Hw Hr2. spl Hw Hr1. spl Hw Hnd. spl Hw Hwi.
  match type of Hm with match ?c with _ => _ end = _ => destruct c as [Lv|] eqn:Hwn; [|discriminate] end.
  assert (Hins : forall v, In v (g_inputs z) -> vd_named (vdesc_of np h v) = true).
  { intros v Hin. eapply wf2_ins_named; [exact Hw|]. apply in_map. exact Hin. }
  assert (Houts : forall v, In v (g_outputs z) -> vd_named (vdesc_of np h v) = true).
  { intros v Hin. rewrite forallb_forall in Hm.
    specialize (Hm _ (in_map (fun v => (find_ref v [lvl] 0, vdesc_of np h v)) _ _ Hin)).
    cbv beta iota in Hm. spl Hm H1. spl Hm H2. spl Hm H3. exact Hm. }
  assert (Hwi' : forallb init_ser_ok (map (idesc_of np h z) (g_inits z)) = true).
  { rewrite forallb_forall in *. intros i Hi. eapply wf2_init_ser. apply Hwi. exact Hi. }
  rewrite (ser_values_tn _ _ _ _ E), (ser_values_tree np Hnp h _ Hins).
  assert (Hinn : map (fun v => match getv a v with Some x => v_name x | None => None end) (g_inputs z)
               = map (fun v => match getv h v with Some x => v_name x | None => None end) (g_inputs z)).
  { apply map_ext. intros v. rewrite (tn_getv _ _ v E). auto. }
  rewrite Hinn.
  destruct (ser_inits_tree2 np Hnp h z (g_inputs z) Hins (g_inits z) a E Hwi') as (a1 & Ea1 & T1).
  rewrite Ea1.
  rewrite <- Ets in Hwn.
  destruct (ser_nodes_tree2 false _ _ _ (g_nodes z) _ _ a1 _ T1 Hwn) as (a2 & Ea2 & T2).
  rewrite Ea2, Ets.
  rewrite (ser_values_tn _ _ _ _ T2), (ser_values_tree np Hnp h _ Houts).
  exists a2. split; auto. cbn [t2p_g]. cbv zeta. rewrite !map_map. reflexivity.
Qed.
End Body2.

(* ------------------------------------------------------------------ induction on the fuel *)
Lemma ser_graph_tree2 np : np_ok np = true ->
  forall fuel h a nsc chain g,
    tn_equiv h a -> wf2_g nsc (unfold2_graph np fuel h chain g) = true ->
    exists a', ser_graph np fuel a g = Ok (a', t2p_g (unfold2_graph np fuel h chain g)) /\ tn_equiv h a'.
Proof.
  intros Hnp. induction fuel as [|f IH]; intros h a nsc chain g E Hw.
  - simpl in Hw. discriminate.
  - cbn [ser_graph unfold2_graph] in *.
    eapply ser_graph_body_tree2; eauto.
Qed.

(* ------------------------------------------------------------------ function inputs: fn_in_desc vs vdesc_of *)
Lemma fn_in_desc_name np h v : vd_name (fn_in_desc np h v) = vd_name (vdesc_of np h v).
Proof.
  unfold fn_in_desc. cbv zeta. destruct (N.eqb_spec (vd_name (vdesc_of np h v)) 0) as [e|e]; auto.
Qed.
Lemma fn_in_desc_named np h v : vd_named (fn_in_desc np h v) = vd_named (vdesc_of np h v).
Proof.
  unfold fn_in_desc. cbv zeta. destruct (N.eqb (vd_name (vdesc_of np h v)) 0); auto.
Qed.
Lemma fn_in_desc_vi np h v : fn_vi (fn_in_desc np h v) = fn_vi (vdesc_of np h v).
Proof.
  unfold fn_in_desc. cbv zeta. destruct (N.eqb (vd_name (vdesc_of np h v)) 0) eqn:e; auto.
  unfold fn_vi. cbn [vd_name vd_pay]. rewrite e. simpl. rewrite andb_false_r. reflexivity.
Qed.
Lemma fn_in_desc_names np h l :
  map vd_name (map (fn_in_desc np h) l) = map vd_name (map (vdesc_of np h) l).
Proof. rewrite !map_map. apply map_ext. intros v. apply fn_in_desc_name. Qed.
Lemma fn_in_desc_vis np h l :
  flat_map fn_vi (map (fn_in_desc np h) l) = flat_map fn_vi (map (vdesc_of np h) l).
Proof. induction l as [|v r IH]; simpl; auto. rewrite IH, fn_in_desc_vi. reflexivity. Qed.

(* ------------------------------------------------------------------ one function *)
Lemma ser_function_tree2 np : np_ok np = true ->
  forall h a f,
    tn_equiv h a -> wf2_f (unfold2_function np h f) = true ->
    exists a', ser_function np a f = Ok (a', t2p_f (unfold2_function np h f)) /\ tn_equiv h a'.
Proof.
  intros Hnp h a f E Hw. unfold ser_function, unfold2_function in *. rewrite (tn_getg _ _ _ E).
  destruct (getg h (f_graph f)) as [z|]; [|discriminate].
  destruct (g_inits z) as [|i0 il] eqn:Ei; [|discriminate].
  destruct (unfold2_nodes np h (unfold2_graph np (ser_fuel h) h) [] (gdefs h z) (g_nodes z)) as [nts lvl] eqn:Uns.
  assert (Ets : fst (unfold2_nodes np h (unfold2_graph np (ser_fuel h) h) [] (gdefs h z) (g_nodes z)) = nts)
    by (rewrite Uns; auto).
  cbn [wf2_f] in Hw. cbv zeta in Hw. spl Hw Hm. spl Hw Hr2. spl Hw Hr1. spl Hw Hpay.
  match type of Hm with match ?c with _ => _ end = _ => destruct c as [Lv|] eqn:Hwn; [|discriminate] end.
  assert (Hins : forall v, In v (g_inputs z) -> vd_named (vdesc_of np h v) = true).
  { intros v Hin. rewrite <- fn_in_desc_named. eapply wf2_ins_named; [exact Hw|].
    apply (in_map (fn_in_desc np h)). exact Hin. }
  assert (Houts : forall v, In v (g_outputs z) -> vd_named (vdesc_of np h v) = true).
  { intros v Hin. rewrite forallb_forall in Hm.
    specialize (Hm _ (in_map (fun v => (find_ref v [lvl] 0, vd_name (vdesc_of np h v), vd_named (vdesc_of np h v))) _ _ Hin)).
    cbv beta iota in Hm. spl Hm H1. spl Hm H2. exact Hm. }
  rewrite !(ser_names_tn _ _ _ E).
  rewrite (ser_names_tree np h _ Hins), (ser_names_tree np h _ Houts).
  rewrite (tn_fuel _ _ E), (fn_out_vis_tn _ _ _ _ E).
  rewrite <- Ets in Hwn.
  destruct (ser_nodes_tree2 np Hnp h (ser_graph np (ser_fuel h)) (unfold2_graph np (ser_fuel h) h)
              (ser_graph_tree2 np Hnp (ser_fuel h) h) true _ _ _ (g_nodes z) _ _ a _ E Hwn) as (a1 & Ea1 & T1).
  rewrite Ea1, Ets. exists a1. split; auto.
  cbn [t2p_f]. rewrite fn_in_desc_names, fn_in_desc_vis, (fn_out_vis_tree np Hnp h), !map_map. reflexivity.
Qed.

(* ------------------------------------------------------------------ the function list, heap threaded *)
Lemma ser_functions_tree2 np : np_ok np = true ->
  forall h fs a,
    tn_equiv h a -> forallb wf2_f (map (unfold2_function np h) fs) = true ->
    exists a', ser_functions np a fs = Ok (a', map t2p_f (map (unfold2_function np h) fs)) /\ tn_equiv h a'.
Proof.
  intros Hnp h. induction fs as [|f r IH]; intros a E Hw.
  - simpl. eauto.
  - cbn [map forallb] in Hw. apply andb_prop in Hw. destruct Hw as [Hw1 Hw2].
    destruct (ser_function_tree2 np Hnp h a f E Hw1) as (a1 & Ea1 & T1).
    destruct (IH a1 T1 Hw2) as (a2 & Ea2 & T2).
    exists a2. split; auto. cbn [ser_functions map]. rewrite Ea1, Ea2. reflexivity.
Qed.

(* general form: threaded heap *)
Lemma ser2_tn np : np_ok np = true ->
  forall h a m,
    tn_equiv h a -> wf2_m (unfold2_model np h m) = true ->
    exists a', ser_model np a m = Ok (a', t2p_m (unfold2_model np h m)) /\ tn_equiv h a'.
Proof.
  intros Hnp h a m E Hw. unfold wf2_m, unfold2_model in Hw. cbn [mt_graph mt_funcs] in Hw.
  spl Hw Hnd. spl Hw Hwf. unfold unfold2_root in Hw.
  unfold ser_model. rewrite (tn_fuel _ _ E).
  destruct (ser_graph_tree2 np Hnp (ser_fuel h) h a [] [] (m_graph m) E Hw) as (a1 & Ea1 & T1).
  rewrite Ea1.
  destruct (ser_functions_tree2 np Hnp h (m_funcs m) a1 T1 Hwf) as (a2 & Ea2 & T2).
  rewrite Ea2. exists a2. split; auto.
Qed.

Lemma ser2 : ser2_spec.
Proof.
  intros np h m Hnp Hw.
  destruct (ser2_tn np Hnp h h m (tn_refl h) Hw) as (a' & Ea & _).
  exists a'. exact Ea.
Qed.

From Coq Require Import NArith List Bool Arith Lia.
(* C17/Fix2Final.v — the unconditional re-serialization fixpoint: assembly of
   ser2 (Fix2Ser.v), deser2 (Fix2Deser*.v), payfix2 (Fix2Pay.v), punfold_real (Fix2Real*.v), punfold_wfs
   (Fix2Wfs*.v), unfold2_mp / wf2_glue (Fix2Glue.v), ser_nosbad (Fix2Nosbad.v). *)
From IRV Require Import Base.Exn C03.Model C03.Canon C03.Inv C03.Tree C03.TreeF C03.PayFixDefs C17.Tree2 C17.Fix2Specs
  C17.PUnfold C17.Fix2Defs C17.Fix2Ser C17.Fix2Deser C17.Fix2Pay C17.Fix2Real C17.Fix2Wfs C17.Fix2Glue C17.Fix2Nosbad.
Import ListNotations.

Section Final.
  Let HA : ser2_spec := ser2.
  Let HB : deser2_spec := deser2.
  Let HP : payfix2_spec := payfix2.
  Let HR : punfold_real_spec := punfold_real.
  Let HW : punfold_wfs_spec := punfold_wfs.
  Let HM : unfold2_mp_spec := unfold2_mp.
  Let HN : ser_nosbad_spec := ser_nosbad.
  Let HG : wf2_glue_spec := wf2_glue.

  Lemma deser_wf2 np p h m h1 q :
    np_ok np = true -> deser_model p = Ok (h, m) -> ser_model np h m = Ok (h1, q) ->
    leaf_fill_m (unfold2_model np h m) = true -> wf2_m (unfold2_model np h m) = true.
  Proof.
    intros Hnp Hd Hs Hl. destruct (HR p h m Hd) as (M & Hpu & Hu).
    apply HG; auto.
    - rewrite HM, Hu. eapply HW; eauto.
    - eapply HN; eauto.
  Qed.

  Theorem ser_fixpoint np p h m h1 q :
    np_ok np = true -> np_idem np = true ->
    deser_model p = Ok (h, m) -> ser_model np h m = Ok (h1, q) ->
    leaf_fill_m (unfold2_model np h m) = true ->
    exists h' m' h'', deser_model q = Ok (h', m') /\ ser_model np h' m' = Ok (h'', q).
  Proof.
    intros Hnp Hi Hd Hs Hl.
    pose proof (deser_wf2 np p h m h1 q Hnp Hd Hs Hl) as Hw.
    destruct (HA np h m Hnp Hw) as (h1' & Hser'). rewrite Hs in Hser'. inversion Hser'; subst h1' q; clear Hser'.
    destruct (HB _ Hw) as (h2 & m2 & Hd2 & Hu). destruct HP as (P1 & P2).
    assert (E : unfold2_model np h2 m2 = unfold2_model np h m).
    { transitivity (unfold2_model [] h2 m2); [|exact Hu]. apply P2. rewrite Hu. apply P1; auto. }
    assert (Hw2 : wf2_m (unfold2_model np h2 m2) = true) by (rewrite E; exact Hw).
    destruct (HA np h2 m2 Hnp Hw2) as (h3 & Hser2). rewrite E in Hser2.
    exists h2, m2, h3. auto.
  Qed.
End Final.

(* C17/Fix2DeserI.v — deserialize_function on the proto of a wf2 function tree. *)
From Coq Require Import NArith List Bool Arith Lia.
From IRV Require Import Base.Exn C03.Model C03.Canon C03.Inv C03.Tree C03.TreeF C03.IsoSpecs C03.IsoSpecsF C17.Basics C17.Specs C17.Steps C17.Phases C17.OpNode C17.OpGraph C17.Deser C03.IsoDeserA C03.IsoDeserB C03.IsoDeserC C03.IsoDeserD C03.IsoDeserE C03.IsoDeserF C03.IsoDeserG C03.IsoDeserH C03.IsoDeserI C17.Tree2 C17.Fix2DeserA C17.Fix2DeserB C17.Fix2DeserC C17.Fix2DeserD C17.Fix2DeserE C17.Fix2DeserF C17.Fix2DeserG C17.Fix2DeserT C17.Fix2DeserH.
Import ListNotations.

Arguments alloc_value : simpl never.
Arguments new_node : simpl never.
Arguments new_graph : simpl never.
Arguments lookup_scopes : simpl never.
Arguments lookup : simpl never.
Arguments alloc_named : simpl never.
Arguments apply_infos_named : simpl never.
Arguments declare_nodes : simpl never.
Arguments table_of_names : simpl never.
Arguments lookup_all : simpl never.

Definition PF2 (F : ftree) : Prop := forall h, wf2_f F = true ->
  exists h' f, deser_function (t2p_f F) h = Ok (h', f) /\ nested h h' /\ real2_f (fun v => nv h <= v) h' f F /\
               depth_f F + ngr h < ngr h' /\ f_id f = fid_of F.

Lemma PF2_case fid ftok ins nodes outs : PF2 (FT fid ftok ins nodes outs).
Proof.
  intros h Hwf. cbn [wf2_f] in Hwf.
  set (inn := map vd_name ins) in *. set (defs := tdefs ins [] nodes) in *. set (D := map fst defs) in *.
  set (rest := skipn (length ins) D) in *. set (outn := map (fun o : ref * N * bool => snd (fst o)) outs) in *.
  apply andb_prop in Hwf. destruct Hwf as (Hwf & W6).
  apply andb_prop in Hwf. destruct Hwf as (Hwf & W4b).
  apply andb_prop in Hwf. destruct Hwf as (Hwf & W4a).
  apply andb_prop in Hwf. destruct Hwf as (W1 & W1p).
  destruct (wf2_ns [] D outn nodes) as [Lv|] eqn:WN; [|discriminate].
  rewrite forallb_forall in W1p, W4b, W6.
  assert (ED : D = inn ++ tout_names nodes) by (unfold D, defs; rewrite tdefs_names; reflexivity).
  assert (Hli : length inn = length ins) by apply map_length.
  assert (ER : rest = tout_names nodes).
  { unfold rest. rewrite ED, <- Hli. apply skipn_app_len. }
  set (din := map (fun d => (vd_name d, vd_pay d)) ins).
  set (drest := map (fun d => (vd_name d, vd_pay d)) (filter (fun d => negb (N.eqb (vd_name d) 0)) (node_out_descs nodes))).
  assert (Erd : map fst drest = rest).
  { rewrite ER. unfold drest. rewrite map_map. cbn [fst]. rewrite tout_names_descs. unfold nz. rewrite filter_map_comm. reflexivity. }
  assert (NDr : NoDup rest) by (apply nodup_N_NoDup; auto).
  assert (Disj : forall k, In k rest -> ~ In k inn).
  { intros k Hk. specialize (W4b k Hk). apply negb_true_iff in W4b. apply memN_notIn; auto. }
  set (pay_of := fun k => match lookup k drest with Some p => p | None => 0%N end).
  assert (F1 : forall k p, In (k, p) drest -> pay_of k = p).
  { intros k p Hin. unfold pay_of. rewrite (In_lookup k p drest); auto. rewrite Erd; auto. }
  set (I := fun (k p : N) => In k rest -> p = pay_of k).
  set (b := nv h).
  set (vis := flat_map fn_vi ins ++ t2p_fnvis nodes).
  assert (Dout : forall d, In d (node_out_descs nodes) -> vd_name d <> 0%N -> In (vd_name d, vd_pay d) drest /\ In (vd_name d) rest).
  { intros d Hd Hz.
    assert (Hf : In d (filter (fun d => negb (N.eqb (vd_name d) 0)) (node_out_descs nodes))).
    { apply filter_In. split; auto. destruct (N.eqb_spec (vd_name d) 0); auto. }
    split.
    - unfold drest. apply in_map_iff. exists d. auto.
    - rewrite ER, tout_names_descs. apply In_nz. split; auto. apply in_map; auto. }
  destruct (wf2_ns_facts _ _ _ _ _ WN) as (NTE & WNo).
  assert (Fnv : forall k j, In j (t2p_fnvis nodes) -> vi_name j = k -> vi_bad j = false /\ In k rest /\ vi_pay j = pay_of k).
  { intros k j Hj Hk. apply in_fnvis in Hj. destruct Hj as (d & Hd & Hj). apply in_fn_vi in Hj. destruct Hj as (A1 & A2 & ->).
    cbn in *. subst k. destruct (Dout d Hd A2) as (B1 & B2). split; auto. split; auto. symmetry. apply F1; auto. }
  assert (F2 : forall k j, vi_lookup k vis = Some j -> vi_bad j = false /\ (In k rest -> vi_pay j = pay_of k) /\ In k D).
  { intros k j Hj. apply vi_lookup_In in Hj. destruct Hj as (Hj & Hk). unfold vis in Hj. apply in_app_or in Hj.
    destruct Hj as [Hj|Hj].
    - apply in_flat_map in Hj. destruct Hj as (d & Hd & Hj). apply in_fn_vi in Hj. destruct Hj as (A1 & A2 & ->).
      cbn in *. subst k. assert (Hkin : In (vd_name d) inn) by (unfold inn; apply in_map; auto). csplit; auto.
      + intros Hr. exfalso. apply (Disj _ Hr); auto.
      + rewrite ED. apply in_or_app; auto.
    - destruct (Fnv k j Hj Hk) as (A & B & C). csplit; auto. rewrite ED, <- ER. apply in_or_app; auto. }
  (* the info an input receives by name is its payload *)
  assert (Hinfo : forall d, In d ins -> in_info vis (vd_name d) = vd_pay d).
  { intros d Hd. specialize (W1p d Hd). apply N.eqb_eq in W1p. rewrite W1p. unfold in_info, vis. rewrite vi_lookup_app.
    destruct (vi_lookup (vd_name d) (t2p_fnvis nodes)) as [j|] eqn:Ej; auto. exfalso.
    apply vi_lookup_In in Ej. destruct Ej as (Hj & Hk). destruct (Fnv _ _ Hj Hk) as (_ & Hr & _).
    apply (Disj _ Hr). unfold inn. apply in_map; auto. }
  (* ---- inputs *)
  destruct (phase1nx b I vis inn h eq_refl) as (h0 & invs & h2 & E1 & E1' & P1a & P1b & P1c & P1d & P1e & P1f & P1g & P1i & P1j & P1k).
  { intros k Hk. assert (Hnr : ~ In k rest) by (intros Hc0; apply (Disj _ Hc0); auto).
    destruct (vi_lookup k vis) as [j|] eqn:Ej.
    - destruct (F2 _ _ Ej) as (A & _). split; auto. intros Hr; contradiction.
    - intros Hr; contradiction. }
  set (tbl0 := table_of_names [] inn invs) in *.
  assert (Hlinv : length invs = length ins) by (rewrite P1j, seq_length; auto).
  (* ---- declare *)
  assert (NDo : NoDup (tout_names nodes)) by (rewrite <- ER; auto).
  destruct (declare_nodes_spec b I vis nodes h2 tbl0) as (h5 & tbl2 & E4 & P4a & P4b & P4c & P4d & P4e & P4f & P4g & P4h); auto.
  { unfold b. lia. }
  { intros k Hk Hc'. rewrite P1g in Hc'. apply (Disj k); auto. rewrite ER; auto. }
  { intros k Hk. destruct (vi_lookup k vis) as [j|] eqn:Ej.
    - destruct (F2 _ _ Ej) as (C1 & C2 & _). split; auto.
    - intros _. rewrite tout_names_descs in Hk. apply In_nz in Hk. destruct Hk as (Hk & Hz).
      apply in_map_iff in Hk. destruct Hk as (d & <- & Hd).
      destruct (Dout d Hd Hz) as (C1 & C2). rewrite (F1 _ _ C1).
      destruct (N.eqb_spec (vd_pay d) 0) as [Hp|Hp]; auto. exfalso.
      assert (Hin : In (vi_of d) vis).
      { unfold vis. apply in_or_app. right. apply in_fnvis. exists d. split; auto. apply in_fn_vi. csplit; auto. }
      apply vi_lookup_some in Hin. cbn in Hin. congruence. }
  destruct (declare_nodes_shape _ _ _ _ _ _ E4) as (T & ET & S4a & S4b & _).
  assert (NT : nms T = rest).
  { assert (X : nms tbl2 = inn ++ nms T) by (rewrite ET, nms_app, P1g; auto).
    rewrite P4g, P1g in X. apply app_inv_head in X. rewrite ER. auto. }
  assert (N2 : nms tbl2 = D) by (rewrite P4g, P1g, ED; auto).
  assert (I2 : ids tbl2 = invs ++ ids T) by (rewrite ET, ids_app, P1i; auto).
  assert (Tb0 : forall k v, In (k, v) tbl0 -> b <= v < nv h2).
  { intros k v Hin. destruct (P1f k v Hin) as (A & x & Hx & _). split; auto. eapply getv_lt; eauto. }
  assert (ND0 : NoDup (ids tbl0)) by (rewrite P1i, P1j; apply seq_NoDup).
  assert (ND2 : NoDup (ids tbl2)).
  { rewrite ET. apply (NoDup_ids_app T tbl0 (nv h2)); auto.
    - intros k v Hin. apply Tb0 in Hin. lia.
    - intros k v Hin. apply S4a in Hin. lia. }
  assert (O5 : forall u, u < nv h -> getv h5 u = getv h u).
  { intros u Hu. rewrite P4e by lia. auto. }
  assert (HN5 : hn h5 = hn h) by congruence.
  assert (HG5 : hg h5 = hg h) by congruence.
  assert (HT5 : ht h5 = ht h) by congruence.
  assert (X05 : ext h h5).
  { unfold ext, nn, ngr, getn, getg, gett. rewrite HN5, HG5, HT5. csplit; auto; try lia; eauto.
    intros v x Hx. exists x. split; auto. rewrite O5; auto. eapply getv_lt; eauto. }
  assert (INF5 : forall j v d, nth_error invs j = Some v -> nth_error ins j = Some d ->
                 In (vd_name d, v) tbl0 /\ exists x, getv h5 v = Some x /\ v_info x = vd_pay d).
  { intros j v d Hv Hd.
    assert (Hk : nth_error inn j = Some (vd_name d)) by (apply (map_nth_error vd_name j ins Hd)).
    pose proof (Forall2_nth _ _ _ P1k j _ v Hk Hv) as G. cbn beta in G.
    assert (Hin : In (vd_name d, v) tbl0).
    { unfold tbl0. assert (Hl' : length invs = length inn) by lia.
      apply (proj2 (table_of_names_spec inn invs [] Hl')). right. eapply In_combine_nth; eauto. }
    split; auto. eexists. split; [rewrite P4e; [exact G | eapply getv_lt; eauto]|]. cbn.
    apply Hinfo. eapply nth_error_In; eauto. }
  (* ---- nodes *)
  assert (Hc2 : chain_ok2 [tbl2]).
  { cbn [chain_ok2]. csplit; auto; intros k v _ t' k' []. }
  assert (HD : forall k, In k rest -> In k (nms tbl2)).
  { intros k Hk. rewrite N2, ED, <- ER. apply in_or_app; auto. }
  destruct deser2_all as (_ & IHn & _).
  destruct (IHn nodes b I [] outn [] tbl2 vis h5 (nv h5) Lv) as (h6 & P & nids & E5 & L5 & C5 & T6 & Q5 & S5 & R5 & G5 & D5); auto.
  { intros t k v []. }
  { rewrite N2. auto. }
  { apply TB_TQ; auto. }
  { destruct X05 as (A & _). unfold b. auto. }
  { intros k Hk Hr. exfalso. apply Hk. auto. }
  { intros k Hk. destruct (vi_lookup k vis) as [j|] eqn:Ej; [|congruence]. destruct (F2 _ _ Ej) as (_ & _ & A). rewrite N2. auto. }
  { intros k Hk. apply HD. rewrite ER; auto. }
  { intros k v x _ Hin Hx. destruct (P4f k v Hin) as (_ & x' & Hx' & _ & Hp & _). congruence. }
  set (tbl3 := P ++ tbl2) in *.
  pose proof S5 as (X56 & V56 & G56).
  assert (NDP : forall k v, In (k, v) P -> ~ In k (nms tbl2) /\ nv h5 <= v) by (intros k v Hin; destruct (Q5 _ _ Hin); auto).
  assert (Hb3 : forall k v, In (k, v) tbl3 -> b <= v < nv h6) by (intros k v Hin; eapply TQ_lt; eauto).
  assert (ND3 : NoDup (ids tbl3)) by (destruct C5; auto).
  assert (I3 : ids tbl3 = invs ++ ids T ++ ids P) by (unfold tbl3; rewrite ids_app, I2, <- app_assoc; auto).
  assert (ELv : Lv = inn ++ rest ++ nms P).
  { rewrite <- L5. fold tbl3. unfold tbl3. rewrite nms_app, N2, ED, ER, <- !app_assoc. auto. }
  assert (NPk : forall k, In k (nms P) -> ~ In k inn /\ ~ In k rest).
  { intros k Hk. apply In_nms in Hk. destruct Hk as (v & Hv). destruct (NDP _ _ Hv) as (A & _).
    split; intros Hc0; apply A; rewrite N2, ED; [apply in_or_app; auto | rewrite <- ER; apply in_or_app; auto]. }
  assert (In23 : forall kv0, In kv0 tbl2 -> In kv0 tbl3) by (intros; unfold tbl3; apply in_or_app; auto).
  assert (LKR : forall k v, In k rest -> In (k, v) tbl3 -> lookup k tbl3 = Some v /\ look tbl2 k = v).
  { intros k v Hk Hin.
    assert (HT' : In (k, v) T).
    { unfold tbl3 in Hin. rewrite ET in Hin. apply in_app_or in Hin. destruct Hin as [Hin|Hin].
      - exfalso. destruct (NDP _ _ Hin) as (A & _). apply A. auto.
      - apply in_app_or in Hin. destruct Hin as [Hin|Hin]; auto. exfalso. apply (Disj k Hk). rewrite <- P1g.
        apply In_nms. eauto. }
    assert (Hkp : lookup k P = None).
    { apply lookup_keys_none. intros k' v' Hin' ->. destruct (NDP _ _ Hin') as (A & _). apply A. auto. }
    assert (HlT : lookup k (T ++ tbl0) = Some v) by (apply lookup_R; auto; rewrite NT; auto).
    split.
    - unfold tbl3. rewrite lookup_app, Hkp, ET. auto.
    - unfold look. rewrite ET, HlT. auto. }
  assert (LKI : forall k j, index_last k inn 0 = Some j ->
                index_last k Lv 0 = Some j /\ exists v, nth_error invs j = Some v /\ lookup k tbl3 = Some v).
  { intros k j Hj.
    assert (Hkin : In k inn).
    { destruct (in_dec N.eq_dec k inn) as [Hd|Hd]; auto. apply (index_last_None _ _ 0) in Hd. congruence. }
    assert (HjL : index_last k Lv 0 = Some j).
    { rewrite ELv, index_last_app_notin; auto. intros Hc0. apply in_app_or in Hc0. destruct Hc0 as [Hc0|Hc0].
      - apply (Disj k); auto.
      - apply NPk in Hc0. destruct Hc0; auto. }
    split; auto. pose proof (lookup_ilast tbl3 k) as Hl. rewrite L5, HjL in Hl. destruct Hl as (v & Hv & Hn').
    exists v. split; auto. rewrite I3 in Hn'. rewrite nth_error_app1 in Hn'; auto.
    apply index_last_lt in Hj. lia. }
  (* ---- outputs *)
  assert (WO : forall o, In o outs -> snd o = true /\ fst (fst o) = resolve2 (snd (fst o)) [Lv] 0 /\ fst (fst o) <> None).
  { intros o Ho. specialize (W6 o Ho). destruct o as [[r k] nm]. cbn [fst snd].
    apply andb_prop in W6. destruct W6 as (W6 & Wc). apply andb_prop in W6. destruct W6 as (Wa & Wb).
    apply ref_eqb_eq in Wc. csplit; auto. destruct r; [discriminate|discriminate]. }
  assert (OUTREF : forall o, In o outs -> exists u j, lookup (snd (fst o)) tbl3 = Some u /\ fst (fst o) = Some (0, j) /\
                     nth_error (ids tbl3) j = Some u /\ index_last (snd (fst o)) Lv 0 = Some j).
  { intros o Ho. destruct (WO o Ho) as (_ & Er & Hne). cbn [resolve2] in Er.
    pose proof (lookup_ilast tbl3 (snd (fst o))) as Hl. rewrite L5 in Hl.
    destruct (index_last (snd (fst o)) Lv 0) as [j|]; [|congruence].
    destruct Hl as (v & Hv & Hn'). exists v, j. auto. }
  assert (E6 : lookup_all tbl3 outn = Ok (map (look tbl3) outn)).
  { apply lookup_all_spec. intros k Hk. unfold outn in Hk. apply in_map_iff in Hk. destruct Hk as (o & <- & Ho).
    destruct (OUTREF o Ho) as (u & j & Hl & _). congruence. }
  set (outvs := map (look tbl3) outn) in *.
  assert (T7 : forall k v, In (k, v) tbl3 -> exists x6, getv h6 v = Some x6 /\
             v_name x6 = Some k /\ v_owner x6 = None /\ v_in x6 = false /\ v_out x6 = false /\ v_init x6 = false).
  { intros k v Hin. destruct (T6 k v Hin) as (_ & x6 & Hx6 & A1 & A2 & A3 & A4 & A5 & A6). exists x6. csplit; auto. }
  assert (OUTV : forall v, In v outvs -> exists o, In o outs /\ lookup (snd (fst o)) tbl3 = Some v).
  { intros v Hv. unfold outvs, outn in Hv. rewrite map_map in Hv. apply in_map_iff in Hv. destruct Hv as (o & <- & Ho).
    destruct (OUTREF o Ho) as (u & j & Hl & _). exists o. split; auto. unfold look. rewrite Hl. auto. }
  assert (Hinv : forall v, In v invs -> exists j d, nth_error invs j = Some v /\ nth_error ins j = Some d).
  { intros v Hv. apply In_nth_error in Hv. destruct Hv as (j & Hj). exists j.
    destruct (nth_error ins j) as [d|] eqn:Ed; eauto. exfalso. apply nth_error_None in Ed.
    assert (j < length invs) by (apply nth_error_Some; congruence). lia. }
  destruct (new_graph_ok h6 0%N 0%N invs outvs [] nids) as (l3 & ln & E7 & L3 & LN & Len3 & Lenn).
  { intros v Hv. destruct (Hinv v Hv) as (j & d & Hj & Hd). destruct (INF5 j v d Hj Hd) as (Hin0 & x5 & Hx5 & _).
    assert (Hin2 : In (vd_name d, v) tbl2) by (rewrite ET; apply in_or_app; auto).
    destruct (T7 _ _ (In23 _ Hin2)) as (x6 & Hx6 & A1 & A2 & _). exists x6. csplit; auto.
    destruct (P4f _ _ Hin2) as (_ & x5' & Hx5' & _ & Hp5 & _). assert (x5' = x5) by congruence. subst x5'.
    destruct (V56 _ _ Hx5) as (x6' & Hx6' & _ & Hp). assert (x6' = x6) by congruence. subst x6'.
    destruct Hp as [Hp|(k & Hk & Hin')]; [congruence|]. exfalso.
    assert (k = vd_name d) by (eapply TB_inj; eauto). subst k.
    apply (Disj (vd_name d)); [rewrite ER; auto | unfold inn; apply in_map; eapply nth_error_In; eauto]. }
  { intros v Hv. destruct (OUTV v Hv) as (o & Ho & Hl). apply lookup_In in Hl.
    destruct (T7 _ _ Hl) as (x6 & Hx6 & A1 & A2 & _). exists x6. auto. }
  { intros k v []. }
  { constructor. }
  { intros n Hn'. eapply pre2_ns_nodes; eauto. }
  cbn [map] in E7, L3.
  set (z := mkG 0%N 0%N invs outvs [] nids) in *. set (gid := ngr h6) in *.
  set (h8 := mkH l3 ln (hg h6 ++ [z]) (ht h6)) in *.
  assert (GV8 : forall v, getv h8 v = option_map (gval gid invs outvs [] v) (getv h6 v)).
  { intros v. unfold getv at 1. unfold h8; cbn [hv]. rewrite L3. reflexivity. }
  assert (GN8 : forall n, getn h8 n = option_map (nnode gid nids n) (getn h6 n)).
  { intros n. unfold getn at 1. unfold h8; cbn [hn]. rewrite LN. reflexivity. }
  assert (NV8 : nv h8 = nv h6) by (unfold nv, h8; cbn [hv]; auto).
  assert (GG8 : getg h8 gid = Some z).
  { unfold getg, h8, gid, ngr; cbn [hg]. apply nth_error_app_new. }
  assert (OUTB : forall k v, In (k, v) tbl3 ->
             (In v outvs <-> exists o, In o outs /\ lookup (snd (fst o)) tbl3 = Some v)).
  { intros k v Hin. split; [apply OUTV|]. intros (o & Ho & Hl). unfold outvs, outn. rewrite map_map.
    apply in_map_iff. exists o. split; auto. unfold look. rewrite Hl. auto. }
  assert (VD8 : forall k v, In (k, v) tbl3 -> exists x6, getv h6 v = Some x6 /\
             getv h8 v = Some (gval gid invs outvs [] v x6) /\ v_name x6 = Some k /\
             vdesc_of [] h8 v = mkVD k true (v_info x6) (memb v outvs) /\ (b <= v /\ v < nv h8)).
  { intros k v Hin. destruct (T7 _ _ Hin) as (x6 & Hx6 & A1 & A2 & A3 & A4 & A5).
    exists x6. assert (Hx8 : getv h8 v = Some (gval gid invs outvs [] v x6)) by (rewrite GV8, Hx6; auto).
    csplit; auto.
    - unfold vdesc_of. rewrite Hx8, tpay_nil. cbn. rewrite A1, A4. rewrite orb_false_r. auto.
    - destruct (Hb3 _ _ Hin); auto.
    - eapply getv_lt; eauto. }
  assert (OUTR : forall k v, In k rest -> In (k, v) tbl3 -> memb v outvs = memN k outn).
  { intros k v Hk Hin. destruct (memN k outn) eqn:Em.
    - apply memb_In. apply (OUTB k v Hin). apply memN_In in Em. unfold outn in Em. apply in_map_iff in Em.
      destruct Em as (o & Ek & Ho). exists o. split; auto. rewrite Ek. apply LKR; auto.
    - apply memb_notIn. intros Hv. apply (OUTB k v Hin) in Hv. destruct Hv as (o & Ho & Hl).
      apply memN_notIn in Em. apply Em. apply lookup_In in Hl.
      assert (snd (fst o) = k) by (eapply TQ_inj; eauto). subst k. unfold outn. apply in_map_iff. exists o. auto. }
  (* ---- the frame *)
  assert (NN5 : nn h5 = nn h) by (unfold nn; rewrite HN5; auto).
  assert (Untouched : forall v x6, (forall k, ~ In (k, v) tbl3) -> getv h6 v = Some x6 ->
             getv h8 v = Some x6).
  { intros v x6 Hnt Hx6. rewrite GV8, Hx6. cbn [option_map]. f_equal. apply gval_untouched.
    assert (G : forall l, (In v l -> exists k, In (k, v) tbl3) -> memb v l = false).
    { intros l Hl. apply memb_notIn. intros Hin. destruct (Hl Hin) as (k & Hk). eapply Hnt; eauto. }
    rewrite !G; auto.
    - intros [].
    - intros Hin. destruct (OUTV v Hin) as (o & Ho & Hl). eexists. apply lookup_In; eauto.
    - intros Hin. destruct (Hinv v Hin) as (j & d & Hj & Hd). destruct (INF5 j v d Hj Hd) as (Hin0 & _).
      exists (vd_name d). apply In23. rewrite ET. apply in_or_app; auto. }
  assert (X68 : ext h6 h8).
  { unfold ext. csplit.
    - rewrite NV8. lia.
    - unfold nn at 2. unfold h8; cbn [hn]. rewrite Lenn. unfold nn. lia.
    - unfold ngr at 2. unfold h8; cbn [hg]. rewrite app_length. unfold ngr. cbn. lia.
    - intros v x Hx. eexists. split; [rewrite GV8, Hx; reflexivity|]. reflexivity.
    - intros n y Hy. rewrite GN8, Hy. eexists. split; [reflexivity|]. unfold nnode. destruct (memb n nids); reflexivity.
    - intros g z0 Hz. unfold getg in *. unfold h8; cbn [hg].
      rewrite nth_error_app1; auto. apply nth_error_Some. congruence.
    - intros t c Hc'. unfold gett in *. unfold h8; cbn [ht]. auto. }
  assert (N08 : nested h h8).
  { split; [eapply ext_trans; [exact X05|]; eapply ext_trans; [exact X56 | exact X68]|]. split.
    - intros v x Hx. assert (Hv : v < nv h) by (eapply getv_lt; eauto).
      assert (Hx5 : getv h5 v = Some x) by (rewrite O5; auto).
      destruct (V56 _ _ Hx5) as (x6 & Hx6 & Em & Hp).
      assert (Hnt : forall k, ~ In (k, v) tbl3).
      { intros k Hin. apply Hb3 in Hin. unfold b in Hin. lia. }
      destruct Hp as [Hp|(k & _ & Hin)]; [|exfalso; eapply Hnt; apply In23; eauto].
      exists x6. split; [apply Untouched; auto|].
      apply vmid_inv in Em. destruct Em as (M1 & M2 & M3 & M4 & M5 & M6 & M7). unfold vfix. congruence.
    - intros n y Hy. assert (Hn' : n < nn h) by (eapply getn_lt; eauto).
      assert (Hy5 : getn h5 n = Some y) by (unfold getn in *; rewrite HN5; auto).
      rewrite GN8, (G56 _ _ Hy5). cbn [option_map]. f_equal. unfold nnode.
      assert (Hm : memb n nids = false) by (apply memb_notIn; intros Hin; apply G5 in Hin; lia).
      rewrite Hm. auto. }
  set (Q68 := fun v => nv h5 <= v /\ ~ In v (ids tbl3)).
  assert (K68 : keepsP Q68 h6 h8).
  { split; auto. intros v x (A & B) Hx. exists x. split; auto. apply Untouched; auto.
    intros k Hin. apply B. apply In_ids. eauto. }
  assert (GD : gdefs h8 z = ids tbl2).
  { rewrite I2. unfold gdefs. cbn [g_inputs g_inits g_nodes z map filter app]. f_equal.
    rewrite <- (map_look_R T tbl0) by (rewrite NT; auto). rewrite <- ET, NT, ER.
    eapply gdefs_nodes2 with (h := h6) (Q := Q68); eauto.
    - intros n y Hy. rewrite GN8, Hy. eexists. split; [reflexivity|]. apply nnode_outputs.
    - intros k v Hin _. destruct (VD8 _ _ Hin) as (x6 & _ & Hx8 & Hn6 & _). eexists. split; [exact Hx8|]. exact Hn6.
    - intros k v Hk Hin. apply LKR; auto. rewrite ER; auto. }
  (* ---- conclusion *)
  exists h8, (mkF fid ftok gid). split.
  { unfold deser_function. cbn [t2p_f fp_ins fp_outs fp_vis fp_nodes fp_bad fp_id fp_tok].
    pose proof E1' as E1''. pose proof E4 as E4'. pose proof E5 as E5'.
    unfold tbl0, vis, inn in E1'', E4', E5'. unfold inn in E1.
    rewrite E1, E1'', E4', E5'. fold tbl3. fold outn. rewrite E6. fold outvs. rewrite E7. reflexivity. }
  split; [exact N08|].
  assert (NG8 : ngr h8 = S gid).
  { unfold ngr at 1. unfold h8; cbn [hg]. rewrite app_length. cbn. unfold gid, ngr. lia. }
  split; [|split; [|reflexivity]].
  2:{ cbn [depth_f]. rewrite NG8. unfold gid, ngr in *. rewrite HG5 in D5. lia. }
  cbn [real2_f f_graph f_id f_tok]. exists z, (ids tbl3). split; [exact GG8|]. rewrite GD. unfold z at 1 2 3 4 5 6.
  cbn [g_inputs g_inits g_outputs g_nodes].
  split; [reflexivity|]. split; [reflexivity|]. split; [reflexivity|]. split.
  { (* inputs *)
    apply map_nth_eq; auto. intros j v d Hj Hd.
    destruct (INF5 j v d Hj Hd) as (Hin0 & x5 & Hx5 & Hi5).
    assert (Hin : In (vd_name d, v) tbl3) by (apply In23; rewrite ET; apply in_or_app; auto).
    destruct (VD8 _ _ Hin) as (x6 & Hx6 & _ & _ & Ev & _).
    destruct (V56 _ _ Hx5) as (x6' & Hx6' & Em & _). assert (x6' = x6) by congruence. subst x6'.
    apply vmid_inv in Em. destruct Em as (_ & _ & _ & _ & _ & _ & M7).
    destruct (wf2_ins_nth _ _ _ _ W1 j d Hd) as (Wa & Wb). cbn [Nat.add] in Wb.
    assert (Eo : memb v outvs = memN (vd_name d) outn && is_last (vd_name d) j inn).
    { destruct (memb v outvs) eqn:Em.
      - apply memb_In in Em. apply (OUTB _ _ Hin) in Em. destruct Em as (o & Ho & Lo). symmetry.
        assert (Ek : snd (fst o) = vd_name d) by (apply lookup_In in Lo; eapply TQ_inj; eauto).
        apply andb_true_intro. split.
        + apply memN_In. unfold outn. apply in_map_iff. exists o. auto.
        + destruct (OUTREF o Ho) as (u & j' & Lo' & _ & Hn1 & Hil). assert (u = v) by congruence. subst u.
          assert (j' = j).
          { apply (proj1 (NoDup_nth_error (ids tbl3)) ND3); [apply nth_error_Some; congruence|].
            rewrite Hn1, I3, nth_error_app1; [congruence | apply nth_error_Some; congruence]. }
          subst j'. rewrite Ek in Hil. rewrite ELv, index_last_app_notin in Hil.
          * unfold is_last. rewrite Hil. cbn. apply Nat.eqb_refl.
          * assert (Hkin : In (vd_name d) inn) by (unfold inn; apply in_map; eapply nth_error_In; eauto).
            intros Hc0. apply in_app_or in Hc0. destruct Hc0 as [Hc0|Hc0]; [apply (Disj _ Hc0); auto|].
            apply NPk in Hc0. destruct Hc0; auto.
      - symmetry. apply Bool.not_true_is_false. intros Hc0. apply andb_prop in Hc0. destruct Hc0 as (Hm & Hil).
        apply memb_notIn in Em. apply Em. apply (OUTB _ _ Hin). apply memN_In in Hm. unfold outn in Hm.
        apply in_map_iff in Hm. destruct Hm as (o & Ek & Ho). exists o. split; auto. rewrite Ek.
        unfold is_last in Hil. destruct (index_last (vd_name d) inn 0) as [j'|] eqn:Ej; [|discriminate]. cbn in Hil.
        apply Nat.eqb_eq in Hil. subst j'. destruct (LKI _ _ Ej) as (_ & v' & Hv' & Hl'). congruence. }
    unfold fn_in_desc. rewrite Ev. cbn [vd_name vd_named vd_out].
    rewrite Eo, <- Wb, M7, Hi5.
    destruct (N.eqb_spec (vd_name d) 0) as [Hz|Hz].
    - specialize (W1p d (nth_error_In _ _ Hd)). apply N.eqb_eq in W1p.
      assert (Hp0 : vd_pay d = 0%N).
      { rewrite W1p, Hz. destruct (vi_lookup 0%N (flat_map fn_vi ins)) as [i|] eqn:Ei; auto. exfalso.
        apply vi_lookup_In in Ei. destruct Ei as (Hi & Hk). apply in_flat_map in Hi. destruct Hi as (d' & _ & Hi).
        apply in_fn_vi in Hi. destruct Hi as (_ & A & ->). cbn in Hk. congruence. }
      destruct d as [dn dm dp dout]. cbn in Hz, Hp0, Wa |- *. rewrite Hz, Hp0, Wa. reflexivity.
    - rewrite <- Wa. destruct d; reflexivity. }
  split.
  { (* outputs *)
    unfold outvs, outn. rewrite !map_map. rewrite <- (map_id outs) at 2. apply map_ext_in. intros o Ho.
    destruct (OUTREF o Ho) as (u & j & Hl & Ef & Hn1 & _). unfold look. rewrite Hl.
    destruct (WO o Ho) as (A1 & _). pose proof (lookup_In _ _ _ Hl) as Hin.
    destruct (VD8 _ _ Hin) as (x6 & _ & _ & _ & Ev & _). rewrite Ev.
    cbn [find_ref]. rewrite (index_nat_nth u (ids tbl3) ND3 j 0 Hn1). cbn [Nat.add vd_name vd_named].
    destruct o as [[r k] nm]. cbn [fst snd] in *. subst nm. rewrite Ef. reflexivity. }
  split.
  { intros v Hv. destruct (Hinv v Hv) as (j & d & Hj & Hd). destruct (INF5 j v d Hj Hd) as (Hin0 & _).
    assert (Hin : In (vd_name d, v) tbl3) by (apply In23; rewrite ET; apply in_or_app; auto).
    destruct (VD8 _ _ Hin) as (_ & _ & _ & _ & _ & A). exact A. }
  split.
  { intros v Hv. destruct (OUTV v Hv) as (o & Ho & Hl). apply lookup_In in Hl.
    destruct (VD8 _ _ Hl) as (_ & _ & _ & _ & _ & A). destruct A; auto. }
  change (@nil (list nat)) with (map ids (@nil table)).
  eapply pre2_real_ns with (Q := Q68) (h := h6) (tbl := tbl3); eauto.
  - intros v (A & _). destruct X05 as (B & _). unfold b. cbn beta. lia.
  - intros k v Hin _. destruct (VD8 _ _ Hin) as (x6 & _ & Hx8 & Hn6 & _ & A). split; [exact A|]. eexists. split; [exact Hx8|exact Hn6].
  - intros d v Hd Hz Hin. destruct (Dout d Hd Hz) as (C1 & C2).
    destruct (VD8 _ _ Hin) as (x6 & Hx6 & _ & _ & Ev & _).
    destruct (T6 _ _ Hin) as (_ & x6' & Hx6' & _ & _ & _ & _ & _ & Hi6). assert (x6' = x6) by congruence. subst x6'.
    rewrite Ev, (Hi6 C2), (F1 _ _ C1), (OUTR _ _ C2 Hin).
    destruct (wf_node_out_named _ _ (WNo d Hd) Hz) as (A1 & A2). rewrite <- A2, <- A1. destruct d; reflexivity.
Qed.

Lemma PF2_all : forall F, PF2 F.
Proof. intros [|fid ftok ins nodes outs]; [intros h Hwf; discriminate | apply PF2_case]. Qed.

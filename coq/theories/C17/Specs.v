(* C17/Specs.v — statements of the constructor-level lemmas (proved in OpNode.v / OpGraph.v, used by Deser.v). *)
From Coq Require Import NArith List Bool Arith Lia.
From IRV Require Import Base.Exn C03.Model C03.Inv C17.Basics.
Import ListNotations.

(* Node.__init__ preserves the invariant when the outputs are pairwise distinct values that are neither
   graph inputs nor initializers (the code checks only that they have no producer yet). *)
Definition new_node_spec : Prop :=
  forall h nm op tok ins outs attrs h' nid,
  Inv h -> new_node h nm op tok ins outs attrs = Ok (h', nid) ->
  (forall v, In (Some v) ins -> v < nv h) ->
  (forall v, In v outs -> v < nv h) ->
  NoDup outs ->
  (forall v x, In v outs -> getv h v = Some x -> v_in x = false /\ v_init x = false) ->
  Inv h' /\ nid = nn h /\ nn h' = S (nn h) /\ nv h' = nv h /\ hg h' = hg h /\ ht h' = ht h /\
  (forall v x, getv h v = Some x ->
     exists x', getv h' v = Some x' /\ v_name x' = v_name x /\ v_owner x' = v_owner x /\ v_in x' = v_in x /\
                v_out x' = v_out x /\ v_init x' = v_init x /\ v_const x' = v_const x /\ v_info x' = v_info x /\
                (~ In v outs -> v_prod x' = v_prod x)) /\
  (forall n, n < nn h -> getn h' n = getn h n).

(* Graph.__init__ preserves the invariant when the node list has no repetition and the initializer
   values have no producer (GraphInitializers.__init__ does not check it; inputs are checked). *)
Definition new_graph_spec : Prop :=
  forall h gname gtok ins outs inits nodes h' gid,
  Inv h -> new_graph h gname gtok ins outs inits nodes = Ok (h', gid) ->
  NoDup nodes ->
  (forall v x, In v inits -> getv h v = Some x -> v_prod x = None) ->
  Inv h' /\ gid = ngr h /\ ngr h' = S (ngr h) /\ nv h' = nv h /\ nn h' = nn h /\ ht h' = ht h /\
  (forall v x, getv h v = Some x ->
     exists x', getv h' v = Some x' /\ v_name x' = v_name x /\ v_prod x' = v_prod x /\ v_uses x' = v_uses x /\
                v_const x' = v_const x /\ v_info x' = v_info x /\
                (~ In v ins -> ~ In v outs -> ~ In v inits -> x' = x)).

(* C17/Fix2Wfs.v — punfold_wfs: the symbolic unfolding computed from ANY proto is structurally well formed, also
   after payload normalisation.  Stage D: the mutual induction, functions, the model. *)
From Coq Require Import NArith List Bool Arith Lia.
From IRV Require Import Base.Exn C03.Model C03.Canon C03.Inv C03.Tree C03.TreeF C03.PayFixDefs C03.IsoSer C17.Tree2 C17.PUnfold C17.Fix2Defs C17.Fix2WfsA C17.Fix2WfsB C17.Fix2WfsC.
Import ListNotations.

(* ------------------------------------------------------------------ graphs / nodes: the mutual induction *)
Lemma punfold_wfs_all np :
  (forall g, P_g np g) /\ (forall ns, P_ns np ns) /\ (forall n, P_n np n)
  /\ (forall al, P_as np al) /\ (forall a, P_a np a) /\ (forall gs, P_gs np gs).
Proof.
  apply proto_mutindW.
  - intros. apply case_gp; auto.
  - apply case_nnil.
  - intros. apply case_ncons; auto.
  - intros. apply case_np; auto.
  - apply case_anil.
  - intros. apply case_acons; auto.
  - intros. apply case_aplain.
  - intros. apply case_agraph; auto.
  - intros. apply case_agraphs; auto.
  - apply case_gnil.
  - intros. apply case_gcons; auto.
Qed.

(* ------------------------------------------------------------------ functions *)
Lemma vi_lookup_some k : forall l i, vi_lookup k l = Some i -> In i l /\ vi_name i = k.
Proof.
  induction l as [|x r IH]; simpl; intros i H; [discriminate|].
  destruct (vi_lookup k r) as [j|] eqn:E.
  - inversion H; subst. destruct (IH i eq_refl). auto.
  - destruct (N.eqb_spec k (vi_name x)); [|discriminate]. inversion H; subst. auto.
Qed.
Lemma vi_lookup_none k : forall l, vi_lookup k l = None -> forall i, In i l -> vi_name i <> k.
Proof.
  induction l as [|x r IH]; simpl; intros H i I; [tauto|].
  destruct (vi_lookup k r) as [j|] eqn:E; [discriminate|].
  destruct (N.eqb_spec k (vi_name x)); [discriminate|]. destruct I as [I|I]; [subst; auto|]. apply IH; auto.
Qed.
Lemma fn_pay_ok (Q : N -> N) insT :
  Q 0%N = 0%N -> (forall d, In d insT -> vd_pay d = Q (vd_name d)) ->
  forallb (fun d => N.eqb (vd_pay d) (match vi_lookup (vd_name d) (flat_map fn_vi insT) with
                                      | Some i => vi_pay i | None => 0%N end)) insT = true.
Proof.
  intros Q0 HQ. apply forallb_forall. intros d I. apply N.eqb_eq.
  destruct (vi_lookup (vd_name d) (flat_map fn_vi insT)) as [i|] eqn:E.
  - apply vi_lookup_some in E. destruct E as [Ii En]. apply in_flat_map in Ii. destruct Ii as (d' & I' & Ii).
    unfold fn_vi in Ii. destruct (negb (N.eqb (vd_pay d') 0) && negb (N.eqb (vd_name d') 0)); [|destruct Ii].
    destruct Ii as [Ii|[]]. subst i. simpl in *. rewrite (HQ d I), (HQ d' I'), En. auto.
  - rewrite (HQ d I). destruct (N.eqb_spec (Q (vd_name d)) 0) as [Z|Z]; auto.
    exfalso. apply (vi_lookup_none _ _ E (vi_of d)); [|reflexivity].
    apply in_flat_map. exists d. split; auto. unfold fn_vi. rewrite (HQ d I).
    apply N.eqb_neq in Z. rewrite Z. simpl.
    destruct (N.eqb_spec (vd_name d) 0) as [Z'|Z']; simpl; auto.
    rewrite Z', Q0 in Z. discriminate.
Qed.

Definition indefs_of (vis : list vinfo) (inn : list N) : option (list (N * N)) :=
  fold_right (fun k acc => obind acc (fun l => obind (vis_pay vis k) (fun p => Some ((k, if N.eqb k 0 then 0%N else p) :: l))))
             (Some []) inn.
Definition Pf (vis : list vinfo) (k : N) : N := match vis_pay vis k with Some p => p | None => 0%N end.
Lemma indefs_ok vis : forall inn indefs,
  indefs_of vis inn = Some indefs ->
  map fst indefs = inn /\ forall kp, In kp indefs -> snd kp = if N.eqb (fst kp) 0 then 0%N else Pf vis (fst kp).
Proof.
  induction inn as [|k r IH]; simpl; intros indefs H.
  - inversion H; subst. split; auto. intros ? [].
  - fold (indefs_of vis r) in H. destruct (indefs_of vis r) as [l|]; cbn [obind] in H; [|discriminate].
    destruct (IH l eq_refl) as [A B].
    destruct (vis_pay vis k) as [p|] eqn:V; cbn [obind] in H; [|discriminate]. inversion H; subst. simpl.
    split; [auto|]. intros kp [E|I]; auto. subst kp. simpl. unfold Pf. rewrite V. auto.
Qed.

Definition orefs_f (lvl : list N) (outs : list N) : list (ref * N) := map (fun k => (resolve2 k [lvl] 0, k)) outs.
Definition flagf (orefs : list (ref * N)) (j : nat) : bool :=
  existsb (fun o => match fst o with Some (_, j') => Nat.eqb j j' | None => false end) orefs.
Lemma flagf_flagn lvl outs j : flagf (orefs_f lvl outs) j = flagn lvl outs j.
Proof. unfold flagf, flagn, orefs_f. rewrite existsb_map. reflexivity. Qed.
Definition vdf_f (D : list N) (defs0 : list (N * N)) (orefs : list (ref * N)) (k : N) : vdesc :=
  match index_last k D 0 with
  | Some j => mkVD k true (match nth_error defs0 j with Some kp => snd kp | None => 0%N end) (flagf orefs j)
  | None => mkVD k true 0 false
  end.
Definition insf_t (indefs : list (N * N)) (orefs : list (ref * N)) : list vdesc :=
  map (fun jk => let '(j, kp) := jk in mkVD (fst kp) true (snd kp) (flagf orefs j)) (combine (seq 0 (length indefs)) indefs).
Definition build_f (f : fproto) indefs decl lvl pns : ftree :=
  let defs0 := indefs ++ decl in
  let D := map fst defs0 in
  let orefs := orefs_f lvl (fp_outs f) in
  FT (fp_id f) (fp_tok f) (insf_t indefs orefs) (ntrees_of (map (mknode (vdf_f D defs0 orefs)) pns))
     (map (fun o => (fst o, snd o, true)) orefs).

Lemma pu_f_inv f F :
  pu_f f = Some F ->
  exists indefs decl lvl pns,
    indefs_of (fp_vis f) (fp_ins f) = Some indefs
    /\ pu_declare (fp_vis f) (fp_ins f) [] (fp_nodes f) = Some decl
    /\ pu_ns (fp_vis f) [] (map fst (indefs ++ decl)) (fp_nodes f) = Some (lvl, pns)
    /\ forallb (fun o => is_some (fst o)) (orefs_f lvl (fp_outs f)) = true
    /\ F = build_f f indefs decl lvl pns.
Proof.
  intros H. unfold pu_f in H. destruct (fp_bad f); [discriminate|].
  fold (indefs_of (fp_vis f) (fp_ins f)) in H.
  destruct (indefs_of (fp_vis f) (fp_ins f)) as [indefs|] eqn:E0; cbn [obind] in H; [|discriminate].
  destruct (pu_declare (fp_vis f) (fp_ins f) [] (fp_nodes f)) as [decl|] eqn:E1; cbn [obind] in H; [|discriminate].
  destruct (pu_ns (fp_vis f) [] (map fst (indefs ++ decl)) (fp_nodes f)) as [[lvl pns]|] eqn:E2; cbn [obind] in H; [|discriminate].
  fold (orefs_f lvl (fp_outs f)) in H.
  destruct (forallb (fun o => is_some (fst o)) (orefs_f lvl (fp_outs f))) eqn:E3; cbn [negb] in H; [|discriminate].
  injection H as H. exists indefs, decl, lvl, pns.
  split; [reflexivity|]. split; [first [exact E1|reflexivity]|]. split; [exact E2|]. split; [first [exact E3|reflexivity]|].
  rewrite <- H. reflexivity.
Qed.

Lemma tdefs_names a b c :
  map fst (tdefs a b c)
  = map vd_name a ++ map id_name (filter (fun i => negb (id_input i)) b)
    ++ map vd_name (filter (fun d => negb (N.eqb (vd_name d) 0)) (node_out_descs c)).
Proof. unfold tdefs. rewrite !map_app, !map_map. reflexivity. Qed.
Lemma node_names np vdf pns :
  (forall k, vd_name (vdf k) = k) ->
  map vd_name (filter (fun d => negb (N.eqb (vd_name d) 0)) (node_out_descs (mp_ns np (ntrees_of (map (mknode vdf) pns)))))
  = filter nz (flat_map pn_outs pns).
Proof.
  intros Hn.
  assert (E : forall k, vd_name (mp_vd np (outf vdf k)) = k).
  { intros k. unfold outf. destruct (N.eqb_spec k 0); subst; cbn; auto. }
  rewrite node_out_descs_mk, filter_map_comm, map_map. rewrite (filter_ext _ nz).
  - rewrite (map_ext _ (fun k => k)) by (intros; apply E). apply map_id.
  - intros k. rewrite E. reflexivity.
Qed.

Lemma wfs_f_ok np f F : (forall ns, P_ns np ns) -> pu_f f = Some F -> wfs_f (mp_f np F) = true.
Proof.
  intros Hns H. apply pu_f_inv in H. destruct H as (indefs & decl & lvl & pns & E0 & E1 & E2 & E3 & EF). subst F.
  destruct (indefs_ok _ _ _ E0) as [IA IB].
  destruct (pu_declare_ok _ _ _ _ _ E1) as (DA & DB & DC). cbn [map app] in DA. specialize (DB (NoDup_nil _)).
  destruct (pu_ns_ext _ _ _ _ _ _ E2) as [(P & EL & NP) ON]. subst lvl.
  set (inn := fp_ins f) in *. set (outn := fp_outs f) in *.
  set (defs0 := indefs ++ decl) in *. set (D := map fst defs0) in *.
  assert (ED : D = inn ++ map fst decl) by (unfold D, defs0; rewrite map_app, IA; auto).
  set (orefs := orefs_f (D ++ P) outn) in *.
  set (vd := vdf_f D defs0 orefs).
  assert (Vn : forall k, vd_name (vd k) = k).
  { intros k. unfold vd, vdf_f. destruct (index_last k D 0); reflexivity. }
  assert (HR : forall x, In x (map fst decl) -> ~ In x inn) by (intros x I; rewrite DA in I; apply (DC x I)).
  assert (HP' : forall x, In x P -> ~ In x (inn ++ map fst decl)) by (rewrite <- ED; exact NP).
  unfold build_f. cbv zeta. fold inn outn defs0 D orefs vd. cbn [mp_f wfs_f].
  set (insT := map (mp_vd np) (insf_t indefs orefs)).
  set (nodesT := mp_ns np (ntrees_of (map (mknode vd) pns))).
  assert (EI : map vd_name insT = inn).
  { unfold insT, insf_t. rewrite !map_map.
    rewrite (map_ext _ (fun jx : nat * (N * N) => fst (snd jx))) by (intros [j kp]; reflexivity).
    rewrite (map_cs_snd (fun kp : N * N => fst kp)). exact IA. }
  assert (EO : map (fun o : ref * N * bool => snd (fst o)) (map (fun o : ref * N => (fst o, snd o, true)) orefs) = outn).
  { unfold orefs, orefs_f. rewrite !map_map. cbn [fst snd]. apply map_id. }
  assert (ET : map fst (tdefs insT [] nodesT) = D).
  { rewrite tdefs_names. cbn [filter map app]. unfold nodesT. rewrite node_names by exact Vn.
    rewrite EI, ON, <- DA. auto. }
  assert (LI : length insT = length inn) by (rewrite <- EI, map_length; auto).
  assert (ES : skipn (length insT) D = map fst decl) by (rewrite LI, ED; apply skipn_len_app).
  rewrite ET, EI, EO, ES.
  (* inputs *)
  assert (C1 : wf2_ins inn outn insT 0 = true).
  { apply wf2_ins_intro. intros i d H. unfold insT, insf_t in H. rewrite map_map in H.
    apply nth_error_mcs in H. destruct H as (kp & Hy & E). subst d. cbn. split; auto.
    unfold orefs. rewrite flagf_flagn, ED. apply flagn_in; auto.
    rewrite <- IA. apply map_nth_error. auto. }
  assert (C2 : forallb (fun d => N.eqb (vd_pay d) (match vi_lookup (vd_name d) (flat_map fn_vi insT) with
                                                   | Some i => vi_pay i | None => 0%N end)) insT = true).
  { apply (fn_pay_ok (fun k => npay np (if N.eqb k 0 then 0%N else Pf (fp_vis f) k))); [reflexivity|].
    intros d I. unfold insT, insf_t in I. rewrite map_map in I. apply in_map_iff in I.
    destruct I as ([j kp] & E & I). subst d. cbn. apply in_combine_r in I. rewrite (IB kp I). reflexivity. }
  assert (C3 : nodup_N (map fst decl) = true) by (apply nodup_N_NoDup; auto).
  assert (C4 : forallb (fun k => negb (memN k inn)) (map fst decl) = true).
  { apply forallb_forall. intros k I. apply negb_true_iff. apply memN_nIn. auto. }
  assert (C5 : wfs_ns [] D outn nodesT = Some (D ++ P)).
  { apply (Hns (fp_nodes f) (fp_vis f) [] D (D ++ P) pns outn vd E2).
    intros k Z I.
    assert (ID : In k D).
    { rewrite ED, in_app_iff. right. rewrite DA. apply filter_In. split; auto.
      unfold nz. apply negb_true_iff. apply N.eqb_neq. auto. }
    destruct (index_last_In k D 0 ID) as [j E]. unfold vdf_ok, vd, vdf_f. rewrite E. cbn.
    split; [auto|split; auto]. unfold orefs. rewrite flagf_flagn. apply flagn_last; auto. }
  rewrite C1, C2, C3, C4, C5. cbn [andb].
  apply forallb_forall. intros o I. apply in_map_iff in I. destruct I as ([r k] & E & I). subst o. cbn [fst snd andb].
  rewrite forallb_forall in E3. pose proof (E3 _ I) as S. cbn [fst] in S. rewrite S. cbn [andb].
  unfold orefs, orefs_f in I. apply in_map_iff in I. destruct I as (k' & E & _). inversion E; subst.
  apply ref_eqb_refl.
Qed.

(* ------------------------------------------------------------------ the model *)
Lemma collect_ok : forall fs Fs,
  fold_right (fun f acc => obind acc (fun l => obind (pu_f f) (fun F => Some (F :: l)))) (Some []) fs = Some Fs ->
  forall F, In F Fs -> exists f, pu_f f = Some F.
Proof.
  induction fs as [|f r IH]; simpl; intros Fs H F I.
  - inversion H; subst. destruct I.
  - destruct (fold_right (fun f acc => obind acc (fun l => obind (pu_f f) (fun F => Some (F :: l)))) (Some []) r)
      as [l|] eqn:E; cbn [obind] in H; [|discriminate].
    destruct (pu_f f) as [F0|] eqn:EF; cbn [obind] in H; [|discriminate]. inversion H; subst.
    destruct I as [I|I]; [subst; eauto|]. eapply IH; eauto.
Qed.
Lemma fid_of_mp np F : fid_of (mp_f np F) = fid_of F.
Proof. destruct F; reflexivity. Qed.

Lemma punfold_wfs : punfold_wfs_spec.
Proof.
  intros np p M _ H. unfold pu_m in H.
  destruct (punfold_wfs_all np) as (Hg & Hns & _).
  destruct (pu_g [] (mp_graph p)) as [T|] eqn:ET; cbn [obind] in H; [|discriminate].
  destruct (fold_right (fun f acc => obind acc (fun l => obind (pu_f f) (fun F => Some (F :: l)))) (Some []) (mp_funcs p))
    as [Fs|] eqn:EF; cbn [obind] in H; [|discriminate].
  inversion H; subst. clear H.
  destruct (fdict_ok Fs) as [ND IN].
  unfold wfs_m, mp_m. cbn [mt_graph mt_funcs mt_tok].
  rewrite (Hg _ _ _ ET). cbn [andb]. apply andb_true_iff. split.
  - rewrite forallb_map. apply forallb_forall. intros F I. apply IN in I.
    destruct (collect_ok _ _ EF F I) as (f & Hf). eapply wfs_f_ok; eauto.
  - apply nodup_N_NoDup. rewrite map_map. rewrite (map_ext _ fid_of) by (intros; apply fid_of_mp). exact ND.
Qed.

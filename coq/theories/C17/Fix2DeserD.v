(* C17/Fix2DeserD.v — pre-realisation of nodes with threaded levels; from pre2 to real2. *)
From Coq Require Import NArith List Bool Arith Lia.
From IRV Require Import Base.Exn C03.Model C03.Canon C03.Inv C03.Tree C03.TreeF C03.IsoSpecs C17.Basics C17.Specs C17.Steps C17.Phases C17.OpNode C17.OpGraph C17.Deser C03.IsoDeserA C03.IsoDeserB C03.IsoDeserC C03.IsoDeserD C03.IsoDeserE C17.Tree2 C17.Fix2DeserA C17.Fix2DeserB C17.Fix2DeserC.
Import ListNotations.

Definition out_rel2 (Q : nat -> Prop) (h : heap) (tbl : table) (v : nat) (d : vdesc) : Prop :=
  if N.eqb (vd_name d) 0 then (Q v /\ v < nv h) /\ vdesc_of [] h v = d /\ d = empty_vd
  else In (vd_name d, v) tbl.

Definition pre2_n (Q : nat -> Prop) (h : heap) (outer : list (list nat)) (cur : list nat) (tbl : table) (n : nat) (t : ntree)
                  (cur1 : list nat) : Prop :=
  match t with
  | NBad => False
  | NT nname op ntok ins outs attrs =>
    exists y, getn h n = Some y /\ n_name y = Some nname /\ n_op y = op /\ n_tok y = ntok /\ n_graph y = None /\
      cur1 = add_frees outer cur (n_inputs y) /\
      map (in_desc h (cur1 :: outer)) (n_inputs y) = ins /\
      Forall2 (out_rel2 Q h tbl) (n_outputs y) outs /\
      (forall v, In (Some v) (n_inputs y) -> v < nv h) /\
      real2_as Q h (cur1 :: outer) (n_attrs y) attrs
  end.
Fixpoint pre2_ns (Q : nat -> Prop) (h : heap) (outer : list (list nat)) (cur : list nat) (tbl : table) (ns : list nat)
                 (Ts : ntrees) (lvl : list nat) {struct Ts} : Prop :=
  match Ts with
  | TNil => ns = [] /\ lvl = cur
  | TCons t r => match ns with
                 | [] => False
                 | n :: ns' => exists cur1, pre2_n Q h outer cur tbl n t cur1 /\ pre2_ns Q h outer cur1 tbl ns' r lvl
                 end
  end.

Lemma out_rel2_tbl Q h tbl tbl' v d : (forall kv, In kv tbl -> In kv tbl') -> out_rel2 Q h tbl v d -> out_rel2 Q h tbl' v d.
Proof. intros Hs. unfold out_rel2. destruct (N.eqb (vd_name d) 0); auto. Qed.
Lemma out_rel2_keeps Q h h' tbl v d : keepsP Q h h' -> out_rel2 Q h tbl v d -> out_rel2 Q h' tbl v d.
Proof.
  intros K. unfold out_rel2. destruct (N.eqb (vd_name d) 0); auto. intros ((A1 & A2) & B & C).
  assert (nv h <= nv h') by (destruct K as (E & _); destruct E as (E & _); auto).
  split; [split; [auto|lia]|]. split; auto.
  rewrite (vdesc_keepP Q h h' v K); auto.
Qed.
Lemma out_rel2_mono Q Q' h tbl v d : Qle h Q Q' -> out_rel2 Q h tbl v d -> out_rel2 Q' h tbl v d.
Proof. intros Hq. unfold out_rel2. destruct (N.eqb (vd_name d) 0); auto. intros ((A1 & A2) & B). split; auto. Qed.

Lemma nstep_keepsP Q names tbl h h' : nstep names tbl h h' -> keepsP Q h h'.
Proof. intros S. apply (keeps_keepsP 0); [intros; lia | eapply nstep_keeps; eauto]. Qed.

Lemma pre2_n_keeps Q tbl tbl' h h' outer cur n t cur1 :
  keepsP Q h h' -> (forall n y, getn h n = Some y -> getn h' n = Some y) -> (forall kv, In kv tbl -> In kv tbl') ->
  pre2_n Q h outer cur tbl n t cur1 -> pre2_n Q h' outer cur tbl' n t cur1.
Proof.
  intros K C Hs H. destruct t as [|nname op ntok ins outs attrs]; simpl in *; auto.
  destruct H as (y & Hy & H1 & H2 & H3 & H4 & Hc & H5 & H6 & H7 & H8).
  pose proof K as (E & _).
  assert (Hnv : nv h <= nv h') by (destruct E; auto).
  exists y. csplit; auto.
  - rewrite <- H5. apply map_ext_in. intros [v|] Hin; simpl; auto.
    destruct (vname_ext h h' v E (H7 _ Hin)) as (A & B & _). rewrite A, B. auto.
  - eapply Forall2_impl; [|exact H6]. intros v d Hr. eapply out_rel2_tbl; eauto. eapply out_rel2_keeps; eauto.
  - intros v Hv. specialize (H7 _ Hv). lia.
  - destruct real2_stable as (_ & _ & _ & Sa & _). eapply Sa; eauto.
Qed.
Lemma pre2_n_step Q names tbl0 tbl tbl' h h' outer cur n t cur1 :
  nstep names tbl0 h h' -> (forall kv, In kv tbl -> In kv tbl') ->
  pre2_n Q h outer cur tbl n t cur1 -> pre2_n Q h' outer cur tbl' n t cur1.
Proof.
  intros S. pose proof S as (_ & _ & C). apply pre2_n_keeps; auto. eapply nstep_keepsP; eauto.
Qed.
Lemma pre2_ns_step Q names tbl0 tbl tbl' h h' outer : nstep names tbl0 h h' -> (forall kv, In kv tbl -> In kv tbl') ->
  forall Ts cur ns lvl, pre2_ns Q h outer cur tbl ns Ts lvl -> pre2_ns Q h' outer cur tbl' ns Ts lvl.
Proof.
  intros S Hs. induction Ts as [|t r IH]; intros cur ns lvl H; [exact H|].
  destruct ns as [|n ns']; [exact H|]. destruct H as (cur1 & H1 & H2). exists cur1.
  split; [eapply pre2_n_step; eauto | apply IH; auto].
Qed.
Lemma pre2_n_mono Q Q' tbl h outer cur n t cur1 : Qle h Q Q' ->
  pre2_n Q h outer cur tbl n t cur1 -> pre2_n Q' h outer cur tbl n t cur1.
Proof.
  intros Hq H. destruct t as [|nname op ntok ins outs attrs]; simpl in *; auto.
  destruct H as (y & Hy & H1 & H2 & H3 & H4 & Hc & H5 & H6 & H7 & H8). exists y. csplit; auto.
  - eapply Forall2_impl; [|exact H6]. intros v d. apply out_rel2_mono; auto.
  - destruct real2_mono as (_ & _ & _ & Ma & _). eapply Ma; eauto.
Qed.
Lemma pre2_ns_mono Q Q' tbl h outer : Qle h Q Q' ->
  forall Ts cur ns lvl, pre2_ns Q h outer cur tbl ns Ts lvl -> pre2_ns Q' h outer cur tbl ns Ts lvl.
Proof.
  intros Hq. induction Ts as [|t r IH]; intros cur ns lvl H; [exact H|].
  destruct ns as [|n ns']; [exact H|]. destruct H as (cur1 & H1 & H2). exists cur1.
  split; [eapply pre2_n_mono; eauto | apply IH; auto].
Qed.

Lemma pre2_ns_nodes Q h outer tbl : forall Ts cur ns lvl, pre2_ns Q h outer cur tbl ns Ts lvl ->
  forall n, In n ns -> exists y, getn h n = Some y /\ n_graph y = None.
Proof.
  induction Ts as [|t r IH]; intros cur ns lvl H n Hin.
  - destruct H as (-> & _). destruct Hin.
  - destruct ns as [|m ns']; [destruct H|]. destruct H as (cur1 & Hn & Hr). destruct Hin as [<-|Hin]; [|eauto].
    destruct t; [destruct Hn|]. destruct Hn as (y & Hy & _ & _ & _ & Hg & _). eauto.
Qed.

Lemma pre2_real_n (Qb Q : nat -> Prop) h h' outer cur tbl n t cur1 :
  (forall v, Q v -> Qb v) -> keepsP Q h h' -> pre2_n Q h outer cur tbl n t cur1 ->
  (forall k v, In (k, v) tbl -> k <> 0%N -> (Qb v /\ v < nv h') /\ exists x, getv h' v = Some x /\ v_name x = Some k) ->
  (match t with
   | NBad => True
   | NT _ _ _ _ outs _ => no_trailing_empty outs = true /\
       forall d v, In d outs -> vd_name d <> 0%N -> In (vd_name d, v) tbl -> vdesc_of [] h' v = d
   end) ->
  real2_n Qb h' outer cur n t cur1.
Proof.
  intros Hb K H HT Hd. destruct t as [|nname op ntok ins outs attrs]; simpl in *; auto.
  destruct H as (y & Hy & H1 & H2 & H3 & H4 & Hc & H5 & H6 & H7 & H8). destruct Hd as (Hnt & Hd).
  pose proof K as (E & K').
  assert (Hnv : nv h <= nv h') by (destruct E; auto).
  pose proof E as (_ & _ & _ & _ & E5 & _). destruct (E5 _ _ Hy) as (y' & Hy' & Ef).
  apply nfix_inv in Ef. destruct Ef as (F1 & F2 & F3 & F4 & F5 & F6).
  assert (O' : Forall2 (out_rel2 Q h' tbl) (n_outputs y) outs).
  { eapply Forall2_impl; [|exact H6]. intros v d. apply out_rel2_keeps; auto. }
  assert (Ob : forall v, In v (n_outputs y) -> Qb v /\ v < nv h').
  { intros v Hv. destruct (Forall2_in_l _ _ _ _ O' Hv) as (d & Hdin & Hr). unfold out_rel2 in Hr.
    destruct (N.eqb_spec (vd_name d) 0) as [Hz|Hz].
    - destruct Hr as ((A1 & A2) & _). split; auto.
    - destruct (HT _ _ Hr Hz) as (A & _). auto. }
  assert (Od : Forall2 (fun v d => vdesc_of [] h' v = d) (n_outputs y) outs).
  { eapply Forall2_impl_In; [|exact O']. intros v d Hv Hdin Hr. unfold out_rel2 in Hr.
    destruct (N.eqb_spec (vd_name d) 0) as [Hz|Hz].
    - destruct Hr as (_ & A & _). auto.
    - apply Hd; auto. }
  assert (Tr : trim_outputs h' (n_outputs y) = n_outputs y).
  { unfold no_trailing_empty in Hnt. destruct (rev outs) as [|d ro] eqn:Er.
    - assert (outs = []) by (rewrite <- (rev_involutive outs), Er; auto). subst outs.
      inversion O'. reflexivity.
    - assert (Eo : outs = rev ro ++ [d]) by (rewrite <- (rev_involutive outs), Er; auto).
      rewrite Eo in O'. apply Forall2_app_inv_r in O'. destruct O' as (l1 & l2 & _ & F2' & El).
      inversion F2' as [|v ? ? l2' Hvd F2'']; subst. inversion F2''; subst. rewrite El.
      apply trim_last. unfold out_rel2 in Hvd. apply negb_true_iff in Hnt.
      rewrite Hnt in Hvd. destruct (N.eqb_spec (vd_name d) 0) as [|Hz]; [discriminate|].
      destruct (HT _ _ Hvd Hz) as (_ & x & Hx & Hn). exists x. split; auto. rewrite Hn. simpl.
      destruct (N.eqb_spec (vd_name d) 0); congruence. }
  exists y'. rewrite F1, F2, F3, F4, F5, F6, H1. csplit; auto.
  - rewrite <- H5. apply map_ext_in. intros [v|] Hin; simpl; auto.
    destruct (vname_ext h h' v E (H7 _ Hin)) as (A & B & _). rewrite A, B. auto.
  - rewrite Tr. apply Forall2_map_eq; auto.
  - intros v Hv. specialize (H7 _ Hv). lia.
  - destruct real2_stable as (_ & _ & _ & Sa & _). destruct real2_mono as (_ & _ & _ & Ma & _).
    eapply Ma; [|eapply Sa; eauto]. intros v _. apply Hb.
Qed.

Fixpoint all_nte (ns : ntrees) : Prop :=
  match ns with
  | TNil => True
  | TCons n r => (match n with NBad => False | NT _ _ _ _ outs _ => no_trailing_empty outs = true end) /\ all_nte r
  end.

Lemma pre2_real_ns (Qb Q : nat -> Prop) h h' outer tbl :
  (forall v, Q v -> Qb v) -> keepsP Q h h' ->
  (forall k v, In (k, v) tbl -> k <> 0%N -> (Qb v /\ v < nv h') /\ exists x, getv h' v = Some x /\ v_name x = Some k) ->
  forall Ts cur ns lvl, all_nte Ts -> pre2_ns Q h outer cur tbl ns Ts lvl ->
  (forall d v, In d (node_out_descs Ts) -> vd_name d <> 0%N -> In (vd_name d, v) tbl -> vdesc_of [] h' v = d) ->
  real2_ns Qb h' outer cur ns Ts lvl.
Proof.
  intros Hb K HT. induction Ts as [|t r IH]; intros cur ns lvl Hwf Hp Hd; [exact Hp|].
  destruct ns as [|n ns']; [exact Hp|]. destruct Hp as (cur1 & Hp1 & Hp2). destruct Hwf as (W1 & W2).
  destruct t as [|nname op ntok ins outs attrs]; [destruct W1|]. cbn [node_out_descs] in Hd.
  exists cur1. split.
  - eapply pre2_real_n; eauto. split; auto. intros d v Hin. apply Hd. apply in_or_app; auto.
  - apply IH; auto. intros d v Hin. apply Hd. apply in_or_app; auto.
Qed.

(* ---- what wf2_ns says about the node list, independently of the levels *)
Lemma wf2_n_inv outer cur outn nname op ntok ins outs attrs lvl :
  wf2_n outer cur outn (NT nname op ntok ins outs attrs) = Some lvl ->
  lvl = add_free_names outer cur ins /\ forallb (wf2_node_in (lvl :: outer)) ins = true /\
  forallb (wf_node_out outn) outs = true /\ no_trailing_empty outs = true /\ nodup_N (anames attrs) = true /\
  wf2_as (lvl :: outer) attrs = true.
Proof.
  cbn [wf2_n]. intros H.
  destruct (forallb (wf2_node_in (add_free_names outer cur ins :: outer)) ins && forallb (wf_node_out outn) outs &&
            no_trailing_empty outs && nodup_N (anames attrs) && wf2_as (add_free_names outer cur ins :: outer) attrs) eqn:E;
    [|discriminate].
  inversion H; subst lvl. bsplit. csplit; auto.
Qed.

Lemma wf2_ns_facts outer outn : forall ns cur lvl, wf2_ns outer cur outn ns = Some lvl ->
  all_nte ns /\ forall d, In d (node_out_descs ns) -> wf_node_out outn d = true.
Proof.
  induction ns as [|n r IH]; intros cur lvl H.
  - split; [exact I | intros d []].
  - cbn [wf2_ns] in H. destruct (wf2_n outer cur outn n) as [cur1|] eqn:En; [|discriminate].
    destruct n as [|nname op ntok ins outs attrs]; [discriminate|].
    destruct (wf2_n_inv _ _ _ _ _ _ _ _ _ _ En) as (_ & _ & A & B & _).
    destruct (IH _ _ H) as (C & D). split; [split; auto|].
    intros d Hd. cbn [node_out_descs] in Hd. apply in_app_or in Hd. destruct Hd as [Hd|Hd]; auto.
    rewrite forallb_forall in A. auto.
Qed.

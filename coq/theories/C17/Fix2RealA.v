(* C17/Fix2RealA.v — pure list / table lemmas for the proof of punfold_real (Fix2Real.v):
   association lists with duplicated keys (newest binding wins = index_last on the key list, oldest first),
   resolve2 vs lookup_scopes vs find_ref, tables that only grow by fresh names, dict_of vs adict,
   funcs_dict vs fdict_set, trim_outputs vs trim_names, folds used for the final payloads. *)
From Coq Require Import NArith List Bool Arith Lia.
From IRV Require Import Base.Exn C03.Model C03.Canon C03.Inv C03.Tree C03.TreeF C03.IsoDeserA C03.IsoDeserB
  C17.Basics C17.Specs C17.Steps C17.Phases C17.OpNode C17.OpGraph C17.Deser C17.Top C17.Tree2 C17.PUnfold C17.Fix2Defs.
Import ListNotations.

Arguments lookup : simpl never.
Arguments lookup_scopes : simpl never.

(* ------------------------------------------------------------------ misc lists *)
Lemma Forall2_imp {A B} (P Q : A -> B -> Prop) l1 l2 :
  (forall a b, P a b -> Q a b) -> Forall2 P l1 l2 -> Forall2 Q l1 l2.
Proof. intros H F. induction F; constructor; auto. Qed.
Lemma Forall2_imp_In {A B} (P Q : A -> B -> Prop) l1 l2 :
  (forall a b, In a l1 -> In b l2 -> P a b -> Q a b) -> Forall2 P l1 l2 -> Forall2 Q l1 l2.
Proof.
  intros H F. induction F; constructor.
  - apply H; auto; left; auto.
  - apply IHF. intros a b Ha Hb. apply H; right; auto.
Qed.
Lemma Forall2_flp {A B} (P : A -> B -> Prop) l1 l2 : Forall2 P l1 l2 -> Forall2 (fun b a => P a b) l2 l1.
Proof. induction 1; constructor; auto. Qed.
Lemma Forall2_len {A B} (P : A -> B -> Prop) l1 l2 : Forall2 P l1 l2 -> length l1 = length l2.
Proof. induction 1; simpl; auto. Qed.
Lemma Forall2_map_same {A B C} (f : A -> C) (g : B -> C) l1 l2 :
  Forall2 (fun a b => f a = g b) l1 l2 -> map f l1 = map g l2.
Proof. induction 1; simpl; congruence. Qed.
Lemma Forall2_conj {A B} (P Q : A -> B -> Prop) l1 l2 :
  Forall2 P l1 l2 -> Forall2 Q l1 l2 -> Forall2 (fun a b => P a b /\ Q a b) l1 l2.
Proof. intros F. induction F; intros G; inversion G; subst; constructor; auto. Qed.
Lemma Forall2_inl {A B} (P : A -> B -> Prop) l1 l2 a : Forall2 P l1 l2 -> In a l1 -> exists b, In b l2 /\ P a b.
Proof.
  induction 1 as [|x y l l' Hxy F IH]; intros Hin; [destruct Hin|]. destruct Hin as [<-|Hin].
  - exists y. split; auto. left; auto.
  - destruct (IH Hin) as (b & Hb & Hp). exists b. split; auto. right; auto.
Qed.
Lemma Forall2_inr {A B} (P : A -> B -> Prop) l1 l2 b : Forall2 P l1 l2 -> In b l2 -> exists a, In a l1 /\ P a b.
Proof.
  induction 1 as [|x y l l' Hxy F IH]; intros Hin; [destruct Hin|]. destruct Hin as [<-|Hin].
  - exists x. split; auto. left; auto.
  - destruct (IH Hin) as (a & Ha & Hp). exists a. split; auto. right; auto.
Qed.
Lemma Forall2_nth {A B} (P : A -> B -> Prop) l1 l2 : Forall2 P l1 l2 ->
  forall j a, nth_error l1 j = Some a -> exists b, nth_error l2 j = Some b /\ P a b.
Proof.
  induction 1 as [|x y l l' Hxy F IH]; intros [|j] a H; simpl in *; try discriminate.
  - inversion H; subst. eauto.
  - eauto.
Qed.
Lemma Forall2_nth_r {A B} (P : A -> B -> Prop) l1 l2 : Forall2 P l1 l2 ->
  forall j b, nth_error l2 j = Some b -> exists a, nth_error l1 j = Some a /\ P a b.
Proof.
  induction 1 as [|x y l l' Hxy F IH]; intros [|j] b H; simpl in *; try discriminate.
  - inversion H; subst. eauto.
  - eauto.
Qed.
Lemma Forall2_app_l {A B} (P : A -> B -> Prop) l1 l1' l2 l2' :
  Forall2 P l1 l2 -> Forall2 P l1' l2' -> Forall2 P (l1 ++ l1') (l2 ++ l2').
Proof. intros F G. induction F; simpl; auto. Qed.
Lemma Forall2_mapl {A A' B} (f : A -> A') (P : A' -> B -> Prop) l1 l2 :
  Forall2 (fun a b => P (f a) b) l1 l2 -> Forall2 P (map f l1) l2.
Proof. induction 1; simpl; constructor; auto. Qed.
Lemma Forall2_mapr {A B B'} (f : B -> B') (P : A -> B' -> Prop) l1 l2 :
  Forall2 (fun a b => P a (f b)) l1 l2 -> Forall2 P l1 (map f l2).
Proof. induction 1; simpl; constructor; auto. Qed.
Lemma Forall2_refl_map {A B} (f : A -> B) l : Forall2 (fun a b => b = f a) l (map f l).
Proof. induction l; simpl; constructor; auto. Qed.

(* map over positions *)
Lemma map_combine_seq {A B C} (f : A -> C) (g : nat * B -> C) : forall (l : list A) (l' : list B) s,
  length l = length l' ->
  (forall j a b, nth_error l j = Some a -> nth_error l' j = Some b -> f a = g (s + j, b)) ->
  map f l = map g (combine (seq s (length l')) l').
Proof.
  induction l as [|a l IH]; intros [|b l'] s Hl H; simpl in *; try discriminate; auto.
  f_equal.
  - rewrite (H 0 a b); auto. f_equal. f_equal. lia.
  - apply IH; [lia|]. intros j a' b' Ha Hb. rewrite (H (S j) a' b'); auto. f_equal. f_equal. lia.
Qed.

Lemma nth_error_app_l {A} (l l' : list A) j a : nth_error l j = Some a -> nth_error (l ++ l') j = Some a.
Proof. intros H. rewrite nth_error_app1; auto. apply nth_error_Some. congruence. Qed.

Lemma fold_left_map {A B C} (f : A -> B -> A) (g : C -> B) l a :
  fold_left f (map g l) a = fold_left (fun a x => f a (g x)) l a.
Proof. revert a; induction l; simpl; auto. Qed.
Lemma fold_left_ext_in {A B} (f g : A -> B -> A) l : (forall a x, In x l -> f a x = g a x) ->
  forall a, fold_left f l a = fold_left g l a.
Proof.
  induction l as [|x l IH]; intros H a; simpl; auto. rewrite H by (left; auto). apply IH. intros; apply H; right; auto.
Qed.
Lemma existsb_ext_in {A} (f g : A -> bool) l : (forall x, In x l -> f x = g x) -> existsb f l = existsb g l.
Proof. induction l as [|x l IH]; intros H; simpl; auto. rewrite H by (left; auto). f_equal. apply IH. intros; apply H; right; auto. Qed.

(* a "last assignment wins" fold: the result does not depend on the start value once one element matches *)
Lemma fold_sel_indep {B} (sel : B -> bool) (val : B -> N) l :
  existsb sel l = true -> forall p q, fold_left (fun acc o => if sel o then val o else acc) l p
                                     = fold_left (fun acc o => if sel o then val o else acc) l q.
Proof.
  induction l as [|o l IH]; simpl; intros H p q; [discriminate|].
  destruct (sel o) eqn:E; auto.
Qed.
Lemma fold_sel_none {B} (sel : B -> bool) (val : B -> N) l :
  existsb sel l = false -> forall p, fold_left (fun acc o => if sel o then val o else acc) l p = p.
Proof.
  induction l as [|o l IH]; simpl; intros H p; auto. apply orb_false_elim in H. destruct H as (H1 & H2).
  rewrite H1. auto.
Qed.

(* ------------------------------------------------------------------ lookup / index_last *)
Lemma lookup_app {A} k (a b : list (N * A)) :
  lookup k (a ++ b) = match lookup k a with Some v => Some v | None => lookup k b end.
Proof.
  induction a as [|[k' x] a IH]; cbn [app].
  - rewrite lookup_nil. auto.
  - rewrite !lookup_cons. destruct (N.eqb k k'); auto.
Qed.

Lemma index_last_None k l i : index_last k l i = None <-> ~ In k l.
Proof.
  revert i; induction l as [|y l IH]; intros i; simpl.
  - split; auto.
  - destruct (index_last k l (S i)) eqn:E.
    + split; [discriminate|]. intros H. exfalso. assert (Hn : ~ In k l) by (intros Hc; apply H; auto).
      apply (IH (S i)) in Hn. congruence.
    + apply IH in E. destruct (N.eqb_spec k y) as [->|Hn].
      * split; [discriminate | intros H; exfalso; apply H; auto].
      * split; auto. intros _ [Hc|Hc]; [congruence|auto].
Qed.
Lemma index_last_Some_in k l i j : index_last k l i = Some j -> In k l.
Proof.
  intros H. destruct (in_dec N.eq_dec k l) as [Hi|Hi]; auto. apply (index_last_None k l i) in Hi. congruence.
Qed.
Lemma index_last_ge k l : forall i j, index_last k l i = Some j -> i <= j.
Proof.
  induction l as [|y l IH]; intros i j H; simpl in H; [discriminate|].
  destruct (index_last k l (S i)) eqn:E.
  - inversion H; subst. apply IH in E. lia.
  - destruct (N.eqb k y); inversion H; subst; lia.
Qed.
Lemma index_last_nth k l : forall i j, index_last k l i = Some j -> nth_error l (j - i) = Some k.
Proof.
  induction l as [|y l IH]; intros i j H; simpl in H; [discriminate|].
  destruct (index_last k l (S i)) eqn:E.
  - inversion H; subst. pose proof (index_last_ge _ _ _ _ E). apply IH in E.
    replace (j - i) with (S (j - S i)) by lia. exact E.
  - destruct (N.eqb_spec k y); inversion H; subst. rewrite Nat.sub_diag. reflexivity.
Qed.
Lemma index_last_app_notin k l1 l2 i : ~ In k l2 -> index_last k (l1 ++ l2) i = index_last k l1 i.
Proof.
  revert i; induction l1 as [|y l1 IH]; intros i H; simpl.
  - apply index_last_None; auto.
  - rewrite IH; auto.
Qed.
Lemma index_last_app_in k l1 l2 i : In k l2 -> index_last k (l1 ++ l2) i = index_last k l2 (i + length l1).
Proof.
  revert i; induction l1 as [|y l1 IH]; intros i H; simpl.
  - rewrite Nat.add_0_r. auto.
  - rewrite IH; auto. replace (S i + length l1) with (i + S (length l1)) by lia.
    destruct (index_last k l2 (i + S (length l1))) eqn:E; auto. apply index_last_None in E. contradiction.
Qed.
Lemma index_last_lt k l i j : index_last k l i = Some j -> j < i + length l.
Proof.
  intros H. pose proof (index_last_ge _ _ _ _ H). apply index_last_nth in H.
  assert (j - i < length l) by (apply nth_error_Some; congruence). lia.
Qed.
Lemma index_last_single k l i : ~ In k l -> index_last k (l ++ [k]) i = Some (i + length l).
Proof.
  intros H. rewrite index_last_app_in by (left; auto). simpl. rewrite N.eqb_refl. auto.
Qed.

(* the newest binding of k in a table = the last occurrence of k in the keys (oldest first) *)
Lemma ilast_spec (l : table) k : forall i,
  match index_last k (map fst l) i with
  | Some j => i <= j /\ exists v, lookup k (rev l) = Some v /\ nth_error (map snd l) (j - i) = Some v
  | None => lookup k (rev l) = None
  end.
Proof.
  induction l as [|[k0 v0] l IH]; intros i; simpl.
  - rewrite lookup_nil. auto.
  - rewrite lookup_app. specialize (IH (S i)). revert IH. destruct (index_last k (map fst l) (S i)) as [j|]; intros IH.
    + destruct IH as (Hl & v & Hv & Hn). split; [lia|]. exists v. rewrite Hv. split; auto.
      replace (j - i) with (S (j - S i)) by lia. exact Hn.
    + rewrite IH. rewrite lookup_cons, lookup_nil. destruct (N.eqb k k0).
      * split; auto. exists v0. rewrite Nat.sub_diag. auto.
      * auto.
Qed.
Lemma lookup_ilast (t : table) k :
  match index_last k (nms t) 0 with
  | Some j => exists v, lookup k t = Some v /\ nth_error (ids t) j = Some v
  | None => lookup k t = None
  end.
Proof.
  pose proof (ilast_spec (rev t) k 0) as H. rewrite rev_involutive in H. unfold nms, ids.
  revert H. destruct (index_last k (map fst (rev t)) 0) as [j|]; intros H; auto.
  destruct H as (_ & v & Hv & Hn). rewrite Nat.sub_0_r in Hn. eauto.
Qed.
Lemma lookup_none_ilast (t : table) k : lookup k t = None <-> index_last k (nms t) 0 = None.
Proof.
  pose proof (lookup_ilast t k) as H. revert H. destruct (index_last k (nms t) 0) as [j|]; intros H.
  - destruct H as (v & Hv & _). split; congruence.
  - split; auto.
Qed.
Lemma lookup_some_ilast (t : table) k v : lookup k t = Some v ->
  exists j, index_last k (nms t) 0 = Some j /\ nth_error (ids t) j = Some v.
Proof.
  intros H. pose proof (lookup_ilast t k) as G. destruct (index_last k (nms t) 0) as [j|].
  - destruct G as (v' & Hv' & Hn). exists j. split; auto. congruence.
  - congruence.
Qed.
Lemma lookup_none_nms (t : table) k : lookup k t = None <-> ~ In k (nms t).
Proof. rewrite lookup_none_ilast. apply index_last_None. Qed.
Lemma lookup_some_nms (t : table) k : lookup k t <> None <-> In k (nms t).
Proof.
  destruct (lookup k t) eqn:E.
  - split; [|congruence]. intros _. apply In_nms. exists n. apply lookup_In; auto.
  - apply lookup_none_nms in E. split; [congruence|contradiction].
Qed.
Lemma ids_length t : length (ids t) = length t.
Proof. unfold ids. rewrite map_length, rev_length. auto. Qed.
Lemma nms_length t : length (nms t) = length t.
Proof. unfold nms. rewrite map_length, rev_length. auto. Qed.
Lemma nms_app a b : nms (a ++ b) = nms b ++ nms a.
Proof. unfold nms. rewrite rev_app_distr, map_app. auto. Qed.
Lemma ids_app a b : ids (a ++ b) = ids b ++ ids a.
Proof. unfold ids. rewrite rev_app_distr, map_app. auto. Qed.
Lemma In_lookup_ids (t : table) k v : lookup k t = Some v -> In v (ids t).
Proof. intros H. apply In_ids. exists k. apply lookup_In; auto. Qed.

(* ------------------------------------------------------------------ index_nat / find_ref *)
Lemma index_nat_nth v l : NoDup l -> forall j i, nth_error l j = Some v -> index_nat v l i = Some (i + j).
Proof.
  intros Hnd. induction Hnd as [|y l Hy Hnd IH]; intros j i H; [destruct j; discriminate|].
  simpl. destruct j as [|j]; simpl in H.
  - inversion H; subst. rewrite Nat.eqb_refl. f_equal; lia.
  - destruct (Nat.eqb_spec v y) as [->|Hn].
    + exfalso. apply Hy. eapply nth_error_In; eauto.
    + rewrite (IH j (S i) H). f_equal; lia.
Qed.
Lemma index_nat_app_l v l l' i : In v l -> index_nat v (l ++ l') i = index_nat v l i.
Proof.
  revert i; induction l as [|y l IH]; intros i H; simpl; [destruct H|].
  destruct (Nat.eqb_spec v y) as [->|Hn]; auto. destruct H as [H|H]; [congruence|]. apply IH; auto.
Qed.
Lemma index_nat_app_notin v l l' i : ~ In v l' -> index_nat v (l ++ l') i = index_nat v l i.
Proof.
  revert i; induction l as [|y l IH]; intros i H; simpl.
  - apply index_nat_None; auto.
  - destruct (Nat.eqb v y); auto.
Qed.
Lemma index_nat_new v l i : ~ In v l -> index_nat v (l ++ [v]) i = Some (i + length l).
Proof.
  revert i; induction l as [|y l IH]; intros i H; simpl.
  - rewrite Nat.eqb_refl. f_equal; lia.
  - destruct (Nat.eqb_spec v y) as [->|Hn]; [exfalso; apply H; left; auto|].
    rewrite IH by (intros Hc; apply H; right; auto). f_equal; lia.
Qed.
Lemma index_nat_Some_in v l i j : index_nat v l i = Some j -> In v l.
Proof.
  intros H. destruct (in_dec Nat.eq_dec v l) as [Hi|Hi]; auto. apply (index_nat_None v l i) in Hi. congruence.
Qed.

Lemma find_ref_None v : forall chain d, find_ref v chain d = None <-> forall l, In l chain -> ~ In v l.
Proof.
  induction chain as [|D r IH]; intros d; simpl.
  - split; auto; intros _ l [].
  - destruct (index_nat v D 0) eqn:E.
    + split; [discriminate|]. intros H. exfalso. apply (H D); auto. eapply index_nat_Some_in; eauto.
    + apply index_nat_None in E. rewrite IH. split.
      * intros H l [<-|Hl]; auto.
      * intros H l Hl. apply H; auto.
Qed.
Lemma find_ref_Some_ex v : forall chain d r, find_ref v chain d = Some r -> exists l, In l chain /\ In v l.
Proof.
  induction chain as [|D rr IH]; intros d r H; simpl in H; [discriminate|].
  destruct (index_nat v D 0) eqn:E.
  - exists D. split; [left; auto|]. eapply index_nat_Some_in; eauto.
  - destruct (IH _ _ H) as (l & Hl & Hv). exists l. split; auto. right; auto.
Qed.
Lemma in_chain_true v chain : in_chain v chain = true <-> exists l, In l chain /\ In v l.
Proof.
  unfold in_chain. destruct (find_ref v chain 0) eqn:E; simpl.
  - split; auto. intros _. eapply find_ref_Some_ex; eauto.
  - pose proof (proj1 (find_ref_None v chain 0) E) as E'. split; [discriminate|]. intros (l & Hl & Hv). exfalso. eapply E'; eauto.
Qed.
Lemma in_chain_false v chain : in_chain v chain = false <-> forall l, In l chain -> ~ In v l.
Proof.
  split.
  - intros H l Hl Hv. assert (in_chain v chain = true) by (apply in_chain_true; eauto). congruence.
  - intros H. destruct (in_chain v chain) eqn:E; auto. apply in_chain_true in E. destruct E as (l & Hl & Hv).
    exfalso. eapply H; eauto.
Qed.
(* growing the innermost level by values different from v does not move v *)
Lemma find_ref_grow v l l' ch d : ~ In v l' -> find_ref v ((l ++ l') :: ch) d = find_ref v (l :: ch) d.
Proof. intros H. simpl. rewrite index_nat_app_notin; auto. Qed.
Lemma find_ref_new v l l' ch d : ~ In v l -> find_ref v ((l ++ v :: l') :: ch) d = Some (d, length l).
Proof.
  intros H. simpl. replace (l ++ v :: l') with ((l ++ [v]) ++ l') by (rewrite <- app_assoc; auto).
  rewrite index_nat_app_l by (apply in_or_app; right; left; auto). rewrite index_nat_new; auto.
Qed.

(* ------------------------------------------------------------------ scope chains with duplicated keys *)
Fixpoint chain_ok2 (sc : list table) : Prop :=
  match sc with
  | [] => True
  | t :: r => NoDup (ids t) /\ (forall k v, In (k, v) t -> forall t' k', In t' r -> ~ In (k', v) t') /\ chain_ok2 r
  end.

Lemma lookup_scopes_cons k t sc :
  lookup_scopes k (t :: sc) = match lookup k t with Some v => Some v | None => lookup_scopes k sc end.
Proof. reflexivity. Qed.
Lemma lookup_scopes_nil k : lookup_scopes k [] = None.
Proof. reflexivity. Qed.

Lemma find_resolve2 : forall sc k v d,
  chain_ok2 sc -> lookup_scopes k sc = Some v ->
  find_ref v (map ids sc) d = resolve2 k (map nms sc) d /\ resolve2 k (map nms sc) d <> None.
Proof.
  induction sc as [|t r IH]; intros k v d Hc Hl; [rewrite lookup_scopes_nil in Hl; discriminate|].
  rewrite lookup_scopes_cons in Hl. destruct Hc as (H2 & H3 & H4). simpl.
  pose proof (lookup_ilast t k) as Hi. revert Hi. destruct (index_last k (nms t) 0) as [j|]; intros Hi.
  - destruct Hi as (v' & Hv' & Hn). rewrite Hv' in Hl. inversion Hl; subst v'.
    rewrite (index_nat_nth v (ids t) H2 j 0 Hn). split; [auto|discriminate].
  - rewrite Hi in Hl.
    assert (Hv : index_nat v (ids t) 0 = None).
    { apply index_nat_None. rewrite In_ids. intros (k' & Hk').
      destruct (lookup_scopes_In _ _ _ Hl) as (t' & Ht' & Hin'). eapply (H3 _ _ Hk'); eauto. }
    rewrite Hv. apply IH; auto.
Qed.
Lemma resolve2_none : forall sc k d, lookup_scopes k sc = None -> resolve2 k (map nms sc) d = None.
Proof.
  induction sc as [|t r IH]; intros k d H; simpl; auto.
  rewrite lookup_scopes_cons in H. destruct (lookup k t) eqn:E; [discriminate|].
  apply lookup_none_ilast in E. rewrite E. auto.
Qed.
Lemma resolve2_one k L d : resolve2 k [L] d = match index_last k L 0 with Some j => Some (d, j) | None => None end.
Proof. simpl. destruct (index_last k L 0); auto. Qed.

(* position of a value of the level vs resolution of a name in the level *)
Lemma look_pos t k j u : NoDup (ids t) -> nth_error (ids t) j = Some u ->
  (match lookup k t with Some w => Nat.eqb w u | None => false end) =
  (match resolve2 k [nms t] 0 with Some (_, j') => Nat.eqb j j' | None => false end).
Proof.
  intros Hnd Hu. rewrite resolve2_one. pose proof (lookup_ilast t k) as G.
  destruct (index_last k (nms t) 0) as [j'|].
  - destruct G as (v & Hv & Hn). rewrite Hv. destruct (Nat.eqb_spec j j') as [->|Hj].
    + assert (v = u) by congruence. subst. apply Nat.eqb_refl.
    + destruct (Nat.eqb_spec v u) as [->|]; auto. exfalso. apply Hj.
      pose proof (index_nat_nth u (ids t) Hnd j 0 Hu) as E1. pose proof (index_nat_nth u (ids t) Hnd j' 0 Hn) as E2.
      rewrite E1 in E2. inversion E2; auto.
  - rewrite G. auto.
Qed.

(* ------------------------------------------------------------------ tables that grow by fresh names / fresh values *)
Definition grows (n : nat) (cur cur' : table) : Prop :=
  exists pl, cur' = pl ++ cur /\ forall k v, In (k, v) pl -> n <= v /\ lookup k cur = None.

Lemma grows_refl n cur : grows n cur cur.
Proof. exists []. split; auto. intros k v []. Qed.
Lemma grows_cons n cur k v : n <= v -> lookup k cur = None -> grows n cur ((k, v) :: cur).
Proof. intros H1 H2. exists [(k, v)]. split; auto. intros k' v' [E|[]]. inversion E; subst. auto. Qed.
Lemma grows_trans n n' c0 c1 c2 : grows n c0 c1 -> grows n' c1 c2 -> n <= n' -> grows n c0 c2.
Proof.
  intros (p1 & -> & H1) (p2 & -> & H2) Hn. exists (p2 ++ p1). split; [rewrite app_assoc; auto|].
  intros k v Hin. apply in_app_or in Hin. destruct Hin as [Hin|Hin]; auto.
  destruct (H2 _ _ Hin) as (A & B). split; [lia|]. rewrite lookup_app in B. destruct (lookup k p1); [discriminate|auto].
Qed.
Lemma grows_weaken n n' c0 c1 : grows n c0 c1 -> n' <= n -> grows n' c0 c1.
Proof. intros (p & -> & H) Hn. exists p. split; auto. intros k v Hin. destruct (H _ _ Hin). split; auto; lia. Qed.
Lemma grows_lookup n c0 c1 k v : grows n c0 c1 -> lookup k c0 = Some v -> lookup k c1 = Some v.
Proof.
  intros (p & -> & H) Hl. rewrite lookup_app. destruct (lookup k p) as [w|] eqn:E; auto.
  apply lookup_In in E. destruct (H _ _ E) as (_ & B). congruence.
Qed.
Lemma grows_in n c0 c1 kv : grows n c0 c1 -> In kv c0 -> In kv c1.
Proof. intros (p & -> & H) Hin. apply in_or_app; auto. Qed.
Lemma grows_inv n c0 c1 k v : grows n c0 c1 -> In (k, v) c1 -> In (k, v) c0 \/ n <= v.
Proof. intros (p & -> & H) Hin. apply in_app_or in Hin. destruct Hin as [Hin|Hin]; auto. right. apply (H _ _ Hin). Qed.
Lemma grows_ids n c0 c1 : grows n c0 c1 -> exists e, ids c1 = ids c0 ++ e /\ forall v, In v e -> n <= v.
Proof.
  intros (p & -> & H). exists (ids p). split; [apply ids_app|]. intros v Hv. apply In_ids in Hv. destruct Hv as (k & Hk).
  apply (H _ _ Hk).
Qed.
Lemma grows_nms n c0 c1 : grows n c0 c1 -> exists e, nms c1 = nms c0 ++ e /\ forall k, In k e -> ~ In k (nms c0).
Proof.
  intros (p & -> & H). exists (nms p). split; [apply nms_app|]. intros k Hk. apply In_nms in Hk. destruct Hk as (v & Hv).
  apply lookup_none_nms. apply (H _ _ Hv).
Qed.
(* names already bound keep their level position *)
Lemma grows_index n c0 c1 k : grows n c0 c1 -> In k (nms c0) -> index_last k (nms c1) 0 = index_last k (nms c0) 0.
Proof.
  intros G Hk. destruct (grows_nms _ _ _ G) as (e & -> & He). apply index_last_app_notin.
  intros Hc. apply (He _ Hc); auto.
Qed.

(* ------------------------------------------------------------------ dict_of vs adict *)
Lemma dict_set_adict (R : name * attr -> atree -> Prop) :
  (forall x t, R x t -> fst x = aname t) ->
  forall k a t acc accT, R (k, a) t -> Forall2 R acc accT -> Forall2 R (dict_set k a acc) (adict_set t accT).
Proof.
  intros HR k a t acc accT Hkt F. induction F as [|[k' a'] b l l' Hb F IH]; simpl.
  - constructor; auto.
  - pose proof (HR _ _ Hkt) as E1. pose proof (HR _ _ Hb) as E2. simpl in E1, E2. rewrite <- E1, <- E2.
    destruct (N.eqb k k'); constructor; auto.
Qed.
Lemma dict_of_adict (R : name * attr -> atree -> Prop) :
  (forall x t, R x t -> fst x = aname t) ->
  forall l ts, Forall2 R l ts -> forall acc accT, Forall2 R acc accT ->
    Forall2 R (dict_of acc l) (fold_left (fun a t => adict_set t a) ts accT).
Proof.
  intros HR l ts F. induction F as [|[k a] t l ts Hkt F IH]; intros acc accT G; simpl; auto.
  apply IH. eapply dict_set_adict; eauto.
Qed.
Lemma dict_adict (R : name * attr -> atree -> Prop) l ts :
  (forall x t, R x t -> fst x = aname t) -> Forall2 R l ts -> Forall2 R (dict_of [] l) (adict ts).
Proof. intros HR F. unfold adict. apply dict_of_adict; auto. Qed.

(* ------------------------------------------------------------------ funcs_dict vs fdict_set *)
Definition fput (f : func) : list func -> list func :=
  fix put (a : list func) : list func :=
    match a with
    | [] => [f]
    | x :: t => if N.eqb (f_id x) (f_id f) then f :: t else x :: put t
    end.
Lemma fput_nil f : fput f [] = [f].
Proof. reflexivity. Qed.
Lemma fput_cons f x t : fput f (x :: t) = if N.eqb (f_id x) (f_id f) then f :: t else x :: fput f t.
Proof. reflexivity. Qed.
Lemma funcs_dict_cons acc f r : funcs_dict acc (f :: r) = funcs_dict (fput f acc) r.
Proof. reflexivity. Qed.
Lemma fput_fdict (R : func -> ftree -> Prop) :
  (forall f F, R f F -> f_id f = fid_of F) ->
  forall f F acc accF, R f F -> Forall2 R acc accF -> Forall2 R (fput f acc) (fdict_set F accF).
Proof.
  intros HR f F acc accF HfF G. induction G as [|x G0 l l' Hx G IH]; [rewrite fput_nil | rewrite fput_cons]; simpl.
  - constructor; auto.
  - rewrite (HR _ _ HfF), (HR _ _ Hx). destruct (N.eqb (fid_of G0) (fid_of F)); constructor; auto.
Qed.
Lemma funcs_dict_fdict (R : func -> ftree -> Prop) :
  (forall f F, R f F -> f_id f = fid_of F) ->
  forall fs Fs, Forall2 R fs Fs -> forall acc accF, Forall2 R acc accF ->
    Forall2 R (funcs_dict acc fs) (fold_left (fun a F => fdict_set F a) Fs accF).
Proof.
  intros HR fs Fs F. induction F as [|f F0 fs Fs HfF F IH]; intros acc accF G; [exact G|].
  rewrite funcs_dict_cons. cbn [fold_left]. apply IH. eapply fput_fdict; eauto.
Qed.

(* ------------------------------------------------------------------ trim_outputs vs trim_names *)
Lemma trim_Forall2 h (R : nat -> N -> Prop) vs ks :
  Forall2 (fun v k => R v k /\ exists x, getv h v = Some x /\ v_name x = Some k) vs ks ->
  Forall2 R (trim_outputs h vs) (trim_names ks).
Proof.
  induction 1 as [|v k vs ks (Hr & x & Hx & Hn) F IH]; simpl; [constructor|].
  destruct (trim_outputs h vs) as [|a l] eqn:E1; destruct (trim_names ks) as [|b l'] eqn:E2; inversion IH; subst.
  - rewrite Hx, Hn. simpl. destruct (N.eqb k 0); constructor; auto.
  - constructor; auto.
Qed.

(* ------------------------------------------------------------------ initializers: the names that are processed *)
Fixpoint pnames (ts : list tproto) : list N :=
  match ts with
  | [] => []
  | t :: r => if N.eqb (tp_name t) 0 then pnames r
              else if existsb (fun t' => N.eqb (tp_name t') (tp_name t)) r then pnames r
              else tp_name t :: pnames r
  end.
Lemma existsb_name_In k (r : list tproto) : existsb (fun t' => N.eqb (tp_name t') k) r = true <-> In k (map tp_name r).
Proof.
  rewrite existsb_exists, in_map_iff. split; intros (t & A & B).
  - apply N.eqb_eq in B. eauto.
  - exists t. split; auto. apply N.eqb_eq; auto.
Qed.
Lemma pnames_in k ts : In k (pnames ts) -> In k (map tp_name ts) /\ k <> 0%N.
Proof.
  induction ts as [|t r IH]; simpl; intros H; [destruct H|].
  destruct (N.eqb_spec (tp_name t) 0) as [Hz|Hz]; [destruct (IH H); auto|].
  destruct (existsb _ r); [destruct (IH H); auto|]. destruct H as [<-|H]; [auto|destruct (IH H); auto].
Qed.
Lemma pnames_nodup ts : NoDup (pnames ts).
Proof.
  induction ts as [|t r IH]; simpl; [constructor|].
  destruct (N.eqb (tp_name t) 0); auto. destruct (existsb _ r) eqn:E; auto. constructor; auto.
  intros Hin. apply pnames_in in Hin. destruct Hin as (Hin & _). apply existsb_name_In in Hin. congruence.
Qed.
Lemma irec_update_none k t recs : ~ In k (map ir_name recs) -> irec_update k t recs = None.
Proof.
  induction recs as [|r recs IH]; simpl; intros H; auto.
  destruct (N.eqb_spec (ir_name r) k) as [E|E]; [exfalso; apply H; auto|]. rewrite IH; auto.
Qed.

(* ------------------------------------------------------------------ association lists read through look *)
(* the values of a segment of keys that are not rebound later *)
Lemma lookup_rev_mid (A B C : table) k v :
  In (k, v) B -> NoDup (map fst B) -> ~ In k (map fst C) -> lookup k (rev (A ++ B ++ C)) = Some v.
Proof.
  intros Hin Hnd Hc. rewrite !rev_app_distr, !lookup_app.
  assert (E1 : lookup k (rev C) = None).
  { apply lookup_None. rewrite map_rev. intros H. apply in_rev in H. contradiction. }
  rewrite E1.
  assert (E2 : lookup k (rev B) = Some v).
  { apply In_lookup; [rewrite map_rev; apply NoDup_rev'; auto | apply in_rev in Hin; auto]. }
  rewrite E2. auto.
Qed.

Lemma Forall2_eq_map {A B} (f : A -> B) l l' : Forall2 (fun a b => b = f a) l l' -> l' = map f l.
Proof. induction 1; simpl; congruence. Qed.
Lemma nth_error_map_inv {A B} (f : A -> B) l j b : nth_error (map f l) j = Some b -> exists a, nth_error l j = Some a /\ f a = b.
Proof.
  rewrite nth_error_map. destruct (nth_error l j) as [a|]; simpl; intros H; [|discriminate]. inversion H. eauto.
Qed.
Lemma nth_ids_inv (t : table) j v : nth_error (ids t) j = Some v ->
  exists k, nth_error (nms t) j = Some k /\ In (k, v) t.
Proof.
  unfold ids, nms. intros H. apply nth_error_map_inv in H. destruct H as ([k v'] & Hn & E). simpl in E. subst v'.
  exists k. split; [rewrite nth_error_map, Hn; auto|]. apply in_rev. eapply nth_error_In; eauto.
Qed.

(* C17/Basics.v — list/heap lemmas and the frame relation used by the proofs of C17_consistent. *)
From Coq Require Import NArith List Bool Arith Lia.
From IRV Require Import Base.Exn C03.Model C03.Inv.
Import ListNotations.

Lemma upd_length {A} (l : list A) i f : length (upd l i f) = length l.
Proof. revert i; induction l as [|x l IH]; intros [|i]; simpl; auto. Qed.

Lemma nth_error_upd_eq {A} (l : list A) i f x :
  nth_error l i = Some x -> nth_error (upd l i f) i = Some (f x).
Proof. revert i; induction l as [|y l IH]; intros [|i] H; simpl in *; try discriminate; auto. congruence. Qed.

Lemma nth_error_upd_neq {A} (l : list A) i j f : i <> j -> nth_error (upd l i f) j = nth_error l j.
Proof.
  revert i j; induction l as [|y l IH]; intros [|i] [|j] H; simpl; auto; try congruence.
Qed.

Lemma nth_error_upd {A} (l : list A) i j f :
  nth_error (upd l i f) j = if Nat.eqb i j then option_map f (nth_error l j) else nth_error l j.
Proof.
  destruct (Nat.eqb_spec i j) as [->|Hn].
  - destruct (nth_error l j) eqn:E; simpl.
    + apply nth_error_upd_eq; auto.
    + apply nth_error_None. rewrite upd_length. apply nth_error_None; auto.
  - apply nth_error_upd_neq; auto.
Qed.

Lemma nth_error_app_new {A} (l : list A) x : nth_error (l ++ [x]) (length l) = Some x.
Proof. rewrite nth_error_app2 by lia. rewrite Nat.sub_diag. reflexivity. Qed.

Lemma nth_error_app_old {A} (l : list A) x i : i < length l -> nth_error (l ++ [x]) i = nth_error l i.
Proof. intros. apply nth_error_app1; auto. Qed.

Lemma nth_error_app_inv {A} (l : list A) x i y :
  nth_error (l ++ [x]) i = Some y -> (i < length l /\ nth_error l i = Some y) \/ (i = length l /\ y = x).
Proof.
  intros H. destruct (Nat.lt_ge_cases i (length l)) as [Hl|Hl].
  - left. split; auto. rewrite nth_error_app1 in H; auto.
  - right. rewrite nth_error_app2 in H by lia.
    destruct (i - length l) as [|k] eqn:E; simpl in H.
    + split; [lia | congruence].
    + destruct k; discriminate.
Qed.

Lemma getv_lt h v x : getv h v = Some x -> v < nv h.
Proof. intros H. apply nth_error_Some. unfold getv in H. congruence. Qed.
Lemma getn_lt h n y : getn h n = Some y -> n < nn h.
Proof. intros H. apply nth_error_Some. unfold getn in H. congruence. Qed.
Lemma getg_lt h g z : getg h g = Some z -> g < ngr h.
Proof. intros H. apply nth_error_Some. unfold getg in H. congruence. Qed.
Lemma getv_some h v : v < nv h -> exists x, getv h v = Some x.
Proof. intros H. unfold getv, nv in *. destruct (nth_error (hv h) v) eqn:E; eauto. apply nth_error_None in E. lia. Qed.

(* the fields of a value the invariant talks about *)
Definition vcore (x : value) := (v_name x, v_prod x, v_uses x, v_owner x, v_in x, v_out x, v_init x).
(* ... and those that no later step of the deserializer changes for an existing value, except by
   Node()/Graph() acting on the values of the scope being built *)
Definition vstable (x : value) := (v_name x, v_prod x, v_owner x, v_in x, v_out x, v_init x).

(* frame b h h': the heap only grew, and values older than b kept name/producer/owner/flags *)
Definition frame (b : nat) (h h' : heap) : Prop :=
  nv h <= nv h' /\ nn h <= nn h' /\ ngr h <= ngr h' /\
  forall v x, v < b -> getv h v = Some x -> exists x', getv h' v = Some x' /\ vstable x' = vstable x.

Lemma frame_refl b h : frame b h h.
Proof. repeat split; auto. intros v x _ H. eauto. Qed.

Lemma frame_trans b h1 h2 h3 : frame b h1 h2 -> frame b h2 h3 -> frame b h1 h3.
Proof.
  intros (A1 & A2 & A3 & A4) (B1 & B2 & B3 & B4). repeat split; try lia.
  intros v x Hv H. destruct (A4 v x Hv H) as (x' & H' & E'). destruct (B4 v x' Hv H') as (x'' & H'' & E'').
  exists x''. split; auto. congruence.
Qed.

Lemma frame_weaken b b' h h' : b' <= b -> frame b h h' -> frame b' h h'.
Proof. intros Hb (A1 & A2 & A3 & A4). repeat split; auto. intros v x Hv. apply A4. lia. Qed.

(* C17/Fix2DeserE.v — statements of the mutual induction for deser2 (graphs) and its node / attribute cases. *)
From Coq Require Import NArith List Bool Arith Lia.
From IRV Require Import Base.Exn C03.Model C03.Canon C03.Inv C03.Tree C03.TreeF C03.IsoSpecs C17.Basics C17.Specs C17.Steps C17.Phases C17.OpNode C17.OpGraph C17.Deser C03.IsoDeserA C03.IsoDeserB C03.IsoDeserC C03.IsoDeserD C03.IsoDeserE C17.Tree2 C17.Fix2DeserA C17.Fix2DeserB C17.Fix2DeserC C17.Fix2DeserD.
Import ListNotations.

Arguments alloc_value : simpl never.
Arguments new_node : simpl never.
Arguments new_graph : simpl never.
Arguments lookup_scopes : simpl never.
Arguments lookup : simpl never.

Definition P2G (T : gtree) : Prop := forall nsc sc h,
  chain_ok2 sc -> SC h sc -> map nms sc = nsc -> wf2_g nsc T = true ->
  exists h' gid, deser_graph (t2p_g T) sc h = Ok (h', gid) /\ nested h h' /\ ngr h' = S gid /\
                 real2_g (fun v => nv h <= v) h' (map ids sc) gid T /\ depth_g T + ngr h <= ngr h'.
Definition P2Gs (Ts : gtrees) : Prop := forall nsc sc h,
  chain_ok2 sc -> SC h sc -> map nms sc = nsc -> wf2_gs nsc Ts = true ->
  exists h' gl, deser_graphs (t2p_gs Ts) sc h = Ok (h', gl) /\ nested h h' /\ real2_gs (fun v => nv h <= v) h' (map ids sc) gl Ts /\
                depth_gs Ts + ngr h <= ngr h'.
Definition P2A (a : atree) : Prop := forall nsc sc h,
  chain_ok2 sc -> SC h sc -> map nms sc = nsc -> wf2_a nsc a = true ->
  exists h' x, deser_attr (t2p_a a) sc h = Ok (h', x) /\ nested h h' /\ real2_a (fun v => nv h <= v) h' (map ids sc) x a /\
               fst x = aname a /\ depth_a a + ngr h <= ngr h'.
Definition P2As (al : atrees) : Prop := forall nsc sc h,
  chain_ok2 sc -> SC h sc -> map nms sc = nsc -> nodup_N (anames al) = true -> wf2_as nsc al = true ->
  exists h' l, deser_attrs (t2p_as al) sc h = Ok (h', l) /\ nested h h' /\ real2_as (fun v => nv h <= v) h' (map ids sc) l al /\
               map fst l = anames al /\ depth_as al + ngr h <= ngr h'.
Definition P2N (t : ntree) : Prop := forall b (I : N -> N -> Prop) outer outn sc cur vis h lo lvl,
  chain_ok2 (cur :: sc) -> SC h sc -> map nms sc = outer -> wf2_n outer (nms cur) outn t = Some lvl ->
  TQ b I h cur -> lo <= nv h -> b <= nv h -> (forall k, ~ In k (nms cur) -> I k 0%N) ->
  (forall k, vi_lookup k vis <> None -> In k (nms cur)) ->
  (forall k, In k (tnames t) -> In k (nms cur)) ->
  (forall k v x, In k (tnames t) -> In (k, v) cur -> getv h v = Some x -> v_prod x = None) ->
  exists h' P nid, deser_node (t2p_n t) cur sc vis h = Ok (h', P ++ cur, nid) /\
    nms (P ++ cur) = lvl /\ chain_ok2 ((P ++ cur) :: sc) /\ TQ b I h' (P ++ cur) /\
    (forall k v, In (k, v) P -> nv h <= v /\ ~ In k (nms cur)) /\
    nstep (tnames t) cur h h' /\
    pre2_n (fun v => lo <= v /\ ~ In v (ids (P ++ cur))) h' (map ids sc) (ids cur) (P ++ cur) nid t (ids (P ++ cur)) /\ nn h <= nid < nn h' /\
    depth_n t + ngr h <= ngr h'.
Definition P2Ns (ns : ntrees) : Prop := forall b (I : N -> N -> Prop) outer outn sc cur vis h lo lvl,
  chain_ok2 (cur :: sc) -> SC h sc -> map nms sc = outer -> wf2_ns outer (nms cur) outn ns = Some lvl ->
  TQ b I h cur -> lo <= nv h -> b <= nv h -> (forall k, ~ In k (nms cur) -> I k 0%N) ->
  (forall k, vi_lookup k vis <> None -> In k (nms cur)) ->
  NoDup (tout_names ns) ->
  (forall k, In k (tout_names ns) -> In k (nms cur)) ->
  (forall k v x, In k (tout_names ns) -> In (k, v) cur -> getv h v = Some x -> v_prod x = None) ->
  exists h' P nids, deser_nodes (t2p_ns ns) cur sc vis h = Ok (h', P ++ cur, nids) /\
    nms (P ++ cur) = lvl /\ chain_ok2 ((P ++ cur) :: sc) /\ TQ b I h' (P ++ cur) /\
    (forall k v, In (k, v) P -> nv h <= v /\ ~ In k (nms cur)) /\
    nstep (tout_names ns) cur h h' /\
    pre2_ns (fun v => lo <= v /\ ~ In v (ids (P ++ cur))) h' (map ids sc) (ids cur) (P ++ cur) nids ns (ids (P ++ cur)) /\
    (forall n, In n nids -> nn h <= n < nn h') /\ depth_ns ns + ngr h <= ngr h'.

(* a step of a larger table that only touches producers of values bound in the smaller one *)
Lemma nstep_restrict names (P cur : table) h h' :
  (forall k v, In (k, v) P -> ~ In k names) -> nstep names (P ++ cur) h h' -> nstep names cur h h'.
Proof.
  intros Hp (A & B & C). split; auto. split; auto. intros v x Hx. destruct (B _ _ Hx) as (x' & Hx' & E & Hd).
  exists x'. split; auto. split; auto. destruct Hd as [Hd|(k & Hk & Hin)]; auto. right. exists k. split; auto.
  apply in_app_or in Hin. destruct Hin as [Hin|Hin]; auto. exfalso. eapply Hp; eauto.
Qed.

(* ------------------------------------------------------------------ lists of nodes *)
Lemma P2Ns_nil : P2Ns TNil.
Proof.
  intros b I outer outn sc cur vis h lo lvl Hc HS Hn Hwf HT Hlo Hb HI0 Hvis Hnd Hdecl Hpend.
  cbn in Hwf. inversion Hwf; subst lvl. exists h, [], []. cbn. csplit; auto.
  - intros k v [].
  - apply nstep_refl.
  - intros n [].
Qed.

Lemma P2Ns_cons n r : P2N n -> P2Ns r -> P2Ns (TCons n r).
Proof.
  intros IHn IHr b I outer outn sc cur vis h lo lvl Hc HS Hn Hwf HT Hlo Hb HI0 Hvis Hnd Hdecl Hpend.
  cbn [wf2_ns] in Hwf. destruct (wf2_n outer (nms cur) outn n) as [lvl1|] eqn:W1; [|discriminate].
  change (tout_names (TCons n r)) with (tnames n ++ tout_names r) in *.
  destruct (IHn b I outer outn sc cur vis h lo lvl1) as (h1 & P1 & nid & E1 & L1 & C1 & T1 & Q1 & S1 & R1 & G1 & D1); auto.
  { intros k Hk. apply Hdecl. apply in_or_app; auto. }
  { intros k v x Hk. apply Hpend. apply in_or_app; auto. }
  pose proof S1 as (X1 & V1 & N1).
  assert (Hnv1 : nv h <= nv h1) by (destruct X1; auto).
  assert (Hnn1 : nn h <= nn h1) by (destruct X1 as (_ & A & _); auto).
  assert (Hin1 : forall k, In k (nms cur) -> In k (nms (P1 ++ cur))) by (intros k Hk; rewrite nms_app; apply in_or_app; auto).
  destruct (IHr b I outer outn sc (P1 ++ cur) vis h1 lo lvl) as (h2 & P2 & nids & E2 & L2 & C2 & T2 & Q2 & S2 & R2 & G2 & D2); auto.
  { eapply SC_ext; eauto. }
  { rewrite L1. auto. }
  { lia. }
  { lia. }
  { eapply NoDup_app_r; eauto. }
  { intros k Hk. apply Hin1. apply Hdecl. apply in_or_app; auto. }
  { intros k v x1 Hk Hin Hx1. apply in_app_or in Hin. destruct Hin as [Hin|Hin].
    - exfalso. destruct (Q1 _ _ Hin) as (_ & Hnk). apply Hnk. apply Hdecl. apply in_or_app; auto.
    - destruct (HT k v Hin) as (_ & x & Hx & _).
      destruct (V1 _ _ Hx) as (x' & Hx' & _ & Hp). assert (x' = x1) by congruence. subst x'.
      destruct Hp as [Hp|(k' & Hk' & Hin')].
      + rewrite Hp. eapply Hpend; eauto. apply in_or_app; auto.
      + assert (k' = k) by (exact (TQ_inj _ _ _ _ _ _ _ HT Hin' Hin)). subst k'. exfalso. eapply NoDup_app_disj; eauto. }
  pose proof S2 as (X2 & _).
  assert (Hnn2 : nn h1 <= nn h2) by (destruct X2 as (_ & A & _); auto).
  assert (S2' : nstep (tout_names r) cur h1 h2).
  { eapply nstep_restrict; eauto. intros k v Hin Hk. destruct (Q1 _ _ Hin) as (_ & Hnk). apply Hnk. apply Hdecl.
    apply in_or_app; auto. }
  exists h2, (P2 ++ P1), (nid :: nids). rewrite <- !app_assoc. cbn [t2p_ns deser_nodes]. rewrite E1, E2. csplit; auto.
  - intros k v Hin. apply in_app_or in Hin. destruct Hin as [Hin|Hin].
    + destruct (Q2 _ _ Hin) as (A & B). split; [lia|]. intros Hk. apply B. auto.
    + apply Q1; auto.
  - eapply nstep_trans.
    + eapply nstep_mono; [|exact S1]. intros k Hk. apply in_or_app; auto.
    + eapply nstep_mono; [|exact S2']. intros k Hk. apply in_or_app; auto.
  - cbn [pre2_ns]. exists (ids (P1 ++ cur)). split; auto.
    eapply pre2_n_step; [exact S2|intros kv Hin; apply in_or_app; right; exact Hin|].
    eapply pre2_n_mono; [|exact R1]. intros v Hv (A & B). split; auto. rewrite ids_app. intros Hc0.
    apply in_app_or in Hc0. destruct Hc0 as [Hc0|Hc0]; auto. apply In_ids in Hc0. destruct Hc0 as (k & Hk).
    destruct (Q2 _ _ Hk) as (C & _). lia.
  - intros m [<-|Hm]; [lia|]. specialize (G2 _ Hm). lia.
  - pose proof (nstep_ngr _ _ _ _ S1). pose proof (nstep_ngr _ _ _ _ S2). cbn [depth_ns]. lia.
Qed.

(* ------------------------------------------------------------------ attributes and graph lists *)
Lemma P2As_nil : P2As TANil.
Proof. intros nsc sc h Hc HS Hn Hnd Hwf. exists h, []. cbn. csplit; auto; try apply nested_refl. Qed.

Lemma P2As_cons a r : P2A a -> P2As r -> P2As (TACons a r).
Proof.
  intros IHa IHr nsc sc h Hc HS Hn Hnd Hwf. cbn [wf2_as] in Hwf. apply andb_prop in Hwf. destruct Hwf as (W1 & W2).
  destruct (attr_not_repeated _ _ Hnd) as (Hex & Hnd2).
  destruct (IHa nsc sc h) as (h1 & x & E1 & N1 & R1 & F1 & D1); auto.
  destruct (IHr nsc sc h1) as (h2 & l & E2 & N2 & R2 & F2 & D2); auto.
  { eapply SC_ext; eauto. apply nested_ext; auto. }
  exists h2, (x :: l). cbn [t2p_as deser_attrs]. rewrite Hex, E1, E2. csplit; auto.
  - eapply nested_trans'; eauto.
  - cbn [real2_as]. split.
    + destruct real2_stable as (_ & _ & _ & _ & Sa & _). eapply Sa; [|exact R1]. apply nested_keepsP; auto.
    + destruct real2_mono as (_ & _ & _ & Ma & _). eapply Ma; [|exact R2]. intros v _ Hv. cbn beta in *.
      pose proof (nested_nv _ _ N1). lia.
  - cbn. f_equal; auto; rewrite F1; destruct a; auto.
  - pose proof (nested_ngr _ _ N1). pose proof (nested_ngr _ _ N2). cbn [depth_as]. lia.
Qed.

Lemma P2A_plain k tok sbad : P2A (TPlain k tok sbad).
Proof. intros nsc sc h Hc HS Hn Hwf. exists h, (k, AtPlain tok sbad). cbn. csplit; auto; try apply nested_refl. Qed.
Lemma P2A_graph k g : P2G g -> P2A (TGraph k g).
Proof.
  intros IH nsc sc h Hc HS Hn Hwf. cbn [wf2_a] in Hwf.
  destruct (IH nsc sc h) as (h1 & gid & E1 & N1 & _ & R1 & D1); auto.
  exists h1, (k, AtGraph gid). cbn [t2p_a deser_attr]. rewrite E1. csplit; auto.
  cbn [real2_a]. exists gid. auto.
Qed.
Lemma P2A_graphs k gs : P2Gs gs -> P2A (TGraphs k gs).
Proof.
  intros IH nsc sc h Hc HS Hn Hwf. cbn [wf2_a] in Hwf.
  destruct (IH nsc sc h) as (h1 & gl & E1 & N1 & R1 & D1); auto.
  exists h1, (k, AtGraphs gl). cbn [t2p_a deser_attr]. rewrite E1. csplit; auto.
  cbn [real2_a]. exists gl. auto.
Qed.
Lemma P2Gs_nil : P2Gs TGNil.
Proof. intros nsc sc h Hc HS Hn Hwf. exists h, []. cbn. csplit; auto; try apply nested_refl. Qed.
Lemma P2Gs_cons g r : P2G g -> P2Gs r -> P2Gs (TGCons g r).
Proof.
  intros IHg IHr nsc sc h Hc HS Hn Hwf. cbn [wf2_gs] in Hwf. apply andb_prop in Hwf. destruct Hwf as (W1 & W2).
  destruct (IHg nsc sc h) as (h1 & gid & E1 & N1 & _ & R1 & D1); auto.
  destruct (IHr nsc sc h1) as (h2 & l & E2 & N2 & R2 & D2); auto.
  { eapply SC_ext; eauto. apply nested_ext; auto. }
  exists h2, (gid :: l). cbn [t2p_gs deser_graphs]. rewrite E1, E2. csplit; auto.
  - eapply nested_trans'; eauto.
  - cbn [real2_gs]. split.
    + destruct real2_stable as (Sg' & _). eapply Sg'; [|exact R1]. apply nested_keepsP; auto.
    + destruct real2_mono as (_ & _ & _ & _ & _ & Mgs'). eapply Mgs'; [|exact R2]. intros v _ Hv. cbn beta in *.
      pose proof (nested_nv _ _ N1). lia.
  - pose proof (nested_ngr _ _ N1). pose proof (nested_ngr _ _ N2). cbn [depth_gs]. lia.
Qed.

(* ------------------------------------------------------------------ one node *)
Lemma P2N_bad : P2N NBad.
Proof. intros b I outer outn sc cur vis h lo lvl Hc HS Hn Hwf. discriminate. Qed.

Lemma P2N_case nname op ntok ins outs attrs : P2As attrs -> P2N (NT nname op ntok ins outs attrs).
Proof.
  intros IHa b I outer outn sc cur vis h lo lvl Hc HS Hn Hwf HT Hlo Hb HI0 Hvis Hdecl Hpend.
  destruct (wf2_n_inv _ _ _ _ _ _ _ _ _ _ Hwf) as (Elvl & W1 & W2 & W3 & W4 & W5).
  cbn [tnames] in *. set (names := nz (map vd_name outs)) in *.
  rewrite forallb_forall in W1, W2.
  assert (Hb1 : forall k v, In (k, v) cur -> v < nv h) by (intros k v Hin; destruct (TQ_lt _ _ _ _ _ _ HT Hin); auto).
  assert (Hb2 : forall t k v, In t sc -> In (k, v) t -> v < nv h).
  { intros t k v Ht Hin. destruct (HS t k v Ht Hin) as (x & Hx & _). eapply getv_lt; eauto. }
  (* 1. inputs *)
  destruct (resolve_inputs_spec2 sc vis ins h cur) as (h1 & P & R1 & B1 & B2 & B3 & B4 & B5 & B6 & B7 & B8 & B9 & B10); auto.
  { intros o Ho. specialize (W1 o Ho). destruct o as [[[rf k] nm]|]; auto. cbn [wf2_node_in fst snd] in W1 |- *.
    bsplit. apply N.eqb_neq; auto. }
  set (cur' := P ++ cur) in *.
  assert (Elv : nms cur' = lvl) by (rewrite B6, Hn; auto).
  assert (Hc' : chain_ok2 (cur' :: sc)).
  { destruct Hc as (C1 & C2 & C3). cbn [chain_ok2]. csplit; auto.
    - unfold cur'. apply (NoDup_ids_app P cur (nv h)); auto. intros k v Hin. destruct (B8 _ _ Hin) as (A & _). lia.
    - intros k v Hin t' k' Ht' Hin'. unfold cur' in Hin. apply in_app_or in Hin. destruct Hin as [Hin|Hin].
      + destruct (B8 _ _ Hin) as (A & _). specialize (Hb2 _ _ _ Ht' Hin'). lia.
      + eapply C2; eauto. }
  assert (X1 : ext h h1).
  { unfold ext, nn, ngr, getn, getg, gett. rewrite B1, B2, B3. csplit; auto; eauto.
    intros v x Hx. exists x. split; auto. rewrite B5; auto. eapply getv_lt; eauto. }
  assert (T1 : TQ b I h1 cur').
  { intros k v Hin. unfold cur' in Hin. apply in_app_or in Hin. destruct Hin as [Hin|Hin].
    - destruct (B8 _ _ Hin) as (A & G & Hl0). split; [lia|]. eexists. split; [exact G|]. cbn. csplit; auto.
      apply HI0. intros Hk0. apply In_nms in Hk0. destruct Hk0 as (u & Hu). rewrite lookup_scopes_cons in Hl0.
      destruct (lookup k cur) eqn:Ec; [discriminate|]. apply lookup_None in Ec. apply Ec. apply in_map_iff. exists (k, u); auto.
    - destruct (HT k v Hin) as (A & x & Hx & R). split; auto. exists x. split; auto. rewrite B5; auto. eapply getv_lt; eauto. }
  assert (HS1 : SC h1 (cur' :: sc)) by (eapply TQ_SC; eauto; eapply SC_ext; eauto).
  set (invs := map (in_val (cur' :: sc)) ins) in *.
  assert (Win : forall o, In o ins -> match o with
            | None => True
            | Some rd => snd rd = true /\ exists v, in_val (cur' :: sc) o = Some v /\
                                   find_ref v (map ids (cur' :: sc)) 0 = fst (fst rd)
            end).
  { intros o Ho. specialize (W1 o Ho). specialize (B10 o Ho). destruct o as [[[rf k] nm]|]; auto.
    cbn [wf2_node_in fst snd] in W1 |- *.
    apply andb_prop in W1. destruct W1 as (W1 & Wd).
    apply andb_prop in W1. destruct W1 as (W1 & Wc).
    apply andb_prop in W1. destruct W1 as (Wa & Wb). apply ref_eqb_eq in Wd. split; auto.
    destruct (in_val (cur' :: sc) (Some (rf, k, nm))) as [v|] eqn:Ev; [|congruence]. exists v. split; auto.
    unfold in_val in Ev. cbn [fst snd] in Ev.
    destruct (find_resolve2 _ _ _ 0 Hc' Ev) as (A & _). rewrite A. cbn [map]. rewrite Elv, Hn. auto. }
  (* 2. outputs *)
  assert (Hlk : forall k v, In k names -> lookup k cur' = Some v -> lookup k cur = Some v).
  { intros k v Hk Hl. unfold cur' in Hl. rewrite lookup_app in Hl. destruct (lookup k P) eqn:Ep; auto.
    exfalso. apply lookup_In in Ep. destruct (B8 _ _ Ep) as (_ & _ & Hn'). rewrite lookup_scopes_cons in Hn'.
    apply Hdecl in Hk. apply In_nms in Hk. destruct Hk as (u & Hu). destruct (lookup k cur) eqn:Ec; [discriminate|].
    apply lookup_None in Ec. apply Ec. apply in_map_iff. exists (k, u); auto. }
  destruct (resolve_outputs_spec (map vd_name outs) h1 cur') as (h2 & outvs & R2 & A1 & A2 & A3 & A4 & A5 & A6).
  { intros k Hk. apply Hdecl in Hk. apply In_nms in Hk. destruct Hk as (v & Hv).
    intros Hc0. apply lookup_None in Hc0. apply Hc0. apply in_map_iff. exists (k, v). split; auto.
    unfold cur'. apply in_or_app; auto. }
  assert (X2 : ext h1 h2).
  { unfold ext, nn, ngr, getn, getg, gett. rewrite A1, A2, A3. csplit; auto; eauto.
    intros v x Hx. exists x. split; auto. rewrite A5; auto. eapply getv_lt; eauto. }
  (* 3. attributes *)
  destruct (IHa (lvl :: outer) (cur' :: sc) h2) as (h3 & al & R3 & N3 & Q3 & F3 & D3); auto.
  { eapply SC_ext; eauto. }
  { cbn [map]. rewrite Elv, Hn. auto. }
  pose proof N3 as (X3 & V3 & G3).
  (* 4. Node() *)
  assert (OV : forall v, In v outvs -> exists x, getv h3 v = Some x /\ v_prod x = None).
  { intros v Hv. destruct (Forall2_in_r _ _ _ _ A6 Hv) as (k & Hk & Hr).
    assert (G : exists x2, getv h2 v = Some x2 /\ v_prod x2 = None).
    { destruct (N.eqb_spec k 0) as [Hz|Hz].
      - destruct Hr as (_ & Hr). eexists. split; [exact Hr|reflexivity].
      - assert (Hkn : In k names) by (apply In_nz; auto).
        apply (Hlk _ _ Hkn) in Hr. apply lookup_In in Hr. destruct (HT _ _ Hr) as (_ & x & Hx & _). exists x.
        assert (Hv' : v < nv h) by (eapply getv_lt; eauto).
        split; [rewrite A5, B5; auto; lia|]. eapply (Hpend k); eauto. }
    destruct G as (x2 & Hx2 & Hp2). destruct (V3 _ _ Hx2) as (x3 & Hx3 & E3). exists x3. split; auto.
    apply vfix_inv in E3. destruct E3 as (_ & E3 & _). congruence. }
  pose proof (new_node_ok h3 (Some nname) op ntok invs outvs al OV) as R4.
  assert (Hdict : dict_of [] al = al).
  { apply dict_of_id. pose proof (nodup_N_NoDup _ W4) as Hnd. rewrite <- F3 in Hnd. exact Hnd. }
  rewrite Hdict in R4.
  match type of R4 with _ = Ok (?hh, _) => set (h4 := hh) in * end.
  assert (GV4 : forall v, getv h4 v = option_map (nval (nn h3) invs outvs v) (getv h3 v)).
  { intros v. unfold h4. rewrite <- Hdict. apply nn_getv. }
  assert (GN4 : getn h4 (nn h3) = Some (mkN (Some nname) op ntok invs outvs al None)).
  { unfold h4. rewrite <- Hdict at 1. rewrite nn_getn_new. rewrite Hdict. reflexivity. }
  assert (GO4 : forall n, n < nn h3 -> getn h4 n = getn h3 n).
  { intros n Hlt. unfold h4. rewrite <- Hdict. apply nn_getn_old; auto. }
  assert (NV4 : nv h4 = nv h3).
  { unfold h4, nv; simpl. rewrite add_uses_length, set_prods_length. auto. }
  assert (NN4 : nn h4 = S (nn h3)).
  { unfold h4, nn; simpl. rewrite app_length; simpl. lia. }
  assert (X4 : ext h3 h4).
  { unfold ext. rewrite NV4, NN4. csplit; auto.
    - intros v x Hx. rewrite GV4, Hx. simpl. eexists. split; eauto.
    - intros n y Hy. exists y. split; auto. rewrite GO4; auto. eapply getn_lt; eauto. }
  assert (Hnv3 : nv h2 <= nv h3) by (apply nested_nv; auto).
  assert (K4 : keeps lo h3 h4).
  { split; auto. intros v x _ Hx. rewrite GV4, Hx. simpl. eexists. split; [reflexivity|].
    apply vmid_vview. apply nval_vmid. }
  assert (X14 : ext h1 h4) by (eapply ext_trans; [exact X2|]; eapply ext_trans; [exact X3 | exact X4]).
  (* values that existed after the inputs were resolved *)
  assert (V14 : forall v x, getv h1 v = Some x -> exists x', getv h4 v = Some x' /\ vmid x' = vmid x /\
                   (v_prod x' = v_prod x \/ exists k, In k names /\ In (k, v) cur)).
  { intros v x Hx. assert (Hv : v < nv h1) by (eapply getv_lt; eauto).
    assert (Hx2 : getv h2 v = Some x) by (rewrite A5; auto).
    destruct (V3 _ _ Hx2) as (x3 & Hx3 & E3). apply vfix_vmid in E3. destruct E3 as (E3 & P3).
    rewrite GV4, Hx3. simpl. eexists. split; [reflexivity|]. split; [rewrite nval_vmid; auto|].
    destruct (in_dec Nat.eq_dec v outvs) as [Hin|Hnin].
    + right. destruct (Forall2_in_r _ _ _ _ A6 Hin) as (k & Hk & Hr). destruct (N.eqb_spec k 0) as [Hz|Hz].
      * destruct Hr as (Hr & _). lia.
      * assert (Hkn : In k names) by (apply In_nz; auto). exists k. split; auto. apply lookup_In. apply Hlk; auto.
    + left. simpl. rewrite new_prod_notin; auto. }
  assert (S04 : nstep names cur h h4).
  { split; [eapply ext_trans; [exact X1 | exact X14]|]. split.
    - intros v x Hx. apply V14. rewrite B5; auto. eapply getv_lt; eauto.
    - intros n y Hy. assert (Hy2 : getn h2 n = Some y) by (unfold getn in *; rewrite A1, B1; auto).
      apply G3 in Hy2. rewrite GO4; auto. eapply getn_lt; eauto. }
  pose proof S04 as (X04 & _).
  assert (HS4 : SC h4 (cur' :: sc)) by exact (SC_ext _ _ _ X14 HS1).
  assert (Hnn : nn h <= nn h3).
  { destruct X3 as (_ & A & _). unfold nn in *. rewrite A1, B1 in A. auto. }
  exists h4, P, (nn h3). cbn [t2p_n deser_node]. fold cur'. unfold in_name in R1. rewrite R1, R2.
  match goal with |- context [deser_attrs ?a ?b ?c] => replace (deser_attrs a b c) with (Ok (h3, al)) by (symmetry; exact R3) end.
  fold invs. rewrite R4.
  csplit; auto.
  - (* TQ *)
    intros k v Hin. destruct (T1 k v Hin) as (Hbv & x & Hx & A7 & A8 & A9 & A10 & A11 & A12).
    destruct (V14 _ _ Hx) as (x' & Hx' & Em & _). apply vmid_inv in Em. destruct Em as (M1 & M2 & M3 & M4 & M5 & M6 & M7).
    split; auto. exists x'. rewrite M1, M2, M3, M4, M5, M7. csplit; auto.
  - intros k v Hin. destruct (B8 _ _ Hin) as (A & _ & Hl). split; [lia|]. intros Hk. apply In_nms in Hk. destruct Hk as (u & Hu).
    rewrite lookup_scopes_cons in Hl. destruct (lookup k cur) eqn:Ec; [discriminate|]. apply lookup_None in Ec. apply Ec.
    apply in_map_iff. exists (k, u); auto.
  - (* pre2_n *)
    cbn [pre2_n]. eexists. split; [exact GN4|]. cbn [n_name n_op n_tok n_graph n_inputs n_outputs n_attrs].
    assert (Eaf : ids cur' = add_frees (map ids sc) (ids cur) invs) by exact B7.
    rewrite <- Eaf. csplit; auto.
    + unfold invs. rewrite map_map. rewrite <- (map_id ins) at 2. apply map_ext_in. intros o Ho.
      specialize (Win o Ho). destruct o as [[[rf k] nm]|]; [|reflexivity]. cbn [fst snd] in Win.
      destruct Win as (Hnm & v & Hv & Hf). rewrite Hv. cbn [in_desc]. cbn [map] in Hf. rewrite Hf.
      unfold in_val in Hv. cbn [fst snd] in Hv.
      destruct (lookup_scopes_In _ _ _ Hv) as (t & Ht & Hin). destruct (HS4 t k v Ht Hin) as (x4 & Hx4 & Hn4).
      unfold vdesc_of. rewrite Hx4, Hn4. cbn [vd_name vd_named]. subst nm. reflexivity.
    + apply Forall2_flip. apply Forall2_map_l in A6. eapply Forall2_impl_In; [|exact A6].
      intros d v Hd Hv Hr. cbn beta in Hr. unfold out_rel2. destruct (N.eqb_spec (vd_name d) 0) as [Hz|Hz].
      * destruct Hr as (Hge & Hx2). destruct (V3 _ _ Hx2) as (x3 & Hx3 & E3).
        apply vfix_inv in E3. destruct E3 as (E1 & E2 & E3 & E4 & E5 & E6 & E7 & E8).
        assert (Hx4 : getv h4 v = Some (nval (nn h3) invs outvs v x3)) by (rewrite GV4, Hx3; auto).
        split; [split; [split; [lia|] | eapply getv_lt; eauto]|].
        { intros Hc0. apply In_ids in Hc0. destruct Hc0 as (k0 & Hk0). destruct (TQ_lt _ _ _ _ _ _ T1 Hk0). lia. }
        assert (Ed : d = empty_vd).
        { specialize (W2 d Hd). unfold wf_node_out in W2. destruct d as [dn dnm dp dout]. cbn in *. subst dn.
          cbn in W2. apply andb_prop in W2. destruct W2 as (Wa & Wb). apply andb_prop in Wb. destruct Wb as (Wb & Wc).
          apply N.eqb_eq in Wb. apply negb_true_iff in Wc. subst. reflexivity. }
        split; auto. rewrite Ed. unfold vdesc_of, tpay. rewrite Hx4. cbn. rewrite E1, E5, E8. reflexivity.
      * apply lookup_In; auto.
    + intros v Hv. unfold invs in Hv. apply in_map_iff in Hv. destruct Hv as (o & Ho & Hin).
      destruct o as [rd|]; [|discriminate]. unfold in_val in Ho.
      destruct (lookup_scopes_In _ _ _ Ho) as (t & Ht & Hin'). destruct (HS4 t _ v Ht Hin') as (x4 & Hx4 & _).
      eapply getv_lt; eauto.
    + destruct real2_stable as (_ & _ & _ & Sa & _). destruct real2_mono as (_ & _ & _ & Ma & _).
      eapply Sa; [eapply (keeps_keepsP lo); [|exact K4]; intros v (A & _); exact A|].
      eapply Ma; [|exact Q3]. intros v _ Hv. cbn beta in *. split; [lia|].
      intros Hc0. apply In_ids in Hc0. destruct Hc0 as (k0 & Hk0). destruct (TQ_lt _ _ _ _ _ _ T1 Hk0). lia.
  - lia.
  - cbn [depth_n]. unfold ngr in *. rewrite A2, B2 in D3. unfold h4; cbn [hg]. exact D3.
Qed.

(* C17/Deser.v — deserialization of ANY proto that returns yields a heap satisfying Inv
   (mutual induction over the proto; no well-formedness hypothesis). *)
From Coq Require Import NArith List Bool Arith Lia.
From IRV Require Import Base.Exn C03.Model C03.Inv C17.Basics C17.Specs C17.Steps C17.Phases C17.OpNode C17.OpGraph.
Import ListNotations.

Arguments alloc_value : simpl never.
Arguments new_node : simpl never.
Arguments new_graph : simpl never.
Arguments lookup_scopes : simpl never.
Arguments lookup : simpl never.

Scheme gproto_ind' := Induction for gproto Sort Prop
  with nprotos_ind' := Induction for nprotos Sort Prop
  with nproto_ind' := Induction for nproto Sort Prop
  with aprotos_ind' := Induction for aprotos Sort Prop
  with aproto_ind' := Induction for aproto Sort Prop
  with gprotos_ind' := Induction for gprotos Sort Prop.
Combined Scheme proto_mutind from gproto_ind', nprotos_ind', nproto_ind', aprotos_ind', aproto_ind', gprotos_ind'.

Lemma step_nil b0 b ON h h' : step b0 [] h h' -> step b ON h h'.
Proof.
  intros (A1 & A2 & A3 & A4). repeat split; auto.
  intros v x H. destruct (A4 v x H) as (x' & H' & E' & P'). exists x'. split; auto. split; auto.
  destruct P' as [P'|(Hb & k & _ & [])]. auto.
Qed.

Lemma sc_ok_step b ON h h' sc : sc_ok h sc -> step b ON h h' -> sc_ok h' sc.
Proof. intros Hs (A1 & _) t k v Ht Hin. specialize (Hs t k v Ht Hin). lia. Qed.

Lemma sc_ok_cons b ON sc h cur : st_ok b ON sc h cur -> sc_ok h (cur :: sc).
Proof.
  intros Hs t k v [Ht|Ht] Hin.
  - subst t. destruct (so_tbl _ _ _ _ _ Hs _ _ Hin) as (_ & x & Hx & _). eapply getv_lt; eauto.
  - eapply (so_sc _ _ _ _ _ Hs); eauto.
Qed.

(* results of the nested (graph / attribute) level: invariant + nothing that existed changed *)
Definition nested_ok (h h' : heap) : Prop := Inv h' /\ step 0 [] h h'.

Definition Pg (gp : gproto) : Prop :=
  forall sc h h' gid, Inv h -> sc_ok h sc -> deser_graph gp sc h = Ok (h', gid) -> nested_ok h h'.
Definition Pgs (gs : gprotos) : Prop :=
  forall scs h h' l, Inv h -> sc_ok h scs -> deser_graphs gs scs h = Ok (h', l) -> nested_ok h h'.
Definition Pa (a : aproto) : Prop :=
  forall scs h h' x, Inv h -> sc_ok h scs -> deser_attr a scs h = Ok (h', x) -> nested_ok h h'.
Definition Pas (al : aprotos) : Prop :=
  forall scs h h' l, Inv h -> sc_ok h scs -> deser_attrs al scs h = Ok (h', l) -> nested_ok h h'.
Definition node_outs_ok (ON : list name) (n : nproto) : Prop :=
  match n with Np _ _ _ _ outs _ => NoDup (nz outs) /\ forall k, In k outs -> In k ON end.
Definition Pn (n : nproto) : Prop :=
  forall b ON sc vis h cur h' cur' nid,
    st_ok b ON sc h cur -> node_outs_ok ON n ->
    deser_node n cur sc vis h = Ok (h', cur', nid) ->
    st_ok b ON sc h' cur' /\ step b ON h h' /\ (forall kv, In kv cur -> In kv cur') /\ nn h <= nid < nn h'.
Fixpoint nodes_outs_ok (ON : list name) (ns : nprotos) : Prop :=
  match ns with NNil => True | NCons n r => node_outs_ok ON n /\ nodes_outs_ok ON r end.
Definition Pns (ns : nprotos) : Prop :=
  forall b ON sc vis h cur h' cur' nids,
    st_ok b ON sc h cur -> nodes_outs_ok ON ns ->
    deser_nodes ns cur sc vis h = Ok (h', cur', nids) ->
    st_ok b ON sc h' cur' /\ step b ON h h' /\ (forall kv, In kv cur -> In kv cur') /\
    NoDup nids /\ (forall n, In n nids -> nn h <= n < nn h').

Lemma nodes_outs_ok_intro ON : forall ns,
  outs_nodup ns -> In 0%N ON -> (forall k, In k (out_names ns) -> In k ON) -> nodes_outs_ok ON ns.
Proof.
  induction ns as [|[nname op ntok ins outs attrs] r IH]; simpl; intros Hnd H0 Hsub; auto.
  destruct Hnd as [Hnd Hr]. split; [split; auto|].
  - intros k Hk. destruct (N.eqb_spec k 0) as [->|Hz]; auto. apply Hsub. apply in_or_app. left.
    unfold nz. apply filter_In. split; auto. destruct (N.eqb_spec k 0); auto.
  - apply IH; auto. intros k Hk. apply Hsub. apply in_or_app. auto.
Qed.

Lemma nested_trans h1 h2 h3 : nested_ok h1 h2 -> nested_ok h2 h3 -> nested_ok h1 h3.
Proof. intros (_ & S1) (I & S2). split; auto. eapply step_trans; eauto. Qed.

Theorem deser_all :
  (forall gp, Pg gp) /\ (forall ns, Pns ns) /\ (forall n, Pn n) /\ (forall al, Pas al) /\ (forall a, Pa a) /\
  (forall gs, Pgs gs).
Proof.
  apply proto_mutind.
  - (* graph *)
    intros gname gtok ins outs inits vis nodes IHn sc h h' gid HI Hsc H. cbn in H.
    set (b := nv h). set (ON := 0%N :: out_names nodes).
    assert (S0 : st_ok b ON sc h []).
    { constructor; auto; try solve [intros k v [] | intros k v x [] | unfold b; lia]. }
    destruct (alloc_inputs h ins) as [h1 invs] eqn:E1.
    destruct (alloc_inputs_ok _ _ _ _ _ _ _ _ S0 E1) as (S1 & T1 & _ & D1).
    destruct (apply_infos h1 ins invs) as [h2|e] eqn:E2; [|discriminate].
    pose proof (apply_infos_same_core _ _ _ _ E2) as C2.
    pose proof (st_ok_same_core _ _ _ _ _ _ S1 C2) as S2.
    destruct (alloc_tensors h2 inits) as [[h3 cs]|e] eqn:E3; [|discriminate].
    pose proof (alloc_tensors_same_core _ _ _ _ E3) as C3.
    pose proof (st_ok_same_core _ _ _ _ _ _ S2 C3) as S3.
    destruct (deser_inits h3 (table_of [] ins invs) vis inits cs) as [[[h4 tbl1] initvs]|e] eqn:E4; [|discriminate].
    destruct (deser_inits_ok _ _ _ _ _ _ _ _ _ _ _ S3 E4) as (S4 & T4 & I4 & D4).
    destruct (declare_nodes h4 tbl1 vis nodes) as [[h5 tbl2]|e] eqn:E5; [|discriminate].
    destruct (declare_nodes_ok _ _ _ _ _ _ _ _ _ S4 E5) as (S5 & T5 & I5 & N5 & O5).
    destruct (deser_nodes nodes tbl2 sc vis h5) as [[[h6 tbl3] nids]|e] eqn:E6; [|discriminate].
    assert (NO : nodes_outs_ok ON nodes).
    { apply nodes_outs_ok_intro; auto; [left; auto | intros k Hk; right; auto]. }
    destruct (IHn _ _ _ _ _ _ _ _ _ S5 NO E6) as (S6 & T6 & I6 & ND6 & R6).
    destruct (graph_outputs h6 tbl3 outs) as [[h7 outvs]|e] eqn:E7; [|discriminate].
    destruct (graph_outputs_ok _ _ _ _ _ _ _ _ S6 E7) as (S7 & T7 & D7).
    (* initializer values have no producer at Graph() time *)
    assert (P2 : forall v x, In v initvs -> getv h7 v = Some x -> v_prod x = None).
    { intros v x Hv Hx. destruct (D4 _ Hv) as (k & Hk & Hin).
      eapply (so_prod _ _ _ _ _ S7 k v x); eauto.
      intros [Hk0|Hko]; [congruence|]. specialize (O5 _ Hko). apply In_in_table in Hin. congruence. }
    destruct (new_graph_inv _ _ _ _ _ _ _ _ _ (so_inv _ _ _ _ _ S7) H ND6 P2)
      as (I8 & _ & G8 & V8 & N8 & _ & F8).
    split; auto.
    (* nothing older than the scope changed *)
    assert (T07 : step b ON h h7).
    { eapply step_trans; [exact T1|]. eapply step_trans; [apply same_core_step; exact C2|].
      eapply step_trans; [apply same_core_step; exact C3|]. eapply step_trans; [exact T4|].
      eapply step_trans; [exact T5|]. eapply step_trans; [exact T6|]. exact T7. }
    destruct T07 as (A1 & A2 & A3 & A4). unfold step, nv, nn, ngr in *. repeat split; try lia.
    intros v x Hx. destruct (A4 v x Hx) as (x7 & Hx7 & Ev & Pv).
    destruct (F8 v x7 Hx7) as (x8 & Hx8 & _ & _ & _ & _ & _ & Hsame).
    assert (Hvb : v < b) by (eapply getv_lt; eauto).
    assert (x8 = x7).
    { apply Hsame.
      - intros Hin. destruct (D1 _ Hin) as (k & Hk). apply I4, I5, I6 in Hk.
        destruct (so_tbl _ _ _ _ _ S7 _ _ Hk) as (Hb & _). unfold b in *; unfold nv in *; lia.
      - intros Hin. specialize (D7 _ Hin). unfold b in *; unfold nv in *; lia.
      - intros Hin. destruct (D4 _ Hin) as (k & _ & Hk). apply I5, I6 in Hk.
        destruct (so_tbl _ _ _ _ _ S7 _ _ Hk) as (Hb & _). unfold b in *; unfold nv in *; lia. }
    subst x8. exists x7. split; auto. split; auto.
    destruct Pv as [Pv|(Hb & _)]; [left; auto | unfold b in *; unfold nv in *; lia].
  - (* no nodes *)
    intros b ON sc vis h cur h' cur' nids S0 _ H. cbn in H. inversion H; subst.
    split; auto. split; [apply step_refl|]. split; auto. split; [constructor | intros n []].
  - (* node :: nodes *)
    intros n IHn r IHr b ON sc vis h cur h' cur' nids S0 [NO1 NOr] H. cbn in H.
    destruct (deser_node n cur sc vis h) as [[[h1 c1] nid]|e] eqn:E1; [|discriminate].
    destruct (IHn _ _ _ _ _ _ _ _ _ S0 NO1 E1) as (S1 & T1 & I1 & R1).
    destruct (deser_nodes r c1 sc vis h1) as [[[h2 c2] l]|e] eqn:E2; [|discriminate].
    inversion H; subst; clear H.
    destruct (IHr _ _ _ _ _ _ _ _ _ S1 NOr E2) as (S2 & T2 & I2 & ND2 & R2).
    split; auto. split; [eapply step_trans; eauto|]. split; [auto|]. split.
    + constructor; auto. intros Hin. specialize (R2 _ Hin). lia.
    + intros m [Hm|Hm]; [subst m; destruct T2 as (_ & A & _); lia | specialize (R2 _ Hm); destruct T1 as (_ & A & _); lia].
  - (* one node *)
    intros nname op ntok ins outs attrs IHa b ON sc vis h cur h' cur' nid S0 [Hnd Hsub] H. cbn in H.
    destruct (resolve_inputs h cur sc vis ins) as [[[h1 c1] invs]|e] eqn:E1; [|discriminate].
    destruct (resolve_inputs_ok _ _ _ _ _ _ _ _ _ _ S0 E1) as (S1 & T1 & I1 & D1).
    destruct (resolve_outputs h1 c1 outs) as [[h2 outvs]|e] eqn:E2; [|discriminate].
    destruct (resolve_outputs_ok _ _ _ _ _ _ _ _ S1 E2 Hnd) as (S2 & T2 & C2 & _ & ND2).
    destruct (deser_attrs attrs (c1 :: sc) h2) as [[h3 al]|e] eqn:E3; [|discriminate].
    destruct (IHa _ _ _ _ (so_inv _ _ _ _ _ S2) (sc_ok_cons _ _ _ _ _ S2) E3) as (I3 & T3).
    pose proof (st_ok_step _ _ _ _ _ _ S2 I3 (step_nil _ b ON _ _ T3)) as S3.
    destruct (new_node h3 (Some nname) op ntok invs outvs al) as [[h4 nid']|e] eqn:E4; [|discriminate].
    inversion H; subst; clear H.
    assert (L23 : nv h2 <= nv h3) by (destruct T3 as (A & _); auto).
    assert (L12 : nv h1 <= nv h2) by (destruct T2 as (A & _); auto).
    (* facts about the output values at Node() time *)
    assert (OV : forall v, In v outvs -> b <= v /\ exists x k, getv h3 v = Some x /\ In k outs /\ fresh_like k x).
    { intros v Hv. destruct (C2 _ Hv) as (Hb & x & k & Hx & Hk & Hf). split; auto.
      destruct T3 as (_ & _ & _ & A4). destruct (A4 _ _ Hx) as (x3 & Hx3 & Ev & _).
      exists x3, k. split; auto. split; auto. unfold vst in Ev; inversion Ev. unfold fresh_like in *. intuition congruence. }
    destruct (new_node_inv _ _ _ _ _ _ _ _ _ I3 E4) as (I4 & Hnid & N4 & V4 & G4 & _ & F4 & _).
    + intros v Hv. specialize (D1 _ Hv). lia.
    + intros v Hv. destruct (OV _ Hv) as (_ & x & _ & Hx & _). eapply getv_lt; eauto.
    + exact ND2.
    + intros v x Hv Hx. destruct (OV _ Hv) as (_ & x' & k & Hx' & _ & (_ & _ & Hi & _ & Hn)).
      rewrite Hx in Hx'. inversion Hx'; subst. auto.
    + assert (T4 : step b ON h3 h').
      { unfold step, nv, nn, ngr in *. rewrite N4, V4, G4. repeat split; try lia.
        intros v x Hx. destruct (F4 v x Hx) as (x' & Hx' & E1' & E2' & E3' & E4' & E5' & _ & _ & Hp).
        exists x'. split; auto. split; [unfold vst; congruence|].
        destruct (in_dec Nat.eq_dec v outvs) as [Hin|Hnin]; [|left; auto].
        right. destruct (OV _ Hin) as (Hb & x0 & k & Hx0 & Hk & (Hname & _)).
        unfold getv in *. rewrite Hx in Hx0. inversion Hx0; subst x0.
        split; auto. exists k. split; auto. }
      split; [eapply st_ok_step; eauto|]. split.
      * eapply step_trans; [exact T1|]. eapply step_trans; [exact T2|].
        eapply step_trans; [apply (step_nil _ b ON _ _ T3)|]. exact T4.
      * split; auto. subst nid. unfold nn in *.
        destruct T1 as (_ & A1 & _). destruct T2 as (_ & A2 & _). destruct T3 as (_ & A3 & _).
        unfold nn in *. lia.
  - (* no attributes *)
    intros scs h h' l HI Hsc H. cbn in H. inversion H; subst. split; auto using step_refl.
  - (* attribute :: attributes *)
    intros a IHa r IHr scs h h' l HI Hsc H. cbn in H.
    destruct (existsb (N.eqb (aproto_name a)) (aproto_names r)); [eapply IHr; eauto|].
    destruct (deser_attr a scs h) as [[h1 x]|e] eqn:E1; [|discriminate].
    destruct (deser_attrs r scs h1) as [[h2 l2]|e] eqn:E2; [|discriminate]. inversion H; subst; clear H.
    pose proof (IHa _ _ _ _ HI Hsc E1) as N1. destruct N1 as (I1 & T1).
    pose proof (IHr _ _ _ _ I1 (sc_ok_step _ _ _ _ _ Hsc T1) E2) as N2.
    eapply nested_trans; [split; eauto | eauto].
  - (* plain attribute *)
    intros k tok bad sbad scs h h' x HI Hsc H. cbn in H. destruct bad; [discriminate|]. inversion H; subst.
    split; auto using step_refl.
  - (* graph attribute *)
    intros k g IHg scs h h' x HI Hsc H. cbn in H.
    destruct (deser_graph g scs h) as [[h1 gid]|e] eqn:E1; [|discriminate]. inversion H; subst; clear H.
    eapply IHg; eauto.
  - (* graphs attribute *)
    intros k gs IHgs scs h h' x HI Hsc H. cbn in H.
    destruct (deser_graphs gs scs h) as [[h1 l]|e] eqn:E1; [|discriminate]. inversion H; subst; clear H.
    eapply IHgs; eauto.
  - (* no graphs *)
    intros scs h h' l HI Hsc H. cbn in H. inversion H; subst. split; auto using step_refl.
  - (* graph :: graphs *)
    intros g IHg r IHr scs h h' l HI Hsc H. cbn in H.
    destruct (deser_graph g scs h) as [[h1 gid]|e] eqn:E1; [|discriminate].
    destruct (deser_graphs r scs h1) as [[h2 l2]|e] eqn:E2; [|discriminate]. inversion H; subst; clear H.
    pose proof (IHg _ _ _ _ HI Hsc E1) as N1. destruct N1 as (I1 & T1).
    pose proof (IHr _ _ _ _ I1 (sc_ok_step _ _ _ _ _ Hsc T1) E2) as N2.
    eapply nested_trans; [split; eauto | eauto].
Qed.

(* C17/Fix2DeserC.v — phase lemmas of the generalised proof: tables with duplicated keys (shapes R ++ tbl),
   initializers, placeholders created by resolve_inputs, graph outputs with fresh values. *)
From Coq Require Import NArith List Bool Arith Lia.
From IRV Require Import Base.Exn C03.Model C03.Canon C03.Inv C03.Tree C03.TreeF C03.IsoSpecs C17.Basics C17.Specs C17.Steps C17.Phases C17.OpNode C17.OpGraph C17.Deser C03.IsoDeserA C03.IsoDeserB C03.IsoDeserC C03.IsoDeserD C03.IsoDeserE C17.Tree2 C17.Fix2DeserA C17.Fix2DeserB.
Import ListNotations.

Arguments alloc_value : simpl never.
Arguments alloc_tensor : simpl never.
Arguments apply_info : simpl never.
Arguments apply_info_opt : simpl never.
Arguments apply_info_init : simpl never.
Arguments lookup_scopes : simpl never.
Arguments in_table : simpl never.
Arguments lookup : simpl never.

Lemma nms_app a b : nms (a ++ b) = nms b ++ nms a.
Proof. unfold nms. rewrite rev_app_distr, map_app. auto. Qed.
Lemma ids_app a b : ids (a ++ b) = ids b ++ ids a.
Proof. unfold ids. rewrite rev_app_distr, map_app. auto. Qed.

Lemma table_of_ids : forall vis vs t, length vs = length vis -> ids (table_of t vis vs) = ids t ++ vs.
Proof.
  induction vis as [|i r IH]; intros [|v vs] t Hl; simpl in Hl; try discriminate; simpl.
  - rewrite app_nil_r; auto.
  - rewrite IH by lia. rewrite ids_cons, <- app_assoc. auto.
Qed.
Lemma table_of_names_ids : forall ks vs t, length vs = length ks -> ids (table_of_names t ks vs) = ids t ++ vs.
Proof.
  induction ks as [|i r IH]; intros [|v vs] t Hl; simpl in Hl; try discriminate; simpl.
  - rewrite app_nil_r; auto.
  - rewrite IH by lia. rewrite ids_cons, <- app_assoc. auto.
Qed.

Lemma NoDup_ids_app R t b : NoDup (ids t) -> NoDup (ids R) ->
  (forall k v, In (k, v) t -> v < b) -> (forall k v, In (k, v) R -> b <= v) -> NoDup (ids (R ++ t)).
Proof.
  intros H1 H2 H3 H4. rewrite ids_app. apply NoDup_app_intro; auto.
  intros v Hv Hv'. apply In_ids in Hv, Hv'. destruct Hv as (k & Hk). destruct Hv' as (k' & Hk').
  specialize (H3 _ _ Hk). specialize (H4 _ _ Hk'). lia.
Qed.

(* names bound once in the newer part R are found there *)
Lemma look_app_R R t k : In k (nms R) -> look (R ++ t) k = look R k.
Proof.
  intros H. unfold look. rewrite lookup_app. destruct (lookup k R) eqn:E; auto.
  apply lookup_None in E. exfalso. apply E. apply In_nms in H. destruct H as (v & Hv). apply in_map_iff. exists (k, v); auto.
Qed.
Lemma map_look_R R t : NoDup (nms R) -> map (look (R ++ t)) (nms R) = ids R.
Proof.
  intros H. rewrite <- (map_look_nms R H). apply map_ext_in. intros k Hk. apply look_app_R; auto.
Qed.
Lemma lookup_R R t k v : NoDup (nms R) -> In (k, v) R -> lookup k (R ++ t) = Some v.
Proof. intros H Hin. rewrite lookup_app. rewrite (In_lookup k v R); auto. apply NoDup_nms_fst; auto. Qed.

(* ------------------------------------------------------------------ declared outputs: shape of the table *)
Lemma declare_outs_shape vis : forall outs h tbl h' tbl', declare_outs h tbl vis outs = Ok (h', tbl') ->
  exists R, tbl' = R ++ tbl /\ (forall k v, In (k, v) R -> nv h <= v < nv h') /\ NoDup (ids R) /\ nv h <= nv h'.
Proof.
  induction outs as [|k r IH]; cbn [declare_outs]; intros h tbl h' tbl' H.
  - inversion H; subst. exists []. csplit; auto. + intros k v []. + constructor.
  - destruct (N.eqb k 0); [eauto|]. destruct (in_table k tbl); [discriminate|].
    destruct (alloc_value h (Some k) None 0%N) as [h0 v] eqn:Ea.
    destruct (alloc_spec _ _ _ _ _ _ Ea) as (Hv & Hnv & _).
    destruct (apply_info_opt h0 k vis v) as [h2|e] eqn:Ei; [|discriminate].
    assert (Hnv2 : nv h2 = nv h0).
    { unfold apply_info_opt in Ei. destruct (vi_lookup k vis); [|inversion Ei; auto].
      unfold apply_info in Ei. destruct (vi_bad v0); inversion Ei. apply updv_nv. }
    destruct (IH _ _ _ _ H) as (R & -> & A & B & C). exists (R ++ [(k, v)]). rewrite <- app_assoc. csplit; auto.
    + intros k' v' Hin. apply in_app_or in Hin. destruct Hin as [Hin|[Hin|[]]].
      * apply A in Hin. lia.
      * inversion Hin; subst. lia.
    + rewrite ids_app. cbn. constructor; auto. intros Hin. apply In_ids in Hin. destruct Hin as (k' & Hk'). apply A in Hk'. lia.
    + lia.
Qed.
Lemma declare_nodes_shape vis : forall ns h tbl h' tbl', declare_nodes h tbl vis ns = Ok (h', tbl') ->
  exists R, tbl' = R ++ tbl /\ (forall k v, In (k, v) R -> nv h <= v < nv h') /\ NoDup (ids R) /\ nv h <= nv h'.
Proof.
  induction ns as [|[nname op ntok ins outs attrs] r IH]; cbn [declare_nodes]; intros h tbl h' tbl' H.
  - inversion H; subst. exists []. csplit; auto. + intros k v []. + constructor.
  - destruct (declare_outs h tbl vis outs) as [[h0 t0]|e] eqn:Ed; [|discriminate].
    destruct (declare_outs_shape _ _ _ _ _ _ Ed) as (R1 & -> & A1 & B1 & C1).
    destruct (IH _ _ _ _ H) as (R2 & -> & A2 & B2 & C2). exists (R2 ++ R1). rewrite <- app_assoc. csplit; auto.
    + intros k v Hin. apply in_app_or in Hin. destruct Hin as [Hin|Hin]; [apply A2 in Hin | apply A1 in Hin]; lia.
    + apply (NoDup_ids_app R2 R1 (nv h0)); auto.
      * intros k v Hin. apply A1 in Hin. lia.
      * intros k v Hin. apply A2 in Hin. lia.
    + lia.
Qed.

(* ------------------------------------------------------------------ initializers *)
Lemma deser_inits_spec2 b I vis : forall inits cs h tbl,
  length cs = length inits -> NoDup (map id_name inits) -> (forall i, In i inits -> id_name i <> 0%N) ->
  TB b I h tbl -> b <= nv h ->
  (forall i, In i inits -> id_input i = true -> In (id_name i) (nms tbl)) ->
  (forall i, In i inits -> id_input i = false -> ~ In (id_name i) (nms tbl) /\ tp_bad_info (itp i) = false /\
      match vi_lookup (id_name i) vis with
      | Some j => vi_bad j = false /\ I (id_name i) (fill_pay (itp i) (vi_pay j))
      | None => I (id_name i) (tp_pay (itp i))
      end) ->
  exists h' R vs, deser_inits h tbl vis (map itp inits) cs = Ok (h', R ++ tbl, vs) /\
    hn h' = hn h /\ hg h' = hg h /\ ht h' = ht h /\ nv h <= nv h' /\
    TB b I h' (R ++ tbl) /\
    nms R = map id_name (filter (fun i => negb (id_input i)) inits) /\
    (forall k v, In (k, v) R -> nv h <= v < nv h') /\ NoDup (ids R) /\
    Forall2 (fun ic v => In (id_name (fst ic), v) (R ++ tbl) /\ (id_input (fst ic) = true -> lookup (id_name (fst ic)) tbl = Some v) /\
                         exists x, getv h' v = Some x /\ v_const x = Some (snd ic))
            (combine inits cs) vs /\
    (forall u x, getv h u = Some x -> exists c', getv h' u = Some (with_const c' x) /\
         (c' = v_const x \/ exists i, In i inits /\ lookup (id_name i) tbl = Some u)).
Proof.
  induction inits as [|i r IH]; intros [|c cr] h tbl Hl Hnd Hnz HT Hb Hin Hni; simpl in Hl; try discriminate.
  - exists h, [], []. cbn. csplit; auto.
    + intros k v [].
    + constructor.
    + intros u x Hx. exists (v_const x). rewrite with_const_id. auto.
  - cbn [map deser_inits]. cbv zeta. rewrite tp_name_itp.
    destruct (N.eqb_spec (id_name i) 0) as [Hz|_]; [exfalso; apply (Hnz i); auto; left; auto|].
    simpl in Hnd. inversion Hnd as [|? ? Hnot Hnd']; subst.
    assert (Hrest : forall i', In i' r -> id_name i' <> id_name i).
    { intros i' Hi' E. apply Hnot. rewrite <- E. apply in_map; auto. }
    assert (Hex : existsb (fun t' => N.eqb (tp_name t') (id_name i)) (map itp r) = false).
    { apply Bool.not_true_is_false. intros Hc. apply existsb_exists in Hc. destruct Hc as (t' & Ht' & He).
      apply in_map_iff in Ht'. destruct Ht' as (i' & Ei' & Hi'). subst t'. rewrite tp_name_itp in He.
      apply N.eqb_eq in He. apply (Hrest i' Hi'); auto. }
    rewrite Hex.
    destruct (lookup (id_name i) tbl) as [v|] eqn:El.
    + (* an input *)
      assert (Hinp : id_input i = true).
      { destruct (id_input i) eqn:Ei; auto. destruct (Hni i (or_introl eq_refl) Ei) as (Hn & _).
        exfalso. apply Hn. apply In_nms. exists v. apply lookup_In; auto. }
      pose proof (lookup_In _ _ _ El) as Hkv.
      destruct (HT _ _ Hkv) as (Hbv & x & Hx & Hxr).
      set (h1 := updv h v (with_const (Some c))).
      assert (F1 : forall u y, getv h u = Some y -> exists c', getv h1 u = Some (with_const c' y)).
      { intros u y Hu. unfold h1. rewrite updv_getv. destruct (Nat.eqb_spec v u) as [->|Hn].
        - rewrite Hu. simpl. eauto.
        - exists (v_const y). rewrite with_const_id. auto. }
      destruct (IH cr h1 tbl) as (h' & R & vs & E & A1 & A2 & A3 & A4 & A5 & A6 & A7 & A7' & A8 & A9);
        [ lia | exact Hnd' | intros i' Hi'; apply Hnz; right; auto | eapply TB_const; eauto
        | unfold h1; rewrite updv_nv; auto | intros i' Hi'; apply Hin; right; auto
        | intros i' Hi'; apply Hni; right; auto | ].
      rewrite E. exists h', R, (v :: vs). unfold h1 in A4, A7. rewrite updv_nv in A4, A7.
      csplit; auto.
      * simpl. rewrite Hinp. simpl. auto.
      * simpl. constructor; auto. simpl. split; [apply in_or_app; auto|]. split; auto.
        assert (G : getv h1 v = Some (with_const (Some c) x)) by (unfold h1; apply updv_getv_eq; auto).
        destruct (A9 _ _ G) as (c' & Hc' & [Ec|(i' & Hi' & Li')]).
        -- exists (with_const c' (with_const (Some c) x)). split; auto.
        -- exfalso. apply (Hrest i' Hi'). exact (TB_inj _ _ _ _ _ _ _ HT (lookup_In _ _ _ Li') Hkv).
      * intros u y Hu. unfold h1 in A9. destruct (Nat.eq_dec v u) as [->|Hn].
        -- assert (G : getv (updv h u (with_const (Some c))) u = Some (with_const (Some c) y)) by (apply updv_getv_eq; auto).
           destruct (A9 _ _ G) as (c' & Hc' & _). exists c'. rewrite with_const_twice in Hc'. split; auto.
           right. exists i. split; [left; auto|]. auto.
        -- assert (G : getv (updv h v (with_const (Some c))) u = Some y) by (rewrite updv_getv_neq; auto).
           destruct (A9 _ _ G) as (c' & Hc' & [Ec|(i' & Hi' & Li')]); exists c'; split; auto.
           right. exists i'. split; [right; auto|auto].
    + (* a new value *)
      assert (Hinp : id_input i = false).
      { destruct (id_input i) eqn:Ei; auto. pose proof (Hin i (or_introl eq_refl) Ei) as Hn.
        apply In_nms in Hn. destruct Hn as (v & Hv). apply lookup_None in El. exfalso. apply El.
        apply in_map_iff. exists (id_name i, v). auto. }
      destruct (Hni i (or_introl eq_refl) Hinp) as (Hnin & Hbad & HI).
      rewrite Hbad.
      dalloc h0 v Ea.
      destruct (alloc_spec _ _ _ _ _ _ Ea) as (Hv & Hnv & Hn0 & Hg0 & Ht0 & Hnew & Hold).
      assert (G : exists h2 p, apply_info_init h0 (itp i) vis v = Ok h2 /\ I (id_name i) p /\
                 getv h2 v = Some (fresh_value (Some (id_name i)) (Some c) p) /\ hn h2 = hn h0 /\ hg h2 = hg h0 /\
                 ht h2 = ht h0 /\ nv h2 = nv h0 /\ (forall u, u <> v -> getv h2 u = getv h0 u)).
      { unfold apply_info_init. rewrite tp_name_itp. destruct (vi_lookup (id_name i) vis) as [j|].
        - destruct HI as (Hjb & HI). rewrite Hjb. eexists. exists (fill_pay (itp i) (vi_pay j)). split; [reflexivity|].
          csplit; auto.
          + rewrite (updv_getv_eq _ _ _ _ Hnew). reflexivity.
          + apply updv_nv.
          + intros u Hu. apply updv_getv_neq; auto.
        - exists h0, (tp_pay (itp i)). csplit; auto. }
      destruct G as (h2 & p & E2 & Hp & G2 & Hn2 & Hg2 & Ht2 & Hnv2 & Hold2). rewrite E2.
      assert (O2 : forall u, u < nv h -> getv h2 u = getv h u).
      { intros u Hu. rewrite Hold2 by lia. auto. }
      destruct (IH cr h2 ((id_name i : name, v) :: tbl)) as (h' & R & vs & E & A1 & A2 & A3 & A4 & A5 & A6 & A7 & A7' & A8 & A9);
        [ lia | exact Hnd' | intros i' Hi'; apply Hnz; right; auto | | | | | ].
      { intros k u [Eq|Hk].
        - inversion Eq; subst k u. eapply tent_fresh; eauto. lia.
        - eapply TB_same; eauto. }
      { lia. }
      { intros i' Hi' Ei'. rewrite nms_cons. apply in_or_app. left. apply Hin; auto. right; auto. }
      { intros i' Hi' Ei'. destruct (Hni i' (or_intror Hi') Ei') as (B1 & B2). split; auto.
        rewrite nms_cons. intros Hc. apply in_app_or in Hc. destruct Hc as [Hc|[Hc|[]]]; auto.
        apply (Hrest i' Hi'). auto. }
      rewrite E. exists h', (R ++ [(id_name i : name, v)]), (v :: vs). rewrite <- !app_assoc. cbn [app].
      csplit; auto; try congruence.
      * lia.
      * rewrite nms_app, A6. cbn. rewrite Hinp. simpl. auto.
      * intros k' v' Hin'. apply in_app_or in Hin'. destruct Hin' as [Hin'|[Hin'|[]]].
        -- apply A7 in Hin'. lia.
        -- inversion Hin'; subst. lia.
      * rewrite ids_app. cbn. constructor; auto. intros Hc. apply In_ids in Hc. destruct Hc as (k' & Hk'). apply A7 in Hk'. lia.
      * simpl. constructor.
        -- simpl. split; [apply in_or_app; right; left; auto|]. split; [intros Hc; congruence|].
           destruct (A9 _ _ G2) as (c' & Hc' & [Ec|(i' & Hi' & Li')]).
           ++ eexists. split; [exact Hc'|]. subst c'. reflexivity.
           ++ exfalso. apply lookup_In in Li'. destruct Li' as [Eq|Li'].
              ** inversion Eq. apply (Hrest i' Hi'). auto.
              ** destruct (TB_lt _ _ _ _ _ _ HT Li'). lia.
        -- eapply Forall2_impl_In; [|exact A8]. intros ic u Hic _ (B1 & B2 & B3). split; auto. split; auto.
           intros Hi. specialize (B2 Hi). rewrite lookup_cons in B2.
           destruct ic as [i' c']. apply in_combine_l in Hic. cbn [fst] in *. pose proof (Hrest i' Hic) as Hne.
           destruct (N.eqb_spec (id_name i') (id_name i)); [contradiction|auto].
      * intros u y Hu. assert (Hul : u < nv h) by (eapply getv_lt; eauto).
        assert (G : getv h2 u = Some y) by (rewrite O2; auto).
        destruct (A9 _ _ G) as (c' & Hc' & [Ec|(i' & Hi' & Li')]); exists c'; split; auto.
        right. exists i'. split; [right; auto|]. rewrite lookup_cons in Li'.
        destruct (N.eqb_spec (id_name i') (id_name i)) as [Eq|_]; [exfalso; apply (Hrest i' Hi'); auto | auto].
Qed.

(* ------------------------------------------------------------------ node inputs with placeholders *)
Lemma resolve2_is_some : forall sc k d, is_some (resolve2 k (map nms sc) d) = is_some (lookup_scopes k sc).
Proof.
  induction sc as [|t r IH]; intros k d; simpl; auto. rewrite lookup_scopes_cons.
  pose proof (lookup_ilast t k) as H. revert H. destruct (index_last k (nms t) 0) as [j|]; intros H.
  - destruct H as (v & Hv & _). rewrite Hv. auto.
  - rewrite H. apply IH.
Qed.

Lemma lookup_keys_none {A} k (P : list (N * A)) : (forall k' v', In (k', v') P -> k' <> k) -> lookup k P = None.
Proof.
  intros H. apply lookup_None. intros Hin. apply in_map_iff in Hin. destruct Hin as ([k' v'] & E & Hin).
  simpl in E; subst k'. eapply H; eauto.
Qed.
Lemma lookup_scopes_ext k v P cur sc :
  lookup_scopes k (cur :: sc) = Some v -> (forall k' v', In (k', v') P -> k' <> k) ->
  lookup_scopes k ((P ++ cur) :: sc) = Some v.
Proof.
  intros H Hk. rewrite lookup_scopes_cons in *. rewrite lookup_app, (lookup_keys_none k P Hk). auto.
Qed.

Lemma resolve_inputs_spec2 sc vis : forall (ins : list (option (ref * N * bool))) h cur,
  (forall o, In o ins -> match o with None => True | Some rd => snd (fst rd) <> 0%N end) ->
  (forall k, vi_lookup k vis <> None -> In k (nms cur)) ->
  (forall k v, In (k, v) cur -> v < nv h) -> (forall t k v, In t sc -> In (k, v) t -> v < nv h) ->
  exists h' P, resolve_inputs h cur sc vis (map in_name ins) = Ok (h', P ++ cur, map (in_val ((P ++ cur) :: sc)) ins) /\
    hn h' = hn h /\ hg h' = hg h /\ ht h' = ht h /\ nv h <= nv h' /\ (forall u, u < nv h -> getv h' u = getv h u) /\
    nms (P ++ cur) = add_free_names (map nms sc) (nms cur) ins /\
    ids (P ++ cur) = add_frees (map ids sc) (ids cur) (map (in_val ((P ++ cur) :: sc)) ins) /\
    (forall k v, In (k, v) P -> nv h <= v < nv h' /\ getv h' v = Some (fresh_value (Some k) None 0%N) /\
                               lookup_scopes k (cur :: sc) = None) /\
    NoDup (ids P) /\
    (forall o, In o ins -> match o with None => True | Some rd => in_val ((P ++ cur) :: sc) o <> None end).
Proof.
  induction ins as [|o r IH]; intros h cur Hz Hvis Hb1 Hb2.
  - exists h, []. cbn. csplit; auto. + intros k v []. + constructor. + intros o [].
  - assert (Hzr : forall o', In o' r -> match o' with None => True | Some rd => snd (fst rd) <> 0%N end).
    { intros; apply Hz; right; auto. }
    pose proof (Hz o (or_introl eq_refl)) as Ho.
    destruct o as [[[rf k] nm]|]; cbn [map in_name fst snd resolve_inputs add_free_names] in *.
    2:{ destruct (IH h cur Hzr Hvis Hb1 Hb2) as (h' & P & E & A1 & A2 & A3 & A4 & A5 & A6 & A7 & A8 & A9 & A10).
        rewrite N.eqb_refl, E. exists h', P. cbn [in_val add_frees]. csplit; auto.
        intros o [<-|Hin]; [exact I | apply A10; auto]. }
    destruct (N.eqb_spec k 0) as [|_]; [contradiction|].
    rewrite <- (map_cons nms cur sc), resolve2_is_some.
    destruct (lookup_scopes k (cur :: sc)) as [v|] eqn:El; cbn [is_some].
    + (* resolved *)
      destruct (IH h cur Hzr Hvis Hb1 Hb2) as (h' & P & E & A1 & A2 & A3 & A4 & A5 & A6 & A7 & A8 & A9 & A10).
      rewrite E. exists h', P.
      assert (Hl' : lookup_scopes k ((P ++ cur) :: sc) = Some v).
      { apply lookup_scopes_ext; auto. intros k' v' Hin ->. destruct (A8 _ _ Hin) as (_ & _ & Hn). congruence. }
      assert (Hiv : in_val ((P ++ cur) :: sc) (Some (rf, k, nm)) = Some v) by (unfold in_val; cbn [fst snd]; auto).
      rewrite Hiv. csplit; auto.
      * cbn [add_frees].
        assert (Hc : in_chain v (ids cur :: map ids sc) = true).
        { apply in_chain_true. destruct (lookup_scopes_In _ _ _ El) as (t & Ht & Hin).
          exists (ids t). split; [rewrite <- (map_cons ids cur sc); apply in_map; auto | apply In_ids; eauto]. }
        rewrite Hc. auto.
      * intros o [<-|Hin]; [rewrite Hiv; discriminate | apply A10; auto].
    + (* placeholder *)
      dalloc h0 v Ea. destruct (alloc_spec _ _ _ _ _ _ Ea) as (Hv & Hnv & Hn0 & Hg0 & Ht0 & Hnew & Hold).
      assert (Hvn : vi_lookup k vis = None).
      { destruct (vi_lookup k vis) eqn:Ev; auto. exfalso.
        assert (Hin : In k (nms cur)) by (apply Hvis; congruence).
        apply In_nms in Hin. destruct Hin as (u & Hu).
        rewrite lookup_scopes_cons in El. destruct (lookup k cur) eqn:Ec; [discriminate|].
        apply lookup_None in Ec. apply Ec. apply in_map_iff. exists (k, u); auto. }
      unfold apply_info_opt. rewrite Hvn.
      destruct (IH h0 ((k : name, v) :: cur)) as (h' & P & E & A1 & A2 & A3 & A4 & A5 & A6 & A7 & A8 & A9 & A10); auto.
      { intros k' Hk'. rewrite nms_cons. apply in_or_app. left. auto. }
      { intros k' v' [Eq|Hin]; [inversion Eq; subst; lia | apply Hb1 in Hin; lia]. }
      { intros t k' v' Ht Hin. specialize (Hb2 _ _ _ Ht Hin). lia. }
      rewrite E. exists h', (P ++ [(k : name, v)]). rewrite <- !app_assoc. cbn [app].
      assert (Hkp : forall k' v', In (k', v') P -> k' <> k).
      { intros k' v' Hin ->. destruct (A8 _ _ Hin) as (_ & _ & Hn). rewrite lookup_scopes_cons, lookup_cons, N.eqb_refl in Hn. discriminate. }
      assert (Hl' : lookup_scopes k ((P ++ (k : name, v) :: cur) :: sc) = Some v).
      { apply lookup_scopes_ext; auto. rewrite lookup_scopes_cons, lookup_cons, N.eqb_refl. auto. }
      assert (Hiv : in_val ((P ++ (k : name, v) :: cur) :: sc) (Some (rf, k, nm)) = Some v) by (unfold in_val; cbn [fst snd]; auto).
      rewrite Hiv. csplit; auto; try congruence.
      * lia.
      * intros u Hu. rewrite A5 by lia. auto.
      * rewrite A6, nms_cons. auto.
      * cbn [add_frees].
        assert (Hc : in_chain v (ids cur :: map ids sc) = false).
        { apply in_chain_false. intros l [<-|Hl] Hin.
          - apply In_ids in Hin. destruct Hin as (k' & Hk'). apply Hb1 in Hk'. lia.
          - apply in_map_iff in Hl. destruct Hl as (t & <- & Ht). apply In_ids in Hin. destruct Hin as (k' & Hk').
            specialize (Hb2 _ _ _ Ht Hk'). lia. }
        rewrite Hc, A7, ids_cons. auto.
      * intros k' v' Hin. apply in_app_or in Hin. destruct Hin as [Hin|[Hin|[]]].
        -- destruct (A8 _ _ Hin) as (B1 & B2 & B3). split; [lia|]. split; auto.
           rewrite lookup_scopes_cons in B3 |- *. rewrite lookup_cons in B3. destruct (N.eqb k' k); [discriminate|auto].
        -- inversion Hin; subst k' v'. split; [lia|]. split; auto. rewrite A5 by lia. auto.
      * rewrite ids_app. cbn. constructor; auto. intros Hc. apply In_ids in Hc. destruct Hc as (k' & Hk').
        destruct (A8 _ _ Hk') as (B1 & _). lia.
      * intros o [<-|Hin]; [rewrite Hiv; discriminate | apply A10; auto].
Qed.

(* ------------------------------------------------------------------ graph outputs (fresh values for unbound names) *)
Lemma graph_outputs_spec2 tbl : forall (outs : list (ref * vdesc)) h,
  (forall k v, In (k, v) tbl -> v < nv h) ->
  exists h' outvs, graph_outputs h tbl (map (fun o => vi_of (snd o)) outs) = Ok (h', outvs) /\
    hn h' = hn h /\ hg h' = hg h /\ ht h' = ht h /\ nv h <= nv h' /\
    (forall u x, getv h u = Some x -> exists p, getv h' u = Some (with_info p x) /\
        (p = v_info x \/ exists o, In o outs /\ lookup (vd_name (snd o)) tbl = Some u /\ p = vd_pay (snd o))) /\
    Forall2 (fun o v => match lookup (vd_name (snd o)) tbl with
                        | Some u => v = u /\ exists x o', getv h' u = Some x /\ In o' outs /\
                                      lookup (vd_name (snd o')) tbl = Some u /\ v_info x = vd_pay (snd o')
                        | None => nv h <= v < nv h' /\
                                  getv h' v = Some (fresh_value (Some (vd_name (snd o))) None (vd_pay (snd o)))
                        end) outs outvs.
Proof.
  induction outs as [|o r IH]; intros h Hb; cbn [map graph_outputs].
  - exists h, []. csplit; auto. intros u x Hx. exists (v_info x). rewrite with_info_id. auto.
  - cbn [vi_of vi_name]. destruct (lookup (vd_name (snd o)) tbl) as [v|] eqn:Ev.
    + assert (Hv : v < nv h) by (eapply Hb; apply lookup_In; eauto).
      unfold apply_info. cbn [vi_of vi_name vi_bad vi_pay].
      set (h1 := updv h v (with_info (vd_pay (snd o)))).
      destruct (IH h1) as (h' & outvs & E & A1 & A2 & A3 & A4 & A5 & A6).
      { intros k u Hin. unfold h1. rewrite updv_nv. eauto. }
      rewrite E. exists h', (v :: outvs). unfold h1 in A4. rewrite updv_nv in A4.
      assert (F : forall u x, getv h u = Some x -> exists p, getv h' u = Some (with_info p x) /\
          (p = v_info x \/ exists o', In o' (o :: r) /\ lookup (vd_name (snd o')) tbl = Some u /\ p = vd_pay (snd o'))).
      { intros u x Hx. destruct (Nat.eq_dec v u) as [->|Hn].
        - assert (G : getv h1 u = Some (with_info (vd_pay (snd o)) x)) by (unfold h1; apply updv_getv_eq; auto).
          destruct (A5 _ _ G) as (p & Hp & Hd). exists p. rewrite with_info_twice in Hp. split; auto.
          right. destruct Hd as [Hd|(o' & Ho' & Lo' & Po')].
          + exists o. split; [left; auto|]. split; auto.
          + exists o'. split; [right; auto|auto].
        - assert (G : getv h1 u = Some x) by (unfold h1; rewrite updv_getv_neq; auto).
          destruct (A5 _ _ G) as (p & Hp & Hd). exists p. split; auto.
          destruct Hd as [Hd|(o' & Ho' & Lo' & Po')]; auto. right. exists o'. split; [right; auto|auto]. }
      csplit; auto. constructor.
      * rewrite Ev. split; auto.
        destruct (getv_some h v Hv) as (x & Hx).
        assert (G : getv h1 v = Some (with_info (vd_pay (snd o)) x)) by (unfold h1; apply updv_getv_eq; auto).
        destruct (A5 _ _ G) as (p' & Hp' & Hd').
        destruct Hd' as [Hd'|(o' & Ho' & Lo' & Po')].
        -- exists (with_info p' (with_info (vd_pay (snd o)) x)), o. csplit; auto. left; auto.
        -- exists (with_info p' (with_info (vd_pay (snd o)) x)), o'. csplit; auto. right; auto.
      * eapply Forall2_impl; [|exact A6]. intros o' v' Hm. cbn beta in Hm. revert Hm. destruct (lookup (vd_name (snd o')) tbl); intros Hm.
        -- destruct Hm as (B1 & x & o'' & B2 & B3 & B4 & B5). split; auto. exists x, o''. split; auto. split; [right; auto|]. split; auto.
        -- unfold h1 in Hm. rewrite updv_nv in Hm. auto.
    + dalloc h0 v Ea. destruct (alloc_spec _ _ _ _ _ _ Ea) as (Hv & Hnv & Hn0 & Hg0 & Ht0 & Hnew & Hold).
      unfold apply_info. cbn [vi_of vi_name vi_bad vi_pay].
      set (h1 := updv h0 v (with_info (vd_pay (snd o)))).
      assert (G1 : getv h1 v = Some (fresh_value (Some (vd_name (snd o))) None (vd_pay (snd o)))).
      { unfold h1. rewrite (updv_getv_eq _ _ _ _ Hnew). reflexivity. }
      assert (NV1 : nv h1 = S (nv h)) by (unfold h1; rewrite updv_nv; auto).
      destruct (IH h1) as (h' & outvs & E & A1 & A2 & A3 & A4 & A5 & A6).
      { intros k u Hin. rewrite NV1. specialize (Hb _ _ Hin). lia. }
      rewrite E. exists h', (v :: outvs). unfold h1 in A1, A2, A3. cbn in A1, A2, A3.
      csplit; try congruence.
      * lia.
      * intros u x Hx. assert (Hu : u < nv h) by (eapply getv_lt; eauto).
        assert (G : getv h1 u = Some x).
        { unfold h1. rewrite updv_getv_neq by lia. rewrite Hold; auto. }
        destruct (A5 _ _ G) as (p & Hp & Hd). exists p. split; auto.
        destruct Hd as [Hd|(o' & Ho' & Lo' & Po')]; auto. right. exists o'. split; [right; auto|auto].
      * constructor.
        -- rewrite Ev. split; [lia|].
           destruct (A5 _ _ G1) as (p & Hp & [Hd|(o' & Ho' & Lo' & _)]).
           ++ rewrite Hp, Hd. reflexivity.
           ++ exfalso. apply lookup_In in Lo'. apply Hb in Lo'. lia.
        -- eapply Forall2_impl; [|exact A6]. intros o' v' Hm. cbn beta in Hm. revert Hm. destruct (lookup (vd_name (snd o')) tbl); intros Hm.
           ++ destruct Hm as (B1 & x & o'' & B2 & B3 & B4 & B5). split; auto. exists x, o''. split; auto. split; [right; auto|]. split; auto.
           ++ destruct Hm as (B1 & B2). split; auto. lia.
Qed.

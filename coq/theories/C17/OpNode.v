(* C17/OpNode.v — Node.__init__ (Model.new_node) preserves the heap invariant: proof of Specs.new_node_spec. *)
From Coq Require Import NArith List Bool Arith Lia.
From IRV Require Import Base.Exn C03.Model C03.Inv C17.Basics C17.Specs.
Import ListNotations.

(* ------------------------------------------------------------------ characterisation of set_prods / add_uses *)

(* the uses appended to value v by add_uses _ nid ins k *)
Fixpoint new_uses (nid v : nat) (ins : list (option nat)) (k : nat) : list (nat * nat) :=
  match ins with
  | [] => []
  | None :: r => new_uses nid v r (S k)
  | Some w :: r => if Nat.eqb w v then (nid, k) :: new_uses nid v r (S k) else new_uses nid v r (S k)
  end.

(* the producer of value v after set_prods _ nid outs k, given its producer p before *)
Fixpoint new_prod (nid v : nat) (outs : list nat) (k : nat) (p : option (nat * nat)) : option (nat * nat) :=
  match outs with
  | [] => p
  | w :: r => new_prod nid v r (S k) (if Nat.eqb w v then Some (nid, k) else p)
  end.

Lemma with_uses_id x : with_uses (v_uses x) x = x.
Proof. destruct x; reflexivity. Qed.
Lemma with_prod_id x : with_prod (v_prod x) x = x.
Proof. destruct x; reflexivity. Qed.

Lemma set_prods_length l nid outs k : length (set_prods l nid outs k) = length l.
Proof.
  revert l k; induction outs as [|w r IH]; intros l k; simpl; auto.
  rewrite IH, upd_length; auto.
Qed.

Lemma add_uses_length l nid ins k : length (add_uses l nid ins k) = length l.
Proof.
  revert l k; induction ins as [|[w|] r IH]; intros l k; simpl; auto.
  rewrite IH, upd_length; auto.
Qed.

Lemma set_prods_nth l nid outs k v :
  nth_error (set_prods l nid outs k) v =
  option_map (fun x => with_prod (new_prod nid v outs k (v_prod x)) x) (nth_error l v).
Proof.
  revert l k; induction outs as [|w r IH]; intros l k; simpl.
  - destruct (nth_error l v) as [x|]; simpl; auto. rewrite with_prod_id; auto.
  - rewrite IH, nth_error_upd. destruct (Nat.eqb w v); auto.
    destruct (nth_error l v) as [x|]; simpl; auto.
Qed.

Lemma add_uses_nth l nid ins k v :
  nth_error (add_uses l nid ins k) v =
  option_map (fun x => with_uses (v_uses x ++ new_uses nid v ins k) x) (nth_error l v).
Proof.
  revert l k; induction ins as [|[w|] r IH]; intros l k; simpl.
  - destruct (nth_error l v) as [x|]; simpl; auto. rewrite app_nil_r, with_uses_id; auto.
  - rewrite IH, nth_error_upd. destruct (Nat.eqb w v); auto.
    destruct (nth_error l v) as [x|]; simpl; auto.
    unfold with_uses at 1. simpl. rewrite <- app_assoc. reflexivity.
  - apply IH.
Qed.

Lemma new_prod_notin nid v outs k p : ~ In v outs -> new_prod nid v outs k p = p.
Proof.
  revert k p; induction outs as [|w r IH]; intros k p H; simpl; auto.
  destruct (Nat.eqb_spec w v) as [->|Hn].
  - exfalso; apply H; left; auto.
  - apply IH. intro; apply H; right; auto.
Qed.

Lemma new_prod_at nid v outs k p i :
  NoDup outs -> nth_error outs i = Some v -> new_prod nid v outs k p = Some (nid, k + i).
Proof.
  revert k p i; induction outs as [|w r IH]; intros k p [|i] Hnd H; simpl in *; try discriminate.
  - inversion H; subst w. rewrite Nat.eqb_refl. inversion Hnd; subst.
    rewrite new_prod_notin; auto. rewrite Nat.add_0_r; auto.
  - inversion Hnd; subst. rewrite (IH (S k) _ i); auto. do 2 f_equal. lia.
Qed.

Lemma new_uses_in nid v ins k n j :
  In (n, j) (new_uses nid v ins k) <->
  n = nid /\ exists i, j = k + i /\ nth_error ins i = Some (Some v).
Proof.
  revert k; induction ins as [|[w|] r IH]; intros k; simpl.
  - split; [tauto|]. intros (_ & [|i] & _ & H); discriminate.
  - destruct (Nat.eqb_spec w v) as [->|Hn]; simpl; rewrite IH; split.
    + intros [H|(Hn & i & Hj & Hi)].
      * inversion H; subst. split; auto. exists 0. split; [lia|auto].
      * split; auto. exists (S i). split; [lia|auto].
    + intros (Hn & [|i] & Hj & Hi).
      * left. subst. f_equal. lia.
      * right. split; auto. exists i. split; [lia|auto].
    + intros (Hn' & i & Hj & Hi). split; auto. exists (S i). split; [lia|auto].
    + intros (Hn' & [|i] & Hj & Hi); simpl in Hi.
      * congruence.
      * split; auto. exists i. split; [lia|auto].
  - rewrite IH; split.
    + intros (Hn' & i & Hj & Hi). split; auto. exists (S i). split; [lia|auto].
    + intros (Hn' & [|i] & Hj & Hi); simpl in Hi.
      * congruence.
      * split; auto. exists i. split; [lia|auto].
Qed.

Lemma new_uses_nodup nid v ins k : NoDup (new_uses nid v ins k).
Proof.
  revert k; induction ins as [|[w|] r IH]; intros k; simpl; auto.
  - constructor.
  - destruct (Nat.eqb w v); auto. constructor; auto.
    rewrite new_uses_in. intros (_ & i & Hj & _). lia.
Qed.

(* ------------------------------------------------------------------ the heap after Node.__init__ *)

Definition nval (nid : nat) (ins : list (option nat)) (outs : list nat) (v : nat) (x : value) : value :=
  mkV (v_name x) (new_prod nid v outs 0 (v_prod x)) (v_uses x ++ new_uses nid v ins 0)
      (v_owner x) (v_in x) (v_out x) (v_init x) (v_const x) (v_info x).

Section NewNode.
  Variables (h : heap) (nm : option name) (op tok : N) (ins : list (option nat)) (outs : list nat)
            (attrs : list (name * attr)).
  Hypothesis HI : Inv h.
  Hypothesis Hex : existsb (has_prod h) outs = false.
  Hypothesis Hins : forall v, In (Some v) ins -> v < nv h.
  Hypothesis Houts : forall v, In v outs -> v < nv h.
  Hypothesis Hnd : NoDup outs.
  Hypothesis Hrole : forall v x, In v outs -> getv h v = Some x -> v_in x = false /\ v_init x = false.

  Let nid := nn h.
  Let newn := mkN nm op tok ins outs (dict_of [] attrs) None.
  Let h' := mkH (add_uses (set_prods (hv h) nid outs 0) nid ins 0) (hn h ++ [newn]) (hg h) (ht h).

  Lemma nn_nv' : nv h' = nv h.
  Proof. unfold nv, h'; simpl. rewrite add_uses_length, set_prods_length; auto. Qed.
  Lemma nn_nn' : nn h' = S (nn h).
  Proof. unfold nn, h'; simpl. rewrite app_length; simpl; lia. Qed.
  Lemma nn_ngr' : ngr h' = ngr h.
  Proof. reflexivity. Qed.
  Lemma nn_getg g : getg h' g = getg h g.
  Proof. reflexivity. Qed.

  Lemma nn_getv v : getv h' v = option_map (nval nid ins outs v) (getv h v).
  Proof.
    unfold getv, h'; simpl. rewrite add_uses_nth, set_prods_nth.
    destruct (nth_error (hv h) v) as [x|]; simpl; auto.
  Qed.

  Lemma nn_getv_inv v x' : getv h' v = Some x' -> exists x, getv h v = Some x /\ x' = nval nid ins outs v x.
  Proof.
    rewrite nn_getv. destruct (getv h v) as [x|]; simpl; intros H; inversion H; eauto.
  Qed.

  Lemma nn_getn_old n : n < nn h -> getn h' n = getn h n.
  Proof. intros H. unfold getn, h'; simpl. apply nth_error_app_old; auto. Qed.
  Lemma nn_getn_new : getn h' nid = Some newn.
  Proof. unfold getn, h', nid, nn; simpl. apply nth_error_app_new. Qed.
  Lemma nn_getn_inv n y : getn h' n = Some y -> (n < nid /\ getn h n = Some y) \/ (n = nid /\ y = newn).
  Proof. unfold getn, h'; simpl. apply nth_error_app_inv. Qed.

  (* the outputs are allocated and had no producer *)
  Lemma nn_outs_noprod v : In v outs -> exists x, getv h v = Some x /\ v_prod x = None.
  Proof.
    intros Hv. destruct (getv_some h v (Houts v Hv)) as (x & Hx). exists x; split; auto.
    assert (Hf : has_prod h v = false).
    { destruct (has_prod h v) eqn:E; auto.
      assert (existsb (has_prod h) outs = true) by (apply existsb_exists; eauto). congruence. }
    unfold has_prod in Hf. rewrite Hx in Hf. destruct (v_prod x); congruence.
  Qed.

  (* old producers: unchanged for values outside outs *)
  Lemma nn_prod_notin v x : ~ In v outs -> v_prod (nval nid ins outs v x) = v_prod x.
  Proof. intros H; simpl. apply new_prod_notin; auto. Qed.
  Lemma nn_prod_at v x i : nth_error outs i = Some v -> v_prod (nval nid ins outs v x) = Some (nid, i).
  Proof. intros H; simpl. rewrite (new_prod_at nid v outs 0 _ i); auto. Qed.

  (* ---------------- C0 *)
  Lemma nn_c0_nin n y v : getn h' n = Some y -> In (Some v) (n_inputs y) -> v < nv h'.
  Proof.
    rewrite nn_nv'. intros Hn Hv. destruct (nn_getn_inv _ _ Hn) as [(_ & Ho)|(_ & ->)].
    - eapply c0_nin; eauto.
    - apply Hins; auto.
  Qed.
  Lemma nn_c0_nout n y v : getn h' n = Some y -> In v (n_outputs y) -> v < nv h'.
  Proof.
    rewrite nn_nv'. intros Hn Hv. destruct (nn_getn_inv _ _ Hn) as [(_ & Ho)|(_ & ->)].
    - eapply c0_nout; eauto.
    - apply Houts; auto.
  Qed.
  Lemma nn_c0_ngraph n y g : getn h' n = Some y -> n_graph y = Some g -> g < ngr h'.
  Proof.
    intros Hn Hg. destruct (nn_getn_inv _ _ Hn) as [(_ & Ho)|(_ & ->)].
    - eapply (c0_ngraph h HI); eauto.
    - discriminate.
  Qed.
  Lemma nn_c0_gin g z v : getg h' g = Some z -> In v (g_inputs z) -> v < nv h'.
  Proof. rewrite nn_nv'. apply (c0_gin h HI). Qed.
  Lemma nn_c0_gout g z v : getg h' g = Some z -> In v (g_outputs z) -> v < nv h'.
  Proof. rewrite nn_nv'. apply (c0_gout h HI). Qed.
  Lemma nn_c0_ginit g z k v : getg h' g = Some z -> In (k, v) (g_inits z) -> v < nv h'.
  Proof. rewrite nn_nv'. apply (c0_ginit h HI). Qed.
  Lemma nn_c0_gnodes g z n : getg h' g = Some z -> In n (g_nodes z) -> n < nn h'.
  Proof. rewrite nn_nn'. intros Hg Hn. pose proof (c0_gnodes h HI g z n Hg Hn). lia. Qed.
  Lemma nn_c0_uses v x n i : getv h' v = Some x -> In (n, i) (v_uses x) -> n < nn h'.
  Proof.
    rewrite nn_nn'. intros Hv Hu. destruct (nn_getv_inv _ _ Hv) as (x0 & Hx0 & ->). simpl in Hu.
    apply in_app_or in Hu. destruct Hu as [Hu|Hu].
    - pose proof (c0_uses h HI v x0 n i Hx0 Hu). lia.
    - apply new_uses_in in Hu. destruct Hu as (-> & _). unfold nid; lia.
  Qed.
  Lemma nn_c0_prod v x n i : getv h' v = Some x -> v_prod x = Some (n, i) -> n < nn h'.
  Proof.
    rewrite nn_nn'. intros Hv Hp. destruct (nn_getv_inv _ _ Hv) as (x0 & Hx0 & ->).
    destruct (in_dec Nat.eq_dec v outs) as [Hi|Hi].
    - destruct (In_nth_error _ _ Hi) as (j & Hj). rewrite (nn_prod_at _ _ _ Hj) in Hp.
      inversion Hp; subst. unfold nid; lia.
    - rewrite nn_prod_notin in Hp by auto. pose proof (c0_prod h HI v x0 n i Hx0 Hp). lia.
  Qed.
  Lemma nn_c0_owner v x g : getv h' v = Some x -> v_owner x = Some g -> g < ngr h'.
  Proof.
    intros Hv Ho. destruct (nn_getv_inv _ _ Hv) as (x0 & Hx0 & ->). simpl in Ho.
    apply (c0_owner h HI v x0 g Hx0 Ho).
  Qed.

  (* ---------------- I1 *)
  Lemma nn_i1_uses v x n i : getv h' v = Some x ->
    (In (n, i) (v_uses x) <-> exists y, getn h' n = Some y /\ nth_error (n_inputs y) i = Some (Some v)).
  Proof.
    intros Hv. destruct (nn_getv_inv _ _ Hv) as (x0 & Hx0 & ->). simpl. rewrite in_app_iff. split.
    - intros [Hu|Hu].
      + pose proof (c0_uses h HI v x0 n i Hx0 Hu) as Hlt.
        apply (i1_uses h HI v x0 n i Hx0) in Hu. destruct Hu as (y & Hy & Hi).
        exists y. split; auto. rewrite nn_getn_old; auto.
      + apply new_uses_in in Hu. destruct Hu as (-> & j & -> & Hj).
        exists newn. split; [apply nn_getn_new | exact Hj].
    - intros (y & Hy & Hi). destruct (nn_getn_inv _ _ Hy) as [(_ & Ho)|(-> & ->)].
      + left. apply (i1_uses h HI v x0 n i Hx0). eauto.
      + right. apply new_uses_in. split; auto. exists i. split; auto.
  Qed.
  Lemma nn_i1_nodup v x : getv h' v = Some x -> NoDup (v_uses x).
  Proof.
    intros Hv. destruct (nn_getv_inv _ _ Hv) as (x0 & Hx0 & ->). simpl.
    assert (Hd : forall a, In a (v_uses x0) -> ~ In a (new_uses nid v ins 0)).
    { intros (n, i) Hu Hu'. pose proof (c0_uses h HI v x0 n i Hx0 Hu) as Hlt.
      apply new_uses_in in Hu'. destruct Hu' as (-> & _). unfold nid in Hlt; lia. }
    pose proof (i1_nodup h HI v x0 Hx0) as Ho. pose proof (new_uses_nodup nid v ins 0) as Hn.
    revert Ho Hd. generalize (v_uses x0) as l. induction l as [|a l IH]; intros Ho Hd; simpl; auto.
    inversion Ho; subst. constructor.
    - rewrite in_app_iff. intros [H|H]; [tauto|]. apply (Hd a); simpl; auto.
    - apply IH; auto. intros b Hb. apply Hd; simpl; auto.
  Qed.

  (* ---------------- I2 *)
  Lemma nn_i2_out n y i v : getn h' n = Some y -> nth_error (n_outputs y) i = Some v ->
    exists x, getv h' v = Some x /\ v_prod x = Some (n, i).
  Proof.
    intros Hn Hi. destruct (nn_getn_inv _ _ Hn) as [(Hlt & Ho)|(-> & ->)].
    - destruct (i2_out h HI n y i v Ho Hi) as (x0 & Hx0 & Hp).
      exists (nval nid ins outs v x0). split; [rewrite nn_getv, Hx0; auto|].
      rewrite nn_prod_notin; auto.
      intros Hin. destruct (nn_outs_noprod v Hin) as (x1 & Hx1 & Hp1). congruence.
    - simpl in Hi. assert (Hin : In v outs) by (eapply nth_error_In; eauto).
      destruct (nn_outs_noprod v Hin) as (x0 & Hx0 & _).
      exists (nval nid ins outs v x0). split; [rewrite nn_getv, Hx0; auto|].
      apply nn_prod_at; auto.
  Qed.
  Lemma nn_i2_prod v x n i : getv h' v = Some x -> v_prod x = Some (n, i) ->
    exists y, getn h' n = Some y /\ nth_error (n_outputs y) i = Some v.
  Proof.
    intros Hv Hp. destruct (nn_getv_inv _ _ Hv) as (x0 & Hx0 & ->).
    destruct (in_dec Nat.eq_dec v outs) as [Hi|Hi].
    - destruct (In_nth_error _ _ Hi) as (j & Hj). rewrite (nn_prod_at _ _ _ Hj) in Hp.
      inversion Hp; subst. exists newn. split; [apply nn_getn_new | exact Hj].
    - rewrite nn_prod_notin in Hp by auto.
      destruct (i2_prod h HI v x0 n i Hx0 Hp) as (y & Hy & Ho).
      exists y. split; auto. rewrite nn_getn_old; auto. eapply getn_lt; eauto.
  Qed.

  (* ---------------- I3 *)
  Lemma nn_i3_graph n y g : getn h' n = Some y ->
    (n_graph y = Some g <-> exists z, getg h' g = Some z /\ In n (g_nodes z)).
  Proof.
    intros Hn. destruct (nn_getn_inv _ _ Hn) as [(Hlt & Ho)|(-> & ->)].
    - apply (i3_graph h HI n y g Ho).
    - simpl. split; [discriminate|]. intros (z & Hz & Hin).
      pose proof (c0_gnodes h HI g z nid Hz Hin). unfold nid in *; lia.
  Qed.
  Lemma nn_i3_nodup g z : getg h' g = Some z -> NoDup (g_nodes z).
  Proof. apply (i3_nodup h HI). Qed.

  (* ---------------- I4 *)
  Lemma nn_i4_in v x g : getv h' v = Some x ->
    ((v_in x = true /\ v_owner x = Some g) <-> exists z, getg h' g = Some z /\ In v (g_inputs z)).
  Proof.
    intros Hv. destruct (nn_getv_inv _ _ Hv) as (x0 & Hx0 & ->). simpl. apply (i4_in h HI v x0 g Hx0).
  Qed.
  Lemma nn_i4_out v x g : getv h' v = Some x ->
    ((v_out x = true /\ v_owner x = Some g) <-> exists z, getg h' g = Some z /\ In v (g_outputs z)).
  Proof.
    intros Hv. destruct (nn_getv_inv _ _ Hv) as (x0 & Hx0 & ->). simpl. apply (i4_out h HI v x0 g Hx0).
  Qed.

  (* ---------------- I5 *)
  Lemma nn_i5_key g z k v : getg h' g = Some z -> In (k, v) (g_inits z) ->
    exists x, getv h' v = Some x /\ v_name x = Some k /\ v_init x = true /\ v_owner x = Some g.
  Proof.
    intros Hg Hin. destruct (i5_key h HI g z k v Hg Hin) as (x0 & Hx0 & H1 & H2 & H3).
    exists (nval nid ins outs v x0). split; [rewrite nn_getv, Hx0; auto|]. simpl; auto.
  Qed.
  Lemma nn_i5_nodup g z : getg h' g = Some z -> NoDup (map fst (g_inits z)).
  Proof. apply (i5_nodup h HI). Qed.
  Lemma nn_i5_flag v x g : getv h' v = Some x -> v_init x = true -> v_owner x = Some g ->
    exists z k, getg h' g = Some z /\ In (k, v) (g_inits z).
  Proof.
    intros Hv. destruct (nn_getv_inv _ _ Hv) as (x0 & Hx0 & ->). simpl. apply (i5_flag h HI v x0 g Hx0).
  Qed.

  (* ---------------- I6 *)
  Lemma nn_i6_in g z v x : getg h' g = Some z -> In v (g_inputs z) -> getv h' v = Some x -> v_prod x = None.
  Proof.
    intros Hg Hin Hv. destruct (nn_getv_inv _ _ Hv) as (x0 & Hx0 & ->).
    rewrite nn_prod_notin; [apply (i6_in h HI g z v x0 Hg Hin Hx0)|].
    intros Ho. destruct (Hrole v x0 Ho Hx0) as (Hf & _).
    assert (v_in x0 = true /\ v_owner x0 = Some g) as (Ht & _) by (apply (i4_in h HI v x0 g Hx0); eauto).
    congruence.
  Qed.
  Lemma nn_i6_init g z k v x : getg h' g = Some z -> In (k, v) (g_inits z) -> getv h' v = Some x -> v_prod x = None.
  Proof.
    intros Hg Hin Hv. destruct (nn_getv_inv _ _ Hv) as (x0 & Hx0 & ->).
    rewrite nn_prod_notin; [apply (i6_init h HI g z k v x0 Hg Hin Hx0)|].
    intros Ho. destruct (Hrole v x0 Ho Hx0) as (_ & Hf).
    destruct (i5_key h HI g z k v Hg Hin) as (x1 & Hx1 & _ & Ht & _). congruence.
  Qed.

  (* ---------------- I7 *)
  Lemma nn_i7_owner v x : getv h' v = Some x ->
    (v_owner x = None <-> (v_in x = false /\ v_out x = false /\ v_init x = false)).
  Proof.
    intros Hv. destruct (nn_getv_inv _ _ Hv) as (x0 & Hx0 & ->). simpl. apply (i7_owner h HI v x0 Hx0).
  Qed.

  Lemma nn_inv : Inv h'.
  Proof.
    constructor.
    - exact nn_c0_nin.
    - exact nn_c0_nout.
    - exact nn_c0_ngraph.
    - exact nn_c0_gin.
    - exact nn_c0_gout.
    - exact nn_c0_ginit.
    - exact nn_c0_gnodes.
    - exact nn_c0_uses.
    - exact nn_c0_prod.
    - exact nn_c0_owner.
    - exact nn_i1_uses.
    - exact nn_i1_nodup.
    - exact nn_i2_out.
    - exact nn_i2_prod.
    - exact nn_i3_graph.
    - exact nn_i3_nodup.
    - exact nn_i4_in.
    - exact nn_i4_out.
    - exact nn_i5_key.
    - exact nn_i5_nodup.
    - exact nn_i5_flag.
    - exact nn_i6_in.
    - exact nn_i6_init.
    - exact nn_i7_owner.
  Qed.

  Lemma nn_frame_v v x : getv h v = Some x ->
     exists x', getv h' v = Some x' /\ v_name x' = v_name x /\ v_owner x' = v_owner x /\ v_in x' = v_in x /\
                v_out x' = v_out x /\ v_init x' = v_init x /\ v_const x' = v_const x /\ v_info x' = v_info x /\
                (~ In v outs -> v_prod x' = v_prod x).
  Proof.
    intros Hx. exists (nval nid ins outs v x). split; [rewrite nn_getv, Hx; auto|].
    repeat (split; [reflexivity|]). apply nn_prod_notin.
  Qed.
End NewNode.

Lemma new_node_inv : new_node_spec.
Proof.
  unfold new_node_spec. intros h nm op tok ins outs attrs h' nid HI Hnew Hins Houts Hnd Hrole.
  unfold new_node in Hnew. destruct (existsb (has_prod h) outs) eqn:Hex; [discriminate|].
  inversion Hnew; subst h' nid; clear Hnew.
  split; [apply nn_inv; auto|].
  split; [reflexivity|].
  split; [apply nn_nn'|].
  split; [apply nn_nv'|].
  split; [reflexivity|].
  split; [reflexivity|].
  split; [intros v x Hx; apply nn_frame_v; auto|].
  intros n Hn. apply nn_getn_old; auto.
Qed.


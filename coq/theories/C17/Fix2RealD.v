(* C17/Fix2RealD.v — the statements of the mutual induction over the proto for punfold_real, the provisional
   description pre2_n of a node of the graph being built (final once the graph outputs / Graph() have run),
   and all cases of the induction except the graph case (Fix2RealE.v). *)
From Coq Require Import NArith List Bool Arith Lia.
From IRV Require Import Base.Exn C03.Model C03.Canon C03.Inv C03.Tree C03.TreeF C03.IsoDeserA C03.IsoDeserB C03.IsoDeserC
  C03.IsoDeserD
  C17.Basics C17.Specs C17.Steps C17.Phases C17.OpNode C17.OpGraph C17.Deser C17.Top C17.Tree2 C17.PUnfold C17.Fix2Defs
  C17.Fix2RealA C17.Fix2RealB C17.Fix2RealC.
Import ListNotations.

Arguments alloc_value : simpl never.
Arguments new_node : simpl never.
Arguments new_graph : simpl never.
Arguments lookup_scopes : simpl never.
Arguments lookup : simpl never.
Arguments resolve_inputs : simpl never.
Arguments resolve_outputs : simpl never.

Definition range (h h' : heap) (v : nat) : Prop := nv h <= v < nv h'.

(* ------------------------------------------------------------------ statements *)
Definition PG (gp : gproto) : Prop := forall sc h h' gid,
  SCB (nv h) h sc -> deser_graph gp sc h = Ok (h', gid) ->
  exists T, pu_g (map nms sc) gp = Some T /\ real2_g (range h h') h' (map ids sc) gid T /\ vstep h h' /\ ngr h <= gid < ngr h'.
Definition PGs (gs : gprotos) : Prop := forall sc h h' l,
  SCB (nv h) h sc -> deser_graphs gs sc h = Ok (h', l) ->
  exists Ts, pu_gs (map nms sc) gs = Some Ts /\
    Forall2 (fun g T => g < ngr h' /\ real2_g (range h h') h' (map ids sc) g T) l Ts /\ vstep h h'.
Definition RA (h h' : heap) (sc : list table) (x : name * attr) (t : atree) : Prop :=
  real2_a (range h h') h' (map ids sc) (ngr h') x t /\ fst x = aname t.
Definition PA (a : aproto) : Prop := forall sc h h' x,
  SCB (nv h) h sc -> deser_attr a sc h = Ok (h', x) ->
  exists t, pu_a (map nms sc) a = Some t /\ RA h h' sc x t /\ vstep h h'.
Definition PAs (al : aprotos) : Prop := forall sc h h' l,
  SCB (nv h) h sc -> deser_attrs al sc h = Ok (h', l) ->
  exists ts, pu_as (map nms sc) al = Some ts /\ Forall2 (RA h h' sc) l ts /\ vstep h h'.

(* ---- provisional nodes *)
Definition out_rel2 (P : nat -> Prop) (h : heap) (tbl : table) (v : nat) (k : N) : Prop :=
  if N.eqb k 0 then P v /\ v < nv h /\ vdesc_of [] h v = empty_vd else lookup k tbl = Some v.
Definition pre2_n (P : nat -> Prop) (h : heap) (outer : list (list nat)) (cur : list nat) (gb : nat) (tbl : table)
           (n : nat) (pn : pnode) (cur1 : list nat) : Prop :=
  exists y outs, getn h n = Some y /\ n_name y = Some (pn_name pn) /\ n_op y = pn_op pn /\ n_tok y = pn_tok pn /\
    cur1 = add_frees outer cur (n_inputs y) /\
    map (in_desc h (cur1 :: outer)) (n_inputs y) = pn_ins pn /\
    pn_outs pn = trim_names outs /\ Forall2 (out_rel2 P h tbl) (n_outputs y) outs /\
    (forall v, In (Some v) (n_inputs y) -> v < nv h) /\
    real2_as P h (cur1 :: outer) gb (n_attrs y) (atrees_of (pn_attrs pn)).
Fixpoint pre2_ns (P : nat -> Prop) (h : heap) (outer : list (list nat)) (cur : list nat) (gb : nat) (tbl : table)
         (ns : list nat) (pns : list pnode) (lvl : list nat) {struct pns} : Prop :=
  match pns, ns with
  | [], [] => lvl = cur
  | pn :: r, n :: ns' => exists cur1, pre2_n P h outer cur gb tbl n pn cur1 /\ pre2_ns P h outer cur1 gb tbl ns' r lvl
  | _, _ => False
  end.

Definition PN (n : nproto) : Prop := forall b sc vis h cur h' cur' nid,
  SCB b h sc -> TBL b h cur -> b <= nv h -> deser_node n cur sc vis h = Ok (h', cur', nid) ->
  exists pn, pu_n vis (map nms sc) (nms cur) n = Some (nms cur', pn) /\ TBL b h' cur' /\ grows (nv h) cur cur' /\ vstep h h' /\
    nn h <= nid < nn h' /\
    pre2_n (fun v => range h h' v /\ ~ In v (ids cur')) h' (map ids sc) (ids cur) (ngr h') cur' nid pn (ids cur').
Definition PNs (ns : nprotos) : Prop := forall b sc vis h cur h' cur' nids,
  SCB b h sc -> TBL b h cur -> b <= nv h -> deser_nodes ns cur sc vis h = Ok (h', cur', nids) ->
  exists pns, pu_ns vis (map nms sc) (nms cur) ns = Some (nms cur', pns) /\ TBL b h' cur' /\ grows (nv h) cur cur' /\ vstep h h' /\
    (forall n, In n nids -> nn h <= n < nn h') /\
    pre2_ns (fun v => range h h' v /\ ~ In v (ids cur')) h' (map ids sc) (ids cur) (ngr h') cur' nids pns (ids cur').

(* ------------------------------------------------------------------ scopes *)
Lemma SCB_weaken b b' h sc : SCB b h sc -> b <= b' -> SCB b' h sc.
Proof. intros (A & B & C) Hb. split; auto. split; auto. intros t k v Ht Hin. specialize (C _ _ _ Ht Hin). lia. Qed.
Lemma SCB_step h h' sc : SCB (nv h) h sc -> vstep h h' -> SCB (nv h') h' sc.
Proof. intros H S. eapply SCB_weaken; [eapply SCB_ext; eauto; apply vstep_ext; auto | apply vstep_nv; auto]. Qed.

(* ------------------------------------------------------------------ what the unfolding reads from a value *)
Lemma vdesc_vmid h h' v x x' : getv h v = Some x -> getv h' v = Some x' -> vmid x' = vmid x ->
  vdesc_of [] h' v = vdesc_of [] h v.
Proof.
  intros Hx Hx' E. apply vmid_inv in E. destruct E as (E1 & E2 & E3 & E4 & E5 & E6 & E7).
  unfold vdesc_of, tpay. rewrite Hx, Hx', E1, E4, E7. auto.
Qed.
Lemma vdesc_vstep h h' v : vstep h h' -> v < nv h -> vdesc_of [] h' v = vdesc_of [] h v.
Proof.
  intros (_ & V & _) Hv. destruct (getv_some h v Hv) as (x & Hx). destruct (V _ _ Hx) as (x' & Hx' & E).
  eapply vdesc_vmid; eauto.
Qed.
Lemma in_desc_ext2 h h' chain ins : ext h h' -> (forall v, In (Some v) ins -> v < nv h) ->
  map (in_desc h' chain) ins = map (in_desc h chain) ins.
Proof.
  intros E Hs. apply map_ext_in. intros [v|] Hin; simpl; auto.
  destruct (vname_ext h h' v E (Hs _ Hin)) as (A & B & _). rewrite A, B. auto.
Qed.

(* ------------------------------------------------------------------ stability / monotonicity of pre2 *)
Lemma out_rel2_keep (P : nat -> Prop) h h' tbl v k : keepsP P h h' -> out_rel2 P h tbl v k -> out_rel2 P h' tbl v k.
Proof.
  intros K. unfold out_rel2. destruct (N.eqb k 0); auto. intros (A & B & C).
  assert (nv h <= nv h') by (destruct K as (E & _); destruct E as (E & _); auto). csplit; auto; [lia|].
  rewrite (vdesc_keepP P h h' v K); auto.
Qed.
Lemma pre2_n_vstep P h h' outer cur gb tbl n pn cur1 :
  vstep h h' -> pre2_n P h outer cur gb tbl n pn cur1 -> pre2_n P h' outer cur gb tbl n pn cur1.
Proof.
  intros S (y & outs & Hy & H1 & H2 & H3 & H4 & H5 & H6 & H7 & H8 & H9).
  pose proof (vstep_keepsP P _ _ S) as K. pose proof S as (E & _ & C).
  assert (Hnv : nv h <= nv h') by (destruct E; auto).
  exists y, outs. csplit; auto.
  - rewrite <- H5. apply in_desc_ext2; auto.
  - eapply Forall2_imp; [|exact H7]. intros v k. apply out_rel2_keep; auto.
  - intros v Hv. specialize (H8 _ Hv). lia.
  - destruct real2_stable as (_ & _ & _ & Sa & _). eapply Sa; eauto.
Qed.
Lemma pre2_n_mono (P P' : nat -> Prop) h outer cur gb gb' tbl tbl' n pn cur1 :
  (forall v, P v -> P' v) -> gb <= gb' -> (forall k v, lookup k tbl = Some v -> lookup k tbl' = Some v) ->
  pre2_n P h outer cur gb tbl n pn cur1 -> pre2_n P' h outer cur gb' tbl' n pn cur1.
Proof.
  intros HP Hg Ht (y & outs & Hy & H1 & H2 & H3 & H4 & H5 & H6 & H7 & H8 & H9).
  exists y, outs. csplit; auto.
  - eapply Forall2_imp; [|exact H7]. intros v k. unfold out_rel2. destruct (N.eqb k 0); auto. intros (A & B). split; auto.
  - destruct real2_mono as (_ & _ & _ & Ma & _). eapply Ma; eauto.
Qed.
Lemma pre2_ns_vstep P h h' outer gb tbl : vstep h h' ->
  forall pns ns cur lvl, pre2_ns P h outer cur gb tbl ns pns lvl -> pre2_ns P h' outer cur gb tbl ns pns lvl.
Proof.
  intros S. induction pns as [|pn r IH]; intros [|n ns] cur lvl H; cbn in *; auto.
  destruct H as (cur1 & A & B). exists cur1. split; [eapply pre2_n_vstep; eauto | apply IH; auto].
Qed.
Lemma pre2_ns_mono (P P' : nat -> Prop) h outer gb gb' tbl tbl' :
  (forall v, P v -> P' v) -> gb <= gb' -> (forall k v, lookup k tbl = Some v -> lookup k tbl' = Some v) ->
  forall pns ns cur lvl, pre2_ns P h outer cur gb tbl ns pns lvl -> pre2_ns P' h outer cur gb' tbl' ns pns lvl.
Proof.
  intros HP Hg Ht. induction pns as [|pn r IH]; intros [|n ns] cur lvl H; cbn in *; auto.
  destruct H as (cur1 & A & B). exists cur1. split; [eapply pre2_n_mono; eauto | apply IH; auto].
Qed.

(* ------------------------------------------------------------------ attribute lists, graph lists *)
Lemma RA_step h h1 h2 sc x t : RA h h1 sc x t -> vstep h1 h2 -> RA h h2 sc x t.
Proof.
  intros (A & B) S. split; auto. destruct real2_stable as (_ & _ & _ & _ & Sa & _). destruct real2_mono as (_ & _ & _ & _ & Ma & _).
  eapply Ma; [| |eapply Sa; [apply vstep_keepsP; exact S|exact A]].
  - intros v (Hv1 & Hv2). pose proof (vstep_nv _ _ S). unfold range. lia.
  - apply vstep_ngr; auto.
Qed.
Lemma RA_shift h h1 h2 sc x t : RA h1 h2 sc x t -> nv h <= nv h1 -> RA h h2 sc x t.
Proof.
  intros (A & B) Hn. split; auto. destruct real2_mono as (_ & _ & _ & _ & Ma & _).
  eapply Ma; [| |exact A]; auto. intros v (Hv1 & Hv2). unfold range. lia.
Qed.

Lemma PAs_nil : PAs ANil.
Proof. intros sc h h' l HS H. cbn in H. inversion H; subst. exists []. cbn. csplit; auto using vstep_refl. Qed.
Lemma PAs_cons a r : PA a -> PAs r -> PAs (ACons a r).
Proof.
  intros IHa IHr sc h h' l HS H. cbn [deser_attrs] in H. cbn [pu_as].
  destruct (existsb (N.eqb (aproto_name a)) (aproto_names r)) eqn:Edup; [exact (IHr _ _ _ _ HS H)|].
  destruct (deser_attr a sc h) as [[h1 x]|e] eqn:E1; [|discriminate].
  destruct (deser_attrs r sc h1) as [[h2 l2]|e] eqn:E2; [|discriminate]. inversion H; subst; clear H.
  destruct (IHa _ _ _ _ HS E1) as (t & A1 & A2 & A3).
  destruct (IHr _ _ _ _ (SCB_step _ _ _ HS A3) E2) as (ts & B1 & B2 & B3).
  exists (t :: ts). rewrite A1. cbn. rewrite B1. cbn. csplit; auto.
  - constructor; [eapply RA_step; eauto|]. eapply Forall2_imp; [|exact B2]. intros y u Hy. eapply RA_shift; eauto.
    apply vstep_nv; auto.
  - eapply vstep_trans; eauto.
Qed.
Lemma PA_plain k tok bad sbad : PA (APlain k tok bad sbad).
Proof.
  intros sc h h' x HS H. cbn in H. destruct bad; [discriminate|]. inversion H; subst. exists (TPlain k tok sbad). cbn.
  csplit; auto using vstep_refl. split; reflexivity.
Qed.
Lemma PA_graph k g : PG g -> PA (AGraph k g).
Proof.
  intros IHg sc h h' x HS H. cbn in H.
  destruct (deser_graph g sc h) as [[h1 gid]|e] eqn:E1; [|discriminate]. inversion H; subst; clear H.
  destruct (IHg _ _ _ _ HS E1) as (T & A1 & A2 & A3 & A4). exists (TGraph k T). cbn. rewrite A1. cbn. csplit; auto.
  split; [|reflexivity]. cbn. exists gid. csplit; auto. lia.
Qed.
Lemma PA_graphs k gs : PGs gs -> PA (AGraphs k gs).
Proof.
  intros IHg sc h h' x HS H. cbn in H.
  destruct (deser_graphs gs sc h) as [[h1 l]|e] eqn:E1; [|discriminate]. inversion H; subst; clear H.
  destruct (IHg _ _ _ _ HS E1) as (Ts & A1 & A2 & A3). exists (TGraphs k (gtrees_of Ts)). cbn. rewrite A1. cbn. csplit; auto.
  split; [|reflexivity]. cbn. exists l. split; auto. apply real2_gs_list. exact A2.
Qed.
Lemma PGs_nil : PGs GNil.
Proof. intros sc h h' l HS H. cbn in H. inversion H; subst. exists []. cbn. csplit; auto using vstep_refl. Qed.
Lemma PGs_cons g r : PG g -> PGs r -> PGs (GCons g r).
Proof.
  intros IHg IHr sc h h' l HS H. cbn in H.
  destruct (deser_graph g sc h) as [[h1 gid]|e] eqn:E1; [|discriminate].
  destruct (deser_graphs r sc h1) as [[h2 l2]|e] eqn:E2; [|discriminate]. inversion H; subst; clear H.
  destruct (IHg _ _ _ _ HS E1) as (T & A1 & A2 & A3 & A4).
  destruct (IHr _ _ _ _ (SCB_step _ _ _ HS A3) E2) as (Ts & B1 & B2 & B3).
  exists (T :: Ts). cbn. rewrite A1. cbn. rewrite B1. cbn. csplit; auto.
  - pose proof (vstep_nv _ _ B3). pose proof (vstep_ngr _ _ B3). pose proof (vstep_nv _ _ A3).
    destruct real2_stable as (Sg & _). destruct real2_mono as (Mg & _). constructor.
    + split; [lia|]. eapply Mg; [|eapply Sg; [apply vstep_keepsP; exact B3|exact A2]]. intros v (V1 & V2). unfold range. lia.
    + eapply Forall2_imp; [|exact B2]. intros g' T' (G1 & G2). split; auto. eapply Mg; [|exact G2].
      intros v (V1 & V2). unfold range. lia.
  - eapply vstep_trans; eauto.
Qed.

(* ------------------------------------------------------------------ nodes *)
Lemma PNs_nil : PNs NNil.
Proof.
  intros b sc vis h cur h' cur' nids HS HT Hb H. cbn in H. inversion H; subst. exists []. cbn.
  csplit; auto using vstep_refl, grows_refl. intros n [].
Qed.
Lemma PNs_cons n r : PN n -> PNs r -> PNs (NCons n r).
Proof.
  intros IHn IHr b sc vis h cur h' cur' nids HS HT Hb H. cbn in H.
  destruct (deser_node n cur sc vis h) as [[[h1 c1] nid]|e] eqn:E1; [|discriminate].
  destruct (deser_nodes r c1 sc vis h1) as [[[h2 c2] l]|e] eqn:E2; [|discriminate]. inversion H; subst; clear H.
  destruct (IHn _ _ _ _ _ _ _ _ HS HT Hb E1) as (pn & A1 & A2 & A3 & A4 & A5 & A6).
  pose proof (vstep_nv _ _ A4) as N1.
  destruct (IHr b sc vis h1 c1 h' cur' l) as (pns & B1 & B2 & B3 & B4 & B5 & B6); auto.
  { eapply SCB_ext; eauto. apply vstep_ext; auto. }
  { lia. }
  pose proof (vstep_nv _ _ B4) as N2. pose proof (vstep_nn _ _ B4) as N3. pose proof (vstep_nn _ _ A4) as N4.
  exists (pn :: pns). cbn. rewrite A1. cbn. rewrite B1. cbn. csplit; auto.
  - eapply grows_trans; eauto.
  - eapply vstep_trans; eauto.
  - intros m [<-|Hm]; [lia|]. specialize (B5 _ Hm). lia.
  - exists (ids c1). split.
    + eapply pre2_n_mono; [| | |eapply pre2_n_vstep; [exact B4|exact A6]].
      * intros v ((V1 & V2) & V3). split; [unfold range in *; lia|].
        intros Hin. destruct (grows_ids _ _ _ B3) as (e & Ee & He). rewrite Ee in Hin. apply in_app_or in Hin.
        destruct Hin as [Hin|Hin]; [contradiction|]. apply He in Hin. unfold range in *. lia.
      * apply vstep_ngr; auto.
      * intros k v. eapply grows_lookup; eauto.
    + eapply pre2_ns_mono; [| | |exact B6]; auto.
      intros v ((V1 & V2) & V3). split; auto. unfold range in *. lia.
Qed.

Lemma vdesc_fresh0 h v : getv h v = Some (fresh_value (Some 0%N) None 0%N) -> vdesc_of [] h v = empty_vd.
Proof. intros H. unfold vdesc_of. rewrite H. reflexivity. Qed.

Lemma PN_case nname op ntok ins outs attrs : PAs attrs -> PN (Np nname op ntok ins outs attrs).
Proof.
  intros IHa b sc vis h cur h' cur' nid HS HT Hb H. cbn in H.
  destruct (resolve_inputs h cur sc vis ins) as [[[h1 c1] invs]|e] eqn:E1; [|discriminate].
  destruct (resolve_inputs_pu _ _ _ _ _ _ _ _ _ E1 HT Hb HS) as (its & I1 & I2 & I3 & I4 & I5 & I6 & I7 & I8 & I9 & I10).
  destruct (resolve_outputs h1 c1 outs) as [[h2 outvs]|e] eqn:E2; [|discriminate].
  destruct (resolve_outputs_inv _ _ _ _ _ E2) as (O1 & O2 & O3 & O4 & O5 & O6).
  destruct (deser_attrs attrs (c1 :: sc) h2) as [[h3 al]|e] eqn:E3; [|discriminate].
  pose proof (vstep_nv _ _ I4) as N01. pose proof (vstep_nv _ _ O2) as N12.
  assert (HS2 : SCB (nv h2) h2 (c1 :: sc)).
  { apply SCB_nested with (b := b).
    - eapply TBL_vstep; eauto.
    - eapply SCB_ext; eauto. apply vstep_ext. eapply vstep_trans; eauto. }
  destruct (IHa _ _ _ _ HS2 E3) as (ts & A1 & A2 & A3).
  destruct (new_node h3 (Some nname) op ntok invs outvs al) as [[h4 nid']|e] eqn:E4; [|discriminate].
  inversion H; subst h4 c1 nid'; clear H.
  destruct (new_node_inv2 _ _ _ _ _ _ _ _ _ E4) as (M1 & M2 & M3 & M4 & M5 & M6 & M7).
  pose proof (vstep_nv _ _ A3) as N23. pose proof (vstep_nn _ _ I4) as K01. pose proof (vstep_nn _ _ O2) as K12.
  pose proof (vstep_nn _ _ A3) as K23.
  assert (S24 : vstep h2 h') by (eapply vstep_trans; eauto).
  assert (S14 : vstep h1 h') by (eapply vstep_trans; eauto).
  cbn [pu_n]. rewrite I1. cbn [obind]. cbn [map] in A1. rewrite A1. cbn [obind].
  eexists. split; [reflexivity|]. csplit; auto.
  - eapply TBL_vstep; eauto.
  - eapply vstep_trans; eauto.
  - lia.
  - assert (Hc1 : forall v, In v (ids cur') -> v < nv h1).
    { intros v Hv. destruct (TBL_ids_lt _ _ _ _ I2 Hv). auto. }
    exists (mkN (Some nname) op ntok invs outvs (dict_of [] al) None), outs. cbn [n_name n_op n_tok n_inputs n_outputs n_attrs pn_name pn_op pn_tok pn_ins pn_outs pn_attrs].
    csplit; auto.
    + rewrite <- I9. apply in_desc_ext2; [apply vstep_ext; auto | auto].
    + eapply Forall2_imp_In; [|exact (Forall2_flp _ _ _ O1)]. intros v k _ _ Hk. cbv beta in Hk. unfold out_rel2.
      destruct (N.eqb k 0); auto. destruct Hk as (V1 & V2). csplit.
      * split; [unfold range; lia|]. intros Hin. apply Hc1 in Hin. lia.
      * lia.
      * rewrite (vdesc_vstep h2 h' v S24) by lia. apply vdesc_fresh0; auto.
    + intros v Hv. specialize (I10 _ Hv). lia.
    + apply real2_as_list.
      set (R' := fun (x : name * attr) (t : atree) =>
                   real2_a (fun v => range h h' v /\ ~ In v (ids cur')) h' (ids cur' :: map ids sc) (ngr h') x t /\ fst x = aname t).
      assert (F : Forall2 R' al ts).
      { eapply Forall2_imp; [|exact A2]. intros x t Hxt. destruct (RA_step _ _ _ _ _ _ Hxt M7) as (R1 & R2). split; auto.
        destruct real2_mono as (_ & _ & _ & _ & Ma & _). eapply Ma; [| |exact R1]; auto.
        intros v (V1 & V2). split; [unfold range in *; lia|]. intros Hin. apply Hc1 in Hin. unfold range in *; lia. }
      pose proof (dict_adict R' al ts (fun x t Hr => proj2 Hr) F) as D.
      eapply Forall2_imp; [|exact D]. intros x t (R1 & _). exact R1.
Qed.

(* C17/Fix2Specs.v — statements of the lemmas behind the re-serialization fixpoint for arbitrary deserialized
   states (generalised unfolding, C17/Tree2.v).  Definitions only. *)
From Coq Require Import NArith List Bool Arith.
From IRV Require Import Base.Exn C03.Model C03.Canon C03.Inv C03.Tree C03.TreeF C03.PayFixDefs C17.Tree2.
Import ListNotations.

(* (A2) the serializer succeeds on a state whose generalised unfolding is well formed and writes its proto *)
Definition ser2_spec : Prop :=
  forall np h m,
    np_ok np = true -> wf2_m (unfold2_model np h m) = true ->
    exists h1, ser_model np h m = Ok (h1, t2p_m (unfold2_model np h m)).

(* (B2) the deserializer accepts the proto of every well-formed tree and rebuilds a state unfolding to it *)
Definition deser2_spec : Prop :=
  forall M,
    wf2_m M = true ->
    exists h2 m2, deser_model (t2p_m M) = Ok (h2, m2) /\ unfold2_model [] h2 m2 = M.

(* (P2) payload fixed points, for the generalised unfolding *)
Definition payfix2_spec : Prop :=
  (forall np h m, np_ok np = true -> np_idem np = true -> pf_m np (unfold2_model np h m) = true) /\
  (forall np h m, pf_m np (unfold2_model [] h m) = true -> unfold2_model np h m = unfold2_model [] h m).

(* C17/Fix2DeserB.v — the relational form real2_g of the generalised unfolding (levels threaded through the
   nodes), its stability under keeps, monotonicity, and the bridge to unfold2_graph. *)
From Coq Require Import NArith List Bool Arith Lia.
From IRV Require Import Base.Exn C03.Model C03.Canon C03.Inv C03.Tree C03.TreeF C03.IsoSpecs C17.Basics C17.Specs C17.Steps C17.Phases C17.OpNode C17.OpGraph C17.Deser C03.IsoDeserA C03.IsoDeserB C03.IsoDeserC C17.Tree2 C17.Fix2DeserA.
Import ListNotations.

Fixpoint real2_g (Q : nat -> Prop) (h : heap) (chain : list (list nat)) (g : nat) (T : gtree) {struct T} : Prop :=
  match T with
  | GBad => False
  | GT gname gtok ins inits nodes outs =>
    exists z lvl, getg h g = Some z /\ g_name z = gname /\ g_tok z = gtok /\
      map (vdesc_of [] h) (g_inputs z) = ins /\
      map (idesc_of [] h z) (g_inits z) = inits /\
      map (fun v => (find_ref v [lvl] 0, vdesc_of [] h v)) (g_outputs z) = outs /\
      (forall v, In v (g_inputs z) -> (Q v /\ v < nv h)) /\
      (forall kv, In kv (g_inits z) -> (Q (snd kv) /\ snd kv < nv h) /\ id_tensor (idesc_of [] h z kv) <> None) /\
      (forall v, In v (g_outputs z) -> (Q v /\ v < nv h)) /\
      real2_ns Q h chain (gdefs h z) (g_nodes z) nodes lvl
  end
with real2_ns (Q : nat -> Prop) (h : heap) (outer : list (list nat)) (cur : list nat) (ns : list nat) (Ts : ntrees)
              (lvl : list nat) {struct Ts} : Prop :=
  match Ts with
  | TNil => ns = [] /\ lvl = cur
  | TCons t r => match ns with
                 | [] => False
                 | n :: ns' => exists cur1, real2_n Q h outer cur n t cur1 /\ real2_ns Q h outer cur1 ns' r lvl
                 end
  end
with real2_n (Q : nat -> Prop) (h : heap) (outer : list (list nat)) (cur : list nat) (n : nat) (t : ntree)
             (cur1 : list nat) {struct t} : Prop :=
  match t with
  | NBad => False
  | NT nname op ntok ins outs attrs =>
    exists y, getn h n = Some y /\ (match n_name y with Some k => k | None => 0%N end) = nname /\
      n_op y = op /\ n_tok y = ntok /\
      cur1 = add_frees outer cur (n_inputs y) /\
      map (in_desc h (cur1 :: outer)) (n_inputs y) = ins /\
      map (vdesc_of [] h) (trim_outputs h (n_outputs y)) = outs /\
      (forall v, In (Some v) (n_inputs y) -> v < nv h) /\
      (forall v, In v (n_outputs y) -> (Q v /\ v < nv h)) /\
      real2_as Q h (cur1 :: outer) (n_attrs y) attrs
  end
with real2_as (Q : nat -> Prop) (h : heap) (chain : list (list nat)) (al : list (name * attr)) (Ts : atrees) {struct Ts} : Prop :=
  match Ts with
  | TANil => al = []
  | TACons t r => match al with [] => False | a :: al' => real2_a Q h chain a t /\ real2_as Q h chain al' r end
  end
with real2_a (Q : nat -> Prop) (h : heap) (chain : list (list nat)) (a : name * attr) (t : atree) {struct t} : Prop :=
  match t with
  | TPlain k tok sbad => a = (k, AtPlain tok sbad)
  | TGraph k gt => exists g, a = (k, AtGraph g) /\ real2_g Q h chain g gt
  | TGraphs k Ts => exists gs, a = (k, AtGraphs gs) /\ real2_gs Q h chain gs Ts
  end
with real2_gs (Q : nat -> Prop) (h : heap) (chain : list (list nat)) (gs : list nat) (Ts : gtrees) {struct Ts} : Prop :=
  match Ts with
  | TGNil => gs = []
  | TGCons gt r => match gs with [] => False | g :: gs' => real2_g Q h chain g gt /\ real2_gs Q h chain gs' r end
  end.

(* keeps relative to a protected set of values *)
Definition keepsP (Q : nat -> Prop) (h h' : heap) : Prop :=
  ext h h' /\ forall v x, Q v -> getv h v = Some x -> exists x', getv h' v = Some x' /\ vview x' = vview x.
Lemma keeps_keepsP lo (Q : nat -> Prop) h h' : (forall v, Q v -> lo <= v) -> keeps lo h h' -> keepsP Q h h'.
Proof. intros Hq (A & B). split; auto. Qed.
Lemma nested_keepsP Q h h' : nested h h' -> keepsP Q h h'.
Proof. intros N. apply (keeps_keepsP 0); [intros; lia | apply nested_keeps; auto]. Qed.
Lemma vdesc_keepP Q h h' v : keepsP Q h h' -> Q v -> v < nv h -> vdesc_of [] h' v = vdesc_of [] h v.
Proof.
  intros (_ & K) Hq Hv. destruct (getv_some h v Hv) as (x & Hx). destruct (K _ _ Hq Hx) as (x' & Hx' & E).
  unfold vdesc_of, tpay. rewrite Hx, Hx'. apply vview_inv in E. destruct E as (E1 & E2 & E3 & E4). rewrite E1, E3, E4. auto.
Qed.
Lemma idesc_keepP Q h h' z kv : keepsP Q h h' -> Q (snd kv) -> snd kv < nv h -> id_tensor (idesc_of [] h z kv) <> None ->
  idesc_of [] h' z kv = idesc_of [] h z kv.
Proof.
  intros (E & K) Hl Hv Ht. destruct (getv_some h _ Hv) as (x & Hx). destruct (K _ _ Hl Hx) as (x' & Hx' & Ev).
  unfold idesc_of in *. rewrite Hx in *. rewrite Hx'. apply vview_inv in Ev. destruct Ev as (E1 & E2 & E3 & E4).
  unfold tpay. rewrite E1, E2, E3. simpl in Ht.
  destruct (v_const x) as [c|]; [|congruence]. destruct (gett h c) as [t|] eqn:Et; [|congruence].
  destruct E as (_ & _ & _ & _ & _ & _ & E7). rewrite (E7 _ _ Et). auto.
Qed.

Lemma real2_ns_nodes Q h outer : forall Ts cur ns lvl, real2_ns Q h outer cur ns Ts lvl ->
  forall n, In n ns -> exists y, getn h n = Some y /\ forall v, In v (n_outputs y) -> v < nv h.
Proof.
  induction Ts as [|t r IH]; intros cur ns lvl H n Hin.
  - destruct H as (-> & _). destruct Hin.
  - destruct ns as [|m ns']; [destruct H|]. destruct H as (cur1 & Hn & Hr). destruct Hin as [->|Hin]; [|eauto].
    destruct t; [destruct Hn|]. destruct Hn as (y & Hy & _ & _ & _ & _ & _ & _ & _ & Ho & _).
    exists y. split; auto. intros v Hv. apply Ho in Hv. lia.
Qed.

Definition S2g (T : gtree) := forall Q h h' chain g, keepsP Q h h' -> real2_g Q h chain g T -> real2_g Q h' chain g T.
Definition S2ns (Ts : ntrees) := forall Q h h' outer cur ns lvl, keepsP Q h h' ->
  real2_ns Q h outer cur ns Ts lvl -> real2_ns Q h' outer cur ns Ts lvl.
Definition S2n (t : ntree) := forall Q h h' outer cur n cur1, keepsP Q h h' ->
  real2_n Q h outer cur n t cur1 -> real2_n Q h' outer cur n t cur1.
Definition S2as (Ts : atrees) := forall Q h h' chain al, keepsP Q h h' -> real2_as Q h chain al Ts -> real2_as Q h' chain al Ts.
Definition S2a (t : atree) := forall Q h h' chain a, keepsP Q h h' -> real2_a Q h chain a t -> real2_a Q h' chain a t.
Definition S2gs (Ts : gtrees) := forall Q h h' chain gs, keepsP Q h h' -> real2_gs Q h chain gs Ts -> real2_gs Q h' chain gs Ts.

Theorem real2_stable :
  (forall T, S2g T) /\ (forall Ts, S2ns Ts) /\ (forall t, S2n t) /\ (forall Ts, S2as Ts) /\ (forall t, S2a t) /\ (forall Ts, S2gs Ts).
Proof.
  apply tree_mutind.
  - intros Q h h' chain g K H. destruct H.
  - intros gname gtok ins inits nodes IHn outs Q h h' chain g K H. cbn [real2_g] in H |- *.
    destruct H as (z & lvl & Hz & H1 & H2 & H3 & H4 & H5 & H6 & H7 & H8 & H9).
    pose proof K as (E & K').
    assert (Hgd : gdefs h' z = gdefs h z).
    { apply gdefs_ext; auto. eapply real2_ns_nodes; eauto. }
    assert (Hnv : nv h <= nv h') by (destruct E; auto).
    exists z, lvl. csplit; auto.
    + destruct E as (_ & _ & _ & _ & _ & E6 & _). auto.
    + rewrite <- H3. apply map_ext_in. intros v Hv. destruct (H6 _ Hv). eapply vdesc_keepP; eauto.
    + rewrite <- H4. apply map_ext_in. intros kv Hkv. destruct (H7 _ Hkv) as ((A & B) & C). eapply idesc_keepP; eauto.
    + rewrite <- H5. apply map_ext_in. intros v Hv. destruct (H8 _ Hv). f_equal. eapply vdesc_keepP; eauto.
    + intros v Hv. destruct (H6 _ Hv). split; auto. lia.
    + intros kv Hkv. destruct (H7 _ Hkv) as ((A & B) & C). split; [split; auto; lia|]. erewrite idesc_keepP; eauto.
    + intros v Hv. destruct (H8 _ Hv). split; auto. lia.
    + rewrite Hgd. eapply IHn; eauto.
  - intros Q h h' outer cur ns lvl K H. exact H.
  - intros t IHt r IHr Q h h' outer cur ns lvl K H. cbn [real2_ns] in H |- *. destruct ns as [|n ns']; auto.
    destruct H as (cur1 & A & B). exists cur1. split; [eapply IHt | eapply IHr]; eauto.
  - intros Q h h' outer cur n cur1 K H. destruct H.
  - intros nname op ntok ins outs attrs IHa Q h h' outer cur n cur1 K H. cbn [real2_n] in H |- *.
    destruct H as (y & Hy & H1 & H2 & H3 & Hc & H4 & H5 & H6 & H7 & H8).
    pose proof K as (E & K').
    assert (Hnv : nv h <= nv h') by (destruct E; auto).
    pose proof E as (_ & _ & _ & _ & E5 & _). destruct (E5 _ _ Hy) as (y' & Hy' & Ef).
    apply nfix_inv in Ef. destruct Ef as (F1 & F2 & F3 & F4 & F5 & F6).
    exists y'. rewrite F1, F2, F3, F4, F5, F6. csplit; auto.
    + rewrite <- H4. apply map_ext_in. intros [v|] Hin; simpl; auto.
      destruct (vname_ext h h' v E (H6 _ Hin)) as (A & B & _). rewrite A, B. auto.
    + rewrite <- H5. rewrite (trim_ext h h') by (auto; intros v Hv; apply H7 in Hv; lia).
      apply map_ext_in. intros v Hv. apply trim_incl in Hv. destruct (H7 _ Hv). eapply vdesc_keepP; eauto.
    + intros v Hv. specialize (H6 _ Hv). lia.
    + intros v Hv. destruct (H7 _ Hv). split; auto. lia.
    + eapply IHa; eauto.
  - intros Q h h' chain al K H. exact H.
  - intros t IHt r IHr Q h h' chain al K H. cbn [real2_as] in H |- *. destruct al as [|a al']; auto.
    destruct H. split; [eapply IHt | eapply IHr]; eauto.
  - intros k tok sbad Q h h' chain a K H. exact H.
  - intros k T IH Q h h' chain a K H. cbn [real2_a] in H |- *. destruct H as (g & Ha & Hg). exists g. split; auto.
    eapply IH; eauto.
  - intros k Ts IH Q h h' chain a K H. cbn [real2_a] in H |- *. destruct H as (gs & Ha & Hg). exists gs. split; auto.
    eapply IH; eauto.
  - intros Q h h' chain gs K H. exact H.
  - intros T IHT r IHr Q h h' chain gs K H. cbn [real2_gs] in H |- *. destruct gs as [|g gs']; auto.
    destruct H. split; [eapply IHT | eapply IHr]; eauto.
Qed.

(* the protected set may be replaced by any set that contains it on the allocated values *)
Definition Qle (h : heap) (Q Q' : nat -> Prop) : Prop := forall v, v < nv h -> Q v -> Q' v.
Definition M2g (T : gtree) := forall Q Q' h chain g, Qle h Q Q' -> real2_g Q h chain g T -> real2_g Q' h chain g T.
Definition M2ns (Ts : ntrees) := forall Q Q' h outer cur ns lvl, Qle h Q Q' ->
  real2_ns Q h outer cur ns Ts lvl -> real2_ns Q' h outer cur ns Ts lvl.
Definition M2n (t : ntree) := forall Q Q' h outer cur n cur1, Qle h Q Q' ->
  real2_n Q h outer cur n t cur1 -> real2_n Q' h outer cur n t cur1.
Definition M2as (Ts : atrees) := forall Q Q' h chain al, Qle h Q Q' -> real2_as Q h chain al Ts -> real2_as Q' h chain al Ts.
Definition M2a (t : atree) := forall Q Q' h chain a, Qle h Q Q' -> real2_a Q h chain a t -> real2_a Q' h chain a t.
Definition M2gs (Ts : gtrees) := forall Q Q' h chain gs, Qle h Q Q' -> real2_gs Q h chain gs Ts -> real2_gs Q' h chain gs Ts.

Theorem real2_mono :
  (forall T, M2g T) /\ (forall Ts, M2ns Ts) /\ (forall t, M2n t) /\ (forall Ts, M2as Ts) /\ (forall t, M2a t) /\ (forall Ts, M2gs Ts).
Proof.
  apply tree_mutind.
  - intros Q Q' h chain g K H. destruct H.
  - intros gname gtok ins inits nodes IHn outs Q Q' h chain g K H. cbn [real2_g] in H |- *.
    destruct H as (z & lvl & Hz & H1 & H2 & H3 & H4 & H5 & H6 & H7 & H8 & H9).
    exists z, lvl. csplit; auto.
    + intros v Hv. destruct (H6 _ Hv). split; auto.
    + intros kv Hkv. destruct (H7 _ Hkv) as ((A & B) & C). split; [split; auto|auto].
    + intros v Hv. destruct (H8 _ Hv). split; auto.
    + eapply IHn; eauto.
  - intros Q Q' h outer cur ns lvl K H. exact H.
  - intros t IHt r IHr Q Q' h outer cur ns lvl K H. cbn [real2_ns] in H |- *. destruct ns as [|n ns']; auto.
    destruct H as (cur1 & A & B). exists cur1. split; [eapply IHt | eapply IHr]; eauto.
  - intros Q Q' h outer cur n cur1 K H. destruct H.
  - intros nname op ntok ins outs attrs IHa Q Q' h outer cur n cur1 K H. cbn [real2_n] in H |- *.
    destruct H as (y & Hy & H1 & H2 & H3 & Hc & H4 & H5 & H6 & H7 & H8).
    exists y. csplit; auto.
    + intros v Hv. destruct (H7 _ Hv). split; auto.
    + eapply IHa; eauto.
  - intros Q Q' h chain al K H. exact H.
  - intros t IHt r IHr Q Q' h chain al K H. cbn [real2_as] in H |- *. destruct al as [|a al']; auto.
    destruct H. split; [eapply IHt | eapply IHr]; eauto.
  - intros k tok sbad Q Q' h chain a K H. exact H.
  - intros k T IH Q Q' h chain a K H. cbn [real2_a] in H |- *. destruct H as (g & Ha & Hg). exists g. split; auto.
    eapply IH; eauto.
  - intros k Ts IH Q Q' h chain a K H. cbn [real2_a] in H |- *. destruct H as (gs & Ha & Hg). exists gs. split; auto.
    eapply IH; eauto.
  - intros Q Q' h chain gs K H. exact H.
  - intros T IHT r IHr Q Q' h chain gs K H. cbn [real2_gs] in H |- *. destruct gs as [|g gs']; auto.
    destruct H. split; [eapply IHT | eapply IHr]; eauto.
Qed.

(* ------------------------------------------------------------------ bridge *)
Definition B2g (T : gtree) := forall Q h chain g, real2_g Q h chain g T ->
  forall fuel, depth_g T < fuel -> unfold2_graph [] fuel h chain g = T.
Definition B2ns (Ts : ntrees) := forall Q h outer cur ns lvl, real2_ns Q h outer cur ns Ts lvl ->
  forall f, depth_ns Ts < f ->
  exists nts, unfold2_nodes [] h (unfold2_graph [] f h) outer cur ns = (nts, lvl) /\ ntrees_of nts = Ts.
Definition B2n (t : ntree) := forall Q h outer cur n cur1, real2_n Q h outer cur n t cur1 ->
  forall f, depth_n t < f -> unfold2_node [] h (unfold2_graph [] f h) outer cur n = (t, cur1).
Definition B2as (Ts : atrees) := forall Q h chain al, real2_as Q h chain al Ts ->
  forall f, depth_as Ts < f -> atrees_of (map (unfold_attr (unfold2_graph [] f h) chain) al) = Ts.
Definition B2a (t : atree) := forall Q h chain a, real2_a Q h chain a t ->
  forall f, depth_a t < f -> unfold_attr (unfold2_graph [] f h) chain a = t.
Definition B2gs (Ts : gtrees) := forall Q h chain gs, real2_gs Q h chain gs Ts ->
  forall f, depth_gs Ts < f -> gtrees_of (map (unfold2_graph [] f h chain) gs) = Ts.

Theorem real2_unfold :
  (forall T, B2g T) /\ (forall Ts, B2ns Ts) /\ (forall t, B2n t) /\ (forall Ts, B2as Ts) /\ (forall t, B2a t) /\ (forall Ts, B2gs Ts).
Proof.
  apply tree_mutind.
  - intros Q h chain g H. destruct H.
  - intros gname gtok ins inits nodes IHn outs lo h chain g H fuel Hf. cbn [real2_g] in H. simpl in Hf.
    destruct H as (z & lvl & Hz & H1 & H2 & H3 & H4 & H5 & H6 & H7 & H8 & H9).
    destruct fuel as [|f]; [lia|]. simpl. unfold unfold2_graph_body. rewrite Hz.
    destruct (IHn _ _ _ _ _ _ H9 f) as (nts & En & Et); [lia|]. rewrite En.
    rewrite H1, H2, H3, H4, H5, Et. reflexivity.
  - intros Q h outer cur ns lvl H f Hf. destruct H as (-> & ->). exists []. split; reflexivity.
  - intros t IHt r IHr lo h outer cur ns lvl H f Hf. cbn [real2_ns] in H. simpl in Hf.
    destruct ns as [|n ns']; [destruct H|]. destruct H as (cur1 & Hn & Hr).
    destruct (IHr _ _ _ _ _ _ Hr f) as (nts & En & Et); [lia|].
    exists (t :: nts). cbn [unfold2_nodes]. rewrite (IHt _ _ _ _ _ _ Hn f) by lia. rewrite En. simpl. split; congruence.
  - intros Q h outer cur n cur1 H. destruct H.
  - intros nname op ntok ins outs attrs IHa lo h outer cur n cur1 H f Hf. cbn [real2_n] in H. simpl in Hf.
    destruct H as (y & Hy & H1 & H2 & H3 & Hc & H4 & H5 & H6 & H7 & H8).
    unfold unfold2_node. rewrite Hy, H2, H3, <- Hc. unfold in_desc in H4. rewrite H4, H5. f_equal. f_equal; [exact H1|].
    eapply IHa; eauto.
  - intros Q h chain al H f Hf. simpl in H. subst. reflexivity.
  - intros t IHt r IHr lo h chain al H f Hf. simpl in H, Hf. destruct al as [|a al']; [destruct H|].
    destruct H as (Hn & Hr). simpl. f_equal; [eapply IHt | eapply IHr]; eauto; lia.
  - intros k tok sbad lo h chain a H f Hf. simpl in H. subst. reflexivity.
  - intros k T IH lo h chain a H f Hf. simpl in H, Hf. destruct H as (g & -> & Hg).
    unfold unfold_attr; simpl. f_equal. eapply IH; eauto.
  - intros k Ts IH lo h chain a H f Hf. simpl in H, Hf. destruct H as (gs & -> & Hg).
    unfold unfold_attr; simpl. f_equal. eapply IH; eauto.
  - intros Q h chain gs H f Hf. simpl in H. subst. reflexivity.
  - intros T IHT r IHr lo h chain gs H f Hf. simpl in H, Hf. destruct gs as [|g gs']; [destruct H|].
    destruct H as (Hn & Hr). simpl. f_equal; [eapply IHT | eapply IHr]; eauto; lia.
Qed.
